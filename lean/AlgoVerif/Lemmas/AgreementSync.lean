import AlgoVerif.Spec.AgreementSync
import AlgoVerif.Lemmas.AgreementAbsLift
import AlgoVerif.Lemmas.AgreementSyncPhase
/-!
Lemmas about the synchronous phase `Spec.AgreementSync` (C05): the two main results `syncFresh_commits` and `syncAdvance_spec`
used by `Props/C05.lean` (generic facts about `phase` are in `Lemmas/AgreementSyncPhase.lean`).
-/
namespace AlgoVerif.Lemmas.AgreementSync
open AlgoVerif.Spec.AgreementAbs AlgoVerif.Spec.AgreementSync AlgoVerif.Lemmas.AgreementAbs

/-- an honest online supermajority: the honest weight alone reaches the threshold -/
def HonestQuorum (P : Params) : Prop := P.T ≤ wt P (fun n => P.honest n)
instance (P : Params) : Decidable (HonestQuorum P) := by unfold HonestQuorum; infer_instance

/-- every honest node is in period `p`, has not voted in `p`, has not committed -/
def FreshAt (P : Params) (h : List Ev) (p : Nat) : Prop :=
  ∀ n ∈ hon P, (localOf h n).period = p ∧ ownVotes h n p = [] ∧ committedB h n = false
instance (P h p) : Decidable (FreshAt P h p) := by unfold FreshAt; infer_instance

/-- every honest node reads the same cache for the previous period -/
def CommonStart (P : Params) (h : List Ev) (p : Nat) (c : Cache) : Prop :=
  ∀ n ∈ hon P, (localOf h n).prev p = c
instance (P h p c) : Decidable (CommonStart P h p c) := by unfold CommonStart; infer_instance

/-! ### quorums of honest votes -/

theorem honest_votes_quorum {P : Params} (hT : HonestQuorum P) {h : List Ev} {p s x}
    (hv : ∀ n ∈ hon P, VotedFor h n p s x) : Q P h p s x := by
  unfold Q
  refine Nat.le_trans hT (wtl_mono ?_)
  intro n hn hh
  exact inSupp_iff.2 (Or.inl (hv n (mem_hon.2 ⟨hn, hh⟩)))

/-! ### `syncFresh` -/

theorem softOf_quiet (E : Env) (h : List Ev) (p : Nat) (m : Node) : ∀ e ∈ softOf E h p m, Quiet e := by
  intro e he
  unfold softOf at he
  split at he
  · split at he
    · simp only [List.mem_singleton] at he; subst he; trivial
    · simp at he
  · simp at he

theorem certOf_quiet (P : Params) (E : Env) (h : List Ev) (p : Nat) (m : Node) :
    ∀ e ∈ certOf P E h p m, Quiet e := by
  intro e he
  unfold certOf at he
  split at he
  · split at he
    · simp only [List.mem_singleton] at he; subst he; trivial
    · simp at he
  · simp at he

theorem quiet_not_commit {f : Node → List Ev} (hf : ∀ m, ∀ e ∈ f m, ∃ v, e = Ev.vote v) :
    ∀ m, ∀ e ∈ f m, ∀ n p v, e ≠ Ev.commit n p v := by
  intro m e he n p v heq
  obtain ⟨u, hu⟩ := hf m e he
  rw [hu] at heq; cases heq

theorem softOf_votes (E : Env) (h : List Ev) (p : Nat) (m : Node) :
    ∀ e ∈ softOf E h p m, ∃ x, e = Ev.vote ⟨m, p, .soft, x⟩ := by
  intro e he
  unfold softOf at he
  split at he
  · split at he
    · simp only [List.mem_singleton] at he; exact ⟨_, he⟩
    · simp at he
  · simp at he

theorem certOf_votes (P : Params) (E : Env) (h : List Ev) (p : Nat) (m : Node) :
    ∀ e ∈ certOf P E h p m, ∃ x, e = Ev.vote ⟨m, p, .cert, x⟩ := by
  intro e he
  unfold certOf at he
  split at he
  · split at he
    · simp only [List.mem_singleton] at he; exact ⟨_, he⟩
    · simp at he
  · simp at he

theorem syncFresh_commits {P : Params} {E : Env} {h : List Ev} {p : Nat} {c : Cache} {w : Val}
    (hT : HonestQuorum P) (hf : FreshAt P h p) (hc : CommonStart P h p c)
    (hw : softValue E c = some w) (ha : E.avail w = true) :
    ∃ v, certQ P (syncFresh P E p h) p v ∧ ∀ n ∈ hon P, Ev.commit n p v ∈ syncFresh P E p h := by
  cases hne : hon P with
  | nil =>
      refine ⟨0, honest_votes_quorum hT ?_, ?_⟩
      · intro n hn; rw [hne] at hn; simp at hn
      · intro n hn; simp at hn
  | cons n0 rest =>
  have hn0 : n0 ∈ hon P := by rw [hne]; exact List.mem_cons_self
  rw [← hne]
  clear hne rest
  -- h1: the soft votes
  have hsoft : ∀ n ∈ hon P, softOf E h p n = [Ev.vote ⟨n, p, .soft, some w⟩] := by
    intro n hn
    obtain ⟨h1, h2, _⟩ := hf n hn
    unfold softOf
    rw [if_pos ⟨h1, h2⟩, hc n hn, hw]
  have e1 : filterTimeout P E p h = phase P h (softOf E h p) := rfl
  generalize hh1 : filterTimeout P E p h = h1 at e1
  have loc1 : ∀ n, localOf h1 n = localOf h n := fun n => by
    rw [e1]; exact localOf_phase_quiet (softOf_quiet E h p) n
  have com1 : ∀ n, committedB h1 n = committedB h n := fun n => by
    rw [e1]
    exact committedB_phase (quiet_not_commit (fun m e he => by
      obtain ⟨x, hx⟩ := softOf_votes E h p m e he; exact ⟨_, hx⟩)) n
  have v1 : ∀ n ∈ hon P, VotedFor h1 n p .soft (some w) := by
    intro n hn
    unfold VotedFor
    rw [e1, mem_votes_phase]
    exact Or.inr ⟨n, hn, (hf n hn).2.2, by rw [hsoft n hn]; exact List.mem_singleton_self _⟩
  have q1 : stagedQ P h1 p w := Or.inl (honest_votes_quorum hT v1)
  have w1 : w ∈ vals h1 := mem_vals.2 ⟨_, v1 n0 hn0, rfl⟩
  obtain ⟨v', hv', pv', mv'⟩ := find?_of_mem (f := fun v => decide (stagedQ P h1 p v) && E.avail v) w1
    (by simp only [Bool.and_eq_true, decide_eq_true_eq]; exact ⟨q1, ha⟩)
  have hcm : committable P E h1 p = some v' := hv'
  -- h2: the cert votes
  have hcert : ∀ n ∈ hon P, certOf P E h1 p n = [Ev.vote ⟨n, p, .cert, some v'⟩] := by
    intro n hn
    obtain ⟨h1', h2, _⟩ := hf n hn
    unfold certOf
    rw [if_pos, hcm]
    refine ⟨by rw [loc1]; exact h1', ?_⟩
    rw [List.all_eq_true]
    intro v hv
    unfold ownVotes at hv
    rw [List.mem_filter] at hv
    obtain ⟨hv, hnp⟩ := hv
    rw [e1, mem_votes_phase] at hv
    rcases hv with hv | ⟨m, _, _, hv⟩
    · have : v ∈ ownVotes h n p := by
        unfold ownVotes; rw [List.mem_filter]; exact ⟨hv, hnp⟩
      rw [h2] at this; simp at this
    · obtain ⟨x, hx⟩ := softOf_votes E h p m _ hv
      cases hx; simp
  have e2 : certOnDelivery P E p h1 = phase P h1 (certOf P E h1 p) := rfl
  generalize hh2 : certOnDelivery P E p h1 = h2 at e2
  have com2 : ∀ n, committedB h2 n = committedB h1 n := fun n => by
    rw [e2]
    exact committedB_phase (quiet_not_commit (fun m e he => by
      obtain ⟨x, hx⟩ := certOf_votes P E h1 p m e he; exact ⟨_, hx⟩)) n
  have v2 : ∀ n ∈ hon P, VotedFor h2 n p .cert (some v') := by
    intro n hn
    unfold VotedFor
    rw [e2, mem_votes_phase]
    exact Or.inr ⟨n, hn, by rw [com1]; exact (hf n hn).2.2,
      by rw [hcert n hn]; exact List.mem_singleton_self _⟩
  have q2 : certQ P h2 p v' := honest_votes_quorum hT v2
  have w2 : v' ∈ vals h2 := mem_vals.2 ⟨_, v2 n0 hn0, rfl⟩
  obtain ⟨v'', hv'', pv'', _⟩ := find?_of_mem (f := fun v => decide (certQ P h2 p v) && E.avail v) w2
    (by
      simp only [Bool.and_eq_true, decide_eq_true_eq] at pv' ⊢
      exact ⟨q2, pv'.2⟩)
  simp only [Bool.and_eq_true, decide_eq_true_eq] at pv''
  have e3 : syncFresh P E p h = phase P h2 (commitOf P E h2 p) := by
    unfold syncFresh; rw [hh1, hh2]; rfl
  refine ⟨v'', ?_, ?_⟩
  · rw [e3]; exact certQ_mono (phase_suffix _ _ _) pv''.1
  · intro n hn
    rw [e3, mem_phase]
    refine Or.inr ⟨n, hn, by rw [com2, com1]; exact (hf n hn).2.2, ?_⟩
    unfold commitOf
    rw [hv'']; exact List.mem_singleton_self _

/-! ### `syncAdvance` -/

/-- the honest nodes during `syncAdvance P E p`: all uncommitted, in the same period `per`, reading the same cache `c0` for
period `p - 1`, with sound caches; no honest vote is in a period above `p` -/
structure St (P : Params) (p : Nat) (h : List Ev) (per : Nat) (c0 : Cache) : Prop where
  loc : ∀ n ∈ hon P, (localOf h n).period = per ∧ (localOf h n).prev p = c0 ∧
    CacheSound P h (localOf h n) ∧ committedB h n = false
  vb : ∀ v ∈ votes h, v.n ∈ hon P → v.p ≤ p

/-- a vote of node `m` in period `p` -/
def VoteP (p : Nat) (m : Node) (e : Ev) : Prop := ∃ s x, e = Ev.vote ⟨m, p, s, x⟩

theorem St.votePhase {P : Params} {p : Nat} {h : List Ev} {per : Nat} {c0 : Cache} {f : Node → List Ev}
    (st : St P p h per c0) (hf : ∀ m, ∀ e ∈ f m, VoteP p m e) : St P p (phase P h f) per c0 := by
  have hq : ∀ m, ∀ e ∈ f m, Quiet e := fun m e he => by
    obtain ⟨s, x, rfl⟩ := hf m e he; trivial
  have hnc : ∀ m, ∀ e ∈ f m, ∀ n p v, e ≠ Ev.commit n p v := fun m e he n q v heq => by
    obtain ⟨s, x, rfl⟩ := hf m e he; cases heq
  constructor
  · intro n hn
    obtain ⟨a, b, c, d⟩ := st.loc n hn
    rw [localOf_phase_quiet hq, committedB_phase hnc]
    exact ⟨a, b, cacheSound_mono (phase_suffix _ _ _) c, d⟩
  · intro v hv hvn
    rcases mem_votes_phase.1 hv with hv | ⟨m, _, _, hv⟩
    · exact st.vb v hv hvn
    · obtain ⟨s, x, he⟩ := hf m _ hv
      cases he; exact Nat.le_refl _

theorem St.deliver {P : Params} (hT0 : 0 < P.T) (hN : (hon P).Nodup) {p : Nat} {h : List Ev} {per : Nat}
    {c0 : Cache} (st : St P p h per c0) :
    St P p (deliver P (p + 1) h)
      (if per < p + 1 ∧ enterB P h (p + 1) (prevOf P h (p + 1)) = true then p + 1 else per) c0 ∧
    ∀ n ∈ hon P, (localOf (deliver P (p + 1) h) n).prev (p + 1) = prevOf P h (p + 1) := by
  refine ⟨⟨?_, ?_⟩, ?_⟩
  · intro n hn
    obtain ⟨a, b, c, d⟩ := st.loc n hn
    obtain ⟨s', _, cn, per'⟩ := deliver_spec hT0 hN (p + 1) hn d c
    refine ⟨by rw [per', a], ?_, s', by rw [committedB_deliver]; exact d⟩
    rw [← b]
    unfold Local.prev
    split
    · rfl
    · exact cn (p - 1) (by omega)
  · intro v hv hvn
    exact st.vb v (votes_deliver.1 hv) hvn
  · intro n hn
    obtain ⟨_, _, c, d⟩ := st.loc n hn
    exact (deliver_spec hT0 hN (p + 1) hn d c).2.1

theorem St.fresh {P : Params} {p : Nat} {h : List Ev} {c0 c : Cache} (st : St P p h (p + 1) c0)
    (hc : ∀ n ∈ hon P, (localOf h n).prev (p + 1) = c) :
    FreshAt P h (p + 1) ∧ CommonStart P h (p + 1) c := by
  refine ⟨fun n hn => ?_, hc⟩
  obtain ⟨a, _, _, d⟩ := st.loc n hn
  refine ⟨a, ?_, d⟩
  unfold ownVotes
  rw [List.filter_eq_nil_iff]
  intro v hv hnp
  simp only [Bool.and_eq_true, beq_iff_eq] at hnp
  have := st.vb v hv (by rw [hnp.1]; exact hn)
  omega

theorem certOf_voteP (P : Params) (E : Env) (h : List Ev) (p : Nat) (m : Node) :
    ∀ e ∈ certOf P E h p m, VoteP p m e := by
  intro e he
  obtain ⟨x, hx⟩ := certOf_votes P E h p m e he
  exact ⟨_, _, hx⟩

theorem nextOf_voteP (P : Params) (E : Env) (h : List Ev) (p : Nat) (m : Node) :
    ∀ e ∈ nextOf P E h p m, VoteP p m e := by
  intro e he
  unfold nextOf at he
  split at he
  · rw [List.mem_singleton] at he; exact ⟨_, _, he⟩
  · simp at he

theorem fastOf_voteP (P : Params) (E : Env) (h : List Ev) (p : Nat) (m : Node) :
    ∀ e ∈ fastOf P E h p m, VoteP p m e := by
  intro e he
  unfold fastOf at he
  split at he
  · rw [List.mem_singleton] at he; exact ⟨_, _, he⟩
  · simp at he

theorem fastVote_isNext (P : Params) (E : Env) (h : List Ev) (p : Nat) (c : Cache) :
    ∃ k, (fastVote P E h p c).1 = .next k := by
  unfold fastVote
  split
  · exact ⟨_, rfl⟩
  · split
    · exact ⟨_, rfl⟩
    · split <;> exact ⟨_, rfl⟩

theorem deliver_suffix (P : Params) (q : Nat) (h : List Ev) : h <:+ deliver P q h := phase_suffix _ _ _
theorem deadlineTimeout_suffix (P : Params) (E : Env) (p : Nat) (h : List Ev) :
    h <:+ deadlineTimeout P E p h := phase_suffix _ _ _
theorem fastTimeout_suffix (P : Params) (E : Env) (p : Nat) (h : List Ev) :
    h <:+ fastTimeout P E p h := phase_suffix _ _ _

theorem syncAdvance_spec {P : Params} {E : Env} {h : List Ev} {p : Nat}
    (hq : HQ P) (hT : HonestQuorum P) (hnd : P.nodes.Nodup) (wf : WF true P h)
    (hle : ∀ n ∈ hon P, (localOf h n).period ≤ p) (htop : ∃ n ∈ hon P, (localOf h n).period = p)
    (hopen : ∀ n ∈ hon P, committedB h n = false) :
    (∀ n ∈ hon P, committedB (syncAdvance P E p h) n = true) ∨
    (∃ c, FreshAt P (syncAdvance P E p h) (p + 1) ∧ CommonStart P (syncAdvance P E p h) (p + 1) c) := by
  have hT0 : 0 < P.T := by have := T_gt_F hq; omega
  have hN : (hon P).Nodup := hnd.filter _
  obtain ⟨n0, hn0, hp0⟩ := htop
  -- h1: everybody catches up to period `p`
  have st1 : St P p (deliver P p h) p (prevOf P h p) := by
    constructor
    · intro n hn
      have hh := (mem_hon.1 hn).2
      obtain ⟨s', pv, _, per'⟩ := deliver_spec hT0 hN p hn (hopen n hn) (localOf_sound wf hh)
      refine ⟨?_, pv, s', by rw [committedB_deliver]; exact hopen n hn⟩
      rw [per']
      split
      · rfl
      · rename_i hcond
        have := hle n hn
        by_cases hlt : (localOf h n).period < p
        · exact absurd ⟨hlt, enterB_of_top hT0 wf (mem_hon.1 hn0).2 hp0 (by omega)⟩ hcond
        · omega
    · intro v hv hvn
      have hv' := votes_deliver.1 hv
      have := (votes_below wf (mem_hon.1 hvn).2).1 v hv' rfl
      exact Nat.le_trans this (hle _ hvn)
  unfold syncAdvance
  generalize deliver P p h = h1 at st1
  generalize prevOf P h p = c0 at st1
  -- h2: cert votes
  have st2 : St P p (certOnDelivery P E p h1) p c0 := st1.votePhase (certOf_voteP P E h1 p)
  generalize certOnDelivery P E p h1 = h2 at st2
  -- h3: commit, or nothing
  cases hfind : (vals h2).find? (fun v => decide (certQ P h2 p v) && E.avail v) with
  | some v =>
      left
      intro n hn
      refine committedB_mono ((((deadlineTimeout_suffix P E p _).trans (deliver_suffix P _ _)).trans
        (fastTimeout_suffix P E p _)).trans (deliver_suffix P _ _)) ?_
      rw [committedB_iff]
      refine ⟨p, v, ?_⟩
      unfold commitOnDelivery
      rw [mem_phase]
      refine Or.inr ⟨n, hn, (st2.loc n hn).2.2.2, ?_⟩
      unfold commitOf
      rw [hfind]; exact List.mem_singleton_self _
  | none =>
  have e3 : commitOnDelivery P E p h2 = h2 := by
    unfold commitOnDelivery phase commitOf
    rw [hfind]; simp
  rw [e3]
  right
  -- h4: next votes
  have st4 : St P p (deadlineTimeout P E p h2) p c0 := st2.votePhase (nextOf_voteP P E h2 p)
  generalize deadlineTimeout P E p h2 = h4 at st4
  -- h5: delivery
  obtain ⟨st5, _⟩ := st4.deliver hT0 hN
  generalize deliver P (p + 1) h4 = h5 at st5
  by_cases hb : enterB P h4 (p + 1) (prevOf P h4 (p + 1)) = true
  · rw [if_pos ⟨Nat.lt_succ_self p, hb⟩] at st5
    have st6 : St P p (fastTimeout P E p h5) (p + 1) c0 := st5.votePhase (fastOf_voteP P E h5 p)
    generalize fastTimeout P E p h5 = h6 at st6
    obtain ⟨st7, pv7⟩ := st6.deliver hT0 hN
    rw [if_neg (fun hh => Nat.lt_irrefl _ hh.1)] at st7
    exact ⟨_, st7.fresh pv7⟩
  · rw [if_neg (fun hh => hb hh.2)] at st5
    -- h6: the fast votes form a next quorum
    have hfast : ∀ n ∈ hon P, fastOf P E h5 p n =
        [Ev.vote ⟨n, p, (fastVote P E h5 p c0).1, (fastVote P E h5 p c0).2⟩] := by
      intro n hn
      obtain ⟨a, b, _, _⟩ := st5.loc n hn
      unfold fastOf
      rw [if_pos a, b]
    have st6 : St P p (fastTimeout P E p h5) p c0 := st5.votePhase (fastOf_voteP P E h5 p)
    obtain ⟨k, hk⟩ := fastVote_isNext P E h5 p c0
    have v6 : ∀ n ∈ hon P, VotedFor (fastTimeout P E p h5) n p (.next k) (fastVote P E h5 p c0).2 := by
      intro n hn
      unfold VotedFor fastTimeout
      rw [mem_votes_phase]
      refine Or.inr ⟨n, hn, (st5.loc n hn).2.2.2, ?_⟩
      rw [hfast n hn, hk]; exact List.mem_singleton_self _
    have q6 : nextQ P (fastTimeout P E p h5) p (fastVote P E h5 p c0).2 :=
      nextQ_of_Q (v6 n0 hn0) rfl rfl (honest_votes_quorum hT v6)
    generalize fastTimeout P E p h5 = h6 at st6 q6
    obtain ⟨st7, pv7⟩ := st6.deliver hT0 hN
    have hb7 : enterB P h6 (p + 1) (prevOf P h6 (p + 1)) = true := by
      apply enterB_of_notFF
      unfold prevOf
      rw [if_neg (by omega)]
      exact cacheOf_notFF hT0 q6
    rw [if_pos ⟨Nat.lt_succ_self p, hb7⟩] at st7
    exact ⟨_, st7.fresh pv7⟩

end AlgoVerif.Lemmas.AgreementSync
