/-
Lemmas about Model.Net.Filter used by Props.C43: bucket contents under insert / delete / rotate, `find`, the age of a
bucket in the ring, and the retention potential `life`.
-/
import AlgoVerif.Model.Net
namespace Lemmas.NetFilter
open Model.Net

set_option linter.unusedSectionVars false

variable {δ : Type} [DecidableEq δ]

/-- contents of buckets[i] (a bucket that does not exist holds nothing) -/
def bkt (f : Filter δ) (i : Nat) : List δ :=
  match f.buckets[i]? with
  | some b => b
  | none => []

theorem bkt_of_ge (f : Filter δ) {i : Nat} (h : f.buckets.length ≤ i) : bkt f i = [] := by
  unfold bkt; rw [List.getElem?_eq_none h]

theorem bucketHas_iff (f : Filter δ) (i : Nat) (d : δ) : f.bucketHas i d = true ↔ d ∈ bkt f i := by
  unfold Filter.bucketHas bkt
  cases f.buckets[i]? with
  | none => simp
  | some b => simp

theorem mem_bkt_lt {f : Filter δ} {i : Nat} {d : δ} (h : d ∈ bkt f i) : i < f.buckets.length := by
  apply Classical.byContradiction
  intro hn
  rw [bkt_of_ge f (by omega)] at h
  cases h

theorem topLen_eq (f : Filter δ) : f.topLen = (bkt f f.top).length := by
  unfold Filter.topLen bkt
  cases f.buckets[f.top]? <;> rfl

/-! ### insertTop / deleteAt / rotate on bucket contents -/

theorem bkt_insertTop (f : Filter δ) (e : δ) (i : Nat) :
    bkt (f.insertTop e) i =
      if f.top = i ∧ i < f.buckets.length then (if (bkt f i).contains e then bkt f i else e :: bkt f i) else bkt f i := by
  unfold Filter.insertTop bkt
  simp only [List.getElem?_modify]
  by_cases hi : i < f.buckets.length
  · obtain ⟨b, hb⟩ : ∃ b, f.buckets[i]? = some b := ⟨f.buckets[i], by simp [hi]⟩
    rw [hb]
    by_cases ht : f.top = i
    · simp [ht, hi]
    · simp [ht]
  · rw [List.getElem?_eq_none (by omega)]
    simp [hi]

theorem bkt_deleteAt (f : Filter δ) (idx : Nat) (e : δ) (i : Nat) :
    bkt (f.deleteAt idx e) i = if idx = i then (bkt f i).erase e else bkt f i := by
  unfold Filter.deleteAt bkt
  simp only [List.getElem?_modify]
  cases hb : f.buckets[i]? with
  | none => simp
  | some b =>
    by_cases ht : idx = i
    · simp [ht]
    · simp [ht]

theorem rotate_top (f : Filter δ) (hn : 0 < f.buckets.length) (ht : f.top < f.buckets.length) :
    f.rotate.top = if f.top = 0 then f.buckets.length - 1 else f.top - 1 := by
  unfold Filter.rotate
  simp only []
  by_cases h0 : f.top = 0
  · rw [if_pos h0, h0, Nat.zero_add]
    exact Nat.mod_eq_of_lt (by omega)
  · rw [if_neg h0]
    have e : f.top + f.buckets.length - 1 = (f.top - 1) + f.buckets.length := by omega
    rw [e, Nat.add_mod_right]
    exact Nat.mod_eq_of_lt (by omega)

theorem rotate_fields (f : Filter δ) :
    f.rotate.buckets.length = f.buckets.length ∧ f.rotate.maxBucketSize = f.maxBucketSize := by
  unfold Filter.rotate; simp

theorem bkt_rotate (f : Filter δ) (i : Nat) (hlt : f.rotate.top < f.buckets.length) :
    bkt f.rotate i = if f.rotate.top = i then [] else bkt f i := by
  have htop : f.rotate.top = (f.top + f.buckets.length - 1) % f.buckets.length := rfl
  unfold bkt
  have hb : f.rotate.buckets = f.buckets.set f.rotate.top [] := rfl
  rw [hb, List.getElem?_set]
  by_cases h : f.rotate.top = i
  · simp [h]; rw [← h]; simp [hlt]
  · simp [h]

theorem insertTop_fields (f : Filter δ) (e : δ) :
    (f.insertTop e).buckets.length = f.buckets.length ∧ (f.insertTop e).maxBucketSize = f.maxBucketSize ∧
      (f.insertTop e).top = f.top := by
  unfold Filter.insertTop; simp

theorem deleteAt_fields (f : Filter δ) (idx : Nat) (e : δ) :
    (f.deleteAt idx e).buckets.length = f.buckets.length ∧ (f.deleteAt idx e).maxBucketSize = f.maxBucketSize ∧
      (f.deleteAt idx e).top = f.top := by
  unfold Filter.deleteAt; simp

theorem mem_insertTop_of_mem {f : Filter δ} {e x : δ} {i : Nat} (h : x ∈ bkt f i) : x ∈ bkt (f.insertTop e) i := by
  rw [bkt_insertTop]
  split
  · split
    · exact h
    · exact List.mem_cons_of_mem _ h
  · exact h

theorem mem_insertTop_self (f : Filter δ) (e : δ) (ht : f.top < f.buckets.length) : e ∈ bkt (f.insertTop e) f.top := by
  rw [bkt_insertTop, if_pos ⟨rfl, ht⟩]
  split
  · rename_i h; exact List.contains_iff_mem.mp h
  · exact List.mem_cons_self

theorem mem_insertTop_inv {f : Filter δ} {e x : δ} {i : Nat} (h : x ∈ bkt (f.insertTop e) i) : x ∈ bkt f i ∨ x = e := by
  rw [bkt_insertTop] at h
  split at h
  · split at h
    · left; exact h
    · rcases List.mem_cons.mp h with rfl | h
      · right; rfl
      · left; exact h
  · left; exact h

theorem length_insertTop_le (f : Filter δ) (e : δ) (i : Nat) : (bkt (f.insertTop e) i).length ≤ (bkt f i).length + 1 := by
  rw [bkt_insertTop]
  split
  · split <;> simp
  · omega

theorem mem_deleteAt_of_ne {f : Filter δ} {e x : δ} {idx i : Nat} (hne : x ≠ e) (h : x ∈ bkt f i) :
    x ∈ bkt (f.deleteAt idx e) i := by
  rw [bkt_deleteAt]
  split
  · exact (List.mem_erase_of_ne hne).mpr h
  · exact h

theorem mem_deleteAt_inv {f : Filter δ} {e x : δ} {idx i : Nat} (h : x ∈ bkt (f.deleteAt idx e) i) : x ∈ bkt f i := by
  rw [bkt_deleteAt] at h
  split at h
  · exact List.mem_of_mem_erase h
  · exact h

/-! ### find -/

theorem searchOrder_lt {f : Filter δ} (hn : 0 < f.buckets.length) {x : Nat} (h : x ∈ f.searchOrder) : x < f.buckets.length := by
  unfold Filter.searchOrder at h
  simp only [List.mem_map] at h
  obtain ⟨k, _, rfl⟩ := h
  exact Nat.mod_lt _ hn

theorem searchOrder_mem {f : Filter δ} (ht : f.top < f.buckets.length) {i : Nat} (hi : i < f.buckets.length) :
    i ∈ f.searchOrder := by
  unfold Filter.searchOrder
  simp only [List.mem_map, List.mem_range]
  by_cases h1 : f.top < i
  · refine ⟨f.buckets.length - (i - f.top), by omega, ?_⟩
    have e : f.top + (f.buckets.length - (f.buckets.length - (i - f.top))) = i := by omega
    rw [e]; exact Nat.mod_eq_of_lt hi
  · by_cases h2 : i = f.top
    · refine ⟨0, by omega, ?_⟩
      rw [Nat.sub_zero, Nat.add_mod_right, h2]; exact Nat.mod_eq_of_lt ht
    · refine ⟨f.top - i, by omega, ?_⟩
      have e : f.top + (f.buckets.length - (f.top - i)) = i + f.buckets.length := by omega
      rw [e, Nat.add_mod_right]; exact Nat.mod_eq_of_lt hi

theorem searchOrder_head (f : Filter δ) (ht : f.top < f.buckets.length) :
    ∃ rest, f.searchOrder = f.top :: rest := by
  unfold Filter.searchOrder
  obtain ⟨m, hm⟩ : ∃ m, f.buckets.length = m + 1 := ⟨f.buckets.length - 1, by omega⟩
  simp only []
  rw [hm, List.range_succ_eq_map, List.map_cons]
  have e : (f.top + (m + 1 - 0)) % (m + 1) = f.top := by
    rw [Nat.sub_zero, Nat.add_mod_right]; exact Nat.mod_eq_of_lt (by omega)
  rw [e]; exact ⟨_, rfl⟩

theorem find_some {f : Filter δ} {d : δ} {idx : Nat} (hn : 0 < f.buckets.length) (h : f.find d = some idx) :
    idx < f.buckets.length ∧ d ∈ bkt f idx := by
  unfold Filter.find at h
  have hp : f.bucketHas idx d = true := by have := List.find?_some h; simpa using this
  exact ⟨searchOrder_lt hn (List.mem_of_find?_eq_some h), (bucketHas_iff f idx d).mp hp⟩

theorem find_none {f : Filter δ} {d : δ} (ht : f.top < f.buckets.length) (h : f.find d = none) (i : Nat) : d ∉ bkt f i := by
  intro hm
  unfold Filter.find at h
  rw [List.find?_eq_none] at h
  exact h i (searchOrder_mem ht (mem_bkt_lt hm)) ((bucketHas_iff f i d).mpr hm)

theorem find_top {f : Filter δ} {d : δ} (ht : f.top < f.buckets.length) (h : d ∈ bkt f f.top) : f.find d = some f.top := by
  obtain ⟨rest, hr⟩ := searchOrder_head f ht
  unfold Filter.find
  rw [hr, List.find?_cons, (bucketHas_iff f f.top d).mpr h]

/-! ### invariant, age, life -/

/-- reachable filters: at least one bucket, the top index is valid, the top bucket has room -/
structure FInv (f : Filter δ) : Prop where
  pos : 0 < f.buckets.length
  top_lt : f.top < f.buckets.length
  room : f.topLen < f.maxBucketSize

/-- how many rotations ago bucket `i` was the top bucket -/
def age (f : Filter δ) (i : Nat) : Nat := if f.top ≤ i then i - f.top else i + f.buckets.length - f.top

/-- number of insertions into the top bucket that an entry of bucket `i` is guaranteed to survive, plus one -/
def life (f : Filter δ) (i : Nat) : Nat :=
  (f.maxBucketSize - f.topLen) + (f.buckets.length - 1 - age f i) * f.maxBucketSize

/-- the tail of CheckDigest: rotate when the top bucket reached capacity -/
def finish (f : Filter δ) : Filter δ := if f.topLen ≥ f.maxBucketSize then f.rotate else f

theorem checkDigest_eq (f : Filter δ) (d : δ) (add promote : Bool) :
    f.checkDigest d add promote =
      if add then
        (finish (match f.find d with
          | none => f.insertTop d
          | some idx => if promote && f.top != idx then (f.deleteAt idx d).insertTop d else f), (f.find d).isSome)
      else (f, (f.find d).isSome) := by
  unfold Filter.checkDigest finish
  cases add <;> rfl

theorem finish_fields (f : Filter δ) :
    (finish f).buckets.length = f.buckets.length ∧ (finish f).maxBucketSize = f.maxBucketSize := by
  unfold finish
  split
  · exact rotate_fields f
  · exact ⟨rfl, rfl⟩

theorem mul_pred (k m : Nat) (hk : 1 ≤ k) : k * m = (k - 1) * m + m := by
  obtain ⟨j, rfl⟩ : ∃ j, k = j + 1 := ⟨k - 1, by omega⟩
  rw [Nat.add_sub_cancel, Nat.succ_mul]

/-- finishing an operation keeps a tracked entry with at least one unit of life, and re-establishes the invariant -/
theorem finish_retains {f : Filter δ} (hn : 0 < f.buckets.length) (ht : f.top < f.buckets.length)
    (hle : f.topLen ≤ f.maxBucketSize) {d : δ} {i : Nat} (hd : d ∈ bkt f i) {L : Nat} (hL : L ≤ life f i) (h1 : 1 ≤ L) :
    d ∈ bkt (finish f) i ∧ L ≤ life (finish f) i ∧ FInv (finish f) := by
  have hi := mem_bkt_lt hd
  unfold finish
  by_cases hfull : f.topLen ≥ f.maxBucketSize
  · rw [if_pos hfull]
    have heq : f.topLen = f.maxBucketSize := by omega
    have hrt := rotate_top f hn ht
    have hrl : f.rotate.top < f.buckets.length := by rw [hrt]; split <;> omega
    have hlife : life f i = (f.buckets.length - 1 - age f i) * f.maxBucketSize := by
      unfold life; rw [heq]; omega
    -- the tracked bucket is not the oldest one
    have hK : 1 ≤ f.buckets.length - 1 - age f i := by
      apply Classical.byContradiction
      intro hc
      have : f.buckets.length - 1 - age f i = 0 := by omega
      rw [hlife, this, Nat.zero_mul] at hL
      omega
    have hM : 1 ≤ f.maxBucketSize := by
      apply Classical.byContradiction
      intro hc
      have : f.maxBucketSize = 0 := by omega
      rw [hlife, this, Nat.mul_zero] at hL
      omega
    have hage_top : age f f.rotate.top = f.buckets.length - 1 := by
      unfold age; rw [hrt]
      by_cases h0 : f.top = 0
      · simp only [h0, if_true]; split <;> omega
      · simp only [h0, if_false]; split <;> omega
    have hne : f.rotate.top ≠ i := by
      intro he
      rw [← he, hage_top] at hK
      omega
    have hbk : bkt f.rotate i = bkt f i := by rw [bkt_rotate f i hrl, if_neg hne]
    have htl : f.rotate.topLen = 0 := by
      rw [topLen_eq, bkt_rotate f _ hrl, if_pos rfl]; rfl
    have hage : age f.rotate i = age f i + 1 := by
      rw [hrt] at hne
      unfold age
      rw [(rotate_fields f).1, hrt]
      by_cases h0 : f.top = 0
      · simp only [h0, if_true] at hne ⊢; split <;> split <;> omega
      · simp only [h0, if_false] at hne ⊢; split <;> split <;> omega
    refine ⟨by rw [hbk]; exact hd, ?_, ⟨by rw [(rotate_fields f).1]; exact hn, by rw [(rotate_fields f).1]; exact hrl,
      by rw [htl, (rotate_fields f).2]; omega⟩⟩
    unfold life
    rw [htl, (rotate_fields f).1, (rotate_fields f).2, hage]
    have hmp := mul_pred (f.buckets.length - 1 - age f i) f.maxBucketSize hK
    have e : f.buckets.length - 1 - (age f i + 1) = f.buckets.length - 1 - age f i - 1 := by omega
    rw [e]
    rw [hlife] at hL
    omega
  · rw [if_neg hfull]
    exact ⟨hd, hL, ⟨hn, ht, by omega⟩⟩

theorem finish_inv {f : Filter δ} (hn : 0 < f.buckets.length) (ht : f.top < f.buckets.length)
    (hM : 1 ≤ f.maxBucketSize) : FInv (finish f) := by
  unfold finish
  by_cases hfull : f.topLen ≥ f.maxBucketSize
  · rw [if_pos hfull]
    have hrt := rotate_top f hn ht
    have hrl : f.rotate.top < f.buckets.length := by rw [hrt]; split <;> omega
    have htl : f.rotate.topLen = 0 := by
      rw [topLen_eq, bkt_rotate f _ hrl, if_pos rfl]; rfl
    exact ⟨by rw [(rotate_fields f).1]; exact hn, by rw [(rotate_fields f).1]; exact hrl,
      by rw [htl, (rotate_fields f).2]; omega⟩
  · rw [if_neg hfull]
    exact ⟨hn, ht, by omega⟩

/-- every bucket entry after `finish` was there before -/
theorem mem_finish_inv {f : Filter δ} (hn : 0 < f.buckets.length) (ht : f.top < f.buckets.length) {x : δ} {i : Nat}
    (h : x ∈ bkt (finish f) i) : x ∈ bkt f i := by
  unfold finish at h
  split at h
  · have hrt := rotate_top f hn ht
    have hrl : f.rotate.top < f.buckets.length := by rw [hrt]; split <;> omega
    rw [bkt_rotate f i hrl] at h
    split at h
    · cases h
    · exact h
  · exact h

/-! ### operation sequences -/

/-- one CheckDigest call: digest, add, promote -/
abbrev Op (δ : Type) := δ × Bool × Bool

def run (f : Filter δ) : List (Op δ) → Filter δ
  | [] => f
  | op :: t => run (f.checkDigest op.1 op.2.1 op.2.2).1 t

/-- number of adding calls on digests other than `d` (a simple upper bound of `costRun`) -/
def cost (d : δ) : List (Op δ) → Nat
  | [] => 0
  | op :: t => (if op.2.1 = true ∧ op.1 ≠ d then 1 else 0) + cost d t

/-- `d` is held in some bucket with at least `L` units of life -/
def Retains (f : Filter δ) (d : δ) (L : Nat) : Prop := ∃ i, d ∈ bkt f i ∧ L ≤ life f i

theorem age_lt {f : Filter δ} (ht : f.top < f.buckets.length) {i : Nat} (hi : i < f.buckets.length) :
    age f i < f.buckets.length := by
  unfold age; split <;> omega

theorem check_inv {f : Filter δ} (h : FInv f) (e : δ) (add promote : Bool) : FInv (f.checkDigest e add promote).1 := by
  rw [checkDigest_eq]
  have hM : 1 ≤ f.maxBucketSize := by have := h.room; omega
  cases add with
  | false => exact h
  | true =>
    simp only [if_true]
    cases hf : f.find e with
    | none =>
      simp only []
      have hfl := insertTop_fields f e
      exact finish_inv (by rw [hfl.1]; exact h.pos) (by rw [hfl.2.2, hfl.1]; exact h.top_lt) (by rw [hfl.2.1]; exact hM)
    | some idx =>
      simp only []
      split
      · have hfl := insertTop_fields (f.deleteAt idx e) e
        have hfd := deleteAt_fields f idx e
        exact finish_inv (by rw [hfl.1, hfd.1]; exact h.pos) (by rw [hfl.2.2, hfl.1, hfd.2.2, hfd.1]; exact h.top_lt)
          (by rw [hfl.2.1, hfd.2.1]; exact hM)
      · exact finish_inv h.pos h.top_lt hM

theorem check_fields (f : Filter δ) (e : δ) (add promote : Bool) :
    (f.checkDigest e add promote).1.buckets.length = f.buckets.length ∧
    (f.checkDigest e add promote).1.maxBucketSize = f.maxBucketSize := by
  rw [checkDigest_eq]
  cases add with
  | false => exact ⟨rfl, rfl⟩
  | true =>
    simp only [if_true]
    cases hf : f.find e with
    | none =>
      simp only []
      have a := finish_fields (f.insertTop e); have b := insertTop_fields f e
      exact ⟨by rw [a.1, b.1], by rw [a.2, b.2.1]⟩
    | some idx =>
      simp only []
      split
      · have a := finish_fields ((f.deleteAt idx e).insertTop e)
        have b := insertTop_fields (f.deleteAt idx e) e
        have c := deleteAt_fields f idx e
        exact ⟨by rw [a.1, b.1, c.1], by rw [a.2, b.2.1, c.2.1]⟩
      · exact finish_fields f

theorem check_result (f : Filter δ) (e : δ) (add promote : Bool) :
    (f.checkDigest e add promote).2 = (f.find e).isSome := by
  rw [checkDigest_eq]; cases add <;> rfl

/-- a call that puts a digest other than `d` into the top bucket: it adds, and the digest is new or gets promoted -/
def insertsOther (f : Filter δ) (d e : δ) (add promote : Bool) : Prop :=
  e ≠ d ∧ add = true ∧ (f.find e = none ∨ promote = true)

instance (f : Filter δ) (d e : δ) (add promote : Bool) : Decidable (insertsOther f d e add promote) := by
  unfold insertsOther; exact inferInstance

theorem retains_mono {f : Filter δ} {d : δ} {L L' : Nat} (h : Retains f d L) (hle : L' ≤ L) : Retains f d L' := by
  obtain ⟨i, hd, hL⟩ := h
  exact ⟨i, hd, by omega⟩

/-- the central step: one CheckDigest call costs a tracked digest at most one unit of life, and none unless the call puts
    another digest into the top bucket -/
theorem check_retains {f : Filter δ} (h : FInv f) {d : δ} {L : Nat} (hr : Retains f d L) (e : δ) (add promote : Bool)
    (hc : (if insertsOther f d e add promote then 1 else 0) < L) :
    Retains (f.checkDigest e add promote).1 d (L - (if insertsOther f d e add promote then 1 else 0)) := by
  obtain ⟨i, hd, hL⟩ := hr
  have hi := mem_bkt_lt hd
  have hn := h.pos; have ht := h.top_lt; have hroom := h.room
  have hM : 1 ≤ f.maxBucketSize := by omega
  have hL0 : 1 ≤ L := by omega
  rw [checkDigest_eq]
  cases add with
  | false =>
    simp only [Bool.false_eq_true, if_false]
    exact retains_mono ⟨i, hd, hL⟩ (by omega)
  | true =>
    simp only [if_true]
    cases hf : f.find e with
    | none =>
      simp only []
      have hne : e ≠ d := by
        intro he; subst he
        exact find_none ht hf i hd
      have hio : insertsOther f d e true promote := ⟨hne, rfl, Or.inl hf⟩
      rw [if_pos hio] at hc ⊢
      have hfl := insertTop_fields f e
      have hd1 : d ∈ bkt (f.insertTop e) i := mem_insertTop_of_mem hd
      have htl : (f.insertTop e).topLen ≤ f.topLen + 1 := by
        rw [topLen_eq, topLen_eq, hfl.2.2]; exact length_insertTop_le f e f.top
      have hage : age (f.insertTop e) i = age f i := by unfold age; rw [hfl.2.2, hfl.1]
      have hL1 : L - 1 ≤ life (f.insertTop e) i := by
        unfold life at hL ⊢
        rw [hfl.2.1, hfl.1, hage]
        omega
      obtain ⟨a, b, _⟩ := finish_retains (by rw [hfl.1]; exact hn) (by rw [hfl.2.2, hfl.1]; exact ht)
        (by rw [hfl.2.1]; omega) hd1 hL1 (by omega)
      exact ⟨i, a, b⟩
    | some idx =>
      simp only []
      obtain ⟨hidx, hmem⟩ := find_some hn hf
      by_cases hp : (promote && f.top != idx) = true
      · rw [if_pos hp]
        have hpp : promote = true ∧ f.top ≠ idx := by
          have hp' := hp
          simp at hp'
          exact hp'
        have hti : f.top ≠ idx := hpp.2
        have hfd := deleteAt_fields f idx e
        have hfl := insertTop_fields (f.deleteAt idx e) e
        have htopsame : bkt (f.deleteAt idx e) f.top = bkt f f.top := by rw [bkt_deleteAt, if_neg (fun h => hti h.symm)]
        have htl : ((f.deleteAt idx e).insertTop e).topLen ≤ f.topLen + 1 := by
          rw [topLen_eq, topLen_eq, hfl.2.2, hfd.2.2, ← htopsame]
          exact length_insertTop_le (f.deleteAt idx e) e f.top
        by_cases hne : e ≠ d
        · have hio : insertsOther f d e true promote := ⟨hne, rfl, Or.inr hpp.1⟩
          rw [if_pos hio] at hc ⊢
          have hd1 : d ∈ bkt ((f.deleteAt idx e).insertTop e) i := mem_insertTop_of_mem (mem_deleteAt_of_ne (Ne.symm hne) hd)
          have hage : age ((f.deleteAt idx e).insertTop e) i = age f i := by unfold age; rw [hfl.2.2, hfl.1, hfd.2.2, hfd.1]
          have hL1 : L - 1 ≤ life ((f.deleteAt idx e).insertTop e) i := by
            unfold life at hL ⊢
            rw [hfl.2.1, hfl.1, hfd.2.1, hfd.1, hage]
            omega
          obtain ⟨a, b, _⟩ := finish_retains (by rw [hfl.1, hfd.1]; exact hn) (by rw [hfl.2.2, hfl.1, hfd.2.2, hfd.1]; exact ht)
            (by rw [hfl.2.1, hfd.2.1]; omega) hd1 hL1 (by omega)
          exact ⟨i, a, b⟩
        · have hed : e = d := Classical.byContradiction hne
          subst hed
          -- the tracked copy is now the one promoted into the top bucket
          have hitop : i ≠ f.top := by
            intro hit
            rw [hit] at hd
            rw [find_top ht hd] at hf
            injection hf with hf
            exact hti hf
          have hd1 : e ∈ bkt ((f.deleteAt idx e).insertTop e) f.top := by
            have := mem_insertTop_self (f.deleteAt idx e) e (by rw [hfd.2.2, hfd.1]; exact ht)
            rw [hfd.2.2] at this; exact this
          have hage0 : age ((f.deleteAt idx e).insertTop e) f.top = 0 := by
            unfold age; rw [hfl.2.2, hfd.2.2]; simp
          have hagei : 1 ≤ age f i ∧ age f i ≤ f.buckets.length - 1 := by
            unfold age; split <;> omega
          have hL1 : L ≤ life ((f.deleteAt idx e).insertTop e) f.top := by
            unfold life at hL ⊢
            rw [hfl.2.1, hfl.1, hfd.2.1, hfd.1, hage0, Nat.sub_zero]
            have hsplit : (f.buckets.length - 1) * f.maxBucketSize =
                (f.buckets.length - 1 - age f i) * f.maxBucketSize + age f i * f.maxBucketSize := by
              rw [← Nat.add_mul]; congr 1; omega
            have hge : f.maxBucketSize ≤ age f i * f.maxBucketSize := by
              have := Nat.mul_le_mul_right f.maxBucketSize hagei.1
              rw [Nat.one_mul] at this; exact this
            rw [hsplit]
            omega
          obtain ⟨a, b, _⟩ := finish_retains (by rw [hfl.1, hfd.1]; exact hn) (by rw [hfl.2.2, hfl.1, hfd.2.2, hfd.1]; exact ht)
            (by rw [hfl.2.1, hfd.2.1]; omega) hd1 hL1 hL0
          exact retains_mono ⟨f.top, a, b⟩ (by omega)
      · rw [if_neg hp]
        have hfin : finish f = f := by unfold finish; rw [if_neg (by omega)]
        rw [hfin]
        exact retains_mono ⟨i, hd, hL⟩ (by omega)

/-- right after a digest was reported new it has (buckets − 1) · maxBucketSize units of life -/
theorem check_new_retains {f : Filter δ} (h : FInv f) (d : δ) (promote : Bool) (hnew : f.find d = none)
    (hK : 1 ≤ (f.buckets.length - 1) * f.maxBucketSize) :
    Retains (f.checkDigest d true promote).1 d ((f.buckets.length - 1) * f.maxBucketSize) := by
  have hn := h.pos; have ht := h.top_lt; have hroom := h.room
  rw [checkDigest_eq]
  simp only [if_true, hnew]
  have hfl := insertTop_fields f d
  have hd1 : d ∈ bkt (f.insertTop d) f.top := mem_insertTop_self f d ht
  have htl : (f.insertTop d).topLen ≤ f.topLen + 1 := by
    rw [topLen_eq, topLen_eq, hfl.2.2]; exact length_insertTop_le f d f.top
  have hage0 : age (f.insertTop d) f.top = 0 := by unfold age; rw [hfl.2.2]; simp
  have hL1 : (f.buckets.length - 1) * f.maxBucketSize ≤ life (f.insertTop d) f.top := by
    unfold life
    rw [hfl.2.1, hfl.1, hage0, Nat.sub_zero]
    omega
  obtain ⟨a, b, _⟩ := finish_retains (by rw [hfl.1]; exact hn) (by rw [hfl.2.2, hfl.1]; exact ht)
    (by rw [hfl.2.1]; omega) hd1 hL1 hK
  exact ⟨f.top, a, b⟩

theorem run_inv {f : Filter δ} (h : FInv f) (ops : List (Op δ)) : FInv (run f ops) := by
  induction ops generalizing f with
  | nil => exact h
  | cons op t ih => exact ih (check_inv h op.1 op.2.1 op.2.2)

/-- number of calls of the sequence (run from `f`) that put a digest other than `d` into the top bucket: the digest is
    reported new, or it is promoted -/
def costRun (d : δ) : Filter δ → List (Op δ) → Nat
  | _, [] => 0
  | f, op :: t =>
      (if insertsOther f d op.1 op.2.1 op.2.2 then 1 else 0) + costRun d (f.checkDigest op.1 op.2.1 op.2.2).1 t

theorem costRun_le_cost (d : δ) (f : Filter δ) (ops : List (Op δ)) : costRun d f ops ≤ cost d ops := by
  induction ops generalizing f with
  | nil => exact Nat.le_refl _
  | cons op t ih =>
    unfold costRun cost
    have := ih (f.checkDigest op.1 op.2.1 op.2.2).1
    have h1 : (if insertsOther f d op.1 op.2.1 op.2.2 then 1 else 0) ≤ (if op.2.1 = true ∧ op.1 ≠ d then 1 else 0) := by
      by_cases hio : insertsOther f d op.1 op.2.1 op.2.2
      · rw [if_pos hio, if_pos ⟨hio.2.1, hio.1⟩]; exact Nat.le_refl _
      · rw [if_neg hio]; exact Nat.zero_le _
    omega

theorem run_retains {f : Filter δ} (h : FInv f) {d : δ} {L : Nat} (hr : Retains f d L) (ops : List (Op δ))
    (hc : costRun d f ops < L) : Retains (run f ops) d (L - costRun d f ops) := by
  induction ops generalizing f L with
  | nil => simpa [run, costRun] using hr
  | cons op t ih =>
    unfold costRun at hc
    have h1 := check_retains h hr op.1 op.2.1 op.2.2 (by omega)
    have := ih (check_inv h op.1 op.2.1 op.2.2) h1 (by omega)
    unfold run costRun
    have e : L - ((if insertsOther f d op.1 op.2.1 op.2.2 then 1 else 0) + costRun d (f.checkDigest op.1 op.2.1 op.2.2).1 t) =
        L - (if insertsOther f d op.1 op.2.1 op.2.2 then 1 else 0) - costRun d (f.checkDigest op.1 op.2.1 op.2.2).1 t := by omega
    rw [e]; exact this

theorem retains_found {f : Filter δ} (h : FInv f) {d : δ} {L : Nat} (hr : Retains f d L) : (f.find d).isSome = true := by
  obtain ⟨i, hd, _⟩ := hr
  cases hf : f.find d with
  | none => exact absurd hd (find_none h.top_lt hf i)
  | some _ => rfl

/-! ### no false positive: whatever a bucket holds was added by an earlier call -/

theorem check_mem_inv {f : Filter δ} (h : FInv f) (e : δ) (add promote : Bool) {x : δ} {i : Nat}
    (hx : x ∈ bkt (f.checkDigest e add promote).1 i) : (∃ j, x ∈ bkt f j) ∨ (x = e ∧ add = true) := by
  rw [checkDigest_eq] at hx
  have hn := h.pos; have ht := h.top_lt
  cases add with
  | false => left; exact ⟨i, hx⟩
  | true =>
    simp only [if_true] at hx
    cases hf : f.find e with
    | none =>
      rw [hf] at hx
      simp only [] at hx
      have hfl := insertTop_fields f e
      have := mem_finish_inv (by rw [hfl.1]; exact hn) (by rw [hfl.2.2, hfl.1]; exact ht) hx
      rcases mem_insertTop_inv this with h1 | h1
      · left; exact ⟨i, h1⟩
      · right; exact ⟨h1, rfl⟩
    | some idx =>
      rw [hf] at hx
      simp only [] at hx
      split at hx
      · have hfd := deleteAt_fields f idx e
        have hfl := insertTop_fields (f.deleteAt idx e) e
        have := mem_finish_inv (by rw [hfl.1, hfd.1]; exact hn) (by rw [hfl.2.2, hfl.1, hfd.2.2, hfd.1]; exact ht) hx
        rcases mem_insertTop_inv this with h1 | h1
        · left; exact ⟨i, mem_deleteAt_inv h1⟩
        · right; exact ⟨h1, rfl⟩
      · left; exact ⟨i, mem_finish_inv hn ht hx⟩

theorem run_mem_inv {f : Filter δ} (h : FInv f) (ops : List (Op δ)) {x : δ} {i : Nat} (hx : x ∈ bkt (run f ops) i) :
    (∃ j, x ∈ bkt f j) ∨ ∃ op ∈ ops, op.1 = x ∧ op.2.1 = true := by
  induction ops generalizing f with
  | nil => left; exact ⟨i, hx⟩
  | cons op t ih =>
    unfold run at hx
    rcases ih (check_inv h op.1 op.2.1 op.2.2) hx with ⟨j, hj⟩ | ⟨o, ho, h1, h2⟩
    · rcases check_mem_inv h op.1 op.2.1 op.2.2 hj with h3 | ⟨h3, h4⟩
      · left; exact h3
      · right; exact ⟨op, List.mem_cons_self, h3.symm, h4⟩
    · right; exact ⟨o, List.mem_cons_of_mem _ ho, h1, h2⟩

theorem finv_make {n M : Nat} {f : Filter δ} (hM : 1 ≤ M) (h : Filter.make n M = some f) :
    FInv f ∧ f.buckets.length = n ∧ f.maxBucketSize = M ∧ ∀ i, bkt f i = [] := by
  unfold Filter.make at h
  split at h
  · cases h
  · rename_i hn
    injection h with h
    subst h
    have hb : ∀ i, bkt ({ buckets := List.replicate n [], maxBucketSize := M, top := 0 } : Filter δ) i = [] := by
      intro i
      unfold bkt
      simp only [List.getElem?_replicate]
      by_cases hi : i < n
      · simp [hi]
      · simp [hi]
    refine ⟨⟨by simp; omega, by simp; omega, ?_⟩, by simp, rfl, hb⟩
    rw [topLen_eq, hb]
    exact hM

end Lemmas.NetFilter
