/-
Lemmas about the interpreter skeleton Model.AVM used by Props/C31: inversion of `step`, budget arithmetic, the reachability
relation of the eval loop and what `runLoop` returns.
-/
import AlgoVerif.Model.AVM
namespace Lemmas.AVM
open Model.OpTables Model.AVM

theorem remaining_charge (cfg : Cfg) (cost c : Nat) (pool : Int) :
    remaining cfg (cost + c) (if cfg.pooled then pool - c else pool) = remaining cfg cost pool - c := by
  unfold remaining
  split <;> split <;> (try split) <;> simp_all <;> omega

theorem opCost_pos {cfg s prog pc stack c} (h : opCost cfg s prog pc stack = .ok c) : 1 ≤ c := by
  unfold opCost at h
  split at h
  · cases h
  · split at h
    · cases h; omega
    · split at h
      · cases h
      · split at h
        · cases h; omega
        · cases h

/-- how cost and pooled budget of `st'` relate to `st`: untouched, or charged by a cost in [1, remaining] -/
def Charged (cfg : Cfg) (st st' : State) : Prop :=
  (st'.cost = st.cost ∧ st'.pool = st.pool) ∨
  ∃ c : Nat, 1 ≤ c ∧ (c : Int) ≤ remaining cfg st.cost st.pool ∧ st'.cost = st.cost + c ∧
    st'.pool = (if cfg.pooled then st.pool - c else st.pool)

theorem step_err_charged {ex : Exec} {cfg : Cfg} {prog : List Nat} {v : Nat} {st st' : State} {e : Err}
    (h : step ex cfg prog v st = .error (e, st')) : Charged cfg st st' := by
  have same : ∀ {e0 : Err}, (Except.error (e0, st) : Except (Err × State) State) = .error (e, st') → Charged cfg st st' := by
    intro e0 h; injection h with h; injection h with _ h; subst h; exact Or.inl ⟨rfl, rfl⟩
  unfold step at h
  split at h
  · exact same h
  · split at h
    · exact same h
    · split at h
      · exact same h
      · split at h
        · exact same h
        · split at h
          · exact same h
          · split at h
            · exact same h
            · split at h
              · exact same h
              · rename_i opcost hcost
                split at h
                · exact same h
                · rename_i hbud
                  have key : ∀ m : Mach, Charged cfg st { charge cfg st opcost with m := m } :=
                    fun m => Or.inr ⟨opcost, opCost_pos hcost, by omega, rfl, rfl⟩
                  simp only [] at h
                  split at h
                  · injection h with h; injection h with _ h; subst h; exact key _
                  · split at h
                    · injection h with h; injection h with _ h; subst h; exact key _
                    · split at h
                      · injection h with h; injection h with _ h; subst h; exact key _
                      · cases h

theorem step_ok_inv {ex : Exec} {cfg : Cfg} {prog : List Nat} {v : Nat} {st st' : State}
    (h : step ex cfg prog v st = .ok st') :
    ∃ opc s opcost m', prog[st.pc]? = some opc ∧ getSpec cfg.tbl v opc prog[st.pc + 1]? = some s ∧
      allows s.modes cfg.mode = true ∧ s.args.length ≤ st.m.stack.length ∧
      typesMatch s.args.reverse st.m.stack = true ∧ (s.size = 0 ∨ st.pc + s.size ≤ prog.length) ∧
      opCost cfg s prog st.pc st.m.stack = .ok opcost ∧ (opcost : Int) ≤ remaining cfg st.cost st.pool ∧
      ex s ⟨cfg, prog, st.pc, v⟩ st.m = .ok m' ∧
      postCheck cfg.lim s st.m.stack.length m'.stack = .ok () ∧ m'.stack.length ≤ cfg.lim.maxStackDepth ∧
      st' = { charge cfg st opcost with pc := (if m'.nextpc ≠ 0 then m'.nextpc else st.pc + s.size), m := { m' with nextpc := 0 } } := by
  unfold step at h
  split at h
  · cases h
  · rename_i opc hop
    split at h
    · cases h
    · rename_i s hs
      split at h
      · cases h
      · rename_i hmode
        split at h
        · cases h
        · rename_i hlen
          split at h
          · cases h
          · rename_i htypes
            split at h
            · cases h
            · rename_i hsize
              split at h
              · cases h
              · rename_i opcost hcost
                split at h
                · cases h
                · rename_i hbud
                  simp only [] at h
                  split at h
                  · cases h
                  · rename_i m' hex
                    split at h
                    · cases h
                    · rename_i hpost
                      split at h
                      · cases h
                      · rename_i hdepth
                        injection h with h
                        refine ⟨opc, s, opcost, m', hop, hs, ?_, ?_, ?_, ?_, hcost, ?_, ?_, ?_, ?_, h.symm⟩
                        · simpa using hmode
                        · omega
                        · simpa using htypes
                        · omega
                        · omega
                        · simpa [charge] using hex
                        · simpa using hpost
                        · omega

/-! ### reachability -/

/-- states of the eval loop: the start state and everything a completed step leads to -/
inductive Reach (ex : Exec) (cfg : Cfg) (prog : List Nat) (v : Nat) (st0 : State) : State → Prop
  | refl : Reach ex cfg prog v st0 st0
  | step {st st' : State} : Reach ex cfg prog v st0 st → st.pc < prog.length → step ex cfg prog v st = .ok st' →
      Reach ex cfg prog v st0 st'

theorem Reach.trans {ex cfg prog v} {a b c : State} (h1 : Reach ex cfg prog v a b) (h2 : Reach ex cfg prog v b c) :
    Reach ex cfg prog v a c := by
  induction h2 with
  | refl => exact h1
  | step _ hpc hs ih => exact Reach.step ih hpc hs

/-- what the loop returns: the run reached a state `stl` from which either the loop guard failed (verdict = finish) or
    the next step failed -/
theorem runLoop_some {ex : Exec} {cfg : Cfg} {prog : List Nat} {v : Nat} :
    ∀ (fuel : Nat) (st : State) (n : Nat) (f : Final), runLoop ex cfg prog v fuel st n = some f →
      ∃ stl, Reach ex cfg prog v st stl ∧ f.steps ≤ n + fuel ∧ n ≤ f.steps ∧
        ((¬ stl.pc < prog.length ∧ f.verdict = finish stl ∧ f.st = stl) ∨
         (stl.pc < prog.length ∧ ∃ e, step ex cfg prog v stl = .error (e, f.st) ∧ f.verdict = .error e))
  | 0, _, _, _, h => by simp [runLoop] at h
  | fuel + 1, st, n, f, h => by
    unfold runLoop at h
    split at h
    · rename_i hpc
      split at h
      · rename_i st' hs
        obtain ⟨stl, hr, hb, hn, hfin⟩ := runLoop_some fuel st' (n + 1) f h
        exact ⟨stl, Reach.trans (Reach.step Reach.refl hpc hs) hr, by omega, by omega, hfin⟩
      · rename_i e st' hs
        injection h with h
        subst h
        exact ⟨st, Reach.refl, by simp, by simp, Or.inr ⟨hpc, e, hs, rfl⟩⟩
    · rename_i hpc
      injection h with h
      subst h
      exact ⟨st, Reach.refl, by simp, by simp, Or.inl ⟨hpc, rfl, rfl⟩⟩

theorem step_ok_charged {ex : Exec} {cfg : Cfg} {prog : List Nat} {v : Nat} {st st' : State}
    (h : step ex cfg prog v st = .ok st') :
    ∃ c : Nat, 1 ≤ c ∧ (c : Int) ≤ remaining cfg st.cost st.pool ∧ st'.cost = st.cost + c ∧
      st'.pool = (if cfg.pooled then st.pool - c else st.pool) := by
  obtain ⟨_, _, c, _, _, _, _, _, _, _, hc, hb, _, _, _, rfl⟩ := step_ok_inv h
  exact ⟨c, opCost_pos hc, hb, rfl, rfl⟩

/-- the fuel argument: with more fuel than remaining budget the loop ends -/
theorem runLoop_terminates {ex : Exec} {cfg : Cfg} {prog : List Nat} {v : Nat} :
    ∀ (fuel : Nat) (st : State) (n : Nat), (remaining cfg st.cost st.pool).toNat < fuel →
      ∃ f, runLoop ex cfg prog v fuel st n = some f
  | 0, _, _, h => by omega
  | fuel + 1, st, n, h => by
    unfold runLoop
    split
    · split
      · rename_i st' hs
        obtain ⟨c, hc1, hc2, hcost, hpool⟩ := step_ok_charged hs
        apply runLoop_terminates fuel st' (n + 1)
        have := remaining_charge cfg st.cost c st.pool
        rw [hcost, hpool, this]
        omega
      · exact ⟨_, rfl⟩
    · exact ⟨_, rfl⟩

/-! ### the budget invariant -/

/-- cost + remaining budget is constant along a run, and once something was charged the remaining budget is ≥ 0 -/
def CostInv (cfg : Cfg) (pool0 : Int) (st : State) : Prop :=
  (st.cost : Int) + remaining cfg st.cost st.pool = remaining cfg 0 pool0 ∧
  (st.cost = 0 ∨ 0 ≤ remaining cfg st.cost st.pool) ∧
  (cfg.pooled = true → st.pool = pool0 - st.cost)

theorem costInv_charged {cfg : Cfg} {pool0 : Int} {st st' : State} (hi : CostInv cfg pool0 st) (hc : Charged cfg st st') :
    CostInv cfg pool0 st' := by
  obtain ⟨h1, h2, h3⟩ := hi
  rcases hc with ⟨hc1, hc2⟩ | ⟨c, hc1, hc2, hc3, hc4⟩
  · unfold CostInv; rw [hc1, hc2]; exact ⟨h1, h2, h3⟩
  · have := remaining_charge cfg st.cost c st.pool
    unfold CostInv
    rw [hc3, hc4, this]
    refine ⟨by push_cast; omega, Or.inr (by omega), ?_⟩
    intro hp
    rw [if_pos hp, h3 hp]; push_cast; omega

theorem costInv_init (cfg : Cfg) (pc : Nat) (pool : Int) : CostInv cfg pool (initState cfg pc pool) := by
  unfold CostInv initState
  simp

theorem costInv_reach {ex : Exec} {cfg : Cfg} {prog : List Nat} {v : Nat} {pool0 : Int} {st0 st : State}
    (h0 : CostInv cfg pool0 st0) (hr : Reach ex cfg prog v st0 st) : CostInv cfg pool0 st := by
  induction hr with
  | refl => exact h0
  | step _ _ hs ih =>
    obtain ⟨c, a, b, d, e⟩ := step_ok_charged hs
    exact costInv_charged ih (Or.inr ⟨c, a, b, d, e⟩)

theorem costInv_bound {cfg : Cfg} {pool0 : Int} {st : State} (hi : CostInv cfg pool0 st) :
    st.cost ≤ budget0 cfg pool0 := by
  obtain ⟨h1, h2, _⟩ := hi
  unfold budget0
  rcases h2 with h | h <;> omega

end Lemmas.AVM
