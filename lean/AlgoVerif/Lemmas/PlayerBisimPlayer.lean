import AlgoVerif.Lemmas.PlayerBisimOps
import AlgoVerif.Lemmas.PlayerInvHandle
/-!
C07 restore bisimulation, part 5: the player.  Every player-level function maps states with equal persisted image to
states with equal persisted image and emits the same actions — except the proposal-vote branch, whose `ignore` /
`relayVote` answer may depend on the unpersisted late-credential state (`ActsSim`).
The σ-side state carries the C03 invariant (`QRoot`): it guarantees that the freshest bundle a partitioned node
re-broadcasts belongs to the player's round (so no unpersisted old round is consulted).
-/
namespace AlgoVerif.Lemmas.Player
open AlgoVerif.Model AlgoVerif.Model.Player AlgoVerif.Model.VoteTracker

variable (P : Params) (good : Nat → Nat → Nat → Vote → Bool)

/-- changing player fields without lowering the round keeps the relation -/
theorem SRel.setPl {τ σ : State} (h : SRel τ σ) (pl' : PlayerF) (hr : pl'.round ≥ σ.pl.round) :
    SRel { τ with pl := pl' } { σ with pl := pl' } := by
  refine SRel.mk rfl ?_
  show E pl'.round τ.root.rounds = E pl'.round σ.root.rounds
  rw [← E_mono hr τ.root.rounds, ← E_mono hr σ.root.rounds, h.rounds]

theorem partitionPolicy_rel {τ σ : State} (h : SRel τ σ) (hQ : QRoot P good σ.root) :
    ERel SRel (partitionPolicy P τ) (partitionPolicy P σ) := by
  unfold partitionPolicy
  rw [h.pl]
  split
  · exact ERel.ok h
  rcases (freshest_rel P h (Nat.le_refl _)).cases with ⟨e₁, e₂, g1, g2⟩ | ⟨a, b, res, g1, g2, hab⟩
  · rw [g1, g2]; exact ERel.err
  obtain ⟨ok, fr⟩ := res
  rw [g1, g2]; simp only []
  obtain ⟨hQb, hfr, hbpl⟩ := freshest_spec P good (res := (ok, fr)) hQ g2
  rw [hab.pl]
  split
  · rename_i hcond
    -- the round whose staged / pinned value is re-broadcast is the player's own round
    have hround : (if (ok && decide (fr.bundle.proposal ≠ 0)) = true then fr.round else b.pl.round) ≥ b.pl.round := by
      split
      · rename_i hu
        simp only [Bool.and_eq_true, decide_eq_true_eq] at hu
        have hk : fr.kind ≠ 0 := fun hk0 => hu.2 (hfr.2 hk0)
        rw [(hfr.1 hk).1, hbpl]; exact Nat.le_refl _
      · exact Nat.le_refl _
    rcases (staged_rel P hab hround (if (ok && decide (fr.bundle.proposal ≠ 0)) = true then fr.period else b.pl.period)).cases
      with ⟨e₁, e₂, k1, k2⟩ | ⟨a', b', st, k1, k2, hab'⟩
    · rw [k1, k2]; exact ERel.err
    · rw [k1, k2]; simp only []
      obtain ⟨_, _, hb'pl⟩ := staged_spec P good hQb k2
      split
      · exact ERel.ok hab'
      · rcases (pinned_rel P hab' (r := (if (ok && decide (fr.bundle.proposal ≠ 0)) = true then fr.round else b.pl.round))
            (by rw [hb'pl]; exact hround)).cases with ⟨e₁, e₂, m1, m2⟩ | ⟨a'', b'', pin, m1, m2, hab''⟩
        · rw [m1, m2]; exact ERel.err
        · rw [m1, m2]; simp only []
          split
          · exact ERel.ok hab''
          · exact ERel.ok hab''
  · exact ERel.ok hab

theorem issueSoftVote_rel {τ σ : State} (h : SRel τ σ) (d : Nat) : ERel SRel (issueSoftVote P τ d) (issueSoftVote P σ d) := by
  unfold issueSoftVote
  rcases (freezeProposal_rel P h).cases with ⟨e₁, e₂, g1, g2⟩ | ⟨a, b, frozen, g1, g2, hab⟩
  · rw [g1, g2]; exact ERel.err
  rw [g1, g2]; simp only []
  rcases (nextStatus_rel P hab).cases with ⟨e₁, e₂, k1, k2⟩ | ⟨a', b', ns, k1, k2, hab'⟩
  · rw [k1, k2]; exact ERel.err
  rw [k1, k2]; simp only []
  rw [hab'.pl]
  have hs : SRel { a' with pl := { b'.pl with deadlineDur := d, deadlineKind := 0 } } { b' with pl := { b'.pl with deadlineDur := d, deadlineKind := 0 } } :=
    hab'.setPl _ (Nat.le_refl _)
  repeat' split
  all_goals exact ERel.ok hs

theorem issueNextVote_rel {τ σ : State} (h : SRel τ σ) (hQ : QRoot P good σ.root) (d : Nat) :
    ERel SRel (issueNextVote P τ d) (issueNextVote P σ d) := by
  unfold issueNextVote
  rcases (partitionPolicy_rel P good h hQ).cases with ⟨e₁, e₂, g1, g2⟩ | ⟨a, b, acts, g1, g2, hab⟩
  · rw [g1, g2]; exact ERel.err
  rw [g1, g2]; simp only []
  rw [hab.pl]
  rcases (staged_rel P hab (Nat.le_refl _) b.pl.period).cases with ⟨e₁, e₂, k1, k2⟩ | ⟨a', b', ans, k1, k2, hab'⟩
  · rw [k1, k2]; exact ERel.err
  rw [k1, k2]; simp only []
  split
  · rw [hab'.pl]; exact ERel.ok (hab'.setPl _ (Nat.le_refl _))
  · rcases (nextStatus_rel P hab').cases with ⟨e₁, e₂, m1, m2⟩ | ⟨a'', b'', ns, m1, m2, hab''⟩
    · rw [m1, m2]; exact ERel.err
    · rw [m1, m2]; simp only []
      rw [hab''.pl]; exact ERel.ok (hab''.setPl _ (Nat.le_refl _))

theorem fastFinish_rel {a b : State} (hab : SRel a b) (acts : List Action) (s v : Nat) :
    SRel (fastFinish a acts s v).1 (fastFinish b acts s v).1 ∧ (fastFinish a acts s v).2 = (fastFinish b acts s v).2 := by
  unfold fastFinish
  simp only []
  rw [hab.pl]
  refine ⟨hab.setPl _ ?_, rfl⟩
  repeat' split
  all_goals exact Nat.le_refl _

theorem issueFastVote_rel {τ σ : State} (h : SRel τ σ) (hQ : QRoot P good σ.root) :
    ERel SRel (issueFastVote P τ) (issueFastVote P σ) := by
  unfold issueFastVote
  rcases (partitionPolicy_rel P good h hQ).cases with ⟨e₁, e₂, g1, g2⟩ | ⟨a, b, acts, g1, g2, hab⟩
  · rw [g1, g2]; exact ERel.err
  rw [g1, g2]; simp only []
  rcases (dumpVotes_rel P hab sLate).cases with ⟨e₁, e₂, k1, k2⟩ | ⟨a1, b1, el, k1, k2, hab1⟩
  · rw [k1, k2]; exact ERel.err
  rw [k1, k2]; simp only []
  rcases (dumpVotes_rel P hab1 sRedo).cases with ⟨e₁, e₂, k1, k2⟩ | ⟨a2, b2, er, k1, k2, hab2⟩
  · rw [k1, k2]; exact ERel.err
  rw [k1, k2]; simp only []
  rcases (dumpVotes_rel P hab2 sDown).cases with ⟨e₁, e₂, k1, k2⟩ | ⟨a3, b3, ed, k1, k2, hab3⟩
  · rw [k1, k2]; exact ERel.err
  rw [k1, k2]; simp only []
  rw [hab3.pl]
  rcases (staged_rel P hab3 (Nat.le_refl _) b3.pl.period).cases with ⟨e₁, e₂, k1, k2⟩ | ⟨a4, b4, ans, k1, k2, hab4⟩
  · rw [k1, k2]; exact ERel.err
  rw [k1, k2]; simp only []
  have hfin : ∀ {x y : State} (hxy : SRel x y) (acts : List Action) (s v : Nat),
      ERel SRel (.ok (fastFinish x acts s v)) (.ok (fastFinish y acts s v)) := by
    intro x y hxy acts s v
    obtain ⟨f1, f2⟩ := fastFinish_rel hxy acts s v
    show ERel SRel (.ok ((fastFinish x acts s v).1, (fastFinish x acts s v).2)) (.ok ((fastFinish y acts s v).1, (fastFinish y acts s v).2))
    rw [f2]; exact ERel.ok f1
  split
  · split
    · exact hfin hab4 _ _ _
    · exact hfin hab4 _ _ _
  · rcases (nextStatus_rel P hab4).cases with ⟨e₁, e₂, m1, m2⟩ | ⟨a5, b5, ns, m1, m2, hab5⟩
    · rw [m1, m2]; exact ERel.err
    · rw [m1, m2]; simp only []
      repeat' split
      all_goals exact hfin hab5 _ _ _

theorem enterPeriod_rel {τ σ : State} (h : SRel τ σ) (hQ : QRoot P good σ.root) (src : Thresh) (target : Nat) :
    ERel SRel (enterPeriod P τ src target) (enterPeriod P σ src target) := by
  unfold enterPeriod
  rcases (partitionPolicy_rel P good h hQ).cases with ⟨e₁, e₂, g1, g2⟩ | ⟨a, b, acts, g1, g2, hab⟩
  · rw [g1, g2]; exact ERel.err
  rw [g1, g2]; simp only []
  rw [hab.pl]
  rcases (pmThreshold_rel P hab b.pl.round src).cases with ⟨e₁, e₂, k1, k2⟩ | ⟨a', b', c, k1, k2, hab'⟩
  · rw [k1, k2]; exact ERel.err
  rw [k1, k2]; simp only []
  rw [hab'.pl]
  have hs := hab'.setPl { b'.pl with lastConcluding := b'.pl.step, period := target, step := 1, napping := false, fastRecoveryDeadline := 0, deadlineDur := filterTimeout P target, deadlineKind := 2 } (Nat.le_refl _)
  repeat' split
  all_goals exact ERel.ok hs

/-- what the continuation of `enterRoundK` must satisfy for the bisimulation -/
def KRel (k : State → Thresh → Except Panic (State × List Action)) : Prop :=
  ∀ τ σ e, SRel τ σ → QRoot P good σ.root → ThreshValid P good e → ERel SRel (k τ e) (k σ e)

theorem enterRoundK_rel {k : State → Thresh → Except Panic (State × List Action)} (hk : KRel P good k)
    {τ σ : State} (h : SRel τ σ) (hQ : QRoot P good σ.root) {target : Nat} (hr : target ≥ σ.pl.round) :
    ERel SRel (enterRoundK P k τ target) (enterRoundK P k σ target) := by
  unfold enterRoundK
  rcases (pmNewRound_rel P h hr).cases with ⟨e₁, e₂, g1, g2⟩ | ⟨a, b, e, g1, g2, hab⟩
  · rw [g1, g2]; exact ERel.err
  rw [g1, g2]; simp only []
  obtain ⟨hQb, hbpl⟩ := pmNewRound_spec P good hQ g2
  rw [hab.pl]
  have hs := hab.setPl { b.pl with lastConcluding := b.pl.step, round := target, period := 0, step := 1, napping := false, fastRecoveryDeadline := 0, deadlineDur := filterTimeout P 0, deadlineKind := 2 } (by rw [hbpl]; exact hr)
  rcases (freshest_rel P hs (r := target) (Nat.le_refl _)).cases with ⟨e₁, e₂, k1, k2⟩ | ⟨a', b', res, k1, k2, hab'⟩
  · rw [k1, k2]; exact ERel.err
  obtain ⟨ok, fr⟩ := res
  rw [k1, k2]; simp only []
  have hq : ∀ pl', QRoot P good (⟨pl', b.root⟩ : State).root := fun _ => hQb
  obtain ⟨hQb', hfr, _⟩ := freshest_spec P good (res := (ok, fr)) (hq _) k2
  split
  · rcases (hk a' b' fr hab' hQb' (threshValid_of_ok P good hfr)).cases with ⟨e₁, e₂, m1, m2⟩ | ⟨a'', b'', a4, m1, m2, hab''⟩
    · rw [m1, m2]; exact ERel.err
    · rw [m1, m2]; exact ERel.ok hab''
  · exact ERel.ok hab'

theorem pmThreshold_round {σ σ' : State} {rt : Nat} {e : Thresh} {c : Option (Nat × Option PVote)}
    (h : pmThreshold P σ rt e = .ok (σ', c)) : σ.pl.round = e.round := by
  unfold pmThreshold at h
  simp only [] at h
  split at h
  · cases h
  · rename_i hne; exact Decidable.byContradiction (fun hc => hne hc)

theorem handleThresh_rel : ∀ fuel, KRel P good (handleThresh P fuel) := by
  intro fuel
  induction fuel with
  | zero => intro τ σ e _ _ _; simp only [handleThresh]; exact ERel.err
  | succ fuel ih =>
    intro τ σ e h hQ he
    simp only [handleThresh]
    rw [h.pl]
    split
    · exact ERel.ok h
    split
    · -- certThreshold
      rcases (pmThreshold_rel P h 0 e).cases with ⟨e₁, e₂, g1, g2⟩ | ⟨a, b, c, g1, g2, hab⟩
      · rw [g1, g2]; exact ERel.err
      rw [g1, g2]; simp only []
      obtain ⟨hQb, hbpl, _⟩ := pmThreshold_spec P good hQ g2
      have hround : e.round ≥ b.pl.round := by rw [hbpl, pmThreshold_round P g2]; exact Nat.le_refl _
      rcases (staged_rel P hab hround e.period).cases with ⟨e₁, e₂, k1, k2⟩ | ⟨a', b', res, k1, k2, hab'⟩
      · rw [k1, k2]; exact ERel.err
      rw [k1, k2]; simp only []
      obtain ⟨hQb', _, hb'pl⟩ := staged_spec P good hQb k2
      split
      · rcases credHistoryTouch_rel P hab' with ⟨e₁, e₂, m1, m2⟩ | ⟨a'', b'', m1, m2, hab''⟩
        · rw [m1, m2]; exact ERel.err
        rw [m1, m2]; simp only []
        obtain ⟨hQb'', hb''pl⟩ := credHistoryTouch_spec P good hQb' m2
        rw [hab''.pl]
        rcases (enterRoundK_rel P good ih hab'' hQb'' (target := b''.pl.round + 1) (by omega)).cases
          with ⟨e₁, e₂, n1, n2⟩ | ⟨a3, b3, as, n1, n2, hab3⟩
        · rw [n1, n2]; exact ERel.err
        · rw [n1, n2]; exact ERel.ok hab3
      · rw [hab'.pl]
        split
        · rcases (enterPeriod_rel P good hab' hQb' e e.period).cases with ⟨e₁, e₂, n1, n2⟩ | ⟨a3, b3, as, n1, n2, hab3⟩
          · rw [n1, n2]; exact ERel.err
          · rw [n1, n2]; exact ERel.ok hab3
        · exact ERel.ok hab'
    split
    · -- softThreshold
      split
      · exact ERel.ok h
      split
      · exact enterPeriod_rel P good h hQ e e.period
      rcases (pmThreshold_rel P h σ.pl.round e).cases with ⟨e₁, e₂, g1, g2⟩ | ⟨a, b, c, g1, g2, hab⟩
      · rw [g1, g2]; exact ERel.err
      rw [g1, g2]; simp only []
      rw [hab.pl]
      repeat' split
      all_goals exact ERel.ok hab
    · -- nextThreshold
      split
      · exact ERel.ok h
      · exact enterPeriod_rel P good h hQ e (e.period + 1)

theorem payloadCont_rel {a b : State} (hab : SRel a b) (ef : PayRes) (acts : List Action) :
    ERel SRel (.ok (payloadCont a ef acts)) (.ok (payloadCont b ef acts)) := by
  unfold payloadCont
  rw [hab.pl]
  split
  · split
    · exact ERel.ok hab
    · exact ERel.ok hab
  · exact ERel.ok hab

theorem handlePayload_rel {fuel : Nat} {τ σ : State} (h : SRel τ σ) (hQ : QRoot P good σ.root) {verified : Bool} {bad : Bad}
    {p : Payload} {own : Bool} (hp : verified = true → bad ≠ 2 → bad ≠ 1 → p.round = σ.pl.round) :
    ERel SRel (handlePayload P fuel τ verified bad p own) (handlePayload P fuel σ verified bad p own) := by
  unfold handlePayload
  rcases (pmPayload_rel P h verified bad p).cases with ⟨e₁, e₂, g1, g2⟩ | ⟨a, b, ef, g1, g2, hab⟩
  · rw [g1, g2]; exact ERel.err
  rw [g1, g2]; simp only []
  obtain ⟨hQb, hbpl⟩ := pmPayload_spec P good hQ hp g2
  rw [hab.pl]
  split
  · exact ERel.ok hab
  split
  · exact ERel.ok hab
  split
  · rcases (freshest_rel P hab (r := b.pl.round) (Nat.le_refl _)).cases with ⟨e₁, e₂, k1, k2⟩ | ⟨a', b', res, k1, k2, hab'⟩
    · rw [k1, k2]; exact ERel.err
    obtain ⟨ok, fr⟩ := res
    rw [k1, k2]; simp only []
    obtain ⟨hQb', hfr, hb'pl⟩ := freshest_spec P good (res := (ok, fr)) hQb k2
    split
    · rename_i hcond
      simp only [Bool.and_eq_true, decide_eq_true_eq] at hcond
      rcases credHistoryTouch_rel P hab' with ⟨e₁, e₂, m1, m2⟩ | ⟨a'', b'', m1, m2, hab''⟩
      · rw [m1, m2]; exact ERel.err
      rw [m1, m2]; simp only []
      obtain ⟨hQb'', hb''pl⟩ := credHistoryTouch_spec P good hQb' m2
      have htarget : fr.cert.round + 1 ≥ b''.pl.round := by
        have hk : fr.kind ≠ 0 := by rw [hcond.1.2]; decide
        have : fr.round = b.pl.round := (hfr.1 hk).1
        show fr.round + 1 ≥ b''.pl.round
        rw [hb''pl, hb'pl, this]; omega
      rcases (enterRoundK_rel P good (handleThresh_rel P good fuel) hab'' hQb'' htarget).cases
        with ⟨e₁, e₂, n1, n2⟩ | ⟨a3, b3, as, n1, n2, hab3⟩
      · rw [n1, n2]; exact ERel.err
      · rw [n1, n2]; exact ERel.ok hab3
    · exact payloadCont_rel hab' ef _
  · exact payloadCont_rel hab ef _

/-! ### the proposal-vote branch -/

/-- late-credential noise: the only actions whose choice may depend on unpersisted state — a proposal-vote is answered
`ignore`, or relayed (`relayVote` with step = propose) -/
def lateNoise : Action → Bool
  | .ignore => true
  | .relayVote v => v.step == 0
  | _ => false

/-- two action lists agree up to late-credential noise -/
def ActsSim : List Action → List Action → Prop
  | [], [] => True
  | a :: as, b :: bs => (a = b ∨ (lateNoise a = true ∧ lateNoise b = true)) ∧ ActsSim as bs
  | _, _ => False

theorem ActsSim.refl : ∀ l : List Action, ActsSim l l
  | [] => trivial
  | _ :: as => ⟨Or.inl rfl, ActsSim.refl as⟩

theorem ActsSim.append : ∀ {l₁ l₂ : List Action} (_ : ActsSim l₁ l₂) (c : List Action), ActsSim (l₁ ++ c) (l₂ ++ c)
  | [], [], _, c => ActsSim.refl c
  | _ :: _, _ :: _, h, c => ⟨h.1, ActsSim.append h.2 c⟩
  | [], _ :: _, h, _ => h.elim
  | _ :: _, [], h, _ => h.elim

theorem erel2_refl_of_erel {x y : Except Panic (State × List Action)} (h : ERel SRel x y) : ERel2 SRel ActsSim x y := by
  rcases h.cases with ⟨e₁, e₂, g1, g2⟩ | ⟨a, b, u, g1, g2, hab⟩
  · rw [g1, g2]; trivial
  · rw [g1, g2]; exact ⟨hab, ActsSim.refl u⟩

theorem pvoteFinish_rel {fuel : Nat} {verified : Bool} {taskIndex : Nat} {tail : Option Payload} {τ σ : State}
    (h : SRel τ σ) (hQ : QRoot P good σ.root) {acts acts' : List Action} (ha : ActsSim acts acts') (done : Bool) :
    ERel2 SRel ActsSim (pvoteFinish P fuel verified taskIndex tail τ acts done) (pvoteFinish P fuel verified taskIndex tail σ acts' done) := by
  unfold pvoteFinish
  simp only []
  rw [h.pl]
  have hs : SRel { τ with pl := (if verified = true then pendingPop σ.pl taskIndex else (σ.pl, tail)).1 }
      { σ with pl := (if verified = true then pendingPop σ.pl taskIndex else (σ.pl, tail)).1 } := by
    refine h.setPl _ ?_
    split
    · exact Nat.le_refl _
    · exact Nat.le_refl _
  split
  · exact ⟨hs, ha⟩
  split
  · exact ⟨hs, ha⟩
  rename_i pay _ _
  have hq : ∀ pl', QRoot P good (⟨pl', σ.root⟩ : State).root := fun _ => hQ
  rcases (handlePayload_rel P good (fuel := fuel) hs (hq _) (verified := false) (bad := 0) (p := pay) (own := false)
    (by intro hv; cases hv)).cases with ⟨e₁, e₂, g1, g2⟩ | ⟨a, b, suffix, g1, g2, hab⟩
  · rw [g1, g2]; trivial
  · rw [g1, g2]; exact ⟨hab, ha.append suffix⟩

theorem pvoteGo_rel {fuel : Nat} {verified : Bool} {v : PVote} {taskIndex : Nat} {tail : Option Payload} {ef ef' : PMVote}
    (hef : PMVote.sim ef ef') {τ σ : State} (h : SRel τ σ) (hQ : QRoot P good σ.root) :
    ERel2 SRel ActsSim (pvoteGo P fuel verified v taskIndex tail ef τ) (pvoteGo P fuel verified v taskIndex tail ef' σ) := by
  unfold pvoteGo
  rw [h.pl]
  split
  · have hq : ∀ pl', QRoot P good (⟨pl', σ.root⟩ : State).root := fun _ => hQ
    simp only []
    have hr : (pendingPush σ.pl tail).1.round ≥ σ.pl.round := Nat.le_refl _
    exact pvoteFinish_rel P good (h.setPl (pendingPush σ.pl tail).1 hr) (hq _) (ActsSim.refl _) false
  · cases ef <;> cases ef' <;> simp only [PMVote.sim] at hef
    · trivial
    · trivial
    · trivial
    · subst hef
      split
      · exact pvoteFinish_rel P good h hQ (ActsSim.refl _) true
      · exact pvoteFinish_rel P good h hQ (ActsSim.refl _) true
      · trivial

theorem PMVote.sim_refl (x : PMVote) : PMVote.sim x x := by
  cases x <;> simp [PMVote.sim]

theorem handlePVote_rel {fuel : Nat} {τ σ : State} (h : SRel τ σ) (hQ : QRoot P good σ.root) (verified : Bool) (bad : Bad)
    (v : PVote) (taskIndex : Nat) (tail : Option Payload) (hr : v.round ≥ σ.pl.round) :
    ERel2 SRel ActsSim (handlePVote P fuel τ verified bad v taskIndex tail) (handlePVote P fuel σ verified bad v taskIndex tail) := by
  unfold handlePVote
  have hfirst : ERel2 SRel PMVote.sim (if verified = true then pmVoteVerified P τ bad v else pmVotePresent P τ v)
      (if verified = true then pmVoteVerified P σ bad v else pmVotePresent P σ v) := by
    split
    · exact pmVoteVerified_rel P h bad v hr
    · rcases (pmVotePresent_rel P h v hr).cases with ⟨e₁, e₂, g1, g2⟩ | ⟨a, b, u, g1, g2, hab⟩
      · rw [g1, g2]; trivial
      · rw [g1, g2]; exact ⟨hab, PMVote.sim_refl u⟩
  rcases hfirst.cases with ⟨e₁, e₂, g1, g2⟩ | ⟨a, b, ef, ef', g1, g2, hab, hef⟩
  · rw [g1, g2]; trivial
  rw [g1, g2]; simp only []
  have hQb : QRoot P good b.root := by
    split at g2
    · exact (pmVoteVerified_spec P good hQ g2).1
    · exact (pmVotePresent_spec P good hQ g2).1
  have hn1 : ActsSim [Action.ignore] [Action.relayVote ⟨v.round, v.period, 0, v.sender, v.value⟩] := ⟨Or.inr ⟨rfl, rfl⟩, trivial⟩
  have hn2 : ActsSim [Action.relayVote ⟨v.round, v.period, 0, v.sender, v.value⟩] [Action.ignore] := ⟨Or.inr ⟨rfl, rfl⟩, trivial⟩
  cases ef <;> cases ef' <;> simp only [PMVote.sim] at hef
  · exact pvoteGo_rel P good (PMVote.sim_refl _) hab hQb
  · exact pvoteFinish_rel P good hab hQb (ActsSim.refl _) true
  · rename_i n m
    by_cases hd : (!P.dynFilter) = true
    · simp only [hd, if_true]
      exact pvoteFinish_rel P good hab hQb (ActsSim.refl _) true
    · simp only [hd]
      rcases hef with rfl | ⟨hn, hm⟩
      · by_cases h2 : n = 2
        · simp only [h2, if_true]
          exact pvoteFinish_rel P good hab hQb (ActsSim.refl _) true
        · simp only [h2, if_false]
          by_cases h0 : n = 0
          · simp only [h0, if_true]
            exact pvoteFinish_rel P good hab hQb (ActsSim.refl _) true
          · simp only [h0, Bool.false_eq_true, if_false]
            exact pvoteGo_rel P good (PMVote.sim_refl _) hab hQb
      · rcases hn with rfl | rfl <;> rcases hm with rfl | rfl <;> simp only [] <;>
          first
            | exact pvoteFinish_rel P good hab hQb (ActsSim.refl _) true
            | exact pvoteFinish_rel P good hab hQb hn1 true
            | exact pvoteFinish_rel P good hab hQb hn2 true
  · subst hef
    exact pvoteGo_rel P good (PMVote.sim_refl _) hab hQb

/-! ### the top level -/

/-- continuation events under which the unpersisted old rounds are never consulted: no proposal-vote of a round below the
player's current round (such votes only feed credential-arrival statistics), round interruptions move forward -/
def ContOK (σ : State) : Player.Event → Prop
  | .pvote _ _ v _ _ => v.round ≥ σ.pl.round
  | .roundInterruption r => r > σ.pl.round
  | _ => True

theorem handle_rel (hg : GoodSpec good) {τ σ : State} (h : SRel τ σ) (hQ : QRoot P good σ.root) {ev : Player.Event}
    (hev : EventOK good σ ev) (hc : ContOK σ ev) :
    ERel2 SRel ActsSim (Player.handle P τ ev) (Player.handle P σ ev) := by
  have h0 := h.updRoot P 0
  have hQ₀ := QRoot_updσ P good 0 hQ
  unfold Player.handle
  simp only []
  rw [h.pl] at h0 ⊢
  cases ev with
  | vote verified bad r p s x =>
    simp only []
    refine erel2_refl_of_erel ?_
    rcases (vaVote_rel P h0 verified bad r p s x).cases with ⟨e₁, e₂, g1, g2⟩ | ⟨a, b, ef, g1, g2, hab⟩
    · rw [g1, g2]; exact ERel.err
    rw [g1, g2]; simp only []
    obtain ⟨hQb, hres, _⟩ := vaVote_spec P good hg (σ := ⟨_, _⟩) hQ₀ hev g2
    cases ef with
    | malformed => exact ERel.ok hab
    | filtered => exact ERel.ok hab
    | empty => simp only []; split <;> exact ERel.ok hab
    | threshold th =>
      simp only []
      split
      · exact ERel.ok hab
      · rcases (handleThresh_rel P good defaultFuel a b th hab hQb hres).cases with ⟨e₁, e₂, k1, k2⟩ | ⟨a', b', a1, k1, k2, hab'⟩
        · rw [k1, k2]; exact ERel.err
        · rw [k1, k2]; exact ERel.ok hab'
  | pvote verified bad v taskIndex tail =>
    exact handlePVote_rel P good h0 hQ₀ verified bad v taskIndex tail hc
  | payload verified bad p own =>
    exact erel2_refl_of_erel (handlePayload_rel P good h0 hQ₀ hev)
  | bundle verified bad r p s value votes eqs =>
    simp only []
    refine erel2_refl_of_erel ?_
    rcases (vaBundle_rel P h0 verified bad r p s value votes eqs).cases with ⟨e₁, e₂, g1, g2⟩ | ⟨a, b, ef, g1, g2, hab⟩
    · rw [g1, g2]; exact ERel.err
    rw [g1, g2]; simp only []
    obtain ⟨hQb, hres, _⟩ := vaBundle_spec P good hg (σ := ⟨_, _⟩) hQ₀ hev g2
    cases ef with
    | malformed => exact ERel.ok hab
    | filtered => exact ERel.ok hab
    | empty => exact ERel.ok hab
    | threshold th =>
      simp only []
      rcases (handleThresh_rel P good defaultFuel a b th hab hQb hres).cases with ⟨e₁, e₂, k1, k2⟩ | ⟨a', b', a1, k1, k2, hab'⟩
      · rw [k1, k2]; exact ERel.err
      · rw [k1, k2]; exact ERel.ok hab'
  | timeout entropy =>
    simp only []
    refine erel2_refl_of_erel ?_
    have hq : ∀ pl', QRoot P good (⟨pl', σ.root.upd P σ.pl 0⟩ : State).root := fun _ => hQ₀
    split
    · rcases (issueSoftVote_rel P h0 (deadlineTimeout P σ.pl.period)).cases with ⟨e₁, e₂, g1, g2⟩ | ⟨a, b, acts, g1, g2, hab⟩
      · rw [g1, g2]; exact ERel.err
      · rw [g1, g2]; simp only []
        rw [hab.pl]
        exact ERel.ok (hab.setPl _ (Nat.le_refl _))
    split
    · exact issueNextVote_rel P good (h0.setPl { σ.pl with step := 3 } (Nat.le_refl _)) (hq _) _
    split
    · exact issueNextVote_rel P good h0 hQ₀ _
    · exact ERel.ok (h0.setPl _ (Nat.le_refl _))
  | fastTimeout entropy =>
    simp only []
    refine erel2_refl_of_erel ?_
    have hq : ∀ pl', QRoot P good (⟨pl', σ.root.upd P σ.pl 0⟩ : State).root := fun _ => hQ₀
    split
    · exact ERel.ok (h0.setPl _ (Nat.le_refl _))
    · exact issueFastVote_rel P good (h0.setPl { σ.pl with fastRecoveryDeadline := _ } (Nat.le_refl _)) (hq _)
  | roundInterruption r =>
    exact erel2_refl_of_erel (enterRoundK_rel P good (handleThresh_rel P good _) h0 hQ₀ (Nat.le_of_lt hc))
  | checkpoint r p s err =>
    exact ⟨h0, ActsSim.refl _⟩

/-- every event of the continuation meets `ContOK` in the state it is delivered in (along the live run) -/
def ContRunOK : State → List Player.Event → Prop
  | _, [] => True
  | σ, e :: rest => ContOK σ e ∧ ∀ σ' as, Player.handle P σ e = .ok (σ', as) → ContRunOK σ' rest

/-- event by event -/
def RunActsSim : List (List Action) → List (List Action) → Prop
  | [], [] => True
  | a :: as, b :: bs => ActsSim a b ∧ RunActsSim as bs
  | _, _ => False

/-- outcome of the run from the restored state vs the live run -/
def RunSim : Except Panic (State × List (List Action)) → Except Panic (State × List (List Action)) → Prop
  | .ok (σ₁, ass₁), .ok (σ₂, ass₂) => SRel σ₁ σ₂ ∧ RunActsSim ass₁ ass₂
  | .error _, .error _ => True
  | _, _ => False

theorem run_rel (hg : GoodSpec good) : ∀ (es : List Player.Event) {τ σ : State}, SRel τ σ → QRoot P good σ.root →
    RunOK P good σ es → ContRunOK P σ es → RunSim (Player.run P τ es) (Player.run P σ es) := by
  intro es
  induction es with
  | nil => intro τ σ h _ _ _; simp only [Player.run]; exact ⟨h, trivial⟩
  | cons e rest ih =>
    intro τ σ h hQ hrun hcont
    simp only [Player.run]
    rcases (handle_rel P good hg h hQ hrun.1 hcont.1).cases with ⟨e₁, e₂, g1, g2⟩ | ⟨a, b, u, w, g1, g2, hab, huw⟩
    · rw [g1, g2]; trivial
    · rw [g1, g2]; simp only []
      have hQb := (handle_spec P good hg hQ hrun.1 g2).1
      have := ih hab hQb (hrun.2 b w g2) (hcont.2 b w g2)
      unfold RunSim at this
      split at this
      · rename_i σ₁ ass₁ σ₂ ass₂ k1 k2
        rw [k1, k2]
        exact ⟨this.1, huw, this.2⟩
      · rename_i e₁ e₂ k1 k2
        rw [k1, k2]; trivial
      · exact this.elim

end AlgoVerif.Lemmas.Player
