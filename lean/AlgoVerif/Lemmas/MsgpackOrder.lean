/-
Order lemmas for Base.Msgpack: `lexLt`/`keyLt` are strict orders, strictly increasing keys have no duplicates,
and the order of the ENCODINGS of unsigned keys is their numeric order (what both Go encoders sort by).
-/
import AlgoVerif.Lemmas.Msgpack
namespace AlgoVerif.Msgpack

theorem lexLt_irrefl : ∀ a : Bytes, lexLt a a = false
  | [] => rfl
  | x :: xs => by
    simp only [lexLt, Bool.or_eq_false_iff, decide_eq_false_iff_not, Bool.and_eq_false_imp]
    exact ⟨UInt8.lt_irrefl x, fun _ => lexLt_irrefl xs⟩

theorem lexLt_trans : ∀ a b c : Bytes, lexLt a b = true → lexLt b c = true → lexLt a c = true
  | _, [], _, h, _ => by cases ‹Bytes› <;> simp [lexLt] at h
  | _, _ :: _, [], _, h => by simp [lexLt] at h
  | [], _ :: _, _ :: _, _, _ => rfl
  | x :: xs, y :: ys, z :: zs, h1, h2 => by
    simp only [lexLt, Bool.or_eq_true, decide_eq_true_eq, Bool.and_eq_true, beq_iff_eq] at h1 h2 ⊢
    rcases h1 with h1 | ⟨rfl, h1⟩
    · rcases h2 with h2 | ⟨rfl, _⟩
      · exact Or.inl (UInt8.lt_trans h1 h2)
      · exact Or.inl h1
    · rcases h2 with h2 | ⟨rfl, h2⟩
      · exact Or.inl h2
      · exact Or.inr ⟨rfl, lexLt_trans xs ys zs h1 h2⟩

theorem keyLt_irrefl (a : V) : keyLt a a = false := lexLt_irrefl _
theorem keyLt_trans (a b c : V) : keyLt a b = true → keyLt b c = true → keyLt a c = true := lexLt_trans _ _ _

/-- string keys are ordered by content (Go string `<`, what both encoders use for struct fields and `map[string]T`) -/
theorem keyLt_str (a b : Bytes) : keyLt (.str a) (.str b) = lexLt a b := by
  simp [keyLt, sortKey, lexLt]

/-- a strictly increasing key list has every later key strictly above the first one … -/
theorem sortedKeys_head_lt : ∀ (k : V) (ks : List V), sortedKeys (k :: ks) = true → ∀ x ∈ ks, keyLt k x = true
  | _, [], _, x, hx => by cases hx
  | k, k' :: ks, h, x, hx => by
    simp only [sortedKeys, Bool.and_eq_true] at h
    rcases List.mem_cons.mp hx with rfl | hx
    · exact h.1
    · exact keyLt_trans k k' x h.1 (sortedKeys_head_lt k' ks h.2 x hx)

theorem sortedKeys_tail : ∀ (k : V) (ks : List V), sortedKeys (k :: ks) = true → sortedKeys ks = true
  | _, [], _ => rfl
  | _, _ :: _, h => by
    simp only [sortedKeys, Bool.and_eq_true] at h
    exact h.2

/-- … hence no duplicate keys -/
theorem sortedKeys_nodup : ∀ ks : List V, sortedKeys ks = true → ks.Nodup
  | [], _ => List.nodup_nil
  | k :: ks, h => by
    refine List.nodup_cons.mpr ⟨?_, sortedKeys_nodup ks (sortedKeys_tail k ks h)⟩
    intro hm
    have := sortedKeys_head_lt k ks h k hm
    rw [keyLt_irrefl] at this
    exact absurd this (by simp)


theorem b8_lt {x y : Nat} (hx : x < 256) (hy : y < 256) : (b8 x < b8 y) ↔ x < y := by
  rw [UInt8.lt_iff_toNat_lt, b8_toNat hx, b8_toNat hy]

theorem b8_eq {x y : Nat} (hx : x < 256) (hy : y < 256) : (b8 x = b8 y) ↔ x = y := by
  constructor
  · intro h
    have := congrArg UInt8.toNat h
    rwa [b8_toNat hx, b8_toNat hy] at this
  · intro h; rw [h]

theorem divmod_lt (M a b : Nat) (hM : 0 < M) :
    a < b ↔ (a / M < b / M ∨ (a / M = b / M ∧ a % M < b % M)) := by
  have ha := Nat.div_add_mod a M
  have hb := Nat.div_add_mod b M
  have hra := Nat.mod_lt a hM
  have hrb := Nat.mod_lt b hM
  generalize a / M = qa at *
  generalize b / M = qb at *
  generalize a % M = ra at *
  generalize b % M = rb at *
  constructor
  · intro h
    by_cases hq : qa < qb
    · exact Or.inl hq
    · by_cases he : qa = qb
      · subst he; right; refine ⟨rfl, ?_⟩; omega
      · exfalso
        have : qb + 1 ≤ qa := by omega
        have h2 : M * (qb + 1) ≤ M * qa := Nat.mul_le_mul_left M this
        rw [Nat.mul_succ] at h2
        omega
  · rintro (hq | ⟨rfl, hr⟩)
    · have : qa + 1 ≤ qb := hq
      have h2 : M * (qa + 1) ≤ M * qb := Nat.mul_le_mul_left M this
      rw [Nat.mul_succ] at h2
      omega
    · omega

theorem lexLt_be (k a b : Nat) (ha : a < 256^k) (hb : b < 256^k) : lexLt (be k a) (be k b) = decide (a < b) := by
  induction k generalizing a b with
  | zero =>
    have : a = 0 := by simpa using ha
    have : b = 0 := by simpa using hb
    subst_vars; simp [be, lexLt]
  | succ k ih =>
    have hpos : 0 < 256^k := Nat.pow_pos (by decide)
    have qa : a / 256^k < 256 := by
      rw [Nat.div_lt_iff_lt_mul hpos]; rw [Nat.pow_succ] at ha; rw [Nat.mul_comm]; exact ha
    have qb : b / 256^k < 256 := by
      rw [Nat.div_lt_iff_lt_mul hpos]; rw [Nat.pow_succ] at hb; rw [Nat.mul_comm]; exact hb
    have ra : a % 256^k < 256^k := Nat.mod_lt _ hpos
    have rb : b % 256^k < 256^k := Nat.mod_lt _ hpos
    simp only [be, lexLt, Nat.mod_eq_of_lt qa, Nat.mod_eq_of_lt qb, ih _ _ ra rb]
    rw [Bool.eq_iff_iff]
    simp only [Bool.or_eq_true, decide_eq_true_eq, Bool.and_eq_true, beq_iff_eq, b8_lt qa qb, b8_eq qa qb]
    exact (divmod_lt (256^k) a b hpos).symm


theorem lit_cc : (0xcc : UInt8) = b8 204 := by decide
theorem lit_cd : (0xcd : UInt8) = b8 205 := by decide
theorem lit_ce : (0xce : UInt8) = b8 206 := by decide
theorem lit_cf : (0xcf : UInt8) = b8 207 := by decide

/-- lexLt on `h :: p` lists with Nat-presented head bytes -/
theorem lexLt_cons_b8 (x y : Nat) (p q : Bytes) (hx : x < 256) (hy : y < 256) :
    lexLt (b8 x :: p) (b8 y :: q) = (decide (x < y) || (decide (x = y) && lexLt p q)) := by
  simp only [lexLt]
  congr 1
  · exact decide_eq_decide.mpr (b8_lt hx hy)
  · congr 1
    rw [Bool.eq_iff_iff]; simp [b8_eq hx hy]

/-- header byte (as a number) and payload of the shortest unsigned form -/
def uHd (n : Nat) : Nat := if n < 128 then n else if n < 256 then 204 else if n < 65536 then 205 else if n < 4294967296 then 206 else 207
def uW (n : Nat) : Nat := if n < 128 then 0 else if n < 256 then 1 else if n < 65536 then 2 else if n < 4294967296 then 4 else 8

theorem encUint_eq (n : Nat) : encUint n = b8 (uHd n) :: be (uW n) n := by
  unfold encUint uHd uW
  simp only [lit_cc, lit_cd, lit_ce, lit_cf]
  split
  · simp [be]
  split
  · rfl
  split
  · rfl
  split
  · rfl
  · rfl

theorem uHd_lt (n : Nat) : uHd n < 256 := by
  unfold uHd; split; omega; split; omega; split; omega; split; omega; omega

theorem uW_bound (n : Nat) (h : n < 18446744073709551616) : n < 256 ^ uW n ∨ uW n = 0 := by
  unfold uW
  split; right; rfl
  split; left; rw [p1]; assumption
  split; left; rw [p2]; assumption
  split; left; rw [p4]; assumption
  left; rw [p8]; assumption

theorem lexLt_encUint (a b : Nat) (ha : a < 18446744073709551616) (hb : b < 18446744073709551616) :
    lexLt (encUint a) (encUint b) = decide (a < b) := by
  rw [encUint_eq, encUint_eq, lexLt_cons_b8 _ _ _ _ (uHd_lt a) (uHd_lt b)]
  by_cases hlt : uHd a < uHd b
  · -- smaller header byte ⇒ smaller number
    have : a < b := by
      unfold uHd at hlt
      repeat' split at hlt
      all_goals omega
    simp [hlt, this]
  · by_cases heq : uHd a = uHd b
    · -- same size class: big-endian payloads compare numerically
      by_cases hsmall : a < 128
      · have hb' : b < 128 := by
          unfold uHd at heq
          repeat' split at heq
          all_goals omega
        have e : uHd a = a := by unfold uHd; rw [if_pos hsmall]
        have e' : uHd b = b := by unfold uHd; rw [if_pos hb']
        have w : uW a = 0 := by unfold uW; rw [if_pos hsmall]
        have w' : uW b = 0 := by unfold uW; rw [if_pos hb']
        rw [e, e', w, w']
        simp [be, lexLt]
      · have hw : uW a = uW b := by
          unfold uHd at heq
          unfold uW
          repeat' split at heq
          all_goals (repeat' split)
          all_goals omega
        have ba := uW_bound a ha
        have bb := uW_bound b hb
        have hw0 : uW a ≠ 0 := by
          unfold uW; rw [if_neg hsmall]
          repeat' split
          all_goals decide
        have ba' : a < 256 ^ uW a := by rcases ba with h | h; exact h; exact absurd h hw0
        have bb' : b < 256 ^ uW a := by rw [hw]; rcases bb with h | h; exact h; rw [← hw] at h; exact absurd h hw0
        rw [← hw, lexLt_be _ a b ba' bb']
        simp [heq]
    · -- larger header byte ⇒ larger number
      have : ¬ a < b := by
        unfold uHd at hlt heq
        repeat' split at hlt
        all_goals (repeat' split at heq)
        all_goals omega
      simp [hlt, heq, this]

/-- **unsigned keys**: the canonical (encoded-bytes) key order is numeric order — the order `SortUint64`,
`SortAssetIndex`, … of the generated code and go-codec's `uintRvSlice` both use -/
theorem keyLt_uint (a b : Nat) (ha : a < 18446744073709551616) (hb : b < 18446744073709551616) :
    keyLt (.uint a) (.uint b) = decide (a < b) := by
  have : keyLt (.uint a) (.uint b) = lexLt (encUint a) (encUint b) := by
    simp [keyLt, sortKey, enc, encHd, lexLt]
  rw [this, lexLt_encUint a b ha hb]

/-- **fixed-size byte keys** (`map[Address]T`): equal-length `bin` keys are ordered by content -/
theorem keyLt_bin (a b : Bytes) (h : a.length = b.length) : keyLt (.bin a) (.bin b) = lexLt a b := by
  have pre : ∀ (p x y : Bytes), lexLt (p ++ x) (p ++ y) = lexLt x y := by
    intro p x y
    induction p with
    | nil => rfl
    | cons c p ih => simp [lexLt, ih, UInt8.lt_irrefl]
  have : keyLt (.bin a) (.bin b) = lexLt (encBinHd a.length ++ a) (encBinHd a.length ++ b) := by
    simp [keyLt, sortKey, enc, encHd, lexLt, h, UInt8.lt_irrefl]
  rw [this, pre]

end AlgoVerif.Msgpack
