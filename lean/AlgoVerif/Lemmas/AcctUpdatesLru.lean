import AlgoVerif.Lemmas.AcctUpdatesMap
/-! Generic lemmas for the LRU caches of Model.AcctUpdates: every cached entry (recency list, pending writes, not-found
marks) agrees with the tracker DB at the current DB round; maintained by reads, pending writes, flushes, prunes and by
the writes of postCommit. -/
namespace AlgoVerif.Lemmas.AcctUpdates
open AlgoVerif.Spec.LedgerHistory AlgoVerif.Model.AcctUpdates

section lru
variable {K W : Type} [DecidableEq K]

/-- `dbv k` = what the tracker DB holds for `k` (none = no row) at DB round `dbRound` -/
structure LruInv (m : LRU K (Option W)) (dbv : K → Option W) (dbRound : Nat) : Prop where
  off : m.enabled = false → m.list = [] ∧ m.pending = [] ∧ m.notFound = [] ∧ m.pendingNF = []
  list : ∀ k e, AMap.get m.list k = some e → e.val = dbv k ∧ e.round ≤ dbRound
  pend : ∀ p ∈ m.pending, p.2.round ≤ dbRound ∧
    (p.2.val = dbv p.1 ∨ ∃ e', AMap.get m.list p.1 = some e' ∧ p.2.round < e'.round)
  nf : ∀ k, k ∈ m.notFound ∨ k ∈ m.pendingNF → dbv k = none ∨ (AMap.get m.list k).isSome

theorem lruInv_init (n : Nat) (dbv : K → Option W) (r : Nat) : LruInv (LRU.init n : LRU K (Option W)) dbv r := by
  unfold LRU.init
  split <;> exact ⟨by simp, by simp, by simp, by simp⟩

theorem lru_read_valid {m : LRU K (Option W)} {dbv : K → Option W} {r : Nat} (h : LruInv m dbv r) {k : K} {e : LEntry (Option W)}
    (hr : m.read k = some e) : e.val = dbv k ∧ e.round ≤ r := by
  unfold LRU.read at hr
  split at hr
  · exact h.list k e hr
  · simp at hr

theorem lru_notFound_valid {m : LRU K (Option W)} {dbv : K → Option W} {r : Nat} (h : LruInv m dbv r) {k : K}
    (hr : m.read k = none) (hnf : m.readNotFound k = true) : dbv k = none := by
  unfold LRU.readNotFound at hnf
  simp at hnf
  obtain ⟨hen, hmem⟩ := hnf
  unfold LRU.read at hr
  simp [hen] at hr
  rcases h.nf k (Or.inl hmem) with h1 | h1
  · exact h1
  · rw [hr] at h1; simp at h1

theorem lruInv_writePending {m : LRU K (Option W)} {dbv : K → Option W} {r : Nat} (h : LruInv m dbv r) (k : K)
    (e : LEntry (Option W)) (he : e.val = dbv k ∧ e.round ≤ r) : LruInv (m.writePending k e) dbv r := by
  unfold LRU.writePending
  split
  · next hc =>
    simp at hc
    refine ⟨fun hoff => by simp [hc.1] at hoff, h.list, ?_, h.nf⟩
    intro p hp
    simp at hp
    rcases hp with hp | hp
    · exact h.pend p hp
    · subst hp; exact ⟨he.2, Or.inl he.1⟩
  · exact h

theorem lruInv_writeNotFoundPending {m : LRU K (Option W)} {dbv : K → Option W} {r : Nat} (h : LruInv m dbv r) (k : K)
    (hk : dbv k = none) : LruInv (m.writeNotFoundPending k) dbv r := by
  unfold LRU.writeNotFoundPending
  split
  · next hc =>
    simp at hc
    refine ⟨fun hoff => by simp [hc.1] at hoff, h.list, h.pend, ?_⟩
    intro k' hk'
    simp at hk'
    rcases hk' with hk' | hk' | hk'
    · exact h.nf k' (Or.inl hk')
    · exact h.nf k' (Or.inr hk')
    · subst hk'; exact Or.inl hk
  · exact h

/-- the recency list after `write`: key by key -/
theorem lru_write_get (m : LRU K (Option W)) (k : K) (e : LEntry (Option W)) (hen : m.enabled = true) (k' : K) :
    AMap.get (m.write k e).list k' =
      if k = k' then some (match AMap.get m.list k with
        | some old => if old.round < e.round then e else old
        | none => e)
      else AMap.get m.list k' := by
  unfold LRU.write
  simp only [hen, Bool.not_true, Bool.false_eq_true, if_false]
  cases hg : AMap.get m.list k with
  | some old =>
    simp only [get_cons]
    split
    · rfl
    · next hne => exact get_del_ne _ _ _ hne
  | none =>
    simp only [get_cons]

theorem lru_write_fields (m : LRU K (Option W)) (k : K) (e : LEntry (Option W)) :
    (m.write k e).enabled = m.enabled ∧ (m.write k e).pending = m.pending ∧
    (m.write k e).notFound = m.notFound ∧ (m.write k e).pendingNF = m.pendingNF ∧ (m.write k e).cap = m.cap := by
  unfold LRU.write
  split
  · simp
  · split <;> simp

theorem lru_write_disabled (m : LRU K (Option W)) (k : K) (e : LEntry (Option W)) (hen : m.enabled = false) :
    m.write k e = m := by
  unfold LRU.write; simp [hen]

/-- a "two-epoch" description of the recency list used for the writes of postCommit and for flushing pending writes:
    every entry is valid for `dbv` at round ≤ r -/
theorem lruInv_write {m : LRU K (Option W)} {dbv : K → Option W} {r : Nat} (h : LruInv m dbv r) (k : K)
    (e : LEntry (Option W))
    (he : e.round ≤ r ∧ (e.val = dbv k ∨ ∃ e', AMap.get m.list k = some e' ∧ e.round < e'.round)) :
    LruInv (m.write k e) dbv r := by
  by_cases hen : m.enabled = true
  · obtain ⟨f1, f2, f3, f4, _⟩ := lru_write_fields m k e
    have hmono : ∀ k' e', AMap.get m.list k' = some e' → ∃ e'', AMap.get (m.write k e).list k' = some e'' ∧ e'.round ≤ e''.round := by
      intro k' e' hg
      rw [lru_write_get m k e hen]
      by_cases hk : k = k'
      · subst hk
        simp only [if_true, hg]
        by_cases hlt : e'.round < e.round
        · exact ⟨e, by simp [hlt], by omega⟩
        · exact ⟨e', by simp [hlt], by omega⟩
      · simp only [hk, if_false]; exact ⟨e', hg, by omega⟩
    refine ⟨fun hoff => by rw [f1] at hoff; rw [hen] at hoff; simp at hoff, ?_, ?_, ?_⟩
    · intro k' e' hg
      rw [lru_write_get m k e hen] at hg
      by_cases hk : k = k'
      · subst hk
        simp only [if_true, Option.some.injEq] at hg
        cases hold : AMap.get m.list k with
        | none =>
          rw [hold] at hg; simp at hg; subst hg
          rcases he.2 with hv | ⟨e'', hg'', _⟩
          · exact ⟨hv, he.1⟩
          · rw [hold] at hg''; simp at hg''
        | some old =>
          rw [hold] at hg
          simp only [] at hg
          by_cases hlt : old.round < e.round
          · simp only [hlt, if_true] at hg; subst hg
            rcases he.2 with hv | ⟨e'', hg'', hlt''⟩
            · exact ⟨hv, he.1⟩
            · rw [hold] at hg''; simp at hg''; subst hg''; omega
          · simp only [hlt, if_false] at hg; subst hg
            exact h.list k old hold
      · simp only [hk, if_false] at hg
        exact h.list k' e' hg
    · intro p hp
      rw [f2] at hp
      obtain ⟨hr, hv⟩ := h.pend p hp
      refine ⟨hr, ?_⟩
      rcases hv with hv | ⟨e', hg', hlt'⟩
      · exact Or.inl hv
      · obtain ⟨e'', hg'', hle⟩ := hmono _ _ hg'
        exact Or.inr ⟨e'', hg'', by omega⟩
    · intro k' hk'
      rw [f3, f4] at hk'
      rcases h.nf k' hk' with h1 | h1
      · exact Or.inl h1
      · right
        cases hg : AMap.get m.list k' with
        | none => rw [hg] at h1; simp at h1
        | some e' =>
          obtain ⟨e'', hg'', _⟩ := hmono _ _ hg
          rw [hg'']; rfl
  · have hen' : m.enabled = false := by simpa using hen
    rw [lru_write_disabled m k e hen']; exact h

theorem lruInv_flush_aux (pend : List (K × LEntry (Option W))) (m : LRU K (Option W)) (dbv : K → Option W) (r : Nat)
    (h : LruInv m dbv r)
    (hp : ∀ p ∈ pend, p.2.round ≤ r ∧ (p.2.val = dbv p.1 ∨ ∃ e', AMap.get m.list p.1 = some e' ∧ p.2.round < e'.round)) :
    LruInv (pend.foldl (fun acc p => acc.write p.1 p.2) m) dbv r ∧
    (pend.foldl (fun acc p => acc.write p.1 p.2) m).pending = m.pending ∧
    (pend.foldl (fun acc p => acc.write p.1 p.2) m).notFound = m.notFound ∧
    (pend.foldl (fun acc p => acc.write p.1 p.2) m).pendingNF = m.pendingNF ∧
    (pend.foldl (fun acc p => acc.write p.1 p.2) m).enabled = m.enabled ∧
    (∀ k, (AMap.get m.list k).isSome → (AMap.get (pend.foldl (fun acc p => acc.write p.1 p.2) m).list k).isSome) ∧
    (m.enabled = false → (pend.foldl (fun acc p => acc.write p.1 p.2) m).list = m.list) := by
  induction pend generalizing m with
  | nil => exact ⟨h, rfl, rfl, rfl, rfl, fun _ hk => hk, fun _ => rfl⟩
  | cons p t ih =>
    simp only [List.foldl_cons]
    have h1 := lruInv_write h p.1 p.2 (hp p (by simp))
    obtain ⟨f1, f2, f3, f4, _⟩ := lru_write_fields m p.1 p.2
    have hmono : ∀ k' e', AMap.get m.list k' = some e' → ∃ e'', AMap.get (m.write p.1 p.2).list k' = some e'' ∧ e'.round ≤ e''.round := by
      intro k' e' hg
      by_cases hen : m.enabled = true
      · rw [lru_write_get m p.1 p.2 hen]
        by_cases hk : p.1 = k'
        · subst hk
          simp only [if_true, hg]
          by_cases hlt : e'.round < p.2.round
          · exact ⟨p.2, by simp [hlt], by omega⟩
          · exact ⟨e', by simp [hlt], by omega⟩
        · simp only [hk, if_false]; exact ⟨e', hg, by omega⟩
      · have hen' : m.enabled = false := by simpa using hen
        rw [lru_write_disabled m p.1 p.2 hen']; exact ⟨e', hg, by omega⟩
    have hp' : ∀ q ∈ t, q.2.round ≤ r ∧ (q.2.val = dbv q.1 ∨ ∃ e', AMap.get (m.write p.1 p.2).list q.1 = some e' ∧ q.2.round < e'.round) := by
      intro q hq
      obtain ⟨hr, hv⟩ := hp q (by simp [hq])
      refine ⟨hr, ?_⟩
      rcases hv with hv | ⟨e', hg', hlt'⟩
      · exact Or.inl hv
      · obtain ⟨e'', hg'', hle⟩ := hmono _ _ hg'
        exact Or.inr ⟨e'', hg'', by omega⟩
    obtain ⟨g1, g2, g3, g4, g5, g6, g7⟩ := ih (m.write p.1 p.2) h1 hp'
    refine ⟨g1, by rw [g2, f2], by rw [g3, f3], by rw [g4, f4], by rw [g5, f1], ?_, ?_⟩
    · intro k hk
      apply g6
      cases hg : AMap.get m.list k with
      | none => rw [hg] at hk; simp at hk
      | some e' => obtain ⟨e'', hg'', _⟩ := hmono _ _ hg; rw [hg'']; rfl
    · intro hoff
      rw [g7 (by rw [f1]; exact hoff), lru_write_disabled m _ _ hoff]

theorem lruInv_flush {m : LRU K (Option W)} {dbv : K → Option W} {r : Nat} (h : LruInv m dbv r) :
    LruInv m.flushPendingWrites dbv r ∧ m.flushPendingWrites.pending = [] ∧ m.flushPendingWrites.pendingNF = [] := by
  have h0 : LruInv ({ m with pending := [] } : LRU K (Option W)) dbv r :=
    ⟨fun hoff => ⟨(h.off hoff).1, rfl, (h.off hoff).2.2⟩, h.list, by simp, h.nf⟩
  obtain ⟨g1, g2, g3, g4, g5, g6, g7⟩ :=
    lruInv_flush_aux m.pending ({ m with pending := [] } : LRU K (Option W)) dbv r h0 (fun p hp => h.pend p hp)
  unfold LRU.flushPendingWrites
  generalize List.foldl (fun acc p => acc.write p.1 p.2) ({ m with pending := [] } : LRU K (Option W)) m.pending = m1 at *
  simp only [] at g2 g3 g4 g5 g7
  refine ⟨⟨?_, g1.list, ?_, ?_⟩, g2, rfl⟩
  · intro hoff
    simp only [] at hoff
    rw [g5] at hoff
    obtain ⟨o1, _, o3, o4⟩ := h.off hoff
    refine ⟨by simp only []; rw [g7 hoff]; exact o1, g2, ?_, rfl⟩
    simp only [g3, g4, o3, o4]; rfl
  · simp only [g2]; simp
  · intro k hk
    simp only [List.mem_append, List.not_mem_nil, or_false] at hk
    exact g1.nf k hk

theorem get_take_some {V : Type} (l : AMap K V) (n : Nat) (k : K) (v : V) (h : AMap.get (l.take n) k = some v) :
    AMap.get l k = some v := by
  induction l generalizing n with
  | nil => simp at h
  | cons p t ih =>
    obtain ⟨k0, v0⟩ := p
    cases n with
    | zero => simp at h
    | succ n =>
      simp only [List.take_succ_cons, get_cons] at h ⊢
      split
      · next hk => simpa [hk] using h
      · next hk => simp only [hk, if_false] at h; exact ih n h

/-- pruning is safe once the pending buffers were applied (as newBlockImpl does) -/
theorem lruInv_prune {m : LRU K (Option W)} {dbv : K → Option W} {r : Nat} (h : LruInv m dbv r)
    (hp : m.pending = []) (hnf : m.pendingNF = []) (n : Nat) : LruInv (m.prune n) dbv r := by
  unfold LRU.prune
  split
  · exact h
  · next hen =>
    refine ⟨fun hoff => by simp only [] at hoff; simp [hoff] at hen, ?_, by simp [hp], by simp [hnf]⟩
    intro k e hg
    exact h.list k e (get_take_some _ _ _ _ hg)

/-- the writes of postCommit: the DB moved from `dbv` (round r) to `dbv'` (round r' > r); every key whose row changed is
    written with its new row -/
theorem lruInv_commitWrites (upd : List (K × Option W)) (m : LRU K (Option W)) (dbv dbv' : K → Option W) (r r' : Nat)
    (hr : r < r') (h : LruInv m dbv r)
    (hupd : ∀ p ∈ upd, p.2 = dbv' p.1)
    (hchg : ∀ k, dbv' k ≠ dbv k → ∃ v, (k, v) ∈ upd) :
    LruInv (upd.foldl (fun acc p => acc.write p.1 ⟨p.2, r'⟩) m) dbv' r' := by
  by_cases hen : m.enabled = true
  · -- two-epoch invariant on the recency list
    let P : LRU K (Option W) → List (K × Option W) → Prop := fun m' done =>
      m'.enabled = true ∧ m'.pending = m.pending ∧ m'.notFound = m.notFound ∧ m'.pendingNF = m.pendingNF ∧
      (∀ k e, AMap.get m'.list k = some e → (e.round = r' ∧ e.val = dbv' k) ∨ (e.round ≤ r ∧ e.val = dbv k ∧ ∀ v, (k, v) ∉ done)) ∧
      (∀ k e, AMap.get m.list k = some e → ∃ e', AMap.get m'.list k = some e' ∧ e.round ≤ e'.round) ∧
      (∀ k v, (k, v) ∈ done → ∃ e', AMap.get m'.list k = some e' ∧ e'.round = r')
    have hfold : ∀ (todo done : List (K × Option W)) (m' : LRU K (Option W)), (∀ p ∈ todo, p.2 = dbv' p.1) → P m' done →
        P (todo.foldl (fun acc p => acc.write p.1 ⟨p.2, r'⟩) m') (done ++ todo) := by
      intro todo
      induction todo with
      | nil => intro done m' _ hP; simpa using hP
      | cons p t ih =>
        intro done m' ht hP
        obtain ⟨p1, p2, p3, p4, p5, p6, p7⟩ := hP
        simp only [List.foldl_cons]
        have hpv : p.2 = dbv' p.1 := ht p (by simp)
        obtain ⟨f1, f2, f3, f4, _⟩ := lru_write_fields m' p.1 ⟨p.2, r'⟩
        have hP' : P (m'.write p.1 ⟨p.2, r'⟩) (done ++ [p]) := by
          refine ⟨by rw [f1, p1], by rw [f2, p2], by rw [f3, p3], by rw [f4, p4], ?_, ?_, ?_⟩
          · intro k e hg
            rw [lru_write_get m' p.1 _ p1] at hg
            by_cases hk : p.1 = k
            · subst hk
              simp only [if_true, Option.some.injEq] at hg
              cases hold : AMap.get m'.list p.1 with
              | none => rw [hold] at hg; simp at hg; subst hg; left; exact ⟨rfl, hpv⟩
              | some old =>
                rw [hold] at hg; simp only [] at hg
                rcases p5 p.1 old hold with ⟨o1, o2⟩ | ⟨o1, o2, _⟩
                · have : ¬ old.round < r' := by omega
                  simp only [this, if_false] at hg; subst hg; left; exact ⟨o1, o2⟩
                · have : old.round < r' := by omega
                  simp only [this, if_true] at hg; subst hg; left; exact ⟨rfl, hpv⟩
            · simp only [hk, if_false] at hg
              rcases p5 k e hg with h1 | ⟨o1, o2, o3⟩
              · exact Or.inl h1
              · right
                refine ⟨o1, o2, fun v hv => ?_⟩
                simp only [List.mem_append, List.mem_singleton] at hv
                rcases hv with hv | hv
                · exact o3 v hv
                · exact hk (by rw [← hv])
          · intro k e hg
            obtain ⟨e', hg', hle⟩ := p6 k e hg
            rw [lru_write_get m' p.1 _ p1]
            by_cases hk : p.1 = k
            · subst hk
              simp only [if_true, hg']
              by_cases hlt : e'.round < r'
              · refine ⟨⟨p.2, r'⟩, by simp [hlt], ?_⟩
                simp only []; omega
              · exact ⟨e', by simp [hlt], hle⟩
            · simp only [hk, if_false]; exact ⟨e', hg', hle⟩
          · intro k v hv
            simp only [List.mem_append, List.mem_singleton] at hv
            rw [lru_write_get m' p.1 _ p1]
            by_cases hk : p.1 = k
            · subst hk
              simp only [if_true]
              cases hold : AMap.get m'.list p.1 with
              | none => exact ⟨_, rfl, rfl⟩
              | some old =>
                simp only []
                rcases p5 p.1 old hold with ⟨o1, _⟩ | ⟨o1, _, _⟩
                · have : ¬ old.round < r' := by omega
                  exact ⟨old, by simp [this], o1⟩
                · have : old.round < r' := by omega
                  exact ⟨⟨p.2, r'⟩, by simp [this], rfl⟩
            · simp only [hk, if_false]
              rcases hv with hv | hv
              · exact p7 k v hv
              · exact absurd (by rw [← hv]) hk
        have := ih (done ++ [p]) _ (fun q hq => ht q (by simp [hq])) hP'
        simpa using this
    have hP0 : P m [] := by
      refine ⟨hen, rfl, rfl, rfl, ?_, ?_, by simp⟩
      · intro k e hg
        obtain ⟨hv, hle⟩ := h.list k e hg
        exact Or.inr ⟨hle, hv, by simp⟩
      · intro k e hg; exact ⟨e, hg, by omega⟩
    have hPf := hfold upd [] m hupd hP0
    simp only [List.nil_append] at hPf
    obtain ⟨q1, q2, q3, q4, q5, q6, q7⟩ := hPf
    refine ⟨fun hoff => by rw [q1] at hoff; simp at hoff, ?_, ?_, ?_⟩
    · intro k e hg
      rcases q5 k e hg with ⟨o1, o2⟩ | ⟨o1, o2, o3⟩
      · exact ⟨o2, by omega⟩
      · refine ⟨?_, by omega⟩
        by_cases hc : dbv' k = dbv k
        · rw [hc]; exact o2
        · obtain ⟨v, hv⟩ := hchg k hc; exact absurd hv (o3 v)
    · intro p hp
      rw [q2] at hp
      obtain ⟨hle, hv⟩ := h.pend p hp
      refine ⟨by omega, ?_⟩
      rcases hv with hv | ⟨e', hg', hlt'⟩
      · by_cases hc : dbv' p.1 = dbv p.1
        · left; rw [hc]; exact hv
        · obtain ⟨v, hv'⟩ := hchg p.1 hc
          obtain ⟨e'', hg'', hr''⟩ := q7 p.1 v hv'
          exact Or.inr ⟨e'', hg'', by omega⟩
      · obtain ⟨e'', hg'', hle''⟩ := q6 _ _ hg'
        exact Or.inr ⟨e'', hg'', by omega⟩
    · intro k hk
      rw [q3, q4] at hk
      by_cases hc : dbv' k = dbv k
      · rcases h.nf k hk with h1 | h1
        · left; rw [hc]; exact h1
        · right
          cases hg : AMap.get m.list k with
          | none => rw [hg] at h1; simp at h1
          | some e => obtain ⟨e', hg', _⟩ := q6 k e hg; rw [hg']; rfl
      · obtain ⟨v, hv'⟩ := hchg k hc
        obtain ⟨e'', hg'', _⟩ := q7 k v hv'
        right; rw [hg'']; rfl
  · have hen' : m.enabled = false := by simpa using hen
    have hid : ∀ (l : List (K × Option W)), l.foldl (fun acc p => acc.write p.1 ⟨p.2, r'⟩) m = m := by
      intro l
      induction l with
      | nil => rfl
      | cons p t ih => simp only [List.foldl_cons]; rw [lru_write_disabled m _ _ hen']; exact ih
    rw [hid]
    obtain ⟨o0, o1, o2, o3⟩ := h.off hen'
    refine ⟨fun _ => ⟨o0, o1, o2, o3⟩, ?_, by simp [o1], by simp [o2, o3]⟩
    intro k e hg
    rw [o0] at hg; simp at hg

end lru

end AlgoVerif.Lemmas.AcctUpdates
