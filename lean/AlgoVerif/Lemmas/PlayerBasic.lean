import AlgoVerif.Model.Player
/-!
Basic facts about the association lists and the router combinators of `Model.Player`
(`aget` / `aset` / `adel`, `upd`, `atStep`, `atPeriod`, `atRound`), used by the invariant proofs (C03) and the
restore bisimulation (C07).
-/
namespace AlgoVerif.Lemmas.Player
open AlgoVerif.Model AlgoVerif.Model.Player

/-! ### association lists -/

theorem aget_mem {α : Type} {l : List (Nat × α)} {k : Nat} {x : α} (h : aget l k = some x) : (k, x) ∈ l := by
  unfold aget at h
  induction l with
  | nil => simp [List.lookup] at h
  | cons kv rest ih =>
    obtain ⟨k', v'⟩ := kv
    simp only [List.lookup] at h
    by_cases hk : k = k'
    · subst hk; simp at h; subst h; exact List.mem_cons_self
    · have : (k == k') = false := by simpa using hk
      rw [this] at h
      exact List.mem_cons_of_mem _ (ih h)

theorem mem_aset {α : Type} {l : List (Nat × α)} {k : Nat} {v : α} {kv : Nat × α} (h : kv ∈ aset l k v) :
    kv ∈ l ∨ kv = (k, v) := by
  induction l with
  | nil => simp [aset] at h; exact Or.inr h
  | cons hd rest ih =>
    obtain ⟨k', v'⟩ := hd
    simp only [aset] at h
    split at h
    · rcases List.mem_cons.mp h with h | h
      · exact Or.inr h
      · exact Or.inl (List.mem_cons_of_mem _ h)
    · rcases List.mem_cons.mp h with h | h
      · exact Or.inl (h ▸ List.mem_cons_self)
      · rcases ih h with h | h
        · exact Or.inl (List.mem_cons_of_mem _ h)
        · exact Or.inr h

theorem aget_aset_self {α : Type} (l : List (Nat × α)) (k : Nat) (v : α) : aget (aset l k v) k = some v := by
  unfold aget
  induction l with
  | nil => simp [aset]
  | cons hd rest ih =>
    obtain ⟨k', v'⟩ := hd
    simp only [aset]
    split
    · simp [List.lookup]
    · rename_i hne
      have : (k == k') = false := by simpa using (fun h => hne h.symm)
      simp [List.lookup, this, ih]

theorem aget_aset_ne {α : Type} (l : List (Nat × α)) (k k₂ : Nat) (v : α) (h : k₂ ≠ k) :
    aget (aset l k v) k₂ = aget l k₂ := by
  unfold aget
  induction l with
  | nil =>
    have : (k₂ == k) = false := by simpa using h
    simp [aset, List.lookup, this]
  | cons hd rest ih =>
    obtain ⟨k', v'⟩ := hd
    simp only [aset]
    split
    · rename_i heq
      subst heq
      have : (k₂ == k') = false := by simpa using h
      simp [List.lookup, this]
    · simp only [List.lookup]
      split <;> simp_all

theorem aget_filter_key {α : Type} (l : List (Nat × α)) (q : Nat → Bool) (k : Nat) :
    aget (l.filter (fun kv => q kv.1)) k = if q k then aget l k else none := by
  unfold aget
  induction l with
  | nil => simp [List.lookup]
  | cons hd rest ih =>
    obtain ⟨k', v'⟩ := hd
    simp only [List.filter]
    by_cases hq : q k' = true
    · simp only [hq, List.lookup]
      by_cases hk : k = k'
      · subst hk; simp [hq]
      · have : (k == k') = false := by simpa using hk
        simp only [this]; exact ih
    · have hq' : q k' = false := by simpa using hq
      simp only [hq', List.lookup]
      by_cases hk : k = k'
      · subst hk; rw [ih]; simp [hq']
      · have : (k == k') = false := by simpa using hk
        simp only [this]; exact ih

theorem aget_append {α : Type} (l₁ l₂ : List (Nat × α)) (k : Nat) :
    aget (l₁ ++ l₂) k = (aget l₁ k).or (aget l₂ k) := by
  unfold aget
  induction l₁ with
  | nil => simp [List.lookup]
  | cons hd rest ih =>
    obtain ⟨k', v'⟩ := hd
    simp only [List.cons_append, List.lookup]
    split <;> simp_all

/-! ### `update` keeps what it does not collect -/

theorem PeriodR.upd_steps_mem {pr : PeriodR} {s : Nat} {kv : Nat × StepR} (h : kv ∈ (pr.upd s).steps) :
    kv ∈ pr.steps ∨ kv = (s, {}) := by
  unfold PeriodR.upd at h
  split at h
  · exact Or.inl h
  · simp only [List.mem_append, List.mem_singleton] at h; exact h

theorem PeriodR.upd_fields (pr : PeriodR) (s : Nat) :
    (pr.upd s).ptracker = pr.ptracker ∧ (pr.upd s).ptContract = pr.ptContract ∧ (pr.upd s).cached = pr.cached := by
  unfold PeriodR.upd; split <;> simp

theorem RoundR.upd_periods_mem {pl : PlayerF} {rr : RoundR} {p : Nat} {kv : Nat × PeriodR}
    (h : kv ∈ (rr.upd pl p).periods) : kv ∈ rr.periods ∨ kv = (p, {}) := by
  unfold RoundR.upd at h
  split at h
  · rename_i x hx
    rcases mem_aset h with h' | h'
    · exact Or.inl (List.mem_filter.mp h').1
    · exact Or.inl (h' ▸ aget_mem hx)
  · rcases mem_aset h with h' | h'
    · have := (List.mem_filter.mp h').1
      simp only [List.mem_append, List.mem_singleton] at this
      exact this
    · exact Or.inr h'

theorem RoundR.upd_fields (pl : PlayerF) (rr : RoundR) (p : Nat) :
    (rr.upd pl p).store = rr.store ∧ (rr.upd pl p).freshest = rr.freshest ∧ (rr.upd pl p).ok = rr.ok := by
  unfold RoundR.upd; split <;> simp

theorem Root.upd_rounds_mem {P : Params} {pl : PlayerF} {root : Root} {r : Nat} {kv : Nat × RoundR}
    (h : kv ∈ (root.upd P pl r).rounds) : kv ∈ root.rounds ∨ kv = (r, {}) := by
  unfold Root.upd at h
  simp only [List.mem_filter] at h
  obtain ⟨h, _⟩ := h
  split at h
  · exact Or.inl h
  · simp only [List.mem_append, List.mem_singleton] at h; exact h

/-- the period router an `update` is made for is there afterwards, unchanged if it existed -/
theorem RoundR.upd_aget_of_some {pl : PlayerF} {rr : RoundR} {p : Nat} {pr : PeriodR} (h : aget rr.periods p = some pr) :
    aget (rr.upd pl p).periods p = some pr := by
  unfold RoundR.upd
  simp only [h, aget_aset_self]

/-- a round router that exists before `update` is either kept unchanged or collected -/
theorem Root.upd_aget_of_some {P : Params} {pl : PlayerF} {root : Root} {r : Nat} {rr : RoundR} (h : aget root.rounds r = some rr) :
    aget (root.upd P pl r).rounds r = if keepRound P pl r then some rr else none := by
  unfold Root.upd
  simp only [h]
  rw [aget_filter_key root.rounds (keepRound P pl) r, h]

end AlgoVerif.Lemmas.Player
