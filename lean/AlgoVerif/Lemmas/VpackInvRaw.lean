import AlgoVerif.Lemmas.VpackInvLoops
/-! Inversion of the `rawVote` key loop. -/
set_option linter.unusedSimpArgs false
namespace AlgoVerif.Lemmas.Vpack
open AlgoVerif.Model.Vpack AlgoVerif.Spec.Vpack

/-- one iteration of the `rawVote` loop -/
theorem rawLoop_succ_inv {n : Nat} {prev : Option Bytes} {p p' : PS} (h : rawLoop (n + 1) prev p = .ok p') :
    ∃ k r0, p.rem = fixstr k ++ r0 ∧ keyOrderOk prev k = true ∧
      ((k = kPer ∧ ∃ x r, x < M64 ∧ r0 = appendUint64 x ++ r ∧
          rawLoop n (some kPer) { rem := r, out := p.out ++ appendUint64 x, mask := p.mask ||| bitPer, req := p.req } = .ok p') ∨
       (k = kProp ∧ ∃ c body q, 1 ≤ c ∧ c ≤ 4 ∧ r0 = UInt8.ofNat (0x80 + c) :: body ∧
          propLoop c none { rem := body, out := p.out, mask := p.mask, req := p.req } = .ok q ∧
          rawLoop n (some kProp) q = .ok p') ∨
       (k = kRnd ∧ ∃ x r, x < M64 ∧ r0 = appendUint64 x ++ r ∧
          rawLoop n (some kRnd) { rem := r, out := p.out ++ appendUint64 x, mask := p.mask, req := p.req + 1 } = .ok p') ∨
       (k = kSnd ∧ ∃ v r, v.length = 32 ∧ r0 = [0xc4, UInt8.ofNat v.length] ++ (v ++ r) ∧
          rawLoop n (some kSnd) { rem := r, out := p.out ++ v, mask := p.mask, req := p.req + 1 } = .ok p') ∨
       (k = kStep ∧ ∃ x r, x < M64 ∧ r0 = appendUint64 x ++ r ∧
          rawLoop n (some kStep) { rem := r, out := p.out ++ appendUint64 x, mask := p.mask ||| bitStep, req := p.req } = .ok p')) := by
  rw [rawLoop] at h
  split at h
  · cases h
  · rename_i k q hq
    obtain ⟨r0, _, hrem, hp⟩ := readString_inv hq
    subst hp
    split at h
    · cases h
    · rename_i hord
      have hord' : keyOrderOk prev k = true := by simpa using hord
      refine ⟨k, r0, hrem, hord', ?_⟩
      split at h
      · cases h
      · rename_i q' hd
        split at hd
        · rename_i hk
          obtain ⟨x, r, hx, hr, hq'⟩ := uintOpt_inv hd
          subst hq'
          exact Or.inl ⟨hk, x, r, hx, hr, by rw [← hk]; exact h⟩
        split at hd
        · rename_i hk
          split at hd
          · cases hd
          · rename_i c q2 hfm
            obtain ⟨body, _, hb, hq2⟩ := readFixMap_inv hfm
            subst hq2
            split at hd
            · cases hd
            · rename_i hc
              exact Or.inr (Or.inl ⟨hk, c, body, q', by omega, by omega, hb, hd, by rw [← hk]; exact h⟩)
        split at hd
        · rename_i hk
          obtain ⟨x, r, hx, hr, hq'⟩ := uintReq_inv hd
          subst hq'
          exact Or.inr (Or.inr (Or.inl ⟨hk, x, r, hx, hr, by rw [← hk]; exact h⟩))
        split at hd
        · rename_i hk
          obtain ⟨v, r, hv, hr, hq'⟩ := binReq_inv hd
          subst hq'
          exact Or.inr (Or.inr (Or.inr (Or.inl ⟨hk, v, r, hv, hr, by rw [← hk]; exact h⟩)))
        split at hd
        · rename_i hk
          obtain ⟨x, r, hx, hr, hq'⟩ := uintOpt_inv hd
          subst hq'
          exact Or.inr (Or.inr (Or.inr (Or.inr ⟨hk, x, r, hx, hr, by rw [← hk]; exact h⟩)))
        · cases hd

/-- the `prop` item for proposal fields d e o q (absent when all are absent) -/
def propItemOf (d e : Option Bytes) (o : Option Nat) (q : Option Bytes) : Bytes :=
  if cnt d + cnt e + cnt o + cnt q = 0 then []
  else fixstr kProp ++ ([UInt8.ofNat (0x80 + (cnt d + cnt e + cnt o + cnt q))] ++
    (optBin kDig d ++ (optBin kEncdig e ++ (optUint kOper o ++ optBin kOprop q))))

def propN (d e : Option Bytes) (o : Option Nat) (q : Option Bytes) : Nat :=
  if cnt d + cnt e + cnt o + cnt q = 0 then 0 else 1

theorem propItemOf_none : propItemOf none none none none = [] := rfl
theorem propN_none : propN none none none none = 0 := rfl

def RawWF (per : Option Nat) (d e : Option Bytes) (o : Option Nat) (q : Option Bytes) (rnd : Option Nat)
    (snd : Option Bytes) (step : Option Nat) : Prop :=
  (∀ x, per = some x → x < M64) ∧ (∀ x, d = some x → x.length = 32) ∧ (∀ x, e = some x → x.length = 32) ∧
  (∀ x, o = some x → x < M64) ∧ (∀ x, q = some x → x.length = 32) ∧ (∀ x, rnd = some x → x < M64) ∧
  (∀ x, snd = some x → x.length = 32) ∧ (∀ x, step = some x → x < M64)

/-- what `rawLoop n _ p = ok p'` consumed and produced -/
def RawTail (per : Option Nat) (d e : Option Bytes) (o : Option Nat) (q : Option Bytes) (rnd : Option Nat)
    (snd : Option Bytes) (step : Option Nat) (n : Nat) (p p' : PS) : Prop :=
  RawWF per d e o q rnd snd step ∧
  n = cnt per + propN d e o q + cnt rnd + cnt snd + cnt step ∧
  p.rem = optUint kPer per ++ (propItemOf d e o q ++ (optUint kRnd rnd ++ (optBin kSnd snd ++ (optUint kStep step ++ p'.rem)))) ∧
  p'.out = p.out ++ (ouint per ++ (obytes d ++ (obytes e ++ (ouint o ++ (obytes q ++ (ouint rnd ++ (obytes snd ++ ouint step))))))) ∧
  p'.mask = (((((p.mask ||| bitIf per bitPer) ||| bitIf d bitDig) ||| bitIf e bitEncDig) ||| bitIf o bitOper) |||
    bitIf q bitOprop) ||| bitIf step bitStep ∧
  p'.req = p.req + cnt rnd + cnt snd

theorem RawTail_nil (p : PS) : RawTail none none none none none none none none 0 p p := by
  simp [RawTail, RawWF, cnt, optBin, optUint, obytes, ouint, bitIf, propItemOf, propN]

theorem RawTail_step {n : Nat} {p p' : PS} {x : Nat} {r : Bytes} (hx : x < M64)
    (hrem : p.rem = fixstr kStep ++ (appendUint64 x ++ r))
    (t : RawTail none none none none none none none none n
      { rem := r, out := p.out ++ appendUint64 x, mask := p.mask ||| bitStep, req := p.req } p') :
    RawTail none none none none none none none (some x) (n + 1) p p' := by
  obtain ⟨_, hn, hr, ho, hm, hq⟩ := t
  simp only [cnt_none, optBin_none, optUint_none, obytes_none, ouint_none, bitIf_none, propItemOf_none, propN_none,
    List.nil_append, List.append_nil, UInt8.or_zero, Nat.add_zero] at hn hr ho hm hq
  refine ⟨⟨by simp, by simp, by simp, by simp, by simp, by simp, by simp, by intro y hy; cases hy; exact hx⟩, ?_, ?_, ?_, ?_, ?_⟩
  · simp only [cnt_none, cnt_some, propN_none, hn]
  · simp only [optBin_none, optUint_none, optUint_some, propItemOf_none, uintField, List.nil_append, List.append_assoc, hrem, hr]
  · simp only [obytes_none, ouint_none, ouint_some, List.nil_append, ho]
  · simp only [bitIf_none, bitIf_some, UInt8.or_zero, hm]
  · simp only [cnt_none, hq, Nat.add_zero]

theorem RawTail_snd {n : Nat} {p p' : PS} {v r : Bytes} {step : Option Nat} (hv : v.length = 32)
    (hrem : p.rem = fixstr kSnd ++ ([0xc4, UInt8.ofNat v.length] ++ (v ++ r)))
    (t : RawTail none none none none none none none step n
      { rem := r, out := p.out ++ v, mask := p.mask, req := p.req + 1 } p') :
    RawTail none none none none none none (some v) step (n + 1) p p' := by
  obtain ⟨w, hn, hr, ho, hm, hq⟩ := t
  simp only [cnt_none, optBin_none, optUint_none, obytes_none, ouint_none, bitIf_none, propItemOf_none, propN_none,
    List.nil_append, List.append_nil, UInt8.or_zero, Nat.add_zero, Nat.zero_add] at hn hr ho hm hq
  refine ⟨⟨by simp, by simp, by simp, by simp, by simp, by simp, by intro y hy; cases hy; exact hv, w.2.2.2.2.2.2.2⟩, ?_, ?_, ?_, ?_, ?_⟩
  · simp only [cnt_none, cnt_some, propN_none, hn]; first | done | omega
  · simp only [optBin_none, optBin_some, optUint_none, propItemOf_none, bin, List.nil_append, List.append_assoc, hrem, hr]
  · simp only [obytes_none, obytes_some, ouint_none, List.nil_append, List.append_assoc, ho]
  · simp only [bitIf_none, UInt8.or_zero, hm]
  · simp only [cnt_none, cnt_some, hq]; first | done | omega

theorem RawTail_rnd {n : Nat} {p p' : PS} {x : Nat} {r : Bytes} {snd : Option Bytes} {step : Option Nat} (hx : x < M64)
    (hrem : p.rem = fixstr kRnd ++ (appendUint64 x ++ r))
    (t : RawTail none none none none none none snd step n
      { rem := r, out := p.out ++ appendUint64 x, mask := p.mask, req := p.req + 1 } p') :
    RawTail none none none none none (some x) snd step (n + 1) p p' := by
  obtain ⟨w, hn, hr, ho, hm, hq⟩ := t
  simp only [cnt_none, optBin_none, optUint_none, obytes_none, ouint_none, bitIf_none, propItemOf_none, propN_none,
    List.nil_append, List.append_nil, UInt8.or_zero, Nat.add_zero, Nat.zero_add] at hn hr ho hm hq
  refine ⟨⟨by simp, by simp, by simp, by simp, by simp, by intro y hy; cases hy; exact hx, w.2.2.2.2.2.2.1, w.2.2.2.2.2.2.2⟩, ?_, ?_, ?_, ?_, ?_⟩
  · simp only [cnt_none, cnt_some, propN_none, hn]; first | done | omega
  · simp only [optUint_none, optUint_some, propItemOf_none, uintField, List.nil_append, List.append_assoc, hrem, hr]
  · simp only [obytes_none, ouint_none, ouint_some, List.nil_append, List.append_assoc, ho]
  · simp only [bitIf_none, UInt8.or_zero, hm]
  · simp only [cnt_none, cnt_some, hq]; first | done | omega

theorem RawTail_prop {n c : Nat} {p p' q1 : PS} {body : Bytes} {d e : Option Bytes} {o : Option Nat} {q : Option Bytes}
    {rnd : Option Nat} {snd : Option Bytes} {step : Option Nat} (hc1 : 1 ≤ c)
    (hrem : p.rem = fixstr kProp ++ (UInt8.ofNat (0x80 + c) :: body))
    (pt : PropTail d e o q c { rem := body, out := p.out, mask := p.mask, req := p.req } q1)
    (t : RawTail none none none none none rnd snd step n q1 p') :
    RawTail none d e o q rnd snd step (n + 1) p p' := by
  obtain ⟨w, hn, hr, ho, hm, hq⟩ := t
  obtain ⟨v1, v2, v3, v4, gn, gr, go, gm, gq⟩ := pt
  simp only [cnt_none, optUint_none, obytes_none, ouint_none, bitIf_none, propItemOf_none, propN_none,
    List.nil_append, List.append_nil, UInt8.or_zero, Nat.add_zero, Nat.zero_add] at hn hr ho hm hq
  simp only at gr go gm gq
  have hne : ¬ (cnt d + cnt e + cnt o + cnt q = 0) := by omega
  have hc0 : ¬ (c = 0) := by omega
  refine ⟨⟨by simp, v1, v2, v3, v4, w.2.2.2.2.2.1, w.2.2.2.2.2.2.1, w.2.2.2.2.2.2.2⟩, ?_, ?_, ?_, ?_, ?_⟩
  · simp only [cnt_none, propN, if_neg hne, hn]; first | done | omega
  · simp only [optUint_none, propItemOf, ← gn, if_neg hc0, List.nil_append, List.append_assoc, List.singleton_append,
      List.cons_append, hrem, gr, hr]
  · simp only [ouint_none, List.nil_append, List.append_assoc, ho, go]
  · simp only [bitIf_none, UInt8.or_zero, hm, gm]
  · simp only [hq, gq]

theorem RawTail_per {n : Nat} {p p' : PS} {x : Nat} {r : Bytes} {d e : Option Bytes} {o : Option Nat} {q : Option Bytes}
    {rnd : Option Nat} {snd : Option Bytes} {step : Option Nat} (hx : x < M64)
    (hrem : p.rem = fixstr kPer ++ (appendUint64 x ++ r))
    (t : RawTail none d e o q rnd snd step n
      { rem := r, out := p.out ++ appendUint64 x, mask := p.mask ||| bitPer, req := p.req } p') :
    RawTail (some x) d e o q rnd snd step (n + 1) p p' := by
  obtain ⟨w, hn, hr, ho, hm, hq⟩ := t
  simp only [cnt_none, optUint_none, ouint_none, bitIf_none, List.nil_append, List.append_nil, UInt8.or_zero,
    Nat.add_zero, Nat.zero_add] at hn hr ho hm hq
  refine ⟨⟨by intro y hy; cases hy; exact hx, w.2⟩, ?_, ?_, ?_, ?_, hq⟩
  · simp only [cnt_some, hn]; first | done | omega
  · simp only [optUint_some, uintField, List.append_assoc, hrem, hr]
  · simp only [ouint_some, List.append_assoc, ho]
  · simp only [bitIf_some, hm]

theorem rawLoop_zero_inv {prev : Option Bytes} {p p' : PS} (h : rawLoop 0 prev p = .ok p') : p' = p := by
  rw [rawLoop] at h; cases h; rfl

theorem rawStage5 : ∀ (n : Nat) (p p' : PS), rawLoop n (some kStep) p = .ok p' →
    RawTail none none none none none none none none n p p' := by
  intro n p p' h
  cases n with
  | zero => rw [rawLoop_zero_inv h]; exact RawTail_nil p
  | succ n =>
    obtain ⟨k, r0, _, hord, hk⟩ := rawLoop_succ_inv h
    rcases hk with ⟨rfl, _⟩ | ⟨rfl, _⟩ | ⟨rfl, _⟩ | ⟨rfl, _⟩ | ⟨rfl, _⟩ <;> exact absurd hord (by decide)

theorem rawStage4 : ∀ (n : Nat) (p p' : PS), rawLoop n (some kSnd) p = .ok p' →
    ∃ step, RawTail none none none none none none none step n p p' := by
  intro n p p' h
  cases n with
  | zero => rw [rawLoop_zero_inv h]; exact ⟨none, RawTail_nil p⟩
  | succ n =>
    obtain ⟨k, r0, hrem, hord, hk⟩ := rawLoop_succ_inv h
    rcases hk with ⟨rfl, _⟩ | ⟨rfl, _⟩ | ⟨rfl, _⟩ | ⟨rfl, _⟩ | ⟨rfl, x, r, hx, hr0, hl⟩
    · exact absurd hord (by decide)
    · exact absurd hord (by decide)
    · exact absurd hord (by decide)
    · exact absurd hord (by decide)
    · subst hr0; exact ⟨some x, RawTail_step hx hrem (rawStage5 _ _ _ hl)⟩

theorem rawStage3 : ∀ (n : Nat) (p p' : PS), rawLoop n (some kRnd) p = .ok p' →
    ∃ snd step, RawTail none none none none none none snd step n p p' := by
  intro n p p' h
  cases n with
  | zero => rw [rawLoop_zero_inv h]; exact ⟨none, none, RawTail_nil p⟩
  | succ n =>
    obtain ⟨k, r0, hrem, hord, hk⟩ := rawLoop_succ_inv h
    rcases hk with ⟨rfl, _⟩ | ⟨rfl, _⟩ | ⟨rfl, _⟩ | ⟨rfl, v, r, hv, hr0, hl⟩ | ⟨rfl, x, r, hx, hr0, hl⟩
    · exact absurd hord (by decide)
    · exact absurd hord (by decide)
    · exact absurd hord (by decide)
    · subst hr0
      obtain ⟨step, t⟩ := rawStage4 _ _ _ hl
      exact ⟨some v, step, RawTail_snd hv hrem t⟩
    · subst hr0; exact ⟨none, some x, RawTail_step hx hrem (rawStage5 _ _ _ hl)⟩

theorem rawStage2 : ∀ (n : Nat) (p p' : PS), rawLoop n (some kProp) p = .ok p' →
    ∃ rnd snd step, RawTail none none none none none rnd snd step n p p' := by
  intro n p p' h
  cases n with
  | zero => rw [rawLoop_zero_inv h]; exact ⟨none, none, none, RawTail_nil p⟩
  | succ n =>
    obtain ⟨k, r0, hrem, hord, hk⟩ := rawLoop_succ_inv h
    rcases hk with ⟨rfl, _⟩ | ⟨rfl, _⟩ | ⟨rfl, x, r, hx, hr0, hl⟩ | ⟨rfl, v, r, hv, hr0, hl⟩ | ⟨rfl, x, r, hx, hr0, hl⟩
    · exact absurd hord (by decide)
    · exact absurd hord (by decide)
    · subst hr0
      obtain ⟨snd, step, t⟩ := rawStage3 _ _ _ hl
      exact ⟨some x, snd, step, RawTail_rnd hx hrem t⟩
    · subst hr0
      obtain ⟨step, t⟩ := rawStage4 _ _ _ hl
      exact ⟨none, some v, step, RawTail_snd hv hrem t⟩
    · subst hr0; exact ⟨none, none, some x, RawTail_step hx hrem (rawStage5 _ _ _ hl)⟩

theorem rawStage1 : ∀ (n : Nat) (p p' : PS), rawLoop n (some kPer) p = .ok p' →
    ∃ d e o q rnd snd step, RawTail none d e o q rnd snd step n p p' := by
  intro n p p' h
  cases n with
  | zero => rw [rawLoop_zero_inv h]; exact ⟨none, none, none, none, none, none, none, RawTail_nil p⟩
  | succ n =>
    obtain ⟨k, r0, hrem, hord, hk⟩ := rawLoop_succ_inv h
    rcases hk with ⟨rfl, _⟩ | ⟨rfl, c, body, q1, hc1, _, hr0, hpl, hl⟩ | ⟨rfl, x, r, hx, hr0, hl⟩ |
      ⟨rfl, v, r, hv, hr0, hl⟩ | ⟨rfl, x, r, hx, hr0, hl⟩
    · exact absurd hord (by decide)
    · subst hr0
      obtain ⟨d, e, o, q, pt⟩ := propStage0 _ _ _ hpl
      obtain ⟨rnd, snd, step, t⟩ := rawStage2 _ _ _ hl
      exact ⟨d, e, o, q, rnd, snd, step, RawTail_prop hc1 hrem pt t⟩
    · subst hr0
      obtain ⟨snd, step, t⟩ := rawStage3 _ _ _ hl
      exact ⟨none, none, none, none, some x, snd, step, RawTail_rnd hx hrem t⟩
    · subst hr0
      obtain ⟨step, t⟩ := rawStage4 _ _ _ hl
      exact ⟨none, none, none, none, none, some v, step, RawTail_snd hv hrem t⟩
    · subst hr0; exact ⟨none, none, none, none, none, none, some x, RawTail_step hx hrem (rawStage5 _ _ _ hl)⟩

theorem rawStage0 : ∀ (n : Nat) (p p' : PS), rawLoop n none p = .ok p' →
    ∃ per d e o q rnd snd step, RawTail per d e o q rnd snd step n p p' := by
  intro n p p' h
  cases n with
  | zero => rw [rawLoop_zero_inv h]; exact ⟨none, none, none, none, none, none, none, none, RawTail_nil p⟩
  | succ n =>
    obtain ⟨k, r0, hrem, hord, hk⟩ := rawLoop_succ_inv h
    rcases hk with ⟨rfl, x, r, hx, hr0, hl⟩ | ⟨rfl, c, body, q1, hc1, _, hr0, hpl, hl⟩ | ⟨rfl, x, r, hx, hr0, hl⟩ |
      ⟨rfl, v, r, hv, hr0, hl⟩ | ⟨rfl, x, r, hx, hr0, hl⟩
    · subst hr0
      obtain ⟨d, e, o, q, rnd, snd, step, t⟩ := rawStage1 _ _ _ hl
      exact ⟨some x, d, e, o, q, rnd, snd, step, RawTail_per hx hrem t⟩
    · subst hr0
      obtain ⟨d, e, o, q, pt⟩ := propStage0 _ _ _ hpl
      obtain ⟨rnd, snd, step, t⟩ := rawStage2 _ _ _ hl
      exact ⟨none, d, e, o, q, rnd, snd, step, RawTail_prop hc1 hrem pt t⟩
    · subst hr0
      obtain ⟨snd, step, t⟩ := rawStage3 _ _ _ hl
      exact ⟨none, none, none, none, none, some x, snd, step, RawTail_rnd hx hrem t⟩
    · subst hr0
      obtain ⟨step, t⟩ := rawStage4 _ _ _ hl
      exact ⟨none, none, none, none, none, none, some v, step, RawTail_snd hv hrem t⟩
    · subst hr0; exact ⟨none, none, none, none, none, none, none, some x, RawTail_step hx hrem (rawStage5 _ _ _ hl)⟩

end AlgoVerif.Lemmas.Vpack
