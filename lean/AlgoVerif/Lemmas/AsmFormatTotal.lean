/-
Lemmas for Model.AsmFormat: label resolution SUCCEEDS on what a canonical raw program un-resolves to, provided the version
rules of resolveLabels hold (no back reference before the back-branch version, no branch to the end in v0/v1).
-/
import AlgoVerif.Lemmas.AsmFormatCheck
namespace Lemmas.AsmFormat
open Model.OpTables Model.AsmFormat

/-- the version rules of resolveLabels for a target at position `d`, seen from an instruction ending at `e` -/
def RuleAt (v bb total e d : Nat) : Prop := ¬ (v ≤ 1 ∧ d = total) ∧ ¬ (v < bb ∧ d < e)

theorem off2Of_total {v bb : Nat} {S : List Nat} {total e t : Nat} {o : Int} (ho : int16 o)
    (h : idxOfPos S ((e : Int) + o) = some t) (hr : ∀ d, S[t]? = some d → RuleAt v bb total e d) :
    off2Of v bb S total e t = .ok o := by
  obtain ⟨h0, hd⟩ := idxOfPos_inv h
  obtain ⟨r1, r2⟩ := hr _ hd
  unfold off2Of
  rw [hd]
  simp only []
  rw [if_neg r1, if_neg r2]
  have : (((e : Int) + o).toNat : Int) - (e : Int) = o := by omega
  rw [this]
  rw [if_neg (by unfold int16 at ho; omega)]

theorem off2sOf_total {v bb : Nat} {S : List Nat} {total e : Nat} : ∀ {os : List Int} {ts : List Nat}, (∀ o ∈ os, int16 o) →
    unresolveOffs S e os = some ts → (∀ t ∈ ts, ∀ d, S[t]? = some d → RuleAt v bb total e d) →
    off2sOf v bb S total e ts = .ok os
  | [], ts, _, h, _ => by simp only [unresolveOffs, Option.some.injEq] at h; subst h; rfl
  | o :: os, ts, ho, h, hr => by
    simp only [unresolveOffs] at h
    cases h1 : idxOfPos S ((e : Int) + o) with
    | none => simp [h1] at h
    | some t =>
      cases h2 : unresolveOffs S e os with
      | none => simp [h1, h2] at h
      | some tl =>
        simp only [h1, h2, Option.some.injEq] at h; subst h
        simp only [off2sOf, off2Of_total (ho o List.mem_cons_self) h1 (hr t List.mem_cons_self),
          off2sOf_total (fun q hq => ho q (List.mem_cons_of_mem _ hq)) h2 (fun q hq => hr q (List.mem_cons_of_mem _ hq))]

/-- resolving what a minimal raw immediate un-resolves to gives that raw immediate back -/
theorem resolveImm_total {v bb : Nat} {S : List Nat} {total k w e p kind : Nat} {r : RImm} {im : Model.AsmFormat.Imm}
    (hS : S.Pairwise (· < ·)) (hp : S[k]? = some p) (he : S[k + 1]? = some e)
    (hun : unresolveImm S p e r = some im) (hok : RImmOK kind r) (hmin : RImmMin r)
    (hrule : ∀ t ∈ immTargets im, ∀ d, S[t]? = some d → RuleAt v bb total e d)
    (hw : ∀ o w', r = .voff o w' → w' = w) : resolveImm v bb S total k w e im = .ok r := by
  cases r with
  | byte b => simp only [unresolveImm, Option.some.injEq] at hun; subst hun; rfl
  | uint x wx =>
    simp only [unresolveImm, Option.some.injEq] at hun; subst hun
    simp only [RImmMin] at hmin; subst hmin; rfl
  | bytes lw bs =>
    simp only [unresolveImm, Option.some.injEq] at hun; subst hun
    simp only [RImmMin] at hmin; subst hmin; rfl
  | ints cw vs =>
    simp only [unresolveImm, Option.some.injEq] at hun; subst hun
    obtain ⟨m1, m2⟩ := hmin
    simp only [resolveImm, List.length_map, Except.ok.injEq, RImm.ints.injEq]
    refine ⟨m1.symm, ?_⟩
    rw [List.map_map]
    have : ∀ l : List (Nat × Nat), (∀ q ∈ l, q.2 = uvarLen q.1) → l.map ((fun x => (x, uvarLen x)) ∘ fun q => q.1) = l := by
      intro l
      induction l with
      | nil => intro _; rfl
      | cons a l ih =>
        intro hl
        simp only [List.map_cons, Function.comp]
        rw [ih (fun q hq => hl q (List.mem_cons_of_mem _ hq))]
        have := hl a List.mem_cons_self
        congr 1
        rw [← this]
    exact this vs m2
  | bytess cw bss =>
    simp only [unresolveImm, Option.some.injEq] at hun; subst hun
    obtain ⟨m1, m2⟩ := hmin
    simp only [resolveImm, List.length_map, Except.ok.injEq, RImm.bytess.injEq]
    refine ⟨m1.symm, ?_⟩
    rw [List.map_map]
    have : ∀ l : List (Nat × Bytes), (∀ q ∈ l, q.1 = uvarLen q.2.length) →
        l.map ((fun b => (uvarLen b.length, b)) ∘ fun q => q.2) = l := by
      intro l
      induction l with
      | nil => intro _; rfl
      | cons a l ih =>
        intro hl
        simp only [List.map_cons, Function.comp]
        rw [ih (fun q hq => hl q (List.mem_cons_of_mem _ hq))]
        have := hl a List.mem_cons_self
        congr 1
        rw [← this]
    exact this bss m2
  | off2 o =>
    simp only [unresolveImm, Option.map_eq_some_iff] at hun
    obtain ⟨t, ht, rfl⟩ := hun
    simp only [resolveImm, off2Of_total hok.2 ht (hrule t (by simp [immTargets]))]
  | offs os =>
    simp only [unresolveImm, Option.map_eq_some_iff] at hun
    obtain ⟨ts, ht, rfl⟩ := hun
    simp only [resolveImm, off2sOf_total hok.2 ht (fun t htm => hrule t (by simpa [immTargets] using htm))]
  | voff o w' =>
    simp only [unresolveImm, Option.map_eq_some_iff] at hun
    obtain ⟨t, ht, rfl⟩ := hun
    obtain ⟨h0, hd⟩ := idxOfPos_inv ht
    obtain ⟨r1, r2⟩ := hrule t (by simp [immTargets]) _ hd
    have hww := hw o w' rfl
    subst hww
    simp only [RImmMin] at hmin
    obtain ⟨hkl, hkp⟩ := getElem?_some_iff.mp hp
    obtain ⟨hel, hee⟩ := getElem?_some_iff.mp he
    have hpe : p < e := by rw [← hkp, ← hee]; exact pairwise_lt_get hS hkl hel (by omega)
    simp only [resolveImm, hd]
    rw [if_neg r1, if_neg r2]
    have hj : vjump S k t = some o := by
      unfold vjump
      simp only [hd, hp, he]
      by_cases ho : o < 0
      · simp only [if_pos ho] at h0 ⊢
        rw [if_neg (by omega), if_pos (by omega)]
        congr 1; omega
      · simp only [if_neg ho] at h0 ⊢
        rw [if_neg (by omega), if_neg (by omega)]
        congr 1; omega
    simp only [hj]
    rw [if_neg (by omega), if_neg (by omega)]

theorem resolveImms_total {v bb : Nat} {S : List Nat} {total k w e p : Nat} (hS : S.Pairwise (· < ·)) (hp : S[k]? = some p)
    (he : S[k + 1]? = some e) : ∀ {ks : List Nat} {rs : List RImm} {ims : List Model.AsmFormat.Imm},
    unresolveImms S p e rs = some ims → RImmsOK ks rs → (∀ r ∈ rs, RImmMin r) →
    (∀ t ∈ ims.flatMap immTargets, ∀ d, S[t]? = some d → RuleAt v bb total e d) →
    (∀ o w', RImm.voff o w' ∈ rs → w' = w) → resolveImms v bb S total k w e ims = .ok rs
  | [], [], ims, h, _, _, _, _ => by simp only [unresolveImms, Option.some.injEq] at h; subst h; rfl
  | [], _ :: _, _, _, hk, _, _, _ => by simp [RImmsOK] at hk
  | _ :: _, [], _, _, hk, _, _, _ => by simp [RImmsOK] at hk
  | kd :: ks, r :: rs, ims, h, hk, hm, hr, hw => by
    simp only [unresolveImms] at h
    cases h1 : unresolveImm S p e r with
    | none => simp [h1] at h
    | some i =>
      cases h2 : unresolveImms S p e rs with
      | none => simp [h1, h2] at h
      | some tl =>
        simp only [h1, h2, Option.some.injEq] at h; subst h
        simp only [resolveImms,
          resolveImm_total hS hp he h1 hk.1 (hm r List.mem_cons_self) (fun t htm => hr t (by simp [htm]))
            (fun o w' e' => hw o w' (by rw [e']; exact List.mem_cons_self)),
          resolveImms_total hS hp he h2 hk.2 (fun q hq => hm q (List.mem_cons_of_mem _ hq))
            (fun t htm => hr t (by simp only [List.flatMap_cons, List.mem_append]; exact Or.inr htm))
            (fun o w' hmem => hw o w' (List.mem_cons_of_mem _ hmem))]

/-- the whole program: `resolveGo` gives the raw instructions back -/
theorem resolveGo_total {v bb : Nat} {S : List Nat} {total : Nat} (hS : S.Pairwise (· < ·)) :
    ∀ {rs : List RInstr} {xs : List (Instr × Nat)} {k : Nat}, unresolveGo S k rs = some (xs.map (·.1)) →
    (∀ r ∈ rs, RImmsOK (kindsOf r.spec) r.imms) → RawMin rs →
    (∀ (j : Nat) (i : Instr), (xs.map (·.1))[j]? = some i → ∀ t ∈ i.imms.flatMap immTargets, ∀ d e, S[k + j + 1]? = some e → S[t]? = some d →
      RuleAt v bb total e d) →
    (∀ (j : Nat) (r : RInstr) (x : Instr × Nat), rs[j]? = some r → xs[j]? = some x → ∀ o w', RImm.voff o w' ∈ r.imms → w' = x.2) →
    resolveGo v bb S total k xs = .ok rs
  | [], [], k, _, _, _, _, _ => rfl
  | [], _ :: _, k, h, _, _, _, _ => by simp [unresolveGo] at h
  | r :: rs, [], k, h, _, _, _, _ => by
    simp only [unresolveGo, List.map_nil] at h
    split at h
    · split at h <;> simp at h
    · simp at h
  | r :: rs, (i, w) :: xs, k, h, hk, hm, hr, hw => by
    simp only [unresolveGo, List.map_cons] at h
    cases hp : S[k]? with
    | none => simp [hp] at h
    | some p =>
      cases he : S[k + 1]? with
      | none => simp [hp, he] at h
      | some e =>
        simp only [hp, he] at h
        cases h1 : unresolveImms S p e r.imms with
        | none => simp [h1] at h
        | some ims =>
          cases h2 : unresolveGo S (k + 1) rs with
          | none => simp [h1, h2] at h
          | some tl =>
            simp only [h1, h2, Option.some.injEq, List.cons.injEq] at h
            obtain ⟨hi, htl⟩ := h
            have hspec : r.spec = i.spec := by rw [← hi]
            have himms : ims = i.imms := by rw [← hi]
            subst himms
            have a := resolveImms_total (v := v) (bb := bb) (total := total) (w := w) hS hp he h1
              (hk r List.mem_cons_self) (hm r List.mem_cons_self)
              (fun t htm d hd => hr 0 i (by simp) t htm d e (by simpa using he) hd)
              (fun o w' hmem => hw 0 r (i, w) (by simp) (by simp) o w' hmem)
            have b := resolveGo_total hS (rs := rs) (xs := xs) (k := k + 1) (by rw [h2, htl])
              (fun q hq => hk q (List.mem_cons_of_mem _ hq)) (fun q hq => hm q (List.mem_cons_of_mem _ hq))
              (fun j i' hj t htm d e' he' hd => hr (j + 1) i' (by simpa using hj) t htm d e'
                (by rw [show k + (j + 1) + 1 = k + 1 + j + 1 by omega]; exact he') hd)
              (fun j r' x hj hx o w' hmem => hw (j + 1) r' x (by simpa using hj) (by simpa using hx) o w' hmem)
            simp only [resolveGo, he, a, b]
            cases r
            simp only at hspec
            subst hspec
            rfl

theorem unresolveImms_voff {S : List Nat} {p e : Nat} : ∀ {rs : List RImm} {ims : List Model.AsmFormat.Imm},
    unresolveImms S p e rs = some ims → rs.length = ims.length ∧
    (∀ o w', RImm.voff o w' ∈ rs → ∃ t, Model.AsmFormat.Imm.vlabel t ∈ ims)
  | [], ims, h => by simp only [unresolveImms, Option.some.injEq] at h; subst h; simp
  | r :: rs, ims, h => by
    simp only [unresolveImms] at h
    cases h1 : unresolveImm S p e r with
    | none => simp [h1] at h
    | some i =>
      cases h2 : unresolveImms S p e rs with
      | none => simp [h1, h2] at h
      | some tl =>
        simp only [h1, h2, Option.some.injEq] at h; subst h
        obtain ⟨a, b⟩ := unresolveImms_voff h2
        refine ⟨by simp [a], ?_⟩
        intro o w' hm
        rcases List.mem_cons.mp hm with rfl | hm
        · simp only [unresolveImm, Option.map_eq_some_iff] at h1
          obtain ⟨t, _, rfl⟩ := h1
          exact ⟨t, List.mem_cons_self⟩
        · obtain ⟨t, ht⟩ := b o w' hm
          exact ⟨t, List.mem_cons_of_mem _ ht⟩

theorem unresolveGo_length {S : List Nat} : ∀ {rs : List RInstr} {k : Nat} {is : List Instr}, unresolveGo S k rs = some is →
    is.length = rs.length
  | [], k, is, h => by simp only [unresolveGo, Option.some.injEq] at h; subst h; rfl
  | r :: rs, k, is, h => by
    simp only [unresolveGo] at h
    cases hp : S[k]? with
    | none => simp [hp] at h
    | some p =>
      cases he : S[k + 1]? with
      | none => simp [hp, he] at h
      | some e =>
        simp only [hp, he] at h
        cases h1 : unresolveImms S p e r.imms with
        | none => simp [h1] at h
        | some ims =>
          cases h2 : unresolveGo S (k + 1) rs with
          | none => simp [h1, h2] at h
          | some tl =>
            simp only [h1, h2, Option.some.injEq] at h; subst h
            simp [unresolveGo_length h2]

end Lemmas.AsmFormat
