import AlgoVerif.Model.Durable
/-!
Invariant of `Model.Durable` and its preservation by every step (used by Props/C09.lean).
-/
namespace AlgoVerif.Lemmas.Durable
open AlgoVerif.Model.Durable

variable {Blk Tid σ : Type}

/-! ### list facts -/

theorem take_drop_append (l x : List Blk) (a b : Nat) (h : b ≤ l.length) :
    ((l ++ x).drop a).take (b - a) = (l.drop a).take (b - a) := by
  by_cases ha : a ≤ l.length
  · rw [List.drop_append_of_le_length ha]
    apply List.take_append_of_le_length
    rw [List.length_drop]; omega
  · have : b - a = 0 := by omega
    rw [this]; simp

theorem foldl_take_add (f : σ → Blk → σ) (z : σ) (l : List Blk) (a b : Nat) (h : a ≤ b) :
    ((l.drop a).take (b - a)).foldl f ((l.take a).foldl f z) = (l.take b).foldl f z := by
  rw [← List.foldl_append]
  congr 1
  have hb : b = a + (b - a) := by omega
  conv => rhs; rw [hb, List.take_add]

theorem blocksOf_append (xs ys : List (BlockTxn Blk)) : blocksOf (xs ++ ys) = blocksOf xs ++ blocksOf ys := by
  simp [blocksOf, List.flatMap_append]

theorem blocksOf_single (t : BlockTxn Blk) : blocksOf [t] = t.bs := by
  simp [blocksOf]

theorem trackerRound_concat (xs : List (TrackTxn Blk)) (t : TrackTxn Blk) : trackerRound (xs ++ [t]) = t.b := by
  simp [trackerRound, List.foldl_append]

theorem trackerData_concat (ap : Tid → σ → Blk → σ) (g : Tid → σ) (xs : List (TrackTxn Blk)) (t : TrackTxn Blk) (i : Tid) :
    trackerData ap g (xs ++ [t]) i = t.deltas.foldl (ap i) (trackerData ap g xs i) := by
  simp [trackerData, List.foldl_append]

theorem resetIfAhead_of_le {btx : List (BlockTxn Blk)} {ttx : List (TrackTxn Blk)}
    (h : trackerRound ttx ≤ blockRound btx) : resetIfAhead btx ttx = ttx := by
  unfold resetIfAhead; rw [if_pos h]

theorem contig_concat (n : Nat) (xs : List (BlockTxn Blk)) (t : BlockTxn Blk)
    (h : Contig n xs) (ht : t.lo = n + (blocksOf xs).length + 1) : Contig n (xs ++ [t]) := by
  induction xs generalizing n with
  | nil => simp [Contig, blocksOf] at *; exact ht
  | cons x xs ih =>
    simp only [List.cons_append, Contig] at *
    refine ⟨h.1, ih _ h.2 ?_⟩
    rw [ht]
    have : blocksOf (x :: xs) = x.bs ++ blocksOf xs := by simp [blocksOf]
    rw [this, List.length_append]; omega

/-! ### the invariant -/

/-- what the phase of commitRound promises -/
def PhaseOk (s : Sys Blk) : Prop :=
  match s.phase with
  | .idle => s.dbRound = trackerRound s.ttx
  | .prepared t => s.dbRound = trackerRound s.ttx ∧ t.a = s.dbRound ∧ t.a < t.b ∧ t.b ≤ s.lastCommitted ∧
      t.deltas = (s.chain.drop t.a).take (t.b - t.a)
  | .committed n => trackerRound s.ttx = n ∧ s.dbRound ≤ n

structure Inv (ap : Tid → σ → Blk → σ) (g : Tid → σ) (s : Sys Blk) : Prop where
  /-- the trackers have been given exactly the durable blocks followed by the queued ones -/
  chain_eq : s.chain = blocksOf s.btx ++ s.q
  /-- lastCommitted is the round of the block DB -/
  lc_eq : s.lastCommitted = blockRound s.btx
  /-- the `put` transactions are consecutive -/
  contig : Contig 0 s.btx
  /-- T ≤ lastCommitted: commits are scheduled only from notifyCommit(committed) -/
  round_le : trackerRound s.ttx ≤ s.lastCommitted
  /-- per-transaction atomicity: the data of EVERY tracker in the DB is the replay of exactly the rounds 1..accounts round -/
  data_eq : ∀ i, trackerData ap g s.ttx i = (s.chain.take (trackerRound s.ttx)).foldl (ap i) (g i)
  phase_ok : PhaseOk s
  pending_ok : ∀ n, s.pending = some n → n ≤ s.lastCommitted
  conf_ok : ∀ r, r ∈ s.confirmed → r ≤ s.lastCommitted
  work_ok : ∀ k, s.work = some k → 1 ≤ k ∧ k ≤ s.q.length

theorem inv_init (ap : Tid → σ → Blk → σ) (g : Tid → σ) : Inv ap g (init Blk) := by
  refine ⟨rfl, rfl, trivial, Nat.le_refl _, fun _ => rfl, rfl, ?_, ?_, ?_⟩ <;> simp [init]

theorem chain_len {ap : Tid → σ → Blk → σ} {g : Tid → σ} {s : Sys Blk} (h : Inv ap g s) :
    s.lastCommitted ≤ s.chain.length := by
  rw [h.chain_eq, h.lc_eq, List.length_append]; unfold blockRound; omega

theorem inv_recover {ap : Tid → σ → Blk → σ} {g : Tid → σ} {s : Sys Blk} (h : Inv ap g s) : Inv ap g (recover s) := by
  have hT : trackerRound s.ttx ≤ (blocksOf s.btx).length := by
    have := h.round_le; rw [h.lc_eq] at this; exact this
  have hr : resetIfAhead s.btx s.ttx = s.ttx := resetIfAhead_of_le hT
  refine ⟨by simp [recover], rfl, h.contig, ?_, ?_, ?_, ?_, ?_, ?_⟩
  · simpa [recover, blockRound, hr] using hT
  · intro i
    have := h.data_eq i
    rw [h.chain_eq, List.take_append_of_le_length hT] at this
    simpa [recover, hr] using this
  · simp [PhaseOk, recover]
  · simp [recover]
  · intro r hr
    have := h.conf_ok r hr
    rw [h.lc_eq] at this
    simpa [recover] using this
  · simp [recover]

theorem inv_step {ap : Tid → σ → Blk → σ} {g : Tid → σ} {s s' : Sys Blk} {e : Ev Blk}
    (h : Inv ap g s) (hs : step s e = some s') : Inv ap g s' := by
  have hlen := chain_len h
  cases e with
  | put b =>
    simp only [step, Option.some.injEq] at hs
    subst hs
    have hT : trackerRound s.ttx ≤ s.chain.length := Nat.le_trans h.round_le hlen
    refine ⟨?_, h.lc_eq, h.contig, h.round_le, ?_, ?_, h.pending_ok, h.conf_ok, ?_⟩
    · show s.chain ++ [b] = blocksOf s.btx ++ (s.q ++ [b])
      rw [h.chain_eq, List.append_assoc]
    · intro i
      show trackerData ap g s.ttx i = ((s.chain ++ [b]).take (trackerRound s.ttx)).foldl (ap i) (g i)
      rw [List.take_append_of_le_length hT]; exact h.data_eq i
    · have hp := h.phase_ok
      unfold PhaseOk at hp ⊢
      cases hph : s.phase with
      | idle => simp only [hph] at hp ⊢; exact hp
      | committed n => simp only [hph] at hp ⊢; exact hp
      | prepared t =>
        simp only [hph] at hp ⊢
        obtain ⟨h1, h2, h3, h4, h5⟩ := hp
        refine ⟨h1, h2, h3, h4, ?_⟩
        show t.deltas = ((s.chain ++ [b]).drop t.a).take (t.b - t.a)
        rw [take_drop_append _ _ _ _ (Nat.le_trans h4 hlen)]; exact h5
    · intro k hk
      have := h.work_ok k hk
      show 1 ≤ k ∧ k ≤ (s.q ++ [b]).length
      rw [List.length_append]; simp; omega
  | flushBegin k =>
    simp only [step] at hs
    split at hs
    · rename_i hc
      simp only [Option.some.injEq] at hs; subst hs
      refine ⟨h.chain_eq, h.lc_eq, h.contig, h.round_le, h.data_eq, h.phase_ok, h.pending_ok, h.conf_ok, ?_⟩
      intro k' hk'
      simp only [Option.some.injEq] at hk'; subst hk'
      exact ⟨hc.2.1, hc.2.2⟩
    · simp at hs
  | flushCommit =>
    simp only [step] at hs
    cases hw : s.work with
    | none => simp [hw] at hs
    | some k =>
      simp only [hw] at hs
      split at hs
      · simp only [Option.some.injEq] at hs; subst hs
        have hk := h.work_ok k hw
        refine ⟨?_, ?_, ?_, ?_, h.data_eq, ?_, ?_, ?_, ?_⟩
        · show s.chain = blocksOf (s.btx ++ [⟨s.lastCommitted + 1, s.q.take k⟩]) ++ s.q.drop k
          rw [blocksOf_append, blocksOf_single, List.append_assoc, List.take_append_drop]; exact h.chain_eq
        · show s.lastCommitted + k = blockRound (s.btx ++ [⟨s.lastCommitted + 1, s.q.take k⟩])
          unfold blockRound
          rw [blocksOf_append, blocksOf_single, List.length_append, List.length_take, h.lc_eq]
          unfold blockRound; omega
        · apply contig_concat 0 _ _ h.contig
          show s.lastCommitted + 1 = 0 + (blocksOf s.btx).length + 1
          rw [h.lc_eq]; unfold blockRound; omega
        · show trackerRound s.ttx ≤ s.lastCommitted + k
          have := h.round_le; omega
        · have hp := h.phase_ok
          unfold PhaseOk at hp ⊢
          cases hph : s.phase with
          | idle => simp only [hph] at hp ⊢; exact hp
          | committed n => simp only [hph] at hp ⊢; exact hp
          | prepared t =>
            simp only [hph] at hp ⊢
            obtain ⟨h1, h2, h3, h4, h5⟩ := hp
            exact ⟨h1, h2, h3, Nat.le_trans h4 (Nat.le_add_right _ _), h5⟩
        · intro n hn
          have := h.pending_ok n hn
          show n ≤ s.lastCommitted + k
          omega
        · intro r hr
          have := h.conf_ok r hr
          show r ≤ s.lastCommitted + k
          omega
        · intro k' hk'; simp at hk'
      · simp at hs
  | flushAbort =>
    simp only [step] at hs
    cases hw : s.work with
    | none => simp [hw] at hs
    | some k =>
      simp only [hw, Option.some.injEq] at hs; subst hs
      refine ⟨h.chain_eq, h.lc_eq, h.contig, h.round_le, h.data_eq, h.phase_ok, h.pending_ok, h.conf_ok, ?_⟩
      intro k' hk'; simp at hk'
  | notifyCommit n =>
    cases n with
    | none => simp only [step, Option.some.injEq] at hs; subst hs; exact h
    | some n =>
      simp only [step] at hs
      split at hs
      · rename_i hc
        simp only [Option.some.injEq] at hs; subst hs
        refine ⟨h.chain_eq, h.lc_eq, h.contig, h.round_le, h.data_eq, h.phase_ok, ?_, h.conf_ok, h.work_ok⟩
        intro m hm
        simp only [Option.some.injEq] at hm; subst hm
        exact hc.2
      · simp at hs
  | commitBegin =>
    simp only [step] at hs
    cases hp : s.pending with
    | none => simp [hp] at hs
    | some n =>
      cases hph : s.phase with
      | prepared t => simp [hp, hph] at hs
      | committed m => simp [hp, hph] at hs
      | idle =>
        simp only [hp, hph] at hs
        have hpo := h.phase_ok
        unfold PhaseOk at hpo
        simp only [hph] at hpo
        split at hs
        · rename_i hlt
          simp only [Option.some.injEq] at hs; subst hs
          refine ⟨h.chain_eq, h.lc_eq, h.contig, h.round_le, h.data_eq, ?_, ?_, h.conf_ok, h.work_ok⟩
          · unfold PhaseOk
            exact ⟨hpo, rfl, hlt, h.pending_ok n hp, rfl⟩
          · intro m hm; simp at hm
        · simp only [Option.some.injEq] at hs; subst hs
          refine ⟨h.chain_eq, h.lc_eq, h.contig, h.round_le, h.data_eq, ?_, ?_, h.conf_ok, h.work_ok⟩
          · unfold PhaseOk; exact hpo
          · intro m hm; simp at hm
  | commitTxn =>
    simp only [step] at hs
    cases hph : s.phase with
    | idle => simp [hph] at hs
    | committed m => simp [hph] at hs
    | prepared t =>
      simp only [hph, Option.some.injEq] at hs; subst hs
      have hpo := h.phase_ok
      unfold PhaseOk at hpo
      simp only [hph] at hpo
      obtain ⟨h1, h2, h3, h4, h5⟩ := hpo
      refine ⟨h.chain_eq, h.lc_eq, h.contig, ?_, ?_, ?_, h.pending_ok, h.conf_ok, h.work_ok⟩
      · show trackerRound (s.ttx ++ [t]) ≤ s.lastCommitted
        rw [trackerRound_concat]; exact h4
      · intro i
        show trackerData ap g (s.ttx ++ [t]) i = (s.chain.take (trackerRound (s.ttx ++ [t]))).foldl (ap i) (g i)
        rw [trackerData_concat, trackerRound_concat, h.data_eq i, h5, ← h1, ← h2]
        exact foldl_take_add (ap i) (g i) s.chain t.a t.b (Nat.le_of_lt h3)
      · unfold PhaseOk
        show trackerRound (s.ttx ++ [t]) = t.b ∧ s.dbRound ≤ t.b
        rw [trackerRound_concat]
        exact ⟨rfl, by omega⟩
  | commitAbort =>
    simp only [step] at hs
    cases hph : s.phase with
    | idle => simp [hph] at hs
    | committed m => simp [hph] at hs
    | prepared t =>
      simp only [hph, Option.some.injEq] at hs; subst hs
      have hpo := h.phase_ok
      unfold PhaseOk at hpo
      simp only [hph] at hpo
      refine ⟨h.chain_eq, h.lc_eq, h.contig, h.round_le, h.data_eq, ?_, h.pending_ok, h.conf_ok, h.work_ok⟩
      unfold PhaseOk
      exact hpo.1
  | commitPost =>
    simp only [step] at hs
    cases hph : s.phase with
    | idle => simp [hph] at hs
    | prepared t => simp [hph] at hs
    | committed m =>
      simp only [hph, Option.some.injEq] at hs; subst hs
      have hpo := h.phase_ok
      unfold PhaseOk at hpo
      simp only [hph] at hpo
      refine ⟨h.chain_eq, h.lc_eq, h.contig, h.round_le, h.data_eq, ?_, h.pending_ok, h.conf_ok, h.work_ok⟩
      unfold PhaseOk
      exact hpo.1.symm
  | waitCommit r =>
    simp only [step] at hs
    split at hs
    · rename_i hc
      simp only [Option.some.injEq] at hs; subst hs
      refine ⟨h.chain_eq, h.lc_eq, h.contig, h.round_le, h.data_eq, h.phase_ok, h.pending_ok, ?_, h.work_ok⟩
      intro r' hr'
      show r' ≤ s.lastCommitted
      have : r' = r ∨ r' ∈ s.confirmed := by simpa using hr'
      cases this with
      | inl e => rw [e]; exact hc
      | inr m => exact h.conf_ok r' m
    · simp at hs
  | crash =>
    simp only [step, Option.some.injEq] at hs; subst hs
    exact inv_recover h

theorem inv_run {ap : Tid → σ → Blk → σ} {g : Tid → σ} {s s' : Sys Blk} {es : List (Ev Blk)}
    (h : Inv ap g s) (hr : run s es = some s') : Inv ap g s' := by
  induction es generalizing s with
  | nil => simp only [run, Option.some.injEq] at hr; subst hr; exact h
  | cons e es ih =>
    simp only [run] at hr
    cases hst : step s e with
    | none => simp [hst] at hr
    | some s1 => simp only [hst] at hr; exact ih (inv_step h hst) hr

/-! ### prefixes of traces, and the tracker store at an earlier transaction boundary -/

/-- every prefix of an accepted trace is accepted: "every crash point" really is every reachable state -/
theorem run_append (s : Sys Blk) (es fs : List (Ev Blk)) :
    run s (es ++ fs) = (run s es).bind (fun s' => run s' fs) := by
  induction es generalizing s with
  | nil => simp [run]
  | cons e es ih =>
    simp only [List.cons_append, run]
    cases step s e with
    | none => simp
    | some s1 => simpa using ih s1

/-- every transaction boundary of the tracker store is a consistent tracker DB for the current blocks -/
def Lag (ap : Tid → σ → Blk → σ) (g : Tid → σ) (ttx : List (TrackTxn Blk)) (chain : List Blk) (lc : Nat) : Prop :=
  ∀ j, trackerRound (ttx.take j) ≤ lc ∧
    ∀ i, trackerData ap g (ttx.take j) i = (chain.take (trackerRound (ttx.take j))).foldl (ap i) (g i)

theorem lag_mono {ap : Tid → σ → Blk → σ} {g : Tid → σ} {ttx : List (TrackTxn Blk)} {chain : List Blk} {lc lc' : Nat}
    (x : List Blk) (h : Lag ap g ttx chain lc) (hl : lc ≤ chain.length) (hlc : lc ≤ lc') : Lag ap g ttx (chain ++ x) lc' := by
  intro j
  obtain ⟨h1, h2⟩ := h j
  refine ⟨Nat.le_trans h1 hlc, fun i => ?_⟩
  rw [List.take_append_of_le_length (Nat.le_trans h1 hl)]; exact h2 i

theorem lag_step {ap : Tid → σ → Blk → σ} {g : Tid → σ} {s s' : Sys Blk} {e : Ev Blk}
    (hi : Inv ap g s) (h : Lag ap g s.ttx s.chain s.lastCommitted) (hs : step s e = some s') :
    Lag ap g s'.ttx s'.chain s'.lastCommitted := by
  have hi' := inv_step hi hs
  have hlen := chain_len hi
  cases e with
  | put b =>
    simp only [step, Option.some.injEq] at hs; subst hs
    exact lag_mono [b] h hlen (Nat.le_refl _)
  | flushBegin k =>
    simp only [step] at hs
    split at hs
    · simp only [Option.some.injEq] at hs; subst hs; exact h
    · simp at hs
  | flushCommit =>
    simp only [step] at hs
    cases hw : s.work with
    | none => simp [hw] at hs
    | some k =>
      simp only [hw] at hs
      split at hs
      · simp only [Option.some.injEq] at hs; subst hs
        have := lag_mono (lc' := s.lastCommitted + k) [] h hlen (Nat.le_add_right _ _)
        simpa using this
      · simp at hs
  | flushAbort =>
    simp only [step] at hs
    cases hw : s.work with
    | none => simp [hw] at hs
    | some k => simp only [hw, Option.some.injEq] at hs; subst hs; exact h
  | notifyCommit n =>
    cases n with
    | none => simp only [step, Option.some.injEq] at hs; subst hs; exact h
    | some n =>
      simp only [step] at hs
      split at hs
      · simp only [Option.some.injEq] at hs; subst hs; exact h
      · simp at hs
  | commitBegin =>
    simp only [step] at hs
    cases hp : s.pending with
    | none => simp [hp] at hs
    | some n =>
      cases hph : s.phase with
      | prepared t => simp [hp, hph] at hs
      | committed m => simp [hp, hph] at hs
      | idle =>
        simp only [hp, hph] at hs
        split at hs
        · simp only [Option.some.injEq] at hs; subst hs; exact h
        · simp only [Option.some.injEq] at hs; subst hs; exact h
  | commitTxn =>
    simp only [step] at hs
    cases hph : s.phase with
    | idle => simp [hph] at hs
    | committed m => simp [hph] at hs
    | prepared t =>
      simp only [hph, Option.some.injEq] at hs; subst hs
      intro j
      show trackerRound ((s.ttx ++ [t]).take j) ≤ s.lastCommitted ∧ ∀ i, trackerData ap g ((s.ttx ++ [t]).take j) i =
        (s.chain.take (trackerRound ((s.ttx ++ [t]).take j))).foldl (ap i) (g i)
      by_cases hj : j ≤ s.ttx.length
      · rw [List.take_append_of_le_length hj]; exact h j
      · have : (s.ttx ++ [t]).take j = s.ttx ++ [t] := by
          apply List.take_of_length_le
          rw [List.length_append]; simp; omega
        rw [this]
        exact ⟨hi'.round_le, hi'.data_eq⟩
  | commitAbort =>
    simp only [step] at hs
    cases hph : s.phase with
    | idle => simp [hph] at hs
    | committed m => simp [hph] at hs
    | prepared t => simp only [hph, Option.some.injEq] at hs; subst hs; exact h
  | commitPost =>
    simp only [step] at hs
    cases hph : s.phase with
    | idle => simp [hph] at hs
    | prepared t => simp [hph] at hs
    | committed m => simp only [hph, Option.some.injEq] at hs; subst hs; exact h
  | waitCommit r =>
    simp only [step] at hs
    split at hs
    · simp only [Option.some.injEq] at hs; subst hs; exact h
    · simp at hs
  | crash =>
    simp only [step, Option.some.injEq] at hs; subst hs
    intro j
    obtain ⟨h1, h2⟩ := h j
    have hB : trackerRound (s.ttx.take j) ≤ (blocksOf s.btx).length := by
      rw [hi.lc_eq] at h1; exact h1
    have hr : (recover s).ttx = s.ttx := by
      show resetIfAhead s.btx s.ttx = s.ttx
      apply resetIfAhead_of_le
      have := hi.round_le; rw [hi.lc_eq] at this; exact this
    rw [hr]
    refine ⟨hB, fun i => ?_⟩
    have := h2 i
    rw [hi.chain_eq, List.take_append_of_le_length hB] at this
    exact this

theorem lag_run {ap : Tid → σ → Blk → σ} {g : Tid → σ} {s s' : Sys Blk} {es : List (Ev Blk)}
    (hi : Inv ap g s) (h : Lag ap g s.ttx s.chain s.lastCommitted) (hr : run s es = some s') :
    Lag ap g s'.ttx s'.chain s'.lastCommitted := by
  induction es generalizing s with
  | nil => simp only [run, Option.some.injEq] at hr; subst hr; exact h
  | cons e es ih =>
    simp only [run] at hr
    cases hst : step s e with
    | none => simp [hst] at hr
    | some s1 => simp only [hst] at hr; exact ih (inv_step hi hst) (lag_step hi h hst) hr

/-! ### monotonicity: acknowledgements and durable blocks are never taken back -/

/-- along a step the acknowledged rounds only grow and the block DB content only grows at its end -/
def Mono (s s' : Sys Blk) : Prop :=
  (∀ r, r ∈ s.confirmed → r ∈ s'.confirmed) ∧ ∃ x, blocksOf s'.btx = blocksOf s.btx ++ x

theorem mono_refl (s : Sys Blk) : Mono s s := ⟨fun _ h => h, [], by simp⟩

theorem mono_of_eq {s s' : Sys Blk} (hc : s'.confirmed = s.confirmed) (hb : s'.btx = s.btx) : Mono s s' :=
  ⟨fun _ h => by rw [hc]; exact h, [], by rw [hb]; simp⟩

theorem mono_trans {a b c : Sys Blk} (h1 : Mono a b) (h2 : Mono b c) : Mono a c := by
  obtain ⟨c1, x, hx⟩ := h1
  obtain ⟨c2, y, hy⟩ := h2
  exact ⟨fun r h => c2 r (c1 r h), x ++ y, by rw [hy, hx, List.append_assoc]⟩

theorem mono_step {s s' : Sys Blk} {e : Ev Blk} (hs : step s e = some s') : Mono s s' := by
  cases e with
  | put b => simp only [step, Option.some.injEq] at hs; subst hs; exact mono_of_eq rfl rfl
  | flushBegin k =>
    simp only [step] at hs
    split at hs
    · simp only [Option.some.injEq] at hs; subst hs; exact mono_of_eq rfl rfl
    · simp at hs
  | flushCommit =>
    simp only [step] at hs
    cases hw : s.work with
    | none => simp [hw] at hs
    | some k =>
      simp only [hw] at hs
      split at hs
      · simp only [Option.some.injEq] at hs; subst hs
        exact ⟨fun _ h => h, s.q.take k, by
          show blocksOf (s.btx ++ [⟨s.lastCommitted + 1, s.q.take k⟩]) = _
          rw [blocksOf_append, blocksOf_single]⟩
      · simp at hs
  | flushAbort =>
    simp only [step] at hs
    cases hw : s.work with
    | none => simp [hw] at hs
    | some k => simp only [hw, Option.some.injEq] at hs; subst hs; exact mono_of_eq rfl rfl
  | notifyCommit n =>
    cases n with
    | none => simp only [step, Option.some.injEq] at hs; subst hs; exact mono_refl _
    | some n =>
      simp only [step] at hs
      split at hs
      · simp only [Option.some.injEq] at hs; subst hs; exact mono_of_eq rfl rfl
      · simp at hs
  | commitBegin =>
    simp only [step] at hs
    cases hp : s.pending with
    | none => simp [hp] at hs
    | some n =>
      cases hph : s.phase with
      | prepared t => simp [hp, hph] at hs
      | committed m => simp [hp, hph] at hs
      | idle =>
        simp only [hp, hph] at hs
        split at hs
        · simp only [Option.some.injEq] at hs; subst hs; exact mono_of_eq rfl rfl
        · simp only [Option.some.injEq] at hs; subst hs; exact mono_of_eq rfl rfl
  | commitTxn =>
    simp only [step] at hs
    cases hph : s.phase with
    | idle => simp [hph] at hs
    | committed m => simp [hph] at hs
    | prepared t => simp only [hph, Option.some.injEq] at hs; subst hs; exact mono_of_eq rfl rfl
  | commitAbort =>
    simp only [step] at hs
    cases hph : s.phase with
    | idle => simp [hph] at hs
    | committed m => simp [hph] at hs
    | prepared t => simp only [hph, Option.some.injEq] at hs; subst hs; exact mono_of_eq rfl rfl
  | commitPost =>
    simp only [step] at hs
    cases hph : s.phase with
    | idle => simp [hph] at hs
    | prepared t => simp [hph] at hs
    | committed m => simp only [hph, Option.some.injEq] at hs; subst hs; exact mono_of_eq rfl rfl
  | waitCommit r =>
    simp only [step] at hs
    split at hs
    · simp only [Option.some.injEq] at hs; subst hs
      exact ⟨fun r' h => List.mem_cons_of_mem _ h, [], by simp⟩
    · simp at hs
  | crash =>
    simp only [step, Option.some.injEq] at hs; subst hs
    exact mono_of_eq rfl rfl

theorem mono_run {s s' : Sys Blk} {es : List (Ev Blk)} (hr : run s es = some s') : Mono s s' := by
  induction es generalizing s with
  | nil => simp only [run, Option.some.injEq] at hr; subst hr; exact mono_refl _
  | cons e es ih =>
    simp only [run] at hr
    cases hst : step s e with
    | none => simp [hst] at hr
    | some s1 => simp only [hst] at hr; exact mono_trans (mono_step hst) (ih hr)

end AlgoVerif.Lemmas.Durable
