/-
Lemmas for Model.AsmFormat: the static check accepts what the assembler's back end emits.
-/
import AlgoVerif.Lemmas.AsmFormatParse
namespace Lemmas.AsmFormat
open Model.OpTables Model.AsmFormat

/-! ### positions -/

theorem startsFrom_get : ∀ (sz : List Nat) (p j : Nat), j ≤ sz.length →
    (startsFrom p sz)[j]? = some (p + listSum (sz.take j))
  | [], p, j, h => by
    have : j = 0 := by simpa using h
    subst this; simp [startsFrom, listSum]
  | s :: rest, p, 0, _ => by simp [startsFrom, listSum]
  | s :: rest, p, j + 1, h => by
    simp only [startsFrom, List.getElem?_cons_succ, List.take_succ_cons, listSum]
    rw [startsFrom_get rest (p + s) j (by simpa using h)]
    congr 1; omega

theorem listSum_take_succ : ∀ (sz : List Nat) (j : Nat) (hj : j < sz.length),
    listSum (sz.take (j + 1)) = listSum (sz.take j) + sz[j]
  | [], j, h => by simp at h
  | s :: rest, 0, _ => by simp [listSum]
  | s :: rest, j + 1, h => by
    simp only [List.take_succ_cons, listSum, List.getElem_cons_succ]
    rw [listSum_take_succ rest j (by simpa using h)]; omega

theorem listSum_take_le : ∀ (sz : List Nat) (j : Nat), listSum (sz.take j) ≤ listSum sz
  | [], j => by simp [listSum]
  | s :: rest, 0 => by simp [listSum]
  | s :: rest, j + 1 => by
    simp only [List.take_succ_cons, listSum]
    have := listSum_take_le rest j; omega

/-- every instruction start (and the end) is at most the total size -/
theorem startsFrom_le_total (sz : List Nat) (p : Nat) : ∀ x ∈ startsFrom p sz, x ≤ p + listSum sz := by
  intro x hx
  obtain ⟨j, hj, e⟩ := List.mem_iff_getElem.mp hx
  rw [length_startsFrom] at hj
  have := startsFrom_get sz p j (by omega)
  rw [List.getElem?_eq_getElem (by rw [length_startsFrom]; omega)] at this
  simp only [Option.some.injEq] at this
  rw [← e, this]
  have := listSum_take_le sz j; omega

theorem startsFrom_last (sz : List Nat) (p : Nat) : lastD (startsFrom p sz) 0 = p + listSum sz := by
  unfold lastD
  have h := startsFrom_get sz p sz.length (Nat.le_refl _)
  rw [List.take_length] at h
  rw [List.getLast?_eq_getElem?, length_startsFrom]
  simp only [Nat.add_sub_cancel, h]

/-! ### the branch rules -/

/-- what the static check needs of one raw immediate of the instruction at `[pc, e)`; `P` = the positions of instruction
    starts and of the end of the program -/
def TgtOK (P : Nat → Prop) (v bb plen pc e : Nat) : RImm → Prop
  | .off2 o => (o < 0 → bb ≤ v) ∧ 0 ≤ (e : Int) + o ∧ P ((e : Int) + o).toNat ∧ (v ≤ 1 → ((e : Int) + o).toNat < plen)
  | .offs os => ∀ o ∈ os, 0 ≤ (e : Int) + o ∧ P ((e : Int) + o).toNat
  | .voff o _ => 0 ≤ (if o < 0 then (pc : Int) + o else (e : Int) + o) ∧
      P (if o < 0 then (pc : Int) + o else (e : Int) + o).toNat
  | _ => True

theorem contains_of_mem {l : List Nat} {x : Nat} (h : x ∈ l) : l.contains x = true := by
  simpa using h

theorem checkTargets_ok {P : Nat → Prop} {v bb plen pc e : Nat} (hle : ∀ x, P x → x ≤ plen)
    (hin : ∀ x, P x → x < e → x ≤ pc) :
    ∀ (imms : List RImm) (st : CkState), (∀ x, P x → x ≤ pc → x ∈ st.starts) → (∀ x ∈ st.targets, P x) →
    (∀ im ∈ imms, TgtOK P v bb plen pc e im) →
    ∃ st2, checkTargets v bb plen pc e st imms = some st2 ∧ st2.starts = st.starts ∧ ∀ x ∈ st2.targets, P x
  | [], st, _, ht, _ => ⟨st, rfl, rfl, ht⟩
  | im :: rest, st, hs, ht, hall => by
    have hrest := fun (st' : CkState) (h1 : st'.starts = st.starts) (h2 : ∀ x ∈ st'.targets, P x) =>
      checkTargets_ok hle hin rest st' (by rw [h1]; exact hs) h2 (fun q hq => hall q (List.mem_cons_of_mem _ hq))
    have him := hall im List.mem_cons_self
    cases im with
    | off2 o =>
      obtain ⟨a1, a2, a3, a4⟩ := him
      simp only [checkTargets]
      rw [if_neg (by intro hc; have := a1 hc.1; omega)]
      have hp := hle _ a3
      rw [if_neg (by
        intro hc
        rcases hc with hc | hc
        · omega
        · split at hc
          · omega
          · rename_i hv; have := a4 (by omega); omega)]
      rw [if_neg (by
        intro hc
        exact hc.2 (by rw [contains_of_mem (hs _ a3 (hin _ a3 hc.1))]))]
      obtain ⟨st2, b1, b2, b3⟩ := hrest { st with targets := ((e : Int) + o).toNat :: st.targets } rfl (by
        intro x hx
        rcases List.mem_cons.mp hx with rfl | hx
        · exact a3
        · exact ht x hx)
      exact ⟨st2, b1, b2, b3⟩
    | voff o w =>
      obtain ⟨a2, a3⟩ := him
      simp only [checkTargets]
      have hp := hle _ a3
      rw [if_neg (by intro hc; rcases hc with hc | hc <;> omega)]
      rw [if_neg (by
        intro hc
        exact hc.2 (by rw [contains_of_mem (hs _ a3 (Nat.le_of_lt hc.1))]))]
      obtain ⟨st2, b1, b2, b3⟩ := hrest { st with targets := (if o < 0 then (pc : Int) + o else (e : Int) + o).toNat :: st.targets } rfl (by
        intro x hx
        rcases List.mem_cons.mp hx with rfl | hx
        · exact a3
        · exact ht x hx)
      exact ⟨st2, b1, b2, b3⟩
    | offs os =>
      simp only [checkTargets]
      -- the fold over the offsets
      have fold : ∀ (l : List Int) (s : CkState), s.starts = st.starts → (∀ x ∈ s.targets, P x) →
          (∀ o ∈ l, 0 ≤ (e : Int) + o ∧ P ((e : Int) + o).toNat) →
          ∃ s2, l.foldl (offStep plen e) (some s) = some s2 ∧
            s2.starts = st.starts ∧ ∀ x ∈ s2.targets, P x := by
        intro l
        induction l with
        | nil => intro s h1 h2 _; exact ⟨s, rfl, h1, h2⟩
        | cons o l ih =>
          intro s h1 h2 h3
          obtain ⟨c1, c2⟩ := h3 o List.mem_cons_self
          have hp := hle _ c2
          simp only [List.foldl_cons, offStep]
          rw [if_neg (by intro hc; rcases hc with hc | hc <;> omega)]
          rw [if_neg (by
            intro hc
            exact hc.2 (by rw [h1, contains_of_mem (hs _ c2 (hin _ c2 hc.1))]))]
          exact ih { s with targets := ((e : Int) + o).toNat :: s.targets } h1 (by
            intro x hx
            rcases List.mem_cons.mp hx with rfl | hx
            · exact c2
            · exact h2 x hx) (fun q hq => h3 q (List.mem_cons_of_mem _ hq))
      obtain ⟨s2, f1, f2, f3⟩ := fold os st rfl ht him
      rw [f1]
      simp only []
      obtain ⟨st2, b1, b2, b3⟩ := hrest s2 f2 f3
      exact ⟨st2, b1, by rw [b2, f2], b3⟩
    | byte b => simp only [checkTargets]; exact hrest st rfl ht
    | uint a b => simp only [checkTargets]; exact hrest st rfl ht
    | bytes a b => simp only [checkTargets]; exact hrest st rfl ht
    | ints a b => simp only [checkTargets]; exact hrest st rfl ht
    | bytess a b => simp only [checkTargets]; exact hrest st rfl ht

/-! ### the walk -/

/-- absolute positions of instruction starts and of the end of the program (`h` = length of the version header) -/
def Pos (h : Nat) (S : List Nat) (x : Nat) : Prop := ∃ d ∈ S, x = h + d

/-- everything the static check asks of the raw instruction at index `k` -/
structure Good (env : Env) (v mode h plen : Nat) (S : List Nat) (k : Nat) (r : RInstr) : Prop where
  ok : RInstrOK (env.look v) r
  cnt : ∀ i ∈ r.imms, immCount i ≤ plen
  mode : allows r.spec.modes mode = true
  size : r.spec.size = 0 ∨ r.spec.size = (encInstr r).length
  cost : ∀ rest, costOkFor env r.spec ((subBytes r.spec ++ r.imms.flatMap encImm) ++ rest) = true
  items : itemsOk env.maxStringSize r.imms = true
  tgt : ∃ p e, S[k]? = some p ∧ S[k + 1]? = some e ∧
    ∀ im ∈ r.imms, TgtOK (Pos h S) v env.backBranchVersion plen (h + p) (h + e) im

theorem starts_succ {rs : List RInstr} {k : Nat} {r : RInstr} (hr : rs[k]? = some r) :
    ∃ p, (startsFrom 0 (rawSizes rs))[k]? = some p ∧ (startsFrom 0 (rawSizes rs))[k + 1]? = some (p + (encInstr r).length) := by
  obtain ⟨hk, e⟩ := List.getElem?_eq_some_iff.mp hr
  have hlen : (rawSizes rs).length = rs.length := by simp [rawSizes]
  refine ⟨0 + listSum ((rawSizes rs).take k), startsFrom_get _ 0 k (by omega), ?_⟩
  rw [startsFrom_get _ 0 (k + 1) (by omega), listSum_take_succ _ k (by omega)]
  have : (rawSizes rs)[k]'(by omega) = (encInstr r).length := by simp [rawSizes, e]
  rw [this]
  congr 1; omega

theorem drop_cons_get {α : Type} {l : List α} {k : Nat} {a : α} {rest : List α} (h : l.drop k = a :: rest) :
    l[k]? = some a ∧ l.drop (k + 1) = rest := by
  have h1 : l[k]? = (l.drop k)[0]? := by simp
  refine ⟨by rw [h1, h]; rfl, ?_⟩
  have : l.drop (k + 1) = (l.drop k).drop 1 := by simp [List.drop_drop]
  rw [this, h]; rfl

/-- the static check's loop accepts the encoding of raw instructions that are all `Good` -/
theorem checkGo_ok {env : Env} {v mode h : Nat} {rs : List RInstr} (S : List Nat) (hS : S = startsFrom 0 (rawSizes rs))
    (plen : Nat) (hplen : plen = h + listSum (rawSizes rs))
    (hgood : ∀ j r, rs[j]? = some r → Good env v mode h plen S j r) :
    ∀ (suf : List RInstr) (k : Nat) (st : CkState) (fuel : Nat), rs.drop k = suf →
    (∀ j, j < k → ∀ d, S[j]? = some d → h + d ∈ st.starts) → (∀ x ∈ st.targets, Pos h S x) → (encRaw suf).length ≤ fuel →
    ∀ pk, S[k]? = some pk → checkGo env v mode plen fuel (h + pk) (encRaw suf) st = .ok
  | [], k, st, fuel, _, _, _, _, pk, _ => by cases fuel <;> simp [encRaw, checkGo]
  | r :: rest, k, st, fuel, hd, hst, htg, hf, pk, hpk => by
    obtain ⟨hr, hd'⟩ := drop_cons_get hd
    obtain ⟨g1, g2, g3, g4, g5, g6, p, e, gp, ge, g7⟩ := hgood k r hr
    obtain ⟨p', hp', he'⟩ := starts_succ hr
    rw [← hS] at hp' he'
    rw [hp'] at gp hpk
    rw [he'] at ge
    simp only [Option.some.injEq] at gp hpk ge
    subst gp hpk
    subst ge
    have hSp : S.Pairwise (· < ·) := by
      rw [hS]; exact startsFrom_pairwise 0 _ (by
        intro s hs
        obtain ⟨q, _, rfl⟩ := List.mem_map.mp hs
        exact length_encInstr_pos q)
    have hle : ∀ x, Pos h S x → x ≤ plen := by
      rintro x ⟨d, hd1, rfl⟩
      rw [hS] at hd1
      have := startsFrom_le_total _ 0 d hd1
      omega
    have hin : ∀ x, Pos h S x → x < h + (p' + (encInstr r).length) → x ≤ h + p' := by
      rintro x ⟨d, hd1, rfl⟩ hlt
      obtain ⟨j, hj, ej⟩ := List.mem_iff_getElem.mp hd1
      obtain ⟨hk1, ek1⟩ := getElem?_some_iff.mp he'
      obtain ⟨hk0, ek0⟩ := getElem?_some_iff.mp hp'
      have hjk : j < k + 1 := pairwise_lt_idx hSp hj hk1 (by rw [ej, ek1]; omega)
      have := pairwise_lt_get_le hSp hj hk0 (by omega)
      rw [ej, ek0] at this
      omega
    rw [encRaw_cons] at hf ⊢
    have hpos := length_encInstr_pos r
    rw [List.length_append] at hf
    obtain ⟨f, rfl⟩ : ∃ f, fuel = f + 1 := ⟨fuel - 1, by omega⟩
    have hdec := decInstr_enc (env.look v) plen r (encRaw rest) g1 g2
    have hbytes : encInstr r ++ encRaw rest = r.spec.opcode :: ((subBytes r.spec ++ r.imms.flatMap encImm) ++ encRaw rest) := by
      simp [encInstr]
    rw [hbytes] at hdec ⊢
    simp only [checkGo]
    -- spec lookup
    have hlook : env.look v r.spec.opcode ((subBytes r.spec ++ r.imms.flatMap encImm) ++ encRaw rest).head? = some r.spec := by
      apply g1.1
      intro hne
      simp [subBytes, hne]
    rw [hlook]
    simp only [g3, not_true_eq_false, if_false]
    have hlenb : (r.spec.opcode :: ((subBytes r.spec ++ r.imms.flatMap encImm) ++ encRaw rest)).length
        = (encInstr r).length + (encRaw rest).length := by
      rw [← hbytes, List.length_append]
    have htot : h + (p' + (encInstr r).length) ≤ plen := hle _ ⟨_, List.mem_of_getElem? he', rfl⟩
    rw [if_neg (by
      intro hc
      rcases g4 with g4 | g4
      · exact hc.1 g4
      · rw [g4] at hc; omega)]
    simp only [g5 (encRaw rest), not_true_eq_false, if_false, hdec]
    have he : h + p' + ((r.spec.opcode :: ((subBytes r.spec ++ r.imms.flatMap encImm) ++ encRaw rest)).length - (encRaw rest).length)
        = h + (p' + (encInstr r).length) := by rw [hlenb]; omega
    rw [he]
    rw [if_neg (by intro hc; exact hc.2 g6)]
    -- branch rules
    obtain ⟨st2, c1, c2, c3⟩ := checkTargets_ok (P := Pos h S) (v := v) (bb := env.backBranchVersion) hle hin r.imms
      { st with starts := (h + p') :: st.starts } (by
        rintro x ⟨d, hd1, rfl⟩ hxle
        obtain ⟨j, hj, ej⟩ := List.mem_iff_getElem.mp hd1
        obtain ⟨hk0, ek0⟩ := getElem?_some_iff.mp hp'
        rcases Nat.lt_or_ge j k with hjk | hjk
        · exact List.mem_cons_of_mem _ (hst j hjk d (getElem?_some_iff.mpr ⟨hj, ej⟩))
        · have := pairwise_lt_get_le hSp hk0 hj hjk
          rw [ej, ek0] at this
          have : d = p' := by omega
          subst this
          exact List.mem_cons_self) htg g7
    rw [c1]
    simp only []
    rw [if_neg (by
      intro hc
      rw [List.any_eq_true] at hc
      obtain ⟨d, hdm, hcon⟩ := hc
      have hmem : h + p' + 1 + d ∈ st2.targets := by simpa using hcon
      have hP := c3 _ hmem
      have := hin _ hP (by have := List.mem_range.mp hdm; omega)
      omega)]
    -- the rest of the program
    exact checkGo_ok S hS plen hplen hgood rest (k + 1) st2 f hd' (by
        intro j hj d hdj
        rw [c2]
        rcases Nat.lt_or_ge j k with hjk | hjk
        · exact List.mem_cons_of_mem _ (hst j hjk d hdj)
        · have : j = k := by omega
          subst this
          rw [hp'] at hdj
          simp only [Option.some.injEq] at hdj
          subst hdj
          exact List.mem_cons_self) c3 (by omega) _ he'

/-! ### what label resolution guarantees about versions -/

theorem off2Of_version {v bb : Nat} {S : List Nat} {total e t : Nat} {o : Int} (h : off2Of v bb S total e t = .ok o) :
    (o < 0 → bb ≤ v) ∧ (v ≤ 1 → (e : Int) + o ≠ (total : Int)) := by
  unfold off2Of at h
  cases hd : S[t]? with
  | none => simp [hd] at h
  | some d =>
    simp only [hd] at h
    split at h
    · cases h
    · rename_i h1
      split at h
      · cases h
      · rename_i h2
        split at h
        · cases h
        · simp only [Except.ok.injEq] at h
          subst h
          refine ⟨fun ho => ?_, fun hv => ?_⟩
          · rcases Nat.lt_or_ge v bb with hlt | hge
            · exact absurd ⟨hlt, by omega⟩ h2
            · exact hge
          · intro hc
            exact h1 ⟨hv, by omega⟩

/-- version rules of a raw immediate relative to the end `e` of its instruction -/
def VerOK (v bb total e : Nat) : RImm → Prop
  | .off2 o => (o < 0 → bb ≤ v) ∧ (v ≤ 1 → (e : Int) + o ≠ (total : Int))
  | _ => True

theorem resolveImm_version {v bb : Nat} {S : List Nat} {total k w e : Nat} {im : Model.AsmFormat.Imm} {r : RImm}
    (h : resolveImm v bb S total k w e im = .ok r) : VerOK v bb total e r := by
  cases im with
  | label t =>
    simp only [resolveImm] at h
    cases h1 : off2Of v bb S total e t with
    | error x => simp [h1] at h
    | ok o =>
      simp only [h1, Except.ok.injEq] at h; subst h
      exact off2Of_version h1
  | byte b => simp only [resolveImm, Except.ok.injEq] at h; subst h; trivial
  | uint x => simp only [resolveImm, Except.ok.injEq] at h; subst h; trivial
  | bytes bs => simp only [resolveImm, Except.ok.injEq] at h; subst h; trivial
  | ints vs => simp only [resolveImm, Except.ok.injEq] at h; subst h; trivial
  | bytess bss => simp only [resolveImm, Except.ok.injEq] at h; subst h; trivial
  | labels ts =>
    simp only [resolveImm] at h
    cases h1 : off2sOf v bb S total e ts with
    | error x => simp [h1] at h
    | ok o => simp only [h1, Except.ok.injEq] at h; subst h; trivial
  | vlabel t =>
    simp only [resolveImm] at h
    cases hd : S[t]? with
    | none => simp [hd] at h
    | some d =>
      simp only [hd] at h
      split at h
      · cases h
      · split at h
        · cases h
        · cases hj : vjump S k t with
          | none => simp [hj] at h
          | some j =>
            simp only [hj] at h
            split at h
            · cases h
            · split at h
              · cases h
              · simp only [Except.ok.injEq] at h; subst h; trivial

theorem resolveImms_version {v bb : Nat} {S : List Nat} {total k w e : Nat} : ∀ {ims : List Model.AsmFormat.Imm} {rs : List RImm},
    resolveImms v bb S total k w e ims = .ok rs → ∀ r ∈ rs, VerOK v bb total e r
  | [], rs, h => by simp only [resolveImms, Except.ok.injEq] at h; subst h; simp
  | im :: ims, rs, h => by
    simp only [resolveImms] at h
    cases h1 : resolveImm v bb S total k w e im with
    | error x => simp [h1] at h
    | ok r =>
      simp only [h1] at h
      cases h2 : resolveImms v bb S total k w e ims with
      | error x => simp [h2] at h
      | ok rs' =>
        simp only [h2, Except.ok.injEq] at h; subst h
        intro q hq
        rcases List.mem_cons.mp hq with rfl | hq
        · exact resolveImm_version h1
        · exact resolveImms_version h2 q hq

theorem resolveGo_version {v bb : Nat} {S : List Nat} {total : Nat} : ∀ {xs : List (Instr × Nat)} {k : Nat} {rs : List RInstr},
    resolveGo v bb S total k xs = .ok rs →
    ∀ j r, rs[j]? = some r → ∃ e, S[k + j + 1]? = some e ∧ ∀ im ∈ r.imms, VerOK v bb total e im
  | [], k, rs, h => by
    simp only [resolveGo, Except.ok.injEq] at h; subst h
    intro j r hr; simp at hr
  | (i, w) :: xs, k, rs, h => by
    simp only [resolveGo] at h
    cases he : S[k + 1]? with
    | none => simp [he] at h
    | some e =>
      simp only [he] at h
      cases h1 : resolveImms v bb S total k w e i.imms with
      | error x => simp [h1] at h
      | ok ims =>
        simp only [h1] at h
        cases h2 : resolveGo v bb S total (k + 1) xs with
        | error x => simp [h2] at h
        | ok rs' =>
          simp only [h2, Except.ok.injEq] at h; subst h
          intro j r hr
          cases j with
          | zero =>
            simp only [List.getElem?_cons_zero, Option.some.injEq] at hr
            subst hr
            exact ⟨e, by simpa using he, resolveImms_version h1⟩
          | succ j =>
            simp only [List.getElem?_cons_succ] at hr
            obtain ⟨e', a, b⟩ := resolveGo_version h2 j r hr
            exact ⟨e', by rw [show k + (j + 1) + 1 = k + 1 + j + 1 by omega]; exact a, b⟩

/-! ### what un-resolving guarantees about targets and values -/

/-- target facts of a raw immediate relative to its instruction `[p, e)` (positions relative to the program body) -/
def TgtRel (S : List Nat) (p e : Nat) : RImm → Prop
  | .off2 o => 0 ≤ (e : Int) + o ∧ ((e : Int) + o).toNat ∈ S
  | .offs os => ∀ o ∈ os, 0 ≤ (e : Int) + o ∧ ((e : Int) + o).toNat ∈ S
  | .voff o _ => 0 ≤ (if o < 0 then (p : Int) + o else (e : Int) + o) ∧
      (if o < 0 then (p : Int) + o else (e : Int) + o).toNat ∈ S
  | _ => True

theorem idxOfPos_mem {S : List Nat} {x : Int} {t : Nat} (h : idxOfPos S x = some t) : 0 ≤ x ∧ x.toNat ∈ S := by
  obtain ⟨a, b⟩ := idxOfPos_inv h
  exact ⟨a, List.mem_of_getElem? b⟩

theorem unresolveOffs_mem {S : List Nat} {e : Nat} : ∀ {os : List Int} {ts : List Nat}, unresolveOffs S e os = some ts →
    ∀ o ∈ os, 0 ≤ (e : Int) + o ∧ ((e : Int) + o).toNat ∈ S
  | [], ts, _ => by simp
  | o :: os, ts, h => by
    simp only [unresolveOffs] at h
    cases h1 : idxOfPos S ((e : Int) + o) with
    | none => simp [h1] at h
    | some t =>
      cases h2 : unresolveOffs S e os with
      | none => simp [h1, h2] at h
      | some r =>
        intro q hq
        rcases List.mem_cons.mp hq with rfl | hq
        · exact idxOfPos_mem h1
        · exact unresolveOffs_mem h2 q hq

theorem unresolveImm_tgt {S : List Nat} {p e : Nat} {r : RImm} {im : Model.AsmFormat.Imm}
    (h : unresolveImm S p e r = some im) : TgtRel S p e r := by
  cases r with
  | off2 o =>
    simp only [unresolveImm, Option.map_eq_some_iff] at h
    obtain ⟨t, ht, _⟩ := h
    exact idxOfPos_mem ht
  | voff o w =>
    simp only [unresolveImm, Option.map_eq_some_iff] at h
    obtain ⟨t, ht, _⟩ := h
    exact idxOfPos_mem ht
  | offs os =>
    simp only [unresolveImm, Option.map_eq_some_iff] at h
    obtain ⟨ts, ht, _⟩ := h
    exact unresolveOffs_mem ht
  | byte b => trivial
  | uint a b => trivial
  | bytes a b => trivial
  | ints a b => trivial
  | bytess a b => trivial

/-- the raw immediates and the resolved immediates of one instruction, side by side -/
theorem unresolveImms_rel {S : List Nat} {p e : Nat} : ∀ {rs : List RImm} {ims : List Model.AsmFormat.Imm},
    unresolveImms S p e rs = some ims →
    (∀ r ∈ rs, TgtRel S p e r) ∧
    (∀ cw bss, RImm.bytess cw bss ∈ rs → Model.AsmFormat.Imm.bytess (bss.map (·.2)) ∈ ims) ∧
    (∀ b, ims = [.byte b] → rs = [.byte b])
  | [], ims, h => by
    simp only [unresolveImms, Option.some.injEq] at h; subst h
    exact ⟨by simp, by simp, by simp⟩
  | r :: rs, ims, h => by
    simp only [unresolveImms] at h
    cases h1 : unresolveImm S p e r with
    | none => simp [h1] at h
    | some i =>
      cases h2 : unresolveImms S p e rs with
      | none => simp [h1, h2] at h
      | some tl =>
        simp only [h1, h2, Option.some.injEq] at h; subst h
        obtain ⟨a, b, c⟩ := unresolveImms_rel h2
        refine ⟨?_, ?_, ?_⟩
        · intro q hq
          rcases List.mem_cons.mp hq with rfl | hq
          · exact unresolveImm_tgt h1
          · exact a q hq
        · intro cw bss hm
          rcases List.mem_cons.mp hm with rfl | hm
          · simp only [unresolveImm, Option.some.injEq] at h1
            subst h1
            exact List.mem_cons_self
          · exact List.mem_cons_of_mem _ (b cw bss hm)
        · intro bb hb
          simp only [List.cons.injEq] at hb
          obtain ⟨rfl, rfl⟩ := hb
          cases rs with
          | cons r2 rs2 =>
            simp only [unresolveImms] at h2
            split at h2 <;> simp at h2
          | nil =>
            cases r with
            | byte b' => simp only [unresolveImm, Option.some.injEq, Model.AsmFormat.Imm.byte.injEq] at h1; rw [h1]
            | uint _ _ => simp [unresolveImm] at h1
            | bytes _ _ => simp [unresolveImm] at h1
            | ints _ _ => simp [unresolveImm] at h1
            | bytess _ _ => simp [unresolveImm] at h1
            | off2 _ => simp [unresolveImm] at h1
            | voff _ _ => simp [unresolveImm] at h1
            | offs _ => simp [unresolveImm] at h1

theorem unresolveGo_rel {S : List Nat} : ∀ {rs : List RInstr} {k : Nat} {is : List Instr}, unresolveGo S k rs = some is →
    ∀ j r, rs[j]? = some r → ∃ i p e, is[j]? = some i ∧ i.spec = r.spec ∧ S[k + j]? = some p ∧ S[k + j + 1]? = some e ∧
      unresolveImms S p e r.imms = some i.imms
  | [], k, is, _ => by intro j r hr; simp at hr
  | r0 :: rs, k, is, h => by
    simp only [unresolveGo] at h
    cases hp : S[k]? with
    | none => simp [hp] at h
    | some p =>
      cases he : S[k + 1]? with
      | none => simp [hp, he] at h
      | some e =>
        simp only [hp, he] at h
        cases h1 : unresolveImms S p e r0.imms with
        | none => simp [h1] at h
        | some ims =>
          cases h2 : unresolveGo S (k + 1) rs with
          | none => simp [h1, h2] at h
          | some tl =>
            simp only [h1, h2, Option.some.injEq] at h; subst h
            intro j r hr
            cases j with
            | zero =>
              simp only [List.getElem?_cons_zero, Option.some.injEq] at hr
              subst hr
              exact ⟨⟨r0.spec, ims⟩, p, e, rfl, rfl, by simpa using hp, by simpa using he, h1⟩
            | succ j =>
              simp only [List.getElem?_cons_succ] at hr
              obtain ⟨i, p', e', a1, a2, a3, a4, a5⟩ := unresolveGo_rel h2 j r hr
              exact ⟨i, p', e', by simpa using a1, a2, by rw [show k + (j + 1) = k + 1 + j by omega]; exact a3,
                by rw [show k + (j + 1) + 1 = k + 1 + j + 1 by omega]; exact a4, a5⟩

/-! ### sizes of fixed-size instructions, byte-string limits -/

/-- `OpDetails.Size` is 0 (the op's check function computes the length) or the number of bytes the assembler emits for the
    op: opcode, sub-opcode, one byte per byte / int8 immediate, two per 2-byte label -/
def SizeFixed (s : Spec) : Prop :=
  s.size = 0 ∨ ((∀ k ∈ kindsOf s, k = 0 ∨ k = 1 ∨ k = 2) ∧
    s.size = 1 + (subBytes s).length + listSum ((kindsOf s).map (fun k => if k = 2 then 2 else 1)))

theorem length_fixed_imms : ∀ (ks : List Nat) (ims : List RImm), RImmsOK ks ims → (∀ k ∈ ks, k = 0 ∨ k = 1 ∨ k = 2) →
    (ims.flatMap encImm).length = listSum (ks.map (fun k => if k = 2 then 2 else 1))
  | [], [], _, _ => rfl
  | [], _ :: _, h, _ => by simp [RImmsOK] at h
  | _ :: _, [], h, _ => by simp [RImmsOK] at h
  | k :: ks, i :: is, h, hk => by
    obtain ⟨h1, h2⟩ := h
    have ih := length_fixed_imms ks is h2 (fun q hq => hk q (List.mem_cons_of_mem _ hq))
    have hk0 := hk k List.mem_cons_self
    simp only [List.flatMap_cons, List.length_append, List.map_cons, listSum, ih]
    cases i with
    | byte b =>
      simp only [RImmOK] at h1
      have : ¬ k = 2 := by omega
      simp [encImm, this]
    | off2 o =>
      obtain ⟨rfl, _⟩ := h1
      simp [encImm, be16]
    | voff o w => obtain ⟨rfl, _⟩ := h1; omega
    | uint a b => obtain ⟨rfl, _⟩ := h1; omega
    | bytes a b => obtain ⟨rfl, _⟩ := h1; omega
    | ints a b => obtain ⟨rfl, _⟩ := h1; omega
    | bytess a b => obtain ⟨rfl, _⟩ := h1; omega
    | offs os => obtain ⟨rfl, _⟩ := h1; omega

theorem size_of_fixed {look : Nat → Option Nat → Option Spec} {r : RInstr} (hs : SizeFixed r.spec) (hr : RInstrOK look r) :
    r.spec.size = 0 ∨ r.spec.size = (encInstr r).length := by
  rcases hs with h0 | ⟨hk, hsz⟩
  · exact Or.inl h0
  · right
    rw [hsz, length_encInstr, length_fixed_imms _ _ hr.2 hk]

theorem immsInv_bytess {env : Env} {v : Nat} : ∀ (ims : List Model.OpTables.Imm) (xs : List Model.AsmFormat.Imm),
    ImmsInv env v ims xs → ∀ bs, Model.AsmFormat.Imm.bytess bs ∈ xs → ∀ b ∈ bs, b.length ≤ env.maxStringSize
  | [], [], _, bs, h => by simp at h
  | [], _ :: _, h, _, _ => by simp [ImmsInv] at h
  | _ :: _, [], h, _, _ => by simp [ImmsInv] at h
  | im :: ims, x :: xs, h, bs, hm => by
    obtain ⟨h1, _, h2⟩ := h
    rcases List.mem_cons.mp hm with rfl | hm
    · exact h1.2
    · exact immsInv_bytess ims xs h2 bs hm

theorem itemsOk_of {maxLen : Nat} : ∀ (rs : List RImm), (∀ cw bss, RImm.bytess cw bss ∈ rs → ∀ q ∈ bss, q.2.length ≤ maxLen) →
    itemsOk maxLen rs = true
  | [], _ => rfl
  | r :: rs, h => by
    have ih := itemsOk_of rs (fun cw bss hm => h cw bss (List.mem_cons_of_mem _ hm))
    cases r with
    | bytess cw bss =>
      simp only [itemsOk, Bool.and_eq_true, List.all_eq_true, decide_eq_true_eq]
      exact ⟨h cw bss List.mem_cons_self, ih⟩
    | byte b => simpa [itemsOk] using ih
    | uint a b => simpa [itemsOk] using ih
    | bytes a b => simpa [itemsOk] using ih
    | ints a b => simpa [itemsOk] using ih
    | off2 o => simpa [itemsOk] using ih
    | voff o w => simpa [itemsOk] using ih
    | offs os => simpa [itemsOk] using ih

end Lemmas.AsmFormat
