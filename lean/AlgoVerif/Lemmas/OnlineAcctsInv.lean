import AlgoVerif.Lemmas.OnlineAcctsCache
/-! The invariant tying a tracker state to the history it was fed (C13), and what lookups return under it. -/
namespace AlgoVerif.Lemmas.OnlineAccts
open AlgoVerif.Spec.OnlineHistory AlgoVerif.Model.OnlineAccts

/-! ### history lemmas -/

theorem rounds_take_split (h : Hist) (D k : Nat) :
    h.rounds.take (D + 1 + k) = h.rounds.take (D + 1) ++ (h.blocks.drop D).take k := by
  unfold Hist.rounds
  rw [List.take_add]
  simp

/-- the account state at a round at or after `D` is the newest delta of rounds D+1 .. rnd, else the state at `D` -/
theorem acctAt_split (h : Hist) (D rnd : Nat) (a : Addr) (hr : D ≤ rnd) :
    acctAt h rnd a = match lastIn (((h.blocks.drop D).map (·.deltas)).take (rnd - D)) a with
      | some x => some x
      | none => acctAt h D a := by
  unfold acctAt
  have h1 : rnd + 1 = D + 1 + (rnd - D) := by omega
  rw [h1, rounds_take_split, List.map_append, lastIn_append, List.map_take]
  cases lastIn (List.take (rnd - D) (List.map (fun x => x.deltas) (List.drop D h.blocks))) a <;> rfl

def _root_.AlgoVerif.Spec.OnlineHistory.Hist.push (h : Hist) (b : Block) : Hist := { h with blocks := h.blocks ++ [b] }

theorem acctAt_push (h : Hist) (b : Block) (rnd : Nat) (a : Addr) (hr : rnd ≤ h.latest) :
    acctAt (h.push b) rnd a = acctAt h rnd a := by
  unfold acctAt Hist.push Hist.rounds Hist.latest at *
  have : (h.gen :: (h.blocks ++ [b])) = (h.gen :: h.blocks) ++ [b] := by simp
  simp only [this]
  rw [List.take_append_of_le_length (by simp; omega)]

theorem block?_push (h : Hist) (b : Block) (rnd : Nat) (hr : rnd ≤ h.latest) :
    (h.push b).block? rnd = h.block? rnd := by
  unfold Hist.block? Hist.push Hist.rounds Hist.latest at *
  have : (h.gen :: (h.blocks ++ [b])) = (h.gen :: h.blocks) ++ [b] := by simp
  simp only [this]
  rw [List.getElem?_append_left (by simp; omega)]

theorem recAt_push (h : Hist) (b : Block) (rnd : Nat) (a : Addr) (hr : rnd ≤ h.latest) :
    recAt (h.push b) rnd a = recAt h rnd a := by
  unfold recAt; rw [acctAt_push h b rnd a hr]

theorem zero_view {unit : Nat} (level : Nat) (hu : 1 ≤ unit) : ORec.zero.view unit level = .ok emptyData := by
  have : unit ≠ 0 := by omega
  simp [ORec.view, withRewards, ORec.zero, this, emptyData, U64]

theorem orec_view (x : Acct) {unit : Nat} (level : Nat) (hu : 1 ≤ unit) : x.orec.view unit level = acctView x unit level := by
  unfold acctView Acct.orec
  by_cases h : x.online = true
  · simp [h]
  · simp [h, zero_view level hu]

/-! ### the invariant -/

/-- static well-formedness of the case: one MaxBalLookback ≥ 1 and positive reward units in the protocol table -/
structure ProtosWF (protos : List Proto) (M : Nat) : Prop where
  mpos : 1 ≤ M
  mbl : ∀ p ∈ protos, p.mbl = M
  unit : ∀ p ∈ protos, 1 ≤ p.unit

/-- the tracker state is a faithful image of the history `σ.hist`; `M` = MaxBalLookback -/
structure InvCore (σ : State) (M : Nat) : Prop where
  pwf : ProtosWF σ.protos M
  valid : ∀ b ∈ σ.gen :: σ.ledger, b.proto < σ.protos.length
  /-- every address of the history belongs to the account universe of the case -/
  huniv : ∀ b ∈ σ.gen :: σ.ledger, ∀ e ∈ b.deltas, e.1 ∈ σ.univ
  hdb : σ.dbRound ≤ σ.ledger.length
  hdeltas : σ.deltas = (σ.ledger.drop σ.dbRound).map (·.deltas)
  /-- the in-memory round parameters are those of rounds s .. latest; the window reaches back to dbRound+1-M and not below
      the first round the DB still has -/
  hparams : ∃ s, s + σ.params.length = σ.ledger.length + 1 ∧ σ.params = ((σ.gen :: σ.ledger).drop s).map Block.params ∧
      σ.dbParamsStart ≤ s ∧ (s = 0 ∨ s + M ≤ σ.dbRound + 1)
  hdbparams : σ.dbParams = (((σ.gen :: σ.ledger).drop σ.dbParamsStart).take (σ.dbRound + 1 - σ.dbParamsStart)).map Block.params
  hH : σ.dbParamsStart = 0 ∨ σ.dbParamsStart + M ≤ σ.dbRound + 1
  hrows : ∀ a, RowsSorted (σ.db a) ∧ RowsBelow (σ.db a) (σ.dbRound + 1) ∧ RowsOK σ.genesisUnit (σ.db a)
  /-- from the horizon on, the DB answers what the history implies -/
  hlook : ∀ a rnd, σ.dbParamsStart ≤ rnd → rnd ≤ σ.dbRound → recOfRow (rowAt (σ.db a) rnd) = recAt σ.hist rnd a
  /-- whatever the cache answers from the horizon on is what the history implies -/
  hcache : ∀ a, EntSorted (σ.cache a) ∧ EntBelow (σ.cache a) (σ.dbRound + 1) ∧
      ∀ rnd r, σ.dbParamsStart ≤ rnd → rnd ≤ σ.dbRound → cacheRead (σ.cache a) rnd = some r → r = recAt σ.hist rnd a

theorem InvCore.latest_eq {σ : State} {M : Nat} (inv : InvCore σ M) : σ.latest = σ.ledger.length := by
  unfold State.latest
  rw [inv.hdeltas, List.length_map, List.length_drop]
  have := inv.hdb
  omega

theorem InvCore.horizon_le {σ : State} {M : Nat} (inv : InvCore σ M) : σ.dbParamsStart ≤ σ.dbRound := by
  have := inv.pwf.mpos
  rcases inv.hH with h | h <;> omega

/-- a round whose parameters are in memory: it lies in [s, latest] and the parameters are the block's -/
theorem InvCore.paramsAt_ok {σ : State} {M : Nat} (inv : InvCore σ M) {rnd : Nat} {p : Params} (h : paramsAt σ rnd = .ok p) :
    σ.dbParamsStart ≤ rnd ∧ rnd ≤ σ.latest ∧ ∃ b, σ.hist.block? rnd = some b ∧ p = Block.params b := by
  obtain ⟨s, hs1, hs2, hs3, _⟩ := inv.hparams
  have hlat := inv.latest_eq
  have hstart : paramsStart σ = s := by
    unfold paramsStart
    have : σ.params.length ≤ σ.latest + 1 := by omega
    simp [this]; omega
  unfold paramsAt roundParamsOffset at h
  rw [hstart] at h
  by_cases h1 : rnd < s
  · simp [h1] at h
  · by_cases h2 : rnd - s ≥ σ.params.length
    · simp [h1, h2] at h
    · simp only [h1, h2, if_false] at h
      cases hp : σ.params[rnd - s]? with
      | none => simp [hp] at h
      | some q =>
        simp only [hp] at h
        cases h
        refine ⟨by omega, by omega, ?_⟩
        rw [hs2, List.getElem?_map, List.getElem?_drop] at hp
        have hidx : s + (rnd - s) = rnd := by omega
        rw [hidx] at hp
        cases hb : (σ.gen :: σ.ledger)[rnd]? with
        | none => simp [hb] at hp
        | some b =>
          simp [hb] at hp
          exact ⟨b, by simp [Hist.block?, Hist.rounds, State.hist, hb], hp.symm⟩

/-- the lookback window is always in memory: every round r with latest+1 ≤ r+M, r ≤ latest has its parameters -/
theorem InvCore.window_served {σ : State} {M : Nat} (inv : InvCore σ M) (rnd : Nat) (h1 : rnd ≤ σ.latest)
    (h2 : σ.dbRound + 1 ≤ rnd + M) : ∃ p, paramsAt σ rnd = .ok p := by
  obtain ⟨s, hs1, hs2, hs3, hs4⟩ := inv.hparams
  have hlat := inv.latest_eq
  have hstart : paramsStart σ = s := by
    unfold paramsStart
    have : σ.params.length ≤ σ.latest + 1 := by omega
    simp [this]; omega
  have hge : ¬ rnd < s := by rcases hs4 with h | h <;> omega
  have hlt : ¬ rnd - s ≥ σ.params.length := by omega
  unfold paramsAt roundParamsOffset
  rw [hstart]
  simp only [hge, hlt, if_false]
  have : rnd - s < σ.params.length := by omega
  rw [List.getElem?_eq_getElem this]
  exact ⟨_, rfl⟩

end AlgoVerif.Lemmas.OnlineAccts
