import AlgoVerif.Lemmas.AcctUpdatesCommit
/-! `Inv` is preserved by commit (prepareCommit / commitRound / postCommit), commitUpTo and reload. -/
namespace AlgoVerif.Lemmas.AcctUpdates
open AlgoVerif.Spec.LedgerHistory AlgoVerif.Model.AcctUpdates

theorem get_map_snd {K X Y : Type} [DecidableEq K] (l : AMap K X) (f : X → Y) (k : K) :
    AMap.get (l.map (fun p => (p.1, f p.2))) k = (AMap.get l k).map f := by
  induction l with
  | nil => rfl
  | cons p t ih =>
    obtain ⟨k0, x0⟩ := p
    simp only [List.map_cons, get_cons]
    split
    · rfl
    · exact ih

theorem keys_map_snd {K X Y : Type} (l : AMap K X) (f : X → Y) : AMap.keys (l.map (fun p => (p.1, f p.2))) = AMap.keys l := by
  simp [AMap.keys, List.map_map, Function.comp_def]

/-- the counts handed to postCommit are the numbers of flushed rounds touching each key -/
theorem counts_spec {K E : Type} [DecidableEq K] (mods : List (AMap K E)) (hr : ∀ r ∈ mods, (AMap.keys r).Nodup) :
    (AMap.keys ((compact mods).map (fun p => (p.1, p.2.length)))).Nodup ∧
    ∀ k, AMap.get ((compact mods).map (fun p => (p.1, p.2.length))) k =
      if entriesOf mods k = [] then none else some (entriesOf mods k).length := by
  obtain ⟨hn, hg⟩ := compact_inv mods hr
  refine ⟨by rw [keys_map_snd]; exact hn, fun k => ?_⟩
  rw [get_map_snd, hg k]
  split <;> rfl

theorem commit_inv (ct : Cidx → CType) (σ : State) (h : Inv ct σ) (off : Nat) (hoff : off ≤ σ.deltas.length) :
    ((off = 0 ∨ σ.versions[1]? = σ.versions[off]?) ∧
      ∃ σ', commit σ off = .ok σ' ∧ Inv ct σ' ∧ σ'.hist = σ.hist ∧ σ'.latest = σ.latest ∧ σ'.cfg = σ.cfg ∧
        σ'.dbRound = σ.dbRound + off) ∨
    (off ≠ 0 ∧ σ.versions[1]? ≠ σ.versions[off]? ∧
      commit σ off = .error (.db "attempted to commit series of rounds with non-uniform consensus versions")) := by
  unfold commit
  by_cases h0 : off = 0
  · left; simp only [h0, if_true]
    exact ⟨Or.inl trivial, σ, rfl, h, rfl, rfl, rfl, by omega⟩
  simp only [h0, if_false]
  have hgt : ¬ off > σ.deltas.length := by omega
  simp only [hgt, if_false]
  by_cases hver : σ.versions[1]? ≠ σ.versions[off]?
  · right; rw [if_pos hver]; exact ⟨fun e => h0 e, hver, rfl⟩
  left
  rw [if_neg hver]
  refine ⟨Or.inr (by simpa using hver), ?_⟩
  -- commitRound
  obtain ⟨accts, hA, hAval, hAupd, hAchg⟩ := commitAccts_spec ct σ h off hoff
  obtain ⟨res, hR, hRval, hRupd, hRchg⟩ := commitRes_spec ct σ h off hoff
  obtain ⟨hKval, hKupd, hKchg⟩ := commitKvs_spec ct σ h off hoff
  obtain ⟨creat, hC, hCval⟩ := commitCreat_spec ct σ h off hoff
  unfold commitRound
  simp only [hA, hR, hC]
  -- postCommit: the four index trims
  have hwfA : ∀ r ∈ (σ.deltas.take off).map acctMods, (AMap.keys r).Nodup := by
    intro r hr; simp only [List.mem_map] at hr; obtain ⟨d, hd, rfl⟩ := hr
    exact (h.deltas_wf d (List.mem_of_mem_take hd)).nodupA
  have hwfR : ∀ r ∈ (σ.deltas.take off).map resMods, (AMap.keys r).Nodup := by
    intro r hr; simp only [List.mem_map] at hr; obtain ⟨d, hd, rfl⟩ := hr
    exact (h.deltas_wf d (List.mem_of_mem_take hd)).nodupR
  have hwfK : ∀ r ∈ (σ.deltas.take off).map kvMods, (AMap.keys r).Nodup := by
    intro r hr; simp only [List.mem_map] at hr; obtain ⟨d, hd, rfl⟩ := hr
    exact (h.deltas_wf d (List.mem_of_mem_take hd)).nodupK
  have hwfC : ∀ r ∈ (σ.deltas.take off).map creatMods, (AMap.keys r).Nodup := by
    intro r hr; simp only [List.mem_map] at hr; obtain ⟨d, hd, rfl⟩ := hr
    exact (h.deltas_wf d (List.mem_of_mem_take hd)).nodupC
  obtain ⟨cnA, cgA⟩ := counts_spec _ hwfA
  obtain ⟨cnR, cgR⟩ := counts_spec _ hwfR
  obtain ⟨cnK, cgK⟩ := counts_spec _ hwfK
  obtain ⟨cnC, cgC⟩ := counts_spec _ hwfC
  obtain ⟨iA, hiA, hinvA⟩ := idxInv_postCommit _ "au.accounts" σ.accounts (σ.deltas.map acctMods) off h.idxA _ cnA (fun k => by rw [← List.map_take]; exact cgA k)
  obtain ⟨iR, hiR, hinvR⟩ := idxInv_postCommit _ "au.resources" σ.resources (σ.deltas.map resMods) off h.idxR _ cnR (fun k => by rw [← List.map_take]; exact cgR k)
  obtain ⟨iK, hiK, hinvK⟩ := idxInv_postCommit _ "au.kvStore" σ.kvStore (σ.deltas.map kvMods) off h.idxK _ cnK (fun k => by rw [← List.map_take]; exact cgK k)
  obtain ⟨iC, hiC, hinvC⟩ := idxInv_postCommit _ "au.creatables" σ.creatables (σ.deltas.map creatMods) off h.idxC _ cnC (fun k => by rw [← List.map_take]; exact cgC k)
  unfold postCommit
  simp only []
  have eA : (σ.deltas.take off).map (·.accts) = (σ.deltas.take off).map acctMods := rfl
  have eR : (σ.deltas.take off).map (fun d => d.res.map (fun r => ((r.addr, r.cidx), r))) = (σ.deltas.take off).map resMods := rfl
  have eK : (σ.deltas.take off).map (fun d => d.kvs.map (fun m => (m.key, m))) = (σ.deltas.take off).map kvMods := rfl
  have eC : (σ.deltas.take off).map (fun d => d.creat.map (fun m => (m.cidx, m))) = (σ.deltas.take off).map creatMods := rfl
  simp only [eA, eR, eK, eC] at hAupd hAchg hRupd hRchg hKval hKupd hKchg ⊢
  rw [hiA]; simp only []
  rw [hiR]; simp only []
  rw [hiK]; simp only []
  rw [hiC]; simp only []
  have hpos : σ.dbRound < σ.dbRound + off := by omega
  refine ⟨_, rfl, ?_, rfl, ?_, rfl, rfl⟩
  · have hlat := h.latest_le
    unfold State.latest at hlat
    refine { wf := h.wf, dbr := rfl, le := by simp only []; omega, pre := ?_,
             dbA := hAval, dbR := hRval, dbK := hKval, dbC := hCval,
             idxA := by simp only [List.map_drop]; exact hinvA,
             idxR := by simp only [List.map_drop]; exact hinvR,
             idxK := by simp only [List.map_drop]; exact hinvK,
             idxC := by simp only [List.map_drop]; exact hinvC,
             lruA := lruInv_commitWrites _ σ.baseAccounts _ _ σ.dbRound (σ.dbRound + off) hpos h.lruA hAupd hAchg,
             lruR := lruInv_commitWrites _ σ.baseResources _ _ σ.dbRound (σ.dbRound + off) hpos h.lruR hRupd hRchg,
             lruK := lruInv_commitWrites _ σ.baseKVs _ _ σ.dbRound (σ.dbRound + off) hpos h.lruK hKupd hKchg }
    simp only []
    obtain ⟨rest, hrest⟩ := h.pre
    refine ⟨rest, ?_⟩
    rw [← List.drop_drop, ← hrest, List.drop_append_of_le_length hoff]
  · unfold State.latest
    simp only [List.length_drop]
    omega

/-! ### commitUpTo (produceCommittingTask + commit) -/

theorem sortSearch_le (f : Nat → Bool) (fuel i j : Nat) (h : i ≤ j) : sortSearch f fuel i j ≤ j := by
  induction fuel generalizing i j with
  | zero => exact h
  | succ n ih =>
    unfold sortSearch
    split
    · next hlt =>
      dsimp only
      split
      · exact ih _ _ (by omega)
      · exact Nat.le_trans (ih _ _ (by omega)) (by omega)
    · exact h

theorem consecutiveVersion_le (vs : List Nat) (off : Nat) : consecutiveVersion vs off ≤ off := by
  unfold consecutiveVersion
  split
  · exact sortSearch_le _ _ _ _ (Nat.zero_le _)
  · exact Nat.le_refl _

theorem commitOffset_le (σ : State) (r lb off : Nat) (h : commitOffset σ r lb = .ok (some off)) : off ≤ σ.deltas.length := by
  unfold commitOffset at h
  by_cases h1 : r < lb
  · simp [h1] at h
  · simp only [h1, if_false] at h
    by_cases h2 : r - lb ≤ σ.dbRound
    · simp [h2] at h
    · simp only [h2, if_false] at h
      by_cases h3 : r - lb > σ.dbRound + σ.deltas.length
      · simp [h3] at h
      · simp only [h3, if_false, Except.ok.injEq, Option.some.injEq] at h
        rw [← h]
        exact Nat.le_trans (consecutiveVersion_le _ _) (by omega)

theorem commitUpTo_inv (ct : Cidx → CType) (σ : State) (h : Inv ct σ) (r : Nat) (σ' : State) (hc : commitUpTo σ r = .ok σ') :
    Inv ct σ' ∧ σ'.hist = σ.hist ∧ σ'.latest = σ.latest ∧ σ'.cfg = σ.cfg := by
  unfold commitUpTo at hc
  cases hco : commitOffset σ r σ.cfg.lookback with
  | error e => rw [hco] at hc; simp at hc
  | ok o =>
    rw [hco] at hc
    cases o with
    | none => simp only [Except.ok.injEq] at hc; subst hc; exact ⟨h, rfl, rfl, rfl⟩
    | some off =>
      simp only [] at hc
      rcases commit_inv ct σ h off (commitOffset_le σ r _ off hco) with ⟨_, σ'', hc', hinv, hh, hl, hcfg, _⟩ | ⟨_, _, herr⟩
      · rw [hc'] at hc; simp only [Except.ok.injEq] at hc; subst hc; exact ⟨hinv, hh, hl, hcfg⟩
      · rw [herr] at hc; simp at hc

/-! ### reload -/

theorem mkCaches_inv (cfg : Cfg) (dbA : Addr → Option AcctData) (dbR : Addr × Cidx → Option ResRow) (dbK : Key → Option Bytes) (r : Nat) :
    LruInv (mkCaches cfg).1 dbA r ∧ LruInv (mkCaches cfg).2.1 dbR r ∧ LruInv (mkCaches cfg).2.2 dbK r := by
  unfold mkCaches
  split <;> dsimp only <;> exact ⟨lruInv_init _ _ _, lruInv_init _ _ _, lruInv_init _ _ _⟩

theorem loadFromDisk_inv (ct : Cidx → CType) (σ : State) (h : Inv ct σ) : Inv ct (loadFromDisk σ.cfg σ.hist σ.db) := by
  obtain ⟨cA, cR, cK⟩ := mkCaches_inv σ.cfg (fun a => AMap.get σ.db.accts a) (fun k => AMap.get σ.db.res k)
    (fun k => AMap.get σ.db.kvs k) σ.db.round
  unfold loadFromDisk
  exact { wf := h.wf, dbr := rfl, le := by simp only []; rw [h.dbr]; exact h.le, pre := List.nil_prefix,
          dbA := by simp only []; rw [h.dbr]; exact h.dbA, dbR := by simp only []; rw [h.dbr]; exact h.dbR,
          dbK := by simp only []; rw [h.dbr]; exact h.dbK, dbC := by simp only []; rw [h.dbr]; exact h.dbC,
          idxA := idxInv_nil _, idxR := idxInv_nil _, idxK := idxInv_nil _, idxC := idxInv_nil _,
          lruA := cA, lruR := cR, lruK := cK }

theorem replay_inv (ct : Cidx → CType) (rest : List Delta) (σ : State) (h : Inv ct σ)
    (heq : σ.deltas ++ rest = σ.hist.blocks.drop σ.dbRound) :
    Inv ct (rest.foldl newBlockTracker σ) ∧ Synced (rest.foldl newBlockTracker σ) ∧
    (rest.foldl newBlockTracker σ).hist = σ.hist ∧ (rest.foldl newBlockTracker σ).cfg = σ.cfg := by
  induction rest generalizing σ with
  | nil =>
    simp only [List.append_nil, List.foldl_nil] at heq ⊢
    refine ⟨h, ?_, trivial, trivial⟩
    unfold Synced State.latest
    rw [heq, List.length_drop]
    have := h.le
    omega
  | cons d t ih =>
    simp only [List.foldl_cons]
    have hd : d ∈ σ.hist.blocks := by
      have : d ∈ σ.hist.blocks.drop σ.dbRound := by rw [← heq]; simp
      exact List.mem_of_mem_drop this
    have hnext : σ.deltas ++ [d] <+: σ.hist.blocks.drop σ.dbRound := by
      rw [← heq]; exact ⟨t, by simp⟩
    have h1 := newBlockTracker_inv ct σ h d hnext (h.wf.deltas d hd)
    have hh : (newBlockTracker σ d).hist = σ.hist := rfl
    have hcfg : (newBlockTracker σ d).cfg = σ.cfg := rfl
    have heq' : (newBlockTracker σ d).deltas ++ t = (newBlockTracker σ d).hist.blocks.drop (newBlockTracker σ d).dbRound := by
      show (σ.deltas ++ [d]) ++ t = σ.hist.blocks.drop σ.dbRound
      rw [← heq]; simp
    obtain ⟨g1, g2, g3, g4⟩ := ih (newBlockTracker σ d) h1 heq'
    exact ⟨g1, g2, by rw [g3, hh], by rw [g4, hcfg]⟩

theorem reload_inv (ct : Cidx → CType) (σ : State) (h : Inv ct σ) (σ' : State) (hr : reload σ = .ok σ') :
    Inv ct σ' ∧ Synced σ' ∧ σ'.hist = σ.hist := by
  have h0 := loadFromDisk_inv ct σ h
  have heq : (loadFromDisk σ.cfg σ.hist σ.db).deltas ++ σ.hist.blocks.drop σ.db.round =
      (loadFromDisk σ.cfg σ.hist σ.db).hist.blocks.drop (loadFromDisk σ.cfg σ.hist σ.db).dbRound := by
    unfold loadFromDisk; simp
  obtain ⟨g1, g2, g3, g4⟩ := replay_inv ct _ _ h0 heq
  have hh0 : (loadFromDisk σ.cfg σ.hist σ.db).hist = σ.hist := rfl
  unfold reload at hr
  simp only [] at hr
  split at hr
  · obtain ⟨k1, k2, k3, _⟩ := commitUpTo_inv ct _ g1 _ σ' hr
    refine ⟨k1, ?_, by rw [k2, g3, hh0]⟩
    unfold Synced at g2 ⊢
    rw [k3, k2]; exact g2
  · simp only [Except.ok.injEq] at hr; subst hr
    exact ⟨g1, g2, by rw [g3, hh0]⟩

/-! ### initial state -/

theorem initDB_get (gen : List (Addr × AcctData)) (hn : (AMap.keys gen).Nodup) (m0 : AMap Addr AcctData) (a : Addr) :
    AMap.get (gen.foldl (fun m p => if p.2 = AcctData.empty then m else AMap.set m p.1 p.2) m0) a =
      match gen.find? (fun p => p.1 == a) with
      | some p => if p.2 = AcctData.empty then AMap.get m0 a else some p.2
      | none => AMap.get m0 a := by
  induction gen generalizing m0 with
  | nil => rfl
  | cons p t ih =>
    obtain ⟨k, v⟩ := p
    simp [AMap.keys] at hn
    have hnt : (AMap.keys t).Nodup := by simpa [AMap.keys] using hn.2
    simp only [List.foldl_cons, List.find?_cons]
    rw [ih hnt]
    by_cases hk : k = a
    · subst hk
      have hnf : t.find? (fun p => p.1 == k) = none := by
        rw [List.find?_eq_none]
        intro q hq
        simp only [beq_iff_eq]
        intro e
        exact hn.1 q.2 (by rw [← e]; exact hq)
      simp only [hnf, beq_self_eq_true]
      by_cases hv : v = AcctData.empty
      · simp [hv]
      · simp only [hv, if_false]; rw [get_set]; simp
    · have : (k == a) = false := by simp [hk]
      simp only [this]
      by_cases hv : v = AcctData.empty
      · simp only [hv, if_true]
      · simp only [hv, if_false]
        have hg : AMap.get (AMap.set m0 k v) a = AMap.get m0 a := by rw [get_set]; simp [hk]
        rw [hg]

theorem init_inv (ct : Cidx → CType) (cfg : Cfg) (gen : List (Addr × AcctData)) (hn : (AMap.keys gen).Nodup) :
    Inv ct (init cfg gen) ∧ Synced (init cfg gen) := by
  obtain ⟨cA, cR, cK⟩ := mkCaches_inv cfg (fun a => AMap.get (initDB gen).accts a) (fun k => AMap.get (initDB gen).res k)
    (fun k => AMap.get (initDB gen).kvs k) 0
  have hwf : HistWF ct { gen := gen, blocks := [] } :=
    { genNodup := hn, deltas := by simp, kvOld := by simp, resFull := by simp, creatFresh := by simp }
  refine ⟨?_, rfl⟩
  unfold init loadFromDisk
  exact { wf := hwf, dbr := rfl, le := Nat.zero_le _, pre := List.nil_prefix,
          dbA := by
            intro a
            show AMap.get (initDB gen).accts a = _
            unfold initDB
            simp only []
            rw [initDB_get gen hn [] a]
            unfold acctAt History.upTo History.genAcct acctRow lastIn
            simp only [List.take_nil, List.reverse_nil, List.findSome?_nil, Option.getD_none]
            cases gen.find? (fun p => p.1 == a) with
            | none => simp
            | some p => simp only [Option.map_some, Option.getD_some, get_nil]
          dbR := by intro a c; simp [initDB, resAt, History.upTo, lastIn, rowOf, ResVal.isEmpty]
          dbK := by intro k; simp [initDB, kvAt, History.upTo, lastIn]
          dbC := by intro c; simp [initDB, creatorRaw, History.upTo, lastIn]
          idxA := idxInv_nil _, idxR := idxInv_nil _, idxK := idxInv_nil _, idxC := idxInv_nil _,
          lruA := cA, lruR := cR, lruK := cK }

/-- a resource lookup of any creatable type leaves a state satisfying the invariant -/
theorem lookupRes_inv (ct : Cidx → CType) (σ : State) (h : Inv ct σ) (rnd : Nat) (a : Addr) (c : Cidx) (t : CType) :
    Inv ct (lookupRes σ rnd a c t).2 := by
  have hdb : ∀ rnd', Inv ct (resFromDb σ a c t rnd').2 := by
    intro rnd'
    unfold resFromDb
    cases hr : σ.baseResources.read (a, c) with
    | some e =>
      obtain ⟨hv, hle⟩ := lru_read_valid h.lruR hr
      exact { h with lruR := lruInv_writePending h.lruR (a, c) e ⟨hv, hle⟩ }
    | none =>
      simp only []
      split
      · exact h
      · cases hrow : AMap.get σ.db.res (a, c) with
        | some row =>
          simp only []
          split
          · exact h
          · simp only [h.dbr, if_true]
            exact { h with lruR := lruInv_writePending h.lruR (a, c) ⟨some row, σ.dbRound⟩ ⟨hrow.symm, Nat.le_refl _⟩ }
        | none =>
          simp only [h.dbr, if_true]
          exact { h with lruR := lruInv_writeNotFoundPending h.lruR (a, c) hrow }
  unfold lookupRes
  split
  · exact h
  · split
    · split
      · exact h
      · split
        · exact h
        · exact hdb _
    · exact hdb _

theorem lookupAcct_inv (ct : Cidx → CType) (σ : State) (h : Inv ct σ) (rnd : Nat) (a : Addr) : Inv ct (lookupAcct σ rnd a).2 := by
  unfold lookupAcct
  split
  · exact h
  · split
    · split
      · exact h
      · split
        · exact h
        · exact (acctFromDb_spec ct σ h a _).2
    · exact (acctFromDb_spec ct σ h a _).2

theorem lookupKv_inv (ct : Cidx → CType) (σ : State) (h : Inv ct σ) (rnd : Nat) (k : Key) : Inv ct (lookupKv σ rnd k).2 := by
  unfold lookupKv
  split
  · exact h
  · split
    · split
      · exact h
      · split
        · exact h
        · exact (kvFromDb_spec ct σ h k).2
    · exact (kvFromDb_spec ct σ h k).2

end AlgoVerif.Lemmas.AcctUpdates
