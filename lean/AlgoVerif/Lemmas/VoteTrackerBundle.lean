import AlgoVerif.Lemmas.VoteTrackerOver
/-! genBundle / makeBundle: the sort is a permutation, the quorum cut is a prefix that stops at the first quorum. -/
namespace AlgoVerif.Lemmas.VoteTracker
open AlgoVerif.Model.VoteTracker AlgoVerif.Spec.VoteTracker

theorem insertBy_perm {α : Type} (lt : α → α → Bool) (a : α) (l : List α) : (insertBy lt a l).Perm (a :: l) := by
  induction l with
  | nil => exact List.Perm.refl _
  | cons b rest ih =>
    unfold insertBy
    by_cases h : lt b a = true
    · rw [if_pos h]
      exact (List.Perm.cons b ih).trans (List.Perm.swap a b rest)
    · rw [if_neg h]

theorem sortBy_perm {α : Type} (lt : α → α → Bool) (l : List α) : (sortBy lt l).Perm l := by
  induction l with
  | nil => exact List.Perm.refl _
  | cons a rest ih =>
    unfold sortBy
    exact (insertBy_perm lt a _).trans (List.Perm.cons a ih)

section take
variable {α : Type} (c : Cfg) (wt : α → Nat)

theorem take_prefix (w : Nat) (l : List α) : ∃ suf, l = (takeQuorum c wt w l).1 ++ suf := by
  induction l generalizing w with
  | nil => exact ⟨[], rfl⟩
  | cons a rest ih =>
    unfold takeQuorum
    by_cases h : reachesQuorum c w = true
    · rw [if_pos h]; exact ⟨a :: rest, rfl⟩
    · rw [if_neg h]
      obtain ⟨suf, hs⟩ := ih (w + wt a)
      exact ⟨suf, by simp only [List.cons_append]; rw [← hs]⟩

theorem take_weight (w : Nat) (l : List α) :
    (takeQuorum c wt w l).2 = w + ((takeQuorum c wt w l).1.map wt).sum := by
  induction l generalizing w with
  | nil => simp [takeQuorum]
  | cons a rest ih =>
    unfold takeQuorum
    by_cases h : reachesQuorum c w = true
    · rw [if_pos h]; simp
    · rw [if_neg h]
      simp only [List.map_cons, List.sum_cons]
      rw [ih (w + wt a)]; omega

theorem take_reach_or_all (w : Nat) (l : List α) :
    reachesQuorum c (takeQuorum c wt w l).2 = true ∨ (takeQuorum c wt w l).1 = l := by
  induction l generalizing w with
  | nil => right; rfl
  | cons a rest ih =>
    unfold takeQuorum
    by_cases h : reachesQuorum c w = true
    · rw [if_pos h]; left; exact h
    · rw [if_neg h]
      rcases ih (w + wt a) with h1 | h1
      · left; exact h1
      · right; simp only []; rw [h1]

theorem take_idem (w : Nat) (l : List α) :
    takeQuorum c wt w (takeQuorum c wt w l).1 = takeQuorum c wt w l := by
  induction l generalizing w with
  | nil => rfl
  | cons a rest ih =>
    by_cases h : reachesQuorum c w = true
    · have : takeQuorum c wt w (a :: rest) = ([], w) := by unfold takeQuorum; rw [if_pos h]
      rw [this]; rfl
    · have : takeQuorum c wt w (a :: rest) = (a :: (takeQuorum c wt (w + wt a) rest).1, (takeQuorum c wt (w + wt a) rest).2) := by
        conv => lhs; unfold takeQuorum
        rw [if_neg h]
      rw [this]
      simp only []
      conv => lhs; unfold takeQuorum
      rw [if_neg h, ih (w + wt a)]

theorem take_ne_nil (w : Nat) (a : α) (rest : List α) (h : reachesQuorum c w = false) :
    ∃ l', (takeQuorum c wt w (a :: rest)).1 = a :: l' := by
  unfold takeQuorum
  simp [h]

/-- with positive weights a cut taken from weight `w` has at most `T − w` elements -/
theorem take_length (hstep : c.step ≠ 0) (w : Nat) (l : List α) (hpos : ∀ a ∈ l, 0 < wt a) :
    (takeQuorum c wt w l).1 = [] ∨ w + (takeQuorum c wt w l).1.length ≤ c.T := by
  induction l generalizing w with
  | nil => left; rfl
  | cons a rest ih =>
    unfold takeQuorum
    by_cases h : reachesQuorum c w = true
    · rw [if_pos h]; left; rfl
    · rw [if_neg h]
      right
      have hw : w < c.T := by
        unfold reachesQuorum at h
        simp only [hstep, if_false, decide_eq_true_eq] at h; omega
      have ha := hpos a (by simp)
      simp only [List.length_cons]
      rcases ih (w + wt a) (fun b hb => hpos b (List.mem_cons_of_mem _ hb)) with h1 | h1
      · rw [h1]; simp; omega
      · omega

end take

theorem reaches_step_ne {c : Cfg} {w : Nat} (h : reachesQuorum c w = true) : c.step ≠ 0 := by
  intro hs; unfold reachesQuorum at h; simp [hs] at h

/-- the explicit value of `genBundle` whenever the entry is non-empty, homogeneous and over the threshold -/
theorem genBundle_eq {c : Cfg} {t : Tracker} {n prop : Nat} {U : List Vote}
    (hU : U ≠ []) (hval : ∀ a ∈ U, a.value = prop) (h0 : reachesQuorum c 0 = false)
    (hreach : reachesQuorum c (wsum U + (t.equivocators.map EqVote.weight).sum) = true) :
    genBundle c t ⟨n, U⟩ = .ok
      { proposal := prop
        votes := (takeQuorum c Vote.weight 0 (sortBy voteBefore U)).1
        eqVotes := (takeQuorum c EqVote.weight (takeQuorum c Vote.weight 0 (sortBy voteBefore U)).2
                      (sortBy eqBefore t.equivocators)).1 } := by
  have hperm := sortBy_perm voteBefore U
  unfold genBundle
  simp only []
  cases hsU : sortBy voteBefore U with
  | nil => rw [hsU] at hperm; exact absurd (List.Perm.eq_nil hperm.symm) hU
  | cons a rest =>
    simp only []
    obtain ⟨l', hl'⟩ := take_ne_nil c Vote.weight 0 a rest h0
    rw [hl']
    simp only []
    have hamem : a ∈ U := hperm.subset (by rw [hsU]; simp)
    rw [hval a hamem]
    -- makeBundle on the two cuts
    unfold makeBundle
    have hne : (a :: l').isEmpty = false := rfl
    have hsub : ∀ b ∈ a :: l', b.value = prop := by
      intro b hb
      obtain ⟨suf, hs⟩ := take_prefix c Vote.weight 0 (a :: rest)
      rw [hl'] at hs
      have : b ∈ a :: rest := by rw [hs]; exact List.mem_append_left _ hb
      exact hval b (hperm.subset (by rw [hsU]; exact this))
    have hany : (a :: l').any (fun v => v.value != prop) = false := by
      rw [List.any_eq_false]; intro b hb; simp [hsub b hb]
    rw [hne, hany]
    simp only [Bool.false_eq_true, if_false]
    have hid1 := take_idem c Vote.weight 0 (a :: rest)
    rw [hl'] at hid1
    rw [hid1]
    have hid2 := take_idem c EqVote.weight (takeQuorum c Vote.weight 0 (a :: rest)).2 (sortBy eqBefore t.equivocators)
    rw [hid2]
    -- the packed weight reaches the quorum
    have hfinal : reachesQuorum c (takeQuorum c EqVote.weight (takeQuorum c Vote.weight 0 (a :: rest)).2
        (sortBy eqBefore t.equivocators)).2 = true := by
      rcases take_reach_or_all c EqVote.weight (takeQuorum c Vote.weight 0 (a :: rest)).2 (sortBy eqBefore t.equivocators) with h2 | h2
      · exact h2
      · rw [take_weight, h2]
        rcases take_reach_or_all c Vote.weight 0 (a :: rest) with h1 | h1
        · exact reachesQuorum_mono (by omega) h1
        · rw [take_weight, h1]
          have e1 : ((a :: rest).map Vote.weight).sum = wsum U := by
            rw [← hsU]; exact (hperm.map Vote.weight).sum_nat
          have e2 : ((sortBy eqBefore t.equivocators).map EqVote.weight).sum = (t.equivocators.map EqVote.weight).sum :=
            ((sortBy_perm eqBefore t.equivocators).map EqVote.weight).sum_nat
          rw [e1, e2, Nat.zero_add]; exact hreach
    rw [hfinal]
    simp [hl']

/-- the two cuts together reach the quorum whenever everything together does -/
theorem cut_reaches {c : Cfg} {sv : List Vote} {se : List EqVote}
    (hreach : reachesQuorum c ((sv.map Vote.weight).sum + (se.map EqVote.weight).sum) = true) :
    reachesQuorum c (takeQuorum c EqVote.weight (takeQuorum c Vote.weight 0 sv).2 se).2 = true := by
  rcases take_reach_or_all c EqVote.weight (takeQuorum c Vote.weight 0 sv).2 se with h2 | h2
  · exact h2
  · rw [take_weight, h2]
    rcases take_reach_or_all c Vote.weight 0 sv with h1 | h1
    · exact reachesQuorum_mono (by omega) h1
    · rw [take_weight, h1, Nat.zero_add]; exact hreach

theorem genBundle_T0 {c : Cfg} {t : Tracker} {pv : Counter} (h0 : reachesQuorum c 0 = true) :
    genBundle c t pv = .error .indexOutOfRange := by
  unfold genBundle
  simp only []
  cases sortBy voteBefore pv.votes with
  | nil => rfl
  | cons a rest =>
    simp only []
    have : takeQuorum c Vote.weight 0 (a :: rest) = ([], 0) := by unfold takeQuorum; rw [if_pos h0]
    rw [this]

theorem nodupNat_iff (l : List Nat) : nodupNat l = true ↔ l.Nodup := by
  induction l with
  | nil => simp [nodupNat]
  | cons a rest ih =>
    simp only [nodupNat, Bool.and_eq_true, Bool.not_eq_true', List.nodup_cons, ih]
    constructor
    · rintro ⟨h1, h2⟩
      refine ⟨?_, h2⟩
      intro hm
      have : rest.contains a = true := by simpa using hm
      rw [this] at h1; cases h1
    · rintro ⟨h1, h2⟩
      refine ⟨?_, h2⟩
      cases hc : rest.contains a with
      | false => rfl
      | true => exact absurd (by simpa using hc) h1

theorem sum_ge_length {α : Type} (wt : α → Nat) (l : List α) (hpos : ∀ a ∈ l, 0 < wt a) : l.length ≤ (l.map wt).sum := by
  induction l with
  | nil => simp
  | cons a rest ih =>
    have := hpos a (by simp)
    have := ih (fun b hb => hpos b (List.mem_cons_of_mem _ hb))
    simp only [List.length_cons, List.map_cons, List.sum_cons]; omega

theorem take_subset {α : Type} (c : Cfg) (wt : α → Nat) (w : Nat) (l : List α) :
    (takeQuorum c wt w l).1.Sublist l := by
  obtain ⟨suf, hs⟩ := take_prefix c wt w l
  conv => rhs; rw [hs]
  exact List.sublist_append_left _ _

end AlgoVerif.Lemmas.VoteTracker
