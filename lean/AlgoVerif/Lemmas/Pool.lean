/-
Lemmas about Model.Pool used by Props.C44: list bookkeeping (txCount / idsOf / insertIds), the case analysis of
`addEval`, the `Replay` relation (evaluating groups in order on a base state, `ResetTxnBytes` allowed in between) and what the
ledger hypotheses `LedgerOK` give along a replay.
-/
import AlgoVerif.Model.Pool
namespace AlgoVerif.Lemmas.Pool
open AlgoVerif.Model.Pool

set_option linter.unusedSectionVars false

variable {S τ ι : Type} [DecidableEq ι]

/-! ## counting -/

theorem txCount_nil : txCount ([] : List (List τ)) = 0 := rfl

theorem txCount_cons (g : List τ) (gs : List (List τ)) : txCount (g :: gs) = g.length + txCount gs := by
  simp [txCount]

theorem txCount_append (as bs : List (List τ)) : txCount (as ++ bs) = txCount as + txCount bs := by
  simp [txCount]

theorem txCount_snoc (gs : List (List τ)) (g : List τ) : txCount (gs ++ [g]) = txCount gs + g.length := by
  simp [txCount]

theorem txCount_eq_flatten (gs : List (List τ)) : txCount gs = gs.flatten.length := by
  induction gs with
  | nil => rfl
  | cons g gs ih => simp [txCount_cons, ih]

theorem idsOf_nil (V : View τ ι) : idsOf V ([] : List (List τ)) = [] := rfl

theorem idsOf_cons (V : View τ ι) (g : List τ) (gs : List (List τ)) : idsOf V (g :: gs) = g.map V.id ++ idsOf V gs := by
  simp [idsOf]

theorem idsOf_append (V : View τ ι) (as bs : List (List τ)) : idsOf V (as ++ bs) = idsOf V as ++ idsOf V bs := by
  simp [idsOf]

theorem idsOf_snoc (V : View τ ι) (gs : List (List τ)) (g : List τ) : idsOf V (gs ++ [g]) = idsOf V gs ++ g.map V.id := by
  simp [idsOf]

theorem idsOf_length (V : View τ ι) (gs : List (List τ)) : (idsOf V gs).length = txCount gs := by
  rw [idsOf, List.length_map, txCount_eq_flatten]

theorem mem_idsOf (V : View τ ι) (gs : List (List τ)) (x : ι) : x ∈ idsOf V gs ↔ ∃ g ∈ gs, ∃ t ∈ g, V.id t = x := by
  simp only [idsOf, List.mem_map, List.mem_flatten]
  constructor
  · rintro ⟨t, ⟨g, hg, ht⟩, rfl⟩; exact ⟨g, hg, t, ht, rfl⟩
  · rintro ⟨g, hg, t, ht, rfl⟩; exact ⟨t, ⟨g, hg, ht⟩, rfl⟩

/-- the part of a group that counts against the cap: a singleton state-proof group may be let through -/
def weight (V : View τ ι) (g : List τ) : Nat := if isSPSingle V g then 0 else g.length

def nonSpCount (V : View τ ι) (gs : List (List τ)) : Nat := (gs.map (weight V)).sum

theorem isSPSingle_length (V : View τ ι) (g : List τ) (h : isSPSingle V g = true) : g.length = 1 := by
  match g, h with
  | [_], _ => rfl

theorem weight_le (V : View τ ι) (g : List τ) : weight V g ≤ g.length := by
  unfold weight; split <;> omega

theorem nonSpCount_cons (V : View τ ι) (g : List τ) (gs : List (List τ)) : nonSpCount V (g :: gs) = weight V g + nonSpCount V gs := by
  simp [nonSpCount]

theorem nonSpCount_snoc (V : View τ ι) (gs : List (List τ)) (g : List τ) : nonSpCount V (gs ++ [g]) = nonSpCount V gs + weight V g := by
  simp [nonSpCount]

theorem spSingles_cons (V : View τ ι) (g : List τ) (gs : List (List τ)) :
    spSingles V (g :: gs) = (if isSPSingle V g then 1 else 0) + spSingles V gs := by
  unfold spSingles
  rw [List.filter_cons]
  split <;> simp <;> omega

/-- #transactions = those counted against the cap + the singleton state-proof groups -/
theorem txCount_split (V : View τ ι) (gs : List (List τ)) : txCount gs = nonSpCount V gs + spSingles V gs := by
  induction gs with
  | nil => rfl
  | cons g gs ih =>
    rw [txCount_cons, nonSpCount_cons, spSingles_cons, ih]
    unfold weight
    by_cases h : isSPSingle V g = true
    · have := isSPSingle_length V g h
      simp [h]; omega
    · simp [h]; omega

theorem nonSpCount_le_txCount (V : View τ ι) (gs : List (List τ)) : nonSpCount V gs ≤ txCount gs := by
  rw [txCount_split V]; omega

theorem nonSpCount_sublist (V : View τ ι) {as bs : List (List τ)} (h : as.Sublist bs) : nonSpCount V as ≤ nonSpCount V bs := by
  induction h with
  | slnil => exact Nat.le_refl _
  | cons g _ ih => rw [nonSpCount_cons]; omega
  | cons_cons g _ ih => rw [nonSpCount_cons, nonSpCount_cons]; omega

/-! ## the id set -/

theorem insertIds_nil (V : View τ ι) (ids : List ι) : insertIds V ids [] = ids := rfl

theorem insertIds_cons (V : View τ ι) (ids : List ι) (t : τ) (g : List τ) :
    insertIds V ids (t :: g) = insertIds V (ids.insert (V.id t)) g := rfl

theorem mem_insertIds (V : View τ ι) (g : List τ) : ∀ (ids : List ι) (x : ι), x ∈ insertIds V ids g ↔ x ∈ ids ∨ x ∈ g.map V.id := by
  induction g with
  | nil => intro ids x; simp [insertIds_nil]
  | cons t g ih =>
    intro ids x
    rw [insertIds_cons, ih, List.mem_insert_iff, List.map_cons, List.mem_cons]
    constructor
    · rintro ((h | h) | h)
      · exact Or.inr (Or.inl h)
      · exact Or.inl h
      · exact Or.inr (Or.inr h)
    · rintro (h | h | h)
      · exact Or.inl (Or.inr h)
      · exact Or.inl (Or.inl h)
      · exact Or.inr h

theorem length_insertIds (V : View τ ι) (g : List τ) : ∀ (ids : List ι), (∀ t ∈ g, V.id t ∉ ids) → (g.map V.id).Nodup →
    (insertIds V ids g).length = ids.length + g.length := by
  induction g with
  | nil => intro ids _ _; simp [insertIds_nil]
  | cons t g ih =>
    intro ids hfresh hnd
    rw [insertIds_cons]
    have ht : V.id t ∉ ids := hfresh t (List.mem_cons_self)
    rw [List.map_cons, List.nodup_cons] at hnd
    rw [ih]
    · rw [List.length_insert_of_not_mem ht, List.length_cons]; omega
    · intro u hu hmem
      rw [List.mem_insert_iff] at hmem
      rcases hmem with h | h
      · exact hnd.1 (h ▸ List.mem_map_of_mem hu)
      · exact hfresh u (List.mem_cons_of_mem _ hu) h
    · exact hnd.2

theorem mem_foldl_insertIds (V : View τ ι) (gs : List (List τ)) : ∀ (acc : List ι) (x : ι),
    x ∈ gs.foldl (insertIds V) acc ↔ x ∈ acc ∨ x ∈ idsOf V gs := by
  induction gs with
  | nil => intro acc x; simp [idsOf_nil]
  | cons g gs ih =>
    intro acc x
    rw [List.foldl_cons, ih, mem_insertIds, idsOf_cons, List.mem_append]
    constructor
    · rintro ((h | h) | h)
      · exact Or.inl h
      · exact Or.inr (Or.inl h)
      · exact Or.inr (Or.inr h)
    · rintro (h | h | h)
      · exact Or.inl (Or.inl h)
      · exact Or.inl (Or.inr h)
      · exact Or.inr h

theorem length_foldl_insertIds (V : View τ ι) (gs : List (List τ)) : ∀ (acc : List ι), (∀ x ∈ idsOf V gs, x ∉ acc) → (idsOf V gs).Nodup →
    (gs.foldl (insertIds V) acc).length = acc.length + txCount gs := by
  induction gs with
  | nil => intro acc _ _; simp [txCount_nil]
  | cons g gs ih =>
    intro acc hfresh hnd
    rw [idsOf_cons, List.nodup_append] at hnd
    rw [List.foldl_cons, ih, txCount_cons, length_insertIds]
    · omega
    · intro t ht; exact hfresh _ (by rw [idsOf_cons]; exact List.mem_append_left _ (List.mem_map_of_mem ht))
    · exact hnd.1
    · intro x hx hmem
      rw [mem_insertIds] at hmem
      rcases hmem with h | h
      · exact hfresh x (by rw [idsOf_cons]; exact List.mem_append_right _ hx) h
      · exact hnd.2.2 x h x hx rfl
    · exact hnd.2.1

/-! ## addEval -/

/-- the two ways `addToPendingBlockEvaluator` succeeds: directly, or after ErrNoSpace / ResetTxnBytes on the retry -/
def AddOk (V : View τ ι) (L : Ledger S τ) (round : Nat) (s : S) (w : Nat) (g : List τ) (s' : S) (w' : Nat) : Prop :=
  (deadAt V (round + w) g = false ∧ L.tryGroup s g = .ok s' ∧ w' = w) ∨
  (deadAt V (round + w) g = false ∧ L.tryGroup s g = .noSpace ∧ deadAt V (round + (w + 1)) g = false ∧
    L.tryGroup (L.resetBytes s) g = .ok s' ∧ w' = w + 1)

theorem addEval_ok (V : View τ ι) (L : Ledger S τ) (round : Nat) (s : S) (w : Nat) (g : List τ)
    (h : (addEval V L round s w g).2.2 = .ok) :
    AddOk V L round s w g (addEval V L round s w g).1 (addEval V L round s w g).2.1 := by
  by_cases hd : deadAt V (round + w) g = true
  · have e : addEval V L round s w g = (s, w, .dead) := by simp [addEval, hd]
    rw [e] at h; cases h
  · have hd' : deadAt V (round + w) g = false := by simpa using hd
    cases h1 : L.tryGroup s g with
    | ok s' =>
      have e : addEval V L round s w g = (s', w, .ok) := by simp [addEval, hd', h1]
      rw [e]; exact Or.inl ⟨hd', h1, rfl⟩
    | err c =>
      have e : addEval V L round s w g = (s, w, .err c) := by simp [addEval, hd', h1]
      rw [e] at h; cases h
    | noSpace =>
      by_cases hd2 : deadAt V (round + (w + 1)) g = true
      · have e : addEval V L round s w g = (L.resetBytes s, w + 1, .dead) := by simp [addEval, hd', h1, hd2]
        rw [e] at h; cases h
      · have hd2' : deadAt V (round + (w + 1)) g = false := by simpa using hd2
        cases h2 : L.tryGroup (L.resetBytes s) g with
        | ok s' =>
          have e : addEval V L round s w g = (s', w + 1, .ok) := by simp [addEval, hd', h1, hd2', h2]
          rw [e]; exact Or.inr ⟨hd', h1, hd2', h2, rfl⟩
        | err c =>
          have e : addEval V L round s w g = (L.resetBytes s, w + 1, .err c) := by simp [addEval, hd', h1, hd2', h2]
          rw [e] at h; cases h
        | noSpace =>
          have e : addEval V L round s w g = (L.resetBytes s, w + 1, .noSpace) := by simp [addEval, hd', h1, hd2', h2]
          rw [e] at h; cases h

theorem addEval_of_ok (V : View τ ι) (L : Ledger S τ) (round : Nat) (s : S) (w : Nat) (g : List τ) (s' : S) (w' : Nat)
    (h : AddOk V L round s w g s' w') : addEval V L round s w g = (s', w', .ok) := by
  unfold addEval
  rcases h with ⟨hd, h1, rfl⟩ | ⟨hd, h1, hd2, h2, rfl⟩
  · simp [hd, h1]
  · simp [hd, h1, hd2, h2]

/-- a failing `addToPendingBlockEvaluator` leaves the evaluator as it was, or reset once -/
theorem addEval_fail (V : View τ ι) (L : Ledger S τ) (round : Nat) (s : S) (w : Nat) (g : List τ)
    (h : (addEval V L round s w g).2.2 ≠ .ok) :
    ((addEval V L round s w g).1 = s ∧ (addEval V L round s w g).2.1 = w) ∨
    ((addEval V L round s w g).1 = L.resetBytes s ∧ (addEval V L round s w g).2.1 = w + 1) := by
  by_cases hd : deadAt V (round + w) g = true
  · have e : addEval V L round s w g = (s, w, .dead) := by simp [addEval, hd]
    rw [e]; exact Or.inl ⟨rfl, rfl⟩
  · have hd' : deadAt V (round + w) g = false := by simpa using hd
    cases h1 : L.tryGroup s g with
    | ok s' =>
      have e : addEval V L round s w g = (s', w, .ok) := by simp [addEval, hd', h1]
      rw [e] at h; exact absurd rfl h
    | err c =>
      have e : addEval V L round s w g = (s, w, .err c) := by simp [addEval, hd', h1]
      rw [e]; exact Or.inl ⟨rfl, rfl⟩
    | noSpace =>
      by_cases hd2 : deadAt V (round + (w + 1)) g = true
      · have e : addEval V L round s w g = (L.resetBytes s, w + 1, .dead) := by simp [addEval, hd', h1, hd2]
        rw [e]; exact Or.inr ⟨rfl, rfl⟩
      · have hd2' : deadAt V (round + (w + 1)) g = false := by simpa using hd2
        cases h2 : L.tryGroup (L.resetBytes s) g with
        | ok s' =>
          have e : addEval V L round s w g = (s', w + 1, .ok) := by simp [addEval, hd', h1, hd2', h2]
          rw [e] at h; exact absurd rfl h
        | err c =>
          have e : addEval V L round s w g = (L.resetBytes s, w + 1, .err c) := by simp [addEval, hd', h1, hd2', h2]
          rw [e]; exact Or.inr ⟨rfl, rfl⟩
        | noSpace =>
          have e : addEval V L round s w g = (L.resetBytes s, w + 1, .noSpace) := by simp [addEval, hd', h1, hd2', h2]
          rw [e]; exact Or.inr ⟨rfl, rfl⟩

theorem deadAt_false (V : View τ ι) (r : Nat) (g : List τ) (h : deadAt V r g = false) : ∀ t ∈ g, r ≤ V.lv t := by
  intro t ht
  unfold deadAt at h
  rw [List.any_eq_false] at h
  have := h t ht
  simpa using this

theorem addOk_alive (V : View τ ι) (L : Ledger S τ) (round : Nat) (s : S) (w : Nat) (g : List τ) (s' : S) (w' : Nat)
    (h : AddOk V L round s w g s' w') : ∀ t ∈ g, round ≤ V.lv t := by
  intro t ht
  rcases h with ⟨hd, _⟩ | ⟨hd, _⟩ <;> have := deadAt_false V _ g hd t ht <;> omega

/-! ## replaying the pending groups on the base -/

/-- `Replay L base gs s`: evaluating the groups `gs` in order on the evaluator state `base` succeeds and can end in `s`
(`ResetTxnBytes` may happen between — a new block is begun — and after the groups). -/
inductive Replay (L : Ledger S τ) (base : S) : List (List τ) → S → Prop
  | nil : Replay L base [] base
  | snoc {gs : List (List τ)} {s : S} {g : List τ} {s' : S} :
      Replay L base gs s → L.tryGroup s g = .ok s' → Replay L base (gs ++ [g]) s'
  | reset {gs : List (List τ)} {s : S} : Replay L base gs s → Replay L base gs (L.resetBytes s)

theorem Replay.addOk {V : View τ ι} {L : Ledger S τ} {base : S} {gs : List (List τ)} {s : S} {round w : Nat} {g : List τ} {s' : S} {w' : Nat}
    (hr : Replay L base gs s) (h : AddOk V L round s w g s' w') : Replay L base (gs ++ [g]) s' := by
  rcases h with ⟨_, h1, _⟩ | ⟨_, _, _, h2, _⟩
  · exact hr.snoc h1
  · exact hr.reset.snoc h2

theorem Replay.addEval_fail {V : View τ ι} {L : Ledger S τ} {base : S} {gs : List (List τ)} {s : S} {round w : Nat} {g : List τ}
    (hr : Replay L base gs s) (h : (addEval V L round s w g).2.2 ≠ .ok) : Replay L base gs (addEval V L round s w g).1 := by
  rcases Pool.addEval_fail V L round s w g h with ⟨h1, _⟩ | ⟨h1, _⟩
  · rw [h1]; exact hr
  · rw [h1]; exact hr.reset

/-- What the pool needs of the ledger for parts (a) and (c): `seen s x` = "the evaluator in state `s` would reject txid `x` as a
duplicate" (committed within its window, or accepted earlier by this evaluator).  An accepted group has fresh, pairwise
distinct txids, accepting records exactly them, `ResetTxnBytes` forgets nothing.
(`BlockEvaluator.transaction`: `cow.checkDup` before, `cow.addTx` after — see Model.TxTail / C11.) -/
structure LedgerOK (V : View τ ι) (L : Ledger S τ) (seen : S → ι → Prop) : Prop where
  fresh : ∀ {s : S} {g : List τ} {s' : S}, L.tryGroup s g = .ok s' → ∀ t ∈ g, ¬ seen s (V.id t)
  nodup : ∀ {s : S} {g : List τ} {s' : S}, L.tryGroup s g = .ok s' → (g.map V.id).Nodup
  record : ∀ {s : S} {g : List τ} {s' : S}, L.tryGroup s g = .ok s' → ∀ x, seen s' x ↔ (seen s x ∨ x ∈ g.map V.id)
  reset : ∀ (s : S) (x : ι), seen (L.resetBytes s) x ↔ seen s x

theorem replay_seen {V : View τ ι} {L : Ledger S τ} {seen : S → ι → Prop} (hL : LedgerOK V L seen) {base : S}
    {gs : List (List τ)} {s : S} (hr : Replay L base gs s) :
    (∀ x, seen s x ↔ (seen base x ∨ x ∈ idsOf V gs)) ∧ (idsOf V gs).Nodup ∧ (∀ x ∈ idsOf V gs, ¬ seen base x) := by
  induction hr with
  | nil => simp [idsOf_nil]
  | @snoc gs s g s' _ h1 ih =>
    obtain ⟨ihs, ihn, ihb⟩ := ih
    have hfresh := hL.fresh h1
    refine ⟨?_, ?_, ?_⟩
    · intro x
      rw [hL.record h1, ihs, idsOf_snoc, List.mem_append, or_assoc]
    · rw [idsOf_snoc, List.nodup_append]
      refine ⟨ihn, hL.nodup h1, ?_⟩
      intro a ha b hb hab
      subst hab
      rw [List.mem_map] at hb
      obtain ⟨t, ht, rfl⟩ := hb
      exact hfresh t ht ((ihs _).2 (Or.inr ha))
    · intro x hx
      rw [idsOf_snoc, List.mem_append] at hx
      rcases hx with hx | hx
      · exact ihb x hx
      · rw [List.mem_map] at hx
        obtain ⟨t, ht, rfl⟩ := hx
        intro hb
        exact hfresh t ht ((ihs _).2 (Or.inl hb))
  | @reset gs s _ ih =>
    obtain ⟨ihs, ihn, ihb⟩ := ih
    exact ⟨fun x => by rw [hL.reset, ihs], ihn, ihb⟩

end AlgoVerif.Lemmas.Pool
