import AlgoVerif.Lemmas.PlayerAttestStep
/-!
`attest_once` for PlayerM — the trace-level argument.

`snaps P σ es`: the state after every handled event of `es` and the attests that event emitted (oldest first; stops at the
first panic).  From the one-step discipline `HStep` (`PlayerAttestStep`):

* soft: after the soft vote of (r, p) Step ≥ cert as long as the player stays in (r, p), and (r, p) is never re-entered;
* next s (3 ≤ s < 253): after the vote Step = s with Napping = false; a second vote at Step s would need a nap at Step s,
  and a nap only starts by incrementing Step;
* cert, late: the value is the staged value of (r, p) at the time of the vote (`StagedIs`);
* redo: the value is the cached non-bottom next value of (r, p − 1) at the time of the vote (`CachedIs`);
* down: always bottom.

The value of cert / late / redo votes is stable only while the tree entries they read are; that is exactly what the two
*stability hypotheses* say (they are the concrete counterparts of the excuses `Conflict1` / `Conflict2` of the abstract rule
`RUnique` in `Spec.AgreementAbs`, which `Props.C01.staged_unique` / `next_values_unique` exclude globally under the quorum
hypothesis): `StagedStable` — a period's staged value is not overwritten by a different one (only a cert threshold of the
same period for another value than the soft threshold's can do that); `CachedStable` — the cached non-bottom next value of
the previous period is not overwritten by a different non-bottom one (only a second next threshold of that period for
another value can).  `NoOverflow` is the modelling bound "Step stays below `late` = 253 on the timeout path"
(`Model.Player` header: deadlines double with every next step).
-/
namespace AlgoVerif.Lemmas.PlayerAttest
open AlgoVerif.Model AlgoVerif.Model.Player AlgoVerif.Model.VoteTracker AlgoVerif.Spec.VoteTracker AlgoVerif.Lemmas.Player

/-! ### runs -/

/-- the state after every handled event and the attests it emitted, oldest first; stops at the first panic -/
def snaps (P : Params) : State → List Player.Event → List (State × List Attest)
  | _, [] => []
  | σ, e :: rest =>
    match Player.handle P σ e with
    | .error _ => []
    | .ok (σ', as) => (σ', atts as) :: snaps P σ' rest

/-- every event of the list meets `EventOKA` in the state it is delivered in (same shape as C03's `RunOK`) -/
def RunOKA (P : Params) : State → List Player.Event → Prop
  | _, [] => True
  | σ, e :: rest => EventOKA σ e ∧ ∀ σ' as, Player.handle P σ e = .ok (σ', as) → RunOKA P σ' rest

/-- the staged value of (r, p), if a soft/cert threshold wrote one -/
def stagedVal (root : Root) (r p : Nat) : Option Nat :=
  match viewAt root r p with
  | some vw => if vw.set then some vw.staging else none
  | none => none

/-- the cached next value of (r, p) while `Bottom` is unset -/
def cachedVal (root : Root) (r p : Nat) : Option Nat :=
  match viewAt root r p with
  | some vw => if vw.cached.bottom then none else some vw.cached.proposal
  | none => none

theorem stagedIs_iff {root : Root} {r p v : Nat} : StagedIs root r p v ↔ stagedVal root r p = some v := by
  unfold StagedIs stagedVal
  constructor
  · rintro ⟨vw, h1, h2, h3⟩
    simp [h1, h2, h3]
  · intro h
    cases hv : viewAt root r p with
    | none => rw [hv] at h; cases h
    | some vw =>
      rw [hv] at h
      simp only [] at h
      split at h
      · rename_i hset
        simp only [Option.some.injEq] at h
        exact ⟨vw, rfl, hset, h⟩
      · cases h

theorem cachedIs_iff {root : Root} {r p v : Nat} : CachedIs root r p v ↔ cachedVal root r p = some v := by
  unfold CachedIs cachedVal
  constructor
  · rintro ⟨vw, h1, h2, h3⟩
    simp [h1, h2, h3]
  · intro h
    cases hv : viewAt root r p with
    | none => rw [hv] at h; cases h
    | some vw =>
      rw [hv] at h
      simp only [] at h
      split at h
      · cases h
      · rename_i hb
        simp only [Option.some.injEq] at h
        exact ⟨vw, rfl, by simpa using hb, h⟩

/-- two optional values agree when both are present -/
def AgreeOpt (a b : Option Nat) : Prop := ∀ x y, a = some x → b = some y → x = y
/-- two optional values agree when both are present and non-bottom -/
def AgreeNZ (a b : Option Nat) : Prop := ∀ x y, a = some x → b = some y → x ≠ 0 → y ≠ 0 → x = y

instance (a b : Option Nat) : Decidable (AgreeOpt a b) :=
  match a, b with
  | some x, some y => if h : x = y then isTrue (by intro x' y' h1 h2; cases h1; cases h2; exact h)
                      else isFalse (fun hh => h (hh x y rfl rfl))
  | none, _ => isTrue (by intro x y h1; cases h1)
  | _, none => isTrue (by intro x y _ h2; cases h2)

instance (a b : Option Nat) : Decidable (AgreeNZ a b) :=
  match a, b with
  | some x, some y => if h : x = 0 ∨ y = 0 ∨ x = y then isTrue (by
                        intro x' y' h1 h2 hx hy; cases h1; cases h2
                        rcases h with h | h | h
                        · exact absurd h hx
                        · exact absurd h hy
                        · exact h)
                      else isFalse (fun hh => h (by
                        by_cases hx : x = 0
                        · exact Or.inl hx
                        · by_cases hy : y = 0
                          · exact Or.inr (Or.inl hy)
                          · exact Or.inr (Or.inr (hh x y rfl rfl hx hy))))
  | none, _ => isTrue (by intro x y h1; cases h1)
  | _, none => isTrue (by intro x y _ h2; cases h2)

abbrev Snap := State × List Attest

instance (a b : PlayerF) : Decidable (SamePer a b) := by unfold SamePer; infer_instance

/-- Step stays below `late` (the timeout path never reaches the fast-recovery step numbers) -/
def NoOverflow (l : List Snap) : Prop := ∀ x ∈ l, x.1.pl.step < 253

/-- while the player stays in (r, p), the staged value of (r, p) is not overwritten by a different one -/
def StagedAgree (x y : Snap) : Prop :=
  SamePer x.1.pl y.1.pl →
    AgreeOpt (stagedVal x.1.root x.1.pl.round x.1.pl.period) (stagedVal y.1.root x.1.pl.round x.1.pl.period)
def StagedStable (l : List Snap) : Prop := l.Pairwise StagedAgree

/-- while the player stays in (r, p), the non-bottom cached next value of (r, p − 1) is not overwritten by a different
non-bottom one -/
def CachedAgree (x y : Snap) : Prop :=
  SamePer x.1.pl y.1.pl →
    AgreeNZ (cachedVal x.1.root x.1.pl.round (predPeriod x.1.pl.period))
      (cachedVal y.1.root x.1.pl.round (predPeriod x.1.pl.period))
def CachedStable (l : List Snap) : Prop := l.Pairwise CachedAgree

instance (x y : Snap) : Decidable (StagedAgree x y) := by unfold StagedAgree; infer_instance
instance (x y : Snap) : Decidable (CachedAgree x y) := by unfold CachedAgree; infer_instance
instance (l : List Snap) : Decidable (NoOverflow l) := by unfold NoOverflow; infer_instance
instance (l : List Snap) : Decidable (StagedStable l) := by unfold StagedStable; infer_instance
instance (l : List Snap) : Decidable (CachedStable l) := by unfold CachedStable; infer_instance

variable {P : Params} {good : Nat → Nat → Nat → Vote → Bool} {G : Nat → Nat → PView → Prop}

/-! ### the state invariant -/

/-- the node-local invariant: C03's tree invariant, the view invariant `G`, and `Step ≥ soft`, `Napping → Step > next` -/
structure SInv (P : Params) (good : Nat → Nat → Nat → Vote → Bool) (G : Nat → Nat → PView → Prop) (σ : State) : Prop where
  q : QRoot P good σ.root
  g : GRoot G σ.root
  step : 1 ≤ σ.pl.step
  nap : σ.pl.napping = true → 4 ≤ σ.pl.step

theorem sinv_step (hs : GSpec P good G) (hset : ∀ r p vw, G r p vw → vw.staging ≠ 0 → vw.set = true)
    (hg : GoodSpec good) {σ σ' : State} {ev : Player.Event} {acts : List Action}
    (hI : SInv P good G σ) (hev : EventOK good σ ev) (heva : EventOKA σ ev)
    (h : Player.handle P σ ev = .ok (σ', acts)) : SInv P good G σ' ∧ HStep σ.pl σ' (atts acts) := by
  obtain ⟨q', _⟩ := handle_spec P good hg hI.q hev h
  obtain ⟨g', hst⟩ := handle_a hs hset hg hI.q hI.g hev heva hI.step hI.nap h
  refine ⟨⟨q', g', ?_, ?_⟩, hst⟩
  · by_cases hsp : SamePer σ.pl σ'.pl
    · exact Nat.le_trans hI.step (hst.mono hsp)
    · rw [(hst.reset hsp).1]; exact Nat.le_refl 1
  · intro hn
    obtain ⟨_, h1 | h1⟩ := hst.nap hn
    · rw [h1.2]; exact hI.nap h1.1
    · omega

/-! ### what an earlier state implies about every later attest -/

/-- constraint that the player fields `pl` of an earlier state put on a later attest `b` -/
def CFut (pl : PlayerF) (b : Attest) : Prop :=
  (pl.round < b.r ∨ (pl.round = b.r ∧ pl.period ≤ b.p)) ∧
  (b.r = pl.round → b.p = pl.period →
    (b.s = 1 → pl.step = 1) ∧ (b.s = 2 → pl.step ≤ 2) ∧
    (3 ≤ b.s → b.s < 253 → pl.step < b.s ∨ (pl.step = b.s ∧ pl.napping = true) ∨ (pl.step = 2 ∧ b.s = 3)))

/-- the attests of a snapshot: at most one, for the (Round, Period) of the snapshot's state, of one of the kinds -/
def AttOK (y : Snap) : Prop :=
  y.2 = [] ∨ ∃ b, y.2 = [b] ∧ b.r = y.1.pl.round ∧ b.p = y.1.pl.period ∧ ∃ pl₀, AttKind pl₀ y.1 b

theorem fastStep_cases (st a : Nat) : fastStep st a = st ∨ fastStep st a = 2 ∨ fastStep st a = 3 := by
  unfold fastStep
  repeat' split
  all_goals simp

theorem cfut_here {pl : PlayerF} {σ' : State} {bs : List Attest} {b : Attest} (hst : HStep pl σ' bs) (hb : b ∈ bs) :
    CFut pl b := by
  rcases hst.att with h0 | ⟨b', hb', hr, hp, hk⟩
  · rw [h0] at hb; cases hb
  rw [hb'] at hb
  simp only [List.mem_singleton] at hb
  subst hb
  refine ⟨?_, ?_⟩
  · rcases hst.lex with h | ⟨h1, h2⟩
    · exact Or.inl (hr ▸ h)
    · exact Or.inr ⟨hr ▸ h1, hp ▸ h2⟩
  · intro er ep
    have hsp : SamePer pl σ'.pl := ⟨by rw [← hr, er], by rw [← hp, ep]⟩
    have hm := hst.mono hsp
    rcases hk with ⟨h1, _, h3, _⟩ | ⟨h1, h2, _⟩ | ⟨h1, h2, _, _, h5⟩ | ⟨_, _, _, h4⟩
    · exact ⟨fun _ => h3, fun h => by omega, fun h => by omega⟩
    · exact ⟨fun h => by omega, fun _ => by omega, fun h => by omega⟩
    · refine ⟨fun h => by omega, fun h => by omega, fun _ _ => ?_⟩
      rcases h5 with ⟨h6, h7⟩ | ⟨h6, h7⟩
      · exact Or.inr (Or.inr ⟨h6, h7⟩)
      · exact Or.inr (Or.inl ⟨h7, h6⟩)
    · rcases h4 with ⟨h5, _⟩ | ⟨h5, _⟩ | ⟨h5, _⟩
      all_goals exact ⟨fun h => by omega, fun h => by omega, fun _ h => by omega⟩

theorem cfut_back {pl : PlayerF} {σ' : State} {bs : List Attest} {b : Attest} (h1 : 1 ≤ pl.step)
    (hst : HStep pl σ' bs) (hc : CFut σ'.pl b) : CFut pl b := by
  obtain ⟨hlex, hin⟩ := hc
  refine ⟨?_, ?_⟩
  · rcases hst.lex with h | ⟨ha, hb⟩ <;> rcases hlex with h' | ⟨ha', hb'⟩
    · exact Or.inl (Nat.lt_trans h h')
    · exact Or.inl (ha' ▸ h)
    · exact Or.inl (ha ▸ h')
    · exact Or.inr ⟨ha.trans ha', Nat.le_trans hb hb'⟩
  · intro er ep
    have hsp : SamePer pl σ'.pl := by
      rcases hst.lex with h | ⟨ha, hb⟩ <;> rcases hlex with h' | ⟨ha', hb'⟩
      · omega
      · omega
      · omega
      · exact ⟨ha, by omega⟩
    obtain ⟨c1, c2, c3⟩ := hin (by rw [er]; exact hsp.1) (by rw [ep]; exact hsp.2)
    have hm := hst.mono hsp
    refine ⟨fun h => by have := c1 h; omega, fun h => by have := c2 h; omega, fun h3 h253 => ?_⟩
    rcases c3 h3 h253 with c | ⟨c, cn⟩ | ⟨c, c'⟩
    · exact Or.inl (by omega)
    · obtain ⟨_, hn | hn⟩ := hst.nap cn
      · exact Or.inr (Or.inl ⟨by omega, hn.1⟩)
      · exact Or.inl (by omega)
    · by_cases h2 : pl.step = 2
      · exact Or.inr (Or.inr ⟨h2, c'⟩)
      · exact Or.inl (by omega)

theorem snaps_fut (hs : GSpec P good G) (hset : ∀ r p vw, G r p vw → vw.staging ≠ 0 → vw.set = true)
    (hg : GoodSpec good) : ∀ (es : List Player.Event) (σ : State), SInv P good G σ → RunOK P good σ es → RunOKA P σ es →
    ∀ y ∈ snaps P σ es, AttOK y ∧ ∀ b ∈ y.2, CFut σ.pl b := by
  intro es
  induction es with
  | nil => intro σ _ _ _ y hy; cases hy
  | cons e rest ih =>
    intro σ hI hr hra y hy
    simp only [snaps] at hy
    split at hy
    · cases hy
    rename_i σ' as hh
    obtain ⟨hI', hst⟩ := sinv_step hs hset hg hI hr.1 hra.1 hh
    rcases List.mem_cons.mp hy with rfl | hy
    · refine ⟨?_, fun b hb => cfut_here hst hb⟩
      rcases hst.att with h0 | ⟨b, hb, h1, h2, h3⟩
      · exact Or.inl h0
      · exact Or.inr ⟨b, hb, h1, h2, σ.pl, h3⟩
    · obtain ⟨a1, a2⟩ := ih σ' hI' (hr.2 _ _ hh) (hra.2 _ _ hh) y hy
      exact ⟨a1, fun b hb => cfut_back hI.step hst (a2 b hb)⟩

/-! ### one value per (round, period, step) -/

/-- attests of step `s` in two snapshots agree -/
def Once (s : Nat) (x y : Snap) : Prop :=
  ∀ a ∈ x.2, ∀ b ∈ y.2, a.r = b.r → a.p = b.p → a.s = s → b.s = s → a.v = b.v

/-- the hypotheses are only needed for the step kinds that read the corresponding data: the Step bound for `s ≥ next`,
staged-value stability for cert and late, cached-value stability for redo -/
theorem once_of (s : Nat) (x y : Snap) (hx : AttOK x) (hy : AttOK y) (hfut : ∀ b ∈ y.2, CFut x.1.pl b)
    (hox : 3 ≤ s → x.1.pl.step < 253) (hoy : 3 ≤ s → y.1.pl.step < 253)
    (hsa : s = 2 ∨ s = 253 → StagedAgree x y) (hca : s = 254 → CachedAgree x y) : Once s x y := by
  intro a ha b hb er ep es esb
  rcases hx with h0 | ⟨a', ha', har, hap, pla, hka⟩
  · rw [h0] at ha; cases ha
  rcases hy with h0 | ⟨b', hb', hbr, hbp, plb, hkb⟩
  · rw [h0] at hb; cases hb
  have hcf := hfut b hb
  rw [ha'] at ha; rw [hb'] at hb
  simp only [List.mem_singleton] at ha hb
  subst ha; subst hb
  have hsp : SamePer x.1.pl y.1.pl := ⟨by rw [← har, ← hbr, er], by rw [← hap, ← hbp, ep]⟩
  obtain ⟨_, hin⟩ := hcf
  obtain ⟨c1, c2, c3⟩ := hin (by rw [← er, har]) (by rw [← ep, hap])
  have stagedEq : (s = 2 ∨ s = 253) → StagedIs x.1.root a.r a.p a.v → StagedIs y.1.root b.r b.p b.v → a.v = b.v := by
    intro hs h1 h2
    rw [har, hap] at h1
    rw [← er, ← ep, har, hap] at h2
    exact hsa hs hsp _ _ (stagedIs_iff.mp h1) (stagedIs_iff.mp h2)
  rcases hka with ⟨k1, _, _, k4⟩ | ⟨k1, _, k3⟩ | ⟨k1, k2, _, k4, _⟩ | ⟨_, _, _, k4⟩
  · -- soft
    have := c1 (by omega)
    omega
  · -- cert
    rcases hkb with ⟨l1, _⟩ | ⟨_, _, l3⟩ | ⟨l1, _⟩ | ⟨_, _, _, l4⟩
    · omega
    · exact stagedEq (Or.inl (by omega)) k3 l3
    · omega
    · rcases l4 with ⟨l5, _⟩ | ⟨l5, _⟩ | ⟨l5, _⟩ <;> omega
  · -- next
    have hox' := hox (by omega)
    rcases c3 (by omega) (by omega) with c | ⟨_, c⟩ | ⟨c, _⟩
    · omega
    · rw [k4] at c; cases c
    · omega
  · -- fast recovery
    have h3 : 3 ≤ s := by rcases k4 with ⟨k5, _⟩ | ⟨k5, _⟩ | ⟨k5, _⟩ <;> omega
    have hoy' := hoy h3
    rcases hkb with ⟨l1, _⟩ | ⟨l1, _⟩ | ⟨_, l2, _⟩ | ⟨_, _, _, l4⟩
    · rcases k4 with ⟨k5, _⟩ | ⟨k5, _⟩ | ⟨k5, _⟩ <;> omega
    · rcases k4 with ⟨k5, _⟩ | ⟨k5, _⟩ | ⟨k5, _⟩ <;> omega
    · rcases k4 with ⟨k5, _⟩ | ⟨k5, _⟩ | ⟨k5, _⟩ <;> omega
    · rcases k4 with ⟨k5, k6⟩ | ⟨k5, k6, k7⟩ | ⟨k5, k6⟩ <;> rcases l4 with ⟨l5, l6⟩ | ⟨l5, l6, l7⟩ | ⟨l5, l6⟩
      all_goals first
        | omega
        | exact stagedEq (Or.inr (by omega)) k6 l6
        | skip
      · rw [har, hap] at k7
        rw [← er, ← ep, har, hap] at l7
        exact hca (by omega) hsp _ _ (cachedIs_iff.mp k7) (cachedIs_iff.mp l7) k6 l6

theorem snaps_once (hs : GSpec P good G) (hset : ∀ r p vw, G r p vw → vw.staging ≠ 0 → vw.set = true)
    (hg : GoodSpec good) (s : Nat) : ∀ (es : List Player.Event) (σ : State), SInv P good G σ → RunOK P good σ es →
    RunOKA P σ es → (3 ≤ s → NoOverflow (snaps P σ es)) → (s = 2 ∨ s = 253 → StagedStable (snaps P σ es)) →
    (s = 254 → CachedStable (snaps P σ es)) →
    (snaps P σ es).Pairwise (Once s) ∧ ∀ y ∈ snaps P σ es, AttOK y := by
  intro es
  induction es with
  | nil => intro σ _ _ _ _ _ _; exact ⟨List.Pairwise.nil, by intro y hy; cases hy⟩
  | cons e rest ih =>
    intro σ hI hr hra hno hss hcs
    have hfutσ := snaps_fut hs hset hg (e :: rest) σ hI hr hra
    simp only [snaps] at hno hss hcs hfutσ ⊢
    split
    · exact ⟨List.Pairwise.nil, by intro y hy; cases hy⟩
    rename_i σ' as hh
    rw [hh] at hno hss hcs hfutσ
    simp only [] at hno hss hcs hfutσ
    obtain ⟨hI', hst⟩ := sinv_step hs hset hg hI hr.1 hra.1 hh
    have hss' := fun h => List.pairwise_cons.mp (hss h)
    have hcs' := fun h => List.pairwise_cons.mp (hcs h)
    obtain ⟨ih1, ih2⟩ := ih σ' hI' (hr.2 _ _ hh) (hra.2 _ _ hh)
      (fun h x hx => hno h x (List.mem_cons_of_mem _ hx)) (fun h => (hss' h).2) (fun h => (hcs' h).2)
    have hfut' := snaps_fut hs hset hg rest σ' hI' (hr.2 _ _ hh) (hra.2 _ _ hh)
    have hx : AttOK (σ', atts as) := (hfutσ _ List.mem_cons_self).1
    refine ⟨List.pairwise_cons.mpr ⟨?_, ih1⟩, ?_⟩
    · intro y hy
      exact once_of s (σ', atts as) y hx (ih2 y hy) (hfut' y hy).2 (fun h => hno h _ List.mem_cons_self)
        (fun h => hno h y (List.mem_cons_of_mem _ hy)) (fun h => (hss' h).1 y hy) (fun h => (hcs' h).1 y hy)
    · intro y hy
      rcases List.mem_cons.mp hy with rfl | hy
      · exact hx
      · exact ih2 y hy

theorem pairwise_forall {α : Type} {R : α → α → Prop} (hsymm : ∀ x y, R x y → R y x) :
    ∀ (l : List α), (∀ x ∈ l, R x x) → l.Pairwise R → ∀ x ∈ l, ∀ y ∈ l, R x y := by
  intro l
  induction l with
  | nil => intro _ _ x hx; cases hx
  | cons a rest ih =>
    intro hrefl hp x hx y hy
    obtain ⟨h1, h2⟩ := List.pairwise_cons.mp hp
    rcases List.mem_cons.mp hx with hxa | hx' <;> rcases List.mem_cons.mp hy with hya | hy'
    · rw [hxa, hya]; exact hrefl _ List.mem_cons_self
    · rw [hxa]; exact h1 y hy'
    · rw [hya]; exact hsymm _ _ (h1 x hx')
    · exact ih (fun z hz => hrefl z (List.mem_cons_of_mem _ hz)) h2 x hx' y hy'

/-- all attests of a run, oldest first -/
def allAtts (P : Params) (σ : State) (es : List Player.Event) : List Attest := (snaps P σ es).flatMap (·.2)

/-- **attest_once, per step (general form)**: from any state satisfying the node invariant; each hypothesis is only
required for the steps whose votes read the corresponding data. -/
theorem attest_once_step (hs : GSpec P good G) (hset : ∀ r p vw, G r p vw → vw.staging ≠ 0 → vw.set = true)
    (hg : GoodSpec good) (s : Nat) (es : List Player.Event) (σ : State) (hI : SInv P good G σ) (hr : RunOK P good σ es)
    (hra : RunOKA P σ es) (hno : 3 ≤ s → NoOverflow (snaps P σ es)) (hss : s = 2 ∨ s = 253 → StagedStable (snaps P σ es))
    (hcs : s = 254 → CachedStable (snaps P σ es)) :
    ∀ a ∈ allAtts P σ es, ∀ b ∈ allAtts P σ es, a.r = b.r → a.p = b.p → a.s = s → b.s = s → a.v = b.v := by
  obtain ⟨hp, hatt⟩ := snaps_once hs hset hg s es σ hI hr hra hno hss hcs
  have hsymm : ∀ x y : Snap, Once s x y → Once s y x := by
    intro x y h a ha b hb er ep es' esb
    exact (h b hb a ha er.symm ep.symm esb es').symm
  have hrefl : ∀ x ∈ snaps P σ es, Once s x x := by
    intro x hx a ha b hb _ _ _ _
    rcases hatt x hx with h0 | ⟨c, hc, _⟩
    · rw [h0] at ha; cases ha
    · rw [hc] at ha hb
      simp only [List.mem_singleton] at ha hb
      rw [ha, hb]
  have hall := pairwise_forall hsymm _ hrefl hp
  intro a ha b hb
  obtain ⟨x, hx, hax⟩ := List.mem_flatMap.mp ha
  obtain ⟨y, hy, hby⟩ := List.mem_flatMap.mp hb
  exact hall x hx y hy a hax b hby

/-- every attest of a run is for the (Round, Period) the player is in after the `handle` that emitted it, and there is at
most one per `handle` -/
theorem attests_in_period (hs : GSpec P good G) (hset : ∀ r p vw, G r p vw → vw.staging ≠ 0 → vw.set = true)
    (hg : GoodSpec good) (es : List Player.Event) (σ : State) (hI : SInv P good G σ) (hr : RunOK P good σ es)
    (hra : RunOKA P σ es) : ∀ y ∈ snaps P σ es, AttOK y :=
  fun y hy => (snaps_fut hs hset hg es σ hI hr hra y hy).1

/-! ### the order of the steps inside a period (abstract rules `RBeforeNext`, `RCertAfterNext`) -/

/-- generic: a relation that follows from the snapshot facts and a pairwise hypothesis holds pairwise along the run -/
theorem snaps_pairwise (hs : GSpec P good G) (hset : ∀ r p vw, G r p vw → vw.staging ≠ 0 → vw.set = true)
    (hg : GoodSpec good) {H R : Snap → Snap → Prop}
    (hR : ∀ x y, AttOK x → AttOK y → (∀ b ∈ y.2, CFut x.1.pl b) → H x y → R x y) :
    ∀ (es : List Player.Event) (σ : State), SInv P good G σ → RunOK P good σ es → RunOKA P σ es →
    (snaps P σ es).Pairwise H → (snaps P σ es).Pairwise R := by
  intro es
  induction es with
  | nil => intro σ _ _ _ _; exact List.Pairwise.nil
  | cons e rest ih =>
    intro σ hI hr hra hH
    have hfutσ := snaps_fut hs hset hg (e :: rest) σ hI hr hra
    simp only [snaps] at hH hfutσ ⊢
    split
    · exact List.Pairwise.nil
    rename_i σ' as hh
    rw [hh] at hH hfutσ
    simp only [] at hH hfutσ
    obtain ⟨hI', _⟩ := sinv_step hs hset hg hI hr.1 hra.1 hh
    obtain ⟨hH1, hH2⟩ := List.pairwise_cons.mp hH
    have hfut' := snaps_fut hs hset hg rest σ' hI' (hr.2 _ _ hh) (hra.2 _ _ hh)
    refine List.pairwise_cons.mpr ⟨?_, ih σ' hI' (hr.2 _ _ hh) (hra.2 _ _ hh) hH2⟩
    intro y hy
    exact hR _ y (hfutσ _ List.mem_cons_self).1 (hfut' y hy).1 (hfut' y hy).2 (hH1 y hy)

/-- after a next-type vote (next s, late, redo, down) of a period: no soft vote of that period, and a cert vote of that
period carries the same value (only a `late` vote can precede a cert vote) -/
def Ordered (x y : Snap) : Prop :=
  ∀ a ∈ x.2, ∀ b ∈ y.2, a.r = b.r → a.p = b.p → 3 ≤ a.s → b.s ≠ 1 ∧ (b.s = 2 → a.v = b.v)

theorem ordered_of (x y : Snap) (hx : AttOK x) (hy : AttOK y) (hfut : ∀ b ∈ y.2, CFut x.1.pl b)
    (hh : x.1.pl.step < 253 ∧ StagedAgree x y) : Ordered x y := by
  obtain ⟨hox, hsa⟩ := hh
  intro a ha b hb er ep h3
  rcases hx with h0 | ⟨a', ha', har, hap, pla, hka⟩
  · rw [h0] at ha; cases ha
  rcases hy with h0 | ⟨b', hb', hbr, hbp, plb, hkb⟩
  · rw [h0] at hb; cases hb
  have hcf := hfut b hb
  rw [ha'] at ha; rw [hb'] at hb
  simp only [List.mem_singleton] at ha hb
  subst ha; subst hb
  have hsp : SamePer x.1.pl y.1.pl := ⟨by rw [← har, ← hbr, er], by rw [← hap, ← hbp, ep]⟩
  obtain ⟨_, hin⟩ := hcf
  obtain ⟨c1, c2, _⟩ := hin (by rw [← er, har]) (by rw [← ep, hap])
  rcases hka with ⟨k1, _⟩ | ⟨k1, _⟩ | ⟨_, k2, _⟩ | ⟨_, _, k3, k4⟩
  · omega
  · omega
  · exact ⟨fun h => by have := c1 h; omega, fun h => by have := c2 h; omega⟩
  · have hfs : (a.s = 253 → 2 ≤ x.1.pl.step) ∧ (a.s ≠ 253 → 3 ≤ x.1.pl.step) := by
      rw [k3]; unfold fastStep
      constructor <;> intro h <;> (repeat' split) <;> omega
    rcases k4 with ⟨k5, k6⟩ | ⟨k5, _⟩ | ⟨k5, _⟩
    · refine ⟨fun h => by have := c1 h; have := hfs.1 k5; omega, fun h => ?_⟩
      rcases hkb with ⟨l1, _⟩ | ⟨_, _, l3⟩ | ⟨l1, _⟩ | ⟨_, _, _, l4⟩
      · omega
      · rw [har, hap] at k6
        rw [← er, ← ep, har, hap] at l3
        exact hsa hsp _ _ (stagedIs_iff.mp k6) (stagedIs_iff.mp l3)
      · omega
      · rcases l4 with ⟨l5, _⟩ | ⟨l5, _⟩ | ⟨l5, _⟩ <;> omega
    · exact ⟨fun h => by have := c1 h; have := hfs.2 (by omega); omega, fun h => by have := c2 h; have := hfs.2 (by omega); omega⟩
    · exact ⟨fun h => by have := c1 h; have := hfs.2 (by omega); omega, fun h => by have := c2 h; have := hfs.2 (by omega); omega⟩

theorem pairwise_and_left {α : Type} {A : α → Prop} {B : α → α → Prop} : ∀ (l : List α), (∀ x ∈ l, A x) → l.Pairwise B →
    l.Pairwise (fun x y => A x ∧ B x y) := by
  intro l
  induction l with
  | nil => intro _ _; exact List.Pairwise.nil
  | cons a rest ih =>
    intro hA hB
    obtain ⟨h1, h2⟩ := List.pairwise_cons.mp hB
    exact List.pairwise_cons.mpr ⟨fun y hy => ⟨hA a List.mem_cons_self, h1 y hy⟩,
      ih (fun x hx => hA x (List.mem_cons_of_mem _ hx)) h2⟩

theorem snaps_ordered (hs : GSpec P good G) (hset : ∀ r p vw, G r p vw → vw.staging ≠ 0 → vw.set = true)
    (hg : GoodSpec good) (es : List Player.Event) (σ : State) (hI : SInv P good G σ) (hr : RunOK P good σ es)
    (hra : RunOKA P σ es) (hno : NoOverflow (snaps P σ es)) (hss : StagedStable (snaps P σ es)) :
    (snaps P σ es).Pairwise Ordered :=
  snaps_pairwise hs hset hg ordered_of es σ hI hr hra (pairwise_and_left _ hno hss)

/-! ### flat forms, and the invariant at every snapshot -/

theorem snaps_inv (hs : GSpec P good G) (hset : ∀ r p vw, G r p vw → vw.staging ≠ 0 → vw.set = true)
    (hg : GoodSpec good) : ∀ (es : List Player.Event) (σ : State), SInv P good G σ → RunOK P good σ es → RunOKA P σ es →
    ∀ y ∈ snaps P σ es, SInv P good G y.1 := by
  intro es
  induction es with
  | nil => intro σ _ _ _ y hy; cases hy
  | cons e rest ih =>
    intro σ hI hr hra y hy
    simp only [snaps] at hy
    split at hy
    · cases hy
    rename_i σ' as hh
    obtain ⟨hI', _⟩ := sinv_step hs hset hg hI hr.1 hra.1 hh
    rcases List.mem_cons.mp hy with rfl | hy
    · exact hI'
    · exact ih σ' hI' (hr.2 _ _ hh) (hra.2 _ _ hh) y hy

/-- `Ordered` on single attests: `a` earlier than `b` -/
def OrdA (a b : Attest) : Prop := a.r = b.r → a.p = b.p → 3 ≤ a.s → b.s ≠ 1 ∧ (b.s = 2 → a.v = b.v)

theorem attOK_pairwise {y : Snap} (h : AttOK y) (R : Attest → Attest → Prop) : y.2.Pairwise R := by
  rcases h with h0 | ⟨b, hb, _⟩
  · rw [h0]; exact List.Pairwise.nil
  · rw [hb]; exact List.pairwise_singleton R b

theorem allAtts_ordered (hs : GSpec P good G) (hset : ∀ r p vw, G r p vw → vw.staging ≠ 0 → vw.set = true)
    (hg : GoodSpec good) (es : List Player.Event) (σ : State) (hI : SInv P good G σ) (hr : RunOK P good σ es)
    (hra : RunOKA P σ es) (hno : NoOverflow (snaps P σ es)) (hss : StagedStable (snaps P σ es)) :
    (allAtts P σ es).Pairwise OrdA := by
  unfold allAtts
  rw [List.pairwise_flatMap]
  exact ⟨fun y hy => attOK_pairwise (attests_in_period hs hset hg es σ hI hr hra y hy) _,
    snaps_ordered hs hset hg es σ hI hr hra hno hss⟩

theorem allAtts_step_pos (hs : GSpec P good G) (hset : ∀ r p vw, G r p vw → vw.staging ≠ 0 → vw.set = true)
    (hg : GoodSpec good) (es : List Player.Event) (σ : State) (hI : SInv P good G σ) (hr : RunOK P good σ es)
    (hra : RunOKA P σ es) : ∀ b ∈ allAtts P σ es, 1 ≤ b.s := by
  intro b hb
  obtain ⟨y, hy, hby⟩ := List.mem_flatMap.mp hb
  rcases attests_in_period hs hset hg es σ hI hr hra y hy with h0 | ⟨b', hb', _, _, pl, hk⟩
  · rw [h0] at hby; cases hby
  · rw [hb'] at hby
    simp only [List.mem_singleton] at hby
    subst hby
    rcases hk with ⟨k, _⟩ | ⟨k, _⟩ | ⟨k, _⟩ | ⟨_, _, _, k⟩
    · omega
    · omega
    · omega
    · rcases k with ⟨k, _⟩ | ⟨k, _⟩ | ⟨k, _⟩ <;> omega

theorem G_of_viewAt {root : Root} {r p : Nat} {vw : PView} (hG : GRoot G root) (h : viewAt root r p = some vw) :
    G r p vw := by
  unfold viewAt at h
  cases hr : aget root.rounds r with
  | none => rw [hr] at h; cases h
  | some rr =>
    rw [hr] at h
    simp only [Option.bind_some] at h
    cases hp : aget rr.periods p with
    | none => rw [hp] at h; cases h
    | some pr =>
      rw [hp] at h
      simp only [Option.map_some, Option.some.injEq] at h
      subst h
      exact G_of_PAt hG ⟨rr, hr, hp⟩

/-! ### next-type votes after the own cert vote (abstract rule `RNextOwnCert`) -/

/-- `Period + 1 < 2^64` in every reached state (the model wraps periods only in `predPeriod` and the GC test) -/
def PeriodsFit (l : List Snap) : Prop := ∀ x ∈ l, x.1.pl.period + 1 < 18446744073709551616

/-- `b` holds whatever `a` holds -/
def AgreeKeep (a b : Option Nat) : Prop := ∀ v, a = some v → b = some v

instance (a b : Option Nat) : Decidable (AgreeKeep a b) :=
  match a with
  | some v => if h : b = some v then isTrue (by intro v' h'; cases h'; exact h)
              else isFalse (fun hh => h (hh v rfl))
  | none => isTrue (by intro v h; cases h)

/-- while the player stays in (r, p), a committable value of (r, p) stays committable: the assembler of the staged value
survives every `proposalStore.trim` -/
def CommAgree (x y : Snap) : Prop :=
  SamePer x.1.pl y.1.pl →
    AgreeKeep (commVal x.1.root x.1.pl.round x.1.pl.period) (commVal y.1.root x.1.pl.round x.1.pl.period)
def CommStable (l : List Snap) : Prop := l.Pairwise CommAgree

instance (x y : Snap) : Decidable (CommAgree x y) := by unfold CommAgree; infer_instance
instance (l : List Snap) : Decidable (PeriodsFit l) := by unfold PeriodsFit; infer_instance
instance (l : List Snap) : Decidable (CommStable l) := by unfold CommStable; infer_instance

theorem snaps_comm (hs : GSpec P good G) (hset : ∀ r p vw, G r p vw → vw.staging ≠ 0 → vw.set = true)
    (hg : GoodSpec good) : ∀ (es : List Player.Event) (σ : State), SInv P good G σ → RunOK P good σ es → RunOKA P σ es →
    σ.pl.period + 1 < 18446744073709551616 → PeriodsFit (snaps P σ es) →
    ∀ y ∈ snaps P σ es, ∀ b ∈ y.2, CommFact y.1 b := by
  intro es
  induction es with
  | nil => intro σ _ _ _ _ _ y hy; cases hy
  | cons e rest ih =>
    intro σ hI hr hra hfit hpf y hy
    simp only [snaps] at hy hpf
    split at hy
    · cases hy
    rename_i σ' as hh
    rw [hh] at hpf
    simp only [] at hpf
    obtain ⟨hI', hst⟩ := sinv_step hs hset hg hI hr.1 hra.1 hh
    rcases List.mem_cons.mp hy with rfl | hy
    · exact hst.comm hfit
    · exact ih σ' hI' (hr.2 _ _ hh) (hra.2 _ _ hh) (hpf _ List.mem_cons_self)
        (fun x hx => hpf x (List.mem_cons_of_mem _ hx)) y hy

/-- a next-type vote after the own cert vote of the same period carries its value -/
def NextAfterCert (x y : Snap) : Prop :=
  ∀ a ∈ x.2, ∀ b ∈ y.2, a.r = b.r → a.p = b.p → a.s = 2 → 3 ≤ b.s → a.v = b.v

theorem nextAfterCert_of (x y : Snap) (hx : AttOK x) (hy : AttOK y) (_hfut : ∀ b ∈ y.2, CFut x.1.pl b)
    (hh : (∀ a ∈ x.2, CommFact x.1 a) ∧ (∀ b ∈ y.2, CommFact y.1 b) ∧ CommAgree x y) : NextAfterCert x y := by
  obtain ⟨hcx, hcy, hca⟩ := hh
  intro a ha b hb er ep h2 h3
  have fa := (hcx a ha).1 h2
  have fb := (hcy b hb).2 h3
  rcases hx with h0 | ⟨a', ha', har, hap, _⟩
  · rw [h0] at ha; cases ha
  rcases hy with h0 | ⟨b', hb', hbr, hbp, _⟩
  · rw [h0] at hb; cases hb
  rw [ha'] at ha; rw [hb'] at hb
  simp only [List.mem_singleton] at ha hb
  subst ha; subst hb
  have hsp : SamePer x.1.pl y.1.pl := ⟨by rw [← har, ← hbr, er], by rw [← hap, ← hbp, ep]⟩
  rw [har, hap] at fa
  rw [← er, ← ep, har, hap] at fb
  have := hca hsp a.v fa
  rcases fb with fb | fb
  · rw [this] at fb
    simpa using fb
  · rw [this] at fb; cases fb

theorem pairwise_and_both {α : Type} {A : α → Prop} {B : α → α → Prop} : ∀ (l : List α), (∀ x ∈ l, A x) → l.Pairwise B →
    l.Pairwise (fun x y => A x ∧ A y ∧ B x y) := by
  intro l
  induction l with
  | nil => intro _ _; exact List.Pairwise.nil
  | cons a rest ih =>
    intro hA hB
    obtain ⟨h1, h2⟩ := List.pairwise_cons.mp hB
    exact List.pairwise_cons.mpr ⟨fun y hy => ⟨hA a List.mem_cons_self, hA y (List.mem_cons_of_mem _ hy), h1 y hy⟩,
      ih (fun x hx => hA x (List.mem_cons_of_mem _ hx)) h2⟩

/-- `NextAfterCert` on single attests: `a` earlier than `b` -/
def NacA (a b : Attest) : Prop := a.r = b.r → a.p = b.p → a.s = 2 → 3 ≤ b.s → a.v = b.v

theorem allAtts_nextAfterCert (hs : GSpec P good G) (hset : ∀ r p vw, G r p vw → vw.staging ≠ 0 → vw.set = true)
    (hg : GoodSpec good) (es : List Player.Event) (σ : State) (hI : SInv P good G σ) (hr : RunOK P good σ es)
    (hra : RunOKA P σ es) (hfit : σ.pl.period + 1 < 18446744073709551616) (hpf : PeriodsFit (snaps P σ es))
    (hcs : CommStable (snaps P σ es)) : (allAtts P σ es).Pairwise NacA := by
  unfold allAtts
  rw [List.pairwise_flatMap]
  refine ⟨fun y hy => attOK_pairwise (attests_in_period hs hset hg es σ hI hr hra y hy) _, ?_⟩
  exact snaps_pairwise hs hset hg nextAfterCert_of es σ hI hr hra
    (pairwise_and_both (A := fun y : Snap => ∀ b ∈ y.2, CommFact y.1 b) _
      (snaps_comm hs hset hg es σ hI hr hra hfit hpf) hcs)

/-! ### the values read for soft / next / down votes -/

theorem snaps_val (hs : GSpec P good G) (hset : ∀ r p vw, G r p vw → vw.staging ≠ 0 → vw.set = true)
    (hg : GoodSpec good) : ∀ (es : List Player.Event) (σ : State), SInv P good G σ → RunOK P good σ es → RunOKA P σ es →
    NoOverflow (snaps P σ es) → ∀ y ∈ snaps P σ es, ∀ b ∈ y.2, ValFact y.1 b := by
  intro es
  induction es with
  | nil => intro σ _ _ _ _ y hy; cases hy
  | cons e rest ih =>
    intro σ hI hr hra hno y hy
    simp only [snaps] at hy hno
    split at hy
    · cases hy
    rename_i σ' as hh
    rw [hh] at hno
    simp only [] at hno
    obtain ⟨hI', hst⟩ := sinv_step hs hset hg hI hr.1 hra.1 hh
    rcases List.mem_cons.mp hy with rfl | hy
    · exact hst.val (hno _ List.mem_cons_self)
    · exact ih σ' hI' (hr.2 _ _ hh) (hra.2 _ _ hh) (fun x hx => hno x (List.mem_cons_of_mem _ hx)) y hy

end AlgoVerif.Lemmas.PlayerAttest
