/-
Helper lemmas for C04 about `Model.Bundle`: the threshold switch, the duplicate-detection loop, the two
result-summing loops.  Everything is by induction over arbitrary lists (no bounds).
-/
import AlgoVerif.Model.Bundle
namespace AlgoVerif.Lemmas.Bundle
open AlgoVerif.Model.Bundle

variable {Cred Sig : Type}

/-! ### step.reachesQuorum against step.threshold -/

theorem reachesQuorum_iff (p : Params) (s w : Nat) :
    reachesQuorum p s w = true ↔ s ≠ 0 ∧ threshold p s ≤ w := by
  unfold reachesQuorum threshold
  by_cases h0 : s = 0
  · simp [h0]
  by_cases h1 : s = 1
  · simp [h1]
  by_cases h2 : s = 2
  · simp [h2]
  by_cases h3 : s = 253
  · simp [h3]
  by_cases h4 : s = 254
  · simp [h4]
  by_cases h5 : s = 255
  · simp [h5]
  simp [h0, h1, h2, h3, h4, h5]

/-! ### the duplicate loop -/

/-- the loop succeeds exactly when the new keys are pairwise distinct and none was set before; it then returns
all keys -/
theorem dupLoop_eq_some (l voters res : List Nat) :
    dupLoop l voters = some res ↔ l.Nodup ∧ (∀ x ∈ l, x ∉ voters) ∧ res = l.reverse ++ voters := by
  induction l generalizing voters with
  | nil => simp [dupLoop, eq_comm]
  | cons s rest ih =>
    unfold dupLoop
    by_cases hs : voters.contains s = true
    · rw [if_pos hs]
      have : s ∈ voters := List.contains_iff_mem.mp hs
      constructor
      · intro h; cases h
      · rintro ⟨_, h2, _⟩; exact absurd this (h2 s (List.mem_cons_self))
    · rw [if_neg hs, ih]
      have hs' : s ∉ voters := fun h => hs (List.contains_iff_mem.mpr h)
      constructor
      · rintro ⟨hnd, hnot, hres⟩
        refine ⟨List.nodup_cons.mpr ⟨fun hmem => hnot s hmem (List.mem_cons_self), hnd⟩, ?_, ?_⟩
        · intro x hx
          rcases List.mem_cons.mp hx with rfl | hx
          · exact hs'
          · exact fun hv => hnot x hx (List.mem_cons_of_mem _ hv)
        · rw [hres]; simp
      · rintro ⟨hnd, hnot, hres⟩
        have ⟨hsr, hnd'⟩ := List.nodup_cons.mp hnd
        refine ⟨hnd', ?_, ?_⟩
        · intro x hx hv
          rcases List.mem_cons.mp hv with rfl | hv
          · exact hsr hx
          · exact hnot x (List.mem_cons_of_mem _ hx) hv
        · rw [hres]; simp

theorem dupLoop_eq_none (l voters : List Nat) :
    dupLoop l voters = none ↔ ¬ (l.Nodup ∧ ∀ x ∈ l, x ∉ voters) := by
  constructor
  · intro h hc
    have := (dupLoop_eq_some l voters (l.reverse ++ voters)).mpr ⟨hc.1, hc.2, rfl⟩
    rw [h] at this; cases this
  · intro h
    cases hd : dupLoop l voters with
    | none => rfl
    | some res =>
      have := (dupLoop_eq_some l voters res).mp hd
      exact absurd ⟨this.1, this.2.1⟩ h

/-- both duplicate loops of `verifyAsync` succeed iff the senders of votes and equivocation votes together are
pairwise distinct -/
theorem dupLoops_iff (vs es : List Nat) :
    (∃ voters, dupLoop vs [] = some voters ∧ ∃ voters', dupLoop es voters = some voters') ↔ (vs ++ es).Nodup := by
  constructor
  · rintro ⟨voters, h1, voters', h2⟩
    obtain ⟨hv, _, rfl⟩ := (dupLoop_eq_some _ _ _).mp h1
    obtain ⟨he, hne, _⟩ := (dupLoop_eq_some _ _ _).mp h2
    refine List.nodup_append.mpr ⟨hv, he, ?_⟩
    intro a ha b hb hab
    subst hab
    exact hne a hb (by simp [ha])
  · intro h
    obtain ⟨hv, he, hd⟩ := List.nodup_append.mp h
    refine ⟨vs.reverse ++ [], (dupLoop_eq_some _ _ _).mpr ⟨hv, by simp, rfl⟩, _,
      (dupLoop_eq_some _ _ _).mpr ⟨he, ?_, rfl⟩⟩
    intro x hx hmem
    have : x ∈ vs := by simpa using hmem
    exact hd x this x hx rfl

end AlgoVerif.Lemmas.Bundle
