import AlgoVerif.Lemmas.VpackStateless
/-! Stateless layer, key loops of `parseMsgpVote` on the canonical layout (case scripts generated, checked by the kernel). -/
set_option linter.unusedSimpArgs false
namespace AlgoVerif.Lemmas.Vpack
open AlgoVerif.Model.Vpack AlgoVerif.Spec.Vpack

theorem bin_append (k v rest : Bytes) : bin k v ++ rest = fixstr k ++ ([0xc4, UInt8.ofNat v.length] ++ (v ++ rest)) := by
  simp only [bin, List.append_assoc]
theorem uintField_append (k : Bytes) (v : Nat) (rest : Bytes) : uintField k v ++ rest = fixstr k ++ (appendUint64 v ++ rest) := by
  simp only [uintField, List.append_assoc]

/-- distinctness of the keys the two loops dispatch on -/
theorem key_ne : kEncdig ≠ kDig ∧ kOper ≠ kDig ∧ kOper ≠ kEncdig ∧ kOprop ≠ kDig ∧ kOprop ≠ kEncdig ∧ kOprop ≠ kOper ∧
    kProp ≠ kPer ∧ kRnd ≠ kPer ∧ kRnd ≠ kProp ∧ kSnd ≠ kPer ∧ kSnd ≠ kProp ∧ kSnd ≠ kRnd ∧
    kStep ≠ kPer ∧ kStep ≠ kProp ∧ kStep ≠ kRnd ∧ kStep ≠ kSnd := by decide


theorem propLoop_dig (n : Nat) (prev : Option Bytes) (v rest out : Bytes) (mask : UInt8) (req : Nat)
    (ho : keyOrderOk prev kDig = true) (hv : v.length = 32) :
    propLoop (n + 1) prev { rem := bin kDig v ++ rest, out := out, mask := mask, req := req } =
      propLoop n (some kDig) { rem := rest, out := out ++ v, mask := mask ||| bitDig, req := req } := by
  rw [propLoop, bin_append, readString_key kDig _ out mask req (by decide)]
  simp only [ho, Bool.not_true, Bool.false_eq_true, if_false, if_true]
  rw [binOpt_item bitDig v rest out mask req hv]


theorem propLoop_encdig (n : Nat) (prev : Option Bytes) (v rest out : Bytes) (mask : UInt8) (req : Nat)
    (ho : keyOrderOk prev kEncdig = true) (hv : v.length = 32) :
    propLoop (n + 1) prev { rem := bin kEncdig v ++ rest, out := out, mask := mask, req := req } =
      propLoop n (some kEncdig) { rem := rest, out := out ++ v, mask := mask ||| bitEncDig, req := req } := by
  obtain ⟨h1, _⟩ := key_ne
  rw [propLoop, bin_append, readString_key kEncdig _ out mask req (by decide)]
  simp only [ho, Bool.not_true, Bool.false_eq_true, if_false, if_true, h1]
  rw [binOpt_item bitEncDig v rest out mask req hv]


theorem propLoop_oper (n : Nat) (prev : Option Bytes) (x : Nat) (rest out : Bytes) (mask : UInt8) (req : Nat)
    (ho : keyOrderOk prev kOper = true) (hx : x < M64) :
    propLoop (n + 1) prev { rem := uintField kOper x ++ rest, out := out, mask := mask, req := req } =
      propLoop n (some kOper) { rem := rest, out := out ++ appendUint64 x, mask := mask ||| bitOper, req := req } := by
  obtain ⟨_, h2, h3, _⟩ := key_ne
  rw [propLoop, uintField_append, readString_key kOper _ out mask req (by decide)]
  simp only [ho, Bool.not_true, Bool.false_eq_true, if_false, if_true, h2, h3]
  rw [uintOpt_item bitOper x rest out mask req hx]


theorem propLoop_oprop (n : Nat) (prev : Option Bytes) (v rest out : Bytes) (mask : UInt8) (req : Nat)
    (ho : keyOrderOk prev kOprop = true) (hv : v.length = 32) :
    propLoop (n + 1) prev { rem := bin kOprop v ++ rest, out := out, mask := mask, req := req } =
      propLoop n (some kOprop) { rem := rest, out := out ++ v, mask := mask ||| bitOprop, req := req } := by
  obtain ⟨_, _, _, h4, h5, h6, _⟩ := key_ne
  rw [propLoop, bin_append, readString_key kOprop _ out mask req (by decide)]
  simp only [ho, Bool.not_true, Bool.false_eq_true, if_false, if_true, h4, h5, h6]
  rw [binOpt_item bitOprop v rest out mask req hv]


theorem rawLoop_per (n : Nat) (prev : Option Bytes) (x : Nat) (rest out : Bytes) (mask : UInt8) (req : Nat)
    (ho : keyOrderOk prev kPer = true) (hx : x < M64) :
    rawLoop (n + 1) prev { rem := uintField kPer x ++ rest, out := out, mask := mask, req := req } =
      rawLoop n (some kPer) { rem := rest, out := out ++ appendUint64 x, mask := mask ||| bitPer, req := req } := by
  rw [rawLoop, uintField_append, readString_key kPer _ out mask req (by decide)]
  simp only [ho, Bool.not_true, Bool.false_eq_true, if_false, if_true]
  rw [uintOpt_item bitPer x rest out mask req hx]


theorem rawLoop_rnd (n : Nat) (prev : Option Bytes) (x : Nat) (rest out : Bytes) (mask : UInt8) (req : Nat)
    (ho : keyOrderOk prev kRnd = true) (hx : x < M64) :
    rawLoop (n + 1) prev { rem := uintField kRnd x ++ rest, out := out, mask := mask, req := req } =
      rawLoop n (some kRnd) { rem := rest, out := out ++ appendUint64 x, mask := mask, req := req + 1 } := by
  obtain ⟨_, _, _, _, _, _, _, h8, h9, _⟩ := key_ne
  rw [rawLoop, uintField_append, readString_key kRnd _ out mask req (by decide)]
  simp only [ho, Bool.not_true, Bool.false_eq_true, if_false, if_true, h8, h9]
  rw [uintReq_item x rest out mask req hx]


theorem rawLoop_snd (n : Nat) (prev : Option Bytes) (v rest out : Bytes) (mask : UInt8) (req : Nat)
    (ho : keyOrderOk prev kSnd = true) (hv : v.length = 32) :
    rawLoop (n + 1) prev { rem := bin kSnd v ++ rest, out := out, mask := mask, req := req } =
      rawLoop n (some kSnd) { rem := rest, out := out ++ v, mask := mask, req := req + 1 } := by
  obtain ⟨_, _, _, _, _, _, _, _, _, h10, h11, h12, _⟩ := key_ne
  rw [rawLoop, bin_append, readString_key kSnd _ out mask req (by decide)]
  simp only [ho, Bool.not_true, Bool.false_eq_true, if_false, if_true, h10, h11, h12]
  rw [binReq_item 32 v rest out mask req hv (by decide)]


theorem rawLoop_step (n : Nat) (prev : Option Bytes) (x : Nat) (rest out : Bytes) (mask : UInt8) (req : Nat)
    (ho : keyOrderOk prev kStep = true) (hx : x < M64) :
    rawLoop (n + 1) prev { rem := uintField kStep x ++ rest, out := out, mask := mask, req := req } =
      rawLoop n (some kStep) { rem := rest, out := out ++ appendUint64 x, mask := mask ||| bitStep, req := req } := by
  obtain ⟨_, _, _, _, _, _, _, _, _, _, _, _, h13, h14, h15, h16⟩ := key_ne
  rw [rawLoop, uintField_append, readString_key kStep _ out mask req (by decide)]
  simp only [ho, Bool.not_true, Bool.false_eq_true, if_false, if_true, h13, h14, h15, h16]
  rw [uintOpt_item bitStep x rest out mask req hx]


theorem propLoop_zero (prev : Option Bytes) (p : PS) : propLoop 0 prev p = .ok p := by rw [propLoop]
theorem rawLoop_zero (prev : Option Bytes) (p : PS) : rawLoop 0 prev p = .ok p := by rw [rawLoop]

/-- the `prop` item: key, fixmap header with 1..4 entries, then the inner loop -/
theorem rawLoop_prop (n c : Nat) (prev : Option Bytes) (body out : Bytes) (mask : UInt8) (req : Nat) (p' : PS)
    (ho : keyOrderOk prev kProp = true) (hc1 : 1 ≤ c) (hc4 : c ≤ 4)
    (hin : propLoop c none { rem := body, out := out, mask := mask, req := req } = .ok p') :
    rawLoop (n + 1) prev { rem := fixstr kProp ++ ([UInt8.ofNat (0x80 + c)] ++ body), out := out, mask := mask, req := req } =
      rawLoop n (some kProp) p' := by
  obtain ⟨_, _, _, _, _, _, h7, _⟩ := key_ne
  rw [rawLoop, readString_key kProp _ out mask req (by decide)]
  simp only [ho, Bool.not_true, Bool.false_eq_true, if_false, if_true, h7, List.singleton_append]
  rw [readFixMap_ok c body out mask req (by omega)]
  simp only
  rw [if_neg (by omega), hin]

/-- the whole `r.prop` map body in canonical order -/
theorem propLoop_canonical (dig encdig : Option Bytes) (oper : Option Nat) (oprop : Option Bytes) (rest out : Bytes) (mask : UInt8) (req : Nat)
    (hdig : ∀ x, dig = some x → x.length = 32) (hencdig : ∀ x, encdig = some x → x.length = 32)
    (hoper : ∀ x, oper = some x → x < M64) (hoprop : ∀ x, oprop = some x → x.length = 32) :
    propLoop (cnt dig + cnt encdig + cnt oper + cnt oprop) none
      { rem := optBin kDig dig ++ (optBin kEncdig encdig ++ (optUint kOper oper ++ (optBin kOprop oprop ++ rest))),
        out := out, mask := mask, req := req } =
    .ok { rem := rest, out := out ++ (obytes dig ++ (obytes encdig ++ (ouint oper ++ obytes oprop))),
          mask := (((mask ||| bitIf dig bitDig) ||| bitIf encdig bitEncDig) ||| bitIf oper bitOper) ||| bitIf oprop bitOprop,
          req := req } := by
  rcases dig with _ | d <;> rcases encdig with _ | e <;> rcases oper with _ | o <;> rcases oprop with _ | q
  · -- dig=none encdig=none oper=none oprop=none
    simp only [cnt, optBin, optUint, bitIf, obytes, ouint, List.nil_append, UInt8.or_zero, Nat.reduceAdd]
    rw [propLoop_zero]
    first | done | simp only [List.append_assoc, List.nil_append, List.append_nil]
  · -- dig=none encdig=none oper=none oprop=some
    simp only [cnt, optBin, optUint, bitIf, obytes, ouint, List.nil_append, UInt8.or_zero, Nat.reduceAdd]
    rw [propLoop_oprop _ none q _ _ _ _ (by decide) (hoprop q rfl)]
    rw [propLoop_zero]
    first | done | simp only [List.append_assoc, List.nil_append, List.append_nil]
  · -- dig=none encdig=none oper=some oprop=none
    simp only [cnt, optBin, optUint, bitIf, obytes, ouint, List.nil_append, UInt8.or_zero, Nat.reduceAdd]
    rw [propLoop_oper _ none o _ _ _ _ (by decide) (hoper o rfl)]
    rw [propLoop_zero]
    first | done | simp only [List.append_assoc, List.nil_append, List.append_nil]
  · -- dig=none encdig=none oper=some oprop=some
    simp only [cnt, optBin, optUint, bitIf, obytes, ouint, List.nil_append, UInt8.or_zero, Nat.reduceAdd]
    rw [propLoop_oper _ none o _ _ _ _ (by decide) (hoper o rfl)]
    rw [propLoop_oprop _ (some kOper) q _ _ _ _ (by decide) (hoprop q rfl)]
    rw [propLoop_zero]
    first | done | simp only [List.append_assoc, List.nil_append, List.append_nil]
  · -- dig=none encdig=some oper=none oprop=none
    simp only [cnt, optBin, optUint, bitIf, obytes, ouint, List.nil_append, UInt8.or_zero, Nat.reduceAdd]
    rw [propLoop_encdig _ none e _ _ _ _ (by decide) (hencdig e rfl)]
    rw [propLoop_zero]
    first | done | simp only [List.append_assoc, List.nil_append, List.append_nil]
  · -- dig=none encdig=some oper=none oprop=some
    simp only [cnt, optBin, optUint, bitIf, obytes, ouint, List.nil_append, UInt8.or_zero, Nat.reduceAdd]
    rw [propLoop_encdig _ none e _ _ _ _ (by decide) (hencdig e rfl)]
    rw [propLoop_oprop _ (some kEncdig) q _ _ _ _ (by decide) (hoprop q rfl)]
    rw [propLoop_zero]
    first | done | simp only [List.append_assoc, List.nil_append, List.append_nil]
  · -- dig=none encdig=some oper=some oprop=none
    simp only [cnt, optBin, optUint, bitIf, obytes, ouint, List.nil_append, UInt8.or_zero, Nat.reduceAdd]
    rw [propLoop_encdig _ none e _ _ _ _ (by decide) (hencdig e rfl)]
    rw [propLoop_oper _ (some kEncdig) o _ _ _ _ (by decide) (hoper o rfl)]
    rw [propLoop_zero]
    first | done | simp only [List.append_assoc, List.nil_append, List.append_nil]
  · -- dig=none encdig=some oper=some oprop=some
    simp only [cnt, optBin, optUint, bitIf, obytes, ouint, List.nil_append, UInt8.or_zero, Nat.reduceAdd]
    rw [propLoop_encdig _ none e _ _ _ _ (by decide) (hencdig e rfl)]
    rw [propLoop_oper _ (some kEncdig) o _ _ _ _ (by decide) (hoper o rfl)]
    rw [propLoop_oprop _ (some kOper) q _ _ _ _ (by decide) (hoprop q rfl)]
    rw [propLoop_zero]
    first | done | simp only [List.append_assoc, List.nil_append, List.append_nil]
  · -- dig=some encdig=none oper=none oprop=none
    simp only [cnt, optBin, optUint, bitIf, obytes, ouint, List.nil_append, UInt8.or_zero, Nat.reduceAdd]
    rw [propLoop_dig _ none d _ _ _ _ (by decide) (hdig d rfl)]
    rw [propLoop_zero]
    first | done | simp only [List.append_assoc, List.nil_append, List.append_nil]
  · -- dig=some encdig=none oper=none oprop=some
    simp only [cnt, optBin, optUint, bitIf, obytes, ouint, List.nil_append, UInt8.or_zero, Nat.reduceAdd]
    rw [propLoop_dig _ none d _ _ _ _ (by decide) (hdig d rfl)]
    rw [propLoop_oprop _ (some kDig) q _ _ _ _ (by decide) (hoprop q rfl)]
    rw [propLoop_zero]
    first | done | simp only [List.append_assoc, List.nil_append, List.append_nil]
  · -- dig=some encdig=none oper=some oprop=none
    simp only [cnt, optBin, optUint, bitIf, obytes, ouint, List.nil_append, UInt8.or_zero, Nat.reduceAdd]
    rw [propLoop_dig _ none d _ _ _ _ (by decide) (hdig d rfl)]
    rw [propLoop_oper _ (some kDig) o _ _ _ _ (by decide) (hoper o rfl)]
    rw [propLoop_zero]
    first | done | simp only [List.append_assoc, List.nil_append, List.append_nil]
  · -- dig=some encdig=none oper=some oprop=some
    simp only [cnt, optBin, optUint, bitIf, obytes, ouint, List.nil_append, UInt8.or_zero, Nat.reduceAdd]
    rw [propLoop_dig _ none d _ _ _ _ (by decide) (hdig d rfl)]
    rw [propLoop_oper _ (some kDig) o _ _ _ _ (by decide) (hoper o rfl)]
    rw [propLoop_oprop _ (some kOper) q _ _ _ _ (by decide) (hoprop q rfl)]
    rw [propLoop_zero]
    first | done | simp only [List.append_assoc, List.nil_append, List.append_nil]
  · -- dig=some encdig=some oper=none oprop=none
    simp only [cnt, optBin, optUint, bitIf, obytes, ouint, List.nil_append, UInt8.or_zero, Nat.reduceAdd]
    rw [propLoop_dig _ none d _ _ _ _ (by decide) (hdig d rfl)]
    rw [propLoop_encdig _ (some kDig) e _ _ _ _ (by decide) (hencdig e rfl)]
    rw [propLoop_zero]
    first | done | simp only [List.append_assoc, List.nil_append, List.append_nil]
  · -- dig=some encdig=some oper=none oprop=some
    simp only [cnt, optBin, optUint, bitIf, obytes, ouint, List.nil_append, UInt8.or_zero, Nat.reduceAdd]
    rw [propLoop_dig _ none d _ _ _ _ (by decide) (hdig d rfl)]
    rw [propLoop_encdig _ (some kDig) e _ _ _ _ (by decide) (hencdig e rfl)]
    rw [propLoop_oprop _ (some kEncdig) q _ _ _ _ (by decide) (hoprop q rfl)]
    rw [propLoop_zero]
    first | done | simp only [List.append_assoc, List.nil_append, List.append_nil]
  · -- dig=some encdig=some oper=some oprop=none
    simp only [cnt, optBin, optUint, bitIf, obytes, ouint, List.nil_append, UInt8.or_zero, Nat.reduceAdd]
    rw [propLoop_dig _ none d _ _ _ _ (by decide) (hdig d rfl)]
    rw [propLoop_encdig _ (some kDig) e _ _ _ _ (by decide) (hencdig e rfl)]
    rw [propLoop_oper _ (some kEncdig) o _ _ _ _ (by decide) (hoper o rfl)]
    rw [propLoop_zero]
    first | done | simp only [List.append_assoc, List.nil_append, List.append_nil]
  · -- dig=some encdig=some oper=some oprop=some
    simp only [cnt, optBin, optUint, bitIf, obytes, ouint, List.nil_append, UInt8.or_zero, Nat.reduceAdd]
    rw [propLoop_dig _ none d _ _ _ _ (by decide) (hdig d rfl)]
    rw [propLoop_encdig _ (some kDig) e _ _ _ _ (by decide) (hencdig e rfl)]
    rw [propLoop_oper _ (some kEncdig) o _ _ _ _ (by decide) (hoper o rfl)]
    rw [propLoop_oprop _ (some kOper) q _ _ _ _ (by decide) (hoprop q rfl)]
    rw [propLoop_zero]
    first | done | simp only [List.append_assoc, List.nil_append, List.append_nil]

theorem optUint_none (k : Bytes) : optUint k none = [] := rfl
theorem optUint_some (k : Bytes) (v : Nat) : optUint k (some v) = uintField k v := rfl
theorem ouint_none : ouint none = [] := rfl
theorem ouint_some (v : Nat) : ouint (some v) = appendUint64 v := rfl
theorem bitIf_none {α : Type} (b : UInt8) : bitIf (none : Option α) b = 0 := rfl
theorem bitIf_some {α : Type} (v : α) (b : UInt8) : bitIf (some v) b = b := rfl
theorem cnt_none {α : Type} : cnt (none : Option α) = 0 := rfl
theorem cnt_some {α : Type} (v : α) : cnt (some v) = 1 := rfl

theorem cnt_zero {α : Type} (o : Option α) (h : cnt o = 0) : o = none := by
  cases o with
  | none => rfl
  | some _ => simp [cnt] at h

/-- the whole `r` map body in canonical order -/
theorem rawLoop_canonical (m : MVote) (hw : m.WF) (rest out : Bytes) (mask : UInt8) (req : Nat) :
    rawLoop m.rawCount none
      { rem := optUint kPer m.per ++ (m.propItem ++ (uintField kRnd m.rnd ++ (bin kSnd m.snd ++ (optUint kStep m.step ++ rest)))),
        out := out, mask := mask, req := req } =
    .ok { rem := rest,
          out := out ++ (ouint m.per ++ (obytes m.dig ++ (obytes m.encdig ++ (ouint m.oper ++ (obytes m.oprop ++
            (appendUint64 m.rnd ++ (m.snd ++ ouint m.step))))))),
          mask := (((((mask ||| bitIf m.per bitPer) ||| bitIf m.dig bitDig) ||| bitIf m.encdig bitEncDig) ||| bitIf m.oper bitOper) |||
            bitIf m.oprop bitOprop) ||| bitIf m.step bitStep,
          req := req + 1 + 1 } := by
  have hpl := fun (rest' out' : Bytes) (mask' : UInt8) (req' : Nat) =>
    propLoop_canonical m.dig m.encdig m.oper m.oprop rest' out' mask' req' hw.dig hw.encdig hw.oper hw.oprop
  have hpc4 : m.propCount ≤ 4 := by
    unfold MVote.propCount cnt
    rcases m.dig with _ | _ <;> rcases m.encdig with _ | _ <;> rcases m.oper with _ | _ <;> rcases m.oprop with _ | _ <;> simp
  unfold MVote.rawCount MVote.propItem
  by_cases hpc : m.propCount = 0
  · -- bottom proposal: no `prop` item
    have e := hpc
    unfold MVote.propCount at e
    have e1 := cnt_zero m.dig (by omega)
    have e2 := cnt_zero m.encdig (by omega)
    have e3 := cnt_zero m.oper (by omega)
    have e4 := cnt_zero m.oprop (by omega)
    simp only [hpc, if_true, e1, e2, e3, e4, obytes, ouint, bitIf, List.nil_append, UInt8.or_zero]
    rcases hper : m.per with _ | a <;> rcases hstep : m.step with _ | b
    · simp only [cnt, optUint, ouint, bitIf, List.nil_append, UInt8.or_zero, Nat.reduceAdd]
      rw [rawLoop_rnd _ none m.rnd _ _ _ _ (by decide) hw.rnd]
      rw [rawLoop_snd _ (some kRnd) m.snd _ _ _ _ (by decide) hw.snd]
      rw [rawLoop_zero]
      first | done | simp only [List.append_assoc, List.nil_append, List.append_nil]
    · simp only [cnt, optUint, ouint, bitIf, List.nil_append, UInt8.or_zero, Nat.reduceAdd]
      rw [rawLoop_rnd _ none m.rnd _ _ _ _ (by decide) hw.rnd]
      rw [rawLoop_snd _ (some kRnd) m.snd _ _ _ _ (by decide) hw.snd]
      rw [rawLoop_step _ (some kSnd) b _ _ _ _ (by decide) (hw.step b hstep)]
      rw [rawLoop_zero]
      first | done | simp only [List.append_assoc, List.nil_append, List.append_nil]
    · simp only [cnt, optUint, ouint, bitIf, List.nil_append, UInt8.or_zero, Nat.reduceAdd]
      rw [rawLoop_per _ none a _ _ _ _ (by decide) (hw.per a hper)]
      rw [rawLoop_rnd _ (some kPer) m.rnd _ _ _ _ (by decide) hw.rnd]
      rw [rawLoop_snd _ (some kRnd) m.snd _ _ _ _ (by decide) hw.snd]
      rw [rawLoop_zero]
      first | done | simp only [List.append_assoc, List.nil_append, List.append_nil]
    · simp only [cnt, optUint, ouint, bitIf, List.nil_append, UInt8.or_zero, Nat.reduceAdd]
      rw [rawLoop_per _ none a _ _ _ _ (by decide) (hw.per a hper)]
      rw [rawLoop_rnd _ (some kPer) m.rnd _ _ _ _ (by decide) hw.rnd]
      rw [rawLoop_snd _ (some kRnd) m.snd _ _ _ _ (by decide) hw.snd]
      rw [rawLoop_step _ (some kSnd) b _ _ _ _ (by decide) (hw.step b hstep)]
      rw [rawLoop_zero]
      first | done | simp only [List.append_assoc, List.nil_append, List.append_nil]
  · simp only [hpc, if_false]
    have hin := hpl
    unfold MVote.propCount at hin hpc hpc4 ⊢
    rcases hper : m.per with _ | a <;> rcases hstep : m.step with _ | b
    · simp only [cnt_none, cnt_some, optUint_none, optUint_some, ouint_none, ouint_some, bitIf_none, bitIf_some, List.nil_append, UInt8.or_zero, Nat.reduceAdd, Nat.add_zero, List.append_assoc]
      rw [rawLoop_prop _ _ none _ _ _ _ _ (by decide) (by omega) (by omega) (hin _ _ _ _)]
      rw [rawLoop_rnd _ (some kProp) m.rnd _ _ _ _ (by decide) hw.rnd]
      rw [rawLoop_snd _ (some kRnd) m.snd _ _ _ _ (by decide) hw.snd]
      rw [rawLoop_zero]
      first | done | simp only [List.append_assoc, List.nil_append, List.append_nil]
    · simp only [cnt_none, cnt_some, optUint_none, optUint_some, ouint_none, ouint_some, bitIf_none, bitIf_some, List.nil_append, UInt8.or_zero, Nat.reduceAdd, Nat.add_zero, List.append_assoc]
      rw [rawLoop_prop _ _ none _ _ _ _ _ (by decide) (by omega) (by omega) (hin _ _ _ _)]
      rw [rawLoop_rnd _ (some kProp) m.rnd _ _ _ _ (by decide) hw.rnd]
      rw [rawLoop_snd _ (some kRnd) m.snd _ _ _ _ (by decide) hw.snd]
      rw [rawLoop_step _ (some kSnd) b _ _ _ _ (by decide) (hw.step b hstep)]
      rw [rawLoop_zero]
      first | done | simp only [List.append_assoc, List.nil_append, List.append_nil]
    · simp only [cnt_none, cnt_some, optUint_none, optUint_some, ouint_none, ouint_some, bitIf_none, bitIf_some, List.nil_append, UInt8.or_zero, Nat.reduceAdd, Nat.add_zero, List.append_assoc]
      rw [rawLoop_per _ none a _ _ _ _ (by decide) (hw.per a hper)]
      rw [rawLoop_prop _ _ (some kPer) _ _ _ _ _ (by decide) (by omega) (by omega) (hin _ _ _ _)]
      rw [rawLoop_rnd _ (some kProp) m.rnd _ _ _ _ (by decide) hw.rnd]
      rw [rawLoop_snd _ (some kRnd) m.snd _ _ _ _ (by decide) hw.snd]
      rw [rawLoop_zero]
      first | done | simp only [List.append_assoc, List.nil_append, List.append_nil]
    · simp only [cnt_none, cnt_some, optUint_none, optUint_some, ouint_none, ouint_some, bitIf_none, bitIf_some, List.nil_append, UInt8.or_zero, Nat.reduceAdd, Nat.add_zero, List.append_assoc]
      rw [rawLoop_per _ none a _ _ _ _ (by decide) (hw.per a hper)]
      rw [rawLoop_prop _ _ (some kPer) _ _ _ _ _ (by decide) (by omega) (by omega) (hin _ _ _ _)]
      rw [rawLoop_rnd _ (some kProp) m.rnd _ _ _ _ (by decide) hw.rnd]
      rw [rawLoop_snd _ (some kRnd) m.snd _ _ _ _ (by decide) hw.snd]
      rw [rawLoop_step _ (some kSnd) b _ _ _ _ (by decide) (hw.step b hstep)]
      rw [rawLoop_zero]
      first | done | simp only [List.append_assoc, List.nil_append, List.append_nil]

end AlgoVerif.Lemmas.Vpack
