import AlgoVerif.Lemmas.AcctUpdatesPageResWalk
import AlgoVerif.Lemmas.AcctUpdatesCommit
/-! C10 (model pages): what the delta walk of the resource pages MEANS — patched with the DB row at the DB round, the collected
holding / params entries give the holding of the account and the creator + params of the creatable at the latest round of the
history. Needs the ledger's creator discipline (`ResWF`): params live at the creator exactly while it is the creator. -/
namespace AlgoVerif.Lemmas.PageRes
open AlgoVerif.Spec.LedgerHistory AlgoVerif.Model.AcctUpdates AlgoVerif.Lemmas.Pages AlgoVerif.Lemmas.AcctUpdates
open AlgoVerif.Lemmas.PageKv

/-- the creator discipline of the block evaluator (beyond `HistWF`) -/
structure ResWF (ct : Cidx → CType) (h : History) : Prop where
  /-- an address holds the params of a creatable exactly while the creator table names it -/
  paramsCreator : ∀ (r : Nat) (a : Addr) (c : Cidx), (resAt h r a c (ct c)).params.isSome = true ↔ creatorRaw h r c = some a
  /-- a params part marked deleted existed before the round -/
  paramsDel : ∀ (i : Nat) (d : Delta), h.blocks[i]? = some d → ∀ r ∈ d.res, r.params = .deleted →
    (resAt h i r.addr r.cidx r.ctype).params.isSome = true
  /-- the creator of an asset holds it ("unlike apps, a creator must have a holding") -/
  assetCreatorHolds : ∀ (r : Nat) (a : Addr) (c : Cidx), ct c = .asset →
    (resAt h r a c .asset).params.isSome = true → (resAt h r a c .asset).hold.isSome = true

/-! ### one more round -/

theorem lastIn_snoc {α : Type} (f : Delta → Option α) (l : List Delta) (d : Delta) :
    lastIn f (l ++ [d]) = (f d).or (lastIn f l) := by
  unfold lastIn
  rw [List.reverse_append]
  simp only [List.reverse_cons, List.reverse_nil, List.nil_append, List.singleton_append, List.findSome?_cons]
  cases f d <;> rfl

theorem resAt_succ (h : History) (i : Nat) (d : Delta) (hd : h.blocks[i]? = some d) (a : Addr) (c : Cidx) (t : CType) :
    resAt h (i + 1) a c t = match d.resRec? a c t with | some r => r.val | none => resAt h i a c t := by
  unfold resAt History.upTo
  rw [take_succ_snoc _ _ _ hd, lastIn_snoc]
  unfold Delta.res?
  cases d.resRec? a c t <;> rfl

theorem creatorRaw_succ (h : History) (i : Nat) (d : Delta) (hd : h.blocks[i]? = some d) (c : Cidx) :
    creatorRaw h (i + 1) c =
      match d.creat? c with
      | some m => if m.created then some m.creator else none
      | none => creatorRaw h i c := by
  unfold creatorRaw History.upTo
  rw [take_succ_snoc _ _ _ hd, lastIn_snoc]
  cases d.creat? c <;> rfl

theorem creatorAt_eq_raw (ct : Cidx → CType) (h : History) (hwf : HistWF ct h) (r : Nat) (c : Cidx) :
    creatorAt h r c (ct c) = creatorRaw h r c := by
  rw [creatorAt_eq, creatorRaw_eq]
  cases hl : lastIn (fun d => AMap.get (creatMods d) c) (h.blocks.take r) with
  | none => rfl
  | some m =>
    obtain ⟨d, hd, hf⟩ := lastIn_mem _ _ _ hl
    obtain ⟨hm, hc⟩ := creatMods_mem d c m hf
    have hct : m.ctype = ct c := by rw [← hc]; exact (hwf.deltas d (List.mem_of_mem_take hd)).ctC m hm
    simp only [Option.bind_some, creatorOfMod, hct]
    by_cases hcr : m.created = true <;> simp [hcr]

/-- the creator table names an address only after a creatable modification of the index -/
theorem creatorRaw_some_lastIn (h : History) (r : Nat) (c : Cidx) (a : Addr) (hc : creatorRaw h r c = some a) :
    lastIn (fun d => d.creat? c) (h.upTo r) ≠ none := by
  unfold creatorRaw at hc
  intro e; rw [e] at hc; simp at hc

theorem lastIn_mono {α : Type} (f : Delta → Option α) (l : List Delta) (i j : Nat) (hij : i ≤ j)
    (h : lastIn f (l.take i) ≠ none) : lastIn f (l.take j) ≠ none := by
  intro e
  apply h
  unfold lastIn at e ⊢
  rw [List.findSome?_eq_none_iff] at e ⊢
  intro d hd
  apply e d
  simp only [List.mem_reverse] at hd ⊢
  have : l.take i = (l.take j).take i := by rw [List.take_take, Nat.min_eq_left hij]
  rw [this] at hd
  exact List.mem_of_mem_take hd

/-- creatable ids are never reused: once named, the creator of an index never changes to another address -/
theorem creatorRaw_stable (ct : Cidx → CType) (h : History) (hwf : HistWF ct h) (c : Cidx) (i : Nat) (A : Addr)
    (hi : creatorRaw h i c = some A) : ∀ (j : Nat) (B : Addr), i ≤ j → creatorRaw h j c = some B → A = B := by
  intro j
  induction j with
  | zero =>
    intro B hij hj
    have : i = 0 := by omega
    subst this; rw [hi] at hj; exact Option.some.inj hj
  | succ j ih =>
    intro B hij hj
    by_cases hij' : i = j + 1
    · subst hij'; rw [hi] at hj; exact Option.some.inj hj
    · have hle : i ≤ j := by omega
      cases hd : h.blocks[j]? with
      | none =>
        have hlen : h.blocks.length ≤ j := by
          rcases Nat.lt_or_ge j h.blocks.length with hlt | hge
          · rw [List.getElem?_eq_getElem hlt] at hd; simp at hd
          · exact hge
        have : creatorRaw h (j + 1) c = creatorRaw h j c := by
          unfold creatorRaw History.upTo
          rw [List.take_of_length_le (by omega), List.take_of_length_le hlen]
        rw [this] at hj
        exact ih B hle hj
      | some d =>
        rw [creatorRaw_succ h j d hd c] at hj
        cases hm : d.creat? c with
        | none => rw [hm] at hj; exact ih B hle hj
        | some m =>
          rw [hm] at hj
          simp only [] at hj
          by_cases hcr : m.created = true
          · exfalso
            have hmem : m ∈ d.creat ∧ m.cidx = c := by
              unfold Delta.creat? at hm
              exact ⟨List.mem_of_find?_eq_some hm, by simpa using List.find?_some hm⟩
            have hfresh := hwf.creatFresh j d hd m hmem.1 hcr
            rw [hmem.2] at hfresh
            exact lastIn_mono _ h.blocks i j hle (creatorRaw_some_lastIn h i c A hi) hfresh
          · simp [hcr] at hj

/-! ### records of a round -/

theorem eq_of_nodup_map {α β : Type} (f : α → β) (l : List α) (hn : (l.map f).Nodup) (x y : α) (hx : x ∈ l) (hy : y ∈ l)
    (he : f x = f y) : x = y := by
  induction l with
  | nil => simp at hx
  | cons a t ih =>
    simp only [List.map_cons, List.nodup_cons] at hn
    rcases List.mem_cons.mp hx with hx1 | hx1
    · rcases List.mem_cons.mp hy with hy1 | hy1
      · rw [hx1, hy1]
      · exact absurd (by rw [← hx1, he]; exact List.mem_map_of_mem hy1) hn.1
    · rcases List.mem_cons.mp hy with hy1 | hy1
      · exact absurd (by rw [← hy1, ← he]; exact List.mem_map_of_mem hx1) hn.1
      · exact ih hn.2 hx1 hy1

theorem res_key_unique (ct : Cidx → CType) (d : Delta) (hwf : DeltaWF ct d) (x y : ResRec) (hx : x ∈ d.res) (hy : y ∈ d.res)
    (h1 : x.addr = y.addr) (h2 : x.cidx = y.cidx) : x = y := by
  have hn : (d.res.map (fun r => (r.addr, r.cidx))).Nodup := by
    have := hwf.nodupR
    unfold AMap.keys resMods at this
    rwa [List.map_map] at this
  exact eq_of_nodup_map _ d.res hn x y hx hy (by simp [h1, h2])

theorem resRec?_some (d : Delta) (a : Addr) (c : Cidx) (t : CType) (r : ResRec) (h : d.resRec? a c t = some r) :
    r ∈ d.res ∧ r.addr = a ∧ r.cidx = c ∧ r.ctype = t := by
  unfold Delta.resRec? at h
  have hp := List.find?_some h
  simp only [Bool.and_eq_true, beq_iff_eq] at hp
  exact ⟨List.mem_of_find?_eq_some h, hp.1.1, hp.1.2, hp.2⟩

theorem resRec?_of_mem (ct : Cidx → CType) (d : Delta) (hwf : DeltaWF ct d) (r : ResRec) (hr : r ∈ d.res) :
    d.resRec? r.addr r.cidx r.ctype = some r := by
  cases hf : d.resRec? r.addr r.cidx r.ctype with
  | none =>
    unfold Delta.resRec? at hf
    rw [List.find?_eq_none] at hf
    exact absurd (by simp) (hf r hr)
  | some r' =>
    obtain ⟨hm, h1, h2, _⟩ := resRec?_some d _ _ _ r' hf
    rw [res_key_unique ct d hwf r' r hm hr h1 h2]

theorem resRec?_none (d : Delta) (a : Addr) (c : Cidx) (t : CType) (h : d.resRec? a c t = none) :
    ∀ r ∈ d.res, r.addr = a → r.cidx = c → r.ctype = t → False := by
  intro r hr h1 h2 h3
  unfold Delta.resRec? at h
  rw [List.find?_eq_none] at h
  exact h r hr (by simp [h1, h2, h3])

/-- what one round says about the holding of `a` in `c` = the holding part of a's record, when it is set or deleted -/
theorem gH_eq (ct : Cidx → CType) (d : Delta) (hwf : DeltaWF ct d) (a : Addr) (gt : Nat) (t : CType) (c : Cidx) (hgt : gt < c) :
    gH a gt t c d = match d.resRec? a c t with
      | some r => if r.hold = .absent then none else some r.hold
      | none => none := by
  cases hrec : d.resRec? a c t with
  | none =>
    simp only []
    cases hg : gH a gt t c d with
    | none => rfl
    | some p =>
      obtain ⟨r, hr, h1, _, h3, h4, _, _⟩ := gH_some a gt t c d p hg
      exact absurd (resRec?_none d a c t hrec r hr h3 h4 h1) id
  | some r =>
    obtain ⟨hr, h1, h2, h3⟩ := resRec?_some d a c t r hrec
    simp only []
    cases hg : gH a gt t c d with
    | none =>
      have := gH_none a gt t c d hg r hr h3 (by rw [h2]; exact hgt) h1 h2
      simp [this]
    | some p =>
      obtain ⟨r', hr', g1, _, g3, g4, g5, g6⟩ := gH_some a gt t c d p hg
      have : r' = r := res_key_unique ct d hwf r' r hr' hr (by rw [g3, h1]) (by rw [g4, h2])
      subst this
      simp [g5, g6]

/-! ### the holding of the account -/

/-- the DB holding patched with the collected entry, as the page loops do -/
def effHold (dr : DeltaRes) (dbHold : Option Nat) (c : Cidx) : Option Nat :=
  match AMap.get dr.holds c with
  | some .deleted => none
  | some (.val n) => some n
  | _ => dbHold

theorem deltaResWalk_nil (a : Addr) (gt : Nat) (t : CType) : deltaResWalk [] a gt t = {} := rfl

theorem effHold_spec (ct : Cidx → CType) (σ : State) (h : Inv ct σ) (a : Addr) (gt : Nat) (t : CType) (c : Cidx) (hgt : gt < c)
    (n : Nat) (hn : n ≤ σ.deltas.length) :
    effHold (deltaResWalk (σ.deltas.take n) a gt t) (resAt σ.hist σ.dbRound a c t).hold c =
      (resAt σ.hist (σ.dbRound + n) a c t).hold := by
  induction n with
  | zero => simp [effHold, deltaResWalk_nil]
  | succ n ih =>
    have hlt : n < σ.deltas.length := by omega
    obtain ⟨d, hd⟩ : ∃ d, σ.deltas[n]? = some d := ⟨σ.deltas[n], by simp [hlt]⟩
    have hblock := h.delta_block n d hd
    have hdw := h.deltas_wf d (List.mem_of_getElem? hd)
    have ih' := ih (by omega)
    rw [take_succ_snoc _ _ _ hd, show σ.dbRound + (n + 1) = σ.dbRound + n + 1 from rfl, resAt_succ _ _ d hblock]
    unfold effHold at ih' ⊢
    rw [walk_holds_snoc, gH_eq ct d hdw a gt t c hgt]
    cases hrec : d.resRec? a c t with
    | none => simp only [Option.none_or]; exact ih'
    | some r =>
      obtain ⟨hr, h1, h2, h3⟩ := resRec?_some d a c t r hrec
      simp only []
      cases hh : r.hold with
      | absent =>
        simp only [if_true, Option.none_or]
        have hfull := (h.wf.resFull _ d hblock r hr).2 hh
        rw [h1, h2, h3] at hfull
        rw [ih', hfull]
        simp [ResRec.val, hh, Part.toOpt]
      | deleted => simp [ResRec.val, hh, Part.toOpt]
      | val m => simp [ResRec.val, hh, Part.toOpt]

/-! ### the creator and its params -/

/-- the DB creator / params patched with the collected params entry, as the page loops do -/
def effCP (dr : DeltaRes) (base : Option Addr × Option Nat) (c : Cidx) : Option Addr × Option Nat :=
  match AMap.get dr.params c with
  | some (.deleted, _) => (none, none)
  | some (.val n, ca) => (some ca, some n)
  | _ => base

/-- the creator of `c` at a round with the params it holds -/
def crParams (h : History) (r : Nat) (c : Cidx) (t : CType) : Option Addr × Option Nat :=
  (creatorRaw h r c, (creatorRaw h r c).bind (fun ca => (resAt h r ca c t).params))

theorem effCP_spec (ct : Cidx → CType) (σ : State) (h : Inv ct σ) (hw : ResWF ct σ.hist) (a : Addr) (gt : Nat) (c : Cidx) (hgt : gt < c)
    (n : Nat) (hn : n ≤ σ.deltas.length) :
    effCP (deltaResWalk (σ.deltas.take n) a gt (ct c)) (crParams σ.hist σ.dbRound c (ct c)) c =
      crParams σ.hist (σ.dbRound + n) c (ct c) := by
  induction n with
  | zero => simp [effCP, deltaResWalk_nil]
  | succ n ih =>
    have hlt : n < σ.deltas.length := by omega
    obtain ⟨d, hd⟩ : ∃ d, σ.deltas[n]? = some d := ⟨σ.deltas[n], by simp [hlt]⟩
    have hblock := h.delta_block n d hd
    have hdw := h.deltas_wf d (List.mem_of_getElem? hd)
    have ih' := ih (by omega)
    rw [take_succ_snoc _ _ _ hd, show σ.dbRound + (n + 1) = σ.dbRound + n + 1 from rfl]
    unfold effCP at ih' ⊢
    rw [walk_params_snoc]
    generalize hi : σ.dbRound + n = i at hblock ih' ⊢
    cases hg : gP gt (ct c) c d with
    | none =>
      simp only [Option.none_or]
      rw [ih']
      -- no record of the round touches the params of `c`
      have hnone := gP_none gt (ct c) c d hg
      have hsame : ∀ B, (resAt σ.hist (i + 1) B c (ct c)).params = (resAt σ.hist i B c (ct c)).params := by
        intro B
        rw [resAt_succ _ _ d hblock]
        cases hrec : d.resRec? B c (ct c) with
        | none => rfl
        | some r =>
          obtain ⟨hr, h1, h2, h3⟩ := resRec?_some d B c (ct c) r hrec
          have habs := hnone r hr h3 (by rw [h2]; exact hgt) h2
          have hfull := (h.wf.resFull _ d hblock r hr).1 habs
          rw [h1, h2, h3] at hfull
          simp only []
          rw [hfull]
          simp [ResRec.val, habs, Part.toOpt]
      have hcr : creatorRaw σ.hist (i + 1) c = creatorRaw σ.hist i c := by
        cases h1 : creatorRaw σ.hist (i + 1) c with
        | some B =>
          have := (hw.paramsCreator (i + 1) B c).mpr h1
          rw [hsame B] at this
          exact ((hw.paramsCreator i B c).mp this).symm
        | none =>
          cases h2 : creatorRaw σ.hist i c with
          | none => rfl
          | some B =>
            have := (hw.paramsCreator i B c).mpr h2
            rw [← hsame B] at this
            have := (hw.paramsCreator (i + 1) B c).mp this
            rw [h1] at this; simp at this
      unfold crParams
      rw [hcr]
      congr 1
      cases creatorRaw σ.hist i c with
      | none => rfl
      | some B => simp only [Option.bind_some]; exact (hsame B).symm
    | some p =>
      obtain ⟨r, hr, h1, _, h3, h4, rfl⟩ := gP_some gt (ct c) c d p hg
      have hrec : d.resRec? r.addr c (ct c) = some r := by
        have := resRec?_of_mem ct d hdw r hr
        rwa [h3, h1] at this
      have hval : resAt σ.hist (i + 1) r.addr c (ct c) = r.val := by
        rw [resAt_succ _ _ d hblock, hrec]
      simp only [Option.some_or]
      cases hp : r.params with
      | absent => exact absurd hp h4
      | val m =>
        simp only []
        have hpar : (resAt σ.hist (i + 1) r.addr c (ct c)).params = some m := by
          rw [hval]; simp [ResRec.val, hp, Part.toOpt]
        have hcr := (hw.paramsCreator (i + 1) r.addr c).mp (by rw [hpar]; rfl)
        unfold crParams
        rw [hcr]
        simp [hpar]
      | deleted =>
        simp only []
        -- the deleting address was the creator before the round ...
        have hdel := hw.paramsDel i d hblock r hr hp
        rw [h3, h1] at hdel
        have hcrX := (hw.paramsCreator i r.addr c).mp hdel
        -- ... and nobody is afterwards
        have hnone : creatorRaw σ.hist (i + 1) c = none := by
          cases hB : creatorRaw σ.hist (i + 1) c with
          | none => rfl
          | some B =>
            exfalso
            have hBpar := (hw.paramsCreator (i + 1) B c).mpr hB
            have hBX : B = r.addr := (creatorRaw_stable ct σ.hist h.wf c i r.addr hcrX (i + 1) B (by omega) hB).symm
            rw [hBX, hval] at hBpar
            simp [ResRec.val, hp, Part.toOpt] at hBpar
        unfold crParams
        rw [hnone]
        rfl

end AlgoVerif.Lemmas.PageRes
