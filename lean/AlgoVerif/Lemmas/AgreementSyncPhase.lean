import AlgoVerif.Spec.AgreementSync
import AlgoVerif.Lemmas.AgreementAbsLocal
/-!
Generic lemmas about the synchronous phase `Spec.AgreementSync` (C05): what a `phase` adds to a history, how the local state of
a node changes under it, what `seen` caches.  Used by `Lemmas/AgreementSync.lean`.
-/
namespace AlgoVerif.Lemmas.AgreementSync
open AlgoVerif.Spec.AgreementAbs AlgoVerif.Spec.AgreementSync AlgoVerif.Lemmas.AgreementAbs

/-! ### what a phase adds -/

theorem mem_hon {P : Params} {n : Node} : n ∈ hon P ↔ n ∈ P.nodes ∧ P.honest n = true := by
  unfold hon; simp only [List.mem_filter]

theorem phase_suffix (P : Params) (h : List Ev) (f : Node → List Ev) : h <:+ phase P h f :=
  List.suffix_append _ _

theorem mem_phase {P : Params} {h : List Ev} {f : Node → List Ev} {e : Ev} :
    e ∈ phase P h f ↔ e ∈ h ∨ ∃ m ∈ hon P, committedB h m = false ∧ e ∈ f m := by
  unfold phase
  simp only [List.mem_append, List.mem_reverse, List.mem_flatMap]
  constructor
  · rintro (⟨m, hm, he⟩ | he)
    · split at he
      · simp at he
      · rename_i hc
        exact Or.inr ⟨m, hm, by simpa using hc, he⟩
    · exact Or.inl he
  · rintro (he | ⟨m, hm, hc, he⟩)
    · exact Or.inr he
    · refine Or.inl ⟨m, hm, ?_⟩
      rw [hc]; simpa using he

theorem committedB_iff {h : List Ev} {n : Node} :
    committedB h n = true ↔ ∃ p v, Ev.commit n p v ∈ h := by
  unfold committedB
  simp only [List.any_eq_true]
  constructor
  · rintro ⟨e, he, hm⟩
    cases e with
    | commit m p v =>
        simp only [beq_iff_eq] at hm
        subst hm; exact ⟨p, v, he⟩
    | vote => simp at hm
    | see => simp at hm
    | enter => simp at hm
    | crash => simp at hm
  · rintro ⟨p, v, he⟩
    exact ⟨_, he, by simp⟩

theorem committedB_mono {t h : List Ev} (hs : t <:+ h) {n : Node} (hc : committedB t n = true) :
    committedB h n = true := by
  rw [committedB_iff] at *
  obtain ⟨p, v, he⟩ := hc
  exact ⟨p, v, hs.subset he⟩

/-- a phase without `commit` events commits nobody -/
theorem committedB_phase {P : Params} {h : List Ev} {f : Node → List Ev}
    (hf : ∀ m, ∀ e ∈ f m, ∀ n p v, e ≠ Ev.commit n p v) (n : Node) :
    committedB (phase P h f) n = committedB h n := by
  rw [Bool.eq_iff_iff, committedB_iff, committedB_iff]
  constructor
  · rintro ⟨p, v, he⟩
    rcases mem_phase.1 he with he | ⟨m, _, _, he⟩
    · exact ⟨p, v, he⟩
    · exact absurd rfl (hf m _ he n p v)
  · rintro ⟨p, v, he⟩
    exact ⟨p, v, mem_phase.2 (Or.inl he)⟩

theorem mem_votes_phase {P : Params} {h : List Ev} {f : Node → List Ev} {v : Vote} :
    v ∈ votes (phase P h f) ↔
      v ∈ votes h ∨ ∃ m ∈ hon P, committedB h m = false ∧ Ev.vote v ∈ f m := by
  rw [mem_votes_iff, mem_phase, mem_votes_iff]

/-! ### local state -/

theorem localOf_cons_vote (v : Vote) (h : List Ev) (n : Node) :
    localOf (Ev.vote v :: h) n = localOf h n := by
  unfold localOf
  simp only [nstate, stepN]
  split <;> rfl

theorem localOf_cons_commit (m p v) (h : List Ev) (n : Node) :
    localOf (Ev.commit m p v :: h) n = localOf h n := rfl

/-- events that leave every `cur` alone -/
def Quiet : Ev → Prop
  | .vote _ => True
  | .commit _ _ _ => True
  | _ => False

theorem localOf_append_quiet {evs : List Ev} (hq : ∀ e ∈ evs, Quiet e) (h : List Ev) (n : Node) :
    localOf (evs ++ h) n = localOf h n := by
  induction evs with
  | nil => rfl
  | cons e evs ih =>
      have ih' := ih (fun e he => hq e (List.mem_cons_of_mem _ he))
      have he := hq e List.mem_cons_self
      cases e with
      | vote v => rw [List.cons_append, localOf_cons_vote, ih']
      | commit m p v => rw [List.cons_append, localOf_cons_commit, ih']
      | see => exact absurd he (by simp [Quiet])
      | enter => exact absurd he (by simp [Quiet])
      | crash => exact absurd he (by simp [Quiet])

theorem localOf_phase_quiet {P : Params} {h : List Ev} {f : Node → List Ev}
    (hf : ∀ m, ∀ e ∈ f m, Quiet e) (n : Node) : localOf (phase P h f) n = localOf h n := by
  unfold phase
  apply localOf_append_quiet
  intro e he
  simp only [List.mem_reverse, List.mem_flatMap] at he
  obtain ⟨m, _, he⟩ := he
  split at he
  · simp at he
  · exact hf m e he

theorem find?_of_mem {l : List Val} {f : Val → Bool} {a : Val} (ha : a ∈ l) (hf : f a = true) :
    ∃ b, l.find? f = some b ∧ f b = true ∧ b ∈ l := by
  cases hfind : l.find? f with
  | none =>
      rw [List.find?_eq_none] at hfind
      exact absurd hf (hfind a ha)
  | some b => exact ⟨b, rfl, List.find?_some hfind, List.mem_of_find?_eq_some hfind⟩

/-! ### local state under a phase of owned reactions -/

/-- `e` is an event of node `m` other than a crash -/
def Owned (m : Node) : Ev → Prop
  | .vote v => v.n = m
  | .see k _ _ => k = m
  | .enter k _ _ => k = m
  | .commit _ _ _ => True
  | .crash _ => False

theorem owned_foreign {m n : Node} {e : Ev} (hne : m ≠ n) (ho : Owned m e) (s : NState) :
    stepN n s e = s := by
  cases e with
  | vote v => simp only [Owned] at ho; simp only [stepN]; rw [if_neg (by rw [ho]; exact hne)]
  | see k p y => simp only [Owned] at ho; simp only [stepN]; rw [if_neg (by rw [ho]; exact hne)]
  | enter k p c => simp only [Owned] at ho; simp only [stepN]; rw [if_neg (by rw [ho]; exact hne)]
  | commit => rfl
  | crash => simp [Owned] at ho

theorem nstate_append_foreign {n : Node} {evs : List Ev} (hf : ∀ e ∈ evs, ∀ s, stepN n s e = s)
    (h : List Ev) : nstate (evs ++ h) n = nstate h n := by
  induction evs with
  | nil => rfl
  | cons e evs ih =>
      rw [List.cons_append]
      simp only [nstate]
      rw [hf e List.mem_cons_self, ih (fun e he => hf e (List.mem_cons_of_mem _ he))]

theorem nstate_append_congr {n : Node} (B : List Ev) {X Y : List Ev} (hxy : nstate X n = nstate Y n) :
    nstate (B ++ X) n = nstate (B ++ Y) n := by
  induction B with
  | nil => exact hxy
  | cons e B ih => simp only [List.cons_append, nstate]; rw [ih]

def phaseL (g : Node → List Ev) (l : List Node) (h : List Ev) : List Ev := (l.flatMap g).reverse ++ h

theorem phaseL_cons (g : Node → List Ev) (a : Node) (l : List Node) (h : List Ev) :
    phaseL g (a :: l) h = phaseL g l ((g a).reverse ++ h) := by
  unfold phaseL
  rw [List.flatMap_cons, List.reverse_append, List.append_assoc]

theorem nstate_phaseL {g : Node → List Ev} (hg : ∀ m, ∀ e ∈ g m, Owned m e) (n : Node) :
    ∀ (l : List Node) (h : List Ev), l.Nodup →
      nstate (phaseL g l h) n = if n ∈ l then nstate ((g n).reverse ++ h) n else nstate h n := by
  intro l
  induction l with
  | nil => intro h _; simp [phaseL]
  | cons a l ih =>
      intro h hnd
      rw [List.nodup_cons] at hnd
      rw [phaseL_cons, ih _ hnd.2]
      by_cases hna : n = a
      · subst hna
        rw [if_neg hnd.1, if_pos List.mem_cons_self]
      · have hfor : nstate ((g a).reverse ++ h) n = nstate h n :=
          nstate_append_foreign (fun e he s =>
            owned_foreign (fun hh => hna hh.symm) (hg a e (List.mem_reverse.1 he)) s) h
        by_cases hl : n ∈ l
        · rw [if_pos hl, if_pos (List.mem_cons_of_mem _ hl)]
          exact nstate_append_congr _ hfor
        · rw [if_neg hl, if_neg (by simp [hna, hl])]
          exact hfor

theorem nstate_phase {P : Params} (hN : (hon P).Nodup) {h : List Ev} {f : Node → List Ev}
    (hf : ∀ m, ∀ e ∈ f m, Owned m e) {n : Node} (hn : n ∈ hon P) (hc : committedB h n = false) :
    nstate (phase P h f) n = nstate ((f n).reverse ++ h) n := by
  have e : phase P h f = phaseL (fun n => if committedB h n then [] else f n) (hon P) h := rfl
  rw [e, nstate_phaseL _ n _ _ hN, if_pos hn]
  · simp only [hc]; rfl
  · intro m e he
    split at he
    · simp at he
    · exact hf m e he

theorem localOf_phase {P : Params} (hN : (hon P).Nodup) {h : List Ev} {f : Node → List Ev}
    (hf : ∀ m, ∀ e ∈ f m, Owned m e) {n : Node} (hn : n ∈ hon P) (hc : committedB h n = false) :
    localOf (phase P h f) n = localOf ((f n).reverse ++ h) n := by
  unfold localOf; rw [nstate_phase hN hf hn hc]

/-! ### `see` folds -/

theorem localOf_cons_see (n q y) (h : List Ev) : localOf (Ev.see n q y :: h) n = (localOf h n).see q y := by
  unfold localOf; simp only [nstate, stepN, if_true]

theorem localOf_cons_enter (n q c) (h : List Ev) :
    localOf (Ev.enter n q c :: h) n = { localOf h n with period := q } := by
  unfold localOf; simp only [nstate, stepN, if_true]

theorem localOf_sees (n q : Nat) (ys : List (Option Val)) :
    ∀ h : List Ev, localOf ((ys.map (Ev.see n q)).reverse ++ h) n =
      ys.foldl (fun L y => L.see q y) (localOf h n) := by
  induction ys with
  | nil => intro h; rfl
  | cons y ys ih =>
      intro h
      rw [List.map_cons, List.reverse_cons, List.append_assoc, List.singleton_append, ih,
        localOf_cons_see, List.foldl_cons]

theorem foldl_see_period (q : Nat) (ys : List (Option Val)) :
    ∀ L : Local, (ys.foldl (fun L y => L.see q y) L).period = L.period := by
  induction ys with
  | nil => intro L; rfl
  | cons y ys ih => intro L; rw [List.foldl_cons, ih]; rfl

theorem foldl_see_cache_ne (q : Nat) {r : Nat} (hr : r ≠ q) (ys : List (Option Val)) :
    ∀ L : Local, (ys.foldl (fun L y => L.see q y) L).cache r = L.cache r := by
  induction ys with
  | nil => intro L; rfl
  | cons y ys ih => intro L; rw [List.foldl_cons, ih]; simp only [Local.see, if_neg hr]

theorem foldl_see_cache (q : Nat) (ys : List (Option Val)) :
    ∀ L : Local, (ys.foldl (fun L y => L.see q y) L).cache q = ys.foldl Cache.see (L.cache q) := by
  induction ys with
  | nil => intro L; rfl
  | cons y ys ih => intro L; rw [List.foldl_cons, ih, List.foldl_cons]; simp only [Local.see, if_true]

theorem cacheSound_foldl {P : Params} {h : List Ev} {q : Nat} (ys : List (Option Val))
    (hy : ∀ y ∈ ys, nextQ P h q y) :
    ∀ L : Local, CacheSound P h L → CacheSound P h (ys.foldl (fun L y => L.see q y) L) := by
  induction ys with
  | nil => intro L hL; exact hL
  | cons y ys ih =>
      intro L hL
      rw [List.foldl_cons]
      exact ih (fun y hy' => hy y (List.mem_cons_of_mem _ hy')) _
        (cacheSound_see hL (hy y List.mem_cons_self))

theorem cacheSound_period {P : Params} {h : List Ev} {L : Local} (hL : CacheSound P h L) (q : Nat) :
    CacheSound P h { L with period := q } := fun r => hL r

theorem mem_thresholds {P : Params} {h : List Ev} {q : Nat} {y : Option Val}
    (hy : y ∈ thresholds P h q) : nextQ P h q y := by
  unfold thresholds at hy
  rw [List.mem_append] at hy
  rcases hy with hy | hy
  · split at hy
    · rename_i hq; simp only [List.mem_singleton] at hy; subst hy; exact hq
    · simp at hy
  · rw [List.mem_map] at hy
    obtain ⟨v, hv, rfl⟩ := hy
    unfold nextVals at hv
    rw [List.mem_filter] at hv
    simpa using hv.2

theorem foldl_see_some (vs : List Val) :
    ∀ c : Cache, (vs.map some).foldl Cache.see c = ⟨c.bottom, vs.getLast?.or c.prop⟩ := by
  induction vs with
  | nil => intro c; simp
  | cons v vs ih =>
      intro c
      rw [List.map_cons, List.foldl_cons, ih, List.getLast?_cons]
      simp only [Cache.see]
      cases vs.getLast? <;> simp

/-- what every node's period-`q` tracker caches once it has seen all votes of `h` -/
def cacheOf (P : Params) (h : List Ev) (q : Nat) : Cache :=
  ⟨decide (nextQ P h q none), (nextVals P h q).getLast?⟩

/-- a quorum for a value: some voted value has the quorum too (all-equivocator supports count for every value) -/
theorem Q_some_vals {P : Params} (hT0 : 0 < P.T) {h : List Ev} {p s v} (hQ : Q P h p s (some v)) :
    ∃ u ∈ vals h, Q P h p s (some u) := by
  by_cases hv : v ∈ vals h
  · exact ⟨v, hv, hQ⟩
  · have hpos : 0 < wtl P.w P.nodes (inSupp h p s (some v)) := Nat.lt_of_lt_of_le hT0 hQ
    obtain ⟨n, _, hi⟩ := wtl_pos hpos
    have noV : ∀ m, ¬ VotedFor h m p s (some v) := fun m hm => hv (mem_vals.2 ⟨_, hm, rfl⟩)
    rcases inSupp_iff.1 hi with hi | ⟨a, ha, b, hb, _, _, _, _, _, _, hne⟩
    · exact absurd hi (noV n)
    · have key : ∀ u, Q P h p s (some u) := fun u =>
        Nat.le_trans hQ (wtl_mono (fun m _ hm => by
          rcases inSupp_iff.1 hm with hm | hm
          · exact absurd hm (noV m)
          · exact inSupp_iff.2 (Or.inr hm)))
      cases hax : a.x with
      | some u => exact ⟨u, mem_vals.2 ⟨a, ha, hax⟩, key u⟩
      | none =>
          cases hbx : b.x with
          | some u => exact ⟨u, mem_vals.2 ⟨b, hb, hbx⟩, key u⟩
          | none => rw [hax, hbx] at hne; exact absurd rfl hne

theorem nextVals_ne_nil {P : Params} (hT0 : 0 < P.T) {h : List Ev} {q v}
    (hQ : nextQ P h q (some v)) : nextVals P h q ≠ [] := by
  obtain ⟨k, hk, hQ⟩ := hQ
  obtain ⟨u, hu, hQu⟩ := Q_some_vals hT0 hQ
  have : u ∈ nextVals P h q := by
    unfold nextVals; rw [List.mem_filter]
    exact ⟨hu, by simpa using ⟨k, hk, hQu⟩⟩
  intro hnil; rw [hnil] at this; simp at this

/-- **the cache after a delivery does not depend on what the node had cached before** -/
theorem seen_cache {P : Params} (hT0 : 0 < P.T) {h : List Ev} {L : Local} (hL : CacheSound P h L)
    (q : Nat) : (seen P h q L).cache q = cacheOf P h q := by
  unfold seen thresholds
  rw [foldl_see_cache, List.foldl_append, foldl_see_some]
  unfold cacheOf
  have hb : (List.foldl Cache.see (L.cache q) (if nextQ P h q none then [none] else [])).bottom
      = decide (nextQ P h q none) := by
    split
    · rename_i hq; simp [Cache.see, hq]
    · rename_i hq
      simp only [List.foldl_nil, hq, decide_false]
      cases hbb : (L.cache q).bottom with
      | false => rfl
      | true => exact absurd ((hL q).1 hbb) hq
  have hp : (List.foldl Cache.see (L.cache q) (if nextQ P h q none then [none] else [])).prop
      = (L.cache q).prop := by
    split <;> simp [Cache.see]
  rw [hb, hp]
  congr 1
  cases hlast : (nextVals P h q).getLast? with
  | some v => simp
  | none =>
      rw [List.getLast?_eq_none_iff] at hlast
      cases hpp : (L.cache q).prop with
      | none => rfl
      | some v => exact absurd hlast (nextVals_ne_nil hT0 ((hL q).2 v hpp))

theorem seen_cache_ne (P : Params) (h : List Ev) {q r : Nat} (hr : r ≠ q) (L : Local) :
    (seen P h q L).cache r = L.cache r := foldl_see_cache_ne q hr _ L

theorem seen_period (P : Params) (h : List Ev) (q : Nat) (L : Local) : (seen P h q L).period = L.period :=
  foldl_see_period q _ L

theorem seen_sound {P : Params} {h : List Ev} {L : Local} (hL : CacheSound P h L) (q : Nat) :
    CacheSound P h (seen P h q L) :=
  cacheSound_foldl _ (fun _ hy => mem_thresholds hy) L hL

/-! ### `enterOf` -/

/-- does a node that reads the cache `c` for period `q - 1` (and is behind) enter period `q`? -/
def enterB (P : Params) (h : List Ev) (q : Nat) (c : Cache) : Bool :=
  c.prop.isSome || c.bottom || ((vals h).find? (fun x => decide (softQ P h q x))).isSome ||
    ((vals h).find? (fun x => decide (certQ P h q x))).isSome

theorem enterOf_cases (P : Params) (h : List Ev) (n q : Nat) (L : Local) :
    enterOf P h n q L = [] ∨ ∃ c, enterOf P h n q L = [Ev.enter n q c] := by
  unfold enterOf
  split
  · split
    · exact Or.inr ⟨_, rfl⟩
    · split
      · exact Or.inr ⟨_, rfl⟩
      · split
        · exact Or.inr ⟨_, rfl⟩
        · split
          · exact Or.inr ⟨_, rfl⟩
          · exact Or.inl rfl
  · exact Or.inl rfl

theorem enterOf_nil_iff (P : Params) (h : List Ev) (n q : Nat) (L : Local) :
    enterOf P h n q L = [] ↔ ¬ (L.period < q ∧ enterB P h q (L.prev q) = true) := by
  unfold enterOf enterB
  split
  · rename_i hlt
    split
    · rename_i v hv; simp [hv, hlt]
    · rename_i hv
      split
      · rename_i hb; simp [hb, hlt]
      · rename_i hb
        split
        · rename_i x hx; simp [hx, hlt]
        · rename_i hx
          split
          · rename_i x hx'; simp [hx', hlt]
          · rename_i hx'; simp [hv, hb, hx, hx', hlt]
  · rename_i hlt; simp [hlt]

/-! ### `deliver` -/

def deliverL (P : Params) (h : List Ev) (q : Nat) (n : Node) : Local :=
  if q = 0 then localOf h n else seen P h (q - 1) (localOf h n)

def deliverYs (P : Params) (h : List Ev) (q : Nat) : List (Option Val) :=
  if q = 0 then [] else thresholds P h (q - 1)

theorem deliverOf_eq (P : Params) (h : List Ev) (q : Nat) (n : Node) :
    deliverOf P h q n =
      (deliverYs P h q).map (Ev.see n (q - 1)) ++ enterOf P h n q (deliverL P h q n) := rfl

theorem deliverL_eq (P : Params) (h : List Ev) (q : Nat) (n : Node) :
    deliverL P h q n = (deliverYs P h q).foldl (fun L y => L.see (q - 1) y) (localOf h n) := by
  unfold deliverL deliverYs
  split <;> rfl

theorem deliverOf_shape (P : Params) (h : List Ev) (q : Nat) (m : Node) :
    ∀ e ∈ deliverOf P h q m, (∃ r y, e = Ev.see m r y) ∨ (∃ c, e = Ev.enter m q c) := by
  intro e he
  rw [deliverOf_eq, List.mem_append, List.mem_map] at he
  rcases he with ⟨y, _, rfl⟩ | he
  · exact Or.inl ⟨_, _, rfl⟩
  · rcases enterOf_cases P h m q (deliverL P h q m) with e0 | ⟨c, e1⟩
    · rw [e0] at he; simp at he
    · rw [e1, List.mem_singleton] at he; exact Or.inr ⟨c, he⟩

theorem deliverOf_owned (P : Params) (h : List Ev) (q : Nat) (m : Node) :
    ∀ e ∈ deliverOf P h q m, Owned m e := by
  intro e he
  rcases deliverOf_shape P h q m e he with ⟨r, y, rfl⟩ | ⟨c, rfl⟩ <;> rfl

theorem deliver_local {P : Params} (hN : (hon P).Nodup) {h : List Ev} (q : Nat) {n : Node}
    (hn : n ∈ hon P) (hc : committedB h n = false) :
    localOf (deliver P q h) n =
      if (deliverL P h q n).period < q ∧ enterB P h q ((deliverL P h q n).prev q) = true
      then { deliverL P h q n with period := q } else deliverL P h q n := by
  unfold deliver
  rw [localOf_phase hN (deliverOf_owned P h q) hn hc, deliverOf_eq, List.reverse_append,
    List.append_assoc]
  have hiff := enterOf_nil_iff P h n q (deliverL P h q n)
  rcases enterOf_cases P h n q (deliverL P h q n) with e0 | ⟨c, e1⟩
  · rw [e0, if_neg (hiff.1 e0), List.reverse_nil, List.nil_append, localOf_sees, deliverL_eq]
  · have hne : ¬ enterOf P h n q (deliverL P h q n) = [] := by rw [e1]; simp
    rw [if_pos (Classical.not_not.1 (fun hh => hne (hiff.2 hh))), e1, List.reverse_singleton,
      List.singleton_append, localOf_cons_enter, localOf_sees, deliverL_eq]

theorem votes_deliver {P : Params} {h : List Ev} {q : Nat} {v : Vote} :
    v ∈ votes (deliver P q h) ↔ v ∈ votes h := by
  unfold deliver
  rw [mem_votes_phase]
  constructor
  · rintro (hv | ⟨m, _, _, hv⟩)
    · exact hv
    · rcases deliverOf_shape P h q m _ hv with ⟨r, y, he⟩ | ⟨c, he⟩ <;> cases he
  · exact Or.inl

theorem committedB_deliver (P : Params) (h : List Ev) (q : Nat) (n : Node) :
    committedB (deliver P q h) n = committedB h n := by
  unfold deliver
  apply committedB_phase
  intro m e he n p v heq
  rcases deliverOf_shape P h q m e he with ⟨r, y, he⟩ | ⟨c, he⟩ <;> rw [he] at heq <;> cases heq

/-- the cache of period `q - 1` as every node reads it after `deliver q` -/
def prevOf (P : Params) (h : List Ev) (q : Nat) : Cache :=
  if q = 0 then Cache.empty else cacheOf P h (q - 1)

theorem deliverL_prev {P : Params} (hT0 : 0 < P.T) {h : List Ev} (q : Nat) {n : Node}
    (hs : CacheSound P h (localOf h n)) : (deliverL P h q n).prev q = prevOf P h q := by
  unfold deliverL prevOf Local.prev
  by_cases hq : q = 0
  · simp only [if_pos hq]
  · simp only [if_neg hq]; exact seen_cache hT0 hs _

theorem deliverL_period (P : Params) (h : List Ev) (q : Nat) (n : Node) :
    (deliverL P h q n).period = (localOf h n).period := by
  unfold deliverL; split
  · rfl
  · exact seen_period _ _ _ _

theorem deliverL_cache_ne (P : Params) (h : List Ev) {q r : Nat} (hr : r + 1 ≠ q) (n : Node) :
    (deliverL P h q n).cache r = (localOf h n).cache r := by
  unfold deliverL; split
  · rfl
  · exact seen_cache_ne _ _ (by omega) _

theorem deliverL_sound {P : Params} {h : List Ev} (q : Nat) {n : Node}
    (hs : CacheSound P h (localOf h n)) : CacheSound P h (deliverL P h q n) := by
  unfold deliverL; split
  · exact hs
  · exact seen_sound hs _

/-- **what `deliver q` does to an honest uncommitted node with a sound cache** -/
theorem deliver_spec {P : Params} (hT0 : 0 < P.T) (hN : (hon P).Nodup) {h : List Ev} (q : Nat) {n : Node}
    (hn : n ∈ hon P) (hc : committedB h n = false) (hs : CacheSound P h (localOf h n)) :
    CacheSound P (deliver P q h) (localOf (deliver P q h) n) ∧
    (localOf (deliver P q h) n).prev q = prevOf P h q ∧
    (∀ r, r + 1 ≠ q → (localOf (deliver P q h) n).cache r = (localOf h n).cache r) ∧
    (localOf (deliver P q h) n).period =
      if (localOf h n).period < q ∧ enterB P h q (prevOf P h q) = true then q else (localOf h n).period := by
  have hsuf : h <:+ deliver P q h := phase_suffix _ _ _
  rw [deliver_local hN q hn hc, deliverL_prev hT0 q hs, deliverL_period]
  have hsd := cacheSound_mono hsuf (deliverL_sound q hs)
  split
  · refine ⟨cacheSound_period hsd q, ?_, fun r hr => deliverL_cache_ne P h hr n, rfl⟩
    exact deliverL_prev hT0 q hs
  · exact ⟨hsd, deliverL_prev hT0 q hs, fun r hr => deliverL_cache_ne P h hr n, deliverL_period _ _ _ _⟩

/-! ### an honest node has voted only in periods up to its own -/

theorem votes_below {P : Params} {h : List Ev} (wf : WF true P h) {n : Node} (hh : P.honest n = true) :
    (∀ v ∈ votes h, v.n = n → v.p ≤ (nstate h n).cur.period) ∧
    (∀ v ∈ votes h, v.n = n → v.p ≤ (nstate h n).snap.period) := by
  induction h with
  | nil => simp [votes]
  | cons e pre ih =>
      obtain ⟨ihc, ihs⟩ := ih wf.1
      cases e with
      | vote u =>
          simp only [nstate, stepN, votes]
          by_cases hu : u.n = n
          · rw [if_pos hu]
            have hp : (localOf pre u.n).period = u.p := (wf.2 (by rw [hu]; exact hh)).2.1
            rw [hu] at hp
            have key : ∀ v ∈ u :: votes pre, v.n = n → v.p ≤ (nstate pre n).cur.period := by
              intro v hv hvn
              rcases List.mem_cons.1 hv with rfl | hv
              · exact Nat.le_of_eq hp.symm
              · exact ihc v hv hvn
            exact ⟨key, key⟩
          · rw [if_neg hu]
            constructor
            · intro v hv hvn
              rcases List.mem_cons.1 hv with rfl | hv
              · exact absurd hvn hu
              · exact ihc v hv hvn
            · intro v hv hvn
              rcases List.mem_cons.1 hv with rfl | hv
              · exact absurd hvn hu
              · exact ihs v hv hvn
      | see m q y =>
          simp only [nstate, stepN, votes]
          split
          · exact ⟨ihc, ihs⟩
          · exact ⟨ihc, ihs⟩
      | enter m q c =>
          simp only [nstate, stepN, votes]
          split
          · rename_i hm; subst hm
            have hg : (localOf pre m).period < q := (wf.2 hh).1
            exact ⟨fun v hv hvn => Nat.le_of_lt (Nat.lt_of_le_of_lt (ihc v hv hvn) hg), ihs⟩
          · exact ⟨ihc, ihs⟩
      | commit m q v => exact ⟨ihc, ihs⟩
      | crash m =>
          simp only [nstate, stepN, votes]
          split
          · exact ⟨ihs, ihs⟩
          · exact ⟨ihc, ihs⟩

/-! ### a node in period `p > 0` witnesses that everybody can enter `p` -/

theorem enterB_of_find {P : Params} {h : List Ev} {q : Nat} {c : Cache}
    (hx : (∃ x ∈ vals h, softQ P h q x) ∨ (∃ x ∈ vals h, certQ P h q x)) : enterB P h q c = true := by
  unfold enterB
  rcases hx with ⟨x, hx, hq⟩ | ⟨x, hx, hq⟩
  · obtain ⟨b, hb, _, _⟩ := find?_of_mem (f := fun x => decide (softQ P h q x)) hx (by simpa using hq)
    rw [hb]; simp
  · obtain ⟨b, hb, _, _⟩ := find?_of_mem (f := fun x => decide (certQ P h q x)) hx (by simpa using hq)
    rw [hb]; simp

theorem enterB_of_notFF {P : Params} {h : List Ev} {q : Nat} {c : Cache} (hc : NotFF c) :
    enterB P h q c = true := by
  unfold enterB
  rcases hc with hb | hp
  · rw [hb]; simp
  · cases hpp : c.prop with
    | none => exact absurd hpp hp
    | some v => simp

theorem cacheOf_notFF {P : Params} (hT0 : 0 < P.T) {h : List Ev} {q : Nat} {y : Option Val}
    (hq : nextQ P h q y) : NotFF (cacheOf P h q) := by
  unfold cacheOf
  cases y with
  | none => exact Or.inl (by simpa using hq)
  | some v =>
      refine Or.inr ?_
      have := nextVals_ne_nil hT0 hq
      intro hnone
      exact this (List.getLast?_eq_none_iff.1 hnone)

theorem enterB_of_top {P : Params} (hT0 : 0 < P.T) {h : List Ev} (wf : WF true P h) {n0 : Node} {p : Nat}
    (hh : P.honest n0 = true) (hp : (localOf h n0).period = p) (hpos : 0 < p) :
    enterB P h p (prevOf P h p) = true := by
  have hinv := localOf_inv wf hh
  have hsound := localOf_sound wf hh
  unfold LocalInv at hinv
  rw [hp] at hinv
  rcases hinv with h0 | ⟨z, hz⟩ | hn
  · omega
  · apply enterB_of_find
    rcases hz with hz | hz
    · obtain ⟨u, hu, hQ⟩ := Q_some_vals hT0 hz
      exact Or.inl ⟨u, hu, hQ⟩
    · obtain ⟨u, hu, hQ⟩ := Q_some_vals hT0 hz
      exact Or.inr ⟨u, hu, hQ⟩
  · apply enterB_of_notFF
    have hps := prev_sound hsound p
    unfold prevOf
    rw [if_neg (by omega)]
    rcases hn with hb | hpr
    · exact cacheOf_notFF hT0 (hps.1 hb)
    · cases hpp : ((localOf h n0).prev p).prop with
      | none => exact absurd hpp hpr
      | some v => exact cacheOf_notFF hT0 (hps.2 v hpp)

end AlgoVerif.Lemmas.AgreementSync
