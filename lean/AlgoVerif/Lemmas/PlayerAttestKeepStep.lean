import AlgoVerif.Lemmas.PlayerAttestKeep
import AlgoVerif.Lemmas.PlayerAttestOnce
/-!
`NRoot` and `DRoot` (`PlayerAttestKeep`) through one `Model.Player.handle`:

* `NS σ` (`NRoot` at the player's own (Round, Period)) is an invariant of `handle`;
* `DStep σ σ'`: if the player stays in its (Round, Period) = (R, p) and `v ≠ bottom` was committable for (R, p) with
  `Relevant[p] = v` before (`DRoot R p v`), then it still is afterwards — unless a threshold of (R, p) for another value was
  handled (`BadAt`: the staged value of (R, p) is now a different one).
-/
namespace AlgoVerif.Lemmas.PlayerAttest
open AlgoVerif.Model AlgoVerif.Model.Player AlgoVerif.Model.VoteTracker AlgoVerif.Spec.VoteTracker AlgoVerif.Lemmas.Player

/-- `NRoot` at the player's own (Round, Period) -/
def NS (σ : State) : Prop := NRoot σ.pl.round σ.pl.period σ.root

/-- the staged value of (R, p) is another one than `v` -/
def BadAt (R p v : Nat) (root : Root) : Prop := ∃ w, w ≠ v ∧ StagedIs root R p w

def DStep (σ σ' : State) : Prop :=
  ∀ R p v, v ≠ 0 → DOk R p σ.pl → DRoot R p v σ.root → SamePer σ.pl σ'.pl → DRoot R p v σ'.root ∨ BadAt R p v σ'.root

variable {P : Params} {good : Nat → Nat → Nat → Vote → Bool} {G : Nat → Nat → PView → Prop}

theorem not_samePer_of_entered {a b : PlayerF} (h : Entered a b) : ¬ SamePer a b := by
  intro ⟨h1, h2⟩
  rcases h.1 with h | ⟨_, h⟩ <;> omega

theorem dstep_entered {σ σ' : State} (h : Entered σ.pl σ'.pl) : DStep σ σ' :=
  fun _ _ _ _ _ _ hsp => absurd hsp (not_samePer_of_entered h)

/-- a step made of ordinary operations only -/
def Ordinary (P : Params) (σ σ' : State) : Prop :=
  ∀ (okp : PlayerF → Prop) (Φ : Root → Prop) (Ψ : Nat → RoundR → Prop), Frame P okp Φ Ψ → okp σ.pl → Φ σ.root → Φ σ'.root

theorem dstep_ordinary {σ σ' : State} (hf : Ordinary P σ σ') : DStep σ σ' :=
  fun R p v hv hok hD _ => Or.inl (hf _ _ _ (dframe R p v hv) hok hD)

theorem ns_ordinary {σ σ' : State} (hf : Ordinary P σ σ') (hr : σ'.pl.round = σ.pl.round) (hp : σ'.pl.period = σ.pl.period) :
    NS σ → NS σ' := by
  intro h
  unfold NS
  rw [hr, hp]
  exact hf _ _ _ (nframe _ _) trivial h

/-- an ordinary prefix that leaves the player alone -/
theorem dstep_pre {σ σ₁ σ' : State} (hf : Ordinary P σ σ₁) (hp : σ₁.pl = σ.pl) (h2 : DStep σ₁ σ') : DStep σ σ' := by
  intro R p v hv hok hD hsp
  exact h2 R p v hv (hp ▸ hok) (hf _ _ _ (dframe R p v hv) hok hD) (hp ▸ hsp)

theorem ns_pre {σ σ₁ σ' : State} (hf : Ordinary P σ σ₁) (hp : σ₁.pl = σ.pl) (h2 : NS σ₁ → NS σ') : NS σ → NS σ' :=
  fun h => h2 (ns_ordinary hf (by rw [hp]) (by rw [hp]) h)

theorem samePer_refl (a : PlayerF) : SamePer a a := ⟨rfl, rfl⟩

theorem ordinary_next {τ σ₀ σ' : State} {d : Nat} {acts : List Action} (h : issueNextVote P τ d = .ok (σ', acts))
    (hroot : τ.root = σ₀.root) (hr : τ.pl.round = σ₀.pl.round) (hp : τ.pl.period = σ₀.pl.period) : Ordinary P σ₀ σ' :=
  fun _ _ _ F hok h0 => f_issueNextVote F (F.congr σ₀.pl τ.pl hr hp hok) (by rw [hroot]; exact h0) h

theorem ordinary_fast {τ σ₀ σ' : State} {acts : List Action} (h : issueFastVote P τ = .ok (σ', acts))
    (hroot : τ.root = σ₀.root) (hr : τ.pl.round = σ₀.pl.round) (hp : τ.pl.period = σ₀.pl.period) : Ordinary P σ₀ σ' :=
  fun _ _ _ F hok h0 => f_issueFastVote F (F.congr σ₀.pl τ.pl hr hp hok) (by rw [hroot]; exact h0) h

/-! ### period and round changes -/

theorem enterPeriod_n {σ σ' : State} {src : Thresh} {target : Nat} {acts : List Action} {Pd : Nat}
    (hp : src.kind ≠ 3 → src.proposal ≠ 0) (hPd : Pd ≤ target) (htg : tgt src ≤ target)
    (h0 : NRoot σ.pl.round Pd σ.root) (h : enterPeriod P σ src target = .ok (σ', acts)) : NS σ' := by
  unfold enterPeriod at h
  split at h
  · cases h
  rename_i σ₁ acts₁ hpp
  obtain ⟨n1, p1⟩ := f_partitionPolicy (nframe σ.pl.round Pd) trivial h0 hpp
  split at h
  · cases h
  rename_i σ₂ c ht
  rw [← p1] at n1
  obtain ⟨n2, p2⟩ := pmThreshold_n n1 hp ht
  have n3 : NRoot σ₂.pl.round target σ₂.root := by
    rw [p2]; exact NRoot_mono (Nat.max_le.mpr ⟨hPd, htg⟩) n2
  simp only [] at h
  repeat' split at h
  all_goals (simp only [Except.ok.injEq, Prod.mk.injEq] at h; obtain ⟨rfl, _⟩ := h; exact n3)

/-- what the continuation of `enterRoundK` must satisfy -/
def KND (P : Params) (good : Nat → Nat → Nat → Vote → Bool) (G : Nat → Nat → PView → Prop)
    (k : State → Thresh → Except Panic (State × List Action)) : Prop :=
  ∀ σ e σ' acts, QRoot P good σ.root → GRoot G σ.root → ThreshValid P good e → KindOK e → k σ e = .ok (σ', acts) →
    (NS σ → NS σ') ∧ DStep σ σ'

theorem enterRoundK_n (hs : GSpec P good G) {k : State → Thresh → Except Panic (State × List Action)} (hk : KND P good G k)
    {σ σ' : State} {target : Nat} {acts : List Action} (hQ : QRoot P good σ.root) (hG : GRoot G σ.root)
    (hlt : σ.pl.round < target) {Pd : Nat} (h0 : NRoot σ.pl.round Pd σ.root)
    (h : enterRoundK P k σ target = .ok (σ', acts)) : NS σ' := by
  unfold enterRoundK at h
  split at h
  · cases h
  rename_i σ₁ e hn
  obtain ⟨q1, p1⟩ := pmNewRound_spec P good hQ hn
  obtain ⟨g1, _⟩ := pmNewRound_g hs hQ hG hn
  obtain ⟨n1, _⟩ := f_pmNewRound (nframe σ.pl.round Pd) trivial h0 hn
  simp only [] at h
  split at h
  · cases h
  rename_i σ₂ ok fr hf
  have hq : ∀ pl', QRoot P good (⟨pl', σ₁.root⟩ : State).root := fun _ => q1
  have hgg : ∀ pl', GRoot G (⟨pl', σ₁.root⟩ : State).root := fun _ => g1
  obtain ⟨q2, hfr, p2⟩ := freshest_spec P good (res := (ok, fr)) (hq _) hf
  obtain ⟨g2, kfr, _⟩ := freshest_g hs (res := (ok, fr)) (hq _) (hgg _) hf
  have n1' : ∀ pl', NRoot target 0 (⟨pl', σ₁.root⟩ : State).root := fun _ => NRoot_round hlt n1
  obtain ⟨n2, _⟩ := f_freshest (nframe target 0) trivial (n1' _) hf
  have hns2 : NS σ₂ := by
    unfold NS; rw [p2]; exact n2
  split at h
  · split at h
    · cases h
    rename_i σ₃ a4 hk4
    simp only [Except.ok.injEq, Prod.mk.injEq] at h; obtain ⟨rfl, _⟩ := h
    exact (hk σ₂ fr _ _ q2 g2 (threshValid_of_ok P good hfr) kfr hk4).1 hns2
  · simp only [Except.ok.injEq, Prod.mk.injEq] at h; obtain ⟨rfl, _⟩ := h
    exact hns2

theorem kind12_nonzero {e : Thresh} (hkind : KindOK e) (hk0 : e.kind ≠ 0) : e.kind ≠ 3 → e.proposal ≠ 0 := by
  intro h3
  rcases hkind with h | ⟨_, _, h⟩ | ⟨_, _, h⟩ | ⟨h, _⟩
  · exact absurd h hk0
  · exact h
  · exact h
  · exact absurd h h3

/-! ### threshold events -/

theorem handleThresh_nd (hs : GSpec P good G) (hset : ∀ r p vw, G r p vw → vw.staging ≠ 0 → vw.set = true) :
    ∀ fuel, KND P good G (handleThresh P fuel) := by
  intro fuel
  induction fuel with
  | zero => intro σ e σ' acts _ _ _ _ h; simp [handleThresh] at h
  | succ fuel ih =>
    intro σ e σ' acts hQ hG he hkind h
    have hrefl : ∀ τ : State, τ.root = σ.root → τ.pl = σ.pl → (NS σ → NS τ) ∧ DStep σ τ := by
      intro τ h1 h2
      refine ⟨fun hn => by unfold NS; rw [h1, h2]; exact hn, fun R p v _ _ hD _ => Or.inl (by rw [h1]; exact hD)⟩
    simp only [handleThresh] at h
    split at h
    · simp only [Except.ok.injEq, Prod.mk.injEq] at h; obtain ⟨rfl, _⟩ := h
      exact hrefl _ rfl rfl
    rename_i hk0
    have hp3 := kind12_nonzero hkind hk0
    split at h
    · -- certThreshold
      rename_i hk2
      have hp0 : e.proposal ≠ 0 := hp3 (by omega)
      have htgt : tgt e = e.period := by unfold tgt; rw [if_neg (by omega)]
      split at h
      · cases h
      rename_i σ₁ c ht
      obtain ⟨q1, p1, hsa⟩ := pmThreshold_spec P good hQ ht
      obtain ⟨g1, _, hround, _, _⟩ := pmThreshold_g hs hQ hG he hkind hk0 ht
      split at h
      · cases h
      rename_i σ₂ res hst
      obtain ⟨q2, _, p2⟩ := staged_spec P good q1 hst
      obtain ⟨g2, ⟨pr2, hpr2, hstg2⟩, _⟩ := staged_g hs q1 g1 hst
      have hpl2 : σ₂.pl = σ.pl := p2.trans p1
      have hres : res.proposal = e.proposal := staged_reads P (hsa (by omega)) hst
      have n2 : ∀ Pd, NRoot σ.pl.round Pd σ.root → NRoot σ.pl.round (max Pd (tgt e)) σ₂.root := by
        intro Pd h0
        obtain ⟨a, _⟩ := pmThreshold_n h0 (fun _ => hp0) ht
        exact (f_staged (nframe σ.pl.round (max Pd (tgt e))) trivial a hst).1
      have d2 : ¬ σ.pl.period < e.period → ∀ R p v, v ≠ 0 → DOk R p σ.pl → DRoot R p v σ.root →
          DRoot R p v σ₂.root ∨ BadAt R p v σ₂.root := by
        intro hle R p v hv hok hD
        by_cases hsame : e.period = p → e.proposal = v
        · obtain ⟨a, b⟩ := pmThreshold_d hv hok hD (by omega) hle hsame ht
          exact Or.inl (f_staged (dframe R p v hv) (b ▸ hok) a hst).1
        · obtain ⟨hper, hne⟩ := Classical.not_imp.mp hsame
          refine Or.inr ⟨e.proposal, hne, ?_⟩
          have hR : e.round = R := hround.symm.trans hok.1
          have hst2 : (pview pr2).staging = e.proposal := hstg2.trans hres
          have := stagedIs_of_PAt hpr2 (hset _ _ _ (G_of_PAt g2 hpr2) (by rw [hst2]; exact hp0)) hst2
          rw [hR, hper] at this
          exact this
      split at h
      · rename_i pay hpay
        split at h
        · cases h
        rename_i σ₃ hc
        obtain ⟨q3, p3⟩ := credHistoryTouch_spec P good q2 hc
        obtain ⟨g3, _⟩ := credHistoryTouch_g hs q2 g2 hc
        split at h
        · cases h
        rename_i σ₄ as her
        obtain ⟨_, _, e4, _⟩ := enterRoundK_a hs (handleThresh_a hs fuel) q3 g3 (Nat.lt_succ_self _) her
        simp only [Except.ok.injEq, Prod.mk.injEq] at h; obtain ⟨rfl, _⟩ := h
        have hpl3 : σ₃.pl = σ.pl := p3.trans hpl2
        refine ⟨fun hn => ?_, dstep_entered (Entered.of_same_left (Same4.of_eq hpl3) e4)⟩
        have n3 := (f_credHistoryTouch (nframe σ.pl.round _) trivial (n2 _ hn) hc).1
        rw [← hpl3] at n3
        exact enterRoundK_n hs ih q3 g3 (Nat.lt_succ_self _) n3 her
      · split at h
        · rename_i hlt
          split at h
          · cases h
          rename_i σ₃ as hep
          obtain ⟨_, _, e3, _⟩ := enterPeriod_a hs q2 g2 he hkind hk0 hlt (fun _ => rfl) hep
          simp only [Except.ok.injEq, Prod.mk.injEq] at h; obtain ⟨rfl, _⟩ := h
          refine ⟨fun hn => ?_, dstep_entered (Entered.of_same_left (Same4.of_eq hpl2) e3)⟩
          have n3 := n2 _ hn
          rw [← hpl2] at n3
          refine enterPeriod_n (fun _ => hp0) ?_ (Nat.le_of_eq htgt) n3 hep
          rw [htgt]; exact Nat.max_le.mpr ⟨Nat.le_of_lt hlt, Nat.le_refl _⟩
        · rename_i hle
          simp only [Except.ok.injEq, Prod.mk.injEq] at h; obtain ⟨rfl, _⟩ := h
          rw [hpl2] at hle
          refine ⟨fun hn => ?_, fun R p v hv hok hD _ => d2 hle R p v hv hok hD⟩
          have n3 := n2 _ hn
          rw [htgt, Nat.max_eq_left (by omega)] at n3
          unfold NS; rw [hpl2]; exact n3
    rename_i hk2
    split at h
    · -- softThreshold
      rename_i hk1
      have hp0 : e.proposal ≠ 0 := hp3 (by omega)
      have htgt : tgt e = e.period := by unfold tgt; rw [if_neg (by omega)]
      split at h
      · simp only [Except.ok.injEq, Prod.mk.injEq] at h; obtain ⟨rfl, _⟩ := h
        exact hrefl _ rfl rfl
      split at h
      · rename_i hlt
        obtain ⟨_, _, e3, _⟩ := enterPeriod_a hs hQ hG he hkind hk0 hlt (fun _ => rfl) h
        exact ⟨fun hn => enterPeriod_n (fun _ => hp0) (Nat.le_of_lt hlt) (Nat.le_of_eq htgt) hn h, dstep_entered e3⟩
      rename_i hngt hnlt
      have hper : e.period = σ.pl.period := by omega
      split at h
      · cases h
      rename_i σ₁ c ht
      obtain ⟨q1, p1, _⟩ := pmThreshold_spec P good hQ ht
      obtain ⟨g1, _, hround, hstage, _⟩ := pmThreshold_g hs hQ hG he hkind hk0 ht
      have hres : (NS σ → NS σ₁) ∧ DStep σ σ₁ := by
        refine ⟨fun hn => ?_, fun R p v hv hok hD _ => ?_⟩
        · obtain ⟨a, _⟩ := pmThreshold_n hn (fun _ => hp0) ht
          rw [htgt, hper, Nat.max_self] at a
          unfold NS; rw [p1]; exact a
        · by_cases hsame : e.period = p → e.proposal = v
          · exact Or.inl (pmThreshold_d hv hok hD (by omega) hnlt hsame ht).1
          · obtain ⟨hpe, hne⟩ := Classical.not_imp.mp hsame
            obtain ⟨pr, hpr, hset1, hstg1⟩ := hstage (by omega)
            have := stagedIs_of_PAt hpr hset1 hstg1
            rw [hround.symm.trans hok.1, hpe] at this
            exact Or.inr ⟨e.proposal, hne, this⟩
      repeat' split at h
      all_goals (simp only [Except.ok.injEq, Prod.mk.injEq] at h; obtain ⟨rfl, _⟩ := h; exact hres)
    · -- nextThreshold
      rename_i hk1
      have hk3 : e.kind = 3 := by
        rcases hkind with h0 | ⟨h1, _⟩ | ⟨h2, _⟩ | ⟨h3, _⟩
        · exact absurd h0 hk0
        · exact absurd h1 hk1
        · exact absurd h2 hk2
        · exact h3
      have htgt : tgt e = e.period + 1 := by unfold tgt; rw [if_pos hk3]
      split at h
      · simp only [Except.ok.injEq, Prod.mk.injEq] at h; obtain ⟨rfl, _⟩ := h
        exact hrefl _ rfl rfl
      · rename_i hngt
        obtain ⟨_, _, e3, _⟩ := enterPeriod_a hs hQ hG he hkind hk0 (by omega) (fun hne => absurd hk3 hne) h
        exact ⟨fun hn => enterPeriod_n hp3 (by omega) (Nat.le_of_eq htgt) hn h, dstep_entered e3⟩

/-! ### message events -/

theorem handlePayload_nd (hs : GSpec P good G) (hset : ∀ r p vw, G r p vw → vw.staging ≠ 0 → vw.set = true)
    {fuel : Nat} {σ σ' : State} {verified : Bool} {bad : Bad} {p : Payload} {own : Bool} {acts : List Action}
    (hQ : QRoot P good σ.root) (hG : GRoot G σ.root) (hp : PayloadOK σ verified bad p)
    (h : handlePayload P fuel σ verified bad p own = .ok (σ', acts)) : (NS σ → NS σ') ∧ DStep σ σ' := by
  unfold handlePayload at h
  split at h
  · cases h
  rename_i σ₁ ef hpm
  obtain ⟨q1, p1⟩ := pmPayload_spec P good hQ (fun a b c => (hp a b c).1) hpm
  obtain ⟨g1, _⟩ := pmPayload_g hs hQ hG (fun a b c => (hp a b c).1) hpm
  have o1 : Ordinary P σ σ₁ := fun _ _ _ F hok h0 => (f_pmPayload F hok h0 hpm).1
  have r1 : (NS σ → NS σ₁) ∧ DStep σ σ₁ := ⟨ns_ordinary o1 (by rw [p1]) (by rw [p1]), dstep_ordinary o1⟩
  split at h
  · simp only [Except.ok.injEq, Prod.mk.injEq] at h; obtain ⟨rfl, _⟩ := h; exact r1
  split at h
  · simp only [Except.ok.injEq, Prod.mk.injEq] at h; obtain ⟨rfl, _⟩ := h; exact r1
  simp only [] at h
  split at h
  · split at h
    · cases h
    rename_i σ₂ ok fr hf
    obtain ⟨q2, hfr, p2⟩ := freshest_spec P good (res := (ok, fr)) q1 hf
    obtain ⟨g2, _, _⟩ := freshest_g hs (res := (ok, fr)) q1 g1 hf
    have hpl2 : σ₂.pl = σ.pl := p2.trans p1
    have o2 : Ordinary P σ σ₂ := fun _ _ _ F hok h0 =>
      (f_freshest F (F.congr _ _ (by rw [p1]) (by rw [p1]) hok) (f_pmPayload F hok h0 hpm).1 hf).1
    split at h
    · rename_i hcond
      simp only [Bool.and_eq_true, decide_eq_true_eq] at hcond
      obtain ⟨⟨_, hk2⟩, _⟩ := hcond
      split at h
      · cases h
      rename_i σ₃ hc
      obtain ⟨q3, p3⟩ := credHistoryTouch_spec P good q2 hc
      obtain ⟨g3, _⟩ := credHistoryTouch_g hs q2 g2 hc
      split at h
      · cases h
      rename_i σ₄ as her
      have hfround : fr.cert.round = σ₃.pl.round := by
        obtain ⟨hr, _⟩ := hfr.1 (by rw [hk2]; decide)
        show fr.round = σ₃.pl.round
        rw [hr, p3, p2]
      have hlt : σ₃.pl.round < fr.cert.round + 1 := by rw [hfround]; exact Nat.lt_succ_self _
      obtain ⟨_, _, e4, _⟩ := enterRoundK_a hs (handleThresh_a hs fuel) q3 g3 hlt her
      simp only [Except.ok.injEq, Prod.mk.injEq] at h; obtain ⟨rfl, _⟩ := h
      have hpl3 : σ₃.pl = σ.pl := p3.trans hpl2
      refine ⟨fun hn => ?_, dstep_entered (Entered.of_same_left (Same4.of_eq hpl3) e4)⟩
      have n2 := ns_ordinary o2 (by rw [hpl2]) (by rw [hpl2]) hn
      have n3 := (f_credHistoryTouch (nframe _ _) trivial n2 hc).1
      rw [← p3] at n3
      exact enterRoundK_n hs (handleThresh_nd hs hset fuel) q3 g3 hlt n3 her
    · simp only [Except.ok.injEq] at h
      have e1 := (payloadCont_a σ₂ ef (payloadActs σ₁.pl.round p own ef) (payloadActs_atts _ _ _ _)).1
      rw [h] at e1
      simp only [] at e1
      subst e1
      exact ⟨ns_ordinary o2 (by rw [hpl2]) (by rw [hpl2]), dstep_ordinary o2⟩
  · simp only [Except.ok.injEq] at h
    have e1 := (payloadCont_a σ₁ ef (payloadActs σ₁.pl.round p own ef) (payloadActs_atts _ _ _ _)).1
    rw [h] at e1
    simp only [] at e1
    subst e1
    exact r1

theorem nd_congr_left {σ τ σ' : State} (hr : τ.root = σ.root) (h1 : τ.pl.round = σ.pl.round) (h2 : τ.pl.period = σ.pl.period)
    (h : (NS τ → NS σ') ∧ DStep τ σ') : (NS σ → NS σ') ∧ DStep σ σ' := by
  refine ⟨fun hn => h.1 (by unfold NS at hn ⊢; rw [hr, h1, h2]; exact hn), ?_⟩
  intro R p v hv hok hD hsp
  exact h.2 R p v hv ⟨h1.trans hok.1, h2.trans hok.2.1, hok.2.2⟩ (by rw [hr]; exact hD)
    ⟨h1.trans hsp.1, h2.trans hsp.2⟩

theorem pvoteFinish_nd (hs : GSpec P good G) (hset : ∀ r p vw, G r p vw → vw.staging ≠ 0 → vw.set = true)
    {fuel : Nat} {verified : Bool} {taskIndex : Nat} {tail : Option Payload} {σ σ' : State}
    {acts acts' : List Action} {done : Bool} (hQ : QRoot P good σ.root) (hG : GRoot G σ.root)
    (h : pvoteFinish P fuel verified taskIndex tail σ acts done = .ok (σ', acts')) : (NS σ → NS σ') ∧ DStep σ σ' := by
  unfold pvoteFinish at h
  simp only [] at h
  have hr : (if verified = true then pendingPop σ.pl taskIndex else (σ.pl, tail)).1.round = σ.pl.round := by
    split <;> rfl
  have hp : (if verified = true then pendingPop σ.pl taskIndex else (σ.pl, tail)).1.period = σ.pl.period := by
    split <;> rfl
  have hsame : ∀ τ : State, τ.root = σ.root → τ.pl.round = σ.pl.round → τ.pl.period = σ.pl.period →
      (NS σ → NS τ) ∧ DStep σ τ := by
    intro τ h0 h1 h2
    exact ⟨fun hn => by unfold NS at hn ⊢; rw [h0, h1, h2]; exact hn,
      fun R p v _ _ hD _ => Or.inl (by rw [h0]; exact hD)⟩
  split at h
  · simp only [Except.ok.injEq, Prod.mk.injEq] at h; obtain ⟨rfl, _⟩ := h
    exact hsame _ rfl hr hp
  split at h
  · simp only [Except.ok.injEq, Prod.mk.injEq] at h; obtain ⟨rfl, _⟩ := h
    exact hsame _ rfl hr hp
  split at h
  · cases h
  rename_i σ₁ suffix hpp
  have hq : ∀ pl', QRoot P good (⟨pl', σ.root⟩ : State).root := fun _ => hQ
  have hgg : ∀ pl', GRoot G (⟨pl', σ.root⟩ : State).root := fun _ => hG
  have := handlePayload_nd hs hset (hq _) (hgg _) (by intro hv; cases hv) hpp
  simp only [Except.ok.injEq, Prod.mk.injEq] at h; obtain ⟨rfl, _⟩ := h
  exact nd_congr_left (τ := { σ with pl := (if verified = true then pendingPop σ.pl taskIndex else (σ.pl, tail)).1 }) rfl hr hp this

theorem pvoteGo_nd (hs : GSpec P good G) (hset : ∀ r p vw, G r p vw → vw.staging ≠ 0 → vw.set = true)
    {fuel : Nat} {verified : Bool} {v : PVote} {taskIndex : Nat} {tail : Option Payload} {ef : PMVote}
    {σ σ' : State} {acts : List Action} (hQ : QRoot P good σ.root) (hG : GRoot G σ.root)
    (h : pvoteGo P fuel verified v taskIndex tail ef σ = .ok (σ', acts)) : (NS σ → NS σ') ∧ DStep σ σ' := by
  unfold pvoteGo at h
  split at h
  · have hq : ∀ pl', QRoot P good (⟨pl', σ.root⟩ : State).root := fun _ => hQ
    have hgg : ∀ pl', GRoot G (⟨pl', σ.root⟩ : State).root := fun _ => hG
    simp only [] at h
    exact nd_congr_left (τ := { σ with pl := (pendingPush σ.pl tail).1 }) rfl rfl rfl
      (pvoteFinish_nd hs hset (hq _) (hgg _) h)
  split at h
  · exact pvoteFinish_nd hs hset hQ hG h
  · exact pvoteFinish_nd hs hset hQ hG h
  · cases h

theorem handlePVote_nd (hs : GSpec P good G) (hset : ∀ r p vw, G r p vw → vw.staging ≠ 0 → vw.set = true)
    {fuel : Nat} {σ σ' : State} {verified : Bool} {bad : Bad} {v : PVote} {taskIndex : Nat}
    {tail : Option Payload} {acts : List Action} (hQ : QRoot P good σ.root) (hG : GRoot G σ.root)
    (h : handlePVote P fuel σ verified bad v taskIndex tail = .ok (σ', acts)) : (NS σ → NS σ') ∧ DStep σ σ' := by
  unfold handlePVote at h
  split at h
  · cases h
  rename_i σ₁ ef hpm
  have h1 : QRoot P good σ₁.root ∧ GRoot G σ₁.root ∧ σ₁.pl = σ.pl ∧ Ordinary P σ σ₁ := by
    split at hpm
    · exact ⟨(pmVoteVerified_spec P good hQ hpm).1, pmVoteVerified_g hs hQ hG hpm, (pmVoteVerified_spec P good hQ hpm).2,
        fun _ _ _ F hok h0 => (f_pmVoteVerified F hok h0 hpm).1⟩
    · exact ⟨(pmVotePresent_spec P good hQ hpm).1, pmVotePresent_g hs hQ hG hpm, (pmVotePresent_spec P good hQ hpm).2,
        fun _ _ _ F hok h0 => (f_pmVotePresent F hok h0 hpm).1⟩
  obtain ⟨q1, g1, p1, o1⟩ := h1
  have key : ∀ {σ''}, ((NS σ₁ → NS σ'') ∧ DStep σ₁ σ'') → ((NS σ → NS σ'') ∧ DStep σ σ'') :=
    fun hh => ⟨ns_pre o1 p1 hh.1, dstep_pre o1 p1 hh.2⟩
  split at h
  · exact key (pvoteFinish_nd hs hset q1 g1 h)
  · repeat' split at h
    all_goals first
      | exact key (pvoteFinish_nd hs hset q1 g1 h)
      | exact key (pvoteGo_nd hs hset q1 g1 h)
  · exact key (pvoteGo_nd hs hset q1 g1 h)

/-! ### the top level -/

theorem handle_nd (hs : GSpec P good G) (hset : ∀ r p vw, G r p vw → vw.staging ≠ 0 → vw.set = true)
    (hg : GoodSpec good) {σ σ' : State} {ev : Player.Event} {acts : List Action}
    (hQ : QRoot P good σ.root) (hG : GRoot G σ.root) (hev : EventOK good σ ev) (heva : EventOKA σ ev)
    (h : Player.handle P σ ev = .ok (σ', acts)) : (NS σ → NS σ') ∧ DStep σ σ' := by
  have hQ₀ := QRoot_updσ P good 0 hQ
  have hG₀ := GRoot_updσ hs 0 hG
  have o0 : Ordinary P σ ({ σ with root := σ.root.upd P σ.pl 0 } : State) := fun _ _ _ F hok h0 => F.upd σ.pl σ.root 0 hok h0
  have key : ∀ {σ''}, ((NS ({ σ with root := σ.root.upd P σ.pl 0 } : State) → NS σ'') ∧
      DStep ({ σ with root := σ.root.upd P σ.pl 0 } : State) σ'') → ((NS σ → NS σ'') ∧ DStep σ σ'') :=
    fun hh => ⟨ns_pre o0 rfl hh.1, dstep_pre o0 rfl hh.2⟩
  have ord : ∀ {τ σ'' : State}, Ordinary P τ σ'' → σ''.pl.round = τ.pl.round → σ''.pl.period = τ.pl.period →
      (NS τ → NS σ'') ∧ DStep τ σ'' := fun o a b => ⟨ns_ordinary o a b, dstep_ordinary o⟩
  unfold Player.handle at h
  simp only [] at h
  cases ev with
  | vote verified bad r p s x =>
    simp only [] at h
    split at h
    · cases h
    rename_i σ₁ ef hv
    obtain ⟨q1, v1, p1⟩ := vaVote_spec P good hg (σ := ⟨_, _⟩) hQ₀ hev hv
    obtain ⟨g1, k1⟩ := vaVote_g hs hg (σ := ⟨_, _⟩) hQ₀ hG₀ hev hv
    have o1 : Ordinary P ({ σ with root := σ.root.upd P σ.pl 0 } : State) σ₁ := fun _ _ _ F hok h0 => (f_vaVote F hok h0 hv).1
    have r1 := key (ord o1 (by rw [p1]) (by rw [p1]))
    split at h
    · simp only [Except.ok.injEq, Prod.mk.injEq] at h; obtain ⟨rfl, _⟩ := h; exact r1
    · simp only [Except.ok.injEq, Prod.mk.injEq] at h; obtain ⟨rfl, _⟩ := h; exact r1
    · split at h <;> (simp only [Except.ok.injEq, Prod.mk.injEq] at h; obtain ⟨rfl, _⟩ := h; exact r1)
    · split at h
      · simp only [Except.ok.injEq, Prod.mk.injEq] at h; obtain ⟨rfl, _⟩ := h; exact r1
      split at h
      · cases h
      rename_i σ₂ a1 ht
      have r2 := handleThresh_nd hs hset _ _ _ _ _ q1 g1 v1 k1 ht
      simp only [Except.ok.injEq, Prod.mk.injEq] at h; obtain ⟨rfl, _⟩ := h
      exact key ⟨ns_pre o1 p1 r2.1, dstep_pre o1 p1 r2.2⟩
  | pvote verified bad v taskIndex tail =>
    exact key (handlePVote_nd hs hset (σ := ⟨_, _⟩) hQ₀ hG₀ h)
  | payload verified bad p own =>
    exact key (handlePayload_nd hs hset (σ := ⟨_, _⟩) hQ₀ hG₀ heva h)
  | bundle verified bad r p s value votes eqs =>
    simp only [] at h
    split at h
    · cases h
    rename_i σ₁ ef hv
    obtain ⟨q1, v1, p1⟩ := vaBundle_spec P good hg (σ := ⟨_, _⟩) hQ₀ hev hv
    obtain ⟨g1, k1⟩ := vaBundle_g hs hg (σ := ⟨_, _⟩) hQ₀ hG₀ hev hv
    have o1 : Ordinary P ({ σ with root := σ.root.upd P σ.pl 0 } : State) σ₁ := fun _ _ _ F hok h0 => (f_vaBundle F hok h0 hv).1
    have r1 := key (ord o1 (by rw [p1]) (by rw [p1]))
    split at h
    · simp only [Except.ok.injEq, Prod.mk.injEq] at h; obtain ⟨rfl, _⟩ := h; exact r1
    · simp only [Except.ok.injEq, Prod.mk.injEq] at h; obtain ⟨rfl, _⟩ := h; exact r1
    · simp only [Except.ok.injEq, Prod.mk.injEq] at h; obtain ⟨rfl, _⟩ := h; exact r1
    · split at h
      · cases h
      rename_i σ₂ a1 ht
      have r2 := handleThresh_nd hs hset _ _ _ _ _ q1 g1 v1 k1 ht
      simp only [Except.ok.injEq, Prod.mk.injEq] at h; obtain ⟨rfl, _⟩ := h
      exact key ⟨ns_pre o1 p1 r2.1, dstep_pre o1 p1 r2.2⟩
  | timeout entropy =>
    simp only [] at h
    split at h
    · split at h
      · cases h
      rename_i σ₁ acts₁ hsv
      obtain ⟨_, _, ⟨e1, e2, _, _⟩, _⟩ := issueSoftVote_a hs (σ := ⟨_, _⟩) hQ₀ hG₀ hsv
      simp only [Except.ok.injEq, Prod.mk.injEq] at h; obtain ⟨rfl, _⟩ := h
      have o1 : Ordinary P ({ σ with root := σ.root.upd P σ.pl 0 } : State)
          ({ σ₁ with pl := { σ₁.pl with step := 2 } } : State) := fun _ _ _ F hok h0 => by
        have := f_issueSoftVote F hok h0 hsv
        exact this
      exact key (ord o1 e1.symm e2.symm)
    have hq : ∀ pl', QRoot P good (⟨pl', σ.root.upd P σ.pl 0⟩ : State).root := fun _ => hQ₀
    have hgg : ∀ pl', GRoot G (⟨pl', σ.root.upd P σ.pl 0⟩ : State).root := fun _ => hG₀
    split at h
    · obtain ⟨_, _, e1, e2, _⟩ := issueNextVote_a hs (hq _) (hgg _) h
      have o1 : Ordinary P ({ σ with root := σ.root.upd P σ.pl 0 } : State) σ' := ordinary_next h rfl rfl rfl
      exact key (ord o1 e1 e2)
    split at h
    · obtain ⟨_, _, e1, e2, _⟩ := issueNextVote_a hs (hq _) (hgg _) h
      have o1 : Ordinary P ({ σ with root := σ.root.upd P σ.pl 0 } : State) σ' := ordinary_next h rfl rfl rfl
      exact key (ord o1 e1 e2)
    · simp only [Except.ok.injEq, Prod.mk.injEq] at h; obtain ⟨rfl, _⟩ := h
      exact key (ord (fun _ _ _ _ _ h0 => h0) rfl rfl)
  | fastTimeout entropy =>
    simp only [] at h
    split at h
    · simp only [Except.ok.injEq, Prod.mk.injEq] at h; obtain ⟨rfl, _⟩ := h
      exact key (ord (fun _ _ _ _ _ h0 => h0) rfl rfl)
    · have hq : ∀ pl', QRoot P good (⟨pl', σ.root.upd P σ.pl 0⟩ : State).root := fun _ => hQ₀
      have hgg : ∀ pl', GRoot G (⟨pl', σ.root.upd P σ.pl 0⟩ : State).root := fun _ => hG₀
      obtain ⟨_, _, _, _, _, e1, e2, _⟩ := issueFastVote_a hs hset (hq _) (hgg _) h
      have o1 : Ordinary P ({ σ with root := σ.root.upd P σ.pl 0 } : State) σ' := ordinary_fast h rfl rfl rfl
      exact key (ord o1 e1 e2)
  | roundInterruption r =>
    obtain ⟨_, _, e1, _⟩ := enterRoundK_a hs (handleThresh_a hs _) (σ := ⟨_, _⟩) hQ₀ hG₀ heva h
    refine ⟨fun hn => ?_, dstep_entered e1⟩
    have n0 : NRoot σ.pl.round σ.pl.period (σ.root.upd P σ.pl 0) := (nframe _ _).upd σ.pl σ.root 0 trivial hn
    exact enterRoundK_n hs (handleThresh_nd hs hset _) (σ := ⟨_, _⟩) hQ₀ hG₀ heva n0 h
  | checkpoint r p s err =>
    simp only [Except.ok.injEq, Prod.mk.injEq] at h; obtain ⟨rfl, _⟩ := h
    exact key (ord (fun _ _ _ _ _ h0 => h0) rfl rfl)

/-! ### along a run: `CommStable` -/

theorem lexLe_trans {a b c : PlayerF} (h1 : LexLe a b) (h2 : LexLe b c) : LexLe a c := by
  rcases h1 with h1 | ⟨h1, h1'⟩ <;> rcases h2 with h2 | ⟨h2, h2'⟩
  · exact Or.inl (Nat.lt_trans h1 h2)
  · exact Or.inl (h2 ▸ h1)
  · exact Or.inl (h1 ▸ h2)
  · exact Or.inr ⟨h1.trans h2, Nat.le_trans h1' h2'⟩

theorem samePer_split {a b c : PlayerF} (h1 : LexLe a b) (h2 : LexLe b c) (h : SamePer a c) : SamePer a b ∧ SamePer b c := by
  obtain ⟨hr, hp⟩ := h
  rcases h1 with h1 | ⟨h1, h1'⟩ <;> rcases h2 with h2 | ⟨h2, h2'⟩
  · omega
  · omega
  · omega
  · exact ⟨⟨h1, by omega⟩, ⟨h2, by omega⟩⟩

/-- the invariants carried along a run -/
structure SInvN (P : Params) (good : Nat → Nat → Nat → Vote → Bool) (G : Nat → Nat → PView → Prop) (σ : State) : Prop where
  s : SInv P good G σ
  n : NS σ

theorem sinvN_step (hs : GSpec P good G) (hset : ∀ r p vw, G r p vw → vw.staging ≠ 0 → vw.set = true)
    (hg : GoodSpec good) {σ σ' : State} {ev : Player.Event} {acts : List Action}
    (hI : SInvN P good G σ) (hev : EventOK good σ ev) (heva : EventOKA σ ev)
    (h : Player.handle P σ ev = .ok (σ', acts)) :
    SInvN P good G σ' ∧ HStep σ.pl σ' (atts acts) ∧ DStep σ σ' := by
  obtain ⟨h1, h2⟩ := sinv_step hs hset hg hI.s hev heva h
  obtain ⟨h3, h4⟩ := handle_nd hs hset hg hI.s.q hI.s.g hev heva h
  exact ⟨⟨h1, h3 hI.n⟩, h2, h4⟩

theorem snaps_lex (hs : GSpec P good G) (hset : ∀ r p vw, G r p vw → vw.staging ≠ 0 → vw.set = true)
    (hg : GoodSpec good) : ∀ (es : List Player.Event) (σ : State), SInvN P good G σ → RunOK P good σ es → RunOKA P σ es →
    ∀ y ∈ snaps P σ es, LexLe σ.pl y.1.pl ∧ SInvN P good G y.1 := by
  intro es
  induction es with
  | nil => intro σ _ _ _ y hy; cases hy
  | cons e rest ih =>
    intro σ hI hr hra y hy
    simp only [snaps] at hy
    split at hy
    · cases hy
    rename_i σ' as hh
    obtain ⟨hI', hst, _⟩ := sinvN_step hs hset hg hI hr.1 hra.1 hh
    rcases List.mem_cons.mp hy with rfl | hy
    · exact ⟨hst.lex, hI'⟩
    · obtain ⟨a, b⟩ := ih σ' hI' (hr.2 _ _ hh) (hra.2 _ _ hh) y hy
      exact ⟨lexLe_trans hst.lex a, b⟩

theorem droot_commVal {R p v : Nat} {root : Root} (h : DRoot R p v root) : commVal root R p = some v := by
  obtain ⟨rr, hrr, pr, h1, h2, _, _, h5⟩ := h
  rw [commVal_of_RAt ⟨hrr, h1⟩, h2, h5]; rfl

theorem droot_stagedIs {R p v : Nat} {root : Root} (h : DRoot R p v root) : StagedIs root R p v := by
  obtain ⟨rr, hrr, pr, h1, h2, h3, _, _⟩ := h
  exact stagedIs_of_PAt ⟨rr, hrr, h1⟩ h3 h2

/-- a committable value of the player's own (Round, Period) is not bottom, was staged by a threshold, and is relevant -/
theorem commVal_droot (hset : ∀ r p vw, G r p vw → vw.staging ≠ 0 → vw.set = true) {σ : State} {v : Nat}
    (hI : SInvN P good G σ) (h : commVal σ.root σ.pl.round σ.pl.period = some v) :
    v ≠ 0 ∧ DRoot σ.pl.round σ.pl.period v σ.root := by
  obtain ⟨rr, pr, hat⟩ := commVal_some h
  rw [commVal_of_RAt hat] at h
  split at h
  · rename_i hpay
    simp only [Option.some.injEq] at h
    have hN := hI.n (σ.pl.round, rr) (aget_mem hat.1)
    have hv : v ≠ 0 := by
      intro hv0
      rw [h, hv0] at hpay
      unfold Store.asm at hpay
      cases ha : aget rr.store.assemblers 0 with
      | none => rw [ha] at hpay; cases hpay
      | some ea => exact hN.1 (0, ea) (aget_mem ha) rfl
    have hset' : (pview pr).set = true :=
      hset _ _ _ (G_of_PAt hI.s.g ⟨rr, hat.1, hat.2⟩) (by show pr.ptracker.staging ≠ 0; rw [h]; exact hv)
    obtain ⟨_, _, hrel⟩ := hN.2 σ.pl.period pr hat.2 hset'
    refine ⟨hv, rr, hat.1, pr, hat.2, h, hset', ?_, ?_⟩
    · rw [← h]; exact hrel rfl (Nat.le_refl _)
    · rw [← h]; exact hpay
  · cases h

theorem comm_forward (hs : GSpec P good G) (hset : ∀ r p vw, G r p vw → vw.staging ≠ 0 → vw.set = true)
    (hg : GoodSpec good) : ∀ (es : List Player.Event) (σ : State) (as₀ : List Attest), SInvN P good G σ →
    RunOK P good σ es → RunOKA P σ es → ∀ v, v ≠ 0 → DRoot σ.pl.round σ.pl.period v σ.root →
    σ.pl.period + 1 < 18446744073709551616 → StagedStable ((σ, as₀) :: snaps P σ es) →
    ∀ y ∈ snaps P σ es, SamePer σ.pl y.1.pl → DRoot σ.pl.round σ.pl.period v y.1.root := by
  intro es
  induction es with
  | nil => intro σ _ _ _ _ _ _ _ _ _ y hy; cases hy
  | cons e rest ih =>
    intro σ as₀ hI hr hra v hv hD hfit hss y hy hsp
    simp only [snaps] at hy hss
    split at hy
    · cases hy
    rename_i σ' as hh
    rw [hh] at hss
    simp only [] at hss
    obtain ⟨hI', hst, hds⟩ := sinvN_step hs hset hg hI hr.1 hra.1 hh
    obtain ⟨hss1, hss2⟩ := List.pairwise_cons.mp hss
    have hlex' : ∀ z ∈ snaps P σ' rest, LexLe σ'.pl z.1.pl := fun z hz =>
      (snaps_lex hs hset hg rest σ' hI' (hr.2 _ _ hh) (hra.2 _ _ hh) z hz).1
    have hstep : SamePer σ.pl σ'.pl → DRoot σ.pl.round σ.pl.period v σ'.root := by
      intro hsp'
      rcases hds _ _ v hv ⟨rfl, rfl, hfit⟩ hD hsp' with hd | ⟨w, hne, hw⟩
      · exact hd
      · exfalso
        have hag := hss1 (σ', atts as) List.mem_cons_self hsp'
        exact hne (hag v w (stagedIs_iff.mp (droot_stagedIs hD)) (stagedIs_iff.mp hw)).symm
    rcases List.mem_cons.mp hy with rfl | hy
    · exact hstep hsp
    · obtain ⟨hsp1, hsp2⟩ := samePer_split hst.lex (hlex' y hy) hsp
      have hD' := hstep hsp1
      have := ih σ' (atts as) hI' (hr.2 _ _ hh) (hra.2 _ _ hh) v hv (by rw [← hsp1.1, ← hsp1.2]; exact hD')
        (by rw [← hsp1.2]; exact hfit) hss2 y hy hsp2
      rw [← hsp1.1, ← hsp1.2] at this
      exact this

/-- **CommStable holds along every run** of the fixed model: while the player stays in (r, p), a committable value of
(r, p) stays committable. -/
theorem comm_stable (hs : GSpec P good G) (hset : ∀ r p vw, G r p vw → vw.staging ≠ 0 → vw.set = true)
    (hg : GoodSpec good) : ∀ (es : List Player.Event) (σ : State), SInvN P good G σ → RunOK P good σ es → RunOKA P σ es →
    PeriodsFit (snaps P σ es) → StagedStable (snaps P σ es) → CommStable (snaps P σ es) := by
  intro es
  induction es with
  | nil => intro σ _ _ _ _ _; exact List.Pairwise.nil
  | cons e rest ih =>
    intro σ hI hr hra hpf hss
    simp only [snaps] at hpf hss ⊢
    split
    · exact List.Pairwise.nil
    rename_i σ' as hh
    rw [hh] at hpf hss
    simp only [] at hpf hss
    obtain ⟨hI', _, _⟩ := sinvN_step hs hset hg hI hr.1 hra.1 hh
    refine List.pairwise_cons.mpr ⟨?_, ih σ' hI' (hr.2 _ _ hh) (hra.2 _ _ hh)
      (fun x hx => hpf x (List.mem_cons_of_mem _ hx)) (List.pairwise_cons.mp hss).2⟩
    intro y hy hsp v hcv
    obtain ⟨hv, hD⟩ := commVal_droot hset hI' hcv
    exact droot_commVal (comm_forward hs hset hg rest σ' (atts as) hI' (hr.2 _ _ hh) (hra.2 _ _ hh) v hv hD
      (hpf _ List.mem_cons_self) hss y hy hsp)

end AlgoVerif.Lemmas.PlayerAttest
