import AlgoVerif.Lemmas.Vpack
/-! `initTables` establishes the invariant for every table size `newLRUTable` accepts up to 65536. -/
namespace AlgoVerif.Lemmas.Vpack
open AlgoVerif.Model.Vpack AlgoVerif.Spec.Vpack

/-- a number ≥ 16 with `n & (n-1) = 0` (a power of two) is a multiple of 16 -/
theorem pow2_mod16 (n : Nat) (h16 : 16 ≤ n) (hp : n &&& (n - 1) = 0) : n % 16 = 0 := by
  apply Classical.byContradiction
  intro hr
  have hq : n / 16 ≠ 0 := by omega
  obtain ⟨j, hj⟩ := Nat.exists_testBit_of_ne_zero hq
  have h1 : n.testBit (j + 4) = true := by
    rw [← Nat.testBit_div_two_pow (n := 4)]; exact hj
  have h2 : (n - 1).testBit (j + 4) = true := by
    rw [← Nat.testBit_div_two_pow (n := 4)]
    have : (n - 1) / 2 ^ 4 = n / 16 := by omega
    rw [this]; exact hj
  have h3 : (n &&& (n - 1)).testBit (j + 4) = true := by rw [Nat.testBit_and, h1, h2]; rfl
  rw [hp, Nat.zero_testBit] at h3
  cases h3

theorem newLRUTable_wf (n : Nat) (z : Bytes) (t : LruTable) (hn : n ≤ 65536) (h : newLRUTable n z = some t) : LruWF t := by
  unfold newLRUTable at h
  split at h
  · cases h
  · rename_i hc
    have h16 : 16 ≤ n := by omega
    have hp : n &&& (n - 1) = 0 := by
      apply Classical.byContradiction; intro hne; exact hc (Or.inr hne)
    have hm := pow2_mod16 n h16 hp
    simp only [Option.some.injEq] at h
    subst h
    refine ⟨?_, ?_, ?_, ?_⟩
    · show 1 ≤ n / 2; omega
    · show n / 2 ≤ 32768; omega
    · show (Array.replicate (n / 2) (z, z)).size = n / 2; exact Array.size_replicate
    · show n / 2 ≤ 8 * (Array.replicate (n / 2 / 8) (0 : UInt8)).size
      rw [Array.size_replicate]; omega

theorem init_wf (n : Nat) (s : TableState) (hn : n ≤ 65536) (h : TableState.init n = some s) : WF s := by
  unfold TableState.init at h
  split at h
  · rename_i a b c ha hb hc
    simp only [Option.some.injEq] at h
    subst h
    exact ⟨newLRUTable_wf n _ a hn ha, newLRUTable_wf n _ b hn hb, newLRUTable_wf n _ c hn hc,
      (show PropWindow.empty.size ≤ 7 by decide), (show PropWindow.empty.head < 7 by decide), (show (0 : Nat) < M64 by decide)⟩
  · cases h

end AlgoVerif.Lemmas.Vpack
