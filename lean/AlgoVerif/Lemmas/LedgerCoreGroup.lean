/-
Lemmas.LedgerCoreGroup — group level: the child of a group is well-formed and coherent, an accepted group is the commit of
that child, the views after the commit are the views through the child; multi-layer collapse.
-/
import AlgoVerif.Lemmas.LedgerCoreCow
import AlgoVerif.Lemmas.LedgerCoreMoney
namespace AlgoVerif.Lemmas.LedgerCore
open AlgoVerif.Model.LedgerCore

/-- the context of the child of a group evaluated on top of `top` -/
def childCtx (x : Ctx) (top : Layer) : Ctx := { x with parents := top :: x.parents }

theorem evalGroupChild_steps {P : Params} {x : Ctx} {top child : Layer} {used : Nat} {g : List Txn}
    (h : evalGroupChild P x top used g = .ok child) : Steps (childCtx x top) {} child := by
  unfold evalGroupChild at h
  split at h
  · cases h
  · split at h
    · cases h
    · split at h
      · cases h
      · rename_i c hc
        split at h
        · cases h
        · split at h
          · cases h
          · cases h
            exact groupLoop_steps _ _ _ _ _ hc

theorem evalGroupChild_wf {P : Params} {x : Ctx} {top child : Layer} {used : Nat} {g : List Txn}
    (h : evalGroupChild P x top used g = .ok child) : Layer.WF child :=
  wf_steps (evalGroupChild_steps h) wf_empty

theorem evalGroupChild_coherent {P : Params} {x : Ctx} {top child : Layer} {used : Nat} {g : List Txn}
    (h : evalGroupChild P x top used g = .ok child) : Coherent (childCtx x top) child :=
  coherent_steps (evalGroupChild_steps h) (coherent_empty _)

/-- an accepted non-empty group: the child evaluated to the end, committed; the payset extended -/
theorem evalGroup_ok {P : Params} {x : Ctx} {s s' : EvalState} {g : List Txn} (hg : g ≠ []) (h : evalGroup P x s g = .ok s') :
    ∃ child, evalGroupChild P x s.top s.txBytes g = .ok child ∧ s' = { top := commitToParent child s.top, payset := s.payset ++ g, txBytes := s.txBytes + groupBytes g } := by
  unfold evalGroup at h
  split at h
  · exact absurd rfl hg
  · split at h
    · cases h
    · rename_i child hc
      cases h
      exact ⟨child, hc, rfl⟩

/-! views after the commit -/

theorem acctOf_commit (x : Ctx) (c p : Layer) (hw : Layer.WF c) (a : Addr) :
    acctOf x (commitToParent c p) a = acctOf (childCtx x p) c a :=
  lookupAcct_commit c p x.parents x.base hw a

theorem paramsOf_commit (x : Ctx) (c p : Layer) (hw : Layer.WF c) (hc : Coherent (childCtx x p) c) (k : ResKey) :
    paramsOf x (commitToParent c p) k = paramsOf (childCtx x p) c k := by
  unfold paramsOf
  rw [lookupParamsD_commit c p x.parents x.base hw hc k]; rfl

theorem holdingOf_commit (x : Ctx) (c p : Layer) (hw : Layer.WF c) (hc : Coherent (childCtx x p) c) (k : ResKey) :
    holdingOf x (commitToParent c p) k = holdingOf (childCtx x p) c k := by
  unfold holdingOf
  rw [lookupHoldingD_commit c p x.parents x.base hw hc k]; rfl

theorem creatorOf_commit (x : Ctx) (c p : Layer) (hw : Layer.WF c) (i : AssetId) :
    creatorOf x (commitToParent c p) i = creatorOf (childCtx x p) c i :=
  lookupCreator_commit c p x.parents x.base hw i

/-- an empty child shows exactly what its parent shows -/
theorem acctOf_empty_child (x : Ctx) (p : Layer) (a : Addr) : acctOf (childCtx x p) {} a = acctOf x p a := rfl
theorem paramsOf_empty_child (x : Ctx) (p : Layer) (k : ResKey) : paramsOf (childCtx x p) {} k = paramsOf x p k := rfl
theorem holdingOf_empty_child (x : Ctx) (p : Layer) (k : ResKey) : holdingOf (childCtx x p) {} k = holdingOf x p k := rfl
theorem creatorOf_empty_child (x : Ctx) (p : Layer) (i : AssetId) : creatorOf (childCtx x p) {} i = creatorOf x p i := rfl

theorem money_commit (P : Params) (x : Ctx) (c p : Layer) (hw : Layer.WF c) (U : List Addr) :
    money P x (commitToParent c p) U = money P (childCtx x p) c U := by
  unfold money
  exact sum_map_congr _ _ (fun b _ => by rw [acctOf_commit x c p hw b])

/-- the addresses a group may touch -/
def groupAddrs (P : Params) (g : List Txn) : List Addr := g.flatMap (txnAddrs P)

theorem evalGroupChild_conserves {P : Params} {x : Ctx} {top child : Layer} {used : Nat} {g : List Txn} {U : List Addr}
    (hU : U.Nodup) (hA : ∀ a ∈ groupAddrs P g, a ∈ U) (h : evalGroupChild P x top used g = .ok child) :
    money P (childCtx x top) child U = money P x top U := by
  unfold evalGroupChild at h
  split at h
  · cases h
  · split at h
    · cases h
    · split at h
      · cases h
      · rename_i c hc
        split at h
        · cases h
        · split at h
          · cases h
          · cases h
            have := groupLoop_conserves (P := P) (x := childCtx x top) hU g used 0 {} child
              (fun t ht a ha => hA a (List.mem_flatMap.mpr ⟨t, ht, ha⟩)) hc
            rw [this]; rfl

/-! ## collapsing a whole stack of layers -/

/-- commit the innermost layer into its parent, the result into the next parent, … -/
def collapse : Layer → List Layer → Layer
  | c, [] => c
  | c, p :: ps => collapse (commitToParent c p) ps

/-- every layer of the stack is well-formed and coherent with the layers below it -/
def StackOK (b : Base) : List Layer → Prop
  | [] => True
  | l :: ls => Layer.WF l ∧ Coherent ⟨ls, b⟩ l ∧ StackOK b ls

theorem coherent_commit {c p : Layer} {ps : List Layer} {b : Base} (hw : Layer.WF c)
    (hc : Coherent ⟨p :: ps, b⟩ c) (hp : Coherent ⟨ps, b⟩ p) : Coherent ⟨ps, b⟩ (commitToParent c p) := by
  intro k r hr
  have : alookup k (mergeInto c.res p.res) = some r := hr
  rw [alookup_mergeInto _ _ hw.res] at this
  cases hk : alookup k c.res with
  | some r' =>
    rw [hk] at this
    simp only [Option.or] at this
    cases this
    obtain ⟨h1, h2⟩ := hc k r hk
    exact ⟨fun e => lookupParamsD_absent_tail (h1 e), fun e => lookupHoldingD_absent_tail (h2 e)⟩
  | none =>
    rw [hk] at this
    simp only [Option.or] at this
    exact hp k r this

end AlgoVerif.Lemmas.LedgerCore
