/-
Model.OpTables — the per-version opcode tables of data/transactions/logic and the version / mode / field gates of
`step` and `checkStep`.

Mirrors (Go → Lean):
  opcodes.go  OpSpec / OpDetails columns        → `Spec` (one OpSpecs row; all dumped columns, see Gen/OpTable.lean)
  opcodes.go  opsByOpcode [LogicVersion+1][256]  → `buildTables rows : Nat → Table`, `Table = List Cell` (256 cells)
  opcodes.go  addToSubOps                        → `addToSubOps`
  opcodes.go  init()                             → `tableAt` (v1 base, v0 alias with Version := 0, copy-then-overwrite per version)
  eval.go     GetOpSpec                          → `getSpec`
  eval.go     begin (version gates)              → `beginVerdict`
  eval.go     step / checkStep (spec, mode)      → `opVerdict`
  eval.go     op*: `!ok || fs.version > cx.version`, `(cx.runMode & fs.mode) == 0`, hidden names → `fieldVerdict`

Core Lean only (no Mathlib): the driver links it.
-/
namespace Model.OpTables

/-- one immediate of an opcode -/
structure Imm where
  name : String
  kind : Nat          -- immKind enum
  group : String      -- key of the field group consulted at run time ("" = none)
  declGroup : String  -- key of the field group named in OpSpecs
  deriving DecidableEq, Repr, Inhabited

/-- one OpSpecs row (also: one entry of a built table; table 0 holds copies with `version := 0`) -/
structure Spec where
  id : Nat
  opcode : Nat
  sub : Nat           -- 0 = single byte opcode
  name : String
  version : Nat
  modes : Nat         -- bit mask, 1 = ModeSig, 2 = ModeApp
  size : Nat
  imms : List Imm
  args : List Nat
  rets : List Nat
  argNames : List String
  retNames : List String
  trusted : Bool
  hasCheck : Bool
  baseCost : Nat
  chunkCost : Nat
  chunkSize : Nat
  depth : Nat
  fieldCost : Bool
  fn : String
  touches : List String
  ungated : List String
  deriving DecidableEq, Repr, Inhabited

structure FieldRow where
  idx : Nat
  name : String       -- "" = slot hidden in this group
  version : Nat
  modes : Nat
  touches : List String
  deriving DecidableEq, Repr, Inhabited

structure Group where
  key : String
  name : String
  fields : List FieldRow
  deriving DecidableEq, Repr, Inhabited

/-- one entry of `[256]OpSpec`: the OpSpec itself (`none` ⇔ `op == nil`) and its `SubOps` slice (`[]` ⇔ nil) -/
structure Cell where
  spec : Option Spec
  subs : List (Option Spec)
  deriving DecidableEq, Repr, Inhabited

abbrev Table := List Cell

def emptyCell : Cell := ⟨none, []⟩
def emptyTable : Table := List.replicate 256 emptyCell

def modeSig : Nat := 1
def modeApp : Nat := 2

/-- `(cx.runMode & spec.Modes) != 0` for the two run modes -/
def allows (modes mode : Nat) : Bool := (modes &&& mode) != 0

/-- pad with zero OpSpecs until index `n` exists:  `for sub >= len(prefix.SubOps) { append(…, OpSpec{}) }` -/
def padTo (l : List (Option Spec)) (n : Nat) : List (Option Spec) :=
  l ++ List.replicate (n + 1 - l.length) none

/-- opcodes.go:addToSubOps -/
def addToSubOps (t : Table) (oi : Spec) : Table :=
  match t[oi.opcode]? with
  | none => t                                  -- opcode byte out of range: cannot happen for a Go `byte`
  | some c => t.set oi.opcode { c with subs := (padTo c.subs oi.sub).set oi.sub (some oi) }

/-- the body of both loops of init(): `if oi.SubOpcode != 0 { addToSubOps } else { table[oi.Opcode] = oi }`.
    The plain assignment replaces the WHOLE cell, SubOps included (an OpSpecs row has nil SubOps). -/
def addRow (t : Table) (oi : Spec) : Table :=
  if oi.sub ≠ 0 then addToSubOps t oi else t.set oi.opcode ⟨some oi, []⟩

/-- `for _, oi := range OpSpecs { if oi.Version == v { … } }` on top of table `t` -/
def overlay (rows : List Spec) (v : Nat) (t : Table) : Table :=
  rows.foldl (fun t oi => if oi.version = v then addRow t oi else t) t

/-- table 0: version-1 rows with Version overwritten to 0 -/
def overlay0 (rows : List Spec) (t : Table) : Table :=
  rows.foldl (fun t oi => if oi.version = 1 then addRow t { oi with version := 0 } else t) t

/-- opcodes.go:init — `opsByOpcode[v]`.  v0 and v1 are built from the version-1 rows; every later table is a copy of its
    predecessor (SubOps slices cloned, i.e. value semantics) overwritten by the rows of exactly that version. -/
def tableAt (rows : List Spec) : Nat → Table
  | 0 => overlay0 rows emptyTable
  | 1 => overlay rows 1 emptyTable
  | v + 2 => overlay rows (v + 2) (tableAt rows (v + 1))

/-- the whole family of tables (`opsByOpcode`) as a function of the version -/
def buildTables (rows : List Spec) : Nat → Table := tableAt rows

/-- eval.go:GetOpSpec. `next` is the byte after the opcode when the program has one. -/
def getSpec (tbl : Nat → Table) (v op : Nat) (next : Option Nat) : Option Spec :=
  match (tbl v)[op]? with
  | none => none
  | some c =>
    match c.subs, next with
    | [], _ => c.spec
    | _ :: _, none => c.spec
    | subs@(_ :: _), some sub =>
      match subs[sub]? with
      | some (some s) => some s
      | _ => c.spec

/-! ### verdicts -/

inductive Verdict
  | badver      -- begin: version > LogicVersion
  | minver      -- begin: version < minAvmVersion of the group
  | toonew      -- illegal opcode / improper sub-opcode: no spec in the table of this version
  | wrongmode   -- "<op> not allowed in current mode"
  | badfield    -- "invalid <…> field": field hidden in the op's group, unknown, or introduced after the program version
  | fieldmode   -- "<group>[<field>] not allowed in current mode"
  | pass        -- none of the above: the instruction is executed (it may still fail for other run-time reasons)
  deriving DecidableEq, Repr, Inhabited

def Verdict.toString : Verdict → String
  | .badver => "badver" | .minver => "minver" | .toonew => "toonew" | .wrongmode => "wrongmode"
  | .badfield => "badfield" | .fieldmode => "fieldmode" | .pass => "pass"

/-- eval.go:begin, the two version gates that do not depend on the protocol (`Proto.LogicSigVersion` is ≥ LogicVersion in
    the harness environment). -/
def beginVerdict (lv minv v : Nat) : Option Verdict :=
  if v > lv then some .badver else if v < minv then some .minver else none

/-- the part shared by step and checkStep: spec lookup, then the mode mask -/
def opVerdict (tbl : Nat → Table) (lv minv v mode op : Nat) (next : Option Nat) : Verdict × Option Spec :=
  match beginVerdict lv minv v with
  | some e => (e, none)
  | none =>
    match getSpec tbl v op next with
    | none => (.toonew, none)
    | some s => if allows s.modes mode then (.pass, some s) else (.wrongmode, some s)

def findGroup (groups : List Group) (key : String) : Option Group := groups.find? (·.key == key)

/-- the run-time gate of one field immediate: `spec, ok := …SpecByField(f); if !ok || spec.version > cx.version` (a slot
    hidden in the op's group is rejected by the same message), then `(cx.runMode & spec.mode) == 0`. -/
def fieldGate (g : Group) (v mode f : Nat) : Verdict :=
  match g.fields[f]? with
  | none => .badfield
  | some fr =>
    if fr.name = "" then .badfield
    else if fr.version > v then .badfield
    else if ¬ allows fr.modes mode then .fieldmode
    else .pass

/-- bytes of the immediates start after the opcode (and the sub-opcode byte of a multi-byte opcode) -/
def immBase (s : Spec) (pc : Nat) : Nat := pc + 1 + (if s.sub ≠ 0 then 1 else 0)

/-- all field immediates of `s` (every field-carrying op has only single-byte immediates before its field) -/
def fieldVerdict (groups : List Group) (prog : List Nat) (pc v mode : Nat) (s : Spec) : Verdict :=
  let rec go (imms : List Imm) (i : Nat) : Verdict :=
    match imms with
    | [] => .pass
    | im :: rest =>
      if im.group = "" then go rest (i + 1) else
      match findGroup groups im.group, prog[immBase s pc + i]? with
      | some g, some f =>
        match fieldGate g v mode f with
        | .pass => go rest (i + 1)
        | e => e
      | _, _ => go rest (i + 1)   -- byte absent (excluded by sizeOk) / group unknown to the model: no verdict from this one
  go s.imms 0

/-- `opCompat`: expected avmAny (1) accepts everything, otherwise the avm types must be equal -/
def opCompat (expected got : Nat) : Bool := expected == 1 || expected == got

/-- step's argument check: enough values, and the top `args.length` values have compatible avm types
    (`stk` lists the avm types on the stack, bottom first) -/
def stackOk (args stk : List Nat) : Bool :=
  args.length ≤ stk.length && (List.zipWith opCompat args (stk.drop (stk.length - args.length))).all id

/-- `deets.Size != 0 && pc+deets.Size > len(program)` -/
def sizeOk (s : Spec) (prog : List Nat) (pc : Nat) : Bool := s.size = 0 || pc + s.size ≤ prog.length

/-- eval.go:step up to and including the op's own field gates. Order as in the code: begin gates, spec lookup, mode mask,
    stack underflow / argument types, immediate size (both are ordinary run-time errors: `pass`), then the op body whose
    first action on a field immediate is the field gate. `stk` = avm types on the stack when `pc` is reached. -/
def stepVerdict (tbl : Nat → Table) (groups : List Group) (lv minv mode : Nat) (prog : List Nat) (pc : Nat)
    (stk : List Nat) : Verdict :=
  match prog with
  | [] => .badver
  | v :: _ =>
    match prog[pc]? with
    | none => .pass
    | some op =>
      match opVerdict tbl lv minv v mode op prog[pc + 1]? with
      | (.pass, some s) =>
        if stackOk s.args stk && sizeOk s prog pc then fieldVerdict groups prog pc v mode s else .pass
      | (e, _) => e

/-- eval.go:checkStep: spec lookup and mode mask only (field immediates are not inspected statically) -/
def checkVerdict (tbl : Nat → Table) (lv minv mode : Nat) (prog : List Nat) (pc : Nat) : Verdict :=
  match prog with
  | [] => .badver
  | v :: _ =>
    match prog[pc]? with
    | none => .pass
    | some op => (opVerdict tbl lv minv v mode op prog[pc + 1]?).1

/-! ### keys used to compare with the dumped real tables -/

abbrev SpecKey := Nat × Nat                                   -- (row id, Version field)
abbrev BuiltCell := Nat × Option SpecKey × List (Option SpecKey)   -- (opcode, spec, SubOps)

def specKey (s : Spec) : SpecKey := (s.id, s.version)

def cellKeys (t : Table) : List BuiltCell :=
  let rec go (cs : List Cell) (i : Nat) : List BuiltCell :=
    match cs with
    | [] => []
    | c :: rest =>
      if c.spec.isNone && c.subs.isEmpty then go rest (i + 1)
      else (i, c.spec.map specKey, c.subs.map (·.map specKey)) :: go rest (i + 1)
  go t 0

end Model.OpTables
