/-!
# Model.AgreementSvc — attest → persist → checkpoint → release (C02, C07)

One node of `agreement.Service` seen from its crash database.  Code modelled (go-algorand `agreement/`):

* `service.go: mainLoop` — `status, a = router.submitTop(…, e)`; `if persistent(a) { s.persistRouter/Status/Actions = router/status/a }`
  (label `handle e`; the *stash* is `persistRouter/persistStatus/persistActions`); the next event is only taken after
  `demuxLoop` executed every action of `a` (`pend = []`);  the restore path
  (`restore`, `decode`; then `s.persistRouter/Status/Actions = router/status/a` — commit 7a74b7193e) is label `crash`;
* `actions.go: pseudonodeAction.do`, attest branch — `persistStateDone := make(chan error)`; `MakeVotes(…, persistStateDone)`
  (a vote task that waits on the channel); `s.persistState(persistStateDone)` (= `encode` of the stash, enqueued)  (label `doAttest id`,
  `id` names the channel);
* `persistence.go: asyncPersistenceLoop.loop` — FIFO: `persist(raw)`, then `checkpointEvent{Err, done}`  (label `persisted ok`);
* `actions.go: checkpointAction.do` — `c.done <- c.Err` / `close(c.done)`  (label `checkpoint id`);
* `pseudonode.go: pseudonodeVotesTask.execute` — waits on `persistStateDone`; outputs its votes iff the channel was closed
  without an error  (label `release id`).

Only the `attest` actions of an action list matter here (`pseudonodeAction.persistent()` is true exactly for them), so the
player/router is abstract: a state type `Sg`, an event type `E` and `handle : Sg → E → Sg × List Attest` giving the attest
actions of each handle.  The persistStateDone channel, the persist request that carries it and the vote task that waits on
it are one record (`U`): `queued → persisted ok → closed ok`.

Ghost fields (`log`): the events handled on the current *logical run* (newest first).  A crash reverts the node to the run
prefix stored in the crash DB image `pi`; `Image.log` records which prefix an image is.  Ghost fields influence no step.

`step fixed`: `fixed = true` is the restore path of the current code (the restored state is also the state to persist);
`fixed = false` is the code before commit 7a74b7193e (the stash stayed zero-valued after a restore) — kept to document the defect
(`Props.C02.zero_state_persisted_allows_equivocation`).

What is NOT modelled: proposal-step votes (`assemble`/`repropose`: released without persistence by design), several
participation keys (a task makes one vote per key, all for the attest's value), `errPseudonodeNoVotes`/backlog-full
(no task is created), Go channel and goroutine behaviour (represented by the order of labels = the hook trace).
-/
namespace AlgoVerif.Model.AgreementSvc

/-- an `attest` action / the vote it produces: (round, period, step, value) -/
structure Attest where
  r : Nat
  p : Nat
  s : Nat
  v : Nat
  deriving DecidableEq, Repr

/-- the abstract player + router -/
structure Player (Sg E : Type) where
  init : Sg
  handle : Sg → E → Sg × List Attest

/-- the crash-DB row / the stash: (router, player), the action list, and (ghost) the run prefix it was taken at -/
structure Image (Sg E : Type) where
  st : Sg
  acts : List Attest
  log : List E

inductive Phase
  | queued                    -- persist request in `asyncPersistenceLoop.pending`, channel open
  | persisted (ok : Bool)     -- `persist` returned, checkpointEvent on its way
  | closed (ok : Bool)        -- checkpointAction.do ran: channel closed (ok) / error sent
  deriving DecidableEq, Repr

/-- one persistStateDone channel with the persist request and the vote task holding it -/
structure U (Sg E : Type) where
  id : Nat
  a : Attest
  img : Image Sg E
  ph : Phase

structure State (Sg E : Type) where
  sg : Sg                       -- live router + player
  log : List E                  -- ghost: events of the logical run, newest first
  stash : Image Sg E            -- s.persistRouter / persistStatus / persistActions
  pend : List Attest            -- attest actions not yet executed by demuxLoop
  units : List (U Sg E)         -- FIFO
  pi : Option (Image Sg E)      -- the crash DB
  rho : List Attest             -- released votes (survives crashes: they are on the network)

inductive Label (E : Type)
  | handle (e : E)
  | doAttest (id : Nat)
  | persisted (ok : Bool)
  | checkpoint (id : Nat)
  | release (id : Nat)
  | crash

variable {Sg E : Type}

def zeroImage (P : Player Sg E) : Image Sg E := ⟨P.init, [], []⟩

def init (P : Player Sg E) : State Sg E :=
  { sg := P.init, log := [], stash := zeroImage P, pend := [], units := [], pi := none, rho := [] }

/-- state / attest actions of a run (newest event first) -/
def runSt (P : Player Sg E) : List E → Sg
  | [] => P.init
  | e :: l => (P.handle (runSt P l) e).1

def allAtt (P : Player Sg E) : List E → List Attest
  | [] => []
  | e :: l => (P.handle (runSt P l) e).2 ++ allAtt P l

/-- apply `f` to the first unit satisfying `q`; returns that unit and the new list -/
def updFirst (q : U Sg E → Bool) (f : U Sg E → U Sg E) : List (U Sg E) → Option (U Sg E × List (U Sg E))
  | [] => none
  | u :: l =>
    if q u then some (u, f u :: l)
    else match updFirst q f l with
      | none => none
      | some (x, l') => some (x, u :: l')

def setPh (ph : Phase) (u : U Sg E) : U Sg E := { u with ph := ph }

def isQueued (u : U Sg E) : Bool := u.ph == .queued
def isPersisted (id : Nat) (u : U Sg E) : Bool :=
  u.id == id && (u.ph == .persisted true || u.ph == .persisted false)
def isClosedOk (id : Nat) (u : U Sg E) : Bool := u.id == id && u.ph == .closed true

def closePh : Phase → Phase
  | .persisted ok => .closed ok
  | ph => ph

def step (P : Player Sg E) (fixed : Bool) (s : State Sg E) : Label E → Option (State Sg E)
  | .handle e =>
    match s.pend with
    | [] =>
      let r := P.handle s.sg e
      let log' := e :: s.log
      some { s with sg := r.1, log := log', pend := r.2,
                    stash := if r.2.isEmpty then s.stash else ⟨r.1, r.2, log'⟩ }
    | _ :: _ => none
  | .doAttest id =>
    match s.pend with
    | [] => none
    | a :: rest => some { s with pend := rest, units := s.units ++ [⟨id, a, s.stash, .queued⟩] }
  | .persisted ok =>
    match updFirst isQueued (setPh (.persisted ok)) s.units with
    | none => none
    | some (u, us) => some { s with units := us, pi := if ok then some u.img else s.pi }
  | .checkpoint id =>
    match updFirst (isPersisted id) (fun u => setPh (closePh u.ph) u) s.units with
    | none => none
    | some (_, us) => some { s with units := us }
  | .release id =>
    match updFirst (isClosedOk id) (fun u => u) s.units with
    | none => none
    | some (u, _) => some { s with rho := u.a :: s.rho }
  | .crash =>
    match s.pi with
    | none => some { init P with rho := s.rho }
    | some im =>
      some { sg := im.st, log := im.log, stash := if fixed then im else zeroImage P, pend := im.acts,
             units := [], pi := s.pi, rho := s.rho }

def run (P : Player Sg E) (fixed : Bool) : State Sg E → List (Label E) → Option (State Sg E)
  | s, [] => some s
  | s, l :: ls => match step P fixed s l with
    | none => none
    | some s' => run P fixed s' ls

/-! ### the trace player: the event carries what the real `handle` returned (player triple after the handle, attests) -/

abbrev Status := Nat × Nat × Nat

def tracePlayer : Player Status (Status × List Attest) := ⟨(0, 0, 0), fun _ e => e⟩

end AlgoVerif.Model.AgreementSvc
