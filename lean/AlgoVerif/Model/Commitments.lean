/-
Model of the commitment checks of C29, as coded (core Lean only):

 * data/transactions/transaction.go   `Transaction.ID` = H("TX" ‖ msgpack(tx)), `TxGroup.ToBeHashed` = ("TG", msgpack(TxGroup)),
                                       `IDSha256`
 * ledger/eval/eval.go                the group part of `BlockEvaluator.TransactionGroup` / `TestTransactionGroup`
                                       (size bound, "same Group value as member 0", "zero Group only in a group of one",
                                        `txgroup[0].Txn.Group == crypto.HashObj(group)` when any id was collected)
 * data/transactions/payset.go        `Payset.CommitFlat` = H("PF" ‖ msgpack(payset)), nil payset when empty
 * data/bookkeeping/txn_merkle.go     leaves "TL" ‖ txid ‖ H("STIB" ‖ msgpack(stib)); SHA-512/256 plain Merkle tree, SHA-256 and
                                       SHA-512 vector commitments (both of the latter over the SHA-256 leaf components: the `else`
                                       branch of `RawLeaf`)
 * data/bookkeeping/block.go          `PaysetCommit`, `paysetCommit`, `paysetCommitSHA256/512` (root copied into a zeroed
                                       fixed-size array), `ContentsMatchHeader`, the first four checks of `BlockHeader.PreCheck`

Parameters (plain function arguments): the three hash functions, the canonical msgpack encoders of Transaction /
TxGroup / SignedTxnInBlock / Payset / BlockHeader, `BlockHeader.DecodeSignedTxn` for the block's header (`none` = error), and
`txOk` / `later` for the parts of the evaluator / PreCheck that are not about commitments.  The Merkle trees are
`Model.MerkleArray.build / buildVC` (C37; `Build` does not depend on the Verify-side facts `fixedOff` / `checkDepth` /
`checkHash` when digests have the hash's size, so the configurations fix them to the repaired values).  A concrete msgpack `TxGroup` encoder (`msgpackGroup`) is given for the driver.

Not modelled: the `WellFormed` pre-pass and everything `eval.transaction` does besides failing or not (`txOk`), fee checks after
the group check, the remaining checks of PreCheck (`later`), `logging`.
-/
import AlgoVerif.Model.MerkleArray
import AlgoVerif.Base.Msgpack
namespace Model.Commitments
open Model.MerkleArray (Cfg zeros build buildVC Tree)

abbrev Bytes := List UInt8

/-! ## domain separation prefixes (protocol/hash.go) -/
/-- protocol.Transaction = "TX" -/
def tagTX : Bytes := [84, 88]
/-- protocol.TxGroup = "TG" -/
def tagTG : Bytes := [84, 71]
/-- protocol.TxnMerkleLeaf = "TL" -/
def tagTL : Bytes := [84, 76]
/-- protocol.SignedTxnInBlock = "STIB" -/
def tagSTIB : Bytes := [83, 84, 73, 66]
/-- protocol.PaysetFlat = "PF" -/
def tagPF : Bytes := [80, 70]
/-- protocol.BlockHeader = "BH" -/
def tagBH : Bytes := [66, 72]

/-- `crypto.Digest{}` -/
def zeroDigest : Bytes := zeros 32
/-- `crypto.Sha512Digest{}` -/
def zeroDigest512 : Bytes := zeros 64

/-- a transaction: the `Group` field and everything else -/
structure Tx (β : Type) where
  group : Bytes
  body : β

/-- `txWithoutGroup := txn.Txn; txWithoutGroup.Group = crypto.Digest{}` -/
def Tx.zeroGroup {β : Type} (t : Tx β) : Tx β := { t with group := zeroDigest }

/-! ## transaction ids and the group hash -/

structure GEnv (β : Type) where
  /-- crypto.Hash (SHA-512/256) -/
  H : Bytes → Bytes
  /-- protocol.Encode(&tx) -/
  encTx : Tx β → Bytes
  /-- protocol.Encode(&TxGroup{TxGroupHashes: ids}) -/
  encGroup : List Bytes → Bytes

variable {β : Type}

/-- `Transaction.ID()` -/
def txid (e : GEnv β) (t : Tx β) : Bytes := e.H (tagTX ++ e.encTx t)

/-- the id the evaluator appends to `group.TxGroupHashes` -/
def txid0 (e : GEnv β) (t : Tx β) : Bytes := txid e t.zeroGroup

/-- `crypto.HashObj(TxGroup{TxGroupHashes: ids})` -/
def groupHash (e : GEnv β) (ids : List Bytes) : Bytes := e.H (tagTG ++ e.encGroup ids)

/-- the group id of a member list: hash of the LIST of the members' ids with the Group field zeroed -/
def groupId (e : GEnv β) (g : List (Tx β)) : Bytes := groupHash e (g.map (txid0 e))

inductive GErr
  | tooLarge
  /-- `eval.transaction` / `eval.testTransaction` refused member `gi` -/
  | txn (gi : Nat)
  | inconsistent (gi : Nat)
  | emptyGroup (gi : Nat)
  | incomplete
deriving DecidableEq, Repr

/-- the `for gi, txad := range txgroup` loop; `n = len(txgroup)`, `g0 = txgroup[0].Txn.Group`, `acc = group.TxGroupHashes` -/
def groupLoop (e : GEnv β) (txOk : Nat → Tx β → Bool) (g0 : Bytes) (n : Nat) :
    Nat → List (Tx β) → List Bytes → Except GErr (List Bytes)
  | _, [], acc => .ok acc
  | gi, t :: rest, acc =>
    if txOk gi t = false then .error (.txn gi)
    else if t.group ≠ g0 then .error (.inconsistent gi)
    else if t.group ≠ zeroDigest then groupLoop e txOk g0 n (gi + 1) rest (acc ++ [txid0 e t])
    else if 1 < n then .error (.emptyGroup gi)
    else groupLoop e txOk g0 n (gi + 1) rest acc

/-- the group part of `BlockEvaluator.TransactionGroup` (and of `TestTransactionGroup`) -/
def transactionGroup (e : GEnv β) (maxSize : Nat) (txOk : Nat → Tx β → Bool) (g : List (Tx β)) : Except GErr Unit :=
  match g with
  | [] => .ok ()
  | t0 :: _ =>
    if maxSize < g.length then .error .tooLarge
    else
      match groupLoop e txOk t0.group g.length 0 g [] with
      | .error x => .error x
      | .ok ids =>
        if ids ≠ [] then
          (if t0.group ≠ groupHash e ids then .error .incomplete else .ok ())
        else .ok ()

/-- the evaluator accepts the member list as one group (with every per-transaction step succeeding) -/
def groupValid (e : GEnv β) (maxSize : Nat) (g : List (Tx β)) : Prop :=
  transactionGroup e maxSize (fun _ _ => true) g = .ok ()

/-- msgpack of `TxGroup{TxGroupHashes: ids}` (`codec:"txlist"`, omitempty) -/
def txGroupV (ids : List Bytes) : AlgoVerif.Msgpack.V :=
  if ids = [] then .map []
  else .map [(.str [116, 120, 108, 105, 115, 116], .arr (ids.map .bin))]

def msgpackGroup (ids : List Bytes) : Bytes := AlgoVerif.Msgpack.enc (txGroupV ids)

/-! ## payset commitments -/

inductive PCType
  /-- config.PaysetCommitUnsupported -/
  | unsupported
  | flat
  | merkle
deriving DecidableEq, Repr

structure Params where
  paysetCommit : PCType
  /-- EnableSHA256TxnCommitmentHeader -/
  sha256 : Bool
  /-- EnableSha512BlockHash -/
  sha512 : Bool
deriving DecidableEq, Repr

structure TxnCommitments where
  native : Bytes
  sha256 : Bytes
  sha512 : Bytes
deriving DecidableEq, Repr

structure BEnv (β σ : Type) where
  H : Bytes → Bytes
  H256 : Bytes → Bytes
  H512 : Bytes → Bytes
  encTx : Tx β → Bytes
  /-- protocol.Encode(&stib) -/
  encStib : σ → Bytes
  /-- protocol.Encode(payset) where an empty payset has been replaced by nil -/
  encPayset : List σ → Bytes
  /-- `block.DecodeSignedTxn(stib)` under the block's header: the transaction with GenesisID / GenesisHash restored -/
  decodeTx : σ → Option (Tx β)

structure Block (σ : Type) where
  /-- `config.Consensus[block.CurrentProtocol]` -/
  params : Option Params
  /-- `block.BlockHeader.TxnCommitments` -/
  commitments : TxnCommitments
  payset : List σ

variable {σ : Type}

/-- `copy(rootAsByteArray[:], rootSlice)` into a zeroed array of `n` bytes -/
def fit (n : Nat) (b : Bytes) : Bytes := (b ++ zeros n).take n

/-- `Payset.CommitFlat` -/
def commitFlat (e : BEnv β σ) (ps : List σ) : Bytes := e.H (tagPF ++ e.encPayset ps)

/-- `txnMerkleArray.Marshal` for every position: `none` when `DecodeSignedTxn` fails for some entry -/
def decodeAll (e : BEnv β σ) : List σ → Option (List (σ × Tx β))
  | [] => some []
  | s :: rest =>
    match e.decodeTx s with
    | none => none
    | some t =>
      match decodeAll e rest with
      | none => none
      | some r => some ((s, t) :: r)

/-- `HashRepresentation` of a `txnMerkleElem` with hashType Sha512_256: "TL" ‖ txn.ID() ‖ stib.Hash() -/
def leafNative (e : BEnv β σ) (st : σ × Tx β) : Bytes :=
  tagTL ++ (e.H (tagTX ++ e.encTx st.2) ++ e.H (tagSTIB ++ e.encStib st.1))

/-- … with any other hashType (SHA-256 and, as coded, SHA-512 too): "TL" ‖ txn.IDSha256() ‖ stib.HashSHA256() -/
def leaf256 (e : BEnv β σ) (st : σ × Tx β) : Bytes :=
  tagTL ++ (e.H256 (tagTX ++ e.encTx st.2) ++ e.H256 (tagSTIB ++ e.encStib st.1))

def cfgNative (e : BEnv β σ) : Cfg :=
  { H := e.H, d := 32, fixedOff := true, checkDepth := true, hashValid := true, checkHash := true }
def cfg256 (e : BEnv β σ) : Cfg :=
  { H := e.H256, d := 32, fixedOff := true, checkDepth := true, hashValid := true, checkHash := true }
def cfg512 (e : BEnv β σ) : Cfg :=
  { H := e.H512, d := 64, fixedOff := true, checkDepth := true, hashValid := true, checkHash := true }

inductive CErr
  /-- `config.Consensus[block.CurrentProtocol]` missing -/
  | unsupportedProto
  | unsupportedType
  /-- `DecodeSignedTxn` failed inside `Marshal` -/
  | decode
  /-- merklearray panicked / ran out of fuel (never: `Props.C37.build_ok`) -/
  | merkle
deriving DecidableEq, Repr

/-- `tree.Root()` copied into a zeroed `n`-byte array -/
def rootOf (n : Nat) (r : Except MerkleArray.BErr Tree) : Except CErr Bytes :=
  match r with
  | .error _ => .error .merkle
  | .ok t =>
    match t.root with
    | none => .error .merkle
    | some root => .ok (fit n root)

/-- `block.TxnMerkleTree()` root -/
def merkleNative (e : BEnv β σ) (ps : List σ) : Except CErr Bytes :=
  match decodeAll e ps with
  | none => .error .decode
  | some ts => rootOf 32 (build (cfgNative e) (ts.map (leafNative e)))

/-- `block.paysetCommit(t)` -/
def paysetCommitNative (e : BEnv β σ) (t : PCType) (ps : List σ) : Except CErr Bytes :=
  match t with
  | .flat => .ok (commitFlat e ps)
  | .merkle => merkleNative e ps
  | .unsupported => .error .unsupportedType

/-- `block.paysetCommitSHA256()` -/
def paysetCommitSHA256 (e : BEnv β σ) (ps : List σ) : Except CErr Bytes :=
  match decodeAll e ps with
  | none => .error .decode
  | some ts => rootOf 32 (buildVC (cfg256 e) (ts.map (leaf256 e)))

/-- `block.paysetCommitSHA512()` -/
def paysetCommitSHA512 (e : BEnv β σ) (ps : List σ) : Except CErr Bytes :=
  match decodeAll e ps with
  | none => .error .decode
  | some ts => rootOf 64 (buildVC (cfg512 e) (ts.map (leaf256 e)))

/-- `Block.PaysetCommit` -/
def paysetCommit (e : BEnv β σ) (b : Block σ) : Except CErr TxnCommitments :=
  match b.params with
  | none => .error .unsupportedProto
  | some p =>
    match paysetCommitNative e p.paysetCommit b.payset with
    | .error x => .error x
    | .ok dN =>
      match (if p.sha256 then paysetCommitSHA256 e b.payset else .ok zeroDigest) with
      | .error x => .error x
      | .ok d256 =>
        match (if p.sha512 then paysetCommitSHA512 e b.payset else .ok zeroDigest512) with
        | .error x => .error x
        | .ok d512 => .ok ⟨dN, d256, d512⟩

/-- `Block.ContentsMatchHeader` -/
def contentsMatchHeader (e : BEnv β σ) (b : Block σ) : Bool :=
  match paysetCommit e b with
  | .error _ => false
  | .ok c => decide (c = b.commitments)

/-! ## PreCheck: protocol, round, Branch, Branch512 -/

structure Hdr (ρ : Type) where
  round : Nat
  /-- `Branch` -/
  branch : Bytes
  /-- `Branch512` -/
  branch512 : Bytes
  /-- `config.Consensus[bh.CurrentProtocol]`, reduced to `EnableSha512BlockHash` -/
  sha512 : Option Bool
  rest : ρ

structure HEnv (ρ : Type) where
  H : Bytes → Bytes
  H512 : Bytes → Bytes
  /-- protocol.Encode(&bh) -/
  encHdr : Hdr ρ → Bytes

variable {ρ : Type}

/-- `BlockHeader.Hash()` -/
def hdrHash (e : HEnv ρ) (h : Hdr ρ) : Bytes := e.H (tagBH ++ e.encHdr h)
/-- `BlockHeader.Hash512()` -/
def hdrHash512 (e : HEnv ρ) (h : Hdr ρ) : Bytes := e.H512 (tagBH ++ e.encHdr h)

inductive PreErr
  | proto | round | branch | branch512 | branch512NotAllowed
  /-- one of the later checks (upgrade state, timestamp, bonus, congestion tax, load, genesis id / hash) -/
  | later
deriving DecidableEq, Repr

/-- `BlockHeader.PreCheck(prev)`; `later` stands for all checks after the Branch512 one -/
def preCheck (e : HEnv ρ) (later : Hdr ρ → Hdr ρ → Bool) (bh prev : Hdr ρ) : Except PreErr Unit :=
  match bh.sha512 with
  | none => .error .proto
  | some en =>
    if (prev.round + 1) % 2 ^ 64 ≠ bh.round then .error .round
    else if bh.branch ≠ hdrHash e prev then .error .branch
    else if en = true ∧ bh.branch512 ≠ hdrHash512 e prev then .error .branch512
    else if en = false ∧ bh.branch512 ≠ zeroDigest512 then .error .branch512NotAllowed
    else if later bh prev = false then .error .later
    else .ok ()

end Model.Commitments
