import AlgoVerif.Spec.OnlineHistory
/-
Model.OnlineAccts — the `onlineAccounts` tracker of ledger/acctonline.go AS CODED (plus the pieces of
ledger/onlineaccountscache.go, ledger/voters.go, ledger/acctdeltas.go and the onlineaccounts / onlineroundparamstail
tables of the sqlite driver it uses). Core Lean only.

State = the ledger it hangs off (`ledgerForTracker`: block store; used by reload / replay and `BlockHdr`) + the tracker:

* `dbRound`                      `cachedDBRoundOnline` (= acctrounds)
* `db a`                         rows of table `onlineaccounts` for address `a`, NEWEST FIRST (`ORDER BY updround DESC`);
                                 a row = (updround, data, normalizedonlinebalance); votelastvalid is `data.vl`
* `dbParamsStart`, `dbParams`     table `onlineroundparamstail`: the rows are keyed by CONSECUTIVE rounds (they are inserted
                                 for oldBase+1, oldBase+2, … and deleted below a horizon), so the table is its first round
                                 and the list of its values
* `deltas`                       `ao.deltas` (rounds dbRound+1 .. latest, oldest first)
* `params`                       `ao.onlineRoundParamsData` (last element = round latest)
* `cache a`                      `onlineAccountsCache.accounts[a]` (newest first; `[]` = not in the map)
* `voters`                       `votersTracker.votersForRoundCache`
* `expCache`                     `expiredCirculationCache`

What is abstracted (and therefore tied by correspondence only):
* `ao.accounts` (newest delta entry per address + `ndeltas`) is the function it caches: `lastIn σ.deltas a`.
* `baseOnlineAccounts` (LRU of the newest persisted row per address) is represented by what it caches, the newest DB row
  of the address (`(σ.db a).head?`). A stale LRU entry can only be an all-zero "went offline" row whose DB row was pruned;
  `applyUpd` treats "no previous row" and "previous row is voting-empty" identically for every input that does not fail,
  so the substitution is sound for the code as it stands.
* SQL `GROUP BY address` / Go map iteration enumerate the fixed finite universe `σ.univ` (ascending); addresses without
  rows / deltas contribute nothing. The batches of `AccountsOnlineTop` (1024 rows) are read as one.
* `TopOnlineAccounts`: the candidate map (DB rows overridden by in-memory deltas) is a per-address function and the
  `container/heap` pop loop is "sort the candidates, take n" (`Spec.sortTop`). The streaming heap itself is not modelled.
* The `expiredCirculationCache` keeps everything (the two-generation eviction only forgets).
* Retry loops for a DB round that moves during a query are not modelled (the harness is synchronous).
* the legacy total of `TopOnlineAccounts` (protocols without ExcludeExpiredCirculation) is not modelled.
-/
namespace AlgoVerif.Model.OnlineAccts
open AlgoVerif.Spec.OnlineHistory

/-- `ledgercore.OnlineRoundParamsData` -/
structure Params where
  supply : Nat := 0
  level : Nat := 0
  proto : Nat := 0
  deriving DecidableEq, Repr, Inhabited

def Block.params (b : Block) : Params := ⟨b.supply, b.level, b.proto⟩

/-- one row of table `onlineaccounts` -/
structure Row where
  upd : Nat
  data : ORec
  norm : Nat      -- column normalizedonlinebalance
  deriving DecidableEq, Repr, Inhabited

/-- value of `votersForRoundCache[r]` once `LoadTree` finished -/
abbrev VotersVal := Except Err Voters

structure State where
  protos : List Proto
  univ : List Addr
  lookback : Nat            -- cfg.MaxAcctLookback
  cacheMax : Nat            -- onlineAccountsCache.maxCacheSize
  gen : Block               -- the genesis block / accounts (ledgerForTracker)
  ledger : List Block       -- the block store: ledger[i] = round i+1
  dbRound : Nat
  db : Addr → List Row
  dbParamsStart : Nat
  dbParams : List Params
  deltas : List Delta
  params : List Params
  cache : Addr → List (Nat × ORec)
  voters : List (Nat × VotersVal)
  expCache : List ((Nat × Nat) × Nat)

/-- the history the state was fed -/
def State.hist (σ : State) : Hist := ⟨σ.protos, σ.univ, σ.gen, σ.ledger⟩

def State.latest (σ : State) : Nat := σ.dbRound + σ.deltas.length

def State.genesisUnit (σ : State) : Nat := (protoOf σ.protos σ.gen.proto).unit

/-- `l.BlockHdr(rnd)` -/
def State.hdr? (σ : State) (rnd : Nat) : Option Block := (σ.gen :: σ.ledger)[rnd]?

-- ---------------------------------------------------------------------------------------------- round arithmetic

/-- `roundOffset` -/
def roundOffset (σ : State) (rnd : Nat) : Except Err Nat :=
  if rnd < σ.dbRound then .error .beforeDb
  else if rnd - σ.dbRound > σ.deltas.length then .error .tooHigh
  else .ok (rnd - σ.dbRound)

def isTooHigh : Except Err Nat → Bool
  | .error .tooHigh => true
  | _ => false

/-- first round held by `onlineRoundParamsData`; `latest + 1 - len` in unsigned arithmetic (a wrap makes it huge) -/
def paramsStart (σ : State) : Nat :=
  if σ.params.length ≤ σ.latest + 1 then σ.latest + 1 - σ.params.length
  else σ.latest + 1 + U64 - σ.params.length

/-- `roundParamsOffset` -/
def roundParamsOffset (σ : State) (rnd : Nat) : Except Err Nat :=
  if rnd < paramsStart σ then .error .beforeDb
  else if rnd - paramsStart σ ≥ σ.params.length then .error .tooHigh
  else .ok (rnd - paramsStart σ)

def paramsAt (σ : State) (rnd : Nat) : Except Err Params :=
  match roundParamsOffset σ rnd with
  | .error e => .error e
  | .ok off => match σ.params[off]? with
    | some p => .ok p
    | none => .error .tooHigh

/-- `accountsq.LookupOnlineRoundParams` -/
def dbParamsAt (σ : State) (rnd : Nat) : Except Err Params :=
  if rnd < σ.dbParamsStart then .error .notFound
  else match σ.dbParams[rnd - σ.dbParamsStart]? with
    | some p => .ok p
    | none => .error .notFound

/-- `roundsParamsEx` / `onlineTotalsEx`: memory first, a round below the in-memory window goes to the DB -/
def paramsEx (σ : State) (rnd : Nat) : Except Err Params :=
  match paramsAt σ rnd with
  | .ok p => .ok p
  | .error .beforeDb => dbParamsAt σ rnd
  | .error e => .error e

/-- `onlineTotalsEx`: like `roundsParamsEx`, but ANY in-memory miss goes on to the DB -/
def totalsEx (σ : State) (rnd : Nat) : Except Err Params :=
  match paramsAt σ rnd with
  | .ok p => .ok p
  | .error _ => dbParamsAt σ rnd

/-- `maxBalLookback()`: MaxBalLookback of the protocol of the latest round -/
def maxBalLookback (σ : State) : Nat :=
  match σ.params.getLast? with
  | some p => (protoOf σ.protos p.proto).mbl
  | none => 0

-- ---------------------------------------------------------------------------------------------- rows and the cache

/-- `LookupOnline(addr, rnd)`: `updround <= rnd ORDER BY updround DESC LIMIT 1` on newest-first rows -/
def rowAt (rows : List Row) (rnd : Nat) : Option Row := rows.find? (fun r => decide (r.upd ≤ rnd))

def recOfRow : Option Row → ORec
  | some r => r.data
  | none => ORec.zero

/-- `onlineAccountsCache.read`: the newest entry not newer than `rnd`; nothing if even the oldest is newer -/
def cacheRead (l : List (Nat × ORec)) (rnd : Nat) : Option ORec :=
  (l.find? (fun e => decide (e.1 ≤ rnd))).map (·.2)

/-- number of addresses in the cache map -/
def cacheCount (σ : State) : Nat := (σ.univ.filter (fun a => !(σ.cache a).isEmpty)).length

/-- `onlineAccountsCache.full` -/
def cacheFull (σ : State) : Bool := cacheCount σ ≥ σ.cacheMax

/-- `writeFront` on an existing or fresh list (the full-check for a fresh address is done by the caller):
    refused unless strictly newer than the front -/
def writeFront (l : List (Nat × ORec)) (e : Nat × ORec) : Option (List (Nat × ORec)) :=
  match l with
  | [] => some [e]
  | f :: _ => if e.1 ≤ f.1 then none else some (e :: l)

/-- the loop of `lookupOnlineAccountData` that copies the history (oldest first) into a cleared cache slot -/
def writeHistory : List (Nat × ORec) → List (Nat × ORec) → Option (List (Nat × ORec))
  | acc, [] => some acc
  | acc, e :: rest => match writeFront acc e with
    | none => none
    | some acc' => writeHistory acc' rest

/-- `LookupOnlineHistory`: all rows of the address, `ORDER BY updround ASC` -/
def historyAsc (rows : List Row) : List (Nat × ORec) := (rows.map fun r => (r.upd, r.data)).reverse

/-- the loop of `onlineAccountsCache.prune(target)` on the list read from its OLD end (`Back()` first): the oldest entry
    is removed as long as the next newer one is also below `target` -/
def dropOld (target : Nat) : List (Nat × ORec) → List (Nat × ORec)
  | x :: y :: rest => if y.1 < target then dropOld target (y :: rest) else x :: y :: rest
  | l => l

/-- `onlineAccountsCache.prune(target)` of one list (newest first); a single remaining voting-empty entry removes
    the address from the map -/
def pruneList (target : Nat) (l : List (Nat × ORec)) : List (Nat × ORec) :=
  match (dropOld target l.reverse).reverse with
  | [e] => if e.2.votingEmpty then [] else [e]
  | l' => l'

/-- `OnlineAccountsDelete(forgetBefore)` for one address: of the rows below the horizon (newest first) the first is
    kept unless it is voting-empty, all older ones go -/
def deleteBefore (fb : Nat) (rows : List Row) : List Row :=
  let keep := rows.filter (fun r => decide (r.upd ≥ fb))
  match rows.filter (fun r => decide (r.upd < fb)) with
  | [] => keep
  | r :: _ => if r.data.votingEmpty then keep else keep ++ [r]

-- ---------------------------------------------------------------------------------------------- lookupOnlineAccountData

def emptyData : OnlineData := {}

/-- `ledgercore.AccountData.OnlineAccountData` -/
def acctView (x : Acct) (unit level : Nat) : Except Err OnlineData :=
  if x.online then x.core.view unit level else .ok emptyData

/-- the in-memory part of `lookupOnlineAccountData`: `ao.accounts[addr]` (is the address in ANY delta?), then the newest
    state if the latest round is asked, else the backwards scan of deltas[0 .. offset) -/
def deltaHit (σ : State) (rnd : Nat) (a : Addr) : Option Acct :=
  match roundOffset σ rnd with
  | .error _ => none                                   -- the round is in history
  | .ok offset =>
    match lastIn σ.deltas a with
    | none => none
    | some newest => if offset = σ.deltas.length then some newest else lastIn (σ.deltas.take offset) a

/-- the DB part of `lookupOnlineAccountData`: `LookupOnline`, then the whole history of the address is loaded into the
    cache (clear, `writeFront` oldest .. newest) unless the cache is full -/
def dbLookupFill (σ : State) (rnd : Nat) (a : Addr) (unit level : Nat) : Except Err OnlineData × State :=
  match rowAt (σ.db a) rnd with
  | none => (.ok emptyData, σ)             -- persistedData.Ref == nil
  | some row =>
    let cleared : State := { σ with cache := fun b => if b = a then [] else σ.cache b }
    if cacheFull cleared then (row.data.view unit level, cleared)
    else match writeHistory [] (historyAsc (σ.db a)) with
      | none => (.error .other, cleared)   -- "failed to write history of acct … into online accounts cache"
      | some l => (row.data.view unit level, { σ with cache := fun b => if b = a then l else σ.cache b })

/-- `lookupOnlineAccountData(rnd, addr)`; returns the answer and the state (the cache may be filled) -/
def lookupOnline (σ : State) (rnd : Nat) (a : Addr) : Except Err OnlineData × State :=
  -- offset, err = roundOffset(rnd): "too high" is returned, a RoundOffsetError means "in history"
  if isTooHigh (roundOffset σ rnd) then (.error .tooHigh, σ) else
  match paramsAt σ rnd with
  | .error e => (.error e, σ)
  | .ok p =>
    let unit := (protoOf σ.protos p.proto).unit
    let level := p.level
    match deltaHit σ rnd a with
    | some x => (acctView x unit level, σ)
    | none =>
      match cacheRead (σ.cache a) rnd with
      | some r => (r.view unit level, σ)
      | none => dbLookupFill σ rnd a unit level

-- ---------------------------------------------------------------------------------------------- expired stake, circulation

/-- one address in `onlineAcctsExpiredByRound`: the DB row of `rnd` with 0 < votelastvalid < voteRnd, overridden by
    the deltas of rounds dbRound+1 .. rnd (online ∧ vl ≠ 0 ∧ voteRnd > vl inserts, anything else deletes) -/
def expiredEntry (σ : State) (offset rnd voteRnd : Nat) (a : Addr) : Option ORec :=
  match lastIn (σ.deltas.take offset) a with
  | some x => if x.online && x.vl != 0 && decide (voteRnd > x.vl) then some x.core else none
  | none =>
    let r := recOfRow (rowAt (σ.db a) rnd)
    if decide (r.vl < voteRnd) && decide (r.vl > 0) then some r else none

/-- `expiredOnlineCirculation` without its cache -/
def expiredCompute (σ : State) (rnd voteRnd : Nat) : Except Err Nat :=
  match roundOffset σ rnd with
  | .error .tooHigh => .error .tooHigh
  | ro =>
    let offset := match ro with | .ok o => o | _ => 0
    match paramsEx σ rnd with
    | .error e => .error e
    | .ok p =>
      let unit := (protoOf σ.protos p.proto).unit
      sumStakes (σ.univ.map fun a =>
        match expiredEntry σ offset rnd voteRnd a with
        | none => .ok 0
        | some r => (r.view unit p.level).map (·.stake))

/-- `expiredOnlineCirculation`: cache first, fill on success -/
def expiredCirc (σ : State) (rnd voteRnd : Nat) : Except Err Nat × State :=
  match σ.expCache.lookup (rnd, voteRnd) with
  | some x => (.ok x, σ)
  | none => match expiredCompute σ rnd voteRnd with
    | .error e => (.error e, σ)
    | .ok x => (.ok x, { σ with expCache := ((rnd, voteRnd), x) :: σ.expCache })

/-- `onlineCirculation(rnd, voteRnd)` -/
def onlineCirculation (σ : State) (rnd voteRnd : Nat) : Except Err Nat × State :=
  match paramsAt σ rnd with       -- onlineTotals(rnd)
  | .error e => (.error e, σ)
  | .ok p =>
    if (protoOf σ.protos p.proto).excl then
      if rnd = 0 then (.ok p.supply, σ)
      else match expiredCirc σ rnd voteRnd with
        | (.error e, σ') => (.error e, σ')
        | (.ok x, σ') => (subStake p.supply x, σ')
    else (.ok p.supply, σ)

-- ---------------------------------------------------------------------------------------------- TopOnlineAccounts

/-- `accountDataToOnline` / `AccountsOnlineTop` row conversion: the normalised balance is recomputed with the genesis unit -/
def mkTop (gunit : Nat) (a : Addr) (r : ORec) : Except Err (Option TopEntry) :=
  match normBal gunit r.bal r.rb with
  | none => .error .panic
  | some nb => .ok (some ⟨a, nb, r.bal, r.rb, r.vf, r.vl, r.key⟩)

/-- the candidate of one address after merging the DB snapshot of `rnd` with the in-memory deltas below `offset` -/
def topCandidateM (σ : State) (inMemory : Bool) (offset rnd voteRnd : Nat) (a : Addr) : Except Err (Option TopEntry) :=
  match (if inMemory then lastIn (σ.deltas.take offset) a else none) with
  | some d =>
    if !d.online then .ok none                      -- modifiedAccounts[addr] = nil
    else if !(d.core.validAt voteRnd) then .ok none -- nil as well (and remembered as invalid for the legacy total)
    else mkTop σ.genesisUnit a d.core
  | none =>
    match rowAt (σ.db a) rnd with                   -- GROUP BY address, max(updround) <= rnd
    | none => .ok none
    | some row =>
      if row.norm = 0 then .ok none                 -- HAVING normalizedonlinebalance > 0
      else if !(row.data.validAt voteRnd) then .ok none
      else mkTop σ.genesisUnit a row.data

/-- `TopOnlineAccounts(rnd, voteRnd, n, params, _)` for `params.ExcludeExpiredCirculation` -/
def topOnline (σ : State) (rnd voteRnd n : Nat) : Except Err (List TopEntry × Nat) × State :=
  match roundOffset σ rnd with
  | .error .tooHigh => (.error .tooHigh, σ)
  | ro =>
    let inMemory := match ro with | .ok _ => true | _ => false
    let offset := match ro with | .ok o => o | _ => 0
    match collect (σ.univ.map (topCandidateM σ inMemory offset rnd voteRnd)) with
    | .error e => (.error e, σ)
    | .ok cands =>
      let top := (sortTop cands).take n
      match totalsEx σ rnd with                     -- onlineTotalsEx
      | .error e => (.error e, σ)
      | .ok p =>
        match expiredCirc σ rnd voteRnd with
        | (.error e, σ') => (.error e, σ')
        | (.ok x, σ') => match subStake p.supply x with
          | .error e => (.error e, σ')
          | .ok t => (.ok (top, t), σ')

-- ---------------------------------------------------------------------------------------------- voters tracker

/-- `stateproof.GetOldestExpectedStateProof(hdr)` for the header of round `rnd` -/
def oldestExpected (protos : List Proto) (hdr : Block) (rnd : Nat) : Nat :=
  let p := protoOf protos hdr.proto
  if p.spInt = 0 then 0
  else
    let recent := rnd - rnd % p.spInt
    let oldest := recent - p.spInt * p.spRec
    if hdr.spNext > oldest then hdr.spNext else oldest

/-- `VotersForRound.LoadTree` (run synchronously): TopOnlineAccounts of the snapshot round, weights with pending rewards -/
def loadTree (σ : State) (r : Nat) (hdr : Block) : VotersVal × State :=
  let p := protoOf σ.protos hdr.proto
  match topOnline σ r (r + (p.spLb + p.spInt)) p.spTop with
  | (.error e, σ') => (.error e, σ')
  | (.ok (l, t), σ') =>
    match mapM' (fun e => (weightOf p.unit hdr.level e).map fun w => (e.addr, w, e.key)) l with
    | .error e => (.error e, σ')
    | .ok ps => (.ok ⟨ps, t⟩, σ')

/-- `votersTracker.loadTree(hdr)`: nothing if present or the header's protocol has no state proofs -/
def votersLoad (σ : State) (r : Nat) (hdr : Block) : State :=
  if (σ.voters.lookup r).isSome then σ
  else if (protoOf σ.protos hdr.proto).spInt = 0 then σ
  else
    let (v, σ') := loadTree σ r hdr
    { σ' with voters := σ'.voters ++ [(r, v)] }

/-- `votersTracker.newBlock(hdr)` -/
def votersNewBlock (σ : State) (r : Nat) (hdr : Block) : State :=
  let p := protoOf σ.protos hdr.proto
  if p.spInt = 0 then σ
  else if (r + p.spLb) % p.spInt != 0 then σ
  else votersLoad σ r hdr

/-- `votersTracker.lowestRound(base)` -/
def votersLowest (σ : State) (base : Nat) : Nat :=
  σ.voters.foldl (fun m e => if e.1 < m then e.1 else m) base

/-- `removeOldVoters(hdr)`: drop the snapshots whose state proof round is below the oldest expected one -/
def removeOldVoters (σ : State) (hdr : Block) (rnd : Nat) : State :=
  let low := oldestExpected σ.protos hdr rnd
  { σ with voters := σ.voters.filter fun e =>
      match σ.hdr? e.1 with
      | some h => let p := protoOf σ.protos h.proto; !(decide (e.1 + p.spLb + p.spInt < low))
      | none => true }

-- ---------------------------------------------------------------------------------------------- newBlock

/-- `newBlockImpl` (+ the ledger appending the block to its store) -/
def newBlock (σ : State) (b : Block) : State :=
  let rnd := σ.latest + 1
  let σ1 : State := { σ with ledger := σ.ledger ++ [b], deltas := σ.deltas ++ [b.deltas],
                              params := σ.params ++ [Block.params b] }
  votersNewBlock σ1 rnd b

-- ---------------------------------------------------------------------------------------------- commit

/-- the updates of one address in the committed range, with their rounds (`onlineAccountDelta.newAcct / updRound`) -/
def updsOf : List Delta → Nat → Addr → List (Nat × Acct)
  | [], _, _ => []
  | d :: ds, r, a => (match d.lookup a with | some x => [(r, x)] | none => []) ++ updsOf ds (r + 1) a

def mkRow (gunit upd : Nat) (r : ORec) : Except Err Row :=
  match normBal gunit r.bal r.rb with
  | none => .error .panic
  | some nb => .ok ⟨upd, r, nb⟩

/-- one iteration of `onlineAccountsNewRoundImpl` for an address; `rows` are its rows (newest first), the head being
    `prevAcct`; returns the rows with the inserted row (if any) in front -/
def applyUpd (gunit : Nat) (rows : List Row) (u : Nat × Acct) : Except Err (List Row) :=
  let newRec := u.2.core
  if u.2.online && newRec.votingEmpty then .error .other      -- "empty voting data for online account"
  else match rows with
  | [] =>                                                       -- prevAcct.Ref == nil
    if u.2.online then (mkRow gunit u.1 newRec).map (· :: rows) else .ok rows
  | prev :: _ =>
    if u.2.online then
      if prev.data ≠ newRec then (mkRow gunit u.1 newRec).map (· :: rows) else .ok rows
    else if prev.data.votingEmpty then .ok rows                  -- both old and new offline: ignore
    else .ok (⟨u.1, ORec.zero, 0⟩ :: rows)                      -- "delete" by inserting a zero entry

def applyUpds (gunit : Nat) : List Row → List (Nat × Acct) → Except Err (List Row)
  | rows, [] => .ok rows
  | rows, u :: us => match applyUpd gunit rows u with
    | .error e => .error e
    | .ok rows' => applyUpds gunit rows' us

/-- `consecutiveVersion`: the leading stretch of the range that runs one consensus version
    (the Go code finds its end by binary search, assuming versions never come back) -/
def sameVersionPrefix (p0 : Nat) : List Params → Nat
  | [] => 0
  | p :: ps => if p.proto = p0 then 1 + sameVersionPrefix p0 ps else 0

def consecutiveVersion (σ : State) (offset : Nat) : Nat :=
  let start := σ.params.length - σ.deltas.length   -- index of the first delta's params (startIndex + 1)
  match σ.params[start]?, σ.params[start + offset - 1]? with
  | some f, some l => if f.proto ≠ l.proto then sameVersionPrefix f.proto ((σ.params.drop start).take offset) else offset
  | _, _ => offset

inductive CommitRes where
  | noop                         -- produceCommittingTask returned nil
  | done (σ : State)
  | failed (e : Err)

/-- `onlineAccountsCache.writeFrontIfExist` for every inserted row of the address (oldest first) -/
def cacheAppend (l : List (Nat × ORec)) (newRows : List Row) : List (Nat × ORec) :=
  newRows.reverse.foldl (fun acc r =>
    match acc with
    | [] => acc
    | f :: _ => if r.upd ≤ f.1 then acc else (r.upd, r.data) :: acc) l

/-- `commitRound` for one address: `onlineAccountsNewRoundImpl` over its updates of the committed deltas `ds` -/
def commitRows (σ : State) (ds : List Delta) (a : Addr) : Except Err (List Row) :=
  applyUpds σ.genesisUnit (σ.db a) (updsOf ds (σ.dbRound + 1) a)

/-- the state after `commitRound` (DB transaction) and `postCommit` of the onlineAccounts tracker, given the commit range
    `offset`, the deletion horizon `fb` (`dcc.onlineAccountsForgetBefore`) and the rows every address has after
    `onlineAccountsNewRoundImpl` -/
def commitApply (σ : State) (offset fb : Nat) (rowsOf : Addr → List Row) : State :=
  let newBase := σ.dbRound + offset
  let mbl := maxBalLookback σ
  -- the rows inserted for the address (newest first): `dcc.updatedPersistedOnlineAccounts`
  let newRowsOf (a : Addr) : List Row := (rowsOf a).take ((rowsOf a).length - (σ.db a).length)
  -- OnlineAccountsDelete(fb)
  let db' := fun a => deleteBefore fb (rowsOf a)
  -- AccountsPutOnlineRoundParams(oldBase+1 ..) + AccountsPruneOnlineRoundParams(fb)
  let pstart := σ.params.length - σ.deltas.length
  let newParams := (σ.params.drop pstart).take offset
  let dbParams' := (σ.dbParams ++ newParams).drop (fb - σ.dbParamsStart)
  let dbParamsStart' := if fb > σ.dbParamsStart then fb else σ.dbParamsStart
  -- postCommit
  let deltas' := σ.deltas.drop offset
  let keepN := mbl + deltas'.length
  let params' := if σ.params.length > keepN then σ.params.drop (σ.params.length - keepN) else σ.params
  let fbCache := (newBase + 1) - mbl
  let cache' := fun a => pruneList fbCache (cacheAppend (σ.cache a) (newRowsOf a))
  { σ with dbRound := newBase, db := db', dbParamsStart := dbParamsStart', dbParams := dbParams', deltas := deltas',
           params := params', cache := cache' }

/-- `dcc.onlineAccountsForgetBefore`: newBase+1-MaxBalLookback, lowered to the oldest voters snapshot still needed -/
def forgetBefore (σ : State) (newBase lowest : Nat) : Nat :=
  let fb0 := (newBase + 1) - maxBalLookback σ
  if lowest > 0 ∧ lowest < fb0 then lowest else fb0

/-- one trackerRegistry commit as driven synchronously: produceCommittingTask (for "blocks up to `R` are on disk"),
    prepareCommit, commitRound, postCommit of the onlineAccounts tracker (and its votersTracker) -/
def commit (σ : State) (R : Nat) : CommitRes :=
  if R < σ.lookback then .noop else
  let newBase0 := R - σ.lookback
  if newBase0 ≤ σ.dbRound then .noop else
  if newBase0 > σ.dbRound + σ.deltas.length then .failed .panic else
  let lowest := votersLowest σ newBase0
  let offset := consecutiveVersion σ (newBase0 - σ.dbRound)
  if offset = 0 then .noop else
  let newBase := σ.dbRound + offset
  let fb := forgetBefore σ newBase lowest
  let ds := σ.deltas.take offset
  -- commitRound: "empty voting data for online account" of any address fails the transaction
  match (σ.univ.map fun a => commitRows σ ds a).find? (fun r => match r with | .error _ => true | .ok _ => false) with
  | some (.error e) => .failed e
  | _ =>
    let rowsOf (a : Addr) : List Row :=
      match commitRows σ ds a with
      | .ok rows => rows
      | .error _ => σ.db a
    let σ' := commitApply σ offset fb rowsOf
    match σ'.hdr? newBase with
    | some hdr => .done (removeOldVoters σ' hdr newBase)
    | none => .done σ'            -- "could not retrieve header": logged, voters kept

-- ---------------------------------------------------------------------------------------------- genesis, reload

/-- the onlineaccounts rows the schema migration writes for the genesis accounts: Online accounts only, voting data +
    MicroAlgos + RewardsBase (nothing else), updround 0 -/
def genesisRows (gunit : Nat) (gen : Delta) (a : Addr) : List Row :=
  match gen.lookup a with
  | some x =>
    if x.online then
      let r : ORec := ⟨x.bal, x.rb, x.vf, x.vl, x.key, false, 0, 0⟩
      match normBal gunit r.bal r.rb with
      | some nb => [⟨0, r, nb⟩]
      | none => []
    else []
  | none => []

/-- the cache part of `initializeFromDisk`: `OnlineAccountsAll(max)` (address ascending, all rows of the first `max`
    addresses; 0 = all) written oldest first until the cache is full -/
def initCache (univ : List Addr) (db : Addr → List Row) (max : Nat) : Addr → List (Nat × ORec) :=
  let withRows := univ.filter fun a => !(db a).isEmpty
  let chosen := withRows.take max
  fun a => if chosen.contains a then (db a).map (fun r => (r.upd, r.data)) else []

def init (protos : List Proto) (univ : List Addr) (lookback cacheMax : Nat) (gen : Block) : State :=
  let gunit := (protoOf protos gen.proto).unit
  let db := genesisRows gunit gen.deltas
  { protos := protos, univ := univ, lookback := lookback, cacheMax := cacheMax, gen := gen, ledger := [],
    dbRound := 0, db := db, dbParamsStart := 0, dbParams := [Block.params gen], deltas := [], params := [Block.params gen],
    cache := initCache univ db cacheMax, voters := [], expCache := [] }

/-- the harness's cache shrink: the cache part of `initializeFromDisk` with the constant 2500 replaced by `k` -/
def shrink (σ : State) (k : Nat) : State :=
  { σ with cacheMax := k, cache := initCache σ.univ σ.db k }

/-- `votersTracker.loadFromDisk`: the snapshots from the oldest expected state proof up to the DB round -/
def votersLoadRounds (σ : State) (hdrs : Nat → Option Block) : Nat → Nat → Nat → State
  | 0, _, _ => σ
  | fuel + 1, r, step =>
    if r > σ.dbRound then σ
    else match hdrs r with
      | none => σ
      | some h => votersLoadRounds (votersLoad σ r h) hdrs fuel (r + step) step

inductive ReloadRes where
  | done (σ : State)
  | failed (e : Err)

/-- the state right after `initializeFromDisk` of a re-created tracker: it has seen the blocks up to the DB round only;
    deltas empty, round parameters from the table, cache from `OnlineAccountsAll`, fresh voters / expired-stake caches -/
def restart (σ : State) : State :=
  { σ with ledger := σ.ledger.take σ.dbRound, deltas := [], params := σ.dbParams,
           cacheMax := 2500, cache := initCache σ.univ σ.db 2500, voters := [], expCache := [] }

/-- `votersTracker.loadFromDisk` on the restarted tracker `σ0`; `hdrs` / `latest` are the ledger's block store -/
def reloadVoters (protos : List Proto) (hdrs : Nat → Option Block) (latest : Nat) (σ0 : State) : Except Err State :=
  match hdrs latest with
  | none => .error .other
  | some hdrL =>
    let p := protoOf protos hdrL.proto
    if p.spInt = 0 ∨ hdrL.spNext = 0 then .ok σ0
    else
      let startR := (oldestExpected protos hdrL latest - p.spInt) - p.spLb
      if startR = 0 then .error .other       -- "votersTracker: underflow"
      else .ok (votersLoadRounds σ0 hdrs (σ0.dbRound + 1) startR p.spInt)

/-- `trackerRegistry.replay`: every stored block after the DB round goes through newBlock again, then
    `scheduleCommit(latest, MaxAcctLookback)` if the DB round was more than the lookback behind -/
def replayFlush (σ1 : State) (blocks : List Block) (flush : Bool) (latest : Nat) : ReloadRes :=
  let σ2 := blocks.foldl newBlock σ1
  if flush then
    match commit σ2 latest with
    | .done σ3 => .done σ3
    | .noop => .done σ2
    | .failed e => .failed e
  else .done σ2

/-- close + re-create + `loadFromDisk` + `replay` -/
def reload (σ : State) : ReloadRes :=
  -- initializeFromDisk: "last onlineroundparams round does not match dbround" (an empty table ends at round 0)
  let endRound := if σ.dbParams.isEmpty then 0 else σ.dbParamsStart + σ.dbParams.length - 1
  if endRound ≠ σ.dbRound then .failed .other else
  let latest := σ.ledger.length
  match reloadVoters σ.protos σ.hdr? latest (restart σ) with
  | .error e => .failed e
  | .ok σ1 => replayFlush σ1 (σ.ledger.drop σ.dbRound) (decide (σ.dbRound + σ.lookback < latest)) latest

end AlgoVerif.Model.OnlineAccts
