import AlgoVerif.Spec.TrackerStore
/-!
# Model.TrackerStoreKV — observed deviations of the generic-KV (Pebble) driver from Spec.TrackerStore

`ledger/store/trackerdb/generickv` answers some calls differently from the SQL statements it was ported from.
Each deviation is modelled here as the code stands, so that the C47 check can (a) decide by directed probes which of
them the tree under test has, (b) report each present one as a finding, and (c) still compare the Pebble back end
line by line with an exact model (Spec + the deviations present) — a further change of the driver shows up as a mismatch.
Nothing here is used by the theorems of Props.C47 (they are about the spec).
-/
namespace Model.TrackerStoreKV
open Spec.TrackerStore

/-- "xc-" : the name space of app kv pairs in the generic-KV schema -/
def kvNs : Key := [0x78, 0x63, 0x2d]

/-- `pfx`: generickv/accounts_reader.go LookupKeysByPrefix{,Cursor} iterate [prefix, prefix++) over the RAW store keys
instead of the "xc-" name space and return the raw keys.  A prefix that does not start with 'x' matches nothing; a
prefix inside "xc-…" returns the app keys still carrying the name space.  (Prefixes that reach other tables' raw keys
— "", "x", "xa".."xl" — are not generated.) -/
def rawRows (s : Store) : List (Key × String) := s.kv.map (fun e => (kvNs ++ e.1, e.2))

def rawRange (lo : Key) (hi : Option Key) (s : Store) : List (Key × String) :=
  (rawRows s).filter (fun e => leKey lo e.1 && (match hi with | some h => lexLt e.1 h | none => true))

def kvKeysLoop (maxKeyNum : Nat) : List (Key × String) → List (Key × Bool) → Nat → List (Key × Bool)
  | [], res, _ => res
  | e :: rest, res, c =>
    if c = maxKeyNum then res
    else kvKeysLoop maxKeyNum rest (ins lexLt e.1 (!(e.2 = "nil" || e.2 = "_")) res) (c + 1)

def kvKeysByPrefix (pfx : Key) (maxKeyNum : Nat) (pre : List (Key × Bool)) (count : Nat) (s : Store) : Nat × List (Key × Bool) :=
  (s.round, kvKeysLoop maxKeyNum (rawRange pfx (prefixIncr pfx) s) pre count)

def kvKeysByPrefixCursor (pfx cursor : Key) (limit maxBytes : Nat) (withValues : Bool) (exclude : List Key) (s : Store) :
    Nat × List (Key × String) × Bool :=
  let lo := if cursor ≠ [] ∧ leKey pfx cursor then cursor else pfx
  let qual : Key × String → Bool := fun e => lexLt cursor e.1 && !(exclude.contains e.1)
  let p := collect qual (kvSize withValues) limit maxBytes (rawRange lo (prefixIncr pfx) s) 0 0
  (s.round, p.1.map (fun e => (e.1, if withValues then (if e.2 = "nil" then "_" else e.2) else "nil")), p.2)

/-- `odel`: OnlineAccountsDelete scans the rounds ≤ forgetBefore (inclusive) -/
def kvOnlineDelete (r : Nat) (l : Online) : Online := onlineDelete (r + 1) l

/-- `otop`: AccountsOnlineTop walks the secondary index (round, balance, address) downwards: skips `offset` ROWS,
looks at `n` ROWS, keeps the first row seen of each address, never filters balance 0 -/
def kvTopBefore (x y : OKey × OnlRow) : Bool :=
  decide (y.1.2 < x.1.2) || (decide (x.1.2 = y.1.2) &&
    (decide (y.2.normBal < x.2.normBal) || (decide (x.2.normBal = y.2.normBal) && decide (y.1.1 < x.1.1))))

def dedupAddr : Online → List Addr → Online
  | [], _ => []
  | e :: t, seen => if seen.contains e.1.1 then dedupAddr t seen else e :: dedupAddr t (e.1.1 :: seen)

def kvOnlineTop (q offset n : Nat) (l : Online) : Online :=
  let rows := sortBy kvTopBefore (l.filter (fun e => decide (e.1.2 ≤ q)))
  dedupAddr ((rows.drop offset).take n) []

/-- `olookwrap`: LookupOnline builds its exclusive upper bound by incrementing the LAST BYTE of the big-endian key
(address, rnd) without carry: for rnd ≡ 255 (mod 256) the bound wraps to (address, rnd − 255) and the entries with
update round in [rnd − 255, rnd] are missed -/
def kvLookupOnline (a : Addr) (q : Nat) (l : Online) : Option (OKey × OnlRow) :=
  if q % 256 = 255 then (l.filter (fun e => decide (e.1.1 = a) && decide (e.1.2 + 255 < q))).getLast?
  else lookupOnline a q l

/-- `txsnap`: inside a Pebble transaction every read goes to the snapshot taken at BeginTransaction.  For
OnlineAccountsDelete this means: the rows to delete are chosen on the snapshot `snap`, and then removed from the
current contents `cur` (rows inserted by the same batch are neither seen nor deleted) -/
def onlineDeleteVia (del : Online → Online) (snap cur : Online) : Online :=
  let kept := del snap
  let gone := (snap.filter (fun e => !(kept.any (fun k => decide (k.1 = e.1))))).map (·.1)
  cur.filter (fun e => !(gone.contains e.1))

end Model.TrackerStoreKV
