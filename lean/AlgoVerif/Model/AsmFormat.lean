/-
Model.AsmFormat — the binary instruction format of AVM programs and the token-level assembler / disassembler of
data/transactions/logic/assembler.go.

Mirrors (Go → Lean):
  encoding/binary PutUvarint / Uvarint            → `uvarint`, `uvarintW` (exactly `w` bytes), `readU`
  encoding/binary PutVarint / Varint (zig-zag)    → `zz`, `unzz`
  eval.go decodeBranchOffset, resolveLabels 2B    → `dec16`, `be16`
  assembler.go disassemble (per immediate kind), parseIntImmArgs, parseByteImmArgs, parseLabels,
  eval.go opPushInt / opPushBytes (as checks)     → `decImm` (raw immediates KEEP the width of every varuint they were
                                                     read from, so `encInstr ∘ decInstr` is the identity on bytes)
  disassembleInstrumented (the walk), GetOpSpec   → `decRaw` over `Env.tbl` (= `Model.OpTables.buildTables`)
  asm* functions writing ops.pending              → `encInstr`
  labelReference / findBranchSizes / applyEdits   → `relaxStep`, `relax` (placeholders start at `initWidth` = 3 bytes and only
                                                     shrink, all edits of a round computed from one snapshot)
  resolveLabels                                   → `resolve` (v≤1 no branch to the end, v<4 no back reference, 2-byte range,
                                                     varint: self-branch rejected, back-jumps measured from the instruction
                                                     start, forward jumps from its end, offset must fit the placeholder)
  disassemble's label naming (label<k> in order of first reference, proto always labelled) → `labelOrder`, `printProg`
  parseText / getSpec / pseudoOps / asmDefault / asmIntC / asmArg / … → `parseProg` on TOKENS (`Tok`): statements, label
                                                     definitions, mnemonic lookup by name and argument count, immediates by kind
  eval.go check / checkStep / checkBranch / checkBranchVarint / checkSwitch / branchTarget → `staticCheck`

Not modelled (the driver answers SKIP): lexing of source text (comments, string / base64 / base32 literals, octal and binary
numerals), the pseudo-ops int / byte / addr / method with the constant-block optimiser, macros, pragmas, the assembler's type
tracker (only its `deadcode` flag, which decides whether a constant block is "seen"), the off-curve salt.

Core Lean only.
-/
import AlgoVerif.Model.OpTables
import AlgoVerif.Gen.OpTable
import AlgoVerif.Gen.AsmTable
namespace Model.AsmFormat
open Model.OpTables

abbrev Bytes := List Nat

/-! ## varints -/

/-- `n` in exactly `w` bytes, little-endian base 128 with continuation bits (`w` = minimal length for PutUvarint; a longer
    `w` is a non-minimal encoding that binary.Uvarint accepts as well) -/
def uvarintW : Nat → Nat → Bytes
  | 0, _ => []
  | 1, n => [n % 128]
  | w + 2, n => (n % 128 + 128) :: uvarintW (w + 1) (n / 128)

/-- minimal length (values below 2^70; PutUvarint never needs more than 10 bytes for a uint64) -/
def uvarLenF : Nat → Nat → Nat
  | 0, _ => 1
  | f + 1, n => if n < 128 then 1 else uvarLenF f (n / 128) + 1

def uvarLen (n : Nat) : Nat := uvarLenF 9 n

/-- binary.PutUvarint -/
def uvarint (n : Nat) : Bytes := uvarintW (uvarLen n) n

/-- `n` is encodable in exactly `w` bytes when at most `r` bytes may still be read (binary.Uvarint reads at most 10 and the
    10th must be 0 or 1) -/
def uvOK : Nat → Nat → Nat → Bool
  | _, 0, _ => false
  | r, 1, n => decide (1 ≤ r) && decide (n < 128) && (decide (r ≠ 1) || decide (n ≤ 1))
  | r, w + 2, n => decide (2 ≤ r) && uvOK (r - 1) (w + 1) (n / 128)

/-- binary.Uvarint: `(value, bytes read)`; `none` = buffer too small or overflow (callers treat both as an error).
    `r` = bytes that may still be read (10 at the start). -/
def readU : Bytes → Nat → Option (Nat × Nat)
  | [], _ => none
  | b :: rest, r =>
    if r = 0 then none
    else if b < 128 then (if r = 1 ∧ 1 < b then none else some (b, 1))
    else match readU rest (r - 1) with
      | none => none
      | some (v, k) => some (b - 128 + 128 * v, k + 1)

/-- zig-zag of binary.PutVarint -/
def zz (o : Int) : Nat := if 0 ≤ o then (2 * o).toNat else (-2 * o - 1).toNat

/-- binary.Varint: `x = ux >> 1; if ux&1 != 0 { x = ^x }` -/
def unzz (u : Nat) : Int := if u % 2 = 0 then ((u / 2 : Nat) : Int) else -((u / 2 : Nat) : Int) - 1

/-- big-endian int16 as written by resolveLabels (`uint8(jump >> 8)`, `uint8(jump & 0xff)`) -/
def be16 (o : Int) : Bytes := [(o % 65536).toNat / 256, (o % 65536).toNat % 256]

/-- eval.go:decodeBranchOffset -/
def dec16 (hi lo : Nat) : Int := if 32768 ≤ hi * 256 + lo then ((hi * 256 + lo : Nat) : Int) - 65536 else ((hi * 256 + lo : Nat) : Int)

/-! ## raw instructions: immediates as they sit in the bytes -/

inductive RImm
  | byte (b : Nat)                              -- immByte / immInt8
  | off2 (o : Int)                              -- immLabel: signed 16-bit offset from the end of the instruction
  | voff (o : Int) (w : Nat)                    -- immVarintLabel: zig-zag varint in `w` bytes
  | uint (v w : Nat)                            -- immInt: varuint in `w` bytes
  | bytes (lw : Nat) (bs : Bytes)               -- immBytes: length (in `lw` bytes) then the bytes
  | ints (cw : Nat) (vs : List (Nat × Nat))     -- immInts: count (in `cw` bytes) then (value, width) each
  | bytess (cw : Nat) (bss : List (Nat × Bytes)) -- immBytess: count then (length width, bytes) each
  | offs (os : List Int)                        -- immLabels: count byte then 16-bit offsets
  deriving DecidableEq, Repr

structure RInstr where
  spec : Spec
  imms : List RImm
  deriving DecidableEq, Repr

def encItem (p : Nat × Bytes) : Bytes := uvarintW p.1 p.2.length ++ p.2

def encImm : RImm → Bytes
  | .byte b => [b]
  | .off2 o => be16 o
  | .voff o w => uvarintW w (zz o)
  | .uint v w => uvarintW w v
  | .bytes lw bs => uvarintW lw bs.length ++ bs
  | .ints cw vs => uvarintW cw vs.length ++ vs.flatMap (fun p => uvarintW p.2 p.1)
  | .bytess cw bss => uvarintW cw bss.length ++ bss.flatMap encItem
  | .offs os => os.length :: os.flatMap be16

def subBytes (s : Spec) : Bytes := if s.sub ≠ 0 then [s.sub] else []

/-- what the asm functions append to ops.pending for one instruction -/
def encInstr (r : RInstr) : Bytes := r.spec.opcode :: (subBytes r.spec ++ r.imms.flatMap encImm)

def encRaw (rs : List RInstr) : Bytes := rs.flatMap encInstr

/-- parseIntImmArgs' loop -/
def decInts : Nat → Bytes → Option (List (Nat × Nat) × Bytes)
  | 0, bs => some ([], bs)
  | n + 1, bs =>
    match readU bs 10 with
    | none => none
    | some (v, k) =>
      match decInts n (bs.drop k) with
      | none => none
      | some (vs, rest) => some ((v, k) :: vs, rest)

/-- parseByteImmArgs' loop -/
def decBytess : Nat → Bytes → Option (List (Nat × Bytes) × Bytes)
  | 0, bs => some ([], bs)
  | n + 1, bs =>
    match readU bs 10 with
    | none => none
    | some (l, k) =>
      if (bs.drop k).length < l then none else
      match decBytess n ((bs.drop k).drop l) with
      | none => none
      | some (bss, rest) => some ((k, (bs.drop k).take l) :: bss, rest)

/-- parseLabels' loop -/
def decOffs : Nat → Bytes → Option (List Int × Bytes)
  | 0, bs => some ([], bs)
  | n + 1, hi :: lo :: bs =>
    match decOffs n bs with
    | none => none
    | some (os, rest) => some (dec16 hi lo :: os, rest)
  | _ + 1, _ => none

def decByte (bs : Bytes) : Option (RImm × Bytes) :=
  match bs with
  | b :: r => some (.byte b, r)
  | [] => none

def decOff2 (bs : Bytes) : Option (RImm × Bytes) :=
  match bs with
  | hi :: lo :: r => some (.off2 (dec16 hi lo), r)
  | _ => none

def decVoff (bs : Bytes) : Option (RImm × Bytes) :=
  match readU bs 10 with
  | some (u, k) => some (.voff (unzz u) k, bs.drop k)
  | none => none

def decUint (bs : Bytes) : Option (RImm × Bytes) :=
  match readU bs 10 with
  | some (v, k) => some (.uint v k, bs.drop k)
  | none => none

def decBytes (bs : Bytes) : Option (RImm × Bytes) :=
  match readU bs 10 with
  | some (l, k) => if (bs.drop k).length < l then none else some (.bytes k ((bs.drop k).take l), (bs.drop k).drop l)
  | none => none

def decIntsImm (plen : Nat) (bs : Bytes) : Option (RImm × Bytes) :=
  match readU bs 10 with
  | some (n, k) =>
    if plen < n then none else
    match decInts n (bs.drop k) with
    | some (vs, r) => some (.ints k vs, r)
    | none => none
  | none => none

def decBytessImm (plen : Nat) (bs : Bytes) : Option (RImm × Bytes) :=
  match readU bs 10 with
  | some (n, k) =>
    if plen < n then none else
    match decBytess n (bs.drop k) with
    | some (bss, r) => some (.bytess k bss, r)
    | none => none
  | none => none

def decOffsImm (bs : Bytes) : Option (RImm × Bytes) :=
  match bs with
  | n :: r =>
    match decOffs n r with
    | some (os, r') => some (.offs os, r')
    | none => none
  | [] => none

/-- one immediate of kind `kind` (the immKind enum) at the head of `bs`; `plen` = len(program) (the "too many items" guard) -/
def decImm (plen kind : Nat) (bs : Bytes) : Option (RImm × Bytes) :=
  match kind with
  | 0 => decByte bs
  | 1 => decByte bs
  | 2 => decOff2 bs
  | 3 => decUint bs
  | 4 => decBytes bs
  | 5 => decIntsImm plen bs
  | 6 => decBytessImm plen bs
  | 7 => decOffsImm bs
  | 8 => decVoff bs
  | _ => none

def decImms (plen : Nat) : List Nat → Bytes → Option (List RImm × Bytes)
  | [], bs => some ([], bs)
  | k :: ks, bs =>
    match decImm plen k bs with
    | none => none
    | some (i, r) =>
      match decImms plen ks r with
      | none => none
      | some (is, r') => some (i :: is, r')

def kindsOf (s : Spec) : List Nat := s.imms.map (·.kind)

/-- one instruction at the head of `bs` (disassembleInstrumented's loop body / checkStep's decoding): spec lookup with the
    next byte as possible sub-opcode, skip the sub-opcode byte, immediates in order -/
def decInstr (look : Nat → Option Nat → Option Spec) (plen : Nat) (bs : Bytes) : Option (RInstr × Bytes) :=
  match bs with
  | [] => none
  | op :: tl =>
    match look op tl.head? with
    | none => none
    | some s =>
      match (if s.sub ≠ 0 then (match tl with | _ :: r => some r | [] => none) else some tl) with
      | none => none
      | some body =>
        match decImms plen (kindsOf s) body with
        | none => none
        | some (ims, rest) => some (⟨s, ims⟩, rest)

/-- the walk (fuel = number of bytes: every instruction consumes at least its opcode byte) -/
def decRaw (look : Nat → Option Nat → Option Spec) (plen : Nat) : Nat → Bytes → Option (List RInstr)
  | _, [] => some []
  | 0, _ :: _ => none
  | fuel + 1, bs@(_ :: _) =>
    match decInstr look plen bs with
    | none => none
    | some (r, rest) =>
      match decRaw look plen fuel rest with
      | none => none
      | some rs => some (r :: rs)

/-! ## instructions with resolved labels: targets are instruction indices (`n` = end of program) -/

inductive Imm
  | byte (b : Nat)
  | uint (v : Nat)
  | bytes (bs : Bytes)
  | ints (vs : List Nat)
  | bytess (bss : List Bytes)
  | label (t : Nat)          -- immLabel (2 bytes)
  | vlabel (t : Nat)         -- immVarintLabel
  | labels (ts : List Nat)   -- immLabels
  deriving DecidableEq, Repr

structure Instr where
  spec : Spec
  imms : List Imm
  deriving DecidableEq, Repr

def listSum : List Nat → Nat
  | [] => 0
  | a :: r => a + listSum r

/-- bytes of one immediate; `w` = current placeholder width of a varint label -/
def immSize (w : Nat) : Imm → Nat
  | .byte _ => 1
  | .uint v => uvarLen v
  | .bytes bs => uvarLen bs.length + bs.length
  | .ints vs => uvarLen vs.length + listSum (vs.map uvarLen)
  | .bytess bss => uvarLen bss.length + listSum (bss.map (fun b => uvarLen b.length + b.length))
  | .label _ => 2
  | .vlabel _ => w
  | .labels ts => 1 + 2 * ts.length

def instrSize (i : Instr) (w : Nat) : Nat := 1 + (subBytes i.spec).length + listSum (i.imms.map (immSize w))

/-- positions of the instruction starts, and the end: `startsFrom p [s0, s1, …] = [p, p+s0, p+s0+s1, …]` -/
def startsFrom (p : Nat) : List Nat → List Nat
  | [] => [p]
  | s :: rest => p :: startsFrom (p + s) rest

def sizesOf (xs : List (Instr × Nat)) : List Nat := xs.map (fun x => instrSize x.1 x.2)

def startsOf (xs : List (Instr × Nat)) : List Nat := startsFrom 0 (sizesOf xs)

/-- the varint-label target of an instruction, if it has one (branch ops have exactly one immediate) -/
def vtarget (i : Instr) : Option Nat :=
  i.imms.findSome? (fun im => match im with | .vlabel t => some t | _ => none)

/-- findBranchSizes / resolveLabels: the jump of a varint branch at index `k` to target index `t`.
    `none`: undefined target or branch to the start of the same instruction. Back-jumps are measured from the instruction
    start, forward jumps from its end. -/
def vjump (S : List Nat) (k t : Nat) : Option Int :=
  match S[t]?, S[k]?, S[k + 1]? with
  | some d, some p, some e =>
    if d = p then none else if d < p then some ((d : Int) - (p : Int)) else some ((d : Int) - (e : Int))
  | _, _, _ => none

/-- bytes binary.PutVarint needs -/
def needed (j : Int) : Nat := uvarLen (zz j)

def relaxGo (S : List Nat) : Nat → List (Instr × Nat) → List (Instr × Nat)
  | _, [] => []
  | k, (i, w) :: rest =>
    (match vtarget i with
     | none => (i, w)
     | some t =>
       match vjump S k t with
       | none => (i, w)
       | some j => if needed j < w then (i, needed j) else (i, w)) :: relaxGo S (k + 1) rest

/-- one round of findBranchSizes: every placeholder that can shrink does, all computed from the same snapshot -/
def relaxStep (xs : List (Instr × Nat)) : List (Instr × Nat) := relaxGo (startsOf xs) 0 xs

def widthsOf (xs : List (Instr × Nat)) : List Nat := xs.map (·.2)

inductive Err
  | fuel          -- relaxation did not reach a fixpoint within its fuel (never happens: `relax_terminates`)
  | undefined     -- label index beyond the end of the program
  | tooFar        -- offset does not fit (2-byte form: int16; varint form: the placeholder)
  | placeholder   -- a varint placeholder wider than the offset written into it (never happens: `relax_fits`)
  | backRef       -- back reference before v4
  | toEnd         -- branch to the end of the program in v0/v1
  | selfBranch    -- varint branch to the start of the same instruction
  | decode        -- bytes do not decode
  | version       -- unsupported program version
  | target        -- a branch target is not an instruction start
  | field         -- unknown / hidden / too new field, or immediate out of range
  | syntax        -- unknown opcode, wrong number of immediates, malformed immediate, duplicate label …
  | undefinedConst -- intc / bytec index that no constant block defines
  | unmodelled    -- source feature outside the token-level model (pseudo-ops, exotic numerals): driver prints SKIP
  deriving DecidableEq, Repr

/-- findBranchSizes: repeat until no placeholder shrinks -/
def relax : Nat → List (Instr × Nat) → Except Err (List (Instr × Nat))
  | 0, _ => .error .fuel
  | fuel + 1, xs =>
    let xs' := relaxStep xs
    if widthsOf xs' = widthsOf xs then .ok xs else relax fuel xs'

/-- the assembler's environment: tables and constants extracted from the current tree -/
structure Env where
  rows : List Spec
  groups : List Group
  tbl : Nat → Table
  logicVersion : Nat
  protoVersion : Nat
  asmFn : List (Nat × String)
  deadens : List Nat
  pseudoFull : List String
  pseudoArgc : List (String × List (Nat × String))
  costOk : List (Nat × List Nat)
  maxStringSize : Nat
  backBranchVersion : Nat
  initWidth : Nat
  constRule : Nat

def Env.look (env : Env) (v : Nat) : Nat → Option Nat → Option Spec := getSpec env.tbl v

/-- resolveLabels for a 2-byte reference from the instruction ending at `e` to target index `t` -/
def off2Of (v bb : Nat) (S : List Nat) (total e t : Nat) : Except Err Int :=
  match S[t]? with
  | none => .error .undefined
  | some d =>
    if v ≤ 1 ∧ d = total then .error .toEnd
    else if v < bb ∧ d < e then .error .backRef
    else if (d : Int) - (e : Int) < -32768 ∨ 32767 < (d : Int) - (e : Int) then .error .tooFar
    else .ok ((d : Int) - (e : Int))

def off2sOf (v bb : Nat) (S : List Nat) (total e : Nat) : List Nat → Except Err (List Int)
  | [] => .ok []
  | t :: ts =>
    match off2Of v bb S total e t with
    | .error x => .error x
    | .ok o =>
      match off2sOf v bb S total e ts with
      | .error x => .error x
      | .ok os => .ok (o :: os)

def resolveImm (v bb : Nat) (S : List Nat) (total k w : Nat) (e : Nat) : Imm → Except Err RImm
  | .byte b => .ok (.byte b)
  | .uint x => .ok (.uint x (uvarLen x))
  | .bytes bs => .ok (.bytes (uvarLen bs.length) bs)
  | .ints vs => .ok (.ints (uvarLen vs.length) (vs.map (fun x => (x, uvarLen x))))
  | .bytess bss => .ok (.bytess (uvarLen bss.length) (bss.map (fun b => (uvarLen b.length, b))))
  | .label t =>
    match off2Of v bb S total e t with
    | .error x => .error x
    | .ok o => .ok (.off2 o)
  | .labels ts =>
    match off2sOf v bb S total e ts with
    | .error x => .error x
    | .ok os => .ok (.offs os)
  | .vlabel t =>
    match S[t]? with
    | none => .error .undefined
    | some d =>
      if v ≤ 1 ∧ d = total then .error .toEnd
      else if v < bb ∧ d < e then .error .backRef
      else
        match vjump S k t with
        | none => .error .selfBranch
        | some j =>
          if w < needed j then .error .tooFar
          else if needed j < w then .error .placeholder
          else .ok (.voff j w)

def resolveImms (v bb : Nat) (S : List Nat) (total k w e : Nat) : List Imm → Except Err (List RImm)
  | [] => .ok []
  | im :: rest =>
    match resolveImm v bb S total k w e im with
    | .error x => .error x
    | .ok r =>
      match resolveImms v bb S total k w e rest with
      | .error x => .error x
      | .ok rs => .ok (r :: rs)

def resolveGo (v bb : Nat) (S : List Nat) (total : Nat) : Nat → List (Instr × Nat) → Except Err (List RInstr)
  | _, [] => .ok []
  | k, (i, w) :: rest =>
    match S[k + 1]? with
    | none => .error .undefined
    | some e =>
      match resolveImms v bb S total k w e i.imms with
      | .error x => .error x
      | .ok ims =>
        match resolveGo v bb S total (k + 1) rest with
        | .error x => .error x
        | .ok rs => .ok (⟨i.spec, ims⟩ :: rs)

def lastD (l : List Nat) (d : Nat) : Nat := match l.getLast? with | some x => x | none => d

/-- resolveLabels over the whole program -/
def resolve (v bb : Nat) (xs : List (Instr × Nat)) : Except Err (List RInstr) :=
  resolveGo v bb (startsOf xs) (lastD (startsOf xs) 0) 0 xs

/-- bytes of the instructions of a version-`v` program (no version header) -/
def encodeBody (env : Env) (v : Nat) (is : List Instr) : Except Err Bytes :=
  match relax (env.initWidth * is.length + 1) (is.map (fun i => (i, env.initWidth))) with
  | .error x => .error x
  | .ok xs =>
    match resolve v env.backBranchVersion xs with
    | .error x => .error x
    | .ok rs => .ok (encRaw rs)

/-- the assembled program: version varuint, then the instructions -/
def encode (env : Env) (v : Nat) (is : List Instr) : Except Err Bytes :=
  match encodeBody env v is with
  | .error x => .error x
  | .ok b => .ok (uvarint v ++ b)

/-! ### from raw instructions back to label indices -/

def rawSizes (rs : List RInstr) : List Nat := rs.map (fun r => (encInstr r).length)

def idxOfPos (S : List Nat) (p : Int) : Option Nat :=
  if p < 0 then none else
  let i := S.idxOf p.toNat
  if i < S.length then some i else none

def unresolveOffs (S : List Nat) (e : Nat) : List Int → Option (List Nat)
  | [] => some []
  | o :: os =>
    match idxOfPos S ((e : Int) + o), unresolveOffs S e os with
    | some t, some ts => some (t :: ts)
    | _, _ => none

def unresolveImm (S : List Nat) (p e : Nat) : RImm → Option Imm
  | .byte b => some (.byte b)
  | .uint v _ => some (.uint v)
  | .bytes _ bs => some (.bytes bs)
  | .ints _ vs => some (.ints (vs.map (·.1)))
  | .bytess _ bss => some (.bytess (bss.map (·.2)))
  | .off2 o => (idxOfPos S ((e : Int) + o)).map .label
  | .voff o _ => (idxOfPos S (if o < 0 then (p : Int) + o else (e : Int) + o)).map .vlabel
  | .offs os => (unresolveOffs S e os).map .labels

def unresolveImms (S : List Nat) (p e : Nat) : List RImm → Option (List Imm)
  | [] => some []
  | r :: rs =>
    match unresolveImm S p e r, unresolveImms S p e rs with
    | some i, some is => some (i :: is)
    | _, _ => none

def unresolveGo (S : List Nat) : Nat → List RInstr → Option (List Instr)
  | _, [] => some []
  | k, r :: rest =>
    match S[k]?, S[k + 1]? with
    | some p, some e =>
      match unresolveImms S p e r.imms, unresolveGo S (k + 1) rest with
      | some ims, some is => some (⟨r.spec, ims⟩ :: is)
      | _, _ => none
    | _, _ => none

def unresolve (rs : List RInstr) : Option (List Instr) := unresolveGo (startsFrom 0 (rawSizes rs)) 0 rs

/-- the instructions of a version-`v` program body; `plen` = length of the whole program -/
def decodeBody (env : Env) (v plen : Nat) (body : Bytes) : Except Err (List Instr) :=
  match decRaw (env.look v) plen body.length body with
  | none => .error .decode
  | some rs =>
    match unresolve rs with
    | none => .error .target
    | some is => .ok is

/-- version and instructions of a program (Disassemble's walk; a branch target that is not an instruction start is an error
    here, the real disassembler prints a label it never defines) -/
def decode (env : Env) (bs : Bytes) : Except Err (Nat × List Instr) :=
  match readU bs 10 with
  | none => .error .version
  | some (v, k) =>
    if env.logicVersion < v then .error .version else
    match decodeBody env v bs.length (bs.drop k) with
    | .error x => .error x
    | .ok is => .ok (v, is)

/-! ## token level -/

inductive Tok
  | name (s : String)     -- mnemonic, field name, label reference written in a source
  | num (n : Nat)         -- decimal numeral
  | sint (i : Int)        -- decimal numeral with a sign
  | hex (nib : List Nat)  -- 0x… : the hex digits
  | lref (k : Nat)        -- label<k>
  | ldef (k : Nat)        -- label<k>:
  | sdef (s : String)     -- <s>:
  deriving DecidableEq, Repr

abbrev Stmt := List Tok

def nibbles : Bytes → List Nat
  | [] => []
  | b :: r => b / 16 :: b % 16 :: nibbles r

def unnibbles : List Nat → Option Bytes
  | [] => some []
  | [_] => none
  | a :: b :: r => (unnibbles r).map (fun bs => (a * 16 + b) :: bs)

def hexValue (nib : List Nat) : Nat := nib.foldl (fun acc d => acc * 16 + d) 0

def two64 : Nat := 18446744073709551616

/-- strconv.ParseUint(s, 0, 64) on the numerals the token model knows -/
def tokNat : Tok → Option Nat
  | .num n => if n < two64 then some n else none
  | .hex nib => if nib ≠ [] ∧ hexValue nib < two64 then some (hexValue nib) else none
  | _ => none

/-- parseBinaryArgs on one token: 0x… is modelled; a bare word may start a base64 / base32 form (not modelled) -/
def tokBytes : Tok → Except Err Bytes
  | .hex nib => match unnibbles nib with | some b => .ok b | none => .error .syntax
  | .name _ => .error .unmodelled
  | _ => .error .syntax

/-- newest version ≤ max v 1, last listed on ties -/
def pickLatest (v : Nat) (rows : List Spec) : Option Spec :=
  rows.foldl (fun acc r =>
    if r.version ≤ max v 1 then
      match acc with
      | none => some r
      | some a => if a.version ≤ r.version then some r else some a
    else acc) none

def sameKey (r r' : Spec) : Bool := r.opcode == r'.opcode && r.sub == r'.sub

/-- OpsByName[v][name]: the newest row of that name registered at a version ≤ v, last listed; table 0 is the alias of
    table 1 and holds copies whose Version field is 0. An op keeps its opcode bytes across versions and no two ops share
    them (checked by the fact extractor on every run), so the rows of one name are the rows of one (opcode, sub-opcode). -/
def byName (env : Env) (v : Nat) (name : String) : Option Spec :=
  match env.rows.find? (fun r => r.name = name) with
  | none => none
  | some r0 =>
    match pickLatest v (env.rows.filter (fun r => sameKey r0 r)) with
    | none => none
    | some s => if s.name = name then some (if v = 0 then { s with version := 0 } else s) else none

def groupOf (env : Env) (key : String) : Option Group := findGroup env.groups key

/-- FieldGroup.SpecByName: a visible name of the group -/
def fieldByName (g : Group) (name : String) : Option FieldRow :=
  if name = "" then none else g.fields.find? (fun fr => fr.name = name)

def asmFnOf (env : Env) (s : Spec) : String := ((env.asmFn.find? (fun p => p.1 = s.id)).map (·.2)).getD ""

/-! ### print: the token form of Disassemble -/

def addTarget (order : List Nat) (t : Nat) : List Nat := if order.contains t then order else order ++ [t]

def immTargets : Imm → List Nat
  | .label t => [t]
  | .vlabel t => [t]
  | .labels ts => ts
  | _ => []

/-- labels in order of first reference: `label<k>` is the k-th element (1-based). A `proto` without a label gets one when the
    walk reaches it. -/
def labelOrderGo : Nat → List Instr → List Nat → List Nat
  | _, [], order => order
  | k, i :: rest, order =>
    let order1 := if i.spec.name = "proto" then addTarget order k else order
    let order2 := (i.imms.flatMap immTargets).foldl addTarget order1
    labelOrderGo (k + 1) rest order2

def labelOrder (is : List Instr) : List Nat := labelOrderGo 0 is []

def labelNo (order : List Nat) (t : Nat) : Option Nat :=
  let i := order.idxOf t
  if i < order.length then some (i + 1) else none

def int8Of (b : Nat) : Int := if 128 ≤ b then (b : Int) - 256 else (b : Int)

def printLabels (order : List Nat) : List Nat → Option (List Tok)
  | [] => some []
  | t :: ts =>
    match labelNo order t, printLabels order ts with
    | some k, some r => some (.lref k :: r)
    | _, _ => none

def printImm (env : Env) (order : List Nat) (im : OpTables.Imm) : Imm → Option (List Tok)
  | .byte b =>
    if im.declGroup ≠ "" then
      match groupOf env im.declGroup with
      | none => none
      | some g =>
        match g.fields[b]? with
        | none => none
        | some fr => if fr.name = "" then none else some [.name fr.name]
    else if im.kind = 1 then some [.sint (int8Of b)] else some [.num b]
  | .uint v => some [.num v]
  | .bytes bs => some [.hex (nibbles bs)]
  | .ints vs => some (vs.map .num)
  | .bytess bss => some (bss.map (fun b => .hex (nibbles b)))
  | .label t => (labelNo order t).map (fun k => [.lref k])
  | .vlabel t => (labelNo order t).map (fun k => [.lref k])
  | .labels ts => printLabels order ts

def printImms (env : Env) (order : List Nat) : List OpTables.Imm → List Imm → Option (List Tok)
  | [], [] => some []
  | im :: ims, x :: xs =>
    match printImm env order im x, printImms env order ims xs with
    | some a, some b => some (a ++ b)
    | _, _ => none
  | _, _ => none

def printInstr (env : Env) (order : List Nat) (i : Instr) : Option Stmt :=
  (printImms env order i.spec.imms i.imms).map (fun toks => .name i.spec.name :: toks)

def labelStmt (order : List Nat) (k : Nat) : List Stmt :=
  match labelNo order k with
  | some n => [[.ldef n]]
  | none => []

def printGo (env : Env) (order : List Nat) : Nat → List Instr → Option (List Stmt)
  | k, [] => some (labelStmt order k)
  | k, i :: rest =>
    match printInstr env order i, printGo env order (k + 1) rest with
    | some s, some r => some (labelStmt order k ++ s :: r)
    | _, _ => none

/-- the statements Disassemble prints (without the #pragma lines and comments) -/
def printProg (env : Env) (is : List Instr) : Option (List Stmt) := printGo env (labelOrder is) 0 is

/-! ### parse: the assembler front end on tokens -/

/-- label names: written in the source, or generated by the disassembler -/
inductive LName
  | src (s : String)
  | gen (k : Nat)
  deriving DecidableEq, Repr

/-- immediates before label resolution -/
inductive PImm
  | val (i : Imm)
  | lab (two : Bool) (n : LName)       -- two = 2-byte form
  | labs (ns : List LName)
  deriving Repr

structure PInstr where
  spec : Spec
  imms : List PImm
  deriving Repr

structure PState where
  out : List PInstr := []          -- reversed
  labels : List (LName × Nat) := []
  intcN : Nat := 0                  -- len(ops.intc) as far as explicit blocks define it (the last live intcblock)
  bytecN : Nat := 0
  deadIntc : Nat := 0               -- most constants of an intcblock seen in dead code
  deadBytec : Nat := 0
  anyIntc : Nat := 0                -- most constants of any intcblock seen
  anyBytec : Nat := 0
  dead : Bool := false              -- ops.known.deadcode
  deriving Repr

def tokLabel : Tok → Except Err LName
  | .name s => .ok (.src s)
  | .lref k => .ok (.gen k)
  | _ => .error .unmodelled

def tokLabels : List Tok → Except Err (List LName)
  | [] => .ok []
  | t :: ts =>
    match tokLabel t, tokLabels ts with
    | .ok n, .ok ns => .ok (n :: ns)
    | .error x, _ => .error x
    | _, .error x => .error x

/-- byteImm -/
def tokByte (t : Tok) : Except Err Nat :=
  match tokNat t with
  | some n => if n ≤ 255 then .ok n else .error .syntax
  | none => .error .syntax

/-- int8Imm: strconv.ParseInt(s, 10, 8) -/
def tokInt8 : Tok → Except Err Nat
  | .num n => if n ≤ 127 then .ok n else .error .syntax
  | .sint i => if -128 ≤ i ∧ i ≤ 127 then .ok ((i % 256).toNat) else .error .syntax
  | _ => .error .syntax

def tokNats : List Tok → Except Err (List Nat)
  | [] => .ok []
  | t :: ts =>
    match tokNat t, tokNats ts with
    | some n, .ok ns => .ok (n :: ns)
    | none, _ => .error .syntax
    | _, .error x => .error x

def tokBytess (maxLen : Nat) : List Tok → Except Err (List Bytes)
  | [] => .ok []
  | t :: ts =>
    match tokBytes t with
    | .error x => .error x
    | .ok b =>
      if maxLen < b.length then .error .syntax else
      match tokBytess maxLen ts with
      | .ok bs => .ok (b :: bs)
      | .error x => .error x

/-- a field immediate: the name is looked up among the visible names of the declared group (FieldGroup.SpecByName); the
    field must be visible in the group the op consults and not newer than the program (asmDefault: `fs.Version() >
    ops.Version`; asmItxnField: itxVersion; asmAppParamsSet: setVersion) -/
def tokField (env : Env) (v : Nat) (im : OpTables.Imm) (t : Tok) : Except Err Nat :=
  match t, groupOf env im.declGroup, groupOf env im.group with
  | .name s, some gd, some ge =>
    match fieldByName gd s with
    | none => .error .field
    | some fr =>
      match ge.fields[fr.idx]? with
      | none => .error .field
      | some fe => if fe.name = "" ∨ v < fe.version then .error .field else .ok fr.idx
  | _, _, _ => .error .field

/-- the immediates of one instruction, token by token, by immediate kind. List kinds (ints, bytess, labels) take all
    remaining tokens and are always the only immediate of their op. -/
def parseImms (env : Env) (v : Nat) : List OpTables.Imm → List Tok → Except Err (List PImm)
  | [], [] => .ok []
  | [], _ :: _ => .error .syntax
  | im :: ims, toks =>
    if im.kind = 5 then
      if ims ≠ [] then .error .unmodelled else
      match tokNats toks with
      | .ok ns => .ok [.val (.ints ns)]
      | .error x => .error x
    else if im.kind = 6 then
      if ims ≠ [] then .error .unmodelled else
      match tokBytess env.maxStringSize toks with
      | .ok bs => .ok [.val (.bytess bs)]
      | .error x => .error x
    else if im.kind = 7 then
      if ims ≠ [] then .error .unmodelled else
      if 255 < toks.length then .error .syntax else
      match tokLabels toks with
      | .ok ns => .ok [.labs ns]
      | .error x => .error x
    else
      match toks with
      | [] => .error .syntax
      | t :: ts =>
        let one : Except Err PImm :=
          if im.kind = 0 then
            if im.declGroup ≠ "" then
              match tokField env v im t with
              | .ok b => .ok (.val (.byte b))
              | .error x => .error x
            else
              match tokByte t with
              | .ok b => .ok (.val (.byte b))
              | .error x => .error x
          else if im.kind = 1 then
            if im.declGroup ≠ "" then .error .unmodelled else
            match tokInt8 t with
            | .ok b => .ok (.val (.byte b))
            | .error x => .error x
          else if im.kind = 2 ∨ im.kind = 8 then
            match tokLabel t with
            | .ok n => .ok (.lab (im.kind = 2) n)
            | .error x => .error x
          else if im.kind = 3 then
            match tokNat t with
            | some n => .ok (.val (.uint n))
            | none => .error .syntax
          else if im.kind = 4 then
            match tokBytes t with
            | .ok b => if env.maxStringSize < b.length then .error .syntax else .ok (.val (.bytes b))
            | .error x => .error x
          else .error .unmodelled
        match one with
        | .error x => .error x
        | .ok a =>
          match parseImms env v ims ts with
          | .ok b => .ok (a :: b)
          | .error x => .error x

/-- the asm functions of assembler.go the model knows -/
inductive FnClass
  | dflt | substring | intc | bytec | arg | itxn | gitxn | fieldSet | branch2 | branchV | switch
  | pushInt | pushBytes | pushInts | pushBytess | intcBlock | bytecBlock | unknown
  deriving DecidableEq, Repr

def classify (fn : String) : FnClass :=
  if fn = "asmDefault" then .dflt
  else if fn = "asmSubstring" then .substring
  else if fn = "asmIntC" then .intc
  else if fn = "asmByteC" then .bytec
  else if fn = "asmArg" then .arg
  else if fn = "asmItxn" then .itxn
  else if fn = "asmGitxn" then .gitxn
  else if fn = "asmItxnField" ∨ fn = "asmAppParamsSet" then .fieldSet
  else if fn = "asmBranch2B" then .branch2
  else if fn = "asmBranchVarint" then .branchV
  else if fn = "asmSwitch" then .switch
  else if fn = "asmPushInt" then .pushInt
  else if fn = "asmPushBytes" then .pushBytes
  else if fn = "asmPushInts" then .pushInts
  else if fn = "asmPushBytess" then .pushBytess
  else if fn = "asmIntCBlock" then .intcBlock
  else if fn = "asmByteCBlock" then .bytecBlock
  else .unknown

def classOf (env : Env) (s : Spec) : FnClass := classify (asmFnOf env s)

def plainBytes (s : Spec) (n : Nat) : Bool :=
  kindsOf s == List.replicate n 0 && s.imms.all (fun im => im.declGroup == "")

/-- the immediate kinds each asm function handles (anything else in the table makes the model answer `unmodelled`) -/
def shapeOK (c : FnClass) (s : Spec) : Bool :=
  match c with
  | .dflt => (kindsOf s).all (fun k => k == 0 || k == 1)
  | .substring => plainBytes s 2
  | .intc | .bytec | .arg => plainBytes s 1
  | .itxn | .fieldSet => kindsOf s == [0] && s.imms.all (fun im => im.declGroup != "")
  | .gitxn => kindsOf s == [0, 0]
  | .branch2 => kindsOf s == [2]
  | .branchV => kindsOf s == [8]
  | .switch => kindsOf s == [7]
  | .pushInt => kindsOf s == [3]
  | .pushBytes => kindsOf s == [4]
  | .pushInts | .intcBlock => kindsOf s == [5]
  | .pushBytess | .bytecBlock => kindsOf s == [6]
  | .unknown => false

/-- the spec an instruction statement is assembled with (getSpec with the pseudo-op table) -/
def specFor (env : Env) (v : Nat) (name : String) (argc : Nat) : Except Err Spec :=
  if env.pseudoFull.contains name then .error .unmodelled else
  match env.pseudoArgc.find? (fun p => p.1 = name) with
  | some (_, alts) =>
    match alts.find? (fun a => a.1 = argc) with
    | none => .error .syntax
    | some (_, target) =>
      match byName env v target with
      | some s => .ok s
      | none => .error .syntax      -- introduced later: "opcode with N immediates was introduced in v…"
  | none =>
    match byName env v name with
    | some s => .ok s
    | none => .error .syntax

/-- asmItxn / asmGitxn with one extra immediate assemble itxna / gitxna -/
def arityAlt (env : Env) (v : Nat) (alt : String) (s : Spec) (args : List Tok) : Except Err (Spec × List Tok) :=
  if args.length = s.imms.length then .ok (s, args)
  else if args.length = s.imms.length + 1 then
    match byName env v alt with
    | none => .error .syntax
    | some s' => if classOf env s' = .dflt ∧ shapeOK .dflt s' then .ok (s', args) else .error .unmodelled
  else .error .syntax

/-- arg_N / intc_N / bytec_N -/
def shortName (base : String) (n : Nat) : String := base ++ "_" ++ toString n

/-- asmArg / asmIntC / asmByteC with a constant index below 4 assemble arg_N / intc_N / bytec_N (no immediate) -/
def shortAlt (env : Env) (v : Nat) (s : Spec) (args : List Tok) : Except Err (Spec × List Tok) :=
  match args with
  | [a] =>
    match tokByte a with
    | .error x => .error x
    | .ok n =>
      if n < 4 then
        match byName env v (shortName s.name n) with
        | some s' => if s'.imms = [] ∧ classOf env s' = .dflt then .ok (s', []) else .error .unmodelled
        | none => .error .syntax
      else .ok (s, args)
  | _ => .error .syntax

/-- the asm functions that assemble with another spec than the one looked up -/
def altSpec (env : Env) (v : Nat) (c : FnClass) (s : Spec) (args : List Tok) : Except Err (Spec × List Tok) :=
  match c with
  | .itxn => arityAlt env v "itxna" s args
  | .gitxn => arityAlt env v "gitxna" s args
  | .arg | .intc | .bytec => shortAlt env v s args
  | _ => .ok (s, args)

/-- writeIntc / writeBytec: "intc N is not defined" unless a constant block the assembler has seen defines index N.
    `constRule`: 0 = only the current live block, 1 = also blocks seen in dead code, 2 = any block seen -/
def constDefined (env : Env) (idx cur deadMax anyMax : Nat) : Bool :=
  decide (idx < cur) || (env.constRule == 1 && decide (idx < deadMax)) || (env.constRule == 2 && decide (idx < anyMax))

/-- the constant index of an explicit `intc N` / `bytec N` statement -/
def constIdx (args : List Tok) : Except Err Nat :=
  match args with
  | [a] => tokByte a
  | _ => .error .syntax

/-- the asm function's own checks after the immediates are written, and what the assembler learns about constant blocks -/
def postAsm (env : Env) (c : FnClass) (st : PState) (args : List Tok) : Except Err PState :=
  match c with
  | .substring =>
    match args with
    | [a, b] =>
      match tokNat a, tokNat b with
      | some x, some y => if y < x then .error .syntax else .ok st
      | _, _ => .error .syntax
    | _ => .error .syntax
  | .intc =>
    match constIdx args with
    | .ok idx => if constDefined env idx st.intcN st.deadIntc st.anyIntc then .ok st else .error .undefinedConst
    | .error x => .error x
  | .bytec =>
    match constIdx args with
    | .ok idx => if constDefined env idx st.bytecN st.deadBytec st.anyBytec then .ok st else .error .undefinedConst
    | .error x => .error x
  | .intcBlock =>
    .ok (if st.dead then { st with deadIntc := max st.deadIntc args.length, anyIntc := max st.anyIntc args.length }
         else { st with intcN := args.length, anyIntc := max st.anyIntc args.length })
  | .bytecBlock =>
    .ok (if st.dead then { st with deadBytec := max st.deadBytec args.length, anyBytec := max st.anyBytec args.length }
         else { st with bytecN := args.length, anyBytec := max st.anyBytec args.length })
  | _ => .ok st

/-- one instruction statement: spec lookup, the asm function's own dispatch, immediates by kind, its extra checks and its
    effect on what the assembler knows about constant blocks -/
def asmInstr (env : Env) (v : Nat) (st : PState) (name : String) (args : List Tok) : Except Err (PInstr × PState) :=
  match specFor env v name args.length with
  | .error x => .error x
  | .ok s0 =>
    if ¬ shapeOK (classOf env s0) s0 then .error .unmodelled else
    match altSpec env v (classOf env s0) s0 args with
    | .error x => .error x
    | .ok (s, args') =>
      match parseImms env v s.imms args' with
      | .error x => .error x
      | .ok ims =>
        match postAsm env (classOf env s0) st args with
        | .error x => .error x
        | .ok st' => .ok (⟨s, ims⟩, st')

def defineLabel (st : PState) (n : LName) : Except Err PState :=
  if st.labels.any (fun p => p.1 = n) then .error .syntax
  else .ok { st with labels := (n, st.out.length) :: st.labels, dead := false }

/-- one statement: optional label definition, then an instruction -/
def parseStmt (env : Env) (v : Nat) (st : PState) (s : Stmt) : Except Err PState :=
  let withLabel : Except Err (PState × Stmt) :=
    match s with
    | .ldef k :: rest => (defineLabel st (.gen k)).map (fun st' => (st', rest))
    | .sdef n :: rest => (defineLabel st (.src n)).map (fun st' => (st', rest))
    | _ => .ok (st, s)
  match withLabel with
  | .error x => .error x
  | .ok (st1, rest) =>
    match rest with
    | [] => .ok st1
    | .name m :: args =>
      match asmInstr env v st1 m args with
      | .error x => .error x
      | .ok (p, st2) =>
        -- spec.deadens(); `callsub` is an entry point like a label (known.label() right after deaden())
        let dead := if p.spec.name = "callsub" then false
                    else if env.deadens.contains p.spec.id then true else st2.dead
        .ok { st2 with out := p :: st2.out, dead := dead }
    | _ => .error .syntax   -- a numeral / label token where a mnemonic is expected: "unknown opcode"

def parseStmts (env : Env) (v : Nat) : PState → List Stmt → Except Err PState
  | st, [] => .ok st
  | st, s :: rest =>
    match parseStmt env v st s with
    | .error x => .error x
    | .ok st' => parseStmts env v st' rest

def lookupLabel (labels : List (LName × Nat)) (n : LName) : Except Err Nat :=
  match labels.find? (fun p => p.1 = n) with
  | some p => .ok p.2
  | none => .error .undefined

def lookupLabels (labels : List (LName × Nat)) : List LName → Except Err (List Nat)
  | [] => .ok []
  | n :: ns =>
    match lookupLabel labels n, lookupLabels labels ns with
    | .ok t, .ok ts => .ok (t :: ts)
    | .error x, _ => .error x
    | _, .error x => .error x

def fixImm (labels : List (LName × Nat)) : PImm → Except Err Imm
  | .val i => .ok i
  | .lab two n => (lookupLabel labels n).map (fun t => if two then .label t else .vlabel t)
  | .labs ns => (lookupLabels labels ns).map .labels

def fixImms (labels : List (LName × Nat)) : List PImm → Except Err (List Imm)
  | [] => .ok []
  | p :: ps =>
    match fixImm labels p, fixImms labels ps with
    | .ok i, .ok is => .ok (i :: is)
    | .error x, _ => .error x
    | _, .error x => .error x

def fixInstrs (labels : List (LName × Nat)) : List PInstr → Except Err (List Instr)
  | [] => .ok []
  | p :: ps =>
    match fixImms labels p.imms, fixInstrs labels ps with
    | .ok ims, .ok is => .ok (⟨p.spec, ims⟩ :: is)
    | .error x, _ => .error x
    | _, .error x => .error x

/-- the token-level assembler front end: statements to instructions with label indices -/
def parseProg (env : Env) (v : Nat) (stmts : List Stmt) : Except Err (List Instr) :=
  if env.logicVersion < v then .error .version else
  match parseStmts env v {} stmts with
  | .error x => .error x
  | .ok st => fixInstrs st.labels st.out.reverse

/-- AssembleStringWithVersion on tokens -/
def asm (env : Env) (v : Nat) (stmts : List Stmt) : Except Err Bytes :=
  match parseProg env v stmts with
  | .error x => .error x
  | .ok is => encode env v is

/-- Disassemble on tokens -/
def dis (env : Env) (bs : Bytes) : Except Err (Nat × List Stmt) :=
  match decode env bs with
  | .error x => .error x
  | .ok (v, is) =>
    match printProg env is with
    | none => .error .field
    | some stmts => .ok (v, stmts)

/-! ## the static check (eval.go: check / checkStep and the per-op check functions) -/

inductive Verdict
  | ok | mode | err
  deriving DecidableEq, Repr

structure CkState where
  starts : List Nat := []     -- instructionStarts
  targets : List Nat := []    -- branchTargets
  deriving Repr

/-- checkSwitch, one offset: the target is within the program and, when it lies before the end of the instruction, an
    instruction start already seen -/
def offStep (plen e : Nat) (acc : Option CkState) (o : Int) : Option CkState :=
  match acc with
  | none => none
  | some s =>
    if (e : Int) + o < 0 ∨ (plen : Int) < (e : Int) + o then none
    else if ((e : Int) + o).toNat < e ∧ ¬ s.starts.contains ((e : Int) + o).toNat then none
    else some { s with targets := ((e : Int) + o).toNat :: s.targets }

/-- the branch rules of checkBranch / checkSwitch / checkBranchVarint for one decoded instruction at `pc` ending at `e` -/
def checkTargets (v bb plen pc e : Nat) (st : CkState) : List RImm → Option CkState
  | [] => some st
  | .off2 o :: rest =>
    -- branchTarget: negative offsets need v ≥ 4; v ≥ 2 may branch to the very end
    let t := (e : Int) + o
    if o < 0 ∧ v < bb then none
    else if t < 0 ∨ (if 2 ≤ v then (plen : Int) < t else (plen : Int) ≤ t) then none
    else if t.toNat < e ∧ ¬ st.starts.contains t.toNat then none
    else checkTargets v bb plen pc e { st with targets := t.toNat :: st.targets } rest
  | .offs os :: rest =>
    match os.foldl (offStep plen e) (some st) with
    | none => none
    | some s => checkTargets v bb plen pc e s rest
  | .voff o _ :: rest =>
    let t := if o < 0 then (pc : Int) + o else (e : Int) + o
    if t < 0 ∨ (plen : Int) < t then none
    else if t.toNat < pc ∧ ¬ st.starts.contains t.toNat then none
    else checkTargets v bb plen pc e { st with targets := t.toNat :: st.targets } rest
  | _ :: rest => checkTargets v bb plen pc e st rest

def itemsOk (maxLen : Nat) : List RImm → Bool
  | [] => true
  | .bytess _ bss :: rest => bss.all (fun p => p.2.length ≤ maxLen) && itemsOk maxLen rest
  | _ :: rest => itemsOk maxLen rest

def costOkFor (env : Env) (s : Spec) (body : Bytes) : Bool :=
  match env.costOk.find? (fun p => p.1 = s.id) with
  | none => true
  | some (_, oks) =>
    match body with
    | f :: _ => oks.contains f
    | [] => false

/-- check's loop. `pc` = offset of `bs` in the program. -/
def checkGo (env : Env) (v mode plen : Nat) : Nat → Nat → Bytes → CkState → Verdict
  | _, _, [], _ => .ok
  | 0, _, _ :: _, _ => .err
  | fuel + 1, pc, bs@(op :: tl), st =>
    let st1 := { st with starts := pc :: st.starts }
    match env.look v op tl.head? with
    | none => .err
    | some s =>
      if ¬ allows s.modes mode then .mode
      else if s.size ≠ 0 ∧ plen < pc + s.size then .err
      else if ¬ costOkFor env s tl then .err
      else
        match decInstr (env.look v) plen bs with
        | none => .err
        | some (r, rest) =>
          let e := pc + (bs.length - rest.length)
          if env.protoVersion ≥ 13 ∧ ¬ itemsOk env.maxStringSize r.imms then .err else
          match checkTargets v env.backBranchVersion plen pc e st1 r.imms with
          | none => .err
          | some st2 =>
            if (List.range (e - pc - 1)).any (fun d => st2.targets.contains (pc + 1 + d)) then .err
            else checkGo env v mode plen fuel e rest st2

/-- CheckSignature / CheckContract (mode 1 / 2) in an environment whose minimum program version is `minv` -/
def staticCheck (env : Env) (mode minv : Nat) (bs : Bytes) : Verdict :=
  match readU bs 10 with
  | none => .err
  | some (v, k) =>
    if env.logicVersion < v ∨ env.protoVersion < v ∨ v < minv then .err
    else checkGo env v mode bs.length bs.length k (bs.drop k) {}

/-! ## today's environment -/

def genEnv : Env where
  rows := Gen.OpTable.opSpecs
  groups := Gen.OpTable.fieldGroups
  tbl := buildTables Gen.OpTable.opSpecs
  logicVersion := Gen.OpTable.logicVersion
  protoVersion := Gen.AsmTable.logicSigVersionOfProto
  asmFn := Gen.AsmTable.asmFn
  deadens := Gen.AsmTable.deadens
  pseudoFull := Gen.AsmTable.pseudoFull
  pseudoArgc := Gen.AsmTable.pseudoArgc
  costOk := Gen.AsmTable.costOk
  maxStringSize := Gen.AsmTable.maxStringSize
  backBranchVersion := Gen.AsmTable.backBranchEnabledVersion
  initWidth := Gen.AsmTable.varintBranchInitialSize
  constRule := Gen.AsmTable.constRule

end Model.AsmFormat
