/-
Model of crypto/onetimesig.go (OneTimeSignatureSecrets: generate, Sign, Verify, DeleteBeforeFineGrained),
written after the Go code branch by branch.  Core Lean only.

Symbolic cryptography (ideal Ed25519):
 * a key pair is a symbol `Key`; HOLDING a `Sub` (ephemeralSubkey) in the state means holding its secret;
 * a signature is the pair (signer, message) — `edVerify pk m s` accepts exactly the genuine signature of `m`
   under `pk`; the three Hashable kinds (payload / OneTimeSignatureSubkeyBatchID / …OffsetID) are distinct
   constructors (the Go code separates them by the HashID prefix);
 * `Key.zero` / `zeroSig` are the zero values of the Go structs (the all-zero public key never verifies).
Machine integers: `uint64` values are `Nat`s; the only places where wrap-around can occur
(`id.Batch+1`, `startBatch+i`) carry an explicit `% M64`.  All other additions/subtractions are shown
exact in Props/C36 under the branch conditions (see comments at each site).
Out of scope: wiping of freed Go memory (the Go code has a TODO there); freshness of generated keys
(every key generated for (batch, offset) is the same symbol).
-/
namespace AlgoVerif.Model.OneTimeSig

def M64 : Nat := 18446744073709551616

/-- symbolic key pairs -/
inductive Key where
  | zero                 -- zero value of ed25519PublicKey
  | master               -- OneTimeSignatureVerifier; its secret is dropped at the end of generate
  | B (b : Nat)          -- subkey of batch b made by GenerateOneTimeSignatureSecretsRNG
  | O (b o : Nat)        -- offset subkey made by DeleteBeforeFineGrained step 3 (retained in Offsets)
  | T (b o : Nat)        -- throw-away subkey made inside Sign (never retained)
  | adv (n : Nat)        -- keys made by anybody else
deriving DecidableEq, Repr

inductive Msg where
  | payload (m : Nat)
  | batchID (pk : Key) (batch : Nat)               -- OneTimeSignatureSubkeyBatchID
  | offsetID (pk : Key) (batch offset : Nat)       -- OneTimeSignatureSubkeyOffsetID
deriving DecidableEq, Repr

/-- ideal signature -/
structure SSig where
  signer : Key
  msg : Msg
deriving DecidableEq, Repr

def zeroSig : SSig := ⟨.zero, .payload 0⟩
def edSign (sk : Key) (m : Msg) : SSig := ⟨sk, m⟩
def edVerify (pk : Key) (m : Msg) (s : SSig) : Bool := decide (pk ≠ .zero) && decide (s = ⟨pk, m⟩)

/-- ephemeralSubkey {PK, SK, PKSigNew} -/
structure Sub where
  key : Key
  pkSigNew : SSig
deriving DecidableEq, Repr

/-- OneTimeSignatureIdentifier -/
structure Id where
  batch : Nat
  offset : Nat
deriving DecidableEq, Repr

/-- lexicographic "earlier than" -/
def Id.lt (a b : Id) : Prop := a.batch < b.batch ∨ (a.batch = b.batch ∧ a.offset < b.offset)
instance (a b : Id) : Decidable (Id.lt a b) := by unfold Id.lt; exact inferInstance

/-- OneTimeSignature (PKSigOld is unused by the code) -/
structure OTS where
  sig : SSig
  pk : Key
  pk1Sig : SSig
  pk2 : Key
  pk2Sig : SSig
deriving DecidableEq, Repr

/-- OneTimeSignatureSecretsPersistent; `batchesNonNil` records Go's `s.Batches != nil` -/
structure State where
  verifier : Key
  firstBatch : Nat
  batches : List Sub
  batchesNonNil : Bool
  firstOffset : Nat
  offsets : List Sub
  offsetsPK2 : Key
  offsetsPK2Sig : SSig
deriving DecidableEq, Repr

def batchSub (mk : Key) (b : Nat) : Sub :=
  ⟨.B b, edSign mk (.batchID (.B b) b)⟩

/-- the subkey step 3 of DeleteBeforeFineGrained makes for (batch, off) from the batch subkey `bk` -/
def offSub (bk : Key) (batch off : Nat) : Sub :=
  ⟨.O batch off, edSign bk (.offsetID (.O batch off) batch off)⟩

/-- GenerateOneTimeSignatureSecretsRNG(startBatch, numBatches):  `batchnum := startBatch + i` is uint64. -/
def generate (startBatch numBatches : Nat) : State :=
  { verifier := .master
    firstBatch := startBatch
    batches := (List.range numBatches).map (fun i => batchSub .master ((startBatch + i) % M64))
    batchesNonNil := true            -- make([]ephemeralSubkey, n) is non-nil even for n = 0
    firstOffset := 0
    offsets := []
    offsetsPK2 := .zero
    offsetsPK2Sig := zeroSig }

/-- Sign; `none` is the zero `OneTimeSignature{}` returned for an out-of-range identifier. -/
def sign (s : State) (id : Id) (m : Nat) : Option OTS :=
  -- if id.Batch+1 == s.FirstBatch && id.Offset >= s.FirstOffset && id.Offset-s.FirstOffset < len(s.Offsets)
  if h : (id.batch + 1) % M64 = s.firstBatch ∧ id.offset ≥ s.firstOffset ∧
         id.offset - s.firstOffset < s.offsets.length then
    let sub := s.offsets[id.offset - s.firstOffset]'h.2.2
    some { sig := edSign sub.key (.payload m), pk := sub.key, pk1Sig := sub.pkSigNew,
           pk2 := s.offsetsPK2, pk2Sig := s.offsetsPK2Sig }
  -- if id.Batch >= s.FirstBatch && id.Batch-s.FirstBatch < len(s.Batches)
  else if h : id.batch ≥ s.firstBatch ∧ id.batch - s.firstBatch < s.batches.length then
    let bk := s.batches[id.batch - s.firstBatch]'h.2
    let pk := Key.T id.batch id.offset
    some { sig := edSign pk (.payload m), pk := pk,
           pk1Sig := edSign bk.key (.offsetID pk id.batch id.offset),
           pk2 := bk.key, pk2Sig := bk.pkSigNew }
  else none

/-- OneTimeSignatureVerifier.Verify: the three-link chain (the batch verifier accepts iff all three do). -/
def verify (v : Key) (id : Id) (m : Nat) (sg : OTS) : Bool :=
  edVerify v (.batchID sg.pk2 id.batch) sg.pk2Sig &&
  edVerify sg.pk2 (.offsetID sg.pk id.batch id.offset) sg.pk1Sig &&
  edVerify sg.pk (.payload m) sg.sig

/-- the loop `for off := current.Offset; off < numKeysPerBatch; off++` of step 3 -/
def expand (bk : Key) (batch curOff numKeys : Nat) : List Sub :=
  (List.range' curOff (numKeys - curOff)).map (fun off => offSub bk batch off)

/-- DeleteBeforeFineGrained(current, numKeysPerBatch) -/
def deleteBeforeFineGrained (s : State) (cur : Id) (numKeys : Nat) : State :=
  -- if current.Batch+1 == s.FirstBatch
  if (cur.batch + 1) % M64 = s.firstBatch then
    if cur.offset > s.firstOffset then
      let jump := min (cur.offset - s.firstOffset) s.offsets.length
      -- FirstOffset += jump cannot wrap: jump ≤ current.Offset - FirstOffset
      { s with firstOffset := s.firstOffset + jump, offsets := s.offsets.drop jump }
    else s
  -- if current.Batch+1 < s.FirstBatch
  else if (cur.batch + 1) % M64 < s.firstBatch then s
  else
    -- here (cur.batch+1) % M64 > firstBatch, hence cur.batch+1 < M64 and cur.batch ≥ firstBatch:
    -- the uint64 subtraction below is exact and `FirstBatch += jump`, `FirstBatch++` cannot wrap.
    let jump := cur.batch - s.firstBatch
    if jump > s.batches.length then
      if s.batchesNonNil then
        { s with offsets := [], firstBatch := cur.batch, batches := [], batchesNonNil := false }
      else
        { s with offsets := [] }
    else
      match s.batches.drop jump with
      | [] =>
        { s with offsets := [], firstBatch := s.firstBatch + jump, batches := [] }
      | b0 :: rest =>
        { s with offsetsPK2 := b0.key, offsetsPK2Sig := b0.pkSigNew,
                 firstOffset := cur.offset,
                 offsets := expand b0.key cur.batch cur.offset numKeys,
                 firstBatch := s.firstBatch + jump + 1,
                 batches := rest }

/-- one key-advance operation -/
structure Op where
  cur : Id
  numKeys : Nat
deriving DecidableEq, Repr

def step (s : State) (op : Op) : State := deleteBeforeFineGrained s op.cur op.numKeys
def run (s : State) (ops : List Op) : State := ops.foldl step s

/-- the secrets a holder of the state holds -/
def retained (s : State) : List Key := s.batches.map (·.key) ++ s.offsets.map (·.key)

/-- authority relation: which identifiers a secret can produce a verifying signature for.
    (Justified against `verify` by `Props.C36.forgery_needs_authority`.) -/
def authority : Key → Id → Bool
  | .B b, id => id.batch == b
  | .O b o, id => id.batch == b && id.offset == o
  | .T b o, id => id.batch == b && id.offset == o
  | .master, _ => true
  | .zero, _ => false
  | .adv _, _ => false

/-- data/basics/units.go:OneTimeIDForRound — `Batch: round / keyDilution, Offset: round % keyDilution`.
    Go panics for keyDilution = 0 (callers substitute the consensus default first); here the precondition is a
    parameter. -/
def idForRound (round dil : Nat) (_hd : 0 < dil) : Id := ⟨round / dil, round % dil⟩

/-- data/account/participation.go:DeleteOldKeys / participationRegistry.go:
    `Voting.DeleteBeforeFineGrained(OneTimeIDForRound(r, keyDilution), keyDilution)` for a list of rounds -/
def advanceOps (dil : Nat) (hd : 0 < dil) (rounds : List Nat) : List Op :=
  rounds.map (fun r => ⟨idForRound r dil hd, dil⟩)

/-- FillDBWithParticipationKeys: keys for rounds firstValid..lastValid -/
def generateForRounds (firstValid lastValid dil : Nat) (hd : 0 < dil) : State :=
  generate (idForRound firstValid dil hd).batch
    ((idForRound lastValid dil hd).batch - (idForRound firstValid dil hd).batch + 1)

/-! ## Persistence layer (data/account/participation.go: PersistedParticipation)

`DeleteOldKeys(r)` = `Voting.DeleteBeforeFineGrained(OneTimeIDForRound(r, d), d)`, then `Voting.Snapshot()` of the
ADVANCED secrets is encoded and written to the part-key DB; the returned channel yields nil when the write committed
(the acknowledged point).  A restart reloads the secrets with `RestoreParticipation` (msgpack decode of what is on disk).
Only acknowledged advances are modelled (the history waits for the channel). -/

/-- msgpack round trip of OneTimeSignatureSecretsPersistent (`omitempty,omitemptyarray`): an empty `Batches` slice is
    omitted and comes back as nil; everything else is restored as written -/
def reload (s : State) : State := { s with batchesNonNil := !s.batches.isEmpty }

/-- a node: the secrets in memory and the secrets in the part-key DB -/
structure Node where
  mem : State
  disk : State
deriving DecidableEq, Repr

inductive NOp where
  | advance (cur : Id) (numKeys : Nat)   -- DeleteOldKeys, acknowledged
  | restart                              -- process restart: RestoreParticipation from the DB
deriving DecidableEq, Repr

/-- FillDBWithParticipationKeys persists the freshly generated secrets -/
def nodeInit (start n : Nat) : Node := ⟨generate start n, generate start n⟩

def nstep (nd : Node) : NOp → Node
  | .advance cur nk =>
    let m := deleteBeforeFineGrained nd.mem cur nk    -- first advance the in-memory secrets …
    ⟨m, m⟩                                            -- … then persist Snapshot() of the advanced secrets:  disk := mem
  | .restart => ⟨reload nd.disk, nd.disk⟩             -- mem := what is on disk

def nrun (nd : Node) (h : List NOp) : Node := h.foldl nstep nd

/-- the advance operations of a history -/
def advancesOf : List NOp → List Op
  | [] => []
  | .advance cur nk :: rest => ⟨cur, nk⟩ :: advancesOf rest
  | .restart :: rest => advancesOf rest

end AlgoVerif.Model.OneTimeSig
