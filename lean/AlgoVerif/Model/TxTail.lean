/-
Model.TxTail — duplicate / lease detection of the ledger (property C11).

Mirrors, structure for structure,
  * ledger/txtail.go        : `txTail` (`recent`, `lastValid`, `lowWaterMark`), `newBlock`, `committedUpTo`, `loadFromDisk`,
                              `checkDup`, and the tx-tail part of `commitRound` (`TxtailNewRound`: insert rows, forget old ones);
  * ledger/eval/cow.go      : `roundCowState.checkDup` / `addTx` / `commitToParent` restricted to `mods.Txids`, `mods.Txleases`;
  * ledger/eval/eval.go     : `roundCowBase.checkDup` (→ `Ledger.CheckDup(proto, rnd+1, …)`), `BlockEvaluator.transaction`
                              (Alive, then checkDup through the cow layers), `TransactionGroup` (WellFormed of every member,
                              a child cow per group, commit to the parent on success), `TestTransactionGroup`;
  * ledger/tracker.go / ledger.go : which of these run on AddBlock, on the block queue's notifyCommit, on a tracker flush and on
                              `reloadLedger` (loadFromDisk, replay of the unflushed blocks, the flush at the end of the replay).

Maps are functions (`Nat → Option …`); a missing map entry is `none`.  Core Lean only.

Not modelled (irrelevant to `checkDup`): the `uint16` confirmation delta stored in `lastValid` (used by `checkConfirmed`),
block headers / `blockHeaderData`, tail hashes, the distinction between a missing and an empty `lastValid` bucket,
the msgpack encoding of the persisted rounds (a persisted round is the list of the block's transactions), protocol
upgrades inside one history (`recent[r].proto` is the one consensus version of the case).
-/
namespace Model.TxTail

/-- what duplicate detection sees of a transaction -/
structure Tx where
  txid : Nat
  fv : Nat
  lv : Nat
  snd : Nat
  lease : Nat            -- 0 = no lease (`[32]byte{}`)
deriving DecidableEq, Repr

abbrev LeaseKey := Nat × Nat          -- ledgercore.Txlease{Sender, Lease}
def Tx.key (t : Tx) : LeaseKey := (t.snd, t.lease)

structure Params where
  maxLife : Nat                  -- MaxTxnLife
  fixLeases : Bool               -- FixTransactionLeases
  supLeases : Bool               -- SupportTransactionLeases
  deeper : Nat                   -- DeeperBlockHeaderHistory (only enlarges the persisted tail)
  lookback : Nat                 -- config MaxAcctLookback (only decides which rounds a flush persists)
  /-- the loop guard of `txTail.loadFromDisk` as found in the tree (observed on the real code by the harness):
      `true`  = `old <= dbRound && dbRound > baseRound`   (nothing is loaded when exactly one round is persisted),
      `false` = rows are loaded whenever there are any. -/
  strictGuard : Bool
deriving Repr

inductive Res where
  | ok
  | txdup (inBlock : Bool)       -- TransactionInLedgerError{InBlockEvaluator}
  | lease (inBlock : Bool)       -- LeaseInLedgerError{InBlockEvaluator}
  | deadEarly | deadLate         -- TxnDeadError
  | malformed                    -- TxnNotWellFormedError
  | missing                      -- errTxTailMissingRound
deriving DecidableEq, Repr

/-- rounds `a, a+1, …, b` (empty when `b < a`) -/
def rangeIncl (a b : Nat) : List Nat := List.range' a (b + 1 - a)

/-! ## lease maps (`map[ledgercore.Txlease]basics.Round`) -/

abbrev Leases := LeaseKey → Option Nat

def noLeases : Leases := fun _ => none

/-- `StateDelta.AddTxLease(key, expires)` -/
def setLease (m : Leases) (k : LeaseKey) (e : Nat) : Leases := fun k' => if k' = k then some e else m k'

/-- the lease part of `roundCowState.addTx` (also the loop body of loadFromDisk over `TxTailRound.Leases`) -/
def addLease (m : Leases) (t : Tx) : Leases := if t.lease ≠ 0 then setLease m t.key t.lv else m

/-- leases taken by the transactions of one block, in payset order -/
def leasesOf (txs : List Tx) : Leases := txs.foldl addLease noLeases

/-- the `for txl, expires := range cb.mods.Txleases { parent.AddTxLease(txl, expires) }` of commitToParent -/
def mergeLeases (parent child : Leases) : Leases := fun k => match child k with | some e => some e | none => parent k

/-! ## txTail -/

structure Tail where
  recent : Nat → Option Leases          -- recent[rnd].txleases
  lastValid : Nat → Nat → Bool          -- lastValid[lv][txid] present
  lowWaterMark : Nat

def Tail.empty : Tail := { recent := fun _ => none, lastValid := fun _ _ => false, lowWaterMark := 0 }

/-- `txTail.newBlock(blk, delta)`: `txs` = payset / `delta.Txids`, `leases` = `delta.Txleases` -/
def Tail.newBlock (t : Tail) (rnd : Nat) (txs : List Tx) (leases : Leases) : Tail :=
  match t.recent rnd with
  | some _ => t                                    -- "Repeat, ignore"
  | none =>
    { t with
      lastValid := fun lv id => t.lastValid lv id || txs.any (fun x => decide (x.lv = lv ∧ x.txid = id))
      recent := fun r => if r = rnd then some leases else t.recent r }

/-- `txTail.committedUpTo(rnd)` -/
def Tail.committedUpTo (P : Params) (t : Tail) (rnd : Nat) : Tail :=
  let maxlife := match t.recent rnd with | some _ => P.maxLife | none => 0     -- `t.recent[rnd].proto` of a missing round is the zero value
  { recent := fun r => if r + maxlife < rnd then none else t.recent r
    lastValid := fun lv id => if t.lowWaterMark ≤ lv ∧ lv < rnd then false else t.lastValid lv id
    lowWaterMark := max t.lowWaterMark rnd }

/-- is the lease `key` held in `recent[r]` until at least `current`? -/
def Tail.leaseAt (t : Tail) (current : Nat) (key : LeaseKey) (r : Nat) : Bool :=
  match t.recent r with
  | some m => (match m key with | some e => decide (current ≤ e) | none => false)
  | none => false

/-- the rounds scanned for a lease -/
def leaseWindow (P : Params) (current fv lv : Nat) : List Nat :=
  if P.fixLeases then rangeIncl (current - P.maxLife) current else rangeIncl fv lv

/-- `txTail.checkDup(proto, current, firstValid, lastValid, txid, txl)` -/
def Tail.checkDup (P : Params) (t : Tail) (current fv lv txid : Nat) (key : LeaseKey) : Res :=
  if lv < t.lowWaterMark then .missing
  else if P.supLeases && decide (key.2 ≠ 0) && (leaseWindow P current fv lv).any (t.leaseAt current key) then .lease false
  else if t.lastValid lv txid then .txdup false
  else .ok

/-! ## the persisted tail (table `txtail`: one row per round) -/

structure TailDB where
  hi : Nat                      -- tracker DB round
  lo : Nat                      -- lowest round with a row; rows exist exactly for lo..hi (none when hi < lo)
  row : Nat → List Tx

def TailDB.empty : TailDB := { hi := 0, lo := 1, row := fun _ => [] }

/-- txTail.commitRound: `TxtailNewRound(oldBase+1, deltas, forgetBefore)` with
    `forgetBefore = (newBase+1) ∸ (MaxTxnLife + DeeperBlockHeaderHistory)`; the deltas are the rounds `oldBase+1..newBase`
    as encoded by `newBlock`. -/
def TailDB.commit (P : Params) (db : TailDB) (blocks : Nat → List Tx) (newBase : Nat) : TailDB :=
  { hi := newBase
    lo := max db.lo (newBase + 1 - (P.maxLife + P.deeper))
    row := fun r => if db.hi < r ∧ r ≤ newBase then blocks r else db.row r }

/-- does the loop of loadFromDisk run at all? (`dbRound > 0` for the query, then the guard of the `for`) -/
def TailDB.loads (P : Params) (db : TailDB) : Bool :=
  if P.strictGuard then decide (db.lo < db.hi) else decide (db.lo ≤ db.hi)

/-- `txTail.loadFromDisk(l, dbRound)`; `latest` = `l.Latest()` -/
def Tail.loadFromDisk (P : Params) (db : TailDB) (latest : Nat) : Tail :=
  { lowWaterMark := latest
    recent := fun r =>
      if db.loads P ∧ db.lo ≤ r ∧ r ≤ db.hi then some (if P.supLeases then leasesOf (db.row r) else noLeases) else none
    lastValid := fun lv id =>
      db.loads P && decide (latest < lv) &&
        (rangeIncl db.lo db.hi).any (fun r => (db.row r).any (fun x => decide (x.lv = lv ∧ x.txid = id))) }

/-! ## cow layers (ledger/eval/cow.go) -/

/-- the part of `roundCowState.mods` that duplicate detection uses -/
structure Layer where
  txs : List Tx := []                   -- mods.Txids (keys, with LastValid) in Intra order = the payset built so far
  leases : Leases := noLeases           -- mods.Txleases

/-- `roundCowState.addTx` -/
def Layer.addTx (l : Layer) (t : Tx) : Layer := { txs := l.txs ++ [t], leases := addLease l.leases t }

/-- `child.commitToParent()` (Txids re-indexed behind the parent's, leases merged) -/
def Layer.commitTo (parent child : Layer) : Layer :=
  { txs := parent.txs ++ child.txs, leases := mergeLeases parent.leases child.leases }

/-- one `roundCowState.checkDup` before it defers to `lookupParent`; `none` = defer -/
def layerCheck (P : Params) (rnd : Nat) (l : Layer) (t : Tx) : Option Res :=
  if l.txs.any (fun x => decide (x.txid = t.txid)) then some (.txdup true)
  else if P.supLeases && decide (t.lease ≠ 0) then
    match l.leases t.key with
    | some e => if rnd ≤ e then some (.lease true) else none
    | none => none
  else none

/-- `checkDup` through a stack of cows (innermost first) down to the base (`roundCowBase.checkDup`) -/
def cowCheckDup (P : Params) (rnd : Nat) (base : Tx → Res) : List Layer → Tx → Res
  | [], t => base t
  | l :: ps, t => match layerCheck P rnd l t with
    | some r => r
    | none => cowCheckDup P rnd base ps t

/-! ## transactions and groups (ledger/eval/eval.go, data/transactions, data/bookkeeping) -/

/-- the parts of `Transaction.WellFormed` that concern the validity window and leases -/
def wellFormed (P : Params) (t : Tx) : Bool :=
  !(decide (t.lv < t.fv)) && !(decide (t.lv - t.fv > P.maxLife)) && (P.supLeases || decide (t.lease = 0))

/-- `BlockHeader.Alive` (round part) -/
def alive (rnd : Nat) (t : Tx) : Option Res :=
  if rnd < t.fv then some .deadEarly else if rnd > t.lv then some .deadLate else none

/-- the ledger as the evaluator's base sees it: `roundCowBase.checkDup` = `Ledger.CheckDup(proto, x.rnd+1, …)`, `rnd = x.rnd+1` -/
def baseCheck (P : Params) (tail : Tail) (rnd : Nat) (t : Tx) : Res :=
  tail.checkDup P rnd t.fv t.lv t.txid t.key

/-- `BlockEvaluator.transaction` (validate part that matters here) on the group's cow `child` above the block's cow `blk` -/
def evalTx (P : Params) (tail : Tail) (rnd : Nat) (blk child : Layer) (t : Tx) : Except Res Layer :=
  match alive rnd t with
  | some r => .error r
  | none =>
    match cowCheckDup P rnd (baseCheck P tail rnd) [child, blk] t with
    | .ok => .ok (child.addTx t)
    | r => .error r

/-- the loop of `TransactionGroup` over the members -/
def evalTxs (P : Params) (tail : Tail) (rnd : Nat) (blk : Layer) : Layer → List Tx → Except Res Layer
  | child, [] => .ok child
  | child, t :: ts =>
    match evalTx P tail rnd blk child t with
    | .error r => .error r
    | .ok child' => evalTxs P tail rnd blk child' ts

/-- `BlockEvaluator.TransactionGroup`: on success the new block-level cow; on failure the evaluator is unchanged -/
def txGroup (P : Params) (tail : Tail) (rnd : Nat) (blk : Layer) (g : List Tx) : Except Res Layer :=
  if g.all (wellFormed P) then
    match evalTxs P tail rnd blk {} g with
    | .error r => .error r
    | .ok child => .ok (blk.commitTo child)
  else .error .malformed

/-- `BlockEvaluator.TestTransactionGroup`: WellFormed, then `testTransaction` of every member against `eval.state` (no child cow) -/
def testGroup (P : Params) (tail : Tail) (rnd : Nat) (blk : Layer) (g : List Tx) : Res :=
  if g.all (wellFormed P) then
    let rec go : List Tx → Res
      | [] => .ok
      | t :: ts =>
        match alive rnd t with
        | some r => r
        | none =>
          match cowCheckDup P rnd (baseCheck P tail rnd) [blk] t with
          | .ok => go ts
          | r => r
    go g
  else .malformed

/-- a whole block: the groups are fed one after the other, every one must be accepted (what block validation replays) -/
def evalBlock (P : Params) (tail : Tail) (rnd : Nat) : Layer → List (List Tx) → Option Layer
  | blk, [] => some blk
  | blk, g :: gs =>
    match txGroup P tail rnd blk g with
    | .ok blk' => evalBlock P tail rnd blk' gs
    | .error _ => none

/-! ## the ledger around the tail -/

structure Ledger where
  latest : Nat
  blocks : Nat → List Tx          -- block store: payset of round r (`[]` for round 0 and for rounds above `latest`)
  tail : Tail
  db : TailDB

def Ledger.init : Ledger := { latest := 0, blocks := fun _ => [], tail := Tail.empty, db := TailDB.empty }

/-- `AddValidatedBlock`: `trackers.newBlock(blk, delta)` with the evaluator's delta -/
def Ledger.addBlock (σ : Ledger) (l : Layer) : Ledger :=
  let r := σ.latest + 1
  { σ with latest := r, blocks := fun x => if x = r then l.txs else σ.blocks x, tail := σ.tail.newBlock r l.txs l.leases }

/-- the block queue's `notifyCommit(rnd)` → `trackers.committedUpTo(rnd)` (tx-tail part) -/
def Ledger.committedUpTo (P : Params) (σ : Ledger) (rnd : Nat) : Ledger :=
  { σ with tail := σ.tail.committedUpTo P rnd }

/-- a tracker flush scheduled for block-queue round `committed`: `accountUpdates.produceCommittingTask` picks
    `newBase = committed - lookback` (nothing to do when that is not above the DB round), `txTail.commitRound` persists -/
def Ledger.flush (P : Params) (σ : Ledger) (committed : Nat) : Ledger :=
  if committed < P.lookback then σ
  else
    let newBase := committed - P.lookback
    if newBase ≤ σ.db.hi then σ else { σ with db := σ.db.commit P σ.blocks newBase }

/-- replay of `trackerRegistry.loadFromDisk`: the blocks above the DB round go through `newBlock` again (deltas recomputed) -/
def replay (σ : Ledger) (t : Tail) : Tail :=
  (rangeIncl (σ.db.hi + 1) σ.latest).foldl (fun t r => t.newBlock r (σ.blocks r) (leasesOf (σ.blocks r))) t

/-- `Ledger.reloadLedger`: trackers closed, `loadFromDisk`, replay, and the flush at the end of the replay
    (`loadCompleted`: `dbRound + MaxAcctLookback < latest`) -/
def Ledger.reload (P : Params) (σ : Ledger) : Ledger :=
  let σ1 := { σ with tail := replay σ (Tail.loadFromDisk P σ.db σ.latest) }
  if σ.db.hi + P.lookback < σ.latest then σ1.flush P σ.latest else σ1

/-- `Ledger.CheckDup` -/
def Ledger.checkDup (P : Params) (σ : Ledger) (current : Nat) (t : Tx) : Res :=
  σ.tail.checkDup P current t.fv t.lv t.txid t.key

end Model.TxTail
