/-
Model.AVM — the interpreter SKELETON of data/transactions/logic/eval.go (and frames.go, the immediate parsers of
assembler.go), over the opcode tables of Model.OpTables.

Mirrors (Go → Lean):
  encoding/binary Uvarint / Varint                     → `uvarint`, `varint`
  transactions.ProgramVersion, eval.go begin           → `begin`
  eval.go remainingBudget                              → `remaining`        (unpooled / pooled / clear-state isolation)
  opcodes.go linearCost.compute, OpDetails.Cost        → `linCost`, `detsCost`, `opCost`
  eval.go step                                         → `step`   (spec lookup incl. sub-opcodes, mode, arity/types,
                                                          immediate size, cost, budget check BEFORE execution, op body,
                                                          post-checks of non-trusted ops, stack depth, nextpc rule)
  eval.go eval (loop + final verdict)                  → `runLoop`, `finish`, `eval`   (fuel = the budget)
  eval.go checkStep / check                            → `checkStep`, `checkLoop`, `check`
  eval.go branchTarget, switchTarget, branchTargetVarint, checkBranch, checkSwitch, checkBranchVarint,
  assembler.go parseIntImmArgs / parseByteImmArgs, eval.go byteImmArgs, opPushInt / opPushBytes  → same names
  the op bodies of the concretely modelled family      → `execK` (one clause per evalFunc, `OpK`)
  every other op body                                  → the PARAMETER `sem : Spec → Stack → Imm → Except Err Stack`
                                                          (wrapped by `concreteExec`)

Conventions
  * a program is `List Nat` (bytes); the operand stack is a `List Val` with the TOP AT THE HEAD (Go keeps the top at the
    end of the slice: Go index i of a stack of height h is list index h-1-i);
  * the call stack has its top at the head;
  * `nextpc = 0` means "not set": `step`/`checkStep` then advance by `Size` (exactly the Go rule; since the fix
    "AVM rejects a computed branch target of 0" no branch-target function returns 0, which removed the ambiguity);
  * every place where the Go code indexes a slice is a guarded access here; the guard failing is the explicit error
    `Err.crash` (= the Go code would panic). Reading `.Uint` of a byte value / `.Bytes` of a uint where the op's
    prototype promises the other type is also `crash` (unreachable after step's type check).
Core Lean only.
-/
import AlgoVerif.Model.OpTables
namespace Model.AVM
open Model.OpTables

/-! ## values, errors, configuration -/

inductive Val
  | u (n : Nat)
  | b (bs : List Nat)
  deriving DecidableEq, Repr, Inhabited

/-- avmType: 2 = uint64, 3 = bytes -/
def Val.avm : Val → Nat
  | .u _ => 2
  | .b _ => 3

/-- `len(sv.Bytes)` (nil for a uint) -/
def Val.blen : Val → Nat
  | .u _ => 0
  | .b bs => bs.length

inductive Err
  | empty | invalidver | badver | minver | access           -- begin
  | nosupport | toomanyargs | argtoolarge                   -- eval / check preamble
  | illegal | mode | underflow | argtype | short | zerocost | budget   -- step, before the op body
  | height | rettype | toobig | overflow                    -- step, after the op body
  | stacklen | notint                                       -- end of eval
  | static | noadvance | align                              -- check
  | op                                                      -- an error returned by an op body / a check function
  | crash                                                   -- out-of-range access: the Go code would panic
  | unmodelled                                              -- the driver's `sem` for ops outside the modelled family
  | fuel                                                    -- check loop ran out of fuel (proved impossible)
  deriving DecidableEq, Repr, Inhabited

def Err.toString : Err → String
  | .empty => "empty" | .invalidver => "invalidver" | .badver => "badver" | .minver => "minver" | .access => "access"
  | .nosupport => "nosupport" | .toomanyargs => "toomanyargs" | .argtoolarge => "argtoolarge"
  | .illegal => "illegal" | .mode => "mode" | .underflow => "underflow" | .argtype => "argtype" | .short => "short"
  | .zerocost => "zerocost" | .budget => "budget" | .height => "height" | .rettype => "rettype" | .toobig => "toobig"
  | .overflow => "overflow" | .stacklen => "stacklen" | .notint => "notint" | .static => "static"
  | .noadvance => "noadvance" | .align => "align" | .op => "op" | .crash => "crash" | .unmodelled => "unmodelled"
  | .fuel => "fuel"

/-- constants of eval.go (regenerated into Gen.AVMFacts on every run; the theorems hold for every value) -/
structure Limits where
  maxStackDepth : Nat
  maxStringSize : Nat
  backBranchV : Nat      -- backBranchEnabledVersion
  sharedResV : Nat       -- sharedResourcesVersion
  protoByte : Nat
  evalMaxArgs : Nat
  maxArgSize : Nat       -- MaxLogicSigArgSize
  blankLen : Nat         -- len(blankStack)
  scratchLen : Nat       -- len(scratchSpace)
  deriving Repr, Inhabited

abbrev LinCost := Nat × Nat × Nat × Nat   -- baseCost, chunkCost, chunkSize, depth

structure Cfg where
  lim : Limits
  tbl : Nat → Table               -- opsByOpcode
  fcost : Nat → Nat → LinCost     -- row id → field byte → Immediates[0].fieldCosts[field] (zero when absent)
  lv : Nat                        -- LogicVersion
  lsv : Nat                       -- Proto.LogicSigVersion
  minv : Nat                      -- EvalParams.minAvmVersion
  mode : Nat                      -- modeSig / modeApp
  hasAccess : Bool                -- len(txn.Access) > 0
  args : Option (List (List Nat)) -- Lsig.Args (none = nil)
  maxCost : Nat                   -- LogicSigMaxCost (sig) / MaxAppProgramCost (app)
  pooled : Bool                   -- the pooled budget pointer of this mode is non-nil
  isolate : Bool                  -- Proto.IsolateClearState ∧ OnCompletion = ClearState (app mode)

structure Frame where
  retpc : Nat
  height : Nat
  clear : Bool
  args : Nat
  returns : Nat
  deriving DecidableEq, Repr, Inhabited

/-- the part of EvalContext an op body may change -/
structure Mach where
  stack : List Val          -- top at the head
  callstack : List Frame    -- top at the head
  fromCallsub : Bool
  intc : List Nat
  bytec : List (List Nat)
  scratch : List Val
  nextpc : Nat
  deriving Repr, Inhabited

structure State where
  pc : Nat
  m : Mach
  cost : Nat                -- cx.cost
  pool : Int                -- *cx.Pooled…Budget (meaningful when cfg.pooled)
  deriving Repr, Inhabited

abbrev Stack := List Val
abbrev ImmBytes := List Nat

/-- what an op body sees besides the machine -/
structure Ctx where
  cfg : Cfg
  prog : List Nat
  pc : Nat
  v : Nat

/-- op bodies as a parameter of the skeleton -/
abbrev Exec := Spec → Ctx → Mach → Except Err Mach
/-- data semantics of the ops outside the modelled family -/
abbrev Sem := Spec → Stack → ImmBytes → Except Err Stack

/-! ## varints -/

inductive UvRes
  | ok (val n : Nat)
  | short          -- buffer ended: Go returns n = 0
  | over           -- overflow: Go returns n < 0
  deriving DecidableEq, Repr

/-- binary.Uvarint: at most 10 bytes, the 10th at most 1 -/
def uvarintGo : List Nat → Nat → Nat → Nat → UvRes
  | [], _, _, _ => .short
  | b :: rest, i, s, x =>
    if i = 10 then .over
    else if b < 128 then
      if i = 9 ∧ b > 1 then .over else .ok (x + b * 2 ^ s) (i + 1)
    else uvarintGo rest (i + 1) (s + 7) (x + (b % 128) * 2 ^ s)

def uvarint (buf : List Nat) : UvRes := uvarintGo buf 0 0 0

/-- binary.Varint: zig-zag over Uvarint -/
def varint (buf : List Nat) : Except UvRes (Int × Nat) :=
  match uvarint buf with
  | .ok ux n => .ok (if ux % 2 = 1 then -((ux / 2 : Nat) : Int) - 1 else ((ux / 2 : Nat) : Int), n)
  | e => .error e

/-! ## begin -/

/-- eval.go:begin (with transactions.ProgramVersion). Error side: (error, cx.pc at that moment). -/
def begin (cfg : Cfg) (prog : List Nat) : Except (Err × Nat) (Nat × Nat) :=
  if prog.length = 0 then .error (.empty, 0) else
  match uvarint prog with
  | .ok v vlen =>
    if v > cfg.lv then .error (.badver, 0)
    else if v > cfg.lsv then .error (.badver, 0)
    else if v < cfg.lim.sharedResV ∧ cfg.mode = modeApp ∧ cfg.hasAccess then .error (.access, 0)
    else if v < cfg.minv then .error (.minver, vlen)
    else .ok (v, vlen)
  | _ => .error (.invalidver, 0)

/-! ## budget -/

/-- eval.go:remainingBudget -/
def remaining (cfg : Cfg) (cost : Nat) (pool : Int) : Int :=
  if cfg.mode = modeSig then
    if cfg.pooled then pool else (cfg.maxCost : Int) - cost
  else if cfg.isolate then (cfg.maxCost : Int) - cost
  else if cfg.pooled then pool else (cfg.maxCost : Int) - cost

/-- linearCost.compute -/
def linCost (c : LinCost) (stack : Stack) : Except Err Nat :=
  if c.2.1 ≠ 0 ∧ c.2.2.1 ≠ 0 then
    -- count := len(stack[len(stack)-1-lc.depth].Bytes)
    match stack[c.2.2.2]? with
    | some v => .ok (c.1 + c.2.1 * ((v.blen + c.2.2.1 - 1) / c.2.2.1))
    | none => .error .crash
  else .ok c.1

def fullCost (s : Spec) : LinCost := (s.baseCost, s.chunkCost, s.chunkSize, s.depth)

/-- OpDetails.Cost -/
def detsCost (cfg : Cfg) (s : Spec) (prog : List Nat) (pc : Nat) (stack : Stack) : Except Err Nat :=
  match linCost (fullCost s) stack with
  | .error e => .error e
  | .ok c =>
    if c ≠ 0 then .ok c
    else if s.fieldCost then
      match prog[immBase s pc]? with
      | some f => linCost (cfg.fcost s.id f) stack
      | none => .error .crash
    else .ok 0

/-- the cost computation of step: FullCost first, then the field table; a cost of 0 is an error -/
def opCost (cfg : Cfg) (s : Spec) (prog : List Nat) (pc : Nat) (stack : Stack) : Except Err Nat :=
  match linCost (fullCost s) stack with
  | .error e => .error e
  | .ok c =>
    if c > 0 then .ok c else
    match detsCost cfg s prog pc stack with
    | .error e => .error e
    | .ok c2 => if c2 > 0 then .ok c2 else .error .zerocost

/-! ## immediates shared by check and eval -/

def byteAt (prog : List Nat) (i : Nat) : Except Err Nat :=
  match prog[i]? with
  | some b => .ok b
  | none => .error .crash

/-- decodeBranchOffset: big-endian int16 -/
def decodeBranchOffset (prog : List Nat) (pos : Nat) : Except Err Int :=
  match prog[pos]?, prog[pos + 1]? with
  | some hi, some lo =>
    let w := (hi % 256) * 256 + lo % 256
    .ok (if w ≥ 32768 then (w : Int) - 65536 else (w : Int))
  | _, _ => .error .crash

/-- eval.go:branchTarget (two-byte form) -/
def branchTarget (lim : Limits) (prog : List Nat) (pc v : Nat) : Except Err Nat :=
  match decodeBranchOffset prog (pc + 1) with
  | .error e => .error e
  | .ok offset =>
    if offset < 0 ∧ v < lim.backBranchV then .error .op else
    let target : Int := (pc : Int) + 3 + offset
    -- pc 0 lies inside the version varint: never a target (and nextpc = 0 means "not set")
    let tooFar : Bool := if v ≥ 2 then decide (target > prog.length ∨ target ≤ 0) else decide (target ≥ prog.length ∨ target ≤ 0)
    if tooFar then .error .op else .ok target.toNat

/-- eval.go:switchTarget -/
def switchTarget (prog : List Nat) (pc : Nat) (branchIdx : Nat) : Except Err Nat :=
  if pc + 1 ≥ prog.length then .error .op else
  match prog[pc + 1]? with
  | none => .error .crash
  | some numOffsets =>
    let end_ := pc + 2
    let eoi := end_ + 2 * numOffsets
    if eoi > prog.length then .error .op else
    let offR : Except Err Int := if branchIdx < numOffsets then decodeBranchOffset prog (end_ + 2 * branchIdx) else .ok 0
    match offR with
    | .error e => .error e
    | .ok offset =>
      let target : Int := (eoi : Int) + offset
      if target > prog.length ∨ target ≤ 0 then .error .op else .ok target.toNat

/-- eval.go:branchTargetVarint: (target, instrSize) -/
def branchTargetVarint (prog : List Nat) (pc : Nat) : Except Err (Nat × Nat) :=
  match varint (prog.drop (pc + 1)) with
  | .error _ => .error .op
  | .ok (offset, bytesRead) =>
    let instrSize := 1 + bytesRead
    let target : Int := if offset < 0 then (pc : Int) + offset else (pc : Int) + instrSize + offset
    if target > prog.length ∨ target ≤ 0 then .error .op else .ok (target.toNat, instrSize)

/-- assembler.go:parseIntImmArgs, the loop -/
def parseIntsLoop (prog : List Nat) : Nat → Nat → List Nat → Except Err (List Nat × Nat)
  | 0, pos, acc => .ok (acc.reverse, pos)
  | n + 1, pos, acc =>
    if pos ≥ prog.length then .error .op else
    match uvarint (prog.drop pos) with
    | .ok v k => parseIntsLoop prog n (pos + k) (v :: acc)
    | _ => .error .op

def parseIntImmArgs (prog : List Nat) (pos : Nat) : Except Err (List Nat × Nat) :=
  match uvarint (prog.drop pos) with
  | .ok numInts used =>
    if numInts > prog.length then .error .op else parseIntsLoop prog numInts (pos + used) []
  | _ => .error .op

/-- assembler.go:parseByteImmArgs, the loop -/
def parseBytesLoop (prog : List Nat) : Nat → Nat → List (List Nat) → Except Err (List (List Nat) × Nat)
  | 0, pos, acc => .ok (acc.reverse, pos)
  | n + 1, pos, acc =>
    if pos ≥ prog.length then .error .op else
    match uvarint (prog.drop pos) with
    | .ok itemLen k =>
      let p := pos + k
      if p + itemLen > prog.length then .error .op
      else parseBytesLoop prog n (p + itemLen) (((prog.drop p).take itemLen) :: acc)
    | _ => .error .op

def parseByteImmArgs (prog : List Nat) (pos : Nat) : Except Err (List (List Nat) × Nat) :=
  match uvarint (prog.drop pos) with
  | .ok numItems used =>
    if numItems > prog.length then .error .op else parseBytesLoop prog numItems (pos + used) []
  | _ => .error .op

/-- eval.go:byteImmArgs: size limit from protocol version 13 on, the historical trailing-empty bug before -/
def byteImmArgs (cfg : Cfg) (prog : List Nat) (pc : Nat) : Except Err (List (List Nat) × Nat) :=
  match parseByteImmArgs prog (pc + 1) with
  | .error e => .error e
  | .ok (bytec, nextpc) =>
    if cfg.lsv ≥ 13 then
      if bytec.all (fun b => b.length ≤ cfg.lim.maxStringSize) then .ok (bytec, nextpc) else .error .op
    else if nextpc = prog.length ∧ bytec.length > 0 ∧ (bytec.getLast?.map List.length) = some 0 then .error .op
    else .ok (bytec, nextpc)

/-- opPushInt: (value, nextpc) -/
def pushIntImm (prog : List Nat) (pc : Nat) : Except Err (Nat × Nat) :=
  match uvarint (prog.drop (pc + 1)) with
  | .ok val used => .ok (val, pc + 1 + used)
  | _ => .error .op

/-- opPushBytes: (bytes, nextpc) -/
def pushBytesImm (prog : List Nat) (pc : Nat) : Except Err (List Nat × Nat) :=
  match uvarint (prog.drop (pc + 1)) with
  | .ok length used =>
    let pos := pc + 1 + used
    if pos + length > prog.length then .error .op else .ok ((prog.drop pos).take length, pos + length)
  | _ => .error .op

/-! ## the concretely modelled op family -/

inductive OpK
  | err | ret | assert | pop | dup | dup2 | dig | swap | select | cover | uncover | bury | popn | dupn
  | intcblock | intcLoad | intcN (n : Nat) | bytecblock | bytecLoad | bytecN (n : Nat)
  | pushbytes | pushint | pushbytess | pushints
  | arg | argN (n : Nat) | args
  | bnz | bz | b | bnz2 | bz2 | b2 | callsub | callsub2 | retsub | proto | frameDig | frameBury | switch | match_
  | load | store | loads | stores
  | concat | substring | substring3 | getbyte | setbyte | extract | extract3 | extractN (n : Nat) | replace2 | replace3
  | getbit | setbit | bzero | len | itob | btoi
  | plus | minus | div | mul | lt | gt | le | ge | and | or | eq | neq | not | mod | bitor | bitand | bitxor | bitnot
  deriving DecidableEq, Repr

/-- the evalFunc name (column `fn` of the table) decides which body runs -/
def opKind (fn : String) : Option OpK :=
  match fn with
  | "opErr" => some .err | "opReturn" => some .ret | "opAssert" => some .assert | "opPop" => some .pop
  | "opDup" => some .dup | "opDup2" => some .dup2 | "opDig" => some .dig | "opSwap" => some .swap
  | "opSelect" => some .select | "opCover" => some .cover | "opUncover" => some .uncover | "opBury" => some .bury
  | "opPopN" => some .popn | "opDupN" => some .dupn
  | "opIntConstBlock" => some .intcblock | "opIntConstLoad" => some .intcLoad
  | "opIntConst0" => some (.intcN 0) | "opIntConst1" => some (.intcN 1) | "opIntConst2" => some (.intcN 2)
  | "opIntConst3" => some (.intcN 3)
  | "opByteConstBlock" => some .bytecblock | "opByteConstLoad" => some .bytecLoad
  | "opByteConst0" => some (.bytecN 0) | "opByteConst1" => some (.bytecN 1) | "opByteConst2" => some (.bytecN 2)
  | "opByteConst3" => some (.bytecN 3)
  | "opPushBytes" => some .pushbytes | "opPushInt" => some .pushint | "opPushBytess" => some .pushbytess
  | "opPushInts" => some .pushints
  | "opArg" => some .arg | "opArg0" => some (.argN 0) | "opArg1" => some (.argN 1) | "opArg2" => some (.argN 2)
  | "opArg3" => some (.argN 3) | "opArgs" => some .args
  | "opBnz" => some .bnz | "opBz" => some .bz | "opB" => some .b | "opBnz2B" => some .bnz2 | "opBz2B" => some .bz2
  | "opB2B" => some .b2 | "opCallSub" => some .callsub | "opCallSub2B" => some .callsub2 | "opRetSub" => some .retsub
  | "opProto" => some .proto | "opFrameDig" => some .frameDig | "opFrameBury" => some .frameBury
  | "opSwitch" => some .switch | "opMatch" => some .match_
  | "opLoad" => some .load | "opStore" => some .store | "opLoads" => some .loads | "opStores" => some .stores
  | "opConcat" => some .concat | "opSubstring" => some .substring | "opSubstring3" => some .substring3
  | "opGetByte" => some .getbyte | "opSetByte" => some .setbyte | "opExtract" => some .extract
  | "opExtract3" => some .extract3 | "opExtract16Bits" => some (.extractN 2) | "opExtract32Bits" => some (.extractN 4)
  | "opExtract64Bits" => some (.extractN 8) | "opReplace2" => some .replace2 | "opReplace3" => some .replace3
  | "opGetBit" => some .getbit | "opSetBit" => some .setbit | "opBytesZero" => some .bzero | "opLen" => some .len
  | "opItob" => some .itob | "opBtoi" => some .btoi
  | "opPlus" => some .plus | "opMinus" => some .minus | "opDiv" => some .div | "opMul" => some .mul
  | "opLt" => some .lt | "opGt" => some .gt | "opLe" => some .le | "opGe" => some .ge | "opAnd" => some .and
  | "opOr" => some .or | "opEq" => some .eq | "opNeq" => some .neq | "opNot" => some .not | "opModulo" => some .mod
  | "opBitOr" => some .bitor | "opBitAnd" => some .bitand | "opBitXor" => some .bitxor | "opBitNot" => some .bitnot
  | _ => none

def two64 : Nat := 18446744073709551616

def boolVal (c : Bool) : Val := .u (if c then 1 else 0)

/-- big-endian bytes → uint64 (convertBytesToInt / opBtoi), for at most 8 bytes -/
def bytesToInt (bs : List Nat) : Nat := bs.foldl (fun acc b => acc * 256 + b % 256) 0

/-- binary.BigEndian.PutUint64 -/
def itobBytes (n : Nat) : List Nat :=
  [n / 2 ^ 56 % 256, n / 2 ^ 48 % 256, n / 2 ^ 40 % 256, n / 2 ^ 32 % 256, n / 2 ^ 24 % 256, n / 2 ^ 16 % 256,
   n / 2 ^ 8 % 256, n % 256]

/-- eval.go:substring -/
def substringGo (x : List Nat) (start end_ : Nat) : Except Err (List Nat) :=
  if end_ < start then .error .op
  else if start > x.length ∨ end_ > x.length then .error .op
  else .ok ((x.drop start).take (end_ - start))

/-- eval.go:extractCarefully -/
def extractCarefully (x : List Nat) (start length : Nat) : Except Err (List Nat) :=
  if start > x.length then .error .op
  else if start + length ≥ two64 then .error .op
  else if start + length > x.length then .error .op
  else .ok ((x.drop start).take length)

/-- eval.go:replaceCarefully -/
def replaceCarefully (orig repl : List Nat) (start : Nat) : Except Err (List Nat) :=
  if start > orig.length then .error .op
  else if start + repl.length > orig.length then .error .op
  else .ok (orig.take start ++ repl ++ orig.drop (start + repl.length))

/-- ensureStackCap -/
def ensureStackCap (lim : Limits) (target : Nat) : Except Err Unit :=
  if target > lim.maxStackDepth then .error .overflow else .ok ()

def pushArg (cx : Ctx) (n : Nat) (m : Mach) : Except Err Mach :=
  match cx.cfg.args with
  | none => .error .op
  | some as =>
    match as[n]? with
    | some a => .ok { m with stack := .b a :: m.stack }
    | none => .error .op

def pushIntc (n : Nat) (m : Mach) : Except Err Mach :=
  match m.intc[n]? with
  | some c => .ok { m with stack := .u c :: m.stack }
  | none => .error .op

def pushBytec (n : Nat) (m : Mach) : Except Err Mach :=
  match m.bytec[n]? with
  | some c => .ok { m with stack := .b c :: m.stack }
  | none => .error .op

/-- the callsub handshake with proto -/
def callsubFlag (cx : Ctx) (target : Nat) : Bool :=
  decide (target < cx.prog.length) && (cx.prog[target]? == some cx.cfg.lim.protoByte)

/-- stack index of Go's bottom-based index `idx` in a top-first list of height `h` -/
def fromBottom (h idx : Nat) : Nat := h - 1 - idx

/-- opMatch's scan: first index whose value has the type of `v` and equals it; `n` if none -/
def matchIdx (v : Val) : List Val → Nat → Nat
  | [], i => i
  | x :: rest, i => if x = v then i else matchIdx v rest (i + 1)

/-- one clause per Go evalFunc. `m.nextpc = 0` on entry. -/
def execK (k : OpK) (cx : Ctx) (m : Mach) : Except Err Mach :=
  let prog := cx.prog
  let pc := cx.pc
  let lim := cx.cfg.lim
  match k with
  | .err => .error .op
  | .ret =>
    match m.stack with
    | top :: _ => .ok { m with stack := [top], nextpc := prog.length }
    | [] => .error .crash
  | .assert =>
    match m.stack with
    | .u n :: rest => if n ≠ 0 then .ok { m with stack := rest } else .error .op
    | _ => .error .crash
  | .pop =>
    match m.stack with
    | _ :: rest => .ok { m with stack := rest }
    | [] => .error .crash
  | .dup =>
    match m.stack with
    | a :: rest => .ok { m with stack := a :: a :: rest }
    | [] => .error .crash
  | .dup2 =>
    match m.stack with
    | b :: a :: rest => .ok { m with stack := b :: a :: b :: a :: rest }
    | _ => .error .crash
  | .dig =>
    match byteAt prog (pc + 1) with
    | .error e => .error e
    | .ok depth =>
      -- idx := len(Stack)-1-depth; idx < 0 is the op's own error
      match m.stack[depth]? with
      | some v => .ok { m with stack := v :: m.stack }
      | none => .error .op
  | .swap =>
    match m.stack with
    | b :: a :: rest => .ok { m with stack := a :: b :: rest }
    | _ => .error .crash
  | .select =>
    match m.stack with
    | .u c :: t :: f :: rest => .ok { m with stack := (if c ≠ 0 then t else f) :: rest }
    | _ => .error .crash
  | .cover =>
    match byteAt prog (pc + 1) with
    | .error e => .error e
    | .ok depth =>
      match m.stack with
      | top :: rest =>
        if depth ≤ rest.length then .ok { m with stack := rest.take depth ++ top :: rest.drop depth } else .error .op
      | [] => .error .op     -- topIdx = -1: idx < 0
  | .uncover =>
    match byteAt prog (pc + 1) with
    | .error e => .error e
    | .ok depth =>
      match m.stack[depth]? with
      | some v => .ok { m with stack := v :: m.stack.eraseIdx depth }
      | none => .error .op
  | .bury =>
    match byteAt prog (pc + 1) with
    | .error e => .error e
    | .ok i =>
      match m.stack with
      | top :: rest =>
        -- idx := last - i; idx < 0 || idx == last
        if i = 0 ∨ i > rest.length then .error .op else .ok { m with stack := rest.set (i - 1) top }
      | [] => .error .op     -- last = -1: idx = -1-i < 0
  | .popn =>
    match byteAt prog (pc + 1) with
    | .error e => .error e
    | .ok n => if n > m.stack.length then .error .op else .ok { m with stack := m.stack.drop n }
  | .dupn =>
    match byteAt prog (pc + 1) with
    | .error e => .error e
    | .ok n =>
      match ensureStackCap lim (m.stack.length + n) with
      | .error e => .error e
      | .ok _ =>
        match m.stack with
        | top :: _ => .ok { m with stack := List.replicate n top ++ m.stack }
        | [] => if n = 0 then .ok m else .error .crash
  | .intcblock =>
    match parseIntImmArgs prog (pc + 1) with
    | .error e => .error e
    | .ok (intc, nextpc) => .ok { m with intc := intc, nextpc := nextpc }
  | .intcLoad =>
    match byteAt prog (pc + 1) with
    | .error e => .error e
    | .ok n => pushIntc n m
  | .intcN n => pushIntc n m
  | .bytecblock =>
    match byteImmArgs cx.cfg prog pc with
    | .error e => .error e
    | .ok (bytec, nextpc) => .ok { m with bytec := bytec, nextpc := nextpc }
  | .bytecLoad =>
    match byteAt prog (pc + 1) with
    | .error e => .error e
    | .ok n => pushBytec n m
  | .bytecN n => pushBytec n m
  | .pushbytes =>
    match pushBytesImm prog pc with
    | .error e => .error e
    | .ok (bs, nextpc) => .ok { m with stack := .b bs :: m.stack, nextpc := nextpc }
  | .pushint =>
    match pushIntImm prog pc with
    | .error e => .error e
    | .ok (v, nextpc) => .ok { m with stack := .u v :: m.stack, nextpc := nextpc }
  | .pushbytess =>
    match byteImmArgs cx.cfg prog pc with
    | .error e => .error e
    | .ok (bss, nextpc) =>
      match ensureStackCap lim (m.stack.length + bss.length) with
      | .error e => .error e
      | .ok _ => .ok { m with stack := (bss.map Val.b).reverse ++ m.stack, nextpc := nextpc }
  | .pushints =>
    match parseIntImmArgs prog (pc + 1) with
    | .error e => .error e
    | .ok (ints, nextpc) =>
      match ensureStackCap lim (m.stack.length + ints.length) with
      | .error e => .error e
      | .ok _ => .ok { m with stack := (ints.map Val.u).reverse ++ m.stack, nextpc := nextpc }
  | .arg =>
    match byteAt prog (pc + 1) with
    | .error e => .error e
    | .ok n => pushArg cx n m
  | .argN n => pushArg cx n m
  | .args =>
    match m.stack with
    | .u n :: rest => pushArg cx n { m with stack := rest }
    | _ => .error .crash
  | .bnz =>
    match m.stack with
    | .u c :: rest =>
      match branchTargetVarint prog pc with
      | .error e => .error e
      | .ok (target, instrSize) => .ok { m with stack := rest, nextpc := if c ≠ 0 then target else pc + instrSize }
    | _ => .error .crash
  | .bz =>
    match m.stack with
    | .u c :: rest =>
      match branchTargetVarint prog pc with
      | .error e => .error e
      | .ok (target, instrSize) => .ok { m with stack := rest, nextpc := if c = 0 then target else pc + instrSize }
    | _ => .error .crash
  | .b =>
    match branchTargetVarint prog pc with
    | .error e => .error e
    | .ok (target, _) => .ok { m with nextpc := target }
  | .callsub =>
    match branchTargetVarint prog pc with
    | .error e => .error e
    | .ok (target, instrSize) =>
      .ok { m with callstack := ⟨pc + instrSize, m.stack.length, false, 0, 0⟩ :: m.callstack, nextpc := target,
                   fromCallsub := m.fromCallsub || callsubFlag cx target }
  | .bnz2 =>
    match m.stack with
    | .u c :: rest =>
      if c ≠ 0 then
        match branchTarget lim prog pc cx.v with
        | .error e => .error e
        | .ok target => .ok { m with stack := rest, nextpc := target }
      else .ok { m with stack := rest, nextpc := pc + 3 }
    | _ => .error .crash
  | .bz2 =>
    match m.stack with
    | .u c :: rest =>
      if c = 0 then
        match branchTarget lim prog pc cx.v with
        | .error e => .error e
        | .ok target => .ok { m with stack := rest, nextpc := target }
      else .ok { m with stack := rest, nextpc := pc + 3 }
    | _ => .error .crash
  | .b2 =>
    match branchTarget lim prog pc cx.v with
    | .error e => .error e
    | .ok target => .ok { m with nextpc := target }
  | .callsub2 =>
    match branchTarget lim prog pc cx.v with
    | .error e => .error e
    | .ok target =>
      .ok { m with callstack := ⟨pc + 3, m.stack.length, false, 0, 0⟩ :: m.callstack, nextpc := target,
                   fromCallsub := m.fromCallsub || callsubFlag cx target }
  | .retsub =>
    match m.callstack with
    | [] => .error .op
    | top :: restFrames =>
      if top.clear then
        let expect := top.height + top.returns
        if m.stack.length < expect then .error .op
        else if top.args > top.height then .error .crash      -- argstart < 0: slice bounds out of range
        else
          let argstart := top.height - top.args
          let bottomFirst := m.stack.reverse
          let res := bottomFirst.take argstart ++ (bottomFirst.drop top.height).take top.returns
          .ok { m with stack := res.reverse, callstack := restFrames, nextpc := top.retpc }
      else .ok { m with callstack := restFrames, nextpc := top.retpc }
  | .proto =>
    if !m.fromCallsub then .error .op else
    match byteAt prog (pc + 1), byteAt prog (pc + 2) with
    | .ok nargs, .ok nrets =>
      if nargs > m.stack.length then .error .op else
      match m.callstack with
      | top :: restFrames =>
        .ok { m with fromCallsub := false, callstack := { top with clear := true, args := nargs, returns := nrets } :: restFrames }
      | [] => .error .crash
    | _, _ => .error .crash
  | .frameDig =>
    match byteAt prog (pc + 1) with
    | .error e => .error e
    | .ok ib =>
      let i : Int := if ib ≥ 128 then (ib : Int) - 256 else ib     -- int8(program[pc+1])
      match m.callstack with
      | [] => .error .op
      | top :: _ =>
        if top.clear ∧ -i > top.args then .error .op else
        let idx : Int := (top.height : Int) + i
        if idx ≥ m.stack.length then .error .op
        else if idx < 0 then .error .op
        else
          match m.stack[fromBottom m.stack.length idx.toNat]? with
          | some v => .ok { m with stack := v :: m.stack }
          | none => .error .crash
  | .frameBury =>
    match byteAt prog (pc + 1) with
    | .error e => .error e
    | .ok ib =>
      let i : Int := if ib ≥ 128 then (ib : Int) - 256 else ib
      match m.callstack with
      | [] => .error .op
      | top :: _ =>
        if top.clear ∧ -i > top.args then .error .op else
        let idx : Int := (top.height : Int) + i
        -- last := len(Stack)-1
        if idx ≥ (m.stack.length : Int) - 1 then .error .op
        else if idx < 0 then .error .op
        else
          match m.stack with
          | v :: rest => .ok { m with stack := rest.set (fromBottom rest.length idx.toNat) v }
          | [] => .error .crash
  | .switch =>
    match m.stack with
    | .u idx :: rest =>
      match switchTarget prog pc idx with
      | .error e => .error e
      | .ok target => .ok { m with stack := rest, nextpc := target }
    | _ => .error .crash
  | .match_ =>
    if pc + 1 ≥ prog.length then .error .op else
    match byteAt prog (pc + 1) with
    | .error e => .error e
    | .ok n =>
      if n + 1 > m.stack.length then .error .op else
      match m.stack with
      | matchVal :: rest =>
        let matchList := (rest.take n).reverse
        match switchTarget prog pc (matchIdx matchVal matchList 0) with
        | .error e => .error e
        | .ok target => .ok { m with stack := rest.drop n, nextpc := target }
      | [] => .error .crash
  | .load =>
    match byteAt prog (pc + 1) with
    | .error e => .error e
    | .ok n =>
      match m.scratch[n]? with
      | some v => .ok { m with stack := v :: m.stack }
      | none => .error .crash
  | .store =>
    match byteAt prog (pc + 1) with
    | .error e => .error e
    | .ok n =>
      match m.stack with
      | v :: rest => if n < m.scratch.length then .ok { m with stack := rest, scratch := m.scratch.set n v } else .error .crash
      | [] => .error .crash
  | .loads =>
    match m.stack with
    | .u n :: rest =>
      if n ≥ m.scratch.length then .error .op else
      match m.scratch[n]? with
      | some v => .ok { m with stack := v :: rest }
      | none => .error .crash
    | _ => .error .crash
  | .stores =>
    match m.stack with
    | v :: .u n :: rest =>
      if n ≥ m.scratch.length then .error .op else .ok { m with stack := rest, scratch := m.scratch.set n v }
    | _ => .error .crash
  | .concat =>
    match m.stack with
    | .b y :: .b x :: rest => .ok { m with stack := .b (x ++ y) :: rest }
    | _ => .error .crash
  | .substring =>
    match byteAt prog (pc + 1), byteAt prog (pc + 2) with
    | .ok s, .ok e =>
      match m.stack with
      | .b x :: rest =>
        match substringGo x s e with
        | .error er => .error er
        | .ok r => .ok { m with stack := .b r :: rest }
      | _ => .error .crash
    | _, _ => .error .crash
  | .substring3 =>
    match m.stack with
    | .u e :: .u s :: .b x :: rest =>
      if s > 2147483647 ∨ e > 2147483647 then .error .op else
      match substringGo x s e with
      | .error er => .error er
      | .ok r => .ok { m with stack := .b r :: rest }
    | _ => .error .crash
  | .getbyte =>
    match m.stack with
    | .u i :: .b x :: rest =>
      match x[i]? with
      | some v => .ok { m with stack := .u v :: rest }
      | none => .error .op
    | _ => .error .crash
  | .setbyte =>
    match m.stack with
    | .u v :: .u i :: .b x :: rest =>
      if v > 255 then .error .op
      else if i ≥ x.length then .error .op
      else .ok { m with stack := .b (x.set i v) :: rest }
    | _ => .error .crash
  | .extract =>
    match byteAt prog (pc + 1), byteAt prog (pc + 2) with
    | .ok s, .ok l =>
      match m.stack with
      | .b x :: rest =>
        let length := if l = 0 then x.length - s else l
        match extractCarefully x s length with
        | .error er => .error er
        | .ok r => .ok { m with stack := .b r :: rest }
      | _ => .error .crash
    | _, _ => .error .crash
  | .extract3 =>
    match m.stack with
    | .u l :: .u s :: .b x :: rest =>
      match extractCarefully x s l with
      | .error er => .error er
      | .ok r => .ok { m with stack := .b r :: rest }
    | _ => .error .crash
  | .extractN n =>
    match m.stack with
    | .u s :: .b x :: rest =>
      match extractCarefully x s n with
      | .error er => .error er
      | .ok r => .ok { m with stack := .u (bytesToInt r) :: rest }
    | _ => .error .crash
  | .replace2 =>
    match byteAt prog (pc + 1) with
    | .error e => .error e
    | .ok s =>
      match m.stack with
      | .b repl :: .b orig :: rest =>
        match replaceCarefully orig repl s with
        | .error er => .error er
        | .ok r => .ok { m with stack := .b r :: rest }
      | _ => .error .crash
  | .replace3 =>
    match m.stack with
    | .b repl :: .u s :: .b orig :: rest =>
      match replaceCarefully orig repl s with
      | .error er => .error er
      | .ok r => .ok { m with stack := .b r :: rest }
    | _ => .error .crash
  | .getbit =>
    match m.stack with
    | .u idx :: .u t :: rest =>
      if idx > 63 then .error .op else .ok { m with stack := .u (t / 2 ^ idx % 2) :: rest }
    | .u idx :: .b x :: rest =>
      match x[idx / 8]? with
      | some byteVal => .ok { m with stack := .u (byteVal / 2 ^ (7 - idx % 8) % 2) :: rest }
      | none => .error .op
    | _ => .error .crash
  | .setbit =>
    match m.stack with
    | .u bit :: .u idx :: .u t :: rest =>
      if bit > 1 then .error .op
      else if idx > 63 then .error .op
      else
        let cur := t / 2 ^ idx % 2
        .ok { m with stack := .u (t - cur * 2 ^ idx + bit * 2 ^ idx) :: rest }
    | .u bit :: .u idx :: .b x :: rest =>
      if bit > 1 then .error .op else
      match x[idx / 8]? with
      | some byteVal =>
        let w := 2 ^ (7 - idx % 8)
        let cur := byteVal / w % 2
        .ok { m with stack := .b (x.set (idx / 8) (byteVal - cur * w + bit * w)) :: rest }
      | none => .error .op
    | _ => .error .crash
  | .bzero =>
    match m.stack with
    | .u n :: rest => if n > lim.maxStringSize then .error .op else .ok { m with stack := .b (List.replicate n 0) :: rest }
    | _ => .error .crash
  | .len =>
    match m.stack with
    | .b x :: rest => .ok { m with stack := .u x.length :: rest }
    | _ => .error .crash
  | .itob =>
    match m.stack with
    | .u n :: rest => .ok { m with stack := .b (itobBytes n) :: rest }
    | _ => .error .crash
  | .btoi =>
    match m.stack with
    | .b x :: rest => if x.length > 8 then .error .op else .ok { m with stack := .u (bytesToInt x) :: rest }
    | _ => .error .crash
  | .plus =>
    match m.stack with
    | .u y :: .u x :: rest => if x + y ≥ two64 then .error .op else .ok { m with stack := .u (x + y) :: rest }
    | _ => .error .crash
  | .minus =>
    match m.stack with
    | .u y :: .u x :: rest => if y > x then .error .op else .ok { m with stack := .u (x - y) :: rest }
    | _ => .error .crash
  | .div =>
    match m.stack with
    | .u y :: .u x :: rest => if y = 0 then .error .op else .ok { m with stack := .u (x / y) :: rest }
    | _ => .error .crash
  | .mul =>
    match m.stack with
    | .u y :: .u x :: rest => if x * y ≥ two64 then .error .op else .ok { m with stack := .u (x * y) :: rest }
    | _ => .error .crash
  | .lt =>
    match m.stack with
    | .u y :: .u x :: rest => .ok { m with stack := boolVal (decide (x < y)) :: rest }
    | _ => .error .crash
  | .gt =>
    match m.stack with
    | .u y :: .u x :: rest => .ok { m with stack := boolVal (decide (x > y)) :: rest }
    | _ => .error .crash
  | .le =>
    match m.stack with
    | .u y :: .u x :: rest => .ok { m with stack := boolVal (decide (x ≤ y)) :: rest }
    | _ => .error .crash
  | .ge =>
    match m.stack with
    | .u y :: .u x :: rest => .ok { m with stack := boolVal (decide (x ≥ y)) :: rest }
    | _ => .error .crash
  | .and =>
    match m.stack with
    | .u y :: .u x :: rest => .ok { m with stack := boolVal (decide (x ≠ 0) && decide (y ≠ 0)) :: rest }
    | _ => .error .crash
  | .or =>
    match m.stack with
    | .u y :: .u x :: rest => .ok { m with stack := boolVal (decide (x ≠ 0) || decide (y ≠ 0)) :: rest }
    | _ => .error .crash
  | .eq =>
    match m.stack with
    | y :: x :: rest => if x.avm ≠ y.avm then .error .op else .ok { m with stack := boolVal (decide (x = y)) :: rest }
    | _ => .error .crash
  | .neq =>
    match m.stack with
    | y :: x :: rest => if x.avm ≠ y.avm then .error .op else .ok { m with stack := boolVal (decide (x ≠ y)) :: rest }
    | _ => .error .crash
  | .not =>
    match m.stack with
    | .u x :: rest => .ok { m with stack := boolVal (decide (x = 0)) :: rest }
    | _ => .error .crash
  | .mod =>
    match m.stack with
    | .u y :: .u x :: rest => if y = 0 then .error .op else .ok { m with stack := .u (x % y) :: rest }
    | _ => .error .crash
  | .bitor =>
    match m.stack with
    | .u y :: .u x :: rest => .ok { m with stack := .u (x ||| y) :: rest }
    | _ => .error .crash
  | .bitand =>
    match m.stack with
    | .u y :: .u x :: rest => .ok { m with stack := .u (x &&& y) :: rest }
    | _ => .error .crash
  | .bitxor =>
    match m.stack with
    | .u y :: .u x :: rest => .ok { m with stack := .u (x ^^^ y) :: rest }
    | _ => .error .crash
  | .bitnot =>
    match m.stack with
    | .u x :: rest => .ok { m with stack := .u (two64 - 1 - x) :: rest }
    | _ => .error .crash

/-- the immediate bytes handed to `sem`: program[pc+1 : pc+Size] -/
def immOf (s : Spec) (prog : List Nat) (pc : Nat) : ImmBytes := (prog.drop (pc + 1)).take (s.size - 1)

/-- op bodies: the modelled family concretely, everything else through `sem` (which sees only stack and immediates:
    it can neither move the pc nor touch the call stack, constants, scratch space, cost or budget) -/
def concreteExec (sem : Sem) : Exec := fun s cx m =>
  match opKind s.fn with
  | some k => execK k cx m
  | none =>
    match sem s m.stack (immOf s cx.prog cx.pc) with
    | .ok stk => .ok { m with stack := stk }
    | .error e => .error e

/-! ## step -/

/-- `opCompat` over the argument window: `types` bottom→top, `window` top first -/
def typesMatch : List Nat → List Val → Bool
  | [], _ => true
  | t :: ts, v :: vs => opCompat t v.avm && typesMatch ts vs
  | _ :: _, [] => false

/-- spec.AlwaysExits -/
def alwaysExits (s : Spec) : Bool := s.rets == [0]

/-- the loop over Return.Types of step: `rets` and `window` both bottom→top -/
def postLoop (lim : Limits) (ae : Bool) : List Nat → List Val → Except Err Unit
  | [], _ => .ok ()
  | r :: rs, v :: vs =>
    if !opCompat r v.avm then (if ae then .ok () else .error .rettype)
    else if v.avm = 3 ∧ v.blen > lim.maxStringSize then .error .toobig
    else postLoop lim ae rs vs
  | _ :: _, [] => .error .crash

/-- the post-checks of step for a non-trusted op -/
def postCheck (lim : Limits) (s : Spec) (preheight : Nat) (stack : Stack) : Except Err Unit :=
  if s.trusted then .ok () else
  if ((stack.length : Int) - preheight ≠ (s.rets.length : Int) - s.args.length) ∧ !alwaysExits s then .error .height
  else if stack.length < s.rets.length then .error .crash      -- first < 0
  else postLoop lim (alwaysExits s) s.rets (stack.take s.rets.length).reverse

/-- pooled budgets are decremented whatever `remainingBudget` looked at -/
def charge (cfg : Cfg) (st : State) (opcost : Nat) : State :=
  { st with cost := st.cost + opcost, pool := if cfg.pooled then st.pool - opcost else st.pool }

/-- eval.go:step. The error side carries the state at the moment of the error (cost already charged when the op body
    ran). Precondition of the Go code: pc < len(program) (the loop guard). -/
def step (ex : Exec) (cfg : Cfg) (prog : List Nat) (v : Nat) (st : State) : Except (Err × State) State :=
  match prog[st.pc]? with
  | none => .error (.crash, st)
  | some opc =>
  match getSpec cfg.tbl v opc prog[st.pc + 1]? with
  | none => .error (.illegal, st)
  | some s =>
  if !allows s.modes cfg.mode then .error (.mode, st)
  else if st.m.stack.length < s.args.length then .error (.underflow, st)
  else if !typesMatch s.args.reverse st.m.stack then .error (.argtype, st)
  else if s.size ≠ 0 ∧ st.pc + s.size > prog.length then .error (.short, st)
  else
  match opCost cfg s prog st.pc st.m.stack with
  | .error e => .error (e, st)
  | .ok opcost =>
  if (opcost : Int) > remaining cfg st.cost st.pool then .error (.budget, st)
  else
  let st1 := charge cfg st opcost
  match ex s ⟨cfg, prog, st.pc, v⟩ st1.m with
  | .error e => .error (e, st1)
  | .ok m' =>
  match postCheck cfg.lim s st.m.stack.length m'.stack with
  | .error e => .error (e, { st1 with m := m' })
  | .ok _ =>
  if m'.stack.length > cfg.lim.maxStackDepth then .error (.overflow, { st1 with m := m' })
  else .ok { st1 with pc := (if m'.nextpc ≠ 0 then m'.nextpc else st.pc + s.size), m := { m' with nextpc := 0 } }

/-! ## eval -/

inductive Verdict
  | accept
  | reject
  | error (e : Err)
  deriving DecidableEq, Repr

structure Final where
  verdict : Verdict
  st : State
  steps : Nat
  deriving Repr

/-- the end of eval: exactly one value, a uint; accept iff non-zero -/
def finish (st : State) : Verdict :=
  match st.m.stack with
  | [.u n] => if n ≠ 0 then .accept else .reject
  | [.b _] => .error .notint
  | _ => .error .stacklen

/-- the loop of eval; `none` = out of fuel -/
def runLoop (ex : Exec) (cfg : Cfg) (prog : List Nat) (v : Nat) : Nat → State → Nat → Option Final
  | 0, _, _ => none
  | fuel + 1, st, n =>
    if st.pc < prog.length then
      match step ex cfg prog v st with
      | .ok st' => runLoop ex cfg prog v fuel st' (n + 1)
      | .error (e, st') => some ⟨.error e, st', n + 1⟩
    else some ⟨finish st, st, n⟩

def emptyMach (lim : Limits) : Mach := ⟨[], [], false, [], [], List.replicate lim.scratchLen (.u 0), 0⟩

def initState (cfg : Cfg) (pc : Nat) (pool : Int) : State := ⟨pc, emptyMach cfg.lim, 0, pool⟩

/-- the budget evaluation starts with, floored at 0: the fuel of the model -/
def budget0 (cfg : Cfg) (pool : Int) : Nat := (remaining cfg 0 pool).toNat

/-- eval.go:eval — preamble (protocol support, LogicSig args, begin) and the loop with fuel budget+1 -/
def eval (ex : Exec) (cfg : Cfg) (prog : List Nat) (pool : Int) : Option Final :=
  let b := begin cfg prog
  let pc0 := match b with | .ok (_, vlen) => vlen | .error (_, pc) => pc
  let st0 := initState cfg pc0 pool
  if cfg.lsv = 0 then some ⟨.error .nosupport, st0, 0⟩ else
  let argErr : Option Err := match cfg.args with
    | none => none
    | some as => if as.length > cfg.lim.evalMaxArgs then some .toomanyargs
                 else if as.any (fun a => a.length > cfg.lim.maxArgSize) then some .argtoolarge else none
  match argErr with
  | some e => some ⟨.error e, st0, 0⟩
  | none =>
    match b with
    | .error (e, _) => some ⟨.error e, st0, 0⟩
    | .ok (v, _) => runLoop ex cfg prog v (budget0 cfg pool + 1) st0 0

/-! ## check -/

structure CState where
  pc : Nat
  starts : List Nat      -- instructionStarts[i] = true
  targets : List Nat     -- branchTargets[i] = true
  nextpc : Nat
  deriving Repr, Inhabited

/-- which check function an op with `check != nil` carries, recognised by its dynamic immediate:
    2 label → checkBranch, 8 varint label → checkBranchVarint, 7 labels → checkSwitch, 5 ints → checkIntImmArgs,
    6 bytess → checkByteImmArgs, 4 bytes → opPushBytes, 3 varuint → opPushInt -/
def checkKind (s : Spec) : Option Nat := (s.imms.find? (fun im => im.kind ≥ 2)).map (·.kind)

/-- eval.go:checkSwitch, the loop over the label table -/
def checkSwitchLoop (prog : List Nat) (pc eoi : Nat) (starts : List Nat) : Nat → Nat → List Nat → Except Err (List Nat)
  | 0, _, acc => .ok acc
  | n + 1, idx, acc =>
    match switchTarget prog pc idx with
    | .error e => .error e
    | .ok target =>
      if target < eoi ∧ ¬ target ∈ starts then .error .align
      else checkSwitchLoop prog pc eoi starts n (idx + 1) (target :: acc)

/-- `deets.check(cx)`: new branch targets and nextpc (0 = not set) -/
def checkFn (cfg : Cfg) (prog : List Nat) (v : Nat) (s : Spec) (cs : CState) : Except Err (List Nat × Nat) :=
  let pc := cs.pc
  match checkKind s with
  | some 2 =>
    match branchTarget cfg.lim prog pc v with
    | .error e => .error e
    | .ok target => if target < pc + 3 ∧ ¬ target ∈ cs.starts then .error .align else .ok ([target], 0)
  | some 8 =>
    match branchTargetVarint prog pc with
    | .error e => .error e
    | .ok (target, instrSize) =>
      if target < pc ∧ ¬ target ∈ cs.starts then .error .align else .ok ([target], pc + instrSize)
  | some 7 =>
    if pc + 1 ≥ prog.length then .error .op else
    match prog[pc + 1]? with
    | none => .error .crash
    | some numOffsets =>
      let eoi := pc + 2 + 2 * numOffsets
      match checkSwitchLoop prog pc eoi cs.starts numOffsets 0 [] with
      | .error e => .error e
      | .ok ts => .ok (ts, eoi)
  | some 5 =>
    match parseIntImmArgs prog (pc + 1) with
    | .error e => .error e
    | .ok (_, nextpc) => .ok ([], nextpc)
  | some 6 =>
    match byteImmArgs cfg prog pc with
    | .error e => .error e
    | .ok (_, nextpc) => .ok ([], nextpc)
  | some 4 =>
    match pushBytesImm prog pc with
    | .error e => .error e
    | .ok (_, nextpc) => .ok ([], nextpc)
  | some 3 =>
    match pushIntImm prog pc with
    | .error e => .error e
    | .ok (_, nextpc) => .ok ([], nextpc)
  | _ => .error .unmodelled

def blankStack (lim : Limits) : Stack := List.replicate lim.blankLen (.u 0)

/-- eval.go:checkStep: (new state, cost). Error side: (error, cx.pc). -/
def checkStep (cfg : Cfg) (prog : List Nat) (v : Nat) (cs : CState) : Except (Err × Nat) (CState × Nat) :=
  let pc := cs.pc
  match prog[pc]? with
  | none => .error (.crash, pc)
  | some opc =>
  match getSpec cfg.tbl v opc prog[pc + 1]? with
  | none => .error (.illegal, pc)
  | some s =>
  if !allows s.modes cfg.mode then .error (.mode, pc)
  else if s.size ≠ 0 ∧ pc + s.size > prog.length then .error (.short, pc)
  else
  match detsCost cfg s prog pc (blankStack cfg.lim) with
  | .error e => .error (e, pc)
  | .ok cost =>
  if cost = 0 then .error (.zerocost, pc) else
  let starts := pc :: cs.starts
  let r : Except Err (List Nat × Nat) :=
    if s.hasCheck then checkFn cfg prog v s { cs with starts := starts } else .ok ([], 0)
  match r with
  | .error e => .error (e, pc)
  | .ok (newTargets, nextpc) =>
    let pc' := if nextpc ≠ 0 then nextpc else pc + s.size
    let targets := newTargets ++ cs.targets
    if targets.any (fun t => decide (pc < t ∧ t < pc')) then .error (.align, pc')
    else .ok (⟨pc', starts, targets, 0⟩, cost)

/-- the loop of check. Error side: (error, pc printed by "pc=%3d"). -/
def checkLoop (cfg : Cfg) (prog : List Nat) (v : Nat) (maxCost : Int) : Nat → CState → Nat → Except (Err × Nat) CState
  | 0, cs, _ => .error (.fuel, cs.pc)
  | fuel + 1, cs, staticCost =>
    if cs.pc < prog.length then
      match checkStep cfg prog v cs with
      | .error e => .error e
      | .ok (cs', stepCost) =>
        let staticCost' := staticCost + stepCost
        if v < cfg.lim.backBranchV ∧ (staticCost' : Int) > maxCost then .error (.static, cs'.pc)
        else if cs'.pc ≤ cs.pc then .error (.noadvance, cs'.pc)
        else checkLoop cfg prog v maxCost fuel cs' staticCost'
    else .ok cs

/-- eval.go:check -/
def check (cfg : Cfg) (prog : List Nat) (pool : Int) : Except (Err × Nat) CState :=
  if cfg.lsv = 0 then .error (.nosupport, 0) else
  match begin cfg prog with
  | .error (e, _) => .error (e, 0)
  | .ok (v, vlen) => checkLoop cfg prog v (remaining cfg 0 pool) (prog.length + 1) ⟨vlen, [], [], 0⟩ 0

end Model.AVM
