/-
Model.BlockMoney — the block-level steps of ledger/eval/eval.go that move Algos, over the LedgerCore state (C18, whole blocks):
  StartEvaluator   "Withdraw rewards from the pool":  rewardsPerUnit := ot.Sub(hdr.RewardsLevel, prevHeader.RewardsLevel);
                   poolOld := eval.state.Get(prevHeader.RewardsPool, true)   (the pool's OWN pending rewards, if it participates,
                   are materialised at the NEW level);  poolNew.MicroAlgos := ot.SubA(poolOld, ot.Mul(prevTotals.RewardUnits(),
                   rewardsPerUnit));  eval.state.Put(pool, poolNew);  ot.SubA(poolNew, proto.MinBalance) must not underflow.
                   Nothing else is written: every other account keeps balance and RewardsBase, its share `units·(L′ − base)`
                   materialises lazily in `WithUpdatedRewards` the next time the account is touched (LedgerCore.withRewards).
  Eval             the transaction groups of the payset (`LedgerCore.evalGroup`, all must evaluate — `BlockEval.evalAll`)
  endOfBlock       validateExpiredOnlineAccounts, resetExpiredOnlineAccountsParticipationKeys (ClearOnlineState),
                   validateAbsentOnlineAccounts, suspendAbsentAccounts (Suspend), validateForPayouts (validate mode: payout ≤
                   proposerPayout() = `Model.C24.proposerPayout`), performPayout (Move fee sink → proposer), recordProposal,
  cow.go           CalculateTotals (`Model.Totals.calculateTotals` on the abstraction `toTot` of the accounts).
The list loops, ClearOnlineState / Suspend / LastSeen are the definitions of Model.BlockEval (agent c20), reused unchanged.
Core Lean only (linked into the `c18b` driver).

NOT modelled here: the header's RewardsState itself (the new level is an input; C25 / Model.BlockEval.nextRewards), the
testnet hot-fix `workaroundOverspentRewards`, the absentee criterion (`absentCrit`, C27), generateKnockOfflineAccountsList (the
lists are inputs, validated as coded), payset commitment / counter / state-proof header checks (C20), protocol upgrades
between the two blocks (prevProto = proto), and everything LedgerCore does not model (application calls, …).
-/
import AlgoVerif.Model.BlockEval
import AlgoVerif.Model.Totals
namespace AlgoVerif.Model.BlockMoney
open AlgoVerif.Model.LedgerCore

/-- error classes of the modelled block-level steps -/
inductive BMErr
  | panic                                   -- WithUpdatedRewards / RewardUnits() overflow `Panicf`
  | levelUnderflow                          -- "overflowed subtracting rewards(%d, %d) levels"
  | withdrawOverflow                        -- "overflowed subtracting reward unit" (ot.Mul or ot.SubA)
  | poolBelowMin                            -- "overflowed subtracting rewards" (pool below MinBalance afterwards)
  | group (e : GErr)
  | expLen | expDup | expNoKey | expNotYet
  | absLen | absDup | absNotOnline | absZero | absNotElig | absNotAbsent
  | feesDisabled | proposerDisabled | payoutDisabled
  | fees | payoutOverflow | payout | proposerMissing | proposerClosed
  | move (e : Err)                          -- performPayout: the Move from the fee sink failed
deriving DecidableEq, Repr, Inhabited

/-- `basics.Status` as the totals see it -/
def statusNum : Status → Nat
  | .offline => 0
  | .online => 1
  | .notPart => 2

/-- the fields of an account that `ledgercore.AccountTotals` reads -/
def toTot (a : Account) : Totals.Acct := { status := statusNum a.status, algos := a.bal, base := a.rewardsBase }

/-- What the evaluator of round `P.round` reads from the ledger and the protocol (`P.level` is unused: the level comes from the
block header). -/
structure Env where
  P : Params
  base : Base                                -- the committed accounts of round − 1
  prevLevel : Nat                            -- prevHeader.RewardsLevel
  prevTotals : Totals.AccountTotals          -- l.LatestTotals()
  poolMin : Nat := 100000                    -- proto.MinBalance
  payoutPct : Nat := 50                      -- proto.Payouts.Percent
  maxExpired : Nat := 32                     -- proto.MaxProposedExpiredOnlineAccounts
  maxAbsent : Nat := 32                      -- proto.Payouts.MaxMarkAbsent
  absentCrit : Addr → Nat → Bool := fun _ _ => true   -- isAbsent(…) ∨ ch.Failed(…)  (C27)

/-- the header fields and the payset of the block being applied -/
structure Block where
  level : Nat                                -- RewardsLevel
  groups : List (List Txn) := []             -- DecodePaysetGroups
  expired : List Addr := []                  -- ParticipationUpdates.ExpiredParticipationAccounts
  absent : List Addr := []                   -- ParticipationUpdates.AbsentParticipationAccounts
  feesCollected : Nat := 0
  bonus : Nat := 0
  proposer : Addr := 0
  payout : Nat := 0                          -- ProposerPayout

def Env.params (E : Env) (level : Nat) : Params := { E.P with level := level }
def Env.ctx (E : Env) : Ctx := { parents := [], base := E.base }

/-! ## StartEvaluator: the rewards withdrawal -/

/-- "Withdraw rewards from the pool" for `units` reward units, as coded: `P.level` is the NEW level; the result is the
top-level layer the evaluator starts the block with (one write: the pool account). -/
def withdraw (P : Params) (x : Ctx) (prevLevel units poolMin : Nat) : Except BMErr Layer :=
  if P.level < prevLevel then .error .levelUnderflow                       -- ot.Sub(level, prevLevel)
  else
    match withRewards P (acctOf x {} P.rewardsPool) with                   -- eval.state.Get(poolAddr, true)
    | .error _ => .error .panic
    | .ok poolOld =>
      let w := units * (P.level - prevLevel)                               -- ot.Mul(prevTotals.RewardUnits(), rewardsPerUnit)
      if M64 ≤ w ∨ poolOld.bal < w then .error .withdrawOverflow           -- ot.Mul / ot.SubA
      else if poolOld.bal - w < poolMin then .error .poolBelowMin          -- ot.SubA(poolNew, MinBalance)
      else .ok (putAcct {} P.rewardsPool { poolOld with bal := poolOld.bal - w })

/-- `startBlock`: the units are `prevTotals.RewardUnits()` (a `Panicf` when Online + Offline units overflow) -/
def startBlock (E : Env) (level : Nat) : Except BMErr Layer :=
  match Totals.rewardUnits E.prevTotals with
  | none => .error .panic
  | some units => withdraw (E.params level) E.ctx E.prevLevel units E.poolMin

/-! ## the payset -/

/-- `Eval`'s loop over the transaction groups: every group must evaluate -/
def groups (P : Params) (x : Ctx) (top : Layer) (gs : List (List Txn)) : Except BMErr EvalState :=
  match BlockEval.evalAll P x { top := top, payset := [] } gs with
  | .error e => .error (.group e)
  | .ok s => .ok s

/-! ## endOfBlock: expired / absent accounts -/

def check (c : Bool) (e : BMErr) : Except BMErr Unit := if c then .ok () else .error e

/-- the per-account loop of `validateExpiredOnlineAccounts` (lookups on the state before any reset; NO status test) -/
def checkExpiredLoop (P : Params) (x : Ctx) (top : Layer) : List Addr → List Addr → Except BMErr Unit
  | _, [] => .ok ()
  | seen, a :: r =>
    if a ∈ seen then .error .expDup
    else
      let d := acctOf x top a
      if d.voteId = 0 then .error .expNoKey
      else if P.round ≤ d.voteLast then .error .expNotYet
      else checkExpiredLoop P x top (a :: seen) r

/-- the per-account loop of `validateAbsentOnlineAccounts` (run after the expired accounts were reset) -/
def checkAbsentLoop (E : Env) (top : Layer) : List Addr → List Addr → Except BMErr Unit
  | _, [] => .ok ()
  | seen, a :: r =>
    if a ∈ seen then .error .absDup
    else
      let d := acctOf E.ctx top a
      if d.status ≠ .online then .error .absNotOnline
      else if d.bal = 0 then .error .absZero
      else if d.incentive = false then .error .absNotElig
      else if E.absentCrit a (BlockEval.lastSeen d) = false then .error .absNotAbsent
      else checkAbsentLoop E top (a :: seen) r

/-- `knockOff`: validate the expired list, ClearOnlineState on its members, validate the absent list on the result, Suspend
its members.  Only Status, the voting data and IncentiveEligible are written. -/
def knockOff (E : Env) (P : Params) (top : Layer) (exp abs : List Addr) : Except BMErr Layer := do
  check (decide (exp.length ≤ E.maxExpired)) .expLen
  checkExpiredLoop P E.ctx top [] exp
  let top1 := BlockEval.resetExpired E.ctx top exp
  check (decide (abs.length ≤ E.maxAbsent)) .absLen
  checkAbsentLoop E top1 [] abs
  .ok (BlockEval.suspendAbsent E.ctx top1 abs)

/-! ## endOfBlock: the proposer payout -/

/-- `BlockEvaluator.proposerPayout` (C24): min(⌊fees·pct/100⌋ + bonus, sink balance − sink min balance) -/
def payoutMax (E : Env) (P : Params) (top : Layer) (fees bonus : Nat) : Option Nat :=
  let sink := acctOf E.ctx top P.feeSink
  Model.C24.proposerPayout E.payoutPct fees bonus sink.bal (minBalance P sink)

/-- `validateForPayouts` of the validating evaluator -/
def validateForPayouts (E : Env) (P : Params) (top : Layer) (b : Block) : Except BMErr Unit :=
  if P.payoutsEnabled = false then
    if b.feesCollected ≠ 0 then .error .feesDisabled
    else if b.proposer ≠ 0 then .error .proposerDisabled
    else if b.payout ≠ 0 then .error .payoutDisabled
    else .ok ()
  else if b.feesCollected ≠ top.fees then .error .fees
  else
    match payoutMax E P top b.feesCollected b.bonus with
    | none => .error .payoutOverflow
    | some m =>
      if m < b.payout then .error .payout
      else if b.proposer = 0 then .error .proposerMissing
      else if b.payout ≠ 0 ∧ (acctOf E.ctx top b.proposer).isZero then .error .proposerClosed
      else .ok ()

/-- `performPayout`: `Move(FeeSink, proposer, ProposerPayout)` -/
def payout (P : Params) (x : Ctx) (top : Layer) (proposer amount : Nat) : Except BMErr Layer :=
  if proposer = 0 then .ok top
  else if amount = 0 then .ok top
  else
    match move P x top P.feeSink proposer amount with
    | .error e => .error (.move e)
    | .ok l => .ok l

/-- `recordProposal`: LastProposed := round (unless the account is closed), a suspended proposer goes back Online -/
def recordProposal (P : Params) (x : Ctx) (top : Layer) (proposer : Addr) : Layer :=
  if proposer = 0 then top
  else
    let prp := acctOf x top proposer
    let prp1 := if prp.isZero then prp else { prp with lastProposed := P.round }
    let prp2 := if BlockEval.suspended prp1 then { prp1 with status := .online } else prp1
    putAcct top proposer prp2

/-! ## the whole block -/

/-- the state after the transaction groups (before `endOfBlock`) -/
def afterGroups (E : Env) (b : Block) : Except BMErr EvalState := do
  let top0 ← startBlock E b.level
  groups (E.params b.level) E.ctx top0 b.groups

/-- `endOfBlock` of the validating evaluator on the state after the groups -/
def endOfBlock (E : Env) (b : Block) (s : EvalState) : Except BMErr Layer := do
  let P := E.params b.level
  let top2 ← knockOff E P s.top b.expired b.absent
  validateForPayouts E P top2 b
  let top3 ← payout P E.ctx top2 b.proposer b.payout
  .ok (recordProposal P E.ctx top3 b.proposer)

/-- apply a whole block: the state delta (the evaluator's top-level layer) or the error -/
def evalBlock (E : Env) (b : Block) : Except BMErr Layer := do
  let s ← afterGroups E b
  endOfBlock E b s

/-- the last step of `endOfBlock`, `CalculateTotals`, on a state delta `top` (previous data from the ledger of round − 1) -/
def endTotals (E : Env) (b : Block) (top : Layer) : Except Totals.TotErr Totals.AccountTotals :=
  Totals.calculateTotals E.P.rewardUnit E.prevTotals (fun a => toTot (E.base.acct a))
    (top.accts.map (fun p => (p.1, toTot p.2))) b.level

end AlgoVerif.Model.BlockMoney
