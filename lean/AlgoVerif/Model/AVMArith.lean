/-
C32 — the AVM arithmetic opcodes AS THE GO CODE COMPUTES THEM
(data/transactions/logic/eval.go: opPlus … opBytesSqrt, opItob, opBtoi).

Conventions
* A `uint64` stack cell is a `Nat < 2^64`; every wrapping machine operation is explicit
  (`AlgoVerif.U64`: `uadd/usub/umul/ushl` wrap, `add64/mul64/div64` are `math/bits`).
* `prev`, `last` (and `pprev`, …) are the cells `cx.Stack[prev]`, `cx.Stack[last]` the Go function reads;
  the result lists the cells that replace the operands, deepest first.
* Loops are structural recursion on the remaining iteration count.
* Standard-library calls are modelled by their documented contract, the AVM code around them
  literally: `big.Int.SetBytes` = left fold of the bytes, `big.Int.Bytes` = minimal big-endian
  (`Spec.beEnc`), `big.Int.{Add,Sub,Mul,Div,Mod}` = integer arithmetic, `big.Int.Sqrt` = ⌊√x⌋
  (`Spec.isqrt`), `big.Int.BitLen`/`bits.Len64`/`bits.Len8` = number of significant bits,
  `bytes.Compare` = lexicographic order, `bytes.Equal` = list equality.
* What Go would answer with a run-time panic (integer division by zero, `QuoRem` by zero) is the
  explicit branch `.error .panic`; Props.C32 proves those branches unreachable.
Core Lean only.
-/
import AlgoVerif.Base.U64
import AlgoVerif.Spec.AVMArith
namespace Model.AVMArith
open AlgoVerif.U64
open Spec.AVMArith (Val Err Res Bytes)

def maxByteMathSize : Nat := 64

/-- `boolToSV` -/
def boolToSV (b : Bool) : Val := .int (if b then 1 else 0)

/-! ### uint64 arithmetic -/

def opPlus (prev last : Nat) : Res :=
  let (sum, carry) := add64 prev last 0
  if carry > 0 then .error .overflow else .ok [.int sum]

def opAddw (prev last : Nat) : Res :=
  let (sum, carry) := add64 prev last 0
  .ok [.int carry, .int sum]

def opMinus (prev last : Nat) : Res :=
  if last > prev then .error .underflow else .ok [.int (usub 64 prev last)]

def opDiv (prev last : Nat) : Res :=
  if last = 0 then .error .div0 else .ok [.int (prev / last)]

def opModulo (prev last : Nat) : Res :=
  if last = 0 then .error .div0 else .ok [.int (prev % last)]

def opMul (prev last : Nat) : Res :=
  let (high, low) := mul64 prev last
  if high > 0 then .error .overflow else .ok [.int low]

def opMulw (prev last : Nat) : Res :=
  let (high, low) := mul64 prev last
  .ok [.int high, .int low]

def opDivw (pprev prev last : Nat) : Res :=
  let hi := pprev
  let lo := prev
  let y := last
  if y = 0 then .error .div0
  else if y ≤ hi then .error .overflow
  else
    let (quo, _) := div64 hi lo y
    .ok [.int quo]

/-- `uint128(hi, lo)`: `SetUint64(hi).Lsh(64).Add(SetUint64(lo))` -/
def uint128 (hi lo : Nat) : Nat := (hi <<< 64) + lo
/-- `big.Int.Uint64()` of a non-negative value: the low 64 bits -/
def bigUint64 (x : Nat) : Nat := x % 2 ^ 64

def opDivModwImpl (hiNum loNum hiDen loDen : Nat) : Except Err (Nat × Nat × Nat × Nat) :=
  let dividend := uint128 hiNum loNum
  let divisor := uint128 hiDen loDen
  if divisor = 0 then .error .panic      -- QuoRem panics on a zero divisor
  else
    let quo := dividend / divisor
    let rem := dividend % divisor
    .ok (bigUint64 (quo >>> 64), bigUint64 quo, bigUint64 (rem >>> 64), bigUint64 rem)

def opDivModw (hiNum loNum hiDen loDen : Nat) : Res :=
  if loDen = 0 ∧ hiDen = 0 then .error .div0
  else match opDivModwImpl hiNum loNum hiDen loDen with
    | .error e => .error e
    | .ok (hiQuo, loQuo, hiRem, loRem) => .ok [.int hiQuo, .int loQuo, .int hiRem, .int loRem]

/-! ### comparisons and logic -/

def opLt (prev last : Nat) : Res := .ok [boolToSV (decide (prev < last))]
def opNot (last : Nat) : Res := .ok [boolToSV (decide (last = 0))]
/-- run `opNot` on the single uint64 cell a previous op left -/
def thenNot (r : Res) : Res :=
  match r with
  | .ok [.int v] => opNot v
  | r => r
/-- `opSwap; opLt` -/
def opGt (prev last : Nat) : Res := opLt last prev
/-- `opGt; opNot` -/
def opLe (prev last : Nat) : Res := thenNot (opGt prev last)
/-- `opLt; opNot` -/
def opGe (prev last : Nat) : Res := thenNot (opLt prev last)
def opAnd (prev last : Nat) : Res := .ok [boolToSV (decide (prev ≠ 0) && decide (last ≠ 0))]
def opOr (prev last : Nat) : Res := .ok [boolToSV (decide (prev ≠ 0) || decide (last ≠ 0))]

/-- `opEq`: `avmType` of both cells must agree; bytes via `bytes.Equal`, ints via `==` -/
def opEq (prev last : Val) : Res :=
  match prev, last with
  | .bytes a, .bytes b => .ok [boolToSV (decide (a = b))]
  | .int a, .int b => .ok [boolToSV (decide (a = b))]
  | _, _ => .error .type
def opNeq (prev last : Val) : Res := thenNot (opEq prev last)

/-! ### bitwise -/
def opBitOr (prev last : Nat) : Res := .ok [.int (prev ||| last)]
def opBitAnd (prev last : Nat) : Res := .ok [.int (prev &&& last)]
def opBitXor (prev last : Nat) : Res := .ok [.int (prev ^^^ last)]
def opBitNot (last : Nat) : Res := .ok [.int (last ^^^ 0xffffffffffffffff)]

def opShiftLeft (prev last : Nat) : Res :=
  if last > 63 then .error .range else .ok [.int (ushl 64 prev last)]
def opShiftRight (prev last : Nat) : Res :=
  if last > 63 then .error .range else .ok [.int (prev >>> last)]

/-! ### sqrt: Crenshaw's loop, 32 iterations over (sq, rem, root) -/
structure SqrtSt where
  sq : Nat
  rem : Nat
  root : Nat
  deriving Repr, DecidableEq

def sqrtIter (s : SqrtSt) : SqrtSt :=
  let root := ushl 64 s.root 1
  let rem := (ushl 64 s.rem 2) ||| (s.sq >>> (64 - 2))
  let sq := ushl 64 s.sq 2
  if root < rem then { sq := sq, rem := usub 64 rem (root ||| 1), root := uadd 64 root 2 }
  else { sq := sq, rem := rem, root := root }

def sqrtLoop : Nat → SqrtSt → SqrtSt
  | 0, s => s
  | n + 1, s => sqrtLoop n (sqrtIter s)

def opSqrt (last : Nat) : Res :=
  .ok [.int ((sqrtLoop 32 { sq := last, rem := 0, root := 0 }).root >>> 1)]

/-! ### bitlen -/
/-- `bits.Len8` -/
def len8 (b : UInt8) : Nat := len64 b.toNat
/-- the byte-string branch: first non-zero byte at index `i` gives `Len8(b) + 8·(length − i − 1)` -/
def bitLenBytes : Bytes → Nat
  | [] => 0
  | b :: rest => if b ≠ 0 then len8 b + 8 * rest.length else bitLenBytes rest
def opBitLen (last : Val) : Res :=
  match last with
  | .int a => .ok [.int (len64 a)]
  | .bytes b => .ok [.int (bitLenBytes b)]

/-! ### exp / expw -/
/-- the `for i := 1; i < exp; i++` loop of `opExpImpl`; first argument = iterations left -/
def expLoop : Nat → Nat → Nat → Except Err Nat
  | 0, answer, _ => .ok answer
  | n + 1, answer, base =>
    let next := umul 64 answer base
    if answer = 0 then .error .panic            -- `next / answer` would panic
    else if next / answer ≠ base then .error .overflow
    else expLoop n next base

def opExpImpl (base exp : Nat) : Except Err Nat :=
  if exp = 0 ∧ base = 0 then .error .undefined
  else if base = 0 then .ok 0
  else if exp = 0 ∨ base = 1 then .ok 1
  else if exp ≥ 64 then .error .overflow
  else expLoop (exp - 1) base base

def opExp (prev last : Nat) : Res :=
  match opExpImpl prev last with
  | .error e => .error e
  | .ok v => .ok [.int v]

/-- `big.Int.BitLen` -/
def bigBitLen (x : Nat) : Nat := Spec.AVMArith.bitlen x

def expwLoop : Nat → Nat → Nat → Except Err Nat
  | 0, answer, _ => .ok answer
  | n + 1, answer, bigbase =>
    let answer := answer * bigbase
    if bigBitLen answer > 128 then .error .overflow
    else expwLoop n answer bigbase

def opExpwImpl (base exp : Nat) : Except Err Nat :=
  if exp = 0 ∧ base = 0 then .error .undefined
  else if base = 0 then .ok 0
  else if exp = 0 ∨ base = 1 then .ok 1
  else if exp ≥ 128 then .error .overflow
  else expwLoop (exp - 1) base base

def opExpw (prev last : Nat) : Res :=
  match opExpwImpl prev last with
  | .error e => .error e
  | .ok val => .ok [.int (bigUint64 (val >>> 64)), .int (bigUint64 val)]

/-! ### conversions -/
/-- `binary.BigEndian.PutUint64` into a fresh 8-byte slice -/
def opItob (last : Nat) : Res :=
  .ok [.bytes [UInt8.ofNat (last >>> 56), UInt8.ofNat (last >>> 48), UInt8.ofNat (last >>> 40),
               UInt8.ofNat (last >>> 32), UInt8.ofNat (last >>> 24), UInt8.ofNat (last >>> 16),
               UInt8.ofNat (last >>> 8), UInt8.ofNat last]]

def btoiLoop (ibytes : Bytes) : Nat :=
  ibytes.foldl (fun value b => (ushl 64 value 8) ||| (b.toNat &&& 0x0ff)) 0

def opBtoi (last : Bytes) : Res :=
  if last.length > 8 then .error .toolong else .ok [.int (btoiLoop last)]

/-! ### byte math -/
/-- `big.Int.SetBytes`: big-endian accumulate -/
def setBytes (b : Bytes) : Nat := b.foldl (fun acc x => acc * 256 + x.toNat) 0
/-- `big.Int.Bytes` (value ≥ 0): minimal big-endian -/
def bigBytes (n : Nat) : Bytes := Spec.AVMArith.beEnc n

/-- `opBytesBinOp`; `op lhs rhs` is the value left in `result` -/
def opBytesBinOp (prev last : Bytes) (op : Int → Int → Int) : Res :=
  if last.length > maxByteMathSize ∨ prev.length > maxByteMathSize then .error .toolong
  else
    let rhs : Int := (setBytes last : Nat)
    let lhs : Int := (setBytes prev : Nat)
    let result := op lhs rhs
    if result < 0 then .error .underflow
    else .ok [.bytes (bigBytes result.toNat)]

def opBytesPlus (prev last : Bytes) : Res := opBytesBinOp prev last (fun x y => x + y)
def opBytesMinus (prev last : Bytes) : Res := opBytesBinOp prev last (fun x y => x - y)
def opBytesMul (prev last : Bytes) : Res := opBytesBinOp prev last (fun x y => x * y)

/-- `checkDiv`/`checkMod`: on a zero divisor `result` stays 0 and `inner` is set; `opBytesBinOp`
    runs to completion first, then `inner` is returned -/
def opBytesDiv (prev last : Bytes) : Res :=
  match opBytesBinOp prev last (fun x y => if bigBitLen y.toNat = 0 then 0 else x / y) with
  | .error e => .error e
  | .ok v => if bigBitLen (setBytes last) = 0 then .error .div0 else .ok v

def opBytesModulo (prev last : Bytes) : Res :=
  match opBytesBinOp prev last (fun x y => if bigBitLen y.toNat = 0 then 0 else x % y) with
  | .error e => .error e
  | .ok v => if bigBitLen (setBytes last) = 0 then .error .div0 else .ok v

def opBytesSqrt (last : Bytes) : Res :=
  if last.length > maxByteMathSize then .error .toolong
  else .ok [.bytes (bigBytes (Spec.AVMArith.isqrt (setBytes last)))]

/-- `nonzero`: the suffix starting at the first non-zero byte -/
def nonzero : Bytes → Bytes
  | [] => []
  | b :: rest => if b ≠ 0 then b :: rest else nonzero rest

/-- `bytes.Compare(a, b) < 0` -/
def bytesLess : Bytes → Bytes → Bool
  | [], [] => false
  | [], _ :: _ => true
  | _ :: _, [] => false
  | a :: as, b :: bs => if a < b then true else if b < a then false else bytesLess as bs

def opBytesLt (prev last : Bytes) : Res :=
  if last.length > maxByteMathSize ∨ prev.length > maxByteMathSize then .error .toolong
  else
    let rhs := nonzero last
    let lhs := nonzero prev
    if lhs.length < rhs.length then .ok [boolToSV true]
    else if lhs.length > rhs.length then .ok [boolToSV false]
    else .ok [boolToSV (bytesLess lhs rhs)]

def opBytesGt (prev last : Bytes) : Res := opBytesLt last prev
def opBytesLe (prev last : Bytes) : Res := thenNot (opBytesGt prev last)
def opBytesGe (prev last : Bytes) : Res := thenNot (opBytesLt prev last)

def opBytesEq (prev last : Bytes) : Res :=
  if last.length > maxByteMathSize ∨ prev.length > maxByteMathSize then .error .toolong
  else .ok [boolToSV (decide (nonzero prev = nonzero last))]
def opBytesNeq (prev last : Bytes) : Res := thenNot (opBytesEq prev last)

/-- `zpad` -/
def zpad (smaller : Bytes) (size : Nat) : Bytes := List.replicate (size - smaller.length) 0 ++ smaller

/-- `opBytesBinaryLogicPrep`: (fresh, other) -/
def opBytesBinaryLogicPrep (prev last : Bytes) : Bytes × Bytes :=
  if last.length > prev.length then (zpad prev last.length, last) else (zpad last prev.length, prev)

def opBytesBitOr (prev last : Bytes) : Res :=
  let (a, b) := opBytesBinaryLogicPrep prev last
  .ok [.bytes (List.zipWith (fun x y => x ||| y) a b)]
def opBytesBitAnd (prev last : Bytes) : Res :=
  let (a, b) := opBytesBinaryLogicPrep prev last
  .ok [.bytes (List.zipWith (fun x y => x &&& y) a b)]
def opBytesBitXor (prev last : Bytes) : Res :=
  let (a, b) := opBytesBinaryLogicPrep prev last
  .ok [.bytes (List.zipWith (fun x y => x ^^^ y) a b)]
def opBytesBitNot (last : Bytes) : Res := .ok [.bytes (last.map (fun b => ~~~b))]

end Model.AVMArith
