/-
Model.AppStorage — executable model of application storage accounting in go-algorand (property C23):
  ledger/eval/appcow.go        setKey / delKey / updateCounts / checkCounts / AllocateApp / DeallocateApp / SetAppGlobalSchema
  ledger/eval/applications.go  NewBox / SetBox / DelBox (TotalBoxes / TotalBoxBytes of the OWNER application's account)
  data/transactions/logic/box.go   lengthChecks, availableAppBox (available.boxes dirty flags, dirtyBytes, ioBudget, the
                               unnamed access of freshly created applications), authorizeBoxAccess (family / foreign reads),
                               box_create / box_del / box_resize / box_put / box_replace / box_splice / box_len and app_box_*
  data/transactions/logic/eval.go  opAppGlobalPut / opAppGlobalDel / opAppLocalPut / opAppLocalDel (check order), the read
                               budget check and ioBudget computation of EvalContract, app_params_set
  ledger/apply/application.go  ApplicationCall: create / opt-in / close-out / clear / delete / update (order of checks)
Core Lean only (linked into the `c23` driver).

WHY SELF-CONTAINED (not an extension of Model.LedgerCore): LedgerCore's `Account` has no application / box counters and its
`Txn` / `applyKind` are closed definitions that may not be edited; extending them "from outside" would mean re-stating the
whole group evaluation.  C23 is about storage accounting only — money, fees and min-balance are C18/C21 — so this model keeps
exactly the storage state and treats balances as always sufficient (the harness funds every account generously).

WHAT IS MODELLED
* per application: creator, FamilyBoxAccess / ForeignBoxReads flags, local schema, the global `Store` (key-value list, the
  evaluator's usage `counts`, the schema `max`); per (account, application): the local `Store`; per application the box list
  (name ↦ bytes) and the application ACCOUNT's TotalBoxes / TotalBoxBytes (they survive the deletion of the application).
  Applications are named by ordinals 1, 2, … in creation order (the real id is txn counter + 1: a renaming).
* the storage counters are uint64 in Go: `counts.NumUint` decrements and increments WRAP (`dec64` / `inc64`), TotalBoxes / TotalBoxBytes use
  AddSaturate / SubSaturate, the in-place dirtyBytes subtractions and additions wrap.  The theorems show that no wrap / saturation happens.
  (`ensureStorageDelta` re-derives `counts` from the stored key-value map at the first touch in a block — `ToStateSchema`;
  the model keeps the counts in the store permanently, which is the same thing by theorem `counts_match`.)
* the per-group `Avail` of box.go / resources.go: `available.boxes` (reference ↦ dirty), `createdApps`, `unnamedAccess`,
  `dirtyBytes`, `ioBudget`; computed at the first program evaluation of the group together with the read-budget check.
* effects = one opcode each; a transaction = straight-line script; a failing effect fails the whole group (the functional
  model returns the OLD state: atomicity is C19's subject).
NOT MODELLED: balances / fees / min-balance (C21), inner transactions (so the family re-entrancy guard never fires: there is
no caller frame), program size accounting in dirtyBytes (programs are small: `LargeProgramExtraBytes` = 0), opcode budget,
the 8-reference limit (the generator obeys it), availability of ACCOUNTS beyond "sender or tx.Accounts" (group-shared
accounts / locals: the generator names only accounts of the transaction itself), AVM value-size limits (values ≤ 4096 bytes),
EvalDelta, app version counter, extra program pages.
-/
namespace AlgoVerif.Model.AppStorage

abbrev Bytes := List Nat
abbrev Addr := Nat
abbrev AppId := Nat

/-- 2^64 -/
def M64 : Nat := 18446744073709551616

/-- uint64 `x--` -/
def dec64 (n : Nat) : Nat := (n + M64 - 1) % M64
/-- uint64 `x++` -/
def inc64 (n : Nat) : Nat := (n + 1) % M64
/-- uint64 `a - b` -/
def sub64 (a b : Nat) : Nat := (a + M64 - b % M64) % M64
/-- uint64 `a + b` -/
def add64 (a b : Nat) : Nat := (a + b) % M64
/-- `basics.AddSaturate` -/
def addSat (a b : Nat) : Nat := if a + b ≥ M64 then M64 - 1 else a + b
/-- `basics.SubSaturate` -/
def subSat (a b : Nat) : Nat := if a < b then 0 else a - b

/-! ## association lists (Go maps) -/

section AList
variable {κ : Type} {β : Type} [DecidableEq κ]

def aget : List (κ × β) → κ → Option β
  | [], _ => none
  | (k', v) :: t, k => if k' = k then some v else aget t k

def adel (l : List (κ × β)) (k : κ) : List (κ × β) := l.filter (fun p => decide (p.1 ≠ k))

def aset (l : List (κ × β)) (k : κ) (v : β) : List (κ × β) := (k, v) :: adel l k

/-- weighted sum over the entries -/
def wsum (w : κ → β → Nat) : List (κ × β) → Nat
  | [] => 0
  | (k, v) :: t => w k v + wsum w t

def keysNodup (l : List (κ × β)) : Prop := (l.map Prod.fst).Nodup

end AList

/-! ## consensus constants -/

structure Proto where
  maxKeyLen : Nat := 64            -- MaxAppKeyLen
  maxBytesValueLen : Nat := 128    -- MaxAppBytesValueLen
  maxSumKeyValueLens : Nat := 128  -- MaxAppSumKeyValueLens
  maxBoxSize : Nat := 32768        -- MaxBoxSize
  bytesPerBoxRef : Nat := 2048     -- BytesPerBoxReference
deriving Repr, Inhabited

/-! ## key-value stores with schema counts (appcow.go) -/

/-- `basics.TealValue` -/
inductive TVal
  | uint (n : Nat)
  | bytes (b : Bytes)
deriving DecidableEq, Repr, Inhabited

def TVal.isUint : TVal → Bool
  | .uint _ => true
  | .bytes _ => false

/-- `basics.StateSchema` -/
structure Schema where
  nui : Nat := 0
  nbs : Nat := 0
deriving DecidableEq, Repr, Inhabited

/-- one `{addr, aidx, global}` storage: the key-value map, the usage counters (`storageDelta.counts`) and the limits
    (`storageDelta.maxCounts`) -/
structure Store where
  kv : List (Bytes × TVal) := []
  counts : Schema := {}
  max : Schema := {}
deriving Repr, Inhabited

inductive Err
  | schemaUint | schemaBytes | schemaShrink | boxRef | wBudget | rBudget | sizeMismatch | noBox | denied | emptyName
  | longName | tooLarge | putSize | range | longKey | longVal | longSum | alreadyOpted | notOpted | noApp | unavail
  | clearBox | recreate | wrongSize
deriving DecidableEq, Repr, Inhabited

def Err.toString : Err → String
  | .schemaUint => "schemauint" | .schemaBytes => "schemabytes" | .schemaShrink => "schemashrink" | .boxRef => "boxref"
  | .wBudget => "wbudget" | .rBudget => "rbudget" | .sizeMismatch => "sizemismatch" | .noBox => "nobox" | .denied => "denied"
  | .emptyName => "emptyname" | .longName => "longname" | .tooLarge => "toolarge" | .putSize => "putsize" | .range => "range"
  | .longKey => "longkey" | .longVal => "longval" | .longSum => "longsum" | .alreadyOpted => "alreadyopted"
  | .notOpted => "notopted" | .noApp => "noapp" | .unavail => "unavail" | .clearBox => "clearbox" | .recreate => "recreate"
  | .wrongSize => "wrongsize"

/-- the value exists and holds a uint / a byte string -/
def optIsU : Option TVal → Bool
  | some (.uint _) => true
  | _ => false
def optIsB : Option TVal → Bool
  | some (.bytes _) => true
  | _ => false

/-- `updateCounts`: if the value existed before, decrement the count of the old type; if it exists now, increment the count of
    the new type (uint64 arithmetic: wrapping) -/
def updateCounts (c : Schema) (old new : Option TVal) : Schema :=
  let u1 := if optIsU old then dec64 c.nui else c.nui
  let b1 := if optIsB old then dec64 c.nbs else c.nbs
  { nui := if optIsU new then inc64 u1 else u1, nbs := if optIsB new then inc64 b1 else b1 }

/-- `storageDelta.checkCounts` -/
def checkCounts (c max : Schema) : Except Err Unit :=
  if c.nui > max.nui then .error .schemaUint
  else if c.nbs > max.nbs then .error .schemaBytes
  else .ok ()

/-- the value-length rules of `setKey` (also enforced by the opcodes) -/
def valueChecks (P : Proto) (k : Bytes) (v : TVal) : Except Err Unit :=
  match v with
  | .bytes b =>
    if b.length > P.maxBytesValueLen then .error .longVal
    else if k.length + b.length > P.maxSumKeyValueLens then .error .longSum
    else .ok ()
  | .uint _ => .ok ()

/-- `roundCowState.setKey` on an allocated storage: length rules, write, `updateCounts`, then `checkCounts` -/
def setKey (P : Proto) (s : Store) (k : Bytes) (v : TVal) : Except Err Store :=
  if k.length > P.maxKeyLen then .error .longKey else
  match valueChecks P k v with
  | .error e => .error e
  | .ok _ =>
    let c := updateCounts s.counts (aget s.kv k) (some v)
    match checkCounts c s.max with
    | .error e => .error e
    | .ok _ => .ok { s with kv := aset s.kv k v, counts := c }

/-- `roundCowState.delKey` on an allocated storage ("deletion cannot cause us to violate maxCount": no check) -/
def delKey (s : Store) (k : Bytes) : Store :=
  { s with kv := adel s.kv k, counts := updateCounts s.counts (aget s.kv k) none }

/-- `SetAppGlobalSchema`: install new limits, then `checkCounts` -/
def setSchema (s : Store) (lim : Schema) : Except Err Store :=
  match checkCounts s.counts lim with
  | .ok _ => .ok { s with max := lim }
  | .error _ => .error .schemaShrink

/-- the actual number of keys holding a uint / a byte string -/
def countU (kv : List (Bytes × TVal)) : Nat := wsum (fun _ v => if v.isUint then 1 else 0) kv
def countB (kv : List (Bytes × TVal)) : Nat := wsum (fun _ v => if v.isUint then 0 else 1) kv

/-! ## the ledger state -/

structure App where
  creator : Addr
  fba : Bool := false          -- AppParams.FamilyBoxAccess
  fbr : Bool := false          -- AppParams.ForeignBoxReads
  lschema : Schema := {}       -- LocalStateSchema (immutable after creation)
  g : Store := {}              -- global state; `g.max` is GlobalStateSchema
deriving Repr, Inhabited

abbrev BoxList := List (Bytes × Bytes)

structure State where
  apps : AppId → Option App
  locals : Addr → AppId → Option Store
  boxes : AppId → BoxList
  /-- TotalBoxes of the application account of the app -/
  tb : AppId → Nat
  /-- TotalBoxBytes of the application account of the app -/
  tbb : AppId → Nat
  /-- ordinal of the next application to be created -/
  nextApp : Nat

def State.empty : State :=
  { apps := fun _ => none, locals := fun _ _ => none, boxes := fun _ => [], tb := fun _ => 0, tbb := fun _ => 0, nextApp := 1 }

instance : Inhabited State := ⟨State.empty⟩

def upd {α : Type} (f : Nat → α) (a : Nat) (v : α) : Nat → α := fun x => if x = a then v else f x
def upd2 {α : Type} (f : Nat → Nat → α) (a b : Nat) (v : α) : Nat → Nat → α :=
  fun x y => if x = a ∧ y = b then v else f x y

/-- `len(key) + len(value)` of a box -/
def boxWeight (name : Bytes) (val : Bytes) : Nat := name.length + val.length

/-- Σ (|name| + |value|) over the boxes of an application -/
def boxBytes (σ : State) (a : AppId) : Nat := wsum boxWeight (σ.boxes a)

/-! ## applications.go: NewBox / SetBox / DelBox -/

/-- `roundCowState.NewBox(appIdx, key, value, appAddr)`; the counters of the application account of `a` -/
def newBox (P : Proto) (σ : State) (a : AppId) (name val : Bytes) : Except Err State :=
  if name.length > P.maxKeyLen then .error .longName
  else if name.length = 0 then .error .emptyName
  else if val.length > P.maxBoxSize then .error .tooLarge
  else if (aget (σ.boxes a) name).isSome then .error .recreate
  else .ok { σ with
    tb := upd σ.tb a (addSat (σ.tb a) 1),
    tbb := upd σ.tbb a (addSat (σ.tbb a) (name.length + val.length)),
    boxes := upd σ.boxes a (aset (σ.boxes a) name val) }

/-- `roundCowState.SetBox` -/
def setBox (σ : State) (a : AppId) (name val : Bytes) : Except Err State :=
  match aget (σ.boxes a) name with
  | none => .error .noBox
  | some old =>
    if old.length ≠ val.length then .error .wrongSize
    else .ok { σ with boxes := upd σ.boxes a (aset (σ.boxes a) name val) }

/-- `roundCowState.DelBox`: (existed, state) -/
def delBox (σ : State) (a : AppId) (name : Bytes) : Bool × State :=
  match aget (σ.boxes a) name with
  | none => (false, σ)
  | some val =>
    (true, { σ with
      tb := upd σ.tb a (subSat (σ.tb a) 1),
      tbb := upd σ.tbb a (subSat (σ.tbb a) (name.length + val.length)),
      boxes := upd σ.boxes a (adel (σ.boxes a) name) })

/-! ## box.go: the per-group availability / write budget bookkeeping -/

abbrev BoxRef := AppId × Bytes

/-- `resources` (boxes, createdApps, unnamedAccess, dirtyBytes) + `EvalParams.ioBudget` -/
structure Avail where
  boxes : List (BoxRef × Bool) := []
  created : List AppId := []
  unnamed : Nat := 0
  dirtyBytes : Nat := 0
  ioBudget : Nat := 0
  /-- `available != nil && readBudgetChecked`: set by the first program evaluation of the group -/
  started : Bool := false
deriving Repr, Inhabited

inductive BoxOp
  | create | read | write | delete | resize
deriving DecidableEq, Repr

/-- the evaluation context of one program run -/
structure Cx where
  self : AppId          -- cx.appID
  snd : Addr
  accts : List Addr
  clear : Bool := false -- OnCompletion == ClearState
deriving Repr, Inhabited

/-- `lengthChecks` -/
def lengthChecks (P : Proto) (name : Bytes) (size : Nat) : Except Err Unit :=
  if name.length = 0 then .error .emptyName
  else if name.length > P.maxKeyLen then .error .longName
  else if size > P.maxBoxSize then .error .tooLarge
  else .ok ()

/-- `authorizeBoxAccess` without a caller frame (no inner transactions: the re-entrancy guard cannot fire) -/
def authorize (σ : State) (cx : Cx) (owner : AppId) (op : BoxOp) : Except Err Unit :=
  match σ.apps owner with
  | none => .error .noApp
  | some o =>
    if owner = cx.self then .ok ()
    else
      let callerCreator := (σ.apps cx.self).map (·.creator)
      let inFamily := o.fba && decide (callerCreator = some o.creator)
      if (op = .read && o.fbr) || inFamily then .ok () else .error .denied

/-- first part of `availableAppBox`: `dirty, ok := cx.available.boxes[ref]`, then the unnamed access of an application created
    in this group: (dirty, availability with the unnamed slot consumed, newAppAccess) -/
def availLookup (av : Avail) (owner : AppId) (name : Bytes) : Except Err (Bool × Avail × Bool) :=
  match aget av.boxes (owner, name) with
  | some d => .ok (d, av, false)
  | none =>
    if owner ∈ av.created then
      if av.unnamed > 0 then .ok (false, { av with unnamed := av.unnamed - 1 }, true)
      else .error .boxRef
    else .error .boxRef

/-- the `switch operation` of `availableAppBox` on `cx.available.dirtyBytes`: (dirtyBytes', dirty flag, returned-early) -/
def availOp (dirtyBytes : Nat) (dirty0 : Bool) (content : Bytes) (ex : Bool) (op : BoxOp) (createSize : Nat) :
    Except Err (Nat × Bool × Bool) :=
  let writeSize := if ex then content.length else createSize
  let writeLike : Nat × Bool × Bool := (if dirty0 then dirtyBytes else add64 dirtyBytes writeSize, true, false)
  match op with
  | .create =>
    if ex then
      if createSize ≠ content.length then .error .sizeMismatch
      else .ok (dirtyBytes, dirty0, true)   -- "Since it exists, we have no dirty work to do": returns before the map write
    else .ok writeLike
  | .write => .ok writeLike
  | .resize =>
    let d1 := if dirty0 then sub64 dirtyBytes content.length else dirtyBytes
    .ok (add64 d1 createSize, true, false)
  | .delete => .ok (if dirty0 then sub64 dirtyBytes content.length else dirtyBytes, false, false)
  | .read => .ok (dirtyBytes, dirty0, false)

/-- last part: `cx.available.boxes[ref] = dirty`, then the write-budget check -/
def availFinish (av1 : Avail) (ref : BoxRef) (dirty1 : Bool) : Except Err Avail :=
  let av2 := { av1 with boxes := aset av1.boxes ref dirty1 }
  if av2.dirtyBytes > av2.ioBudget then .error .wBudget else .ok av2

/-- `availableAppBox(appID, name, operation, createSize)` → (availability', contents, exists) -/
def availableAppBox (σ : State) (av : Avail) (cx : Cx) (owner : AppId) (name : Bytes) (op : BoxOp) (createSize : Nat) :
    Except Err (Avail × Bytes × Bool) :=
  if cx.clear then .error .clearBox else
  match availLookup av owner name with
  | .error e => .error e
  | .ok (dirty0, av0, newAppAccess) =>
    match authorize σ cx owner op with
    | .error e => .error e
    | .ok _ =>
      -- "If the box is in cx.available, GetBox() is cheap … But if we did a newAppAccess … we skip it."
      let cur : Option Bytes := if newAppAccess then none else aget (σ.boxes owner) name
      let content := cur.getD []
      let ex := cur.isSome
      match availOp av0.dirtyBytes dirty0 content ex op createSize with
      | .error e => .error e
      | .ok (db1, dirty1, early) =>
        if early then .ok (av0, content, ex)
        else match availFinish { av0 with dirtyBytes := db1 } (owner, name) dirty1 with
          | .error e => .error e
          | .ok av2 => .ok (av2, content, ex)

/-! ## effects (one opcode each) -/

inductive Effect
  | globalPut (k : Bytes) (v : TVal)
  | globalDel (k : Bytes)
  | localPut (a : Addr) (k : Bytes) (v : TVal)
  | localDel (a : Addr) (k : Bytes)
  | boxCreate (o : AppId) (name : Bytes) (n : Nat)
  | boxResize (o : AppId) (name : Bytes) (n : Nat)
  | boxPut (o : AppId) (name : Bytes) (v : Bytes)
  | boxReplace (o : AppId) (name : Bytes) (start : Nat) (v : Bytes)
  | boxSplice (o : AppId) (name : Bytes) (start len : Nat) (v : Bytes)
  | boxDel (o : AppId) (name : Bytes)
  | boxLen (o : AppId) (name : Bytes)
  | setFam (b : Nat)
  | setFbr (b : Nat)
deriving Repr, Inhabited

def zeros (n : Nat) : Bytes := List.replicate n 0

/-- `replaceCarefully` -/
def replaceCarefully (orig repl : Bytes) (start : Nat) : Except Err Bytes :=
  if start > orig.length then .error .range
  else if start + repl.length > orig.length then .error .range
  else .ok (orig.take start ++ repl ++ orig.drop (start + repl.length))

/-- `spliceCarefully`: same length as the original; zero bytes shifted in or tail bytes shifted out -/
def spliceCarefully (orig repl : Bytes) (start olen : Nat) : Except Err Bytes :=
  if start > orig.length then .error .range
  else if start + olen ≥ M64 then .error .range
  else if start + olen > orig.length then .error .range
  else
    let body := orig.take start ++ repl ++ orig.drop (start + olen)
    if start + repl.length > orig.length then .error .range     -- "splice inserted bytes too long"
    else .ok ((body ++ zeros orig.length).take orig.length)

/-- the resized contents of `boxResizeImpl` -/
def resized (contents : Bytes) (size : Nat) : Bytes :=
  if size > contents.length then contents ++ zeros (size - contents.length) else contents.take size

def localAvail (cx : Cx) (a : Addr) : Bool := decide (a = cx.snd) || cx.accts.contains a

/-- the owner operand: 0 = the `box_*` opcode (own application), otherwise `app_box_*` with that application id -/
def ownerOf (cx : Cx) (o : AppId) : AppId := if o = 0 then cx.self else o

abbrev Res := Except Err (State × Avail × List Nat)

/-- `app_global_put` (opAppGlobalPut → SetGlobal → setKey) -/
def effGlobalPut (P : Proto) (cx : Cx) (σ : State) (av : Avail) (k : Bytes) (v : TVal) : Res :=
  if k.length > P.maxKeyLen then .error .longKey else
  match σ.apps cx.self with
  | none => .error .noApp
  | some app =>
    match valueChecks P k v with
    | .error e => .error e
    | .ok _ =>
      match setKey P app.g k v with
      | .error e => .error e
      | .ok g => .ok ({ σ with apps := upd σ.apps cx.self (some { app with g := g }) }, av, [])

/-- `app_global_del` -/
def effGlobalDel (cx : Cx) (σ : State) (av : Avail) (k : Bytes) : Res :=
  match σ.apps cx.self with
  | none => .error .noApp
  | some app => .ok ({ σ with apps := upd σ.apps cx.self (some { app with g := delKey app.g k }) }, av, [])

/-- `app_local_put` -/
def effLocalPut (P : Proto) (cx : Cx) (σ : State) (av : Avail) (a : Addr) (k : Bytes) (v : TVal) : Res :=
  if k.length > P.maxKeyLen then .error .longKey
  else if !localAvail cx a then .error .unavail
  else match σ.locals a cx.self with
    | none => .error .notOpted
    | some s =>
      match valueChecks P k v with
      | .error e => .error e
      | .ok _ =>
        match setKey P s k v with
        | .error e => .error e
        | .ok s' => .ok ({ σ with locals := upd2 σ.locals a cx.self (some s') }, av, [])

/-- `app_local_del` -/
def effLocalDel (cx : Cx) (σ : State) (av : Avail) (a : Addr) (k : Bytes) : Res :=
  if !localAvail cx a then .error .unavail
  else match σ.locals a cx.self with
    | none => .error .notOpted
    | some s => .ok ({ σ with locals := upd2 σ.locals a cx.self (some (delKey s k)) }, av, [])

/-- `box_create` / `app_box_create` (boxCreateImpl) -/
def effBoxCreate (P : Proto) (cx : Cx) (σ : State) (av : Avail) (owner : AppId) (name : Bytes) (n : Nat) : Res :=
  match lengthChecks P name n with
  | .error e => .error e
  | .ok _ =>
    match availableAppBox σ av cx owner name .create n with
    | .error e => .error e
    | .ok (av', _, ex) =>
      if ex then .ok (σ, av', [0])
      else match newBox P σ owner name (zeros n) with
        | .error e => .error e
        | .ok σ' => .ok (σ', av', [1])

/-- `box_resize` / `app_box_resize` (boxResizeImpl): DelBox then NewBox with the resized contents -/
def effBoxResize (P : Proto) (cx : Cx) (σ : State) (av : Avail) (owner : AppId) (name : Bytes) (n : Nat) : Res :=
  match lengthChecks P name n with
  | .error e => .error e
  | .ok _ =>
    match availableAppBox σ av cx owner name .resize n with
    | .error e => .error e
    | .ok (av', contents, ex) =>
      if !ex then .error .noBox
      else match newBox P (delBox σ owner name).2 owner name (resized contents n) with
        | .error e => .error e
        | .ok σ2 => .ok (σ2, av', [])

/-- `box_put` / `app_box_put` (boxPutImpl) -/
def effBoxPut (P : Proto) (cx : Cx) (σ : State) (av : Avail) (owner : AppId) (name : Bytes) (v : Bytes) : Res :=
  match lengthChecks P name v.length with
  | .error e => .error e
  | .ok _ =>
    match availableAppBox σ av cx owner name .write v.length with
    | .error e => .error e
    | .ok (av', contents, ex) =>
      if ex then
        if contents.length ≠ v.length then .error .putSize
        else match setBox σ owner name v with
          | .error e => .error e
          | .ok σ' => .ok (σ', av', [])
      else match newBox P σ owner name v with
        | .error e => .error e
        | .ok σ' => .ok (σ', av', [])

/-- `box_replace` / `app_box_replace` (boxReplaceImpl) -/
def effBoxReplace (P : Proto) (cx : Cx) (σ : State) (av : Avail) (owner : AppId) (name : Bytes) (start : Nat) (v : Bytes) : Res :=
  match lengthChecks P name (addSat start v.length) with
  | .error e => .error e
  | .ok _ =>
    match availableAppBox σ av cx owner name .write 0 with
    | .error e => .error e
    | .ok (av', contents, ex) =>
      if !ex then .error .noBox
      else match replaceCarefully contents v start with
        | .error e => .error e
        | .ok bytes =>
          match setBox σ owner name bytes with
          | .error e => .error e
          | .ok σ' => .ok (σ', av', [])

/-- `box_splice` / `app_box_splice` (boxSpliceImpl) -/
def effBoxSplice (P : Proto) (cx : Cx) (σ : State) (av : Avail) (owner : AppId) (name : Bytes) (start len : Nat) (v : Bytes) : Res :=
  match lengthChecks P name 0 with
  | .error e => .error e
  | .ok _ =>
    match availableAppBox σ av cx owner name .write 0 with
    | .error e => .error e
    | .ok (av', contents, ex) =>
      if !ex then .error .noBox
      else match spliceCarefully contents v start len with
        | .error e => .error e
        | .ok bytes =>
          match setBox σ owner name bytes with
          | .error e => .error e
          | .ok σ' => .ok (σ', av', [])

/-- `box_del` / `app_box_del` (boxDelImpl) -/
def effBoxDel (P : Proto) (cx : Cx) (σ : State) (av : Avail) (owner : AppId) (name : Bytes) : Res :=
  match lengthChecks P name 0 with
  | .error e => .error e
  | .ok _ =>
    match availableAppBox σ av cx owner name .delete 0 with
    | .error e => .error e
    | .ok (av', _, ex) =>
      if ex then .ok ((delBox σ owner name).2, av', [1]) else .ok (σ, av', [0])

/-- `box_len` / `app_box_len` (boxLenImpl): logs "exists" then the length -/
def effBoxLen (P : Proto) (cx : Cx) (σ : State) (av : Avail) (owner : AppId) (name : Bytes) : Res :=
  match lengthChecks P name 0 with
  | .error e => .error e
  | .ok _ =>
    match availableAppBox σ av cx owner name .read 0 with
    | .error e => .error e
    | .ok (av', contents, ex) => .ok (σ, av', [if ex then 1 else 0, contents.length])

/-- `app_params_set AppFamilyBoxAccess / AppForeignBoxReads` -/
def effSetFlag (cx : Cx) (σ : State) (av : Avail) (fam : Bool) (b : Nat) : Res :=
  match σ.apps cx.self with
  | none => .error .noApp
  | some app =>
    let app' : App := if fam then { app with fba := decide (b ≠ 0) } else { app with fbr := decide (b ≠ 0) }
    .ok ({ σ with apps := upd σ.apps cx.self (some app') }, av, [])

/-- one effect: (state', availability', logged values) -/
def evalEffect (P : Proto) (cx : Cx) (σ : State) (av : Avail) : Effect → Res
  | .globalPut k v => effGlobalPut P cx σ av k v
  | .globalDel k => effGlobalDel cx σ av k
  | .localPut a k v => effLocalPut P cx σ av a k v
  | .localDel a k => effLocalDel cx σ av a k
  | .boxCreate o name n => effBoxCreate P cx σ av (ownerOf cx o) name n
  | .boxResize o name n => effBoxResize P cx σ av (ownerOf cx o) name n
  | .boxPut o name v => effBoxPut P cx σ av (ownerOf cx o) name v
  | .boxReplace o name start v => effBoxReplace P cx σ av (ownerOf cx o) name start v
  | .boxSplice o name start len v => effBoxSplice P cx σ av (ownerOf cx o) name start len v
  | .boxDel o name => effBoxDel P cx σ av (ownerOf cx o) name
  | .boxLen o name => effBoxLen P cx σ av (ownerOf cx o) name
  | .setFam b => effSetFlag cx σ av true b
  | .setFbr b => effSetFlag cx σ av false b

/-- a straight-line script -/
def runEffects (P : Proto) (cx : Cx) : State → Avail → List Effect → Res
  | σ, av, [] => .ok (σ, av, [])
  | σ, av, e :: es =>
    match evalEffect P cx σ av e with
    | .error err => .error err
    | .ok (σ1, av1, l1) =>
      match runEffects P cx σ1 av1 es with
      | .error err => .error err
      | .ok (σ2, av2, l2) => .ok (σ2, av2, l1 ++ l2)

/-! ## transactions and groups -/

inductive OC
  | noop | optin | closeout | delete | clear
deriving DecidableEq, Repr, Inhabited

inductive Txn
  | create (snd : Addr) (gs ls : Schema) (accts : List Addr) (refs : List BoxRef) (script : List Effect)
  | call (snd : Addr) (app : AppId) (oc : OC) (accts : List Addr) (refs : List BoxRef) (script : List Effect)
  | update (snd : Addr) (app : AppId) (gs : Schema)
  | fund
deriving Repr, Inhabited

def Txn.refs : Txn → List BoxRef
  | .create _ _ _ _ r _ => r
  | .call _ _ _ _ r _ => r
  | _ => []

/-- the references of a transaction as `fillApplicationCallForeign` shares them: index 0 = the called application; for a
    creation they are deferred until the id is known; the empty reference only counts as an unnamed access -/
def sharedRefs : Txn → List BoxRef
  | .call _ app _ _ r _ => (r.filter (fun x => !(x.2.isEmpty && x.1 = 0))).map (fun x => (if x.1 = 0 then app else x.1, x.2))
  | .create _ _ _ _ r _ => r.filter (fun x => x.1 ≠ 0)
  | _ => []

def emptyRefs (t : Txn) : Nat := (t.refs.filter (fun x => x.2.isEmpty && x.1 = 0)).length

def addRefs (l : List (BoxRef × Bool)) (rs : List BoxRef) : List (BoxRef × Bool) :=
  rs.foldl (fun acc r => aset acc r false) l

/-- Σ sizes of the existing boxes among the available references (the read-budget loop of EvalContract) -/
def readBytes (σ : State) (l : List (BoxRef × Bool)) : Nat :=
  wsum (fun (r : BoxRef) _ => if r.2.isEmpty then 0 else match aget (σ.boxes r.1) r.2 with | some c => c.length | none => 0) l

/-- `computeAvailability`: the box references of all transactions of the group, none dirty -/
def groupRefs (g : List Txn) : List (BoxRef × Bool) := g.foldl (fun acc t => addRefs acc (sharedRefs t)) []

/-- `ioBudget = bumps * BytesPerBoxReference`, bumps = all box references of the group (duplicates and empty ones count) -/
def groupBudget (P : Proto) (g : List Txn) : Nat := (g.map (fun t => t.refs.length)).foldl (· + ·) 0 * P.bytesPerBoxRef

def addCreated (c : List AppId) : Option AppId → List AppId
  | some a => a :: c
  | none => c

/-- the start of a program evaluation (EvalContract).  First evaluation of the group: `computeAvailability` over all
    transactions, ioBudget, the read-budget check.  `extra` = the index-0 references of a creation that is being evaluated right
    now (added, not dirty, before the read-budget check), `newApp` = its id (→ createdApps). -/
def startGroup (P : Proto) (σ : State) (g : List Txn) (av : Avail) (extra : List BoxRef) (newApp : Option AppId) :
    Except Err Avail :=
  if av.started then
    .ok { av with boxes := addRefs av.boxes extra, created := addCreated av.created newApp }
  else
    let boxes := addRefs (groupRefs g) extra
    if readBytes σ boxes > groupBudget P g then .error .rBudget
    else .ok { av with boxes := boxes, unnamed := (g.map emptyRefs).foldl (· + ·) 0, created := addCreated av.created newApp,
                       ioBudget := groupBudget P g, started := true }

/-- application creation: createApplication + AllocateApp(global), then the approval program (the script) runs.
    EvalContract: availability, the index-0 references of this transaction, createdApps, read budget. -/
def txnCreate (P : Proto) (g : List Txn) (σ : State) (av : Avail) (snd : Addr) (gs ls : Schema) (accts : List Addr)
    (refs : List BoxRef) (script : List Effect) : Res :=
  let id := σ.nextApp
  let app : App := { creator := snd, lschema := ls, g := { max := gs } }
  let σ1 : State := { σ with apps := upd σ.apps id (some app), nextApp := id + 1 }
  let own := (refs.filter (fun x => x.1 = 0 && !x.2.isEmpty)).map (fun x => (id, x.2))
  match startGroup P σ1 g av own (some id) with
  | .error e => .error e
  | .ok av1 => runEffects P { self := id, snd := snd, accts := accts } σ1 av1 script

/-- ClearState: HasAppLocalState first; the clear program (`int 1`) runs only if the application still exists; then
    closeOutApplication -/
def txnClear (P : Proto) (g : List Txn) (σ : State) (av : Avail) (snd : Addr) (a : AppId) : Res :=
  match σ.locals snd a with
  | none => .error .notOpted
  | some _ =>
    match (if (σ.apps a).isSome then startGroup P σ g av [] none else .ok av) with
    | .error e => .error e
    | .ok av1 => .ok ({ σ with locals := upd2 σ.locals snd a none }, av1, [])

/-- the allocation of an OptIn (before the program runs) -/
def optIn (σ : State) (snd : Addr) (a : AppId) (app : App) (oc : OC) : Except Err State :=
  if oc = .optin then
    match σ.locals snd a with
    | some _ => .error .alreadyOpted
    | none => .ok { σ with locals := upd2 σ.locals snd a (some { max := app.lschema }) }
  else .ok σ

/-- what follows the approval program: CloseOut / DeleteApplication -/
def completion (σ2 : State) (av2 : Avail) (logs : List Nat) (snd : Addr) (a : AppId) (oc : OC) : Res :=
  match oc with
  | .closeout =>
    match σ2.locals snd a with
    | none => .error .notOpted
    | some _ => .ok ({ σ2 with locals := upd2 σ2.locals snd a none }, av2, logs)
  | .delete => .ok ({ σ2 with apps := upd σ2.apps a none }, av2, logs)
  | _ => .ok (σ2, av2, logs)

/-- NoOp / OptIn / CloseOut / DeleteApplication call -/
def txnCall (P : Proto) (g : List Txn) (σ : State) (av : Avail) (snd : Addr) (a : AppId) (oc : OC) (accts : List Addr)
    (script : List Effect) : Res :=
  match σ.apps a with
  | none => .error .noApp
  | some app =>
    match optIn σ snd a app oc with
    | .error e => .error e
    | .ok σ1 =>
      match startGroup P σ1 g av [] none with
      | .error e => .error e
      | .ok av1 =>
        match runEffects P { self := a, snd := snd, accts := accts } σ1 av1 script with
        | .error e => .error e
        | .ok (σ2, av2, logs) => completion σ2 av2 logs snd a oc

/-- UpdateApplication: the approval program runs (it approves updates without effects), then updateApplication; a size
    update (`UpdatingSizes`: non-zero schema) goes through SetAppGlobalSchema -/
def txnUpdate (P : Proto) (g : List Txn) (σ : State) (av : Avail) (a : AppId) (gs : Schema) : Res :=
  match σ.apps a with
  | none => .error .noApp
  | some app =>
    match startGroup P σ g av [] none with
    | .error e => .error e
    | .ok av1 =>
      if gs.nui = 0 ∧ gs.nbs = 0 then .ok (σ, av1, [])
      else match setSchema app.g gs with
        | .error e => .error e
        | .ok g' => .ok ({ σ with apps := upd σ.apps a (some { app with g := g' }) }, av1, [])

/-- one transaction of a group: (state', availability', logs) -/
def evalTxn (P : Proto) (g : List Txn) (σ : State) (av : Avail) : Txn → Res
  | .fund => .ok (σ, av, [])
  | .create snd gs ls accts refs script => txnCreate P g σ av snd gs ls accts refs script
  | .call snd a .clear _ _ _ => txnClear P g σ av snd a
  | .call snd a oc accts _ script => txnCall P g σ av snd a oc accts script
  | .update _ a gs => txnUpdate P g σ av a gs

/-- the members of a group in order; error = (class, index of the failing member) -/
def evalTxns (P : Proto) (g : List Txn) : State → Avail → List Txn → Nat → Except (Err × Nat) (State × Avail × List (List Nat))
  | σ, av, [], _ => .ok (σ, av, [])
  | σ, av, t :: ts, i =>
    match evalTxn P g σ av t with
    | .error e => .error (e, i)
    | .ok (σ1, av1, l) =>
      match evalTxns P g σ1 av1 ts (i + 1) with
      | .error e => .error e
      | .ok (σ2, av2, ls) => .ok (σ2, av2, l :: ls)

/-- `BlockEvaluator.TransactionGroup` restricted to storage: all or nothing -/
def evalGroup (P : Proto) (σ : State) (g : List Txn) : Except (Err × Nat) (State × Avail × List (List Nat)) :=
  evalTxns P g σ {} g 0

/-- the state after a group (unchanged when it fails) -/
def applyGroup (P : Proto) (σ : State) (g : List Txn) : State :=
  match evalGroup P σ g with
  | .ok (σ', _, _) => σ'
  | .error _ => σ

/-- a history of groups -/
def applyGroups (P : Proto) (σ : State) (gs : List (List Txn)) : State := gs.foldl (applyGroup P) σ

end AlgoVerif.Model.AppStorage
