/-
PlayerM — executable model of ONE agreement node: agreement/player.go (player.handle and everything below it),
router.go (rootRouter / roundRouter / periodRouter / stepRouter with `update` = create-if-absent + GC, and the
nil-child dereference a GC'd child causes), voteAggregator.go (freshness filters, vote / bundle delivery),
voteAuxiliary.go (voteTrackerPeriod.Cached, voteTrackerRound.Freshest with `fresherThan`), voteTracker.go (reused:
Model.VoteTracker) + voteTrackerContract.go, proposalManager.go, proposalStore.go (assemblers, Relevant, Pinned, trim),
proposalTracker.go (seeker, Duplicate, Staging) + proposalTrackerContract.go, proposalTable.go (Pending).
Core Lean only (linked into the `player` driver).

Symbolic data.  A sender is a `Nat` (address = big-endian number, so `bytes.Compare` = `<`), a proposal-value is a `Nat`
(0 = bottom; the harness keeps the table id ↦ proposalValue, OriginalPeriod of value `v` is `v / 1000`), a payload is
(value id, block round), a proposal-vote credential is a rank (`Cred.Less` = `<` on ranks).  Signatures, VRF proofs,
block contents are outside: the machine only ever sees *verified* events.

Go maps are association lists (lookup = first match, assignment = replace-or-append, delete = filter).  Every
`Panicf` / nil dereference the code can reach is an explicit `Except.error`.

NOT modelled (generator is kept away / compared modulo):
* `player.lowestCredentialArrivals`, `player.dynamicFilterTimeout`, `validatedAt` / `receivedAt`: the filter timeout is
  always the default `FilterTimeout(period)` (true as long as fewer than 40 period-0 rounds completed in a case);
  `ensureAction.voteValidatedAt / dynamicFilterTimeout` are not part of the model's action.  The *tree side effect* of
  `updateCredentialArrivalHistory` (it dispatches `readLowestVote` to round − credentialRoundLag) IS modelled.
* speculative block assembly, the tracer / cadaver, telemetry, `playerContract` (only logs warnings).
* consensus-version lookup errors on timeout events (`e.Proto.Err` for timeouts): every timeout carries a valid version.
* machine-integer wrap: rounds, steps and durations are unbounded `Nat` (steps stay far below 253 on the timeout path,
  durations below 2^63); periods wrap only where the code computes `Period − 1` at period 0 (`predPeriod`) and in the
  GC test `p + 1 ≥ Period`.
-/
import AlgoVerif.Model.VoteTracker
namespace AlgoVerif.Model.Player
open AlgoVerif.Model

/-! ## parameters -/

/-- what the machine reads from `config.Consensus[v]`, `config.Protocol` and package constants -/
structure Params where
  softT : Nat
  certT : Nat
  nextT : Nat
  lateT : Nat
  redoT : Nat
  downT : Nat
  /-- proto.DynamicFilterTimeout -/
  dynFilter : Bool
  /-- AgreementFilterTimeoutPeriod0, AgreementFilterTimeout -/
  filter0 : Nat
  filterN : Nat
  /-- AgreementDeadlineTimeoutPeriod0, defaultDeadlineTimeout -/
  deadline0 : Nat
  deadlineN : Nat
  /-- recoveryExtraTimeout -/
  extra : Nat
  /-- FastRecoveryLambda -/
  lambdaF : Nat
  /-- credentialRoundLag -/
  lag : Nat
deriving Repr, Inhabited, DecidableEq

/-- steps: propose 0, soft 1, cert 2, next 3, …, late 253, redo 254, down 255 -/
def sSoft : Nat := 1
def sCert : Nat := 2
def sNext : Nat := 3
def sLate : Nat := 253
def sRedo : Nat := 254
def sDown : Nat := 255
/-- `partitionStep = next + 3` -/
def partitionStep : Nat := 6

/-- `step.threshold(proto)` -/
def stepT (P : Params) (s : Nat) : Nat :=
  if s = 0 then 0 else if s = 1 then P.softT else if s = 2 then P.certT else if s = 253 then P.lateT
  else if s = 254 then P.redoT else if s = 255 then P.downT else P.nextT

def cfgOf (P : Params) (s : Nat) : VoteTracker.Cfg := ⟨s, stepT P s⟩

/-- `p.Period - 1` on uint64 -/
def predPeriod (p : Nat) : Nat := if p = 0 then 18446744073709551615 else p - 1

/-- OriginalPeriod of a symbolic proposal-value -/
def origPeriod (v : Nat) : Nat := v / 1000

/-! ## data -/

/-- proposal payload (`proposal` / `unauthenticatedProposal`): its proposal-value and `Block.Round()` -/
structure Payload where
  value : Nat
  round : Nat
deriving DecidableEq, Repr, Inhabited

/-- a proposal-vote (step = propose) -/
structure PVote where
  sender : Nat
  round : Nat
  period : Nat
  value : Nat
  cred : Nat
deriving DecidableEq, Repr, Inhabited

/-- `blockAssembler`: `Filled`/`Pipeline` and `Assembled`/`Payload` as options -/
structure Assembler where
  pipeline : Option Payload := none
  payload : Option Payload := none
  auths : List PVote := []
deriving DecidableEq, Repr, Inhabited

/-- `proposalStore` -/
structure Store where
  relevant : List (Nat × Nat) := []
  pinned : Nat := 0
  assemblers : List (Nat × Assembler) := []
deriving DecidableEq, Repr, Inhabited

/-- `proposalSeeker` (`lowestLate` = lowestIncludingLate / hasLowestIncludingLate, unexported: not persisted) -/
structure Seeker where
  lowest : Option PVote := none
  frozen : Bool := false
  lowestLate : Option PVote := none
deriving DecidableEq, Repr, Inhabited

/-- `proposalTracker` -/
structure PTracker where
  duplicate : List Nat := []
  freezer : Seeker := {}
  staging : Nat := 0
deriving DecidableEq, Repr, Inhabited

/-- `proposalTrackerContract` -/
structure PTContract where
  sawOneVote : Bool := false
  froze : Bool := false
  sawSoft : Bool := false
  sawCert : Bool := false
deriving DecidableEq, Repr, Inhabited

/-- `voteTrackerContract` -/
structure VTContract where
  step : Nat := 0
  stepOk : Bool := false
  emitted : Bool := false
deriving DecidableEq, Repr, Inhabited

/-- `stepRouter` -/
structure StepR where
  tracker : VoteTracker.Tracker := {}
  contract : VTContract := {}
deriving DecidableEq, Repr, Inhabited

/-- `nextThresholdStatusEvent` (voteTrackerPeriod.Cached) -/
structure NextStatus where
  bottom : Bool := false
  proposal : Nat := 0
deriving DecidableEq, Repr, Inhabited

/-- `periodRouter` -/
structure PeriodR where
  ptracker : PTracker := {}
  ptContract : PTContract := {}
  cached : NextStatus := {}
  steps : List (Nat × StepR) := []
deriving DecidableEq, Repr, Inhabited

/-- `thresholdEvent`; kind 0 none, 1 soft, 2 cert, 3 next.  `bundle` is the `unauthenticatedBundle` (its Round / Period /
Step are those of the event: `makeBundle` copies them from a vote of the same tracker). -/
structure Thresh where
  kind : Nat := 0
  round : Nat := 0
  period : Nat := 0
  step : Nat := 0
  proposal : Nat := 0
  bundle : VoteTracker.Bundle := ⟨0, [], []⟩
deriving DecidableEq, Repr, Inhabited

/-- `roundRouter` (voteTrackerRound.Freshest / Ok inlined) -/
structure RoundR where
  store : Store := {}
  freshest : Thresh := {}
  ok : Bool := false
  periods : List (Nat × PeriodR) := []
deriving DecidableEq, Repr, Inhabited

/-- `rootRouter` -/
structure Root where
  rounds : List (Nat × RoundR) := []
deriving DecidableEq, Repr, Inhabited

/-- `player` (exported fields; Deadline.Type: 0 TimeoutDeadline, 2 TimeoutFilter) -/
structure PlayerF where
  round : Nat := 0
  period : Nat := 0
  step : Nat := 1
  lastConcluding : Nat := 0
  deadlineDur : Nat := 0
  deadlineKind : Nat := 2
  napping : Bool := false
  fastRecoveryDeadline : Nat := 0
  /-- Pending.Pending: task index ↦ tail (`nil` tails are stored too) -/
  pending : List (Nat × Option Payload) := []
  pendingNext : Nat := 0
deriving DecidableEq, Repr, Inhabited

structure State where
  pl : PlayerF := {}
  root : Root := {}
deriving DecidableEq, Repr, Inhabited

inductive Panic
  /-- voteTracker / genBundle / makeBundle Panicf or index panic -/
  | tracker (k : VoteTracker.PanicKind)
  /-- method call on a nil child router (unreachable since roundRouter.update keeps the child it was called for; a
  round router collected by rootRouter.update right after its creation would still be one) -/
  | nilRouter
  /-- checkedListener precondition / postcondition `Panicf` (1 proposalManager, 2 proposalTracker pre, 3 proposalTracker post,
  4 voteTracker pre, 5 voteTracker post) -/
  | contract (which : Nat)
  /-- proposalStore newRound: "too many assemblers" -/
  | tooManyAssemblers
  /-- voteAggregator: "bad round" -/
  | badRound
  /-- type assertion on an event of the wrong dynamic type (player: `ef.(proposalAcceptedEvent)`) -/
  | badCast
  /-- model artefact: nesting of round changes inside one `handle` deeper than the fuel -/
  | depth
deriving DecidableEq, Repr, Inhabited

/-- certificate = `Certificate(e.Bundle)` -/
structure Cert where
  round : Nat
  period : Nat
  step : Nat
  proposal : Nat
  votes : List VoteTracker.Vote
  eqVotes : List VoteTracker.EqVote
deriving DecidableEq, Repr, Inhabited

def Thresh.cert (e : Thresh) : Cert := ⟨e.round, e.period, e.step, e.bundle.proposal, e.bundle.votes, e.bundle.eqVotes⟩

/-- an `unauthenticatedVote` as it appears in relay / broadcastVotes actions -/
structure UVote where
  round : Nat
  period : Nat
  step : Nat
  sender : Nat
  value : Nat
deriving DecidableEq, Repr, Inhabited

inductive Action
  | ignore
  | disconnect
  | relayVote (v : UVote)
  | relayBundle (c : Cert)
  | broadcastBundle (c : Cert)
  /-- relay / broadcast of a compound message: payload and (possibly zero) proposal-vote -/
  | relayCompound (p : Payload) (v : Option PVote)
  | broadcastCompound (p : Payload) (v : Option PVote)
  | broadcastVotes (vs : List UVote)
  | verifyVote (round period taskIndex : Nat)
  | verifyPayload (round period : Nat) (pinned : Bool) (p : Payload)
  | verifyBundle (round period step : Nat)
  | ensure (p : Payload) (c : Cert)
  | stageDigest (c : Cert)
  | rezero (round : Nat)
  | attest (round period step value : Nat)
  | assemble (round period : Nat)
  | repropose (round period value : Nat)
  | checkpoint (round period step : Nat) (err : Bool)
deriving DecidableEq, Repr, Inhabited

/-- verification outcome attached to a `…Verified` event: 0 ok, 1 `Err ≠ nil`, 2 `Cancelled`, 3 `Proto.Err ≠ nil` -/
abbrev Bad := Nat

inductive Event
  /-- voteVerified / votePresent (`verified = false`) of a voting step (`step ≠ 0`) -/
  | vote (verified : Bool) (bad : Bad) (round period step : Nat) (v : VoteTracker.Vote)
  /-- voteVerified / votePresent of a proposal-vote; `taskIndex` (verified) pops `Pending`; `tail` (present) is the
  payloadPresent event travelling with the vote -/
  | pvote (verified : Bool) (bad : Bad) (v : PVote) (taskIndex : Nat) (tail : Option Payload)
  /-- payloadVerified / payloadPresent; `own`: `messageHandle == nil` (the node's own proposal) -/
  | payload (verified : Bool) (bad : Bad) (p : Payload) (own : Bool)
  /-- bundleVerified / bundlePresent: all votes are for (round, period, step); plain votes are for `value` -/
  | bundle (verified : Bool) (bad : Bad) (round period step value : Nat) (votes : List (Nat × Nat))
      (eqs : List VoteTracker.EqVote)
  | timeout (entropy : Nat)
  | fastTimeout (entropy : Nat)
  | roundInterruption (round : Nat)
  | checkpoint (round period step : Nat) (err : Bool)
deriving DecidableEq, Repr, Inhabited

/-! ## association lists -/

def aget {α : Type} (l : List (Nat × α)) (k : Nat) : Option α := l.lookup k

def aset {α : Type} : List (Nat × α) → Nat → α → List (Nat × α)
  | [], k, v => [(k, v)]
  | (k', v') :: rest, k, v => if k' = k then (k, v) :: rest else (k', v') :: aset rest k v

def adel {α : Type} (l : List (Nat × α)) (k : Nat) : List (Nat × α) := l.filter (fun kv => kv.1 != k)

/-! ## router `update`: create the addressed child if absent, then garbage-collect -/

/-- `periodRouter.update(s)` -/
def PeriodR.upd (pr : PeriodR) (s : Nat) : PeriodR :=
  match aget pr.steps s with
  | some _ => pr
  | none => { pr with steps := pr.steps ++ [(s, ({} : StepR))] }

/-- the GC test of `roundRouter.update`: `p+1 >= state.Period || p <= 1` (`p+1` on uint64) -/
def keepPeriod (pl : PlayerF) (p : Nat) : Bool :=
  decide ((p + 1) % 18446744073709551616 ≥ pl.period) || decide (p ≤ 1)

/-- `roundRouter.update(state, p, true)`: create `Children[p]` if absent, garbage-collect, and keep the child the call was
made for whatever the GC test says (`children[p] = router.Children[p]`: the dispatch that follows uses it) -/
def RoundR.upd (pl : PlayerF) (rr : RoundR) (p : Nat) : RoundR :=
  match aget rr.periods p with
  | some x => { rr with periods := aset (rr.periods.filter (fun kv => keepPeriod pl kv.1)) p x }
  | none => { rr with periods := aset ((rr.periods ++ [(p, ({} : PeriodR))]).filter (fun kv => keepPeriod pl kv.1)) p {} }

/-- the GC test of `rootRouter.update`: `r + credentialRoundLag >= state.Round` -/
def keepRound (P : Params) (pl : PlayerF) (r : Nat) : Bool := decide (r + P.lag ≥ pl.round)

/-- `rootRouter.update(state, r, true)` -/
def Root.upd (P : Params) (pl : PlayerF) (root : Root) (r : Nat) : Root :=
  let ch := match aget root.rounds r with
    | some _ => root.rounds
    | none => root.rounds ++ [(r, ({} : RoundR))]
  { rounds := ch.filter (fun kv => keepRound P pl kv.1) }

/-- `periodRouter.dispatch(…, s)` to the step machine: `update(s)`, then the child handles -/
def PeriodR.atStep {α : Type} (pr : PeriodR) (s : Nat) (f : StepR → Except Panic (StepR × α)) :
    Except Panic (PeriodR × α) :=
  let pr := pr.upd s
  match aget pr.steps s with
  | none => .error .nilRouter
  | some sr =>
    match f sr with
    | .error e => .error e
    | .ok (sr', a) => .ok ({ pr with steps := aset pr.steps s sr' }, a)

/-- `roundRouter.dispatch(…, p, s)` to a period-level machine (or below): `update(state,p)`, `Children[p]` (nil if the
GC just dropped it), `periodRouter.update(s)`, then `f` -/
def RoundR.atPeriod {α : Type} (pl : PlayerF) (rr : RoundR) (p s : Nat) (f : PeriodR → Except Panic (PeriodR × α)) :
    Except Panic (RoundR × α) :=
  let rr := rr.upd pl p
  match aget rr.periods p with
  | none => .error .nilRouter
  | some pr =>
    match f (pr.upd s) with
    | .error e => .error e
    | .ok (pr', a) => .ok ({ rr with periods := aset rr.periods p pr' }, a)

/-- `rootRouter.dispatch(…, r, p, s)` to a round-level machine (or below): `update(state,r)`, `Children[r]`, and the
`roundRouter.update(state,p)` that `roundRouter.dispatch` performs first, then `f` -/
def Root.atRound {α : Type} (P : Params) (pl : PlayerF) (root : Root) (r p : Nat)
    (f : RoundR → Except Panic (RoundR × α)) : Except Panic (Root × α) :=
  let root := root.upd P pl r
  match aget root.rounds r with
  | none => .error .nilRouter
  | some rr =>
    match f (rr.upd pl p) with
    | .error e => .error e
    | .ok (rr', a) => .ok ({ rounds := aset root.rounds r rr' }, a)

/-! ## freshness filters (voteAggregator.go, proposalManager.go) -/

/-- `voteStepFresh(descr, proto, mine, vote) == nil` -/
def voteStepFresh (mine vote : Nat) : Bool :=
  if vote ≤ 3 then true
  else if vote ≥ 253 then true
  else if mine ≠ 0 ∧ mine - 1 > vote then false
  else if mine + 1 < vote then false
  else true

/-- `voteFresh(proto, freshData, vote) == nil`; freshData = the player fields -/
def voteFresh (pl : PlayerF) (r p s : Nat) : Bool :=
  if pl.round ≠ r ∧ pl.round + 1 ≠ r then false
  else if pl.round + 1 = r then
    if p > 0 then false else voteStepFresh 0 s
  else if pl.period ≠ 0 ∧ p = pl.period - 1 then voteStepFresh pl.lastConcluding s
  else if p = pl.period then voteStepFresh pl.step s
  else if p = pl.period + 1 then voteStepFresh 1 s
  else false

/-- `bundleFresh(freshData, b) == nil` -/
def bundleFresh (pl : PlayerF) (r p s : Nat) : Bool :=
  if pl.round ≠ r then false
  else if s = 2 then true
  else if pl.period ≠ 0 ∧ pl.period - 1 > p then false
  else true

/-- `proposalFresh(freshData, vote) == nil` -/
def proposalFresh (pl : PlayerF) (r p : Nat) : Bool :=
  if r = pl.round then
    if pl.period ≠ 0 ∧ pl.period - 1 > p then false
    else if pl.period + 1 < p then false
    else true
  else if r = pl.round + 1 then
    if p ≠ 0 then false else true
  else false

/-- `proposalUsefulForCredentialHistory(curRound, vote)` for a proposal-vote (step = propose) -/
def usefulForCredHistory (P : Params) (cur r p : Nat) : Bool :=
  decide (r < cur) && decide (cur ≤ r + P.lag) && decide (p = 0)

/-! ## timing -/

/-- `step.nextVoteRanges(deadlineTimeout)`: the loop `for i := next; i < s; i++` runs `s - 3` times -/
def nextVoteLoop : Nat → Nat → Nat → Nat → Nat × Nat
  | 0, _, lower, upper => (lower, upper)
  | n+1, extra, _, upper => nextVoteLoop n (extra * 2) upper (upper + extra * 2)

def nextVoteRanges (P : Params) (s : Nat) (deadline : Nat) : Nat × Nat :=
  nextVoteLoop (s - 3) P.extra deadline (deadline + P.extra)

def filterTimeout (P : Params) (p : Nat) : Nat := if p = 0 then P.filter0 else P.filterN
def deadlineTimeout (P : Params) (p : Nat) : Nat := if p = 0 then P.deadline0 else P.deadlineN

/-! ## step machine: voteTracker behind its contract -/

/-- `thresholdEvent.fresherThan` (same round) -/
def fresherThan (e o : Thresh) : Bool :=
  if e.kind = 0 ∧ o.kind = 0 then true
  else if e.kind = 0 then false
  else if o.kind = 0 then true
  else if o.kind = 2 then false
  else if e.kind = 1 then decide (e.period > o.period)
  else if e.kind = 2 then true
  else if e.period > o.period then true
  else if e.period < o.period then false
  else if o.kind = 1 then true
  else decide (e.proposal = 0) && decide (o.proposal ≠ 0)

/-- `voteTrackerContract.post` on a voteAccepted input: (violated, Emitted') -/
def vtPost (c : VTContract) (s : Nat) : VoteTracker.Event → Bool × Bool
  | .none => (false, c.emitted)
  | .threshold k v b =>
    let kindBad := (k == 1 && s != 1) || (k == 2 && s != 2) || (k == 3 && decide (s ≤ 2))
    let twice := c.emitted
    let bottomBad := v == 0 && decide (s < 3)
    let emptyBad := b.votes.isEmpty
    (kindBad || twice || bottomBad || emptyBad, true)

/-- voteAccepted delivered to `stepRouter` (r, p, s): contract pre, `voteTracker.handle`, contract post -/
def StepR.accept (P : Params) (sr : StepR) (r p s : Nat) (x : VoteTracker.Vote) : Except Panic (StepR × Thresh) :=
  if s = 0 then .error (.contract 4)
  else if sr.contract.stepOk && sr.contract.step != s then .error (.contract 4)
  else
    let c : VTContract := { sr.contract with stepOk := true, step := s }
    match VoteTracker.handle (cfgOf P s) sr.tracker x with
    | .error k => .error (.tracker k)
    | .ok (t', ev) =>
      let (bad, em) := vtPost c s ev
      if bad then .error (.contract 5)
      else
        let th : Thresh := match ev with
          | .none => {}
          | .threshold k v b => ⟨k, r, p, s, v, b⟩
        .ok ({ tracker := t', contract := { c with emitted := em } }, th)

/-- voteFilterRequest at the step machine: true = voteFilteredStep -/
def StepR.filter (sr : StepR) (sender value : Nat) : Bool :=
  match VoteTracker.findEq sr.tracker.equivocators sender with
  | some _ => true
  | none =>
    match VoteTracker.findVoter sr.tracker.voters sender with
    | some v => v.value == value
    | none => false

/-- dumpVotesRequest -/
def StepR.dump (sr : StepR) (r p s : Nat) : List UVote :=
  sr.tracker.voters.map (fun v => ⟨r, p, s, v.sender, v.value⟩)
    ++ sr.tracker.equivocators.flatMap (fun e => [⟨r, p, s, e.sender, e.p0⟩, ⟨r, p, s, e.sender, e.p1⟩])

/-! ## period machines -/

/-- `proposalSeeker.accept`: (new seeker, effect = VerifiedBetterLateCredentialForTracking, error) -/
def Seeker.accept (s : Seeker) (v : PVote) : Seeker × Bool × Bool :=
  if s.frozen then
    let better := match s.lowestLate with
      | none => true
      | some l => decide (v.cred < l.cred)
    (if better then { s with lowestLate := some v } else s, better, true)
  else
    match s.lowest with
    | some l =>
      if v.cred < l.cred then ({ lowest := some v, frozen := s.frozen, lowestLate := some v }, true, false)
      else (s, false, true)
    | none => ({ lowest := some v, frozen := s.frozen, lowestLate := some v }, true, false)

/-- result of a verified proposal-vote at the proposal tracker / store -/
inductive PVRes
  | filtered (better : Bool)
  | accepted (value : Nat) (payload : Option Payload)
deriving DecidableEq, Repr, Inhabited

/-- voteVerified at `proposalTracker` -/
def PTracker.voteVerified (t : PTracker) (v : PVote) : PTracker × PVRes :=
  if t.duplicate.contains v.sender then (t, .filtered false)
  else
    let t := { t with duplicate := t.duplicate ++ [v.sender] }
    let acc := t.freezer.accept v
    let t := { t with freezer := { t.freezer with lowestLate := acc.1.lowestLate } }
    if t.staging ≠ 0 then (t, .filtered acc.2.1)
    else if acc.2.2 then (t, .filtered acc.2.1)
    else ({ t with freezer := acc.1 }, .accepted v.value none)

/-- `proposalTrackerContract.post` on a voteVerified input: true = violated -/
def ptVoteBad (c : PTContract) (res : PVRes) (v : PVote) : Bool :=
  let accepted := match res with | .accepted _ _ => true | .filtered _ => false
  let acceptedSame := match res with | .accepted w _ => w == v.value | .filtered _ => false
  let first := !c.sawOneVote && !c.froze && !c.sawSoft && !c.sawCert
  (first && !(accepted && acceptedSame)) || ((c.froze || c.sawSoft || c.sawCert) && accepted)

/-- voteVerified at `proposalTracker` behind `proposalTrackerContract` -/
def PeriodR.pvoteVerified (pr : PeriodR) (v : PVote) : Except Panic (PeriodR × PVRes) :=
  let r := pr.ptracker.voteVerified v
  if ptVoteBad pr.ptContract r.2 v then .error (.contract 3)
  else .ok ({ pr with ptracker := r.1, ptContract := { pr.ptContract with sawOneVote := true } }, r.2)

/-- voteFilterRequest at `proposalTracker`: true = voteFiltered (duplicate sender) -/
def PeriodR.pvoteDup (pr : PeriodR) (sender : Nat) : Bool := pr.ptracker.duplicate.contains sender

/-- `t.Freezer.Lowest.R.Proposal` (bottom while nothing was seen) -/
def Seeker.lowestValue (s : Seeker) : Nat :=
  match s.lowest with
  | some l => l.value
  | none => 0

/-- proposalFrozen -/
def PeriodR.freeze (pr : PeriodR) : Except Panic (PeriodR × Nat) :=
  if pr.ptContract.froze then .error (.contract 2)
  else if !pr.ptContract.sawOneVote && pr.ptracker.freezer.lowestValue ≠ 0 then .error (.contract 3)
  else
    .ok ({ pr with ptracker := { pr.ptracker with freezer := { pr.ptracker.freezer with frozen := true } },
                   ptContract := { pr.ptContract with froze := true } }, pr.ptracker.freezer.lowestValue)

/-- softThreshold / certThreshold at `proposalTracker`: sets Staging -/
def PeriodR.stage (pr : PeriodR) (kind value : Nat) : Except Panic (PeriodR × Unit) :=
  if kind = 1 ∧ (pr.ptContract.sawSoft ∨ value = 0) then .error (.contract 2)
  else
    let c := if kind = 1 then { pr.ptContract with sawSoft := true } else { pr.ptContract with sawCert := true }
    .ok ({ pr with ptracker := { pr.ptracker with staging := value }, ptContract := c }, ())

/-! ## round machines: proposalStore, voteTrackerRound -/

/-- `store.Assemblers[v]` (zero value when absent) -/
def Store.asm (st : Store) (v : Nat) : Assembler := (aget st.assemblers v).getD {}

/-- `blockAssembler.authenticator(p)` -/
def Assembler.authenticator (a : Assembler) (p : Nat) : Option PVote := a.auths.find? (fun v => v.period == p)

/-- `blockAssembler.trim(p)` -/
def Assembler.trim (a : Assembler) (p : Nat) : Assembler := { a with auths := a.auths.filter (fun v => decide (v.period ≥ p)) }

/-- `proposalStore.trim(p)` -/
def Store.trim (st : Store) (period : Nat) : Store :=
  let keys := st.pinned :: st.relevant.map Prod.snd
  let new := keys.foldl (fun acc k => aset acc k ((st.asm k).trim period)) ([] : List (Nat × Assembler))
  { st with assemblers := adel new 0 }

/-- `proposalStore.lastRelevant(pv)` -/
def Store.lastRelevant (st : Store) (pv : Nat) : Nat × Bool :=
  if st.pinned = pv then (0, true)
  else (st.relevant.foldl (fun p kv => if kv.1 > p ∧ kv.2 = pv then kv.1 else p) 0, false)

/-- result of `stagedValue` -/
structure Staged where
  proposal : Nat
  payload : Option Payload
deriving DecidableEq, Repr, Inhabited

/-- readStaging handled by the store of this round router (the nested dispatch to the period machine included) -/
def RoundR.readStaging (pl : PlayerF) (rr : RoundR) (p : Nat) : Except Panic (RoundR × Staged) :=
  match rr.atPeriod pl p 0 (fun pr => .ok (pr, pr.ptracker.staging)) with
  | .error e => .error e
  | .ok (rr, v) => .ok (rr, ⟨v, (rr.store.asm v).payload⟩)

/-- `stagedValue(p, r, p.Round, p.Period)` called by the store itself: `r` is the handle of THIS round router -/
def RoundR.stagedSelf (pl : PlayerF) (rr : RoundR) : Except Panic (RoundR × Staged) :=
  (rr.upd pl pl.period).readStaging pl pl.period

/-- voteVerified (proposal-vote) at the store -/
def RoundR.pvoteVerified (pl : PlayerF) (rr : RoundR) (v : PVote) : Except Panic (RoundR × PVRes) :=
  match rr.atPeriod pl v.period 0 (fun pr => pr.pvoteVerified v) with
  | .error e => .error e
  | .ok (rr, .filtered b) => .ok (rr, .filtered b)
  | .ok (rr, .accepted val _) =>
    let ea := rr.store.asm val
    let ea' := { ea with auths := ea.auths ++ [v] }
    let st := { rr.store with assemblers := aset rr.store.assemblers val ea', relevant := aset rr.store.relevant v.period val }
    .ok ({ rr with store := st.trim pl.period }, .accepted val ea'.payload)

/-- result of a payload event at the store / manager -/
inductive PayRes
  | rejected
  | malformed
  | pipelined (round period : Nat) (pinned : Bool) (value : Nat) (payload : Payload) (vote : Option PVote)
  | accepted (vote : Option PVote) (value : Nat)
  | committable (value : Nat) (vote : Option PVote)
deriving DecidableEq, Repr, Inhabited

/-- payloadPresent at the store -/
def RoundR.payloadPresent (pl : PlayerF) (rr : RoundR) (up : Payload) : RoundR × PayRes :=
  match aget rr.store.assemblers up.value with
  | none => (rr, .rejected)
  | some ea =>
    if ea.payload.isSome then (rr, .rejected)
    else if ea.pipeline.isSome then (rr, .rejected)
    else
      let st := { rr.store with assemblers := aset rr.store.assemblers up.value { ea with pipeline := some up } }
      let lr := st.lastRelevant up.value
      ({ rr with store := st }, .pipelined 0 lr.1 lr.2 up.value up (ea.authenticator pl.period))

/-- payloadVerified at the store -/
def RoundR.payloadVerified (pl : PlayerF) (rr : RoundR) (pp : Payload) : Except Panic (RoundR × PayRes) :=
  match aget rr.store.assemblers pp.value with
  | none => .ok (rr, .rejected)
  | some ea =>
    if ea.payload.isSome then .ok (rr, .rejected)
    else
      let st := { rr.store with assemblers := aset rr.store.assemblers pp.value { ea with payload := some pp } }
      match RoundR.stagedSelf pl { rr with store := st } with
      | .error e => .error e
      | .ok (rr, a) =>
        let auth := ea.authenticator pl.period
        if a.proposal = pp.value then .ok (rr, .committable pp.value auth)
        else .ok (rr, .accepted auth pp.value)

/-- newPeriod at the store -/
def RoundR.newPeriod (pl : PlayerF) (rr : RoundR) (target starting : Nat) : Except Panic (RoundR × Unit) :=
  match RoundR.stagedSelf pl rr with
  | .error e => .error e
  | .ok (rr, staged) =>
    let pinned := if starting ≠ 0 then starting else if staged.proposal ≠ 0 then staged.proposal else rr.store.pinned
    let st := { rr.store with pinned := pinned, relevant := rr.store.relevant.filter (fun kv => decide (kv.1 + 1 ≥ target)) }
    .ok ({ rr with store := st.trim pl.period }, ())

/-- newRound at the store -/
def RoundR.newRound (pl : PlayerF) (rr : RoundR) : Except Panic (RoundR × PayRes) :=
  match rr.store.assemblers with
  | [] => .ok (rr, .rejected)
  | [(pv, ea)] =>
    match ea.pipeline with
    | some up =>
      let lr := rr.store.lastRelevant pv
      .ok (rr, .pipelined 0 lr.1 lr.2 pv up (ea.authenticator pl.period))
    | none => .ok (rr, .rejected)
  | _ :: _ :: _ => .error .tooManyAssemblers

/-- softThreshold / certThreshold at the store: `some (value, vote)` = proposalCommittable, `none` = proposalAccepted -/
def RoundR.threshold (pl : PlayerF) (rr : RoundR) (e : Thresh) : Except Panic (RoundR × Option (Nat × Option PVote)) :=
  match rr.atPeriod pl e.period 0 (fun pr => pr.stage e.kind e.proposal) with
  | .error err => .error err
  | .ok (rr, ()) =>
    let ea := rr.store.asm e.proposal
    -- `store.Relevant[te.Period] = e.Proposal` precedes the `Assembled` test (repo commit b6f661fbce): the staged value
    -- stays relevant for its period also when its payload is already here
    if ea.payload.isSome then
      .ok ({ rr with store := { rr.store with relevant := aset rr.store.relevant e.period e.proposal } },
           some (e.proposal, ea.authenticator pl.period))
    else
      let st := { rr.store with assemblers := aset rr.store.assemblers e.proposal ea,
                                relevant := aset rr.store.relevant e.period e.proposal }
      .ok ({ rr with store := st.trim pl.period }, none)

/-- the next-threshold cache of `voteTrackerPeriod` after a nextThreshold event for `proposal` -/
def NextStatus.cache (c : NextStatus) (proposal : Nat) : NextStatus :=
  if proposal = 0 then { c with bottom := true } else { c with proposal := proposal }

/-- voteAccepted at `voteTrackerPeriod`: forward to the step machine; a threshold event of a step ≥ next is dispatched to
itself (voteMachinePeriod, …, 0: `periodRouter.update(0)`) and cached -/
def PeriodR.voteAccepted (P : Params) (pr : PeriodR) (r p s : Nat) (x : VoteTracker.Vote) : Except Panic (PeriodR × Thresh) :=
  match pr.atStep s (fun sr => sr.accept P r p s x) with
  | .error e => .error e
  | .ok (pr, ev) =>
    if ev.kind ≠ 0 ∧ ev.step ≥ 3 then .ok ({ pr.upd 0 with cached := (pr.upd 0).cached.cache ev.proposal }, ev)
    else .ok (pr, ev)

/-- voteAccepted at `voteTrackerRound` of round router `r` (the whole chain down to the step machine and back) -/
def RoundR.voteAccepted (P : Params) (pl : PlayerF) (rr : RoundR) (r p s : Nat) (x : VoteTracker.Vote) :
    Except Panic (RoundR × Thresh) :=
  match rr.atPeriod pl p 0 (fun pr => pr.voteAccepted P r p s x) with
  | .error e => .error e
  | .ok (rr, ev) =>
    if ev.kind ≠ 0 then
      -- dispatch to self (voteMachineRound, round, 0, 0): roundRouter.update(state, 0)
      if fresherThan ev (rr.upd pl 0).freshest then .ok ({ rr.upd pl 0 with freshest := ev, ok := true }, ev)
      else .ok (rr.upd pl 0, {})
    else .ok (rr, {})

/-! ## player-level queries (all go through `rootRouter.dispatch`) -/

/-- `stagedValue(*p, r, round, period)` -/
def staged (P : Params) (σ : State) (r p : Nat) : Except Panic (State × Staged) :=
  match σ.root.atRound P σ.pl r p (fun rr => rr.readStaging σ.pl p) with
  | .error e => .error e
  | .ok (root, a) => .ok ({ σ with root := root }, a)

/-- `pinnedValue(*p, r, round)`: (Proposal, Payload / PayloadOK) -/
def pinned (P : Params) (σ : State) (r : Nat) : Except Panic (State × Staged) :=
  match σ.root.atRound P σ.pl r 0 (fun rr => .ok (rr, (⟨rr.store.pinned, (rr.store.asm rr.store.pinned).payload⟩ : Staged))) with
  | .error e => .error e
  | .ok (root, a) => .ok ({ σ with root := root }, a)

/-- freshestBundleRequest to (round, 0, 0) -/
def freshest (P : Params) (σ : State) (r : Nat) : Except Panic (State × Bool × Thresh) :=
  match σ.root.atRound P σ.pl r 0 (fun rr => .ok (rr, (rr.ok, rr.freshest))) with
  | .error e => .error e
  | .ok (root, a) => .ok ({ σ with root := root }, a)

/-- nextThresholdStatusRequest to (p.Round, p.Period − 1) -/
def nextStatus (P : Params) (σ : State) : Except Panic (State × NextStatus) :=
  let pp := predPeriod σ.pl.period
  match σ.root.atRound P σ.pl σ.pl.round pp (fun rr => rr.atPeriod σ.pl pp 0 (fun pr => .ok (pr, pr.cached))) with
  | .error e => .error e
  | .ok (root, a) => .ok ({ σ with root := root }, a)

/-- dumpVotesRequest to (p.Round, p.Period, s) -/
def dumpVotes (P : Params) (σ : State) (s : Nat) : Except Panic (State × List UVote) :=
  let r := σ.pl.round
  let p := σ.pl.period
  match σ.root.atRound P σ.pl r p (fun rr => rr.atPeriod σ.pl p s (fun pr => pr.atStep s (fun sr => .ok (sr, sr.dump r p s)))) with
  | .error e => .error e
  | .ok (root, a) => .ok ({ σ with root := root }, a)

/-- proposalFrozen to (p.Round, p.Period) -/
def freezeProposal (P : Params) (σ : State) : Except Panic (State × Nat) :=
  let p := σ.pl.period
  match σ.root.atRound P σ.pl σ.pl.round p (fun rr => rr.atPeriod σ.pl p 0 (fun pr => pr.freeze)) with
  | .error e => .error e
  | .ok (root, a) => .ok ({ σ with root := root }, a)

/-- the tree side effect of `player.updateCredentialArrivalHistory` (the arrival time itself is not modelled) -/
def credHistoryTouch (P : Params) (σ : State) : Except Panic State :=
  if σ.pl.period ≠ 0 then .ok σ
  else if σ.pl.round ≤ P.lag then .ok σ
  else
    let r := σ.pl.round - P.lag
    match σ.root.atRound P σ.pl r 0 (fun rr => rr.atPeriod σ.pl 0 0 (fun pr => .ok (pr, ()))) with
    | .error e => .error e
    | .ok (root, ()) => .ok { σ with root := root }

/-! ## proposalManager (root level; every call starts with `rootRouter.update(state, 0)` and the contract) -/

/-- `proposalManager.handleNewPeriod` -/
def pmNewPeriod (P : Params) (σ : State) (e : Thresh) : Except Panic State :=
  let target := if e.kind = 3 then e.period + 1 else e.period
  match σ.root.atRound P σ.pl e.round 0 (fun rr => rr.newPeriod σ.pl target e.proposal) with
  | .error err => .error err
  | .ok (root, ()) => .ok { σ with root := root }

/-- a threshold event dispatched to the proposalMachine with routing round `rt` (the player passes 0 for a
certThreshold and `p.Round` otherwise; it only decides which child `rootRouter.update` creates): `some` = proposalCommittable -/
def pmThreshold (P : Params) (σ : State) (rt : Nat) (e : Thresh) : Except Panic (State × Option (Nat × Option PVote)) :=
  let σ := { σ with root := σ.root.upd P σ.pl rt }
  -- proposalManagerContract.pre
  if σ.pl.round ≠ e.round then .error (.contract 1)
  else if e.kind ≠ 2 ∧ σ.pl.period > e.period then .error (.contract 1)
  else if e.kind = 1 ∧ e.proposal = 0 then .error (.contract 1)
  else if e.kind = 3 then
    match pmNewPeriod P σ e with
    | .error err => .error err
    | .ok σ => .ok (σ, none)
  else
    let σ₁ := if σ.pl.period < e.period then pmNewPeriod P σ e else .ok σ
    match σ₁ with
    | .error err => .error err
    | .ok σ =>
      match σ.root.atRound P σ.pl e.round e.period (fun rr => rr.threshold σ.pl e) with
      | .error err => .error err
      | .ok (root, c) => .ok ({ σ with root := root }, c)

/-- roundInterruption dispatched to the proposalMachine (`handleNewRound`) -/
def pmNewRound (P : Params) (σ : State) (target : Nat) : Except Panic (State × PayRes) :=
  let σ := { σ with root := σ.root.upd P σ.pl target }
  match σ.root.atRound P σ.pl target 0 (fun rr => rr.newRound σ.pl) with
  | .error e => .error e
  | .ok (root, a) => .ok ({ σ with root := root }, a)

/-- result of a proposal-vote event at the proposalMachine -/
inductive PMVote
  | empty
  | malformed
  /-- LateCredentialTrackingNote: 0 none, 1 unverified, 2 verifiedBetter -/
  | filtered (note : Nat)
  | accepted (payload : Option Payload)
deriving DecidableEq, Repr, Inhabited

/-- voteVerified (proposal-vote) at the proposalManager -/
def pmVoteVerified (P : Params) (σ : State) (bad : Bad) (v : PVote) : Except Panic (State × PMVote) :=
  let σ := { σ with root := σ.root.upd P σ.pl 0 }
  if bad = 2 then .ok (σ, .filtered 0)
  else if bad = 1 then .ok (σ, .malformed)
  else
    let fresh := proposalFresh σ.pl v.round v.period
    let keep := !fresh && usefulForCredHistory P σ.pl.round v.round v.period
    if !fresh && !keep then .ok (σ, .filtered 0)
    else
      match σ.root.atRound P σ.pl v.round v.period (fun rr => rr.pvoteVerified σ.pl v) with
      | .error e => .error e
      | .ok (root, res) =>
        let σ := { σ with root := root }
        if keep then
          match res with
          | .filtered b => .ok (σ, .filtered (if b then 2 else 0))
          | .accepted _ _ => .ok (σ, .filtered 2)
        else
          match res with
          | .filtered b => .ok (σ, .filtered (if b then 2 else 0))
          | .accepted _ pl => .ok (σ, .accepted pl)

/-- votePresent (proposal-vote) at the proposalManager: `filterProposalVote` -/
def pmVotePresent (P : Params) (σ : State) (v : PVote) : Except Panic (State × PMVote) :=
  let σ := { σ with root := σ.root.upd P σ.pl 0 }
  let credHistory := usefulForCredHistory P σ.pl.round v.round v.period
  let checkDup (σ : State) : Except Panic (State × Bool) :=
    match σ.root.atRound P σ.pl v.round v.period (fun rr => rr.atPeriod σ.pl v.period 0 (fun pr => .ok (pr, pr.pvoteDup v.sender))) with
    | .error e => .error e
    | .ok (root, d) => .ok ({ σ with root := root }, d)
  if !proposalFresh σ.pl v.round v.period then
    if credHistory then
      match checkDup σ with
      | .error e => .error e
      | .ok (σ, dup) => .ok (σ, .filtered (if dup then 0 else 1))
    else .ok (σ, .filtered 0)
  else
    match checkDup σ with
    | .error e => .error e
    | .ok (σ, dup) => if dup then .ok (σ, .filtered 0) else .ok (σ, .empty)

/-- payloadPresent / payloadVerified at the proposalManager -/
def pmPayload (P : Params) (σ : State) (verified : Bool) (bad : Bad) (p : Payload) : Except Panic (State × PayRes) :=
  let σ := { σ with root := σ.root.upd P σ.pl 0 }
  if !verified then
    if σ.pl.round = p.round then
      match σ.root.atRound P σ.pl σ.pl.round σ.pl.period (fun rr => .ok (rr.payloadPresent σ.pl p)) with
      | .error e => .error e
      | .ok (root, res) =>
        let σ := { σ with root := root }
        match res with
        | .pipelined _ per pin v up vote => .ok (σ, .pipelined σ.pl.round per pin v up vote)
        | other => .ok (σ, other)
    else
      match σ.root.atRound P σ.pl (σ.pl.round + 1) 0 (fun rr => .ok (rr.payloadPresent σ.pl p)) with
      | .error e => .error e
      | .ok (root, res) =>
        let σ := { σ with root := root }
        match res with
        | .pipelined _ per pin v up vote => .ok (σ, .pipelined (σ.pl.round + 1) per pin v up vote)
        | other => .ok (σ, other)
  else if bad = 2 then .ok (σ, .rejected)
  else if bad = 1 then .ok (σ, .malformed)
  else
    match σ.root.atRound P σ.pl σ.pl.round σ.pl.period (fun rr => rr.payloadVerified σ.pl p) with
    | .error e => .error e
    | .ok (root, res) => .ok ({ σ with root := root }, res)

/-! ## voteAggregator (root level) -/

/-- `filterVote`: freshness, then voteFilterRequest to the step machine; true = passes -/
def vaFilterVote (P : Params) (σ : State) (r p s : Nat) (x : VoteTracker.Vote) : Except Panic (State × Bool) :=
  if !voteFresh σ.pl r p s then .ok (σ, false)
  else
    match σ.root.atRound P σ.pl r p (fun rr => rr.atPeriod σ.pl p s (fun pr => pr.atStep s (fun sr => .ok (sr, sr.filter x.sender x.value)))) with
    | .error e => .error e
    | .ok (root, filtered) => .ok ({ σ with root := root }, !filtered)

/-- voteAccepted dispatched to voteMachineRound (r, p, s) -/
def deliverVote (P : Params) (σ : State) (r p s : Nat) (x : VoteTracker.Vote) : Except Panic (State × Thresh) :=
  match σ.root.atRound P σ.pl r p (fun rr => rr.voteAccepted P σ.pl r p s x) with
  | .error e => .error e
  | .ok (root, ev) => .ok ({ σ with root := root }, ev)

/-- result of a vote / bundle event at the voteMachine -/
inductive VARes
  | empty
  | malformed
  | filtered
  | threshold (e : Thresh)
deriving DecidableEq, Repr, Inhabited

/-- votePresent / voteVerified of a voting step at the voteAggregator -/
def vaVote (P : Params) (σ : State) (verified : Bool) (bad : Bad) (r p s : Nat) (x : VoteTracker.Vote) :
    Except Panic (State × VARes) :=
  let σ := { σ with root := σ.root.upd P σ.pl 0 }
  if !verified then
    if bad = 3 then .ok (σ, .filtered)
    else
      match vaFilterVote P σ r p s x with
      | .error e => .error e
      | .ok (σ, pass) => .ok (σ, if pass then .empty else .filtered)
  else if bad = 2 then .ok (σ, .filtered)
  else if bad = 3 then .ok (σ, .filtered)
  else if bad = 1 then .ok (σ, .malformed)
  else
    match vaFilterVote P σ r p s x with
    | .error e => .error e
    | .ok (σ, false) => .ok (σ, .filtered)
    | .ok (σ, true) =>
      match deliverVote P σ r p s x with
      | .error e => .error e
      | .ok (σ, ev) =>
        if ev.kind = 0 then .ok (σ, .empty)
        else if ev.round = σ.pl.round then .ok (σ, .threshold ev)
        else if ev.round = σ.pl.round + 1 then .ok (σ, .empty)
        else .error .badRound

/-- the loop of bundleVerified: every vote is delivered, the LAST threshold event is kept -/
def deliverAll (P : Params) (r p s : Nat) : State → List VoteTracker.Vote → Thresh → Except Panic (State × Thresh)
  | σ, [], acc => .ok (σ, acc)
  | σ, x :: rest, acc =>
    match deliverVote P σ r p s x with
    | .error e => .error e
    | .ok (σ, ev) => deliverAll P r p s σ rest (if ev.kind ≠ 0 then ev else acc)

/-- the vote list of a verified bundle: plain votes, then both votes of every equivocation pair -/
def bundleVotes (value : Nat) (votes : List (Nat × Nat)) (eqs : List VoteTracker.EqVote) : List VoteTracker.Vote :=
  votes.map (fun sw => ⟨sw.1, sw.2, value⟩) ++ eqs.flatMap (fun e => [⟨e.sender, e.weight, e.p0⟩, ⟨e.sender, e.weight, e.p1⟩])

/-- bundlePresent / bundleVerified at the voteAggregator -/
def vaBundle (P : Params) (σ : State) (verified : Bool) (bad : Bad) (r p s value : Nat) (votes : List (Nat × Nat))
    (eqs : List VoteTracker.EqVote) : Except Panic (State × VARes) :=
  let σ := { σ with root := σ.root.upd P σ.pl 0 }
  if !verified then .ok (σ, if bundleFresh σ.pl r p s then .empty else .filtered)
  else if bad = 2 then .ok (σ, .filtered)
  else if bad = 3 then .ok (σ, .filtered)
  else if bad = 1 then .ok (σ, .malformed)
  else if !bundleFresh σ.pl r p s then .ok (σ, .filtered)
  else
    match deliverAll P r p s σ (bundleVotes value votes eqs) {} with
    | .error e => .error e
    | .ok (σ, ev) => if ev.kind ≠ 0 then .ok (σ, .threshold ev) else .ok (σ, .filtered)

/-! ## player -/

/-- `player.partitionPolicy` -/
def partitionPolicy (P : Params) (σ : State) : Except Panic (State × List Action) :=
  if !(decide (σ.pl.step ≥ partitionStep) || decide (σ.pl.period ≥ 3)) then .ok (σ, [])
  else
    match freshest P σ σ.pl.round with
    | .error e => .error e
    | .ok (σ, ok, fr) =>
      let a0 : List Action := if ok then [.broadcastBundle fr.cert] else []
      let useBundle := ok && decide (fr.bundle.proposal ≠ 0)
      if useBundle || decide (σ.pl.period = 0) then
        let br := if useBundle then fr.round else σ.pl.round
        let bp := if useBundle then fr.period else σ.pl.period
        match staged P σ br bp with
        | .error e => .error e
        | .ok (σ, st) =>
          match st.payload with
          | some pay => .ok (σ, a0 ++ [.broadcastCompound pay none])
          | none =>
            match pinned P σ br with
            | .error e => .error e
            | .ok (σ, pin) =>
              match pin.payload with
              | some pay => .ok (σ, a0 ++ [.broadcastCompound pay none])
              | none => .ok (σ, a0)
      else .ok (σ, a0)

/-- `player.issueSoftVote` (including the deferred Deadline assignment) -/
def issueSoftVote (P : Params) (σ : State) (deadline : Nat) : Except Panic (State × List Action) :=
  match freezeProposal P σ with
  | .error e => .error e
  | .ok (σ, frozen) =>
    match nextStatus P σ with
    | .error e => .error e
    | .ok (σ, ns) =>
      let σ' : State := { σ with pl := { σ.pl with deadlineDur := deadline, deadlineKind := 0 } }
      let r := σ.pl.round
      let p := σ.pl.period
      if p > 0 ∧ ns.bottom = false ∧ ns.proposal ≠ 0 then .ok (σ', [.attest r p 1 ns.proposal])
      else if frozen = 0 then .ok (σ', [])
      else if p > origPeriod frozen then
        if ns.proposal ≠ 0 ∧ ns.proposal = frozen then .ok (σ', [.attest r p 1 frozen]) else .ok (σ', [])
      else .ok (σ', [.attest r p 1 frozen])

/-- `player.issueNextVote` -/
def issueNextVote (P : Params) (σ : State) (deadline : Nat) : Except Panic (State × List Action) :=
  match partitionPolicy P σ with
  | .error e => .error e
  | .ok (σ, acts) =>
    match staged P σ σ.pl.round σ.pl.period with
    | .error e => .error e
    | .ok (σ, ans) =>
      let fin (σ : State) (v : Nat) : State × List Action :=
        let up := (nextVoteRanges P σ.pl.step deadline).2
        ({ σ with pl := { σ.pl with napping := false, deadlineDur := up, deadlineKind := 0 } },
         acts ++ [.attest σ.pl.round σ.pl.period σ.pl.step v])
      if ans.payload.isSome then .ok (fin σ ans.proposal)
      else
        match nextStatus P σ with
        | .error e => .error e
        | .ok (σ, ns) => .ok (fin σ (if ns.bottom then 0 else ns.proposal))

/-- the tail of `player.issueFastVote`: a fast-recovery vote gives up the earlier steps of the period (no cert vote may
follow a redo/down vote, no soft vote a late vote), then the attest action -/
def fastFinish (σ : State) (acts : List Action) (aStep v : Nat) : State × List Action :=
  let pl := σ.pl
  let pl' :=
    if aStep ≠ sLate ∧ pl.step ≤ 2 then { pl with step := 3 }
    else if aStep = sLate ∧ pl.step < 2 then { pl with step := 2 }
    else pl
  ({ σ with pl := pl' }, acts ++ [.attest pl.round pl.period aStep v])

/-- `player.issueFastVote` -/
def issueFastVote (P : Params) (σ : State) : Except Panic (State × List Action) :=
  match partitionPolicy P σ with
  | .error e => .error e
  | .ok (σ, acts) =>
    match dumpVotes P σ sLate with
    | .error e => .error e
    | .ok (σ, elate) =>
      match dumpVotes P σ sRedo with
      | .error e => .error e
      | .ok (σ, eredo) =>
        match dumpVotes P σ sDown with
        | .error e => .error e
        | .ok (σ, edown) =>
          let acts := acts ++ [.broadcastVotes (elate ++ (eredo ++ edown))]
          match staged P σ σ.pl.round σ.pl.period with
          | .error e => .error e
          | .ok (σ, ans) =>
            if ans.payload.isSome then
              .ok (if ans.proposal = 0 then fastFinish σ acts sDown 0 else fastFinish σ acts sLate ans.proposal)
            else
              match nextStatus P σ with
              | .error e => .error e
              | .ok (σ, ns) =>
                if ns.bottom then .ok (fastFinish σ acts sDown 0)
                else if ns.proposal = 0 then .ok (fastFinish σ acts sDown 0)
                else .ok (fastFinish σ acts sRedo ns.proposal)

/-- `player.enterPeriod` -/
def enterPeriod (P : Params) (σ : State) (src : Thresh) (target : Nat) : Except Panic (State × List Action) :=
  match partitionPolicy P σ with
  | .error e => .error e
  | .ok (σ, acts) =>
    match pmThreshold P σ σ.pl.round src with
    | .error e => .error e
    | .ok (σ, c) =>
      let pl := { σ.pl with lastConcluding := σ.pl.step, period := target, step := 1, napping := false,
                            fastRecoveryDeadline := 0, deadlineDur := filterTimeout P target, deadlineKind := 2 }
      let σ := { σ with pl := pl }
      let acts := acts ++ [.rezero pl.round]
      match c with
      | some (v, _) => .ok (σ, acts ++ [.attest pl.round pl.period 2 v])
      | none =>
        if src.kind = 3 then
          if src.proposal = 0 then .ok (σ, acts ++ [.assemble pl.round pl.period])
          else .ok (σ, acts ++ [.repropose pl.round pl.period src.proposal])
        else .ok (σ, acts)

/-- `player.enterRound`; `renew` = the source is a certThreshold or a payloadVerified (then the proposalMachine gets an
explicit roundInterruption for `target`; a real roundInterruption source is passed on as it is — same thing here);
`k` handles the pipelined freshest threshold event (`p.handle(r, freshestRes.Event)`) -/
def enterRoundK (P : Params) (k : State → Thresh → Except Panic (State × List Action)) (σ : State) (target : Nat) :
    Except Panic (State × List Action) :=
  match pmNewRound P σ target with
  | .error e => .error e
  | .ok (σ, e) =>
    let pl := { σ.pl with lastConcluding := σ.pl.step, round := target, period := 0, step := 1, napping := false,
                          fastRecoveryDeadline := 0, deadlineDur := filterTimeout P 0, deadlineKind := 2 }
    let σ := { σ with pl := pl }
    let acts : List Action := [.rezero target, .assemble target 0]
    let acts := match e with
      | .pipelined _ per pin _ up _ => acts ++ [.verifyPayload target per pin up]
      | _ => acts
    match freshest P σ target with
    | .error err => .error err
    | .ok (σ, ok, fr) =>
      if ok then
        match k σ fr with
        | .error err => .error err
        | .ok (σ, a4) => .ok (σ, acts ++ a4)
      else .ok (σ, acts)

/-- `player.handleThresholdEvent` (and `player.handle` on an event of type none); `fuel` bounds the nesting
threshold → enterRound → pipelined threshold → … -/
def handleThresh (P : Params) : Nat → State → Thresh → Except Panic (State × List Action)
  | 0, _, _ => .error .depth
  | fuel+1, σ, e =>
    if e.kind = 0 then .ok (σ, [])
    else if e.kind = 2 then
      match pmThreshold P σ 0 e with
      | .error err => .error err
      | .ok (σ, _) =>
        match staged P σ e.round e.period with
        | .error err => .error err
        | .ok (σ, res) =>
          match res.payload with
          | some pay =>
            match credHistoryTouch P σ with
            | .error err => .error err
            | .ok σ =>
              match enterRoundK P (handleThresh P fuel) σ (σ.pl.round + 1) with
              | .error err => .error err
              | .ok (σ, as) => .ok (σ, .ensure pay e.cert :: as)
          | none =>
            if σ.pl.period < e.period then
              match enterPeriod P σ e e.period with
              | .error err => .error err
              | .ok (σ, as) => .ok (σ, .stageDigest e.cert :: as)
            else .ok (σ, [.stageDigest e.cert])
    else if e.kind = 1 then
      if σ.pl.period > e.period then .ok (σ, [])
      else if σ.pl.period < e.period then enterPeriod P σ e e.period
      else
        match pmThreshold P σ σ.pl.round e with
        | .error err => .error err
        | .ok (σ, c) =>
          match c with
          | some (v, _) => if σ.pl.step ≤ 2 then .ok (σ, [.attest σ.pl.round σ.pl.period 2 v]) else .ok (σ, [])
          | none => .ok (σ, [])
    else
      if σ.pl.period > e.period then .ok (σ, [])
      else enterPeriod P σ e (e.period + 1)

/-- payloadMalformed / payloadRejected -/
def PayRes.isDrop : PayRes → Bool
  | .malformed => true
  | .rejected => true
  | _ => false

/-- proposalCommittable / payloadAccepted: a validated payload was stored (the late-payload check applies) -/
def PayRes.isLate : PayRes → Bool
  | .committable _ _ => true
  | .accepted _ _ => true
  | _ => false

/-- the proposal-vote that authenticated the payload, if the store knew one -/
def PayRes.auth : PayRes → Option PVote
  | .pipelined _ _ _ _ _ vote => vote
  | .accepted vote _ => vote
  | .committable _ vote => vote
  | _ => none

/-- payloadPipelined: `some ret` = the early return `[verifyPayload, relay]` (pipelined for the current round),
otherwise the relay action collected so far -/
def payloadPre (round : Nat) (p : Payload) : PayRes → Option (List Action) × List Action
  | .pipelined r per pin _ _ vote =>
    if r = round then (some [.verifyPayload r per pin p, .relayCompound p vote], [])
    else (none, [.relayCompound p vote])
  | _ => (none, [])

/-- the actions before the late-payload check: the pipelined relay and "relay as the proposer" -/
def payloadActs (round : Nat) (p : Payload) (own : Bool) (ef : PayRes) : List Action :=
  if own then (payloadPre round p ef).2 ++ [.relayCompound p ef.auth] else (payloadPre round p ef).2

/-- the tail of the payload branch: cert-vote a committable proposal while `Step ≤ cert` -/
def payloadCont (σ : State) (ef : PayRes) (acts : List Action) : State × List Action :=
  match ef with
  | .committable v _ => if σ.pl.step ≤ 2 then (σ, acts ++ [.attest σ.pl.round σ.pl.period 2 v]) else (σ, acts)
  | _ => (σ, acts)

/-- the payloadPresent / payloadVerified branch of `player.handleMessageEvent` -/
def handlePayload (P : Params) (fuel : Nat) (σ : State) (verified : Bool) (bad : Bad) (p : Payload) (own : Bool) :
    Except Panic (State × List Action) :=
  match pmPayload P σ verified bad p with
  | .error e => .error e
  | .ok (σ, ef) =>
    if ef.isDrop then .ok (σ, [.ignore])
    else
      match (payloadPre σ.pl.round p ef).1 with
      | some ret => .ok (σ, ret)
      | none =>
        let acts := payloadActs σ.pl.round p own ef
        if ef.isLate then
          -- If the payload is valid, check it against any received cert threshold (late payload)
          match freshest P σ σ.pl.round with
          | .error e => .error e
          | .ok (σ', ok, fr) =>
            if ok && decide (fr.kind = 2) && decide (fr.proposal = p.value) then
              match credHistoryTouch P σ' with
              | .error e => .error e
              | .ok σ' =>
                match enterRoundK P (handleThresh P fuel) σ' (fr.cert.round + 1) with
                | .error e => .error e
                | .ok (σ', as) => .ok (σ', acts ++ (.ensure p fr.cert :: as))
            else .ok (payloadCont σ' ef acts)
        else .ok (payloadCont σ ef acts)

/-- `proposalTable.push` -/
def pendingPush (pl : PlayerF) (tail : Option Payload) : PlayerF × Nat :=
  let n := pl.pendingNext + 1
  ({ pl with pendingNext := n, pending := aset pl.pending n tail }, n)

/-- `proposalTable.pop` -/
def pendingPop (pl : PlayerF) (idx : Nat) : PlayerF × Option Payload :=
  ({ pl with pending := adel pl.pending idx }, (aget pl.pending idx).join)

/-- the deferred function of the proposal-vote branch: pop `Pending[TaskIndex]` (voteVerified) or take `e.Tail`
(votePresent), and — unless the vote was queued for verification (`done = false`) — handle the tail as a payloadPresent -/
def pvoteFinish (P : Params) (fuel : Nat) (verified : Bool) (taskIndex : Nat) (tail : Option Payload)
    (σ : State) (acts : List Action) (done : Bool) : Except Panic (State × List Action) :=
  let pt := if verified then pendingPop σ.pl taskIndex else (σ.pl, tail)
  let σ := { σ with pl := pt.1 }
  match pt.2 with
  | none => .ok (σ, acts)
  | some pay =>
    if !done then .ok (σ, acts)
    else
      match handlePayload P fuel σ false 0 pay false with
      | .error e => .error e
      | .ok (σ, suffix) => .ok (σ, acts ++ suffix)

/-- the proposal-vote was not filtered away: votePresent ⇒ queue the tail and ask for verification;
voteVerified ⇒ relay (with the payload if the store already holds it) -/
def pvoteGo (P : Params) (fuel : Nat) (verified : Bool) (v : PVote) (taskIndex : Nat) (tail : Option Payload)
    (ef : PMVote) (σ : State) : Except Panic (State × List Action) :=
  if !verified then
    let ps := pendingPush σ.pl tail
    pvoteFinish P fuel verified taskIndex tail { σ with pl := ps.1 } [.verifyVote v.round v.period ps.2] false
  else
    match ef with
    | .accepted (some pay) => pvoteFinish P fuel verified taskIndex tail σ [.broadcastCompound pay (some v)] true
    | .accepted none => pvoteFinish P fuel verified taskIndex tail σ [.relayVote ⟨v.round, v.period, 0, v.sender, v.value⟩] true
    | _ => .error .badCast

/-- the proposal-vote branch of `player.handleMessageEvent`, with its deferred tail processing -/
def handlePVote (P : Params) (fuel : Nat) (σ : State) (verified : Bool) (bad : Bad) (v : PVote) (taskIndex : Nat)
    (tail : Option Payload) : Except Panic (State × List Action) :=
  match (if verified then pmVoteVerified P σ bad v else pmVotePresent P σ v) with
  | .error e => .error e
  | .ok (σ, ef) =>
    match ef with
    | .malformed => pvoteFinish P fuel verified taskIndex tail σ [.disconnect] true
    | .filtered note =>
      if !P.dynFilter then pvoteFinish P fuel verified taskIndex tail σ [.ignore] true
      else if note = 2 then pvoteFinish P fuel verified taskIndex tail σ [.relayVote ⟨v.round, v.period, 0, v.sender, v.value⟩] true
      else if note = 0 then pvoteFinish P fuel verified taskIndex tail σ [.ignore] true
      else pvoteGo P fuel verified v taskIndex tail ef σ
    | _ => pvoteGo P fuel verified v taskIndex tail ef σ

/-- fuel for the nesting of round changes inside one top-level event -/
def defaultFuel : Nat := 6

/-- `player.handle` (through `rootRouter.submitTop`: `router.update(state, 0, true)` first) -/
def handle (P : Params) (σ : State) (ev : Event) : Except Panic (State × List Action) :=
  let σ := { σ with root := σ.root.upd P σ.pl 0 }
  match ev with
  | .vote verified bad r p s x =>
    match vaVote P σ verified bad r p s x with
    | .error e => .error e
    | .ok (σ, ef) =>
      match ef with
      | .malformed => .ok (σ, [.disconnect])
      | .filtered => .ok (σ, [.ignore])
      | .empty => if !verified then .ok (σ, [.verifyVote r p 0]) else .ok (σ, [.relayVote ⟨r, p, s, x.sender, x.value⟩])
      | .threshold th =>
        if !verified then .ok (σ, [.verifyVote r p 0])
        else
          match handleThresh P defaultFuel σ th with
          | .error e => .error e
          | .ok (σ, a1) => .ok (σ, .relayVote ⟨r, p, s, x.sender, x.value⟩ :: a1)
  | .pvote verified bad v taskIndex tail => handlePVote P defaultFuel σ verified bad v taskIndex tail
  | .payload verified bad p own => handlePayload P defaultFuel σ verified bad p own
  | .bundle verified bad r p s value votes eqs =>
    match vaBundle P σ verified bad r p s value votes eqs with
    | .error e => .error e
    | .ok (σ, ef) =>
      match ef with
      | .malformed => .ok (σ, [.disconnect])
      | .filtered => .ok (σ, [.ignore])
      | .empty => .ok (σ, [.verifyBundle r p s])
      | .threshold th =>
        match handleThresh P defaultFuel σ th with
        | .error e => .error e
        | .ok (σ, a1) => .ok (σ, .relayBundle th.cert :: a1)
  | .timeout entropy =>
    let dt := deadlineTimeout P σ.pl.period
    if σ.pl.step = 1 then
      match issueSoftVote P σ dt with
      | .error e => .error e
      | .ok (σ, acts) => .ok ({ σ with pl := { σ.pl with step := 2 } }, acts)
    else if σ.pl.step = 2 then issueNextVote P { σ with pl := { σ.pl with step := 3 } } dt
    else if σ.pl.napping then issueNextVote P σ dt
    else
      let s := σ.pl.step + 1
      let (lower, upper) := nextVoteRanges P s dt
      let delta := entropy % (upper - lower)
      .ok ({ σ with pl := { σ.pl with step := s, napping := true, deadlineDur := lower + delta, deadlineKind := 0 } }, [])
  | .fastTimeout entropy =>
    let lam := P.lambdaF
    let k := (σ.pl.fastRecoveryDeadline + lam - 1) / lam
    let lower := k * lam
    let delta := entropy % lam
    if σ.pl.fastRecoveryDeadline = 0 then
      .ok ({ σ with pl := { σ.pl with fastRecoveryDeadline := lower + delta + lam } }, [])
    else issueFastVote P { σ with pl := { σ.pl with fastRecoveryDeadline := lower + delta } }
  | .roundInterruption r => enterRoundK P (handleThresh P defaultFuel) σ r
  | .checkpoint r p s err => .ok (σ, [.checkpoint r p s err])

/-- run an event list, collecting the actions of every event -/
def run (P : Params) : State → List Event → Except Panic (State × List (List Action))
  | σ, [] => .ok (σ, [])
  | σ, e :: rest =>
    match handle P σ e with
    | .error k => .error k
    | .ok (σ', as) =>
      match run P σ' rest with
      | .error k => .error k
      | .ok (σ'', ass) => .ok (σ'', as :: ass)

/-! ## persistence view (persistence.go: `encode` keeps rounds ≥ player.Round; only exported fields are serialised:
the single unexported piece of modelled state is `proposalSeeker.lowestIncludingLate / hasLowestIncludingLate`) -/

def PeriodR.persist (pr : PeriodR) : PeriodR :=
  { pr with ptracker := { pr.ptracker with freezer := { pr.ptracker.freezer with lowestLate := none } } }

def RoundR.persist (rr : RoundR) : RoundR :=
  { rr with periods := rr.periods.map (fun kv => (kv.1, kv.2.persist)) }

/-- the (player, router) part of what `decode (encode …)` yields -/
def persistView (σ : State) : State :=
  { pl := σ.pl
    root := { rounds := (σ.root.rounds.filter (fun kv => decide (kv.1 ≥ σ.pl.round))).map (fun kv => (kv.1, kv.2.persist)) } }

end AlgoVerif.Model.Player
