import AlgoVerif.Gen.CatchupMode
/-
Model of the block-catchup pipeline of go-algorand, `catchup/service.go`:
`pipelinedFetch` (a window of per-round goroutines) and `fetchAndWrite` (the per-round task), with the
fetcher-level round checks of `catchup/universalFetcher.go: processBlockBytes`.  Core Lean only (linked into `c30`).

The model is an ACCEPTOR over a global event trace.  One task per round `r` walks

  idle ─fetch→ fetching ─fetched (block.round = r ∧ cert.round = r)→ have p
                        ─fetched (other round) / fetcherr→ failed ─retry→ fetching
  have p  ─contents ok→ (contents done)      ─contents bad→ failed      [only when CatchupVerifyPaysetHash]
          ─auth ok→ (auth done)              ─auth bad→ failed          [only when CatchupVerifyCertificate;
                                                                        needs the lookback round r - lb released]
          ─wrote / dup→ finished                                        [needs the previous round released]

`retry` (the `continue // retry the fetch` of the Go loop) throws the whole attempt away: the next `have` state is
built only from the next `fetched` event.  The peers are adversarial: `fetched r p` may carry ANY response `p`
(any block id, any cert id, any claimed rounds, any ground truth `cm`/`au`) at any time; the scheduler is arbitrary:
events of different rounds interleave freely — the only couplings are the ledger round (`last`), the released
waiters (`notified`, i.e. the closed `ledger.WaitMem` channels that the Go code passes as `prevFetchCompleteChan` and
`lookbackComplete`) and the pipeline window.

The ledger is part of the environment: it appends round `r` only if `r = last + 1`; an `AddBlock` for `r ≤ last`
(the agreement service got there first, event `ext`) is reported as `dup`.
-/
namespace AlgoVerif.Model.Catchup

/-- block / certificate identities (the driver encodes the harness' id strings injectively) -/
abbrev Id := Nat

/-- what a peer answered: block id, cert id, the rounds they claim, and the ground truth about the pair -/
structure Resp where
  b : Id
  c : Id
  brnd : Nat
  crnd : Nat
  cm : Bool      -- the payset matches the header  (`block.ContentsMatchHeader()`)
  au : Bool      -- the certificate authenticates the block header (`auth.Authenticate(block, cert) == nil`)
  deriving DecidableEq, Repr

inductive Event where
  | fetch (r : Nat)                          -- first request of the task of round r reaches a peer
  | retry (r : Nat)                          -- a later request: the previous attempt was abandoned
  | fetched (r : Nat) (p : Resp)             -- a peer answered with a decodable (block, cert) pair
  | fetcherr (r : Nat)                       -- error answer / undecodable / cancelled
  | contents (r : Nat) (b : Id) (v : Bool)   -- ContentsMatchHeader evaluated on block b, verdict v
  | auth (r : Nat) (b c : Id) (v : Bool)     -- Authenticate(b, c) called, verdict v
  | wrote (r : Nat) (b c : Id)               -- AddBlock(b, c) appended round r
  | dup (r : Nat) (b c : Id)                 -- AddBlock(b, c) while the ledger already had round r
  | done (r : Nat)                           -- the ledger released the waiters of round r
  | ext (r : Nat)                            -- somebody else (agreement) appended round r
  deriving DecidableEq, Repr

inductive Task where
  | idle
  | fetching
  | failed
  | have (p : Resp) (cDone aDone : Bool)
  | finished
  deriving DecidableEq, Repr

/-- the parameters of one `pipelinedFetch` call -/
structure Cfg where
  lb : Nat       -- seedLookback
  win : Nat      -- max(CatchupParallelBlocks, seedLookback): the widest pipeline window
  vp : Bool      -- cfg.CatchupVerifyPaysetHash()
  vc : Bool      -- cfg.CatchupVerifyCertificate()
  deriving DecidableEq, Repr

structure St where
  last : Nat            -- ledger.LastRound()
  notified : Nat        -- WaitMem(r) is closed for every r ≤ notified
  task : Nat → Task

def setTask (f : Nat → Task) (r : Nat) (t : Task) : Nat → Task := fun x => if x = r then t else f x

def init (k : Nat) : St := { last := k, notified := k, task := fun _ => .idle }

/-! ### tie F: which check each `CatchupBlockValidateMode` value enables (table dumped from the current tree) -/

/-- column `g` of a row of `Gen.CatchupMode.modes`; column 4 = "not guarded by any mode predicate" -/
def gateVal (row : Nat × Bool × Bool × Bool × Bool) (g : Nat) : Option Bool :=
  match g with
  | 0 => some row.2.1
  | 1 => some row.2.2.1
  | 2 => some row.2.2.2.1
  | 3 => some row.2.2.2.2
  | 4 => some true
  | _ => none

def lookupMode (m : Nat) : List (Nat × Bool × Bool × Bool × Bool) → Option (Nat × Bool × Bool × Bool × Bool)
  | [] => none
  | row :: rest => if row.1 = m then some row else lookupMode m rest

/-- (verify payset, verify certificate) as `fetchAndWrite` of the current tree decides them for mode `m` -/
def flagsOf (m : Nat) : Option (Bool × Bool) :=
  match lookupMode m Gen.CatchupMode.modes with
  | none => none
  | some row =>
    match gateVal row Gen.CatchupMode.contentsGate, gateVal row Gen.CatchupMode.authGate with
    | some vp, some vc => some (vp, vc)
    | _, _ => none

def cfgOfMode (m lb par : Nat) : Option Cfg :=
  match flagsOf m with
  | none => none
  | some (vp, vc) => some { lb := lb, win := max par lb, vp := vp, vc := vc }

/-! ### the acceptor -/

def stepFetch (cfg : Cfg) (s : St) (r : Nat) : Except String St :=
  match s.task r with
  | .idle =>
    if r > s.last + cfg.win then .error "outside-window"
    else .ok { s with task := setTask s.task r .fetching }
  | _ => .error "fetch-twice"

def stepRetry (s : St) (r : Nat) : Except String St :=
  match s.task r with
  | .failed => .ok { s with task := setTask s.task r .fetching }
  | .have _ _ _ => .error "retry-dropping-a-pair"
  | _ => .error "retry-without-failure"

def stepFetched (s : St) (r : Nat) (p : Resp) : Except String St :=
  match s.task r with
  | .fetching =>
    if p.brnd = r ∧ p.crnd = r then .ok { s with task := setTask s.task r (.have p false false) }
    else .ok { s with task := setTask s.task r .failed }      -- processBlockBytes rejects the pair
  | _ => .error "answer-without-request"

def stepFetchErr (s : St) (r : Nat) : Except String St :=
  match s.task r with
  | .fetching => .ok { s with task := setTask s.task r .failed }
  | _ => .error "answer-without-request"

def stepContents (cfg : Cfg) (s : St) (r : Nat) (b : Id) (v : Bool) : Except String St :=
  match s.task r with
  | .have p false false =>
    if cfg.vp = false then .error "contents-check-in-skip-mode"
    else if p.b ≠ b then .error "contents-on-other-block"
    else if v ≠ p.cm then .error "contents-verdict-wrong"
    else if v then .ok { s with task := setTask s.task r (.have p true false) }
    else .ok { s with task := setTask s.task r .failed }
  | .have _ _ _ => .error "contents-checked-twice"
  | _ => .error "contents-without-pair"

def stepAuth (cfg : Cfg) (s : St) (r : Nat) (b c : Id) (v : Bool) : Except String St :=
  match s.task r with
  | .have p cD false =>
    if cfg.vc = false then .error "auth-in-skip-mode"
    else if cD ≠ cfg.vp then .error "auth-before-contents"
    else if p.b ≠ b ∨ p.c ≠ c then .error "auth-on-other-pair"
    else if r > s.notified + cfg.lb then .error "auth-before-lookback"
    else if v ≠ p.au then .error "auth-verdict-wrong"
    else if v then .ok { s with task := setTask s.task r (.have p cD true) }
    else .ok { s with task := setTask s.task r .failed }
  | .have _ _ true => .error "auth-twice"
  | .failed => .error "auth-after-failed-check"
  | _ => .error "auth-without-pair"

/-- the checks common to `wrote` and `dup`: the task holds exactly this pair and every enabled check passed on it -/
def writeReady (cfg : Cfg) (s : St) (r : Nat) (b c : Id) : Except String Unit :=
  match s.task r with
  | .have p cD aD =>
    if cD ≠ cfg.vp then .error "write-unchecked-contents"
    else if aD ≠ cfg.vc then .error "write-unauthenticated"
    else if p.b ≠ b ∨ p.c ≠ c then .error "write-stale-pair"
    else if r > s.notified + 1 then .error "write-before-prev-done"
    else .ok ()
  | .failed => .error "write-after-failed-check"
  | _ => .error "write-without-pair"

def stepWrote (cfg : Cfg) (s : St) (r : Nat) (b c : Id) : Except String St :=
  match writeReady cfg s r b c with
  | .error e => .error e
  | .ok () =>
    if r ≤ s.last then .error "env-ledger-already-has-round"
    else .ok { s with last := r, task := setTask s.task r .finished }

def stepDup (cfg : Cfg) (s : St) (r : Nat) (b c : Id) : Except String St :=
  match writeReady cfg s r b c with
  | .error e => .error e
  | .ok () =>
    if r > s.last then .error "env-dup-of-missing-round"
    else .ok { s with task := setTask s.task r .finished }

def stepDone (s : St) (r : Nat) : Except String St :=
  if r = s.last ∧ s.notified < r then .ok { s with notified := r } else .error "env-done-out-of-order"

def stepExt (s : St) (r : Nat) : Except String St :=
  if r = s.last + 1 ∧ s.notified = s.last then .ok { s with last := r } else .error "env-ext-out-of-order"

def step (cfg : Cfg) (s : St) : Event → Except String St
  | .fetch r => stepFetch cfg s r
  | .retry r => stepRetry s r
  | .fetched r p => stepFetched s r p
  | .fetcherr r => stepFetchErr s r
  | .contents r b v => stepContents cfg s r b v
  | .auth r b c v => stepAuth cfg s r b c v
  | .wrote r b c => stepWrote cfg s r b c
  | .dup r b c => stepDup cfg s r b c
  | .done r => stepDone s r
  | .ext r => stepExt s r

/-- a trace is accepted from `s` iff `run` does not err -/
def run (cfg : Cfg) : St → List Event → Except String St
  | s, [] => .ok s
  | s, e :: es =>
    match step cfg s e with
    | .ok s' => run cfg s' es
    | .error x => .error x

/-! ### observations on traces -/

/-- the rounds appended to the ledger, in trace order -/
def appended : List Event → List Nat
  | [] => []
  | .wrote r _ _ :: es => r :: appended es
  | .ext r :: es => r :: appended es
  | _ :: es => appended es

/-- how an event concerns the task of round `r`: `some true` = it starts a new attempt, `some false` = it belongs to
the current attempt, `none` = it is not an event of that task -/
def taskEvent (r : Nat) : Event → Option Bool
  | .fetch r' => if r' = r then some true else none
  | .retry r' => if r' = r then some true else none
  | .fetched r' _ => if r' = r then some false else none
  | .fetcherr r' => if r' = r then some false else none
  | .contents r' _ _ => if r' = r then some false else none
  | .auth r' _ _ _ => if r' = r then some false else none
  | .wrote r' _ _ => if r' = r then some false else none
  | .dup r' _ _ => if r' = r then some false else none
  | .done _ => none
  | .ext _ => none

def attemptStep (r : Nat) (acc : List Event) (e : Event) : List Event :=
  match taskEvent r e with
  | some true => []
  | some false => acc ++ [e]
  | none => acc

/-- the events of the task of round `r` since its latest `fetch`/`retry` -/
def attempt (r : Nat) (es : List Event) : List Event := es.foldl (attemptStep r) []

/-- what the current attempt of round `r` must look like when it holds pair `p` with the given checks done -/
def expected (r : Nat) (p : Resp) (cDone aDone : Bool) : List Event :=
  [Event.fetched r p] ++ (if cDone then [Event.contents r p.b true] else []) ++ (if aDone then [Event.auth r p.b p.c true] else [])

/-! ### the certificate path: `syncCert` / `fetchRound`

The agreement service holds a VERIFIED certificate `trusted` for round `r` but not the block.  `fetchRound` loops:
request the pair of round `r` from a peer; when the answer's block hashes to the digest in the trusted certificate
(`hm`) and its payset matches its header (`cm`) it calls `EnsureBlock(block, trusted)` and returns; otherwise it asks
again.  The peer's certificate is never authenticated on this path, so it must never be the one that is written. -/

structure CertResp where
  b : Id
  c : Id
  brnd : Nat
  crnd : Nat
  hm : Bool      -- block.Hash() == the digest of the trusted certificate
  cm : Bool      -- block.ContentsMatchHeader()
  deriving DecidableEq, Repr

inductive CEvent where
  | request                       -- a request for round r reaches a peer
  | answer (p : CertResp)         -- a decodable pair came back
  | err                           -- error / undecodable / cancelled
  | ensure (b c : Id)             -- EnsureBlock(b, c)
  deriving DecidableEq, Repr

inductive CTask where
  | ready
  | waiting
  | got (p : CertResp)
  | finished
  deriving DecidableEq, Repr

def cstep (r : Nat) (trusted : Id) (t : CTask) : CEvent → Except String CTask
  | .request =>
    match t with
    | .ready => .ok .waiting
    | .got p => if p.hm ∧ p.cm then .error "cert-retry-dropping-the-block" else .ok .waiting
    | _ => .error "cert-request-out-of-turn"
  | .answer p =>
    match t with
    | .waiting => if p.brnd = r ∧ p.crnd = r then .ok (.got p) else .ok .ready     -- processBlockBytes
    | _ => .error "answer-without-request"
  | .err =>
    match t with
    | .waiting => .ok .ready
    | _ => .error "answer-without-request"
  | .ensure b c =>
    match t with
    | .got p =>
      if p.hm = false then .error "ensure-wrong-hash"
      else if p.cm = false then .error "ensure-unchecked-contents"
      else if p.b ≠ b then .error "ensure-other-block"
      else if c ≠ trusted then .error "ensure-untrusted-cert"
      else .ok .finished
    | _ => .error "ensure-without-block"

def crun (r : Nat) (trusted : Id) : CTask → List CEvent → Except String CTask
  | t, [] => .ok t
  | t, e :: es =>
    match cstep r trusted t e with
    | .ok t' => crun r trusted t' es
    | .error x => .error x

end AlgoVerif.Model.Catchup
