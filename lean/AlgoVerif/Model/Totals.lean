/-
Model.Totals — executable model of the account-totals bookkeeping of go-algorand:
  ledger/ledgercore/totals.go   AlgoCount (applyRewards), AccountTotals (statusField, AddAccount, DelAccount, ApplyRewards,
                                All, Participating, RewardUnits)
  ledger/ledgercore/accountdata.go  AccountData.Money  (= basics.WithUpdatedRewards, first component)
  ledger/eval/cow.go            roundCowState.CalculateTotals (incl. the final "sum of money changed" check)
  ledger/acctupdates.go         roundTotals: one entry per served round (newBlock appends StateDelta.Totals, postCommit drops
                                the flushed prefix, commitRound persists roundTotals[offset], loadFromDisk + replay rebuild it),
                                Totals(rnd) / LatestTotals through roundOffset.
Core Lean only (linked into the `c12` driver).

The arithmetic is NOT re-written here: every addition / subtraction / multiplication is the go2lean translation of
data/basics/overflow.go (`Gen.Basics.OverflowTracker_*`, `OAddA`, `OAdd`, `MicroAlgos_RewardUnits`) and the rewards formula
is the translation of `basics.WithUpdatedRewards` (`Gen.Rewards.WithUpdatedRewards`), regenerated from the Go source on every
run (tie T).  What is hand-written is the plumbing of totals.go / CalculateTotals (the translator rejects `statusField`'s
pointer-to-field result, the promoted-field access of `ledgercore.AccountData` and drops updates made through a pointer
PARAMETER such as `ot *basics.OverflowTracker`); it is tied by correspondence (driver `c12`), and `All` / `Participating` /
`RewardUnits` are additionally proved equal to their translations `Gen.Totals.*` in Props/C12.

Panics of the Go code (`logging.Panicf`) are `none` / `TotErr.panic`: unknown status in `statusField`, overflow in
`WithUpdatedRewards`, overflow in `All` / `Participating` / `RewardUnits`.
-/
import AlgoVerif.Gen.Basics
import AlgoVerif.Gen.Rewards
namespace AlgoVerif.Model.Totals
open Gen.Basics

abbrev Addr := Nat

/-- `ledgercore.AlgoCount` -/
structure AlgoCount where
  money : Nat := 0
  rewardUnits : Nat := 0
deriving DecidableEq, Repr, Inhabited

/-- `ledgercore.AccountTotals` -/
structure AccountTotals where
  online : AlgoCount := {}
  offline : AlgoCount := {}
  notParticipating : AlgoCount := {}
  rewardsLevel : Nat := 0
deriving DecidableEq, Repr, Inhabited

/-- the fields of `ledgercore.AccountData` that the totals read: `Status` (Offline = 0, Online = 1, NotParticipating = 2,
anything else is the `Panicf` branch of `statusField`), `MicroAlgos`, `RewardsBase`.  (`RewardedMicroAlgos` is passed to
`WithUpdatedRewards` by the Go code but does not influence the money: theorem `Props.C12.money_indep_rewarded`.) -/
structure Acct where
  status : Nat := 0
  algos : Nat := 0
  base : Nat := 0
deriving DecidableEq, Repr, Inhabited

/-- `AccountData.Money(rewardUnit, rewardsLevel)` first result; `none` = the overflow `Panicf` of `WithUpdatedRewards` -/
def money (unit : Nat) (a : Acct) (level : Nat) : Option Nat :=
  match Gen.Rewards.WithUpdatedRewards unit a.status a.algos 0 a.base level with
  | none => none
  | some (m, _, _) => some m

/-- `(*AlgoCount).applyRewards` with the tracker threaded (results of the tracker calls are used through their projections:
`.1` the value, `.2` the tracker afterwards) -/
def AlgoCount.applyRewards (ac : AlgoCount) (rewardsPerUnit : Nat) (ot : Bool) : AlgoCount × Bool :=
  let r := OverflowTracker_Mul ot ac.rewardUnits rewardsPerUnit
  let m := OverflowTracker_AddA r.2 ac.money r.1
  ({ ac with money := m.1 }, m.2)

/-- `statusField` read; `none` = `Panicf("unknown status")` -/
def getField (t : AccountTotals) (status : Nat) : Option AlgoCount :=
  if status = 1 then some t.online
  else if status = 0 then some t.offline
  else if status = 2 then some t.notParticipating
  else none

/-- `statusField` write-through (only called with a status accepted by `getField`) -/
def setField (t : AccountTotals) (status : Nat) (c : AlgoCount) : AccountTotals :=
  if status = 1 then { t with online := c }
  else if status = 0 then { t with offline := c }
  else { t with notParticipating := c }

/-- `(*AccountTotals).AddAccount` -/
def addAccount (unit : Nat) (t : AccountTotals) (d : Acct) (ot : Bool) : Option (AccountTotals × Bool) :=
  match getField t d.status with
  | none => none
  | some sum =>
    match money unit d t.rewardsLevel with
    | none => none
    | some algos =>
      let m := OverflowTracker_AddA ot sum.money algos
      let u := OverflowTracker_Add m.2 sum.rewardUnits (MicroAlgos_RewardUnits d.algos unit)
      some (setField t d.status { money := m.1, rewardUnits := u.1 }, u.2)

/-- `(*AccountTotals).DelAccount` -/
def delAccount (unit : Nat) (t : AccountTotals) (d : Acct) (ot : Bool) : Option (AccountTotals × Bool) :=
  match getField t d.status with
  | none => none
  | some sum =>
    match money unit d t.rewardsLevel with
    | none => none
    | some algos =>
      let m := OverflowTracker_SubA ot sum.money algos
      let u := OverflowTracker_Sub m.2 sum.rewardUnits (MicroAlgos_RewardUnits d.algos unit)
      some (setField t d.status { money := m.1, rewardUnits := u.1 }, u.2)

/-- `(*AccountTotals).ApplyRewards`: only Online and Offline earn -/
def applyRewards (t : AccountTotals) (rewardsLevel : Nat) (ot : Bool) : AccountTotals × Bool :=
  let d := OverflowTracker_Sub ot rewardsLevel t.rewardsLevel
  let on := t.online.applyRewards d.1 d.2
  let off := t.offline.applyRewards d.1 on.2
  ({ t with rewardsLevel := rewardsLevel, online := on.1, offline := off.1 }, off.2)

/-- `Participating()`; `none` = overflow `Panicf` -/
def participating (t : AccountTotals) : Option Nat :=
  let r := OAddA t.online.money t.offline.money
  if r.2 then none else some r.1

/-- `All()` -/
def all (t : AccountTotals) : Option Nat :=
  match participating t with
  | none => none
  | some p =>
    let r := OAddA t.notParticipating.money p
    if r.2 then none else some r.1

/-- `RewardUnits()` -/
def rewardUnits (t : AccountTotals) : Option Nat :=
  let r := OAdd 64 t.online.rewardUnits t.offline.rewardUnits
  if r.2 then none else some r.1

inductive TotErr
  | panic                                   -- a `Panicf` was reached
  | overflow                                -- "CalculateTotals %d overflowed totals"
  | moneyChanged (was now : Nat)            -- "sum of money changed from %d to %d"
deriving DecidableEq, Repr, Inhabited

/-- the loop of `CalculateTotals` over `mods.Accts`: `DelAccount(previous)` then `AddAccount(updated)`, previous data from the
PARENT (`cb.lookupParent.lookup`, the state of the previous round) -/
def deltaLoop (unit : Nat) (parent : Addr → Acct) : List (Addr × Acct) → AccountTotals × Bool → Option (AccountTotals × Bool)
  | [], s => some s
  | (k, v) :: rest, (t, ot) =>
    match delAccount unit t (parent k) ot with
    | none => none
    | some (t1, ot1) =>
      match addAccount unit t1 v ot1 with
      | none => none
      | some s2 => deltaLoop unit parent rest s2

/-- `roundCowState.CalculateTotals` (top-level cow): `prev` = `cb.prevTotals`, `newLevel` = `mods.Hdr.RewardsLevel` -/
def calculateTotals (unit : Nat) (prev : AccountTotals) (parent : Addr → Acct) (mods : List (Addr × Acct)) (newLevel : Nat) :
    Except TotErr AccountTotals :=
  match deltaLoop unit parent mods (applyRewards prev newLevel false) with
  | none => .error .panic
  | some (t, ot) =>
    if ot then .error .overflow
    else match all t, all prev with
      | some now, some was => if now ≠ was then .error (.moneyChanged was now) else .ok t
      | _, _ => .error .panic

/-! ## The specification side: exact sums over a finite account map -/

/-- an account map: total function, accounts that do not exist are the zero `Acct` (as `lookup` of a missing address) -/
abbrev AMap := Addr → Acct

def AMap.set (A : AMap) (k : Addr) (v : Acct) : AMap := fun x => if x = k then v else A x

/-- `A ⊕ Δ` -/
def applyMods (A : AMap) : List (Addr × Acct) → AMap
  | [] => A
  | (k, v) :: rest => applyMods (A.set k v) rest

/-- balance with pending rewards in exact arithmetic: `alg + ⌊alg/unit⌋·(L − base)` for a participating account -/
def acctMoney (unit L : Nat) (a : Acct) : Nat :=
  if a.status = 2 then a.algos else a.algos + a.algos / unit * (L - a.base)

def acctUnits (unit : Nat) (a : Acct) : Nat := a.algos / unit

def bucketMoney (unit L s : Nat) (dom : List Addr) (A : AMap) : Nat :=
  (dom.map (fun k => if (A k).status = s then acctMoney unit L (A k) else 0)).sum

def bucketUnits (unit s : Nat) (dom : List Addr) (A : AMap) : Nat :=
  (dom.map (fun k => if (A k).status = s then acctUnits unit (A k) else 0)).sum

/-- `Sum A L` (named `SumOf`: `Sum` is the core sum type): per-status sums of money (with pending rewards at level `L`) and reward units over the accounts `dom` -/
def SumOf (unit : Nat) (dom : List Addr) (A : AMap) (L : Nat) : AccountTotals :=
  { online := ⟨bucketMoney unit L 1 dom A, bucketUnits unit 1 dom A⟩,
    offline := ⟨bucketMoney unit L 0 dom A, bucketUnits unit 0 dom A⟩,
    notParticipating := ⟨bucketMoney unit L 2 dom A, bucketUnits unit 2 dom A⟩,
    rewardsLevel := L }

/-- all money of the map at level `L` -/
def totalMoney (unit L : Nat) (dom : List Addr) (A : AMap) : Nat :=
  (dom.map (fun k => acctMoney unit L (A k))).sum

/-! ## Block histories -/

/-- one block as the totals see it: the new rewards level and the modified accounts -/
structure Block where
  level : Nat
  mods : List (Addr × Acct)

/-- evaluate a history: every block's `CalculateTotals` starts from the previous block's totals and account map;
returns the totals of every round (newest first) and the final map -/
def replay (unit : Nat) : List Block → AccountTotals → AMap → Except TotErr (List AccountTotals × AMap)
  | [], _, A => .ok ([], A)
  | b :: rest, t, A =>
    match calculateTotals unit t A b.mods b.level with
    | .error e => .error e
    | .ok t' =>
      match replay unit rest t' (applyMods A b.mods) with
      | .error e => .error e
      | .ok (ts, A') => .ok (t' :: ts, A')

/-! ## roundTotals of accountUpdates (acctupdates.go) -/

/-- `accountUpdates` as far as totals go: `cachedDBRound`, `roundTotals` (entry i = round dbRound + i; `len = len(deltas)+1`),
the totals row of the tracker DB with the round it was written for -/
structure RT where
  dbRound : Nat
  roundTotals : List AccountTotals
  dbTotals : AccountTotals
  dbTotalsRound : Nat
deriving Repr

/-- `loadFromDisk`: `roundTotals = [totals row]` at the DB round -/
def RT.load (dbRound : Nat) (row : AccountTotals) : RT := ⟨dbRound, [row], row, dbRound⟩

/-- `newBlockImpl`: `au.roundTotals = append(au.roundTotals, delta.Totals)` -/
def RT.newBlock (s : RT) (t : AccountTotals) : RT := { s with roundTotals := s.roundTotals ++ [t] }

/-- `prepareCommit` (`dcc.roundTotals = au.roundTotals[offset]`), `commitRound` (`AccountsPutTotals`), `postCommit`
(`au.roundTotals = au.roundTotals[offset:]`, `cachedDBRound = newBase`).  `none`: the offset is not in range (the Go code
would panic on the slice index). -/
def RT.commit (s : RT) (offset : Nat) : Option RT :=
  match s.roundTotals[offset]? with
  | none => none
  | some row => some { dbRound := s.dbRound + offset, roundTotals := s.roundTotals.drop offset, dbTotals := row, dbTotalsRound := s.dbRound + offset }

/-- `roundOffset` + `totalsImpl` -/
def RT.totals (s : RT) (rnd : Nat) : Option AccountTotals :=
  if rnd < s.dbRound then none
  else
    let off := rnd - s.dbRound
    if off > s.roundTotals.length - 1 then none else s.roundTotals[off]?

/-- `latestTotalsImpl` -/
def RT.latest (s : RT) : Nat × Option AccountTotals :=
  (s.dbRound + (s.roundTotals.length - 1), s.roundTotals[s.roundTotals.length - 1]?)

/-- `reloadLedger`: `loadFromDisk` from the persisted row, then the blocks after the DB round are replayed (their totals are
recomputed by the evaluator from the previous entry — `later` are those results) -/
def RT.reload (s : RT) (later : List AccountTotals) : RT :=
  later.foldl RT.newBlock (RT.load s.dbTotalsRound s.dbTotals)

end AlgoVerif.Model.Totals
