/-
Model of crypto/stateproof prover.go (MakeProver, Present, IsValid, Add, Ready, coinIndex, CreateProof) and
verifier.go (Verify, verifyStateProofTreesDepth), composed with the C38 model (numReveals / verifyWeights /
getNextCoin, `Model.StateProofWeights`).  Core Lean only.

What is a PARAMETER (cryptography and environment), bundled in `Env`:
  * `SigScheme S`  – the Merkle signature scheme as the verifier uses it: `verify pk keyRound msg sig`
                     (= merklesignature.Verifier.VerifyBytes after `firstRoundInKeyLifetime`), the salt-version byte
                     of a signature, and whether `buildCommittableSignature` can serialise it;
  * `VC Leaf Root Pf` – a vector commitment (merklearray.BuildVectorCommitmentTree / Tree.Prove /
                     VerifyVectorCommitment, `Proof.TreeDepth`); its completeness / soundness are HYPOTHESES of the
                     theorems (Props/C39.lean), discharged for crypto/merklearray by C37 under C37's hypotheses;
  * `H`            – the XOF of the coin generator as a random-oracle parameter: coin seed ↦ stream of 64-bit draws
                     (a finite script; running out of draws is the explicit error `coinGen`).

Go `uint64` are `Nat` with the wrap made explicit (`% two64`) where the code can wrap: `signedWeight += Weight`,
`L[i] = L[i-1] + Weight[i-1]`, and the verifier's `L + Weight`.
The Go map `Reveals` is an association list (keys distinct: invariant `RevInv.nodup` of the reveal loop,
Lemmas.StateProof.revealLoop_spec);
the verifier walks it in list order (Go: random order — only WHICH error is reported first depends on it).

`validateStateProof` / `acceptableWeight` model stateproof/verify/stateproof.go (ValidateStateProof,
calculateAcceptableStateProofWeight) with the consensus parameters as fields of the context.

Not modelled: `cachedProof` (CreateProof on a prover with a cached proof returns it unchanged; `Add` clears it),
msgpack encodings, `LnIntApproximation` (float64; `lnProvenWeight` is an input), the Merkle-signature internals
(C36) and the merklearray internals (C37).
-/
import AlgoVerif.Model.StateProofWeights
namespace AlgoVerif.Model.StateProof
open AlgoVerif.Model.StateProofWeights

/-- const.go: MaxTreeDepth -/
def MaxTreeDepth : Nat := 20
/-- merklesignature.SchemeSaltVersion -/
def SchemeSaltVersion : Nat := 0

/-- basics.Participant: PK = (commitment, KeyLifetime), Weight -/
structure Participant where
  pk : Nat
  lifetime : Nat
  weight : Nat
  deriving DecidableEq, Repr

/-- sigslotCommit: `sig = none` is the empty Merkle signature (`Sig.MsgIsZero()`) -/
structure SlotCommit (S : Type) where
  sig : Option S
  L : Nat
  deriving DecidableEq, Repr

/-- sigslot -/
structure SigSlot (S : Type) where
  weight : Nat
  commit : SlotCommit S
  deriving DecidableEq, Repr

structure Reveal (S : Type) where
  slot : SlotCommit S
  part : Participant
  deriving DecidableEq, Repr

/-- the leaf committableSignatureSlot hashes to: `none` = empty slot (L is NOT part of it), else (signature, L) -/
abbrev SigLeaf (S : Type) := Option (S × Nat)

structure SigScheme (S : Type) where
  /-- Verifier.VerifyBytes core: key commitment, first round of the key lifetime, message hash, signature -/
  verify : Nat → Nat → Nat → S → Bool
  /-- salt-version byte of the Falcon signature -/
  saltOf : S → Nat
  /-- buildCommittableSignature returns no error (Falcon bytes present, key-proof depth in range, CT conversion ok) -/
  wellFormed : S → Bool

structure VC (Leaf Root Pf : Type) where
  commit : List Leaf → Root
  prove : List Leaf → List Nat → Option Pf
  verify : Root → List (Nat × Leaf) → Pf → Bool
  /-- Proof.TreeDepth -/
  depth : Pf → Nat

/-- coinChoiceSeed (the version byte is the constant VersionForCoinGenerator) -/
structure Seed (RS RP : Type) where
  partCommit : RP
  lnProvenWeight : Nat
  sigCommit : RS
  signedWeight : Nat
  data : Nat
  deriving DecidableEq, Repr

structure Env (S RS PS RP PP : Type) where
  ss : SigScheme S
  vcS : VC (SigLeaf S) RS PS
  vcP : VC Participant RP PP
  /-- SHAKE256 over the seed encoding, as a stream of 64-bit little-endian words -/
  H : Seed RS RP → List Nat

structure StateProof (S RS PS PP : Type) where
  sigCommit : RS
  signedWeight : Nat
  sigProofs : PS
  partProofs : PP
  saltVersion : Nat
  reveals : List (Nat × Reveal S)
  positions : List Nat
  deriving DecidableEq, Repr

/-- the verifier's trusted data -/
structure Verifier (RP : Type) where
  strengthTarget : Nat
  lnProvenWeight : Nat
  partCommit : RP

inductive VErr where
  | treeDepth                 -- ErrTreeDepthTooLarge
  | weights (e : Err)         -- verifyWeights
  | salt                      -- ErrSignatureSaltVersionMismatch
  | sigFormat                 -- buildCommittableSignature error
  | sigInvalid                -- "signature in reveal pos … does not verify"
  | sigVC                     -- VerifyVectorCommitment(SigCommit, …)
  | partVC                    -- VerifyVectorCommitment(participantsCommitment, …)
  | noReveal                  -- ErrNoRevealInPos
  | coinRange                 -- ErrCoinNotInRange
  | coinGen                   -- not a Go error: the scripted XOF ran out of draws (rejection loop did not finish)
  deriving DecidableEq, Repr

variable {S RS PS RP PP : Type}

/-! ### verifier.go -/

/-- `Signature.ValidateSaltVersion` input: an empty / too short Falcon signature has salt version 0 -/
def saltOfSlot (ss : SigScheme S) (sc : SlotCommit S) : Nat :=
  match sc.sig with
  | none => 0
  | some s => ss.saltOf s

/-- first loop of Verify: every reveal's signature carries the proof's salt version -/
def saltsOk (ss : SigScheme S) (version : Nat) (reveals : List (Nat × Reveal S)) : Bool :=
  reveals.all fun pr => saltOfSlot ss pr.2.slot == version

/-- buildCommittableSignature: `none` = error -/
def sigLeaf (ss : SigScheme S) (sc : SlotCommit S) : Option (SigLeaf S) :=
  match sc.sig with
  | none => some none
  | some s => if ss.wellFormed s then some (some (s, sc.L)) else none

/-- merklesignature.firstRoundInKeyLifetime -/
def firstRoundInKeyLifetime (round lifetime : Nat) : Nat := round - round % lifetime

/-- `r.Part.PK.VerifyBytes(round, data, &r.SigSlot.Sig)`: KeyLifetime 0 is an error, an empty signature never verifies -/
def verifyBytes (ss : SigScheme S) (p : Participant) (round data : Nat) (sig : Option S) : Bool :=
  match sig with
  | none => false
  | some s => p.lifetime != 0 && ss.verify p.pk (firstRoundInKeyLifetime round p.lifetime) data s

/-- second loop of Verify: per reveal buildCommittableSignature, then the signature check; collects the sig leaves -/
def checkReveals (ss : SigScheme S) (round data : Nat) :
    List (Nat × Reveal S) → Except VErr (List (Nat × SigLeaf S))
  | [] => .ok []
  | pr :: rest =>
    match sigLeaf ss pr.2.slot with
    | none => .error .sigFormat
    | some leaf =>
      if verifyBytes ss pr.2.part round data pr.2.slot.sig then
        match checkReveals ss round data rest with
        | .error e => .error e
        | .ok ls => .ok ((pr.1, leaf) :: ls)
      else .error .sigInvalid

def partElems (reveals : List (Nat × Reveal S)) : List (Nat × Participant) :=
  reveals.map fun pr => (pr.1, pr.2.part)

/-- `reveal.SigSlot.L <= coin && coin < reveal.SigSlot.L+reveal.Part.Weight` (uint64 addition wraps) -/
def coinInSlot (r : Reveal S) (coin : Nat) : Bool :=
  decide (r.slot.L ≤ coin) && decide (coin < (r.slot.L + r.part.weight) % two64)

/-- the coin loop: for each listed position the reveal must exist, then the next coin must fall into its slot -/
def checkCoins (sw : Nat) (reveals : List (Nat × Reveal S)) : List Nat → List Nat → Except VErr Unit
  | [], _ => .ok ()
  | pos :: ps, draws =>
    match reveals.lookup pos with
    | none => .error .noReveal
    | some r =>
      match getNextCoin sw draws with
      | none => .error .coinGen
      | some (coin, _, rest) =>
        if coinInSlot r coin then checkCoins sw reveals ps rest else .error .coinRange

/-- `Verifier.Verify`, checks in the order of the code -/
def verify (E : Env S RS PS RP PP) (v : Verifier RP) (round data : Nat) (s : StateProof S RS PS PP) :
    Except VErr Unit :=
  if E.vcS.depth s.sigProofs > MaxTreeDepth ∨ E.vcP.depth s.partProofs > MaxTreeDepth then .error .treeDepth else
  match verifyWeights s.signedWeight v.lnProvenWeight s.positions.length v.strengthTarget with
  | .error e => .error (.weights e)
  | .ok _ =>
    if saltsOk E.ss s.saltVersion s.reveals = false then .error .salt else
    match checkReveals E.ss round data s.reveals with
    | .error e => .error e
    | .ok leaves =>
      if E.vcS.verify s.sigCommit leaves s.sigProofs = false then .error .sigVC else
      if E.vcP.verify v.partCommit (partElems s.reveals) s.partProofs = false then .error .partVC else
      checkCoins s.signedWeight s.reveals s.positions
        (E.H ⟨v.partCommit, v.lnProvenWeight, s.sigCommit, s.signedWeight, data⟩)

/-! ### prover.go -/

structure Prover (S : Type) where
  data : Nat
  round : Nat
  participants : List Participant
  lnProvenWeight : Nat
  provenWeight : Nat
  strengthTarget : Nat
  sigs : List (SigSlot S)
  signedWeight : Nat
  deriving DecidableEq, Repr

inductive PErr where
  | lnZero                    -- ErrIllegalInputForLnApprox (MakeProver with provenWeight 0)
  | posOutOfBound             -- ErrPositionOutOfBound
  | alreadyPresent            -- ErrPositionAlreadyPresent
  | zeroWeight                -- ErrPositionWithZeroWeight
  | badSalt                   -- IsValid: ErrSignatureSaltVersionMismatch
  | badSig                    -- IsValid: the signature does not verify
  | notReady                  -- ErrSignedWeightLessThanProvenWeight
  | sigFormat                 -- BuildVectorCommitmentTree: buildCommittableSignature error
  | reveals (e : Err)         -- numReveals
  | coinIndex                 -- ErrCoinIndexError
  | coinGen                   -- scripted XOF exhausted
  | indexPanic                -- a Go index-out-of-range panic (unreachable: `coinIndex_spec` gives pos < len, lengths agree)
  | vcProve                   -- Tree.Prove error
  deriving DecidableEq, Repr

/-- MakeProver; `lnProvenWeight` is LnIntApproximation(provenWeight), taken as given for provenWeight ≥ 1 -/
def makeProver (data round provenWeight lnProvenWeight : Nat) (part : List Participant) (strengthTarget : Nat) :
    Except PErr (Prover S) :=
  if provenWeight = 0 then .error .lnZero
  else .ok ⟨data, round, part, lnProvenWeight, provenWeight, strengthTarget,
            List.replicate part.length ⟨0, ⟨none, 0⟩⟩, 0⟩

/-- Present -/
def present (b : Prover S) (pos : Nat) : Except PErr Bool :=
  match b.sigs[pos]? with
  | none => .error .posOutOfBound
  | some sl => .ok (sl.weight != 0)

/-- IsValid with verifySig = true -/
def isValid (ss : SigScheme S) (b : Prover S) (pos : Nat) (sig : S) : Except PErr Unit :=
  match b.participants[pos]? with
  | none => .error .posOutOfBound
  | some p =>
    if p.weight = 0 then .error .zeroWeight
    else if ss.saltOf sig ≠ SchemeSaltVersion then .error .badSalt
    else if verifyBytes ss p b.round b.data (some sig) = false then .error .badSig
    else .ok ()

/-- Add: no signature check here (the caller ran IsValid); `b.Participants[pos]` beyond the list would panic -/
def add (b : Prover S) (pos : Nat) (sig : S) : Except PErr (Prover S) :=
  match present b pos with
  | .error e => .error e
  | .ok true => .error .alreadyPresent
  | .ok false =>
    match b.participants[pos]?, b.sigs[pos]? with
    | some p, some sl =>
      .ok { b with sigs := b.sigs.set pos ⟨p.weight, ⟨some sig, sl.commit.L⟩⟩,
                   signedWeight := (b.signedWeight + p.weight) % two64 }
    | _, _ => .error .indexPanic

/-- `for i := 1; i < len; i++ { sigs[i].L = sigs[i-1].L + sigs[i-1].Weight }` -/
def commitTail : Nat → Nat → List (SigSlot S) → List (SigSlot S)
  | _, _, [] => []
  | l, w, x :: xs => ⟨x.weight, ⟨x.commit.sig, (l + w) % two64⟩⟩ :: commitTail ((l + w) % two64) x.weight xs

def commitSigs : List (SigSlot S) → List (SigSlot S)
  | [] => []
  | x :: xs => x :: commitTail x.commit.L x.weight xs

/-- the `again:` loop of coinIndex; fuel `len+1` always suffices (Lemmas.StateProof.coinIndexLoop_spec) -/
def coinIndexLoop (sigs : List (SigSlot S)) (coin : Nat) : Nat → Nat → Nat → Except PErr Nat
  | 0, _, _ => .error .indexPanic
  | fuel + 1, lo, hi =>
    if lo ≥ hi then .error .coinIndex
    else
      let mid := (lo + hi) / 2
      match sigs[mid]? with
      | none => .error .indexPanic
      | some sl =>
        if coin < sl.commit.L then coinIndexLoop sigs coin fuel lo mid
        else if coin < (sl.commit.L + sl.weight) % two64 then .ok mid
        else coinIndexLoop sigs coin fuel (mid + 1) hi

def coinIndex (sigs : List (SigSlot S)) (coin : Nat) : Except PErr Nat :=
  coinIndexLoop sigs coin (sigs.length + 1) 0 sigs.length

/-- committableSignatureSlotArray.Marshal for every position; `none` = some slot cannot be serialised -/
def slotLeaves (ss : SigScheme S) : List (SigSlot S) → Option (List (SigLeaf S))
  | [] => some []
  | x :: xs =>
    match sigLeaf ss x.commit, slotLeaves ss xs with
    | some l, some ls => some (l :: ls)
    | _, _ => none

/-- state of the reveal loop: the Reveals map in insertion order (its keys ARE `proofPositions`) and revealsSequence -/
structure RevState (S : Type) where
  reveals : List (Nat × Reveal S)
  seq : List Nat

/-- `for j := 0; j < nr; j++ { coin; coinIndex; bound check; record; reveal unless already revealed }` -/
def revealLoop (sigs : List (SigSlot S)) (parts : List Participant) (sw : Nat) :
    Nat → List Nat → RevState S → Except PErr (RevState S)
  | 0, _, st => .ok st
  | n + 1, draws, st =>
    match getNextCoin sw draws with
    | none => .error .coinGen
    | some (coin, _, rest) =>
      match coinIndex sigs coin with
      | .error e => .error e
      | .ok pos =>
        if pos ≥ parts.length then .error .posOutOfBound
        else
          match st.reveals.lookup pos with
          | some _ => revealLoop sigs parts sw n rest ⟨st.reveals, st.seq ++ [pos]⟩
          | none =>
            match sigs[pos]?, parts[pos]? with
            | some sl, some p =>
              revealLoop sigs parts sw n rest ⟨st.reveals ++ [(pos, ⟨sl.commit, p⟩)], st.seq ++ [pos]⟩
            | _, _ => .error .indexPanic

/-- the coin seed of a prover whose committed slots have leaves `leaves` -/
def proverSeed (E : Env S RS PS RP PP) (b : Prover S) (leaves : List (SigLeaf S)) : Seed RS RP :=
  ⟨E.vcP.commit b.participants, b.lnProvenWeight, E.vcS.commit leaves, b.signedWeight, b.data⟩

/-- CreateProof (the participants tree is the vector commitment over `b.participants`) -/
def createProof (E : Env S RS PS RP PP) (b : Prover S) : Except PErr (StateProof S RS PS PP) :=
  if ¬ (b.signedWeight > b.provenWeight) then .error .notReady else
  match slotLeaves E.ss (commitSigs b.sigs) with
  | none => .error .sigFormat
  | some leaves =>
    match numReveals b.signedWeight b.lnProvenWeight b.strengthTarget with
    | .error e => .error (.reveals e)
    | .ok nr =>
      match revealLoop (commitSigs b.sigs) b.participants b.signedWeight nr (E.H (proverSeed E b leaves)) ⟨[], []⟩ with
      | .error e => .error e
      | .ok st =>
        match E.vcS.prove leaves (st.reveals.map (·.1)), E.vcP.prove b.participants (st.reveals.map (·.1)) with
        | some sp, some pp =>
          .ok ⟨E.vcS.commit leaves, b.signedWeight, sp, pp, SchemeSaltVersion, st.reveals, st.seq⟩
        | _, _ => .error .vcProve

/-- the verifier a relay builds for this prover's statement (MkVerifier with the same proven weight) -/
def verifierOf (E : Env S RS PS RP PP) (b : Prover S) : Verifier RP :=
  ⟨b.strengthTarget, b.lnProvenWeight, E.vcP.commit b.participants⟩

/-! ### stateproof/verify/stateproof.go: the ledger context -/

/-- basics.Muldiv(a, b, c) = ⌊a·b/c⌋; `none` = overflow flag (c = 0, or the quotient does not fit 64 bits: `c <= hi`) -/
def muldiv (a b c : Nat) : Option Nat :=
  if c = 0 then none else if a * b / c ≥ two64 then none else some (a * b / c)

/-- calculateAcceptableStateProofWeight: 100% of the online weight until half an interval after the attested round,
then a linear ramp down to the proven weight `total·threshold/2^32` over the next half interval; 0 on (impossible)
overflows.  `SubSaturate` is truncated subtraction. -/
def acceptableWeight (total interval threshold lastAttested firstValid : Nat) : Nat :=
  let half := interval / 2
  if firstValid - lastAttested = 0 then total else
  if firstValid - lastAttested - half = 0 then total else
  match muldiv total threshold (2 ^ 32) with
  | none => 0
  | some pw =>
    if pw > total then 0 else
    if firstValid - lastAttested - half ≥ half then pw else
    match muldiv (total - pw) (half - (firstValid - lastAttested - half)) half with
    | none => 0
    | some scaled => if pw + scaled ≥ two64 then 0 else pw + scaled

/-- ledgercore.StateProofVerificationContext plus the consensus parameters of its `Version` -/
structure LedgerCtx (RP : Type) where
  lastAttestedRound : Nat
  votersCommitment : RP
  onlineTotalWeight : Nat
  interval : Nat           -- StateProofInterval
  weightThreshold : Nat    -- StateProofWeightThreshold (a fraction of 2^32)
  strengthTarget : Nat     -- StateProofStrengthTarget

inductive LErr where
  | notEnabled             -- errStateProofNotEnabled
  | notMultiple            -- errNotAtRightMultiple
  | insufficientWeight     -- errInsufficientWeight
  | overflow               -- "overflow computing provenWeight"
  | lnZero                 -- MkVerifier: ErrIllegalInputForLnApprox
  | crypto (e : VErr)      -- errStateProofCrypto
  deriving DecidableEq, Repr

/-- ValidateStateProof; `ln` is LnIntApproximation (float64, not modelled) -/
def validateStateProof (E : Env S RS PS RP PP) (ln : Nat → Nat) (ctx : LedgerCtx RP) (s : StateProof S RS PS PP)
    (atRound msgHash : Nat) : Except LErr Unit :=
  if ctx.interval = 0 then .error .notEnabled else
  if ctx.lastAttestedRound % ctx.interval ≠ 0 then .error .notMultiple else
  if s.signedWeight < acceptableWeight ctx.onlineTotalWeight ctx.interval ctx.weightThreshold ctx.lastAttestedRound atRound
  then .error .insufficientWeight else
  match muldiv ctx.onlineTotalWeight ctx.weightThreshold (2 ^ 32) with
  | none => .error .overflow
  | some pw =>
    if pw = 0 then .error .lnZero else
    match verify E ⟨ctx.strengthTarget, ln pw, ctx.votersCommitment⟩ ctx.lastAttestedRound msgHash s with
    | .error e => .error (.crypto e)
    | .ok _ => .ok ()

/-! ### ideal primitives (used by the driver and by the non-vacuity examples)

Signatures are symbolic records; a vector commitment's root IS the committed array (perfectly binding) and a proof
names the array and the set of positions it opens.  `tag ≠ 0` marks bytes that were tampered with (a flipped root / path byte). -/

structure SymSig where
  key : Nat
  kround : Nat
  msg : Nat
  salt : Nat
  /-- 0 = as signed; 1 = garbled bytes (does not verify); 2 = cannot be serialised -/
  garble : Nat
  deriving DecidableEq, Repr

def idealSS : SigScheme SymSig where
  verify pk kr m s := s.garble == 0 && s.key == pk && s.kround == kr && s.msg == m
  saltOf s := s.salt
  wellFormed s := s.garble != 2

structure IRoot (Leaf : Type) where
  arr : List Leaf
  tag : Nat
  deriving DecidableEq, Repr

/-- an opening names the committed array it was cut from (as a Merkle path determines the root it verifies
against), the set of positions it opens, and the tree depth -/
structure IPf (Leaf : Type) where
  arr : List Leaf
  pos : List Nat
  tag : Nat
  depth : Nat
  deriving DecidableEq, Repr

/-- depth of the vector-commitment tree over n leaves: the least d with 2^d ≥ n (structural, fuel 64) -/
def depthFuel : Nat → Nat → Nat
  | 0, _ => 0
  | f + 1, n => if n ≤ 1 then 0 else depthFuel f ((n + 1) / 2) + 1

def depthOf (n : Nat) : Nat := depthFuel 64 n

def sameSet (xs ys : List Nat) : Bool := xs.all (fun x => ys.contains x) && ys.all (fun y => xs.contains y)

def idealVC (Leaf : Type) [DecidableEq Leaf] : VC Leaf (IRoot Leaf) (IPf Leaf) where
  commit arr := ⟨arr, 0⟩
  prove arr ps := if ps.all (fun p => decide (p < arr.length)) then some ⟨arr, ps, 0, depthOf arr.length⟩ else none
  verify root elems pf :=
    root.tag == 0 && pf.tag == 0 && decide (root.arr = pf.arr) && sameSet (elems.map (·.1)) pf.pos &&
      elems.all (fun ie => decide (root.arr[ie.1]? = some ie.2)) && pf.depth == depthOf root.arr.length
  depth pf := pf.depth

abbrev IEnv := Env SymSig (IRoot (SigLeaf SymSig)) (IPf (SigLeaf SymSig)) (IRoot Participant) (IPf Participant)

def idealEnv (H : Seed (IRoot (SigLeaf SymSig)) (IRoot Participant) → List Nat) : IEnv :=
  ⟨idealSS, idealVC _, idealVC _, H⟩

end AlgoVerif.Model.StateProof
