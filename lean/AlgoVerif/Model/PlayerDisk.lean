/-
The disk state of the agreement service (agreement/persistence.go: `diskState{Router, Player, Clock, ActionTypes, Actions}`)
for PlayerM: what `encode` writes and `decode` reads back, as a value tree of `Base.Msgpack` and its byte encoding.

* `DiskState` = (player, router restricted to `persistView`, pending actions).  The clock is outside PlayerM.
* `toV` / `ofV`: the schema.  Structs are written positionally (`arr` of their exported fields in declaration order) and Go
  maps as `arr` of `[key, value]` pairs in the model's association-list order — the real encoders write maps keyed by field
  names and sort map keys (canonical msgpack, C40); field names and key order are not observable by the state machine.
  Unexported fields are not written: `Seeker.lowestLate` has no slot (decoding yields `none`).
* `encode d = Msgpack.enc (toV d)`, `decode bs = Msgpack.dec bs >>= ofV` (all input must be consumed).
Core Lean only.
-/
import AlgoVerif.Base.Msgpack
import AlgoVerif.Model.Player
namespace AlgoVerif.Model.PlayerDisk
open AlgoVerif.Msgpack AlgoVerif.Model AlgoVerif.Model.Player

/-! ### generic pieces -/
def vn (n : Nat) : V := .uint n
def gn : V → Option Nat
  | .uint n => some n
  | _ => none
def vb (b : Bool) : V := .bool b
def gb : V → Option Bool
  | .bool b => some b
  | _ => none
def vl {α : Type} (f : α → V) (l : List α) : V := .arr (l.map f)
def gl {α : Type} (g : V → Option α) : V → Option (List α)
  | .arr vs => vs.mapM g
  | _ => none
def vo {α : Type} (f : α → V) : Option α → V
  | none => .arr []
  | some x => .arr [f x]
def go {α : Type} (g : V → Option α) : V → Option (Option α)
  | .arr [] => some none
  | .arr [v] => (g v).map some
  | _ => none
/-- a Go map entry -/
def vkv {α : Type} (f : α → V) (kv : Nat × α) : V := .arr [vn kv.1, f kv.2]
def gkv {α : Type} (g : V → Option α) : V → Option (Nat × α)
  | .arr [k, v] => do let k ← gn k; let v ← g v; some (k, v)
  | _ => none
def vm {α : Type} (f : α → V) (l : List (Nat × α)) : V := vl (vkv f) l
def gm {α : Type} (g : V → Option α) : V → Option (List (Nat × α)) := gl (gkv g)

/-! ### the schema -/

def payloadV (p : Payload) : V := .arr [vn p.value, vn p.round]
def payloadG : V → Option Payload
  | .arr [a, b] => do let a ← gn a; let b ← gn b; some ⟨a, b⟩
  | _ => none

def pvoteV (v : PVote) : V := .arr [vn v.sender, vn v.round, vn v.period, vn v.value, vn v.cred]
def pvoteG : V → Option PVote
  | .arr [a, b, c, d, e] => do
    let a ← gn a; let b ← gn b; let c ← gn c; let d ← gn d; let e ← gn e; some ⟨a, b, c, d, e⟩
  | _ => none

def voteV (v : VoteTracker.Vote) : V := .arr [vn v.sender, vn v.weight, vn v.value]
def voteG : V → Option VoteTracker.Vote
  | .arr [a, b, c] => do let a ← gn a; let b ← gn b; let c ← gn c; some ⟨a, b, c⟩
  | _ => none

def eqVoteV (e : VoteTracker.EqVote) : V := .arr [vn e.sender, vn e.weight, vn e.p0, vn e.p1]
def eqVoteG : V → Option VoteTracker.EqVote
  | .arr [a, b, c, d] => do let a ← gn a; let b ← gn b; let c ← gn c; let d ← gn d; some ⟨a, b, c, d⟩
  | _ => none

def counterV (c : VoteTracker.Counter) : V := .arr [vn c.count, vl voteV c.votes]
def counterG : V → Option VoteTracker.Counter
  | .arr [a, b] => do let a ← gn a; let b ← gl voteG b; some ⟨a, b⟩
  | _ => none

def trackerV (t : VoteTracker.Tracker) : V := .arr [vl voteV t.voters, vm counterV t.counts, vl eqVoteV t.equivocators, vn t.eqCount]
def trackerG : V → Option VoteTracker.Tracker
  | .arr [a, b, c, d] => do
    let a ← gl voteG a; let b ← gm counterG b; let c ← gl eqVoteG c; let d ← gn d; some ⟨a, b, c, d⟩
  | _ => none

def vtContractV (c : VTContract) : V := .arr [vn c.step, vb c.stepOk, vb c.emitted]
def vtContractG : V → Option VTContract
  | .arr [a, b, c] => do let a ← gn a; let b ← gb b; let c ← gb c; some ⟨a, b, c⟩
  | _ => none

def stepRV (s : StepR) : V := .arr [trackerV s.tracker, vtContractV s.contract]
def stepRG : V → Option StepR
  | .arr [a, b] => do let a ← trackerG a; let b ← vtContractG b; some ⟨a, b⟩
  | _ => none

/-- `proposalSeeker`: Lowest/Filled, Frozen — lowestIncludingLate is unexported -/
def seekerV (s : Seeker) : V := .arr [vo pvoteV s.lowest, vb s.frozen]
def seekerG : V → Option Seeker
  | .arr [a, b] => do let a ← go pvoteG a; let b ← gb b; some ⟨a, b, none⟩
  | _ => none

def ptrackerV (t : PTracker) : V := .arr [vl vn t.duplicate, seekerV t.freezer, vn t.staging]
def ptrackerG : V → Option PTracker
  | .arr [a, b, c] => do let a ← gl gn a; let b ← seekerG b; let c ← gn c; some ⟨a, b, c⟩
  | _ => none

def ptContractV (c : PTContract) : V := .arr [vb c.sawOneVote, vb c.froze, vb c.sawSoft, vb c.sawCert]
def ptContractG : V → Option PTContract
  | .arr [a, b, c, d] => do let a ← gb a; let b ← gb b; let c ← gb c; let d ← gb d; some ⟨a, b, c, d⟩
  | _ => none

def nextStatusV (s : NextStatus) : V := .arr [vb s.bottom, vn s.proposal]
def nextStatusG : V → Option NextStatus
  | .arr [a, b] => do let a ← gb a; let b ← gn b; some ⟨a, b⟩
  | _ => none

def periodRV (p : PeriodR) : V := .arr [ptrackerV p.ptracker, ptContractV p.ptContract, nextStatusV p.cached, vm stepRV p.steps]
def periodRG : V → Option PeriodR
  | .arr [a, b, c, d] => do
    let a ← ptrackerG a; let b ← ptContractG b; let c ← nextStatusG c; let d ← gm stepRG d; some ⟨a, b, c, d⟩
  | _ => none

def bundleV (b : VoteTracker.Bundle) : V := .arr [vn b.proposal, vl voteV b.votes, vl eqVoteV b.eqVotes]
def bundleG : V → Option VoteTracker.Bundle
  | .arr [a, b, c] => do let a ← gn a; let b ← gl voteG b; let c ← gl eqVoteG c; some ⟨a, b, c⟩
  | _ => none

def threshV (e : Thresh) : V := .arr [vn e.kind, vn e.round, vn e.period, vn e.step, vn e.proposal, bundleV e.bundle]
def threshG : V → Option Thresh
  | .arr [a, b, c, d, e, f] => do
    let a ← gn a; let b ← gn b; let c ← gn c; let d ← gn d; let e ← gn e; let f ← bundleG f; some ⟨a, b, c, d, e, f⟩
  | _ => none

def assemblerV (a : Assembler) : V := .arr [vo payloadV a.pipeline, vo payloadV a.payload, vl pvoteV a.auths]
def assemblerG : V → Option Assembler
  | .arr [a, b, c] => do let a ← go payloadG a; let b ← go payloadG b; let c ← gl pvoteG c; some ⟨a, b, c⟩
  | _ => none

def storeV (s : Store) : V := .arr [vm vn s.relevant, vn s.pinned, vm assemblerV s.assemblers]
def storeG : V → Option Store
  | .arr [a, b, c] => do let a ← gm gn a; let b ← gn b; let c ← gm assemblerG c; some ⟨a, b, c⟩
  | _ => none

def roundRV (r : RoundR) : V := .arr [storeV r.store, threshV r.freshest, vb r.ok, vm periodRV r.periods]
def roundRG : V → Option RoundR
  | .arr [a, b, c, d] => do
    let a ← storeG a; let b ← threshG b; let c ← gb c; let d ← gm periodRG d; some ⟨a, b, c, d⟩
  | _ => none

def rootV (r : Root) : V := .arr [vm roundRV r.rounds]
def rootG : V → Option Root
  | .arr [a] => do let a ← gm roundRG a; some ⟨a⟩
  | _ => none

def playerV (p : PlayerF) : V :=
  .arr [vn p.round, vn p.period, vn p.step, vn p.lastConcluding, vn p.deadlineDur, vn p.deadlineKind, vb p.napping,
        vn p.fastRecoveryDeadline, vm (vo payloadV) p.pending, vn p.pendingNext]
def playerG : V → Option PlayerF
  | .arr [a, b, c, d, e, f, g, h, i, j] => do
    let a ← gn a; let b ← gn b; let c ← gn c; let d ← gn d; let e ← gn e; let f ← gn f; let g ← gb g; let h ← gn h
    let i ← gm (go payloadG) i; let j ← gn j
    some ⟨a, b, c, d, e, f, g, h, i, j⟩
  | _ => none

def certV (c : Cert) : V := .arr [vn c.round, vn c.period, vn c.step, vn c.proposal, vl voteV c.votes, vl eqVoteV c.eqVotes]
def certG : V → Option Cert
  | .arr [a, b, c, d, e, f] => do
    let a ← gn a; let b ← gn b; let c ← gn c; let d ← gn d; let e ← gl voteG e; let f ← gl eqVoteG f; some ⟨a, b, c, d, e, f⟩
  | _ => none

def uvoteV (v : UVote) : V := .arr [vn v.round, vn v.period, vn v.step, vn v.sender, vn v.value]
def uvoteG : V → Option UVote
  | .arr [a, b, c, d, e] => do
    let a ← gn a; let b ← gn b; let c ← gn c; let d ← gn d; let e ← gn e; some ⟨a, b, c, d, e⟩
  | _ => none

/-- `ActionTypes[i]` and `Actions[i]` as `[tag, fields…]` -/
def actionV : Action → V
  | .ignore => .arr [vn 1]
  | .disconnect => .arr [vn 4]
  | .relayVote v => .arr [vn 30, uvoteV v]
  | .relayBundle c => .arr [vn 31, certV c]
  | .broadcastBundle c => .arr [vn 21, certV c]
  | .relayCompound p v => .arr [vn 32, payloadV p, vo pvoteV v]
  | .broadcastCompound p v => .arr [vn 22, payloadV p, vo pvoteV v]
  | .broadcastVotes vs => .arr [vn 5, vl uvoteV vs]
  | .verifyVote r p i => .arr [vn 6, vn r, vn p, vn i]
  | .verifyPayload r p pin pl => .arr [vn 7, vn r, vn p, vb pin, payloadV pl]
  | .verifyBundle r p s => .arr [vn 8, vn r, vn p, vn s]
  | .ensure p c => .arr [vn 9, payloadV p, certV c]
  | .stageDigest c => .arr [vn 10, certV c]
  | .rezero r => .arr [vn 11, vn r]
  | .attest r p s v => .arr [vn 12, vn r, vn p, vn s, vn v]
  | .assemble r p => .arr [vn 13, vn r, vn p]
  | .repropose r p v => .arr [vn 14, vn r, vn p, vn v]
  | .checkpoint r p s e => .arr [vn 15, vn r, vn p, vn s, vb e]

def actionG : V → Option Action
  | .arr [.uint 1] => some .ignore
  | .arr [.uint 4] => some .disconnect
  | .arr [.uint 30, a] => do let a ← uvoteG a; some (.relayVote a)
  | .arr [.uint 31, a] => do let a ← certG a; some (.relayBundle a)
  | .arr [.uint 21, a] => do let a ← certG a; some (.broadcastBundle a)
  | .arr [.uint 32, a, b] => do let a ← payloadG a; let b ← go pvoteG b; some (.relayCompound a b)
  | .arr [.uint 22, a, b] => do let a ← payloadG a; let b ← go pvoteG b; some (.broadcastCompound a b)
  | .arr [.uint 5, a] => do let a ← gl uvoteG a; some (.broadcastVotes a)
  | .arr [.uint 6, a, b, c] => do let a ← gn a; let b ← gn b; let c ← gn c; some (.verifyVote a b c)
  | .arr [.uint 7, a, b, c, d] => do let a ← gn a; let b ← gn b; let c ← gb c; let d ← payloadG d; some (.verifyPayload a b c d)
  | .arr [.uint 8, a, b, c] => do let a ← gn a; let b ← gn b; let c ← gn c; some (.verifyBundle a b c)
  | .arr [.uint 9, a, b] => do let a ← payloadG a; let b ← certG b; some (.ensure a b)
  | .arr [.uint 10, a] => do let a ← certG a; some (.stageDigest a)
  | .arr [.uint 11, a] => do let a ← gn a; some (.rezero a)
  | .arr [.uint 12, a, b, c, d] => do let a ← gn a; let b ← gn b; let c ← gn c; let d ← gn d; some (.attest a b c d)
  | .arr [.uint 13, a, b] => do let a ← gn a; let b ← gn b; some (.assemble a b)
  | .arr [.uint 14, a, b, c] => do let a ← gn a; let b ← gn b; let c ← gn c; some (.repropose a b c)
  | .arr [.uint 15, a, b, c, d] => do let a ← gn a; let b ← gn b; let c ← gn c; let d ← gb d; some (.checkpoint a b c d)
  | _ => none

/-- `diskState` (without the clock) -/
structure DiskState where
  pl : PlayerF
  root : Root
  actions : List Action
deriving DecidableEq, Repr, Inhabited

def toV (d : DiskState) : V := .arr [rootV d.root, playerV d.pl, vl actionV d.actions]
def ofV : V → Option DiskState
  | .arr [a, b, c] => do let a ← rootG a; let b ← playerG b; let c ← gl actionG c; some ⟨b, a, c⟩
  | _ => none

/-- `encode(t, rr, p, a, reflect)`: rounds below `p.Round` are dropped, unexported state is not written -/
def diskOf (σ : State) (as : List Action) : DiskState := ⟨(persistView σ).pl, (persistView σ).root, as⟩

def encode (d : DiskState) : Bytes := enc (toV d)

def decode (bs : Bytes) : Option DiskState :=
  match dec bs with
  | some (v, []) => ofV v
  | _ => none

/-- `decode` then `makeRootRouter`: the restored machine state -/
def DiskState.state (d : DiskState) : State := ⟨d.pl, d.root⟩

end AlgoVerif.Model.PlayerDisk
