/-
Model.LedgerCore — executable model of the block-evaluation core of go-algorand:
  ledger/eval/eval.go   (TransactionGroup, transaction, applyTransaction, takeFee, checkMinBalance, roundCowState.Move,
                         autoHeartbeat), ledger/eval/cow.go (roundCowState: child / commitToParent / lookups through parents),
  ledger/eval/cow_creatables.go + assetcow.go (asset params / holdings / creatables in the cow),
  ledger/ledgercore/statedelta.go (AccountDeltas: Upsert / UpsertAssetResource / MergeAccounts / ModifiedAccounts),
  ledger/apply/payment.go, keyreg.go, asset.go, data/basics/userBalance.go (WithUpdatedRewards, MinBalance),
  data/transactions (the WellFormed subset listed at `wellFormed`).
Core Lean only (linked into the `lcore` driver).  Serves C18, C19, C21, C22.

WHAT IS MODELLED
* Accounts: every field of `ledgercore.AccountData` that a modelled transaction can make non-zero (status, balance,
  rewards base, rewarded total, incentive-eligible flag, asset counters, last proposed / last heartbeat, the six voting
  fields).  Keys are small `Nat` tags (0 = empty key), addresses are `Nat`s (0 = the zero address).
* The copy-on-write stack: a `Layer` is the `mods` of one `roundCowState` (ordered account deltas, asset resource records
  holding a params-delta AND a holding-delta as in `AssetResourceRecord`, creatables, tx ids, txn count, fees collected);
  `Base` is the `roundCowBase` (the committed ledger of the previous round); lookups walk child → parents → base exactly as
  `cow.go` does, writes go to the innermost layer only, `commitToParent` merges a child into its parent.  The parents are a
  read-only context (`Ctx`) of every operation, so "a failed group leaves the parent untouched" is manifest.
* `putAssetHolding` / `putAssetParams` copy the sibling delta found by a lookup through the parents into the child's record,
  as the Go code does (`cacheOnly` lookups; the "not in cache" error is not reachable on the modelled paths because every
  modelled path reads the same (address, asset) pair before writing it — stated, not proved).
* Rewards: the rewards LEVEL IS CONSTANT inside a block (`Params.level`, the block header's `RewardsLevel`); every `Move`,
  `Get(·, true)` and `checkMinBalance` applies `WithUpdatedRewards` as coded, its overflow `Panicf` is the error `.panic`.
* Transactions: payment (+ close-to), keyreg (online / offline / non-participating), asset config (create / reconfigure /
  destroy), asset transfer (opt-in, transfer, clawback, close-to), asset freeze.  Fees go to the fee sink through `Move`
  (`takeFee`), `feesCollected` is kept.
* Group evaluation as in `TransactionGroup` with `validate = generate = true`: size check, `WellFormed` of all members first,
  then per member `Alive` window, duplicate tx id in this block, take fee, apply, min-balance check over the child's
  cumulative modified accounts (skipping fee sink, rewards pool, state-proof sender), group-id consistency, completeness of
  the group id, `CheckGroupFees`; commit of the child into the parent and extension of the payset only at the very end.

WHAT IS NOT MODELLED (the generator of the tie never produces it; another model extends this one)
* application calls, inner transactions, boxes, state proofs, heartbeats, rekeying (AuthAddr stays zero, the authorizer check
  is therefore trivially passed), leases, logic/multi/PQ signatures and their fee surcharges, notes beyond the free size,
  duplicates of transactions of EARLIER blocks (`roundCowBase.checkDup` → txtail),
  `ApplyData` (sender/receiver/close rewards, closing amounts, created asset id) and its reward-tracking overflow errors,
  msgpack sizes (the encoded size of every evaluated member is an input, `Txn.size`; the block-space ACCOUNTING is modelled),
  `StartEvaluator` (rewards withdrawal from the pool) and `endOfBlock` (payouts, expired / absent accounts, CalculateTotals);
  asset names, unit names, URLs and metadata hashes (always empty), app / box counters of accounts (always 0).
* uint64 round arithmetic (`round + lookback`) is not wrapped: rounds are far below 2^64.
-/
import AlgoVerif.Gen.Fees
namespace AlgoVerif.Model.LedgerCore

abbrev Addr := Nat
abbrev AssetId := Nat

/-- 2^64 -/
def M64 : Nat := 18446744073709551616

/-! ## Data -/

/-- `basics.Status` (Offline = 0, Online = 1, NotParticipating = 2) -/
inductive Status
  | offline | online | notPart
deriving DecidableEq, Repr, Inhabited

/-- `ledgercore.AccountData` restricted to the fields the modelled transactions can change (all others stay zero). -/
structure Account where
  status : Status := .offline
  bal : Nat := 0                 -- MicroAlgos
  rewardsBase : Nat := 0
  rewarded : Nat := 0            -- RewardedMicroAlgos (wraps)
  incentive : Bool := false      -- IncentiveEligible
  totalAssets : Nat := 0
  totalAssetParams : Nat := 0
  lastProposed : Nat := 0
  lastHeartbeat : Nat := 0
  voteId : Nat := 0
  selId : Nat := 0
  spId : Nat := 0
  voteFirst : Nat := 0
  voteLast : Nat := 0
  voteKD : Nat := 0
deriving DecidableEq, Repr, Inhabited

/-- `AccountData{}` -/
def Account.zero : Account := {}
/-- `AccountData.IsZero` -/
def Account.isZero (a : Account) : Bool := decide (a = Account.zero)

/-- `basics.AssetParams` (names, URL, metadata hash are always empty in this model) -/
structure AssetParams where
  total : Nat := 0
  decimals : Nat := 0
  defaultFrozen : Bool := false
  manager : Addr := 0
  reserve : Addr := 0
  freeze : Addr := 0
  clawback : Addr := 0
deriving DecidableEq, Repr, Inhabited

def AssetParams.empty : AssetParams := {}

/-- `basics.AssetHolding` -/
structure Holding where
  amount : Nat := 0
  frozen : Bool := false
deriving DecidableEq, Repr, Inhabited

/-- `AssetParamsDelta` / `AssetHoldingDelta`: `{nil,false}` = absent, `{_,true}` = deleted, `{&v,false}` = val -/
inductive Delta (α : Type)
  | absent
  | deleted
  | val (a : α)
deriving DecidableEq, Repr, Inhabited

/-- `AssetResourceRecord` (the key (Addr, Aidx) is the key of the association list) -/
structure ResRec where
  params : Delta AssetParams
  holding : Delta Holding
deriving DecidableEq, Repr, Inhabited

abbrev ResKey := Addr × AssetId

inductive Kind
  | pay | keyreg | acfg | axfer | afrz
deriving DecidableEq, Repr, Inhabited

/-- A transaction: header subset + the fields of the five modelled types (flat).
`note` stands for the note bytes (the generator uses it as a nonce).  `grp` abstracts `Header.Group`: 0 = zero digest,
1 = the correct hash of this group's members, k ≥ 2 = some other digest (different tags = different digests). -/
structure Txn where
  kind : Kind := .pay
  sender : Addr := 0
  fee : Nat := 0
  fv : Nat := 0
  lv : Nat := 0
  note : Nat := 0
  grp : Nat := 0
  -- payment
  receiver : Addr := 0
  amount : Nat := 0
  closeTo : Addr := 0
  -- keyreg
  votePK : Nat := 0
  selPK : Nat := 0
  spPK : Nat := 0
  voteFirst : Nat := 0
  voteLast : Nat := 0
  voteKD : Nat := 0
  nonpart : Bool := false
  -- asset config / transfer / freeze (ConfigAsset, XferAsset, FreezeAsset)
  asset : AssetId := 0
  params : AssetParams := {}
  assetAmount : Nat := 0
  assetSender : Addr := 0
  assetReceiver : Addr := 0
  assetCloseTo : Addr := 0
  freezeAccount : Addr := 0
  frozen : Bool := false
  /-- `txib.GetEncodedLength()`: the encoded size of the `SignedTxnInBlock` (transaction + ApplyData) this member had in the
  real evaluation, supplied by the harness (msgpack and ApplyData are not modelled); 0 for members that were not reached.
  Only the block-space accounting reads it. -/
  size : Nat := 0
deriving DecidableEq, Repr, Inhabited

/-- `transactions.Txid`: determined by the transaction and, when it carries a group id, by the whole group. -/
structure TxId where
  txn : Txn
  group : List Txn
deriving DecidableEq, Repr, Inhabited

def txid (g : List Txn) (t : Txn) : TxId :=
  ⟨{ t with size := 0 }, if t.grp = 0 then [] else g.map (fun u => { u with size := 0 })⟩

/-- One `roundCowState.mods` (+ txnCount, feesCollected). -/
structure Layer where
  accts : List (Addr × Account) := []                 -- mods.Accts (ordered, Upsert)
  res : List (ResKey × ResRec) := []                   -- mods.Accts.AssetResources (UpsertAssetResource)
  creat : List (AssetId × (Addr × Bool)) := []         -- mods.Creatables: (creator, created)
  txids : List TxId := []                              -- mods.Txids, in Intra order
  txnCount : Nat := 0
  fees : Nat := 0                                      -- feesCollected
deriving DecidableEq, Repr, Inhabited

/-- `roundCowBase`: the committed ledger at the previous round. -/
structure Base where
  accts : List (Addr × Account) := []
  res : List (ResKey × (Option AssetParams × Option Holding)) := []
  creators : List (AssetId × Addr) := []
  txnCount : Nat := 0
deriving DecidableEq, Repr, Inhabited

/-- The read-only part of a `roundCowState`: its chain of parents down to the base. -/
structure Ctx where
  parents : List Layer := []
  base : Base := {}
deriving Repr, Inhabited

/-- Consensus parameters and block-header constants read by the modelled code. -/
structure Params where
  round : Nat := 1
  level : Nat := 0                 -- RewardsLevel of the block being evaluated (constant inside the block)
  rewardUnit : Nat := 1000000
  minFee : Nat := 1000
  reqs : Gen.Fees.basics_BalanceRequirements := ⟨100000, 0, 0, 0, 0, 0, 0, 0⟩
  maxMinBalance : Nat := 0         -- MaximumMinimumBalance (0 = no limit)
  maxTxnLife : Nat := 1000
  maxGroupSize : Nat := 16
  maxAssetsPerAccount : Nat := 0   -- 0 = no limit
  maxAssetDecimals : Nat := 19
  unfundedSenders : Bool := true
  payoutsEnabled : Bool := true
  goOnlineFee : Nat := 2000000
  lookback : Nat := 320            -- agreement.BalanceLookback
  keyregCoherency : Bool := true   -- EnableKeyregCoherencyCheck
  spKeyregCheck : Bool := true     -- EnableStateProofKeyregCheck
  supportNonPart : Bool := true    -- SupportBecomeNonParticipatingTransactions
  maxKeyregValidPeriod : Nat := 0
  feeSink : Addr := 7
  rewardsPool : Addr := 8
  spSender : Addr := 9             -- transactions.StateProofSender
  maxBytes : Nat := 5242880        -- eval.maxTxnBytesPerBlock (EvaluatorOptions.MaxTxnBytesPerBlock, capped by the protocol's)
  protoBytes : Nat := 5242880      -- proto.MaxTxnBytesPerBlock (denominator of the header Load)
  loadTracking : Bool := true      -- proto.LoadTracking
deriving Repr, Inhabited

/-- Error classes (the harness maps Go errors to the same tokens). -/
inductive Err
  | grpSize | malformed | dead | dup | panic
  | overspend | overflow
  | closeNonZero | closeAssets | closeAssetParams
  | nonPart | keyExpired | keyFuture | nonPartUnsupported
  | assetExists | tooManyAssets | noAsset | noAssetParams | notManager | destroyNoAssets | destroyNoParams | destroyHeld
  | notInDeltas
  | noClawback | missing | frozen | assetOverspend | rcvOptin | rcvFrozen | assetOverflow
  | closeByClawback | closeNotOpted | closeCreator | closeMissing | assetCloseNonZero
  | noFreeze | frzNotFound
  | minBal | maxMinBal
  | grpInconsistent | grpEmpty | grpIncomplete | fee
  | noSpace
deriving DecidableEq, Repr, Inhabited

/-! ## Association lists (Go maps with deterministic order) -/

def alookup {κ ν : Type} [DecidableEq κ] (k : κ) : List (κ × ν) → Option ν
  | [] => none
  | (k', v) :: r => if k' = k then some v else alookup k r

/-- `Upsert`: replace in place, else append -/
def upsert {κ ν : Type} [DecidableEq κ] (k : κ) (v : ν) : List (κ × ν) → List (κ × ν)
  | [] => [(k, v)]
  | (k', v') :: r => if k' = k then (k, v) :: r else (k', v') :: upsert k v r

/-- `for … range other { Upsert }` -/
def mergeInto {κ ν : Type} [DecidableEq κ] (child parent : List (κ × ν)) : List (κ × ν) :=
  child.foldl (fun p kv => upsert kv.1 kv.2 p) parent

/-! ## Lookups through the layers (cow.go: lookup, lookupAssetParams, lookupAssetHolding, getCreator, checkDup, Counter) -/

/-- `roundCowBase.lookup`: an unknown address has the zero `AccountData`. -/
def Base.acct (b : Base) (a : Addr) : Account :=
  match alookup a b.accts with
  | some v => v
  | none => Account.zero

def lookupAcct : List Layer → Base → Addr → Account
  | [], b, a => b.acct a
  | l :: ls, b, a =>
    match alookup a l.accts with
    | some v => v
    | none => lookupAcct ls b a

/-- `lookupAssetParams`: `.absent` stands for `ok = false`. -/
def lookupParamsD : List Layer → Base → ResKey → Delta AssetParams
  | [], b, k =>
    match alookup k b.res with
    | some (some p, _) => .val p
    | _ => .absent
  | l :: ls, b, k =>
    match alookup k l.res with
    | some r => if r.params = .absent then lookupParamsD ls b k else r.params
    | none => lookupParamsD ls b k

def lookupHoldingD : List Layer → Base → ResKey → Delta Holding
  | [], b, k =>
    match alookup k b.res with
    | some (_, some h) => .val h
    | _ => .absent
  | l :: ls, b, k =>
    match alookup k l.res with
    | some r => if r.holding = .absent then lookupHoldingD ls b k else r.holding
    | none => lookupHoldingD ls b k

/-- `getCreator` for `AssetCreatable` (the only creatable type in this model) -/
def lookupCreator : List Layer → Base → AssetId → Option Addr
  | [], b, i => alookup i b.creators
  | l :: ls, b, i =>
    match alookup i l.creat with
    | some (cr, created) => if created then some cr else none
    | none => lookupCreator ls b i

def Delta.toOption {α : Type} : Delta α → Option α
  | .val a => some a
  | _ => none

/-! views of a child layer `l` under its context `x` -/

def acctOf (x : Ctx) (l : Layer) (a : Addr) : Account := lookupAcct (l :: x.parents) x.base a
/-- `GetAssetParams` / `HasAssetParams` -/
def paramsOf (x : Ctx) (l : Layer) (k : ResKey) : Option AssetParams := (lookupParamsD (l :: x.parents) x.base k).toOption
/-- `GetAssetHolding` -/
def holdingOf (x : Ctx) (l : Layer) (k : ResKey) : Option Holding := (lookupHoldingD (l :: x.parents) x.base k).toOption
def creatorOf (x : Ctx) (l : Layer) (i : AssetId) : Option Addr := lookupCreator (l :: x.parents) x.base i
/-- `Counter()` -/
def counterOf (x : Ctx) (l : Layer) : Nat := x.base.txnCount + ((l :: x.parents).map (·.txnCount)).sum
/-- `checkDup` restricted to the transactions of this block -/
def seenTx (x : Ctx) (l : Layer) (id : TxId) : Bool := (l :: x.parents).any (fun y => decide (id ∈ y.txids))
/-- `modifiedAccounts()` -/
def modified (l : Layer) : List Addr := l.accts.map (·.1)

/-! ## Writes (innermost layer only) -/

def putAcct (l : Layer) (a : Addr) (v : Account) : Layer := { l with accts := upsert a v l.accts }

/-- `putAssetHolding`: the params delta stored beside it is the one a lookup through the layers finds -/
def putHoldingD (x : Ctx) (l : Layer) (k : ResKey) (d : Delta Holding) : Layer :=
  { l with res := upsert k ⟨lookupParamsD (l :: x.parents) x.base k, d⟩ l.res }

/-- `putAssetParams` -/
def putParamsD (x : Ctx) (l : Layer) (k : ResKey) (d : Delta AssetParams) : Layer :=
  { l with res := upsert k ⟨d, lookupHoldingD (l :: x.parents) x.base k⟩ l.res }

/-- `AllocateAsset(_, _, true)` / `DeallocateAsset(_, _, true)` → `mods.AddCreatable` -/
def putCreatable (l : Layer) (i : AssetId) (cr : Addr) (created : Bool) : Layer :=
  { l with creat := upsert i (cr, created) l.creat }

/-- `DeleteAssetHolding` / `DeleteAssetParams` refuse when the address has no account delta in THIS layer -/
def inDeltas (l : Layer) (a : Addr) : Bool := (alookup a l.accts).isSome

/-! ## child / commitToParent -/

/-- `commitToParent`: MergeAccounts (accounts, asset resources), Txids re-indexed behind the parent's, txnCount and
feesCollected added (the latter with `OAddA`, overflow ignored = wrap), creatables upserted. -/
def commitToParent (child parent : Layer) : Layer :=
  { accts := mergeInto child.accts parent.accts
    res := mergeInto child.res parent.res
    creat := mergeInto child.creat parent.creat
    txids := parent.txids ++ child.txids
    txnCount := parent.txnCount + child.txnCount
    fees := (parent.fees + child.fees) % M64 }

/-! ## Rewards, min balance -/

def addSat (a b : Nat) : Nat := if a + b < M64 then a + b else M64 - 1

/-- pending rewards of an account at the block's rewards level (exact, unbounded) -/
def pending (P : Params) (a : Account) : Nat :=
  if a.status = .notPart then 0 else (a.bal / P.rewardUnit) * (P.level - a.rewardsBase)

/-- balance with pending rewards counted at the current level: the quantity C18 sums -/
def balWP (P : Params) (a : Account) : Nat := a.bal + pending P a

/-- `basics.WithUpdatedRewards`; the `Panicf` on overflow is `.panic` -/
def withRewards (P : Params) (a : Account) : Except Err Account :=
  if a.status = .notPart then .ok a
  else if P.level < a.rewardsBase then .error .panic
  else
    let rewards := (a.bal / P.rewardUnit) * (P.level - a.rewardsBase)
    if M64 ≤ rewards then .error .panic
    else if M64 ≤ a.bal + rewards then .error .panic
    else .ok { a with bal := a.bal + rewards, rewardsBase := P.level, rewarded := (a.rewarded + rewards) % M64 }

/-- `AccountData.MinBalance(proto)`: the regenerated `basics.MinBalance` with this model's zero app / box counters -/
def minBalance (P : Params) (a : Account) : Nat :=
  Gen.Fees.MinBalance P.reqs a.totalAssets ⟨0, 0⟩ 0 0 0 0 0

/-- `autoHeartbeat` -/
def autoHeartbeat (P : Params) (before after : Account) : Account :=
  if after.status ≠ .online ∨ after.incentive = false then after
  else if before.bal * 2 < M64 ∧ before.bal * 2 ≤ after.bal then { after with lastHeartbeat := P.round + P.lookback }
  else after

/-! ## Move, takeFee -/

/-- the "only write the change if it's meaningful" condition of `Move` -/
def meaningful (P : Params) (amt : Nat) (before : Account) : Bool :=
  decide (amt ≠ 0) || decide (0 < before.bal / P.rewardUnit) || !P.unfundedSenders

/-- `roundCowState.Move` (reward bookkeeping for ApplyData omitted) -/
def move (P : Params) (x : Ctx) (l : Layer) (src dst : Addr) (amt : Nat) : Except Err Layer :=
  let fromBal := acctOf x l src
  match withRewards P fromBal with
  | .error e => .error e
  | .ok fromNew =>
    let r1 : Except Err Layer :=
      if meaningful P amt fromBal then
        if fromNew.bal < amt then .error .overspend
        else .ok (putAcct l src (autoHeartbeat P fromBal { fromNew with bal := fromNew.bal - amt }))
      else .ok l
    match r1 with
    | .error e => .error e
    | .ok l1 =>
      let toBal := acctOf x l1 dst
      match withRewards P toBal with
      | .error e => .error e
      | .ok toNew =>
        if meaningful P amt toBal then
          if M64 ≤ toNew.bal + amt then .error .overflow
          else .ok (putAcct l1 dst (autoHeartbeat P toBal { toNew with bal := toNew.bal + amt }))
        else .ok l1

/-- `takeFee` -/
def takeFee (P : Params) (x : Ctx) (l : Layer) (t : Txn) : Except Err Layer :=
  match move P x l t.sender P.feeSink t.fee with
  | .error e => .error e
  | .ok l1 => if t.sender = P.feeSink then .ok l1 else .ok { l1 with fees := (l1.fees + t.fee) % M64 }

/-! ## apply.Payment -/

def payment (P : Params) (x : Ctx) (l : Layer) (t : Txn) : Except Err Layer :=
  let r1 : Except Err Layer :=
    if t.amount ≠ 0 ∨ t.receiver ≠ 0 then move P x l t.sender t.receiver t.amount else .ok l
  match r1 with
  | .error e => .error e
  | .ok l1 =>
    if t.closeTo = 0 then .ok l1
    else
      match withRewards P (acctOf x l1 t.sender) with
      | .error e => .error e
      | .ok rec =>
        match move P x l1 t.sender t.closeTo rec.bal with
        | .error e => .error e
        | .ok l2 =>
          match withRewards P (acctOf x l2 t.sender) with
          | .error e => .error e
          | .ok rec2 =>
            if rec2.bal ≠ 0 then .error .closeNonZero
            else if 0 < rec2.totalAssets then .error .closeAssets
            else if 0 < rec2.totalAssetParams then .error .closeAssetParams
            else .ok (putAcct l2 t.sender Account.zero)

/-! ## apply.Keyreg -/

def keyreg (P : Params) (x : Ctx) (l : Layer) (t : Txn) : Except Err Layer :=
  let record := acctOf x l t.sender
  if record.status = .notPart then .error .nonPart
  else
    let r0 : Account := { record with voteId := t.votePK, selId := t.selPK,
                                      spId := if P.spKeyregCheck then t.spPK else record.spId }
    if t.votePK = 0 ∨ t.selPK = 0 then
      if t.nonpart ∧ ¬ P.supportNonPart then .error .nonPartUnsupported
      else
        let st : Status := if t.nonpart then .notPart else .offline
        .ok (putAcct l t.sender { r0 with status := st, voteFirst := 0, voteLast := 0, voteKD := 0 })
    else
      if P.keyregCoherency ∧ t.voteLast ≤ P.round then .error .keyExpired
      else if P.keyregCoherency ∧ P.round + 1 < t.voteFirst then .error .keyFuture
      else
        let r1 : Account := { r0 with status := .online,
                                      lastHeartbeat := if P.payoutsEnabled then P.round + P.lookback else r0.lastHeartbeat,
                                      voteFirst := t.voteFirst, voteLast := t.voteLast, voteKD := t.voteKD }
        let r2 : Account := if P.goOnlineFee ≤ t.fee ∧ P.payoutsEnabled then { r1 with incentive := true } else r1
        .ok (putAcct l t.sender r2)

/-! ## apply/asset.go -/

/-- the amount of a holding, 0 when there is none ("assetHolding is initialized to the zero value if none was found") -/
def amountOf (x : Ctx) (l : Layer) (k : ResKey) : Nat :=
  match holdingOf x l k with
  | some h => h.amount
  | none => 0

/-- `getParams` -/
def getParams (x : Ctx) (l : Layer) (i : AssetId) : Except Err (AssetParams × Addr) :=
  match creatorOf x l i with
  | none => .error .noAsset
  | some cr =>
    match paramsOf x l (cr, i) with
    | none => .error .noAssetParams
    | some p => .ok (p, cr)

/-- `AssetConfig`; `ctr` is `cow.Counter()` taken before this transaction is counted -/
def assetConfig (P : Params) (x : Ctx) (l : Layer) (t : Txn) (ctr : Nat) : Except Err Layer :=
  if t.asset = 0 then
    let record := acctOf x l t.sender
    let newidx := ctr + 1
    if (paramsOf x l (t.sender, newidx)).isSome then .error .assetExists
    else if 0 < P.maxAssetsPerAccount ∧ P.maxAssetsPerAccount ≤ record.totalAssets then .error .tooManyAssets
    else
      let l1 := putAcct l t.sender { record with totalAssets := addSat record.totalAssets 1,
                                                   totalAssetParams := addSat record.totalAssetParams 1 }
      let l2 := putParamsD x l1 (t.sender, newidx) (.val t.params)
      let l3 := putHoldingD x l2 (t.sender, newidx) (.val ⟨t.params.total, false⟩)
      .ok (putCreatable l3 newidx t.sender true)
  else
    match getParams x l t.asset with
    | .error e => .error e
    | .ok (params, creator) =>
      if params.manager = 0 ∨ t.sender ≠ params.manager then .error .notManager
      else if t.params = AssetParams.empty then
        let record := acctOf x l creator
        if record.totalAssets = 0 then .error .destroyNoAssets
        else if record.totalAssetParams = 0 then .error .destroyNoParams
        else
          if amountOf x l (creator, t.asset) ≠ params.total then .error .destroyHeld
          else
            let l1 := putAcct l creator { record with totalAssetParams := record.totalAssetParams - 1,
                                                       totalAssets := record.totalAssets - 1 }
            let l2 := putCreatable l1 t.asset creator false
            if ¬ inDeltas l2 creator then .error .notInDeltas
            else
              let l3 := putHoldingD x l2 (creator, t.asset) .deleted
              .ok (putParamsD x l3 (creator, t.asset) .deleted)
      else
        let p1 := if params.manager ≠ 0 then { params with manager := t.params.manager } else params
        let p2 := if p1.reserve ≠ 0 then { p1 with reserve := t.params.reserve } else p1
        let p3 := if p2.freeze ≠ 0 then { p2 with freeze := t.params.freeze } else p2
        let p4 := if p3.clawback ≠ 0 then { p3 with clawback := t.params.clawback } else p3
        .ok (putParamsD x l (creator, t.asset) (.val p4))

/-- `takeOut` -/
def takeOut (x : Ctx) (l : Layer) (a : Addr) (i : AssetId) (amount : Nat) (bypassFreeze : Bool) : Except Err Layer :=
  if amount = 0 then .ok l
  else
    match holdingOf x l (a, i) with
    | none => .error .missing
    | some h =>
      if h.frozen ∧ ¬ bypassFreeze then .error .frozen
      else if h.amount < amount then .error .assetOverspend
      else .ok (putHoldingD x l (a, i) (.val { h with amount := h.amount - amount }))

/-- `putIn` -/
def putIn (x : Ctx) (l : Layer) (a : Addr) (i : AssetId) (amount : Nat) (bypassFreeze : Bool) : Except Err Layer :=
  if amount = 0 then .ok l
  else
    match holdingOf x l (a, i) with
    | none => .error .rcvOptin
    | some h =>
      if h.frozen ∧ ¬ bypassFreeze then .error .rcvFrozen
      else if M64 ≤ h.amount + amount then .error .assetOverflow
      else .ok (putHoldingD x l (a, i) (.val { h with amount := h.amount + amount }))

/-- the clawback prologue of `AssetTransfer`: (source, clawback) -/
def xferSource (x : Ctx) (l : Layer) (t : Txn) : Except Err (Addr × Bool) :=
  if t.assetSender = 0 then .ok (t.sender, false)
  else
    match getParams x l t.asset with
    | .error e => .error e
    | .ok (params, _) =>
      if params.clawback = 0 ∨ t.sender ≠ params.clawback then .error .noClawback
      else .ok (t.assetSender, true)

/-- the opt-in part of `AssetTransfer` ("allocate a slot") -/
def optIn (P : Params) (x : Ctx) (l : Layer) (t : Txn) (source : Addr) (clawback : Bool) : Except Err Layer :=
  if t.assetAmount = 0 ∧ t.assetReceiver = source ∧ clawback = false then
    match holdingOf x l (source, t.asset) with
    | some _ => .ok l
    | none =>
      match getParams x l t.asset with
      | .error e => .error e
      | .ok (params, _) =>
        let record := acctOf x l source
        if 0 < P.maxAssetsPerAccount ∧ P.maxAssetsPerAccount ≤ record.totalAssets then .error .tooManyAssets
        else
          let l1 := putAcct l source { record with totalAssets := addSat record.totalAssets 1 }
          .ok (putHoldingD x l1 (source, t.asset) (.val ⟨0, params.defaultFrozen⟩))
  else .ok l

/-- the close-to part of `AssetTransfer` -/
def assetClose (x : Ctx) (l : Layer) (t : Txn) (source : Addr) (clawback : Bool) : Except Err Layer :=
  if t.assetCloseTo = 0 then .ok l
  else if clawback then .error .closeByClawback
  else
    let record := acctOf x l source
    if record.totalAssets = 0 then .error .closeNotOpted
    else if (paramsOf x l (source, t.asset)).isSome then .error .closeCreator
    else
      match holdingOf x l (source, t.asset) with
      | none => .error .closeMissing
      | some snd =>
        let bypass := (paramsOf x l (t.assetCloseTo, t.asset)).isSome
        match takeOut x l source t.asset snd.amount bypass with
        | .error e => .error e
        | .ok l1 =>
          match putIn x l1 t.assetCloseTo t.asset snd.amount bypass with
          | .error e => .error e
          | .ok l2 =>
            if amountOf x l2 (source, t.asset) ≠ 0 then .error .assetCloseNonZero
            else
              let l3 := putAcct l2 source { record with totalAssets := record.totalAssets - 1 }
              if ¬ inDeltas l3 source then .error .notInDeltas
              else .ok (putHoldingD x l3 (source, t.asset) .deleted)

/-- `AssetTransfer` -/
def assetTransfer (P : Params) (x : Ctx) (l : Layer) (t : Txn) : Except Err Layer :=
  match xferSource x l t with
  | .error e => .error e
  | .ok (source, clawback) =>
    match optIn P x l t source clawback with
    | .error e => .error e
    | .ok l1 =>
      match takeOut x l1 source t.asset t.assetAmount clawback with
      | .error e => .error e
      | .ok l2 =>
        match putIn x l2 t.assetReceiver t.asset t.assetAmount clawback with
        | .error e => .error e
        | .ok l3 => assetClose x l3 t source clawback

/-- `AssetFreeze` -/
def assetFreeze (x : Ctx) (l : Layer) (t : Txn) : Except Err Layer :=
  match getParams x l t.asset with
  | .error e => .error e
  | .ok (params, _) =>
    if params.freeze = 0 ∨ t.sender ≠ params.freeze then .error .noFreeze
    else
      match holdingOf x l (t.freezeAccount, t.asset) with
      | none => .error .frzNotFound
      | some h => .ok (putHoldingD x l (t.freezeAccount, t.asset) (.val { h with frozen := t.frozen }))

/-! ## applyTransaction, checkMinBalance, transaction -/

/-- the type switch of `applyTransaction` -/
def applyKind (P : Params) (x : Ctx) (l : Layer) (t : Txn) (ctr : Nat) : Except Err Layer :=
  match t.kind with
  | .pay => payment P x l t
  | .keyreg => keyreg P x l t
  | .acfg => assetConfig P x l t ctr
  | .axfer => assetTransfer P x l t
  | .afrz => assetFreeze x l t

/-- `applyTransaction`: take the fee, then apply (Rekey is a no-op: RekeyTo is always zero here) -/
def applyTxn (P : Params) (x : Ctx) (l : Layer) (t : Txn) (ctr : Nat) : Except Err Layer :=
  match takeFee P x l t with
  | .error e => .error e
  | .ok l1 => applyKind P x l1 t ctr

def exempt (P : Params) (a : Addr) : Bool :=
  decide (a = P.feeSink) || decide (a = P.rewardsPool) || decide (a = P.spSender)

/-- the per-account body of `checkMinBalance` -/
def checkOne (P : Params) (x : Ctx) (l : Layer) (a : Addr) : Except Err Unit :=
  if exempt P a then .ok ()
  else
    let data := acctOf x l a
    if data.isZero then .ok ()
    else
      match withRewards P data with
      | .error e => .error e
      | .ok dataNew =>
        if dataNew.bal < minBalance P dataNew then .error .minBal
        else if P.maxMinBalance ≠ 0 ∧ P.maxMinBalance < minBalance P dataNew then .error .maxMinBal
        else .ok ()

/-- `checkMinBalance` over `cow.modifiedAccounts()` in order -/
def checkAll (P : Params) (x : Ctx) (l : Layer) : List Addr → Except Err Unit
  | [] => .ok ()
  | a :: r =>
    match checkOne P x l a with
    | .error e => .error e
    | .ok () => checkAll P x l r

/-- `cow.addTx` -/
def addTx (l : Layer) (id : TxId) : Layer := { l with txids := l.txids ++ [id], txnCount := l.txnCount + 1 }

/-- `BlockEvaluator.transaction` (validate ∧ generate; the authorizer check is trivial without rekeying) -/
def evalTxn (P : Params) (x : Ctx) (l : Layer) (g : List Txn) (t : Txn) : Except Err Layer :=
  if P.round < t.fv ∨ t.lv < P.round then .error .dead
  else if seenTx x l (txid g t) then .error .dup
  else
    match applyTxn P x l t (counterOf x l) with
    | .error e => .error e
    | .ok l1 =>
      match checkAll P x l1 (modified l1) with
      | .error e => .error e
      | .ok () => .ok (addTx l1 (txid g t))

/-! ## WellFormed (subset) -/

def keyregWellFormed (P : Params) (t : Txn) : Bool :=
  if t.sender = P.feeSink then false
  else if P.keyregCoherency ∧
      (t.voteLast < t.voteFirst
       ∨ ¬ ((t.votePK = 0 ∧ t.selPK = 0 ∧ t.voteKD = 0) ∨ (t.votePK ≠ 0 ∧ t.selPK ≠ 0 ∧ t.voteKD ≠ 0))
       ∨ (t.voteKD = 0 ∧ (t.voteFirst ≠ 0 ∨ t.voteLast ≠ 0))
       ∨ (t.voteKD ≠ 0 ∧ (t.voteLast = 0 ∨ t.lv + 1 < t.voteFirst))) then false
  else if t.nonpart ∧ (¬ P.supportNonPart ∨ ¬ (t.votePK = 0 ∨ t.selPK = 0)) then false
  else
    -- stateProofPKWellFormed
    if ¬ P.spKeyregCheck then decide (t.spPK = 0)
    else if P.maxKeyregValidPeriod ≠ 0 ∧ P.maxKeyregValidPeriod < t.voteLast - t.voteFirst then false
    else if t.nonpart then decide (t.spPK = 0)
    else if t.votePK = 0 ∨ t.selPK = 0 then decide (t.spPK = 0)
    else decide (t.spPK ≠ 0)

/-- `Transaction.WellFormed`, the checks a modelled transaction can fail -/
def wellFormed (P : Params) (t : Txn) : Bool :=
  let typeOk : Bool :=
    match t.kind with
    | .pay =>
      if t.sender = t.closeTo then false
      else if t.sender = P.feeSink then
        (!P.payoutsEnabled) && decide (t.receiver = P.rewardsPool) && decide (t.closeTo = 0)
      else true
    | .keyreg => keyregWellFormed P t
    | .acfg => decide (t.params.decimals ≤ P.maxAssetDecimals)
    | .axfer => !(decide (t.asset = 0 ∧ t.assetAmount ≠ 0)) && !(decide (t.assetSender ≠ 0 ∧ t.assetCloseTo ≠ 0))
    | .afrz => decide (t.asset ≠ 0) && decide (t.freezeAccount ≠ 0)
  typeOk && decide (t.fv ≤ t.lv) && decide (t.lv - t.fv ≤ P.maxTxnLife)
    && decide (t.sender ≠ P.rewardsPool) && decide (t.sender ≠ 0)

/-- index of the first member that is not well formed -/
def firstMalformed (P : Params) : Nat → List Txn → Option Nat
  | _, [] => none
  | i, t :: r => if wellFormed P t then firstMalformed P (i + 1) r else some i

/-! ## TransactionGroup -/

/-- errors whose Go message names the failing transaction (`transaction <txid>: …`): they carry the member index -/
abbrev GErr := Err × Option Nat

/-- the member loop of `TransactionGroup`; `g0` is the group tag of the first member, `used` = `blockTxBytes + groupTxBytes` so far -/
def groupLoop (P : Params) (x : Ctx) (g : List Txn) (g0 : Nat) : Nat → Nat → Layer → List Txn → Except GErr Layer
  | _, _, l, [] => .ok l
  | used, i, l, t :: ts =>
    match evalTxn P x l g t with
    | .error e => .error (e, some i)
    | .ok l1 =>
      -- `groupTxBytes += txib.GetEncodedLength(); if eval.blockTxBytes+groupTxBytes > eval.maxTxnBytesPerBlock → ErrNoSpace`
      if P.maxBytes < used + t.size then .error (.noSpace, none)
      else if t.grp ≠ g0 then .error (.grpInconsistent, none)
      else if t.grp = 0 ∧ 1 < g.length then .error (.grpEmpty, none)
      else groupLoop P x g g0 (used + t.size) (i + 1) l1 ts

/-- `transactions.SummarizeFees` for unsigned transactions with short notes: usage 1e6 per member -/
def feeUsage (g : List Txn) : Nat := g.foldl (fun u _ => Gen.Basics.AddSaturate 64 u 1000000) 0
def feesPaid (g : List Txn) : Nat := g.foldl (fun p t => Gen.Basics.AddSaturate 64 p t.fee) 0

/-- `txgroup[0].SignedTxn.Txn.Group` (as a tag) -/
def groupTag : List Txn → Nat
  | [] => 0
  | t :: _ => t.grp

/-- Evaluate the group in a fresh child of `top`: the child at the end, or the error. -/
def evalGroupChild (P : Params) (x : Ctx) (top : Layer) (used : Nat) (g : List Txn) : Except GErr Layer :=
  if P.maxGroupSize < g.length then .error (.grpSize, none)
  else
    match firstMalformed P 0 g with
    | some i => .error (.malformed, some i)
    | none =>
      match groupLoop P { x with parents := top :: x.parents } g (groupTag g) used 0 {} g with
      | .error e => .error e
      | .ok child =>
        if groupTag g ≠ 0 ∧ groupTag g ≠ 1 then .error (.grpIncomplete, none)
        else if Gen.Fees.CheckGroupFees (feesPaid g) (feeUsage g) P.minFee then .error (.fee, none)
        else .ok child

/-- The evaluator between groups: its top-level cow layer and the payset. -/
structure EvalState where
  top : Layer := {}
  payset : List Txn := []
  txBytes : Nat := 0               -- eval.blockTxBytes
deriving Repr, Inhabited

/-- `groupTxBytes` of a fully evaluated group -/
def groupBytes (g : List Txn) : Nat := (g.map (·.size)).sum

/-- `BlockEvaluator.TransactionGroup` -/
def evalGroup (P : Params) (x : Ctx) (s : EvalState) (g : List Txn) : Except GErr EvalState :=
  match g with
  | [] => .ok s
  | _ :: _ =>
    match evalGroupChild P x s.top s.txBytes g with
    | .error e => .error e
    | .ok child => .ok { top := commitToParent child s.top, payset := s.payset ++ g, txBytes := s.txBytes + groupBytes g }

/-- a block under construction: groups are tried one after the other, a failing group is dropped -/
def evalBlock (P : Params) (x : Ctx) (s : EvalState) : List (List Txn) → EvalState
  | [] => s
  | g :: gs =>
    match evalGroup P x s g with
    | .ok s' => evalBlock P x s' gs
    | .error _ => evalBlock P x s gs

end AlgoVerif.Model.LedgerCore
