/-
Model of the kmd SQLite wallet (daemon/kmd/wallet/driver/sqlite.go, sqlite_crypto.go), written after the Go code
branch by branch.  Core Lean only.

One `Wallet` value = one wallet database file (tables `metadata`, `keys`) + the in-memory handle `*SQLiteWallet`:

  maxIdx    metadata.max_key_idx_encrypted (plaintext; CreateWallet stores 0)
  keys      table `keys` in insertion order: (address PRIMARY KEY, key_idx) — key_idx is NULL (`none`) for a key
            inserted by ImportKey and `some nextIndex` for one inserted by generateKeyTxLocked
  pw        the password under which metadata.mep_encrypted was sealed (never changes: there is no change-password op)
  name      metadata.wallet_name
  mdk       the master derivation key (a symbol)
  others    wallet names of the OTHER databases in the same wallets directory (RenameWallet scans all of them)
  unlocked  handle state: Init(pw) succeeded, i.e. masterEncryptionKey / masterDerivationKey / walletPasswordHash are
            in memory.  FetchWallet returns a locked handle on the same database.

Symbolic cryptography (ideal; assumptions of every theorem, listed in checks/C46.py):
 * `derive : Nat → α` is extractKeyWithIndex(mdk, ·) followed by publicKeyToAddress (HKDF-Expand over SHA-512/256 with
   info "AlgorandDeterministicKey-<idx>", then the Ed25519 public key of that seed).  Theorems that need it take
   `Function.Injective derive` as a hypothesis.
 * scrypt+secretbox: decryptBlobWithPassword succeeds iff the password/key is the one used to seal the blob
   (`pw = w.pw`); with a nil key (locked handle) it fails with errDeriveKey (len(password) != masterKeyLen) —
   and encryptBlobWithKey likewise.  fastHashWithSalt is collision free (CheckPassword on an unlocked handle).
 * every operation is one SQLite transaction (GenerateKey: explicit exclusive transaction containing the skip loop,
   the INSERT and the UPDATE of max_key_idx; the others: one autocommit statement), so the observable states —
   also after a crash — are exactly the states between operations.  `fetch` is what a restart does to the handle.

Machine integers: nextIndex is a uint64; the loop stops with errTooManyKeys at nextIndex == 2^63.  Under the
invariant `maxIdx < 2^63` (Lemmas/Wallet.lean `Inv.bound`) the test `overflow ≤ next` below is the same as `==`
and `highestIndex + 1` cannot wrap.
-/
namespace AlgoVerif.Model.Wallet



abbrev Pw := Nat
abbrev Name := Nat
abbrev Mdk := Nat

/-- sqliteIntOverflow = 1 << 63 -/
def overflow : Nat := 9223372036854775808

/-- the error values the modelled paths return (sqlite_errors.go) -/
inductive Err where
  | decrypt      -- errDecrypt           (wrong password)
  | notFound     -- errKeyNotFound
  | keyExists    -- errKeyExists         (PRIMARY KEY constraint on INSERT)
  | deriveKey    -- errDeriveKey         (locked handle: nil master encryption key)
  | sameName     -- errSameName
  | tooMany      -- errTooManyKeys
  | noMnemonic   -- errNoMnemonicUX
deriving DecidableEq, Repr

structure Wallet (α : Type) where
  maxIdx : Nat
  keys : List (α × Option Nat)
  pw : Pw
  name : Name
  mdk : Mdk
  others : List Name
  unlocked : Bool

/-- what an operation returns -/
inductive Res (α : Type) where
  | ok
  | addr (a : α)               -- GenerateKey / ImportKey: the address
  | sk (a : α)                 -- ExportKey: the secret key of address a
  | mdk (m : Option Mdk)       -- ExportMasterDerivationKey: `none` = the all-zero key a locked handle hands out
  | keys (l : List α)          -- ListKeys
  | err (e : Err)

def Res.isErr {α : Type} : Res α → Bool
  | .err _ => true
  | _ => false

/-- a result that carries secret material -/
def Res.isSecret {α : Type} : Res α → Bool
  | .sk _ => true
  | .mdk (some _) => true
  | _ => false

/-- SELECT address FROM keys -/
def addrs {α : Type} (keys : List (α × Option Nat)) : List α := keys.map Prod.fst

variable {α : Type} [DecidableEq α]

/-- CreateWallet (also: restore from a master derivation key): max_key_idx = 0, no keys; FetchWallet gives a locked handle -/
def create (m : Mdk) (pw : Pw) (name : Name) (others : List Name) : Wallet α :=
  { maxIdx := 0, keys := [], pw := pw, name := name, mdk := m, others := others, unlocked := false }

/-- the `for` loop of generateKeyTxLocked: `SELECT COUNT(1) FROM keys WHERE address=?` on derive(next);
    bump while present; errTooManyKeys (`none`) at 2^63 -/
def genLoop (derive : Nat → α) (keys : List (α × Option Nat)) (next : Nat) : Option Nat :=
  if overflow ≤ next then none
  else if derive next ∈ addrs keys then genLoop derive keys (next + 1)
  else some next
termination_by overflow - next
decreasing_by omega

/-- FetchWallet: a fresh handle on the same database -/
def fetch (w : Wallet α) : Wallet α × Res α := ({ w with unlocked := false }, .ok)

/-- CheckPassword -/
def checkPassword (w : Wallet α) (pw : Pw) : Wallet α × Res α :=
  if pw = w.pw then (w, .ok) else (w, .err .decrypt)

/-- Init: decrypt the master encryption key with pw, then the MDK; keep both in memory -/
def init (w : Wallet α) (pw : Pw) : Wallet α × Res α :=
  if pw = w.pw then ({ w with unlocked := true }, .ok) else (w, .err .decrypt)

/-- index picked by generateKeyTxLocked on this state (none: locked handle or too many keys) -/
def nextGen (derive : Nat → α) (w : Wallet α) : Option Nat :=
  if w.unlocked then genLoop derive w.keys (w.maxIdx + 1) else none

/-- GenerateKey(false): one transaction = read max_key_idx, skip loop, INSERT (addr, sk, nextIndex),
    UPDATE max_key_idx := nextIndex.  A locked handle fails decrypting max_key_idx (errDeriveKey) first. -/
def generate (derive : Nat → α) (w : Wallet α) : Wallet α × Res α :=
  if w.unlocked then
    match genLoop derive w.keys (w.maxIdx + 1) with
    | none => (w, .err .tooMany)
    | some j => ({ w with keys := w.keys ++ [(derive j, some j)], maxIdx := j }, .addr (derive j))
  else (w, .err .deriveKey)

/-- GenerateKey(true) -/
def generateMnemonic (w : Wallet α) : Wallet α × Res α := (w, .err .noMnemonic)

/-- ImportKey: NO password; encrypt sk under the in-memory master key (errDeriveKey when locked), then
    INSERT (addr, sk) — key_idx stays NULL; constraint violation = errKeyExists -/
def importKey (w : Wallet α) (a : α) : Wallet α × Res α :=
  if w.unlocked then
    if a ∈ addrs w.keys then (w, .err .keyExists)
    else ({ w with keys := w.keys ++ [(a, none)] }, .addr a)
  else (w, .err .deriveKey)

/-- DeleteKey: CheckPassword first, then DELETE (no error when nothing matched); max_key_idx is NOT touched -/
def deleteKey (w : Wallet α) (a : α) (pw : Pw) : Wallet α × Res α :=
  if pw = w.pw then ({ w with keys := w.keys.filter (fun e => e.1 ≠ a) }, .ok) else (w, .err .decrypt)

/-- ExportKey: CheckPassword first, then fetchSecretKey (row lookup, then decrypt with the in-memory master key) -/
def exportKey (w : Wallet α) (a : α) (pw : Pw) : Wallet α × Res α :=
  if pw = w.pw then
    if a ∈ addrs w.keys then
      if w.unlocked then (w, .sk a) else (w, .err .deriveKey)
    else (w, .err .notFound)
  else (w, .err .decrypt)

/-- ExportMasterDerivationKey: CheckPassword first, then copy the in-memory MDK (nil ⇒ zero key on a locked handle) -/
def exportMDK (w : Wallet α) (pw : Pw) : Wallet α × Res α :=
  if pw = w.pw then (w, .mdk (if w.unlocked then some w.mdk else none)) else (w, .err .decrypt)

/-- SQLiteWalletDriver.RenameWallet: name clash over ALL databases of the directory (incl. this one) first,
    then CheckPassword, then UPDATE metadata -/
def rename (w : Wallet α) (n : Name) (pw : Pw) : Wallet α × Res α :=
  if n = w.name ∨ n ∈ w.others then (w, .err .sameName)
  else if pw = w.pw then ({ w with name := n }, .ok)
  else (w, .err .decrypt)

/-- ListKeys -/
def listKeys (w : Wallet α) : Wallet α × Res α := (w, .keys (addrs w.keys))

inductive Op (α : Type) where
  | fetch
  | init (pw : Pw)
  | gen
  | genMn
  | imp (a : α)
  | del (a : α) (pw : Pw)
  | exp (a : α) (pw : Pw)
  | mdk (pw : Pw)
  | ren (n : Name) (pw : Pw)
  | chk (pw : Pw)
  | list

/-- the password an operation presents, if it takes one -/
def Op.pw? : Op α → Option Pw
  | .init p | .del _ p | .exp _ p | .mdk p | .ren _ p | .chk p => some p
  | _ => none

def step (derive : Nat → α) (w : Wallet α) : Op α → Wallet α × Res α
  | .fetch => fetch w
  | .init p => init w p
  | .gen => generate derive w
  | .genMn => generateMnemonic w
  | .imp a => importKey w a
  | .del a p => deleteKey w a p
  | .exp a p => exportKey w a p
  | .mdk p => exportMDK w p
  | .ren n p => rename w n p
  | .chk p => checkPassword w p
  | .list => listKeys w

/-- state after a sequence of operations -/
def run (derive : Nat → α) (w : Wallet α) : List (Op α) → Wallet α
  | [] => w
  | op :: ops => run derive (step derive w op).1 ops

/-- results of a sequence of operations -/
def trace (derive : Nat → α) (w : Wallet α) : List (Op α) → List (Res α)
  | [] => []
  | op :: ops => (step derive w op).2 :: trace derive (step derive w op).1 ops

/-- index generated by this operation, if it is a successful GenerateKey -/
def genOf (derive : Nat → α) (w : Wallet α) : Op α → Option Nat
  | .gen => nextGen derive w
  | _ => none

/-- address stored by this operation, if it is a successful ImportKey -/
def impOf (w : Wallet α) : Op α → Option α
  | .imp a => if w.unlocked ∧ a ∉ addrs w.keys then some a else none
  | _ => none

/-- the indices j₁, j₂, … of the keys generated along the sequence, in order -/
def genIdxs (derive : Nat → α) (w : Wallet α) : List (Op α) → List Nat
  | [] => []
  | op :: ops => (genOf derive w op).toList ++ genIdxs derive (step derive w op).1 ops

/-- the addresses successfully imported along the sequence, in order -/
def impOks (derive : Nat → α) (w : Wallet α) : List (Op α) → List α
  | [] => []
  | op :: ops => (impOf w op).toList ++ impOks derive (step derive w op).1 ops

/-- last element of `l`, or `d` when empty (j₀ = the stored max_key_idx) -/
def lastOr (d : Nat) : List Nat → Nat
  | [] => d
  | j :: l => lastOr j l

end AlgoVerif.Model.Wallet
