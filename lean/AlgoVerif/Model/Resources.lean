/-
Model.Resources — resource availability for application programs
(data/transactions/logic/resources.go, eval.go resolvers, box.go availableAppBox, EvalContract's prologue).

Mirrors the Go code of the pinned tree:
  * `resources` (createdAsas/createdApps, shared{Accounts,Asas,Apps,Holdings,Locals}, boxes with dirtiness,
    unnamedAccess, dirtyBytes), `fill*` for every transaction type (foreign arrays and tx.Access), `computeAvailability`;
  * `availableAccount/Asset/App`, `allowsHolding/allowsLocals`, `resolveAccount/accountReference/mutableAccountReference`,
    `appReference/resolveApp`, `assetReference/resolveAsset`, `localsReference`, `holdingReference`, `assign*`;
  * `allows*` for inner transactions; `availableAppBox` + `authorizeBoxAccess` (top-level frames) + the read / write I/O budget;
  * the unnamed-resource policy hook (simulation) as an optional record of sets.

Addresses are symbolic: `zero`, `user n`, `app id` (= GetApplicationAddress id). That application addresses are pairwise
distinct, distinct from every other address in play and non-zero is the hash assumption of this model (constructor injectivity).
Core Lean only (the driver links this file).
-/
namespace AlgoVerif.Model.Resources

/-! ## Basic types -/

inductive Addr where
  | zero
  | user (n : Nat)
  | app (id : Nat)
deriving DecidableEq, Repr, Inhabited

/-- `EvalParams.GetApplicationAddress` -/
def appAddr (id : Nat) : Addr := .app id

/-- `transactions.ResourceRef`: a struct; well-formed elements set exactly one field, but the code reads fields
independently, so the model keeps the struct. `box.2 = ""` stands for a nil name. -/
structure RRef where
  address : Addr := .zero
  asset : Nat := 0
  app : Nat := 0
  holding : Nat × Nat := (0, 0)
  locals : Nat × Nat := (0, 0)
  box : Nat × String := (0, "")
deriving DecidableEq, Repr, Inhabited

/-- `ApplicationCallTxnFields` (the reference-carrying part). `access = none` is a nil `tx.Access`. -/
structure Appl where
  appId : Nat := 0
  oc : Nat := 0
  accounts : List Addr := []
  assets : List Nat := []
  apps : List Nat := []
  boxes : List (Nat × String) := []
  access : Option (List RRef) := none
deriving Repr, Inhabited

inductive Txn where
  | pay (snd rcv close : Addr)
  | keyreg (snd : Addr)
  | acfg (snd : Addr) (asset : Nat)
  | axfer (snd : Addr) (asset : Nat) (rcv asnd aclose : Addr)
  | afrz (snd : Addr) (asset : Nat) (acct : Addr)
  | appl (snd : Addr) (f : Appl)
  | other (snd : Addr)
deriving Repr, Inhabited

abbrev BoxKey := Nat × String

/-- `logic.resources` -/
structure Res where
  createdAsas : List Nat := []
  createdApps : List Nat := []
  sharedAccounts : List Addr := []
  sharedAsas : List Nat := []
  sharedApps : List Nat := []
  sharedHoldings : List (Addr × Nat) := []
  sharedLocals : List (Addr × Nat) := []
  /-- association list = Go map `boxes`: key ↦ dirty -/
  boxes : List (BoxKey × Bool) := []
  unnamedAccess : Nat := 0
  dirtyBytes : Nat := 0
deriving Repr, Inhabited

/-- the simulation hook `UnnamedResourcePolicy` as fixed sets -/
structure Policy where
  accts : List Addr := []
  assets : List Nat := []
  apps : List Nat := []
  holdings : List (Addr × Nat) := []
  locals : List (Addr × Nat) := []
  boxes : List BoxKey := []
  /-- `IOSurplus` accepts a negative surplus -/
  allowDeficit : Bool := false
deriving Repr, Inhabited

def sharedResourcesVersion : Nat := 9
def createdResourcesVersion : Nat := 6
def appAddressAvailableVersion : Nat := 7
def directRefEnabledVersion : Nat := 4
def lastForbiddenResource : Nat := 255

/-! ## box map -/

def boxGet (m : List (BoxKey × Bool)) (k : BoxKey) : Option Bool :=
  match m with
  | [] => none
  | (k', d) :: rest => if k' = k then some d else boxGet rest k

def boxSet (m : List (BoxKey × Bool)) (k : BoxKey) (d : Bool) : List (BoxKey × Bool) :=
  (k, d) :: m.filter (fun e => e.1 ≠ k)

def boxKeys (m : List (BoxKey × Bool)) : List BoxKey := m.map (·.1)

/-! ## tx.Access helpers (data/transactions/application.go) -/

def accessList (f : Appl) : List RRef := match f.access with | some l => l | none => []

def RRef.isEmpty (rr : RRef) : Bool :=
  rr.address = .zero && rr.asset = 0 && rr.app = 0 && rr.holding = (0, 0) && rr.locals = (0, 0) && rr.box = (0, "")

/-- `HoldingRef.Resolve` -/
def resolveHoldingRef (al : List RRef) (snd : Addr) (h : Nat × Nat) : Option (Addr × Nat) :=
  let addr? : Option Addr :=
    if h.1 = 0 then some snd
    else if h.1 > al.length then none
    else match al[h.1 - 1]? with
      | some rr => if rr.address = .zero then none else some rr.address
      | none => none
  match addr? with
  | none => none
  | some a =>
    if h.2 = 0 ∨ h.2 > al.length then none
    else match al[h.2 - 1]? with
      | some rr => if rr.asset = 0 then none else some (a, rr.asset)
      | none => none

/-- `LocalsRef.Resolve` -/
def resolveLocalsRef (al : List RRef) (snd : Addr) (current : Nat) (l : Nat × Nat) : Option (Addr × Nat) :=
  let addr? : Option Addr :=
    if l.1 = 0 then some snd
    else if l.1 > al.length then none
    else match al[l.1 - 1]? with
      | some rr => if rr.address = .zero then none else some rr.address
      | none => none
  match addr? with
  | none => none
  | some a =>
    if l.2 = 0 then some (a, current)
    else if l.2 > al.length then none
    else match al[l.2 - 1]? with
      | some rr => if rr.app = 0 then none else some (a, rr.app)
      | none => none

/-- `BoxRef.Resolve` (Access flavour) -/
def resolveBoxRef (al : List RRef) (b : Nat × String) : Option (Nat × String) :=
  if b.1 = 0 then some (0, b.2)
  else if b.1 ≤ al.length then
    match al[b.1 - 1]? with
    | some rr => if rr.app ≠ 0 then some (rr.app, b.2) else none
    | none => none
  else none

/-! ## fill* (resources.go). Each transaction contributes lists; the Go maps are sets, so only membership matters. -/

/-- `shareAccountAndHolding` contributes the holding only for a non-zero asset id -/
def holdingIf (a : Addr) (id : Nat) : List (Addr × Nat) := if id ≠ 0 then [(a, id)] else []

/-- `shareBox`: index/app 0 means the called app; ignored on a creation (resolved when the app runs) -/
def shareBoxKey (app : Nat) (name : String) (current : Nat) : List BoxKey :=
  if app = 0 then (if current = 0 then [] else [(current, name)]) else [(app, name)]

/-- what one tx.Access element contributes, following the `switch` order of fillApplicationCallAccess -/
inductive AccessKind where
  | address (a : Addr) | asset (id : Nat) | app (id : Nat)
  | holding (a : Addr) (id : Nat) | locals (a : Addr) (id : Nat) | box (app : Nat) (name : String) | empty
deriving Repr

/-- ill-formed index references resolve to the zero values the Go code is left with after ignoring the error -/
def accessKind (al : List RRef) (snd : Addr) (appId : Nat) (rr : RRef) : AccessKind :=
  if rr.address ≠ .zero then .address rr.address
  else if rr.asset ≠ 0 then .asset rr.asset
  else if rr.app ≠ 0 then .app rr.app
  else if rr.holding ≠ (0, 0) then
    match resolveHoldingRef al snd rr.holding with
    | some (a, id) => .holding a id
    | none => .holding .zero 0
  else if rr.locals ≠ (0, 0) then
    match resolveLocalsRef al snd appId rr.locals with
    | some (a, id) => .locals a id
    | none => .locals .zero 0
  else if rr.box ≠ (0, "") then
    match resolveBoxRef al rr.box with
    | some (app, name) => .box app name
    | none => .box 0 ""
  else .empty

/-- accounts whose cross products an app call with foreign arrays gets (`txAccounts` of fillApplicationCallForeign) -/
def foreignTxAccounts (snd : Addr) (f : Appl) : List Addr :=
  snd :: f.accounts ++ (if f.appId ≠ 0 then [appAddr f.appId] else []) ++ f.apps.map appAddr

def foreignTxApps (f : Appl) : List Nat := (if f.appId ≠ 0 then [f.appId] else []) ++ f.apps

/-- box keys an app call's `Boxes` contributes at computeAvailability time -/
def foreignBoxKeys (f : Appl) : List BoxKey :=
  f.boxes.flatMap fun br =>
    if br.1 > 0 then
      (if br.1 > f.apps.length then [] else
        match f.apps[br.1 - 1]? with
        | some app => shareBoxKey app br.2 f.appId
        | none => [])
    else shareBoxKey 0 br.2 f.appId

structure Contribution where
  accounts : List Addr := []
  asas : List Nat := []
  apps : List Nat := []
  holdings : List (Addr × Nat) := []
  locals : List (Addr × Nat) := []
  boxes : List BoxKey := []
  unnamed : Nat := 0
deriving Repr, Inhabited

def contribAccess (snd : Addr) (f : Appl) (al : List RRef) : Contribution :=
  let ks := al.map (accessKind al snd f.appId)
  { accounts := snd :: ks.filterMap (fun k => match k with | .address a => some a | _ => none)
    asas := ks.filterMap (fun k => match k with | .asset i => some i | _ => none)
    apps := (if f.appId ≠ 0 then [f.appId] else []) ++ ks.filterMap (fun k => match k with | .app i => some i | _ => none)
    holdings := ks.filterMap (fun k => match k with | .holding a i => some (a, i) | _ => none)
    locals := (if f.appId ≠ 0 then [(snd, f.appId)] else [])
      ++ ks.filterMap (fun k => match k with | .locals a i => some (a, i) | _ => none)
    boxes := ks.flatMap (fun k => match k with | .box app name => shareBoxKey app name f.appId | _ => [])
    unnamed := (ks.filter (fun k => match k with | .empty => true | _ => false)).length }

def contribForeign (snd : Addr) (f : Appl) : Contribution :=
  let accts := foreignTxAccounts snd f
  let apps := foreignTxApps f
  { accounts := accts
    asas := f.assets
    apps := apps
    holdings := accts.flatMap fun a => f.assets.map fun id => (a, id)
    locals := accts.flatMap fun a => apps.map fun id => (a, id)
    boxes := foreignBoxKeys f
    unnamed := (f.boxes.filter (fun br => br.1 = 0 && br.2 = "")).length }

/-- `resources.fill` by transaction type -/
def contrib : Txn → Contribution
  | .pay snd rcv close => { accounts := snd :: rcv :: (if close ≠ .zero then [close] else []) }
  | .keyreg snd => { accounts := [snd] }
  | .acfg snd asset => { accounts := [snd], asas := if asset ≠ 0 then [asset] else [] }
  | .axfer snd asset rcv asnd aclose =>
      let who := snd :: rcv :: ((if asnd ≠ .zero then [asnd] else []) ++ (if aclose ≠ .zero then [aclose] else []))
      { accounts := who, asas := [asset], holdings := who.flatMap (holdingIf · asset) }
  | .afrz snd asset acct => { accounts := [snd, acct], asas := [asset], holdings := holdingIf acct asset }
  | .appl snd f =>
      match f.access with
      | some al => contribAccess snd f al
      | none => contribForeign snd f
  | .other _ => {}

def Res.add (r : Res) (c : Contribution) : Res :=
  { r with
    sharedAccounts := c.accounts ++ r.sharedAccounts
    sharedAsas := c.asas ++ r.sharedAsas
    sharedApps := c.apps ++ r.sharedApps
    sharedHoldings := c.holdings ++ r.sharedHoldings
    sharedLocals := c.locals ++ r.sharedLocals
    boxes := c.boxes.foldl (fun m k => boxSet m k false) r.boxes
    unnamedAccess := r.unnamedAccess + c.unnamed }

def fill (r : Res) (tx : Txn) : Res := r.add (contrib tx)

/-- `EvalParams.computeAvailability` -/
def computeAvailability (group : List Txn) : Res := group.foldl fill {}

/-! ## evaluation context and the available* predicates (eval.go) -/

structure Ctx where
  version : Nat
  appId : Nat
  snd : Addr
  f : Appl
  res : Res
  low : Bool := false
  policy : Option Policy := none
deriving Repr, Inhabited

/-- `ApplicationCallTxnFields.IndexByAddress` -/
def indexByAddress (snd : Addr) (f : Appl) (target : Addr) : Option Nat :=
  if target = snd then some 0
  else match (accessList f).findIdx? (fun rr => rr.address = target) with
    | some i => some (i + 1)
    | none =>
      match f.accounts.findIdx? (fun a => a = target) with
      | some i => some (i + 1)
      | none => none

def polAcct (cx : Ctx) (a : Addr) : Bool := match cx.policy with | some p => p.accts.contains a | none => false
def polAsset (cx : Ctx) (id : Nat) : Bool :=
  match cx.policy with | some p => decide (id > lastForbiddenResource) && p.assets.contains id | none => false
def polApp (cx : Ctx) (id : Nat) : Bool :=
  match cx.policy with | some p => decide (id > lastForbiddenResource) && p.apps.contains id | none => false

def availableAccount (cx : Ctx) (addr : Addr) : Bool :=
  (indexByAddress cx.snd cx.f addr).isSome
  || (decide (cx.version ≥ createdResourcesVersion) && cx.res.createdApps.any (fun id => appAddr id = addr))
  || (decide (cx.version ≥ sharedResourcesVersion) && cx.res.sharedAccounts.contains addr)
  || (decide (cx.version ≥ appAddressAvailableVersion) && cx.f.apps.any (fun id => appAddr id = addr))
  || decide (appAddr cx.appId = addr)
  || polAcct cx addr

def availableAsset (cx : Ctx) (aid : Nat) : Bool :=
  (accessList cx.f).any (fun rr => rr.asset = aid)
  || cx.f.assets.contains aid
  || (decide (cx.version ≥ createdResourcesVersion) && cx.res.createdAsas.contains aid)
  || (decide (cx.version ≥ sharedResourcesVersion) && cx.res.sharedAsas.contains aid)
  || polAsset cx aid

def availableApp (cx : Ctx) (aid : Nat) : Bool :=
  (accessList cx.f).any (fun rr => rr.app = aid)
  || cx.f.apps.contains aid
  || (decide (cx.version ≥ createdResourcesVersion) && cx.res.createdApps.contains aid)
  || decide (cx.appId = aid)
  || (decide (cx.version ≥ sharedResourcesVersion) && cx.res.sharedApps.contains aid)
  || polApp cx aid

/-- `allowsHolding` (the sharing rule for holdings; called only from version ≥ sharedResourcesVersion code paths) -/
def allowsHolding (cx : Ctx) (addr : Addr) (ai : Nat) : Bool :=
  if cx.res.sharedHoldings.contains (addr, ai) then true
  else if cx.res.createdAsas.contains ai then availableAccount cx addr
  else if cx.res.createdApps.any (fun c => appAddr c = addr) then availableAsset cx ai
  else match cx.policy with
    | some p => availableAccount cx addr && availableAsset cx ai && p.holdings.contains (addr, ai)
    | none => false

/-- `allowsLocals` -/
def allowsLocals (cx : Ctx) (addr : Addr) (ai : Nat) : Bool :=
  if cx.res.sharedLocals.contains (addr, ai) then true
  else if cx.res.createdApps.contains ai then availableAccount cx addr
  else if cx.res.createdApps.any (fun c => appAddr c = addr) then availableApp cx ai
  else match cx.policy with
    | some p => availableApp cx ai && availableAccount cx addr && p.locals.contains (addr, ai)
    | none => false

/-! ## resolvers -/

inductive Deny where
  | noacct | noasset | noapp | nohold | nolocal | badacct | nomut | badslot | low
  | nobox | boxauth | wbudget | rbudget | clearbox | preaccess | innerNohold | innerNolocal
deriving DecidableEq, Repr, Inhabited

def Deny.toString : Deny → String
  | .noacct => "noacct" | .noasset => "noasset" | .noapp => "noapp" | .nohold => "nohold" | .nolocal => "nolocal"
  | .badacct => "badacct" | .nomut => "nomut" | .badslot => "badslot" | .low => "low" | .nobox => "nobox"
  | .boxauth => "boxauth" | .wbudget => "wbudget" | .rbudget => "rbudget" | .clearbox => "clearbox"
  | .preaccess => "preaccess" | .innerNohold => "inner-nohold" | .innerNolocal => "inner-nolocal"

/-- an account operand on the stack: an integer index or 32 bytes -/
inductive AcctArg where
  | idx (n : Nat)
  | addr (a : Addr)
deriving DecidableEq, Repr, Inhabited

/-- `ApplicationCallTxnFields.AddressByIndex` -/
def addressByIndex (snd : Addr) (f : Appl) (n : Nat) : Except Deny Addr :=
  if n = 0 then .ok snd
  else match f.access with
    | some al =>
      if n > al.length then .error .badacct
      else match al[n - 1]? with
        | some rr => if rr.address = .zero then .error .badacct else .ok rr.address
        | none => .error .badacct
    | none =>
      match f.accounts[n - 1]? with
      | some a => .ok a
      | none => .error .badacct

/-- `resolveAccount`: the address and its slot (`none` = the −1 of the Go code) -/
def resolveAccount (cx : Ctx) : AcctArg → Except Deny (Addr × Option Nat)
  | .idx n => do let a ← addressByIndex cx.snd cx.f n; pure (a, some n)
  | .addr a => pure (a, indexByAddress cx.snd cx.f a)

/-- `accountReference` -/
def accountReference (cx : Ctx) (arg : AcctArg) : Except Deny (Addr × Nat) := do
  let (addr, idx) ← resolveAccount cx arg
  match idx with
  | some i => pure (addr, i)
  | none => if availableAccount cx addr then pure (addr, cx.f.accounts.length + 1) else .error .noacct

/-- `mutableAccountReference` -/
def mutableAccountReference (cx : Ctx) (arg : AcctArg) : Except Deny (Addr × Nat) := do
  let (addr, idx) ← accountReference cx arg
  if idx > cx.f.accounts.length ∧ cx.version < sharedResourcesVersion then .error .nomut else pure (addr, idx)

/-- the deferred `AppForbidLowResources` check of resolveApp / appReference / resolveAsset / assetReference -/
def lowGuard (cx : Ctx) (r : Except Deny Nat) : Except Deny Nat :=
  match r with
  | .ok aid => if cx.low ∧ aid ≤ lastForbiddenResource then .error .low else .ok aid
  | .error e => .error e

/-- `resolveApp` -/
def resolveApp (cx : Ctx) (ref : Nat) : Except Deny Nat :=
  lowGuard cx <|
    if ref = 0 ∨ ref = cx.appId then .ok cx.appId
    else if availableApp cx ref then .ok ref
    else if ref ≤ cx.f.apps.length then
      match cx.f.apps[ref - 1]? with
      | some a => .ok a
      | none => .error .noapp
    else match (accessList cx.f)[ref - 1]? with
      | some rr => if rr.app ≠ 0 then .ok rr.app else .error .noapp
      | none => .error .noapp

/-- `appReference` -/
def appReference (cx : Ctx) (ref : Nat) (foreign : Bool) : Except Deny Nat :=
  if cx.version ≥ directRefEnabledVersion then resolveApp cx ref
  else lowGuard cx <|
    if ref = 0 then .ok cx.appId
    else if foreign then
      (if ref ≤ cx.f.apps.length then
        match cx.f.apps[ref - 1]? with
        | some a => .ok a
        | none => .error .badslot
      else .error .badslot)
    else .ok ref

/-- `resolveAsset` -/
def resolveAsset (cx : Ctx) (ref : Nat) : Except Deny Nat :=
  lowGuard cx <|
    if availableAsset cx ref then .ok ref
    else match cx.f.assets[ref]? with
      | some a => .ok a
      | none =>
        if ref > 0 then
          match (accessList cx.f)[ref - 1]? with
          | some rr => if rr.asset ≠ 0 then .ok rr.asset else .error .noasset
          | none => .error .noasset
        else .error .noasset

/-- `assetReference` -/
def assetReference (cx : Ctx) (ref : Nat) (foreign : Bool) : Except Deny Nat :=
  if cx.version ≥ directRefEnabledVersion then resolveAsset cx ref
  else lowGuard cx <|
    if foreign then
      match cx.f.assets[ref]? with
      | some a => .ok a
      | none => .error .badslot
    else .ok ref

/-- `holdingReference` -/
def holdingReference (cx : Ctx) (arg : AcctArg) (ref : Nat) : Except Deny (Addr × Nat) :=
  if cx.version ≥ sharedResourcesVersion then
    match resolveAccount cx arg with
    | .error e => .error e
    | .ok (addr, _) =>
      let r := resolveAsset cx ref
      match r with
      | .ok aid =>
        if allowsHolding cx addr aid then .ok (addr, aid)
        else if availableAccount cx addr then .error .nohold else .error .noacct
      | .error e => if availableAccount cx addr then .error e else .error .noacct
  else do
    let (addr, _) ← accountReference cx arg
    let asset ← assetReference cx ref false
    pure (addr, asset)

/-- `localsReference` -/
def localsReference (cx : Ctx) (arg : AcctArg) (ref : Nat) : Except Deny (Addr × Nat) :=
  if cx.version ≥ sharedResourcesVersion then
    match resolveAccount cx arg with
    | .error e => .error e
    | .ok (addr, _) =>
      let r := resolveApp cx ref
      match r with
      | .ok aid =>
        if allowsLocals cx addr aid then .ok (addr, aid)
        else if availableAccount cx addr then .error .nolocal else .error .noacct
      | .error e => if availableAccount cx addr then .error e else .error .noacct
  else do
    let (addr, _) ← accountReference cx arg
    let app ← appReference cx ref false
    pure (addr, app)

/-- `opAppLocalPut` / `opAppLocalDel` gate -/
def localMutation (cx : Ctx) (arg : AcctArg) : Except Deny (Addr × Nat) := do
  let (addr, _) ← mutableAccountReference cx arg
  if cx.version ≥ sharedResourcesVersion ∧ ¬ allowsLocals cx addr cx.appId then .error .nolocal
  else pure (addr, cx.appId)

def assignAccount (cx : Ctx) (a : Addr) : Except Deny Addr :=
  if availableAccount cx a then .ok a else .error .noacct
def assignAsset (cx : Ctx) (id : Nat) : Except Deny Nat :=
  if availableAsset cx id then .ok id else .error .noasset
def assignApp (cx : Ctx) (id : Nat) : Except Deny Nat :=
  if availableApp cx id then .ok id else .error .noapp


/-! ## per-opcode-family resolvers as one decision function -/

inductive Resource where
  | account (a : Addr)
  | asset (id : Nat)
  | app (id : Nat)
  | holding (a : Addr) (id : Nat)
  | locals (a : Addr) (id : Nat)
deriving DecidableEq, Repr

/-- an access by an opcode family with its operands -/
inductive Access where
  /-- balance, min_balance, acct_params_get, voter_params_get -/
  | acct (arg : AcctArg)
  /-- asset_holding_get -/
  | holding (arg : AcctArg) (ref : Nat)
  /-- asset_params_get -/
  | assetParams (ref : Nat)
  /-- app_params_get, app_global_get_ex -/
  | appParams (ref : Nat)
  /-- app_opted_in, app_local_get (ref 0), app_local_get_ex -/
  | locals (arg : AcctArg) (ref : Nat)
  /-- app_local_put, app_local_del -/
  | localMut (arg : AcctArg)
  /-- itxn_field Sender / Receiver / CloseRemainderTo / AssetSender / AssetReceiver / AssetCloseTo / FreezeAssetAccount / Accounts -/
  | setAccount (a : Addr)
  /-- itxn_field XferAsset / ConfigAsset / FreezeAsset / Assets -/
  | setAsset (id : Nat)
  /-- itxn_field ApplicationID / Applications -/
  | setApp (id : Nat)
deriving Repr

/-- allowed (with the resource the access then touches) / denied -/
def resolve (cx : Ctx) : Access → Except Deny Resource
  | .acct arg => (accountReference cx arg).map fun p => .account p.1
  | .holding arg ref => (holdingReference cx arg ref).map fun p => .holding p.1 p.2
  | .assetParams ref => (assetReference cx ref true).map .asset
  | .appParams ref => (appReference cx ref true).map .app
  | .locals arg ref => (localsReference cx arg ref).map fun p => .locals p.1 p.2
  | .localMut arg => (localMutation cx arg).map fun p => .locals p.1 p.2
  | .setAccount a => (assignAccount cx a).map .account
  | .setAsset id => (assignAsset cx id).map .asset
  | .setApp id => (assignApp cx id).map .app

/-! ## inner transactions: `allows*` -/

/-- an inner transaction as built by itxn_field (only the reference-carrying fields) -/
inductive Inner where
  | axfer (snd : Addr) (asset : Nat) (rcv asnd aclose : Addr)
  | afrz (snd : Addr) (asset : Nat) (acct : Addr)
  | appl (snd : Addr) (appId : Nat) (accounts : List Addr) (assets : List Nat) (apps : List Nat)
  | plain
deriving Repr, Inhabited

def requireHolding (cx : Ctx) (acct : Addr) (id : Nat) : Except Deny Unit :=
  if id = 0 ∨ acct = .zero then .ok ()
  else if allowsHolding cx acct id then .ok () else .error .innerNohold

def requireLocals (cx : Ctx) (acct : Addr) (id : Nat) : Except Deny Unit :=
  if allowsLocals cx acct id then .ok () else .error .innerNolocal

def innerTxAccounts (snd : Addr) (appId : Nat) (accounts : List Addr) (apps : List Nat) : List Addr :=
  snd :: accounts ++ (if appId ≠ 0 then [appAddr appId] else []) ++ apps.map appAddr

/-- the per-address body of the allowsApplicationCall loop -/
def allowsApplAddr (cx : Ctx) (appId : Nat) (assets apps : List Nat) (address : Addr) : Except Deny Unit := do
  assets.forM (fun id => requireHolding cx address id)
  if appId ≠ 0 then requireLocals cx address appId
  apps.forM (fun id => requireLocals cx address id)

/-- `EvalContext.allows` -/
def allows (cx : Ctx) (tx : Inner) (calleeVer : Nat) : Except Deny Unit :=
  if cx.version < sharedResourcesVersion then .ok ()
  else match tx with
    | .plain => .ok ()
    | .axfer snd asset rcv asnd aclose => do
        if asnd = .zero then requireHolding cx snd asset
        requireHolding cx rcv asset
        requireHolding cx asnd asset
        requireHolding cx aclose asset
    | .afrz _ asset acct => requireHolding cx acct asset
    | .appl snd appId accounts assets apps =>
        if calleeVer ≥ sharedResourcesVersion then .ok ()
        else (innerTxAccounts snd appId accounts apps).forM (allowsApplAddr cx appId assets apps)

/-! ## boxes (box.go) and the I/O budget (EvalContract) -/

/-- what the ledger knows about an application -/
structure AppInfo where
  id : Nat
  creator : Addr
  foreignBoxReads : Bool
  familyBoxAccess : Bool
  version : Nat
deriving Repr, Inhabited

inductive BoxOp where
  | create | read | write | delete
deriving DecidableEq, Repr

/-- ledger + EvalParams state that outlives one EvalContract call -/
structure World where
  apps : List AppInfo := []
  /-- ledger boxes: key ↦ size -/
  lboxes : List (BoxKey × Nat) := []
  ioBudget : Nat := 0
  readChecked : Bool := false
deriving Repr, Inhabited

def World.app (w : World) (id : Nat) : Option AppInfo := w.apps.find? (·.id = id)
def World.boxSize (w : World) (k : BoxKey) : Option Nat := (w.lboxes.find? (·.1 = k)).map (·.2)
def World.setBox (w : World) (k : BoxKey) (sz : Nat) : World :=
  { w with lboxes := (k, sz) :: w.lboxes.filter (·.1 ≠ k) }
def World.delBox (w : World) (k : BoxKey) : World := { w with lboxes := w.lboxes.filter (·.1 ≠ k) }

def u64 : Nat := 18446744073709551616
def bytesPerBoxReference : Nat := 100
def maxBoxSize : Nat := 1000

/-- outcome of a step that may also fail "late" (after the availability gate, for a ledger reason): the class is `ok` -/
inductive Gate (α : Type) where
  | pass (a : α)
  | late
  | deny (d : Deny)
deriving Repr

/-- `authorizeBoxAccess` for a top-level frame (no caller: the family re-entrancy walk is empty) -/
def authorizeBoxAccess (w : World) (cx : Ctx) (owner : Nat) (op : BoxOp) : Gate Unit :=
  match w.app owner with
  | none => .late
  | some o =>
    if owner = cx.appId then .pass ()
    else
      match w.app cx.appId with
      | none =>
        -- getCreatorAddress fails whenever it is consulted: with FamilyBoxAccess up front, otherwise on the denial path
        if o.familyBoxAccess then .late
        else if op = .read ∧ o.foreignBoxReads then .pass () else .late
      | some me =>
        let inFamily := o.familyBoxAccess && decide (me.creator = o.creator)
        if op = .read ∧ o.foreignBoxReads then .pass ()
        else if inFamily then .pass ()
        else .deny .boxauth

/-- `availableAppBox`: returns the new resources, and the size of the box if it exists -/
def availableAppBox (w : World) (cx : Ctx) (k : BoxKey) (op : BoxOp) (createSize : Nat) : Res × Gate (Option Nat) :=
  if cx.f.oc = 3 then (cx.res, .deny .clearbox) else
  let r := cx.res
  let found := boxGet r.boxes k
  let newApp : Bool := found.isNone && r.createdApps.contains k.1
  let viaSlot : Bool := newApp && decide (r.unnamedAccess > 0)
  let r := if viaSlot then { r with unnamedAccess := r.unnamedAccess - 1 } else r
  let viaPolicy : Bool := match cx.policy with | some p => p.boxes.contains k | none => false
  if found.isNone ∧ ¬ viaSlot ∧ ¬ viaPolicy then (r, .deny .nobox) else
  let dirty := match found with | some d => d | none => false
  match authorizeBoxAccess w cx k.1 op with
  | .late => (r, .late)
  | .deny d => (r, .deny d)
  | .pass () =>
    let size? := if newApp then none else w.boxSize k
    let len := match size? with | some s => s | none => 0
    let fin (dirty : Bool) (db : Nat) : Res × Gate (Option Nat) :=
      let r := { r with boxes := boxSet r.boxes k dirty, dirtyBytes := db }
      if db > w.ioBudget then (r, .deny .wbudget) else (r, .pass size?)
    let writeCase : Res × Gate (Option Nat) :=
      let writeSize := match size? with | some s => s | none => createSize
      fin true (if dirty then r.dirtyBytes else (r.dirtyBytes + writeSize) % u64)
    match op with
    | .create =>
      (match size? with
       | some s => if createSize ≠ s then (r, .late) else (r, .pass size?)
       | none => writeCase)
    | .write => writeCase
    | .delete => fin false (if dirty then (r.dirtyBytes + u64 - len % u64) % u64 else r.dirtyBytes)
    | .read => fin dirty r.dirtyBytes

/-- `lengthChecks` failures are late errors (names in play are shorter than MaxAppKeyLen) -/
def lengthOk (name : String) (size : Nat) : Bool := name ≠ "" && decide (size ≤ maxBoxSize)

/-- one box opcode on box `k` -/
def boxOp (w : World) (cx : Ctx) (fam : String) (k : BoxKey) (size : Nat) : World × Res × Gate Unit :=
  if ¬ lengthOk k.2 size then (w, cx.res, .late) else
  let op : BoxOp := if fam = "create" then .create else if fam = "put" then .write else if fam = "del" then .delete else .read
  match availableAppBox w cx k op size with
  | (r, .late) => (w, r, .late)
  | (r, .deny d) => (w, r, .deny d)
  | (r, .pass size?) =>
    match op, size? with
    | .create, none => (w.setBox k size, r, .pass ())
    | .create, some _ => (w, r, .pass ())
    | .write, none => (w.setBox k size, r, .pass ())
    | .write, some s => if s ≠ size then (w, r, .late) else (w, r, .pass ())
    | .delete, some _ => (w.delBox k, r, .pass ())
    | .delete, none => (w, r, .pass ())
    | .read, _ => (w, r, .pass ())

/-- number of I/O quota bumps a transaction contributes (EvalContract) -/
def bumpsOf : Txn → Nat
  | .appl _ f => f.boxes.length + ((accessList f).filter (fun rr => rr.box ≠ (0, "") || rr.isEmpty)).length
  | _ => 0

/-- EvalContract's prologue for transaction (snd, f) evaluated as app `aid`: lazily compute availability, resolve the
creation-time box references, register the created app, and (once per group) check the read budget. -/
def enter (group : List Txn) (w : World) (res? : Option Res) (policy : Option Policy) (f : Appl) (aid : Nat) :
    World × Res × Option Deny :=
  let r := match res? with | some r => r | none => computeAvailability group
  let r :=
    if f.appId = 0 then
      let ks := (f.boxes.filter (fun br => br.1 = 0)).map (fun br => (aid, br.2))
        ++ ((accessList f).filter (fun rr => rr.box.2 ≠ "" && rr.box.1 = 0)).map (fun rr => (aid, rr.box.2))
      { r with boxes := ks.foldl (fun m k => boxSet m k false) r.boxes, createdApps := aid :: r.createdApps }
    else r
  if w.readChecked then (w, r, none) else
  let io := (group.map bumpsOf).foldl (· + ·) 0 * bytesPerBoxReference
  let w := { w with ioBudget := io }
  let bytesRead := ((boxKeys r.boxes).filter (fun k => k.2 ≠ "")).foldl
    (fun acc k => match w.boxSize k with | some s => acc + s | none => acc) 0
  let deficitOk : Bool := match policy with | some p => p.allowDeficit | none => false
  if bytesRead > io ∧ ¬ deficitOk then (w, r, some .rbudget)
  else ({ w with readChecked := true }, r, none)

/-- `begin`'s refusal of tx.Access for programs older than resource sharing -/
def preAccess (version : Nat) (f : Appl) : Bool :=
  decide (version < sharedResourcesVersion) && decide ((accessList f).length > 0)

end AlgoVerif.Model.Resources
