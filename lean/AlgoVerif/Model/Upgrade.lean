/-
Model of the protocol-upgrade state machine of go-algorand,
`data/bookkeeping/block.go`: `UpgradeState.applyUpgradeVote`, and the part of
`BlockHeader.PreCheck` that concerns it.  Core Lean only (linked into the driver `c26`).

Conventions
* `protocol.ConsensusVersion` is a Go string; the empty string means "none".  Modelled as `String`,
  `len(x)` as `String.utf8ByteSize`.
* `basics.Round` and the `uint64` consensus parameters are `Nat`s `< 2^64`; every Go addition that can
  wrap is written with an explicit `u64` (`% 2^64`).
* `config.Consensus` (a Go map) is a function `String → Option Params`; a missing key is `none`.
* every `err = …; return` of the Go function is an explicit `Except.error` with its own tag.
-/
namespace AlgoVerif.Model.Upgrade

/-- wrap to a Go `uint64` -/
def u64 (n : Nat) : Nat := n % 18446744073709551616

/-- the fields of `config.ConsensusParams` read by `applyUpgradeVote` -/
structure Params where
  voteRounds  : Nat      -- UpgradeVoteRounds        uint64
  threshold   : Nat      -- UpgradeThreshold         uint64
  defaultWait : Nat      -- DefaultUpgradeWaitRounds uint64
  minWait     : Nat      -- MinUpgradeWaitRounds     uint64
  maxWait     : Nat      -- MaxUpgradeWaitRounds     uint64
  maxVerLen   : Int      -- MaxVersionStringLen      int
  deriving Repr, DecidableEq, Inhabited

/-- `config.Consensus` restricted to those fields -/
abbrev Config := String → Option Params

/-- `bookkeeping.UpgradeVote` -/
structure Vote where
  propose : String       -- UpgradePropose
  delay   : Nat          -- UpgradeDelay
  approve : Bool         -- UpgradeApprove
  deriving Repr, DecidableEq, Inhabited

/-- `bookkeeping.UpgradeState` -/
structure State where
  cur        : String    -- CurrentProtocol
  next       : String    -- NextProtocol
  approvals  : Nat       -- NextProtocolApprovals
  voteBefore : Nat       -- NextProtocolVoteBefore
  switchOn   : Nat       -- NextProtocolSwitchOn
  deriving Repr, DecidableEq, Inhabited

/-- one tag per `return` with an error in `applyUpgradeVote` -/
inductive Err where
  | unsupported        -- "unsupported protocol"
  | dupProposal        -- "new proposal during existing proposal"
  | tooLong            -- "proposed protocol version … too long"
  | delayRange         -- "proposed upgrade wait rounds … out of permissible range"
  | delayNoPropose     -- "upgrade delay … nonzero when not proposing"
  | approveNoProposal  -- "approval without an active proposal"
  | approveLate        -- "approval after vote deadline"
  deriving Repr, DecidableEq, Inhabited

/-- the wait actually used: `if upgradeDelay == 0 { upgradeDelay = params.DefaultUpgradeWaitRounds }` -/
def effDelay (p : Params) (d : Nat) : Nat := if d = 0 then p.defaultWait else d

/-- "Apply proposal of upgrade to new protocol" (first `if/else` block) -/
def stagePropose (p : Params) (s : State) (r : Nat) (v : Vote) : Except Err State :=
  if v.propose ≠ "" then
    if s.next ≠ "" then .error .dupProposal
    else if (v.propose.utf8ByteSize : Int) > p.maxVerLen then .error .tooLong
    else if v.delay > p.maxWait ∨ v.delay < p.minWait then .error .delayRange
    else .ok { s with next := v.propose
                      approvals := 0
                      voteBefore := u64 (r + p.voteRounds)
                      switchOn := u64 (r + p.voteRounds + effDelay p v.delay) }
  else
    if v.delay ≠ 0 then .error .delayNoPropose else .ok s

/-- "Apply approval of existing protocol upgrade" -/
def stageApprove (s : State) (r : Nat) (v : Vote) : Except Err State :=
  if v.approve then
    if s.next = "" then .error .approveNoProposal
    else if r ≥ s.voteBefore then .error .approveLate
    else .ok { s with approvals := u64 (s.approvals + 1) }
  else .ok s

/-- the four assignments shared by "clear" and "switch" -/
def clearPending (s : State) : State :=
  { s with next := "", approvals := 0, voteBefore := 0, switchOn := 0 }

/-- "Clear out failed proposal" -/
def stageClear (p : Params) (s : State) (r : Nat) : State :=
  if r = s.voteBefore ∧ s.approvals < p.threshold then clearPending s else s

/-- "Switch over to new approved protocol" -/
def stageSwitch (s : State) (r : Nat) : State :=
  if r = s.switchOn then clearPending { s with cur := s.next } else s

/-- `func (s UpgradeState) applyUpgradeVote(r basics.Round, vote UpgradeVote) (res UpgradeState, err error)` -/
def applyUpgradeVote (cfg : Config) (s : State) (r : Nat) (v : Vote) : Except Err State :=
  match cfg s.cur with
  | none => .error .unsupported
  | some p =>
    match stagePropose p s r v with
    | .error e => .error e
    | .ok s1 =>
      match stageApprove s1 r v with
      | .error e => .error e
      | .ok s2 => .ok (stageSwitch (stageClear p s2 r) r)

/-! ### Histories

A history is a start state at round `r0` followed by per-round votes.  A vote on which
`applyUpgradeVote` errs belongs to a header that `PreCheck` rejects: the chain does not advance
(state and round are unchanged) and the next vote is tried for the same round. -/

/-- one accepted block: its round, vote, and the upgrade state before/after -/
structure Step where
  r    : Nat
  v    : Vote
  pre  : State
  post : State
  deriving Repr

/-- chain tip: accepted steps (newest first), current state, current round -/
structure Tip where
  trace : List Step
  s     : State
  r     : Nat

/-- feed one vote to the tip (`round := prev.Round + 1`) -/
def Tip.feed (cfg : Config) (t : Tip) (v : Vote) : Tip :=
  match applyUpgradeVote cfg t.s (u64 (t.r + 1)) v with
  | .error _ => t
  | .ok s' => { trace := ⟨u64 (t.r + 1), v, t.s, s'⟩ :: t.trace, s := s', r := u64 (t.r + 1) }

/-- run a whole vote sequence from `s0` at round `r0` -/
def run (cfg : Config) (s0 : State) (r0 : Nat) (votes : List Vote) : Tip :=
  votes.foldl (Tip.feed cfg) ⟨[], s0, r0⟩

/-! ### PreCheck (the part that concerns the upgrade state)

`branchOk` stands for the two `Branch`/`Branch512` comparisons, `restOk` for the checks after the
upgrade-state comparison (timestamp, bonus, congestion tax, load, genesis id/hash); both are inputs. -/

structure Hdr where
  round : Nat
  vote  : Vote
  us    : State
  deriving Repr

inductive PErr where
  | proto              -- "protocol … not supported" (the header's own CurrentProtocol)
  | round              -- "block round incorrect"
  | branch             -- "block branch incorrect" / branch512
  | vote (e : Err)     -- error of applyUpgradeVote
  | state              -- "UpgradeState mismatch"
  | rest               -- any later check
  deriving Repr, DecidableEq

def preCheck (cfg : Config) (bh prev : Hdr) (branchOk restOk : Bool) : Except PErr Unit :=
  match cfg bh.us.cur with
  | none => .error .proto
  | some _ =>
    let round := u64 (prev.round + 1)
    if round ≠ bh.round then .error .round
    else if !branchOk then .error .branch
    else
      match applyUpgradeVote cfg prev.us round bh.vote with
      | .error e => .error (.vote e)
      | .ok ns =>
        if ns ≠ bh.us then .error .state
        else if !restOk then .error .rest
        else .ok ()

/-! ### ProcessUpgradeParams (the proposer's side)

`approved` is `prevParams.ApprovedUpgrades` (a Go map) as an association list; `pick` is the entry the
`for k, v := range … { …; break }` loop lands on (Go map order is unspecified, so it is an input: `none` iff the map is empty). -/

inductive PUErr where
  | unsupported          -- "previous protocol … not supported"
  | invalid (e : Err)    -- "constructed invalid upgrade vote"
  deriving Repr, DecidableEq

/-- the vote `ProcessUpgradeParams` builds for round `round = prev.Round + 1` -/
def proposerVote (approved : List (String × Nat)) (pick : Option (String × Nat)) (us : State) (round : Nat) : Vote :=
  -- "If there is no upgrade proposal, see if we can make one"
  let v0 : Vote :=
    if us.next = "" then
      match pick with
      | some (k, d) => ⟨k, d, true⟩
      | none => ⟨"", 0, false⟩
    else ⟨"", 0, false⟩
  -- "If there is a proposal being voted on, see if we approve it"
  if round < us.voteBefore then { v0 with approve := approved.any (fun x => x.1 == us.next) } else v0

def processUpgradeParams (cfg : Config) (approvedOf : String → List (String × Nat))
    (pick : Option (String × Nat)) (prev : Hdr) : Except PUErr (Vote × State) :=
  match cfg prev.us.cur with
  | none => .error .unsupported
  | some _ =>
    let round := u64 (prev.round + 1)
    let v := proposerVote (approvedOf prev.us.cur) pick prev.us round
    match applyUpgradeVote cfg prev.us round v with
    | .error e => .error (.invalid e)
    | .ok s' => .ok (v, s')

end AlgoVerif.Model.Upgrade
