/-
C41 — the decoder the msgp-generated `UnmarshalMsgWithState` functions implement, over `Base.Msgpack` byte strings,
parameterised by a BOUNDED SCHEMA (`BTy`: per collection the declared `allocbound`, a depth budget), in which every
collection read is preceded by its bound check — the shape tie F (Gen.MsgpSites, `siteOK`) establishes for the generated code.

The model follows the code that exists (github.com/algorand/msgp v1.1.64 `msgp/read_bytes.go`, `gen/unmarshal.go`, and
the generated files):
  * one parser per runtime primitive (`rdStructHdr`, `rdArrHdr`, `rdMapHdr`, `rdUint`, `rdInt`, `rdBool`, `rdBytes`,
    `rdStr`, `rdKey`, `rdExact`), with the go-codec compatibility quirks the runtime has: nil is accepted for every
    collection / scalar, a map header is accepted where an array is expected (counted twice), str and bin are
    interchangeable, a byte string may be given as an array of small integers (the "slow path", whose errors all become a
    type error), a fixed byte array accepts any announced length (copies the common prefix);
  * structs are decoded from a map (any key order, unknown key = error, duplicate key = decoded again IN PLACE) or from an
    array (declaration order, `ErrTooManyArrayFields`), then the `required` fields are checked;
  * decoding is in place (`old` is the value being overwritten): slices reuse capacity, maps ACCUMULATE, fixed arrays keep
    the bytes the input does not cover;
  * `named` = a call into another generated decoder: costs one level of `AllowableDepth` (`protocol/codec.go`: 255).

Every parser returns a LOG beside its result: one `.read` per consuming primitive read (the loop driver of the code) and
one `.alloc` per allocation the code REQUESTS (`make([]T, n)`, `make(map, n)`, the byte-string copies), recorded with the
declared bound and the number of input bytes left at that moment — also when the decode later fails.  Props/C41.lean
proves the invariants over this log.  `maxtotalbytes` is not modelled: the generator uses it only for `MaxSize()`,
never in `UnmarshalMsg` (gen/unmarshal.go has no reference to it).

What the Go code rejects is an explicit `Err`; nothing is totalised.  Core Lean only.
-/
import AlgoVerif.Base.Msgpack
namespace AlgoVerif.BoundedDecoder
open AlgoVerif.Msgpack

inductive Err where
  | short | type | overflow | arraysize | nofield | toomany | depth | intrange | required | check | cut
  deriving DecidableEq, Repr

def Err.name : Err → String
  | .short => "short" | .type => "type" | .overflow => "overflow" | .arraysize => "arraysize" | .nofield => "nofield"
  | .toomany => "toomany" | .depth => "depth" | .intrange => "intrange" | .required => "required" | .check => "check"
  | .cut => "cut"

/-- bounded schema types; a struct field is (codec name, `required`, type), in Go declaration order -/
inductive BTy where
  | bool
  | uint (bits : Nat)
  | int (bits : Nat)
  | str (bound : Option Nat)
  | bytes (bound : Option Nat)
  | fixedBytes (n : Nat)
  | slice (bound : Option Nat) (elem : BTy)
  | array (n : Nat) (elem : BTy)
  | map (bound : Option Nat) (key val : BTy)
  | ptr (elem : BTy)
  /-- a call into another generated decoder (one level of depth) -/
  | named (body : BTy)
  /-- post-unmarshal callback "first field ≤ max" (crypto.HashFactory.Validate) -/
  | post (max : Nat) (body : BTy)
  | struct (fields : List (Bytes × Bool × BTy))
  /-- recursion cut of a recursive Go type (finite schema): decoding answers `cut` -/
  | cut

abbrev BField := Bytes × Bool × BTy

/-- decoded Go values; nil and empty collections distinguished -/
inductive Val where
  | bool (b : Bool)
  | uint (n : Nat)
  | int (i : Int)
  | str (s : Bytes)
  | bytesNil
  | bytes (b : Bytes)
  | fixed (b : Bytes)
  | sliceNil
  | slice (xs : List Val)
  | array (xs : List Val)
  | mapNil
  | map (kvs : List (Val × Val))
  | ptrNil
  | ptr (v : Val)
  | struct (fs : List Val)

instance : Inhabited Val := ⟨.bytesNil⟩

/-! ## the log -/

inductive AKind where
  | slice | map | bytes
  deriving DecidableEq, Repr

inductive Ev where
  /-- one consuming primitive read -/
  | read
  /-- the code requests `n` elements (`bytes`: n bytes); `bound` = the declared allocbound; `avail` = input bytes left -/
  | alloc (kind : AKind) (bound : Option Nat) (n avail : Nat)
  /-- ghost annotation (the code keeps no such record): the map form of a struct names a field it has already decoded;
  the field is decoded again IN PLACE -/
  | dup

abbrev Log := List Ev

def reads : Log → Nat
  | [] => 0
  | .read :: l => reads l + 1
  | .alloc .. :: l => reads l
  | .dup :: l => reads l

/-- the run never decoded a struct field twice -/
def noDup : Log → Bool
  | [] => true
  | .dup :: _ => false
  | _ :: l => noDup l

/-- parsers: input ↦ (log, error | (value, rest)) -/
abbrev P (α : Type) := Bytes → Log × Except Err (α × Bytes)

def P.pure {α : Type} (a : α) : P α := fun bs => ([], .ok (a, bs))
def P.fail {α : Type} (e : Err) : P α := fun _ => ([], .error e)
def P.bind {α β : Type} (p : P α) (f : α → P β) : P β := fun bs =>
  match p bs with
  | (l, .error e) => (l, .error e)
  | (l, .ok (a, r)) => (l ++ (f a r).1, (f a r).2)
/-- record an event (consumes nothing) -/
def P.note (e : Ev) : P Unit := fun bs => ([e], .ok ((), bs))
/-- record an allocation request (consumes nothing) -/
def P.alloc (k : AKind) (ob : Option Nat) (n : Nat) : P Unit := fun bs => ([.alloc k ob n bs.length], .ok ((), bs))

/-! ## runtime primitives -/

/-- the error of a primitive whose header does not parse: `short` on empty input or when the lead byte is one of the
multi-byte tags THIS primitive accepts (its own `if l < k` checks), a type error otherwise (`badPrefix`) -/
def hdrErr (bs : Bytes) (multi : Nat → Bool) : Err :=
  match bs with
  | [] => .short
  | b :: _ => if multi b.toNat then .short else .type

def isStrBinWide (t : Nat) : Bool :=
  t == 0xd9 || t == 0xda || t == 0xdb || t == 0xc4 || t == 0xc5 || t == 0xc6
def isArrMapWide (t : Nat) : Bool := t == 0xdc || t == 0xdd || t == 0xde || t == 0xdf
def isArrWide (t : Nat) : Bool := t == 0xdc || t == 0xdd
def isMapWide (t : Nat) : Bool := t == 0xde || t == 0xdf
def isIntWide (t : Nat) : Bool := 0xcc ≤ t && t ≤ 0xd3

/-- `ReadMapHeaderBytes`: (count, isnil) -/
def rdMapHdr : P (Nat × Bool) := fun bs =>
  match decHd bs with
  | some (.map n, r) => ([.read], .ok ((n, false), r))
  | some (.nil, r) => ([.read], .ok ((0, true), r))
  | some _ => ([.read], .error .type)
  | none => ([.read], .error (hdrErr bs isMapWide))

/-- `readArrayHeaderBytes(b, flattenMap)`: (count, isnil); a map of n pairs counts 2n when `flatten` -/
def rdArrHdr (flatten : Bool) : P (Nat × Bool) := fun bs =>
  match decHd bs with
  | some (.arr n, r) => ([.read], .ok ((n, false), r))
  | some (.map n, r) => if flatten then ([.read], .ok ((2 * n, false), r)) else ([.read], .error .type)
  | some (.nil, r) => ([.read], .ok ((0, true), r))
  | some _ => ([.read], .error .type)
  | none => ([.read], .error (hdrErr bs (if flatten then isArrMapWide else isArrWide)))

inductive SHdr where
  /-- map form: count, isnil -/
  | mapForm (n : Nat) (isnil : Bool)
  /-- struct-from-array form -/
  | arrForm (n : Nat)

/-- the head of every generated struct decoder: `ReadMapHeaderBytes`, and on a TypeError `ReadArrayHeaderBytes` -/
def rdStructHdr : P SHdr := fun bs =>
  match decHd bs with
  | some (.map n, r) => ([.read], .ok (.mapForm n false, r))
  | some (.nil, r) => ([.read], .ok (.mapForm 0 true, r))
  | some (.arr n, r) => ([.read], .ok (.arrForm n, r))
  | some _ => ([.read], .error .type)
  | none => ([.read], .error (hdrErr bs isArrMapWide))

/-- `ReadUint64Bytes` + the width check of `ReadUint32/16/8Bytes` -/
def rdUint (bits : Nat) : P Nat := fun bs =>
  match decHd bs with
  | some (.uint n, r) => if n < 2 ^ bits then ([.read], .ok (n, r)) else ([.read], .error .intrange)
  | some (.nil, r) => ([.read], .ok (0, r))
  | some (.nint _, _) => ([.read], .error .intrange)
  | some _ => ([.read], .error .type)
  | none => ([.read], .error (hdrErr bs isIntWide))

/-- two's-complement wrap of an unsigned 64-bit value (`int64(u)`) -/
def wrap64 (n : Nat) : Int := if n < 9223372036854775808 then (n : Int) else (n : Int) - 18446744073709551616

def inIntRange (bits : Nat) (i : Int) : Bool :=
  decide (-((2 ^ (bits - 1) : Nat) : Int) ≤ i) && decide (i < ((2 ^ (bits - 1) : Nat) : Int))

/-- `ReadInt64Bytes` + the width check of `ReadInt32/16/8Bytes` -/
def rdInt (bits : Nat) : P Int := fun bs =>
  match decHd bs with
  | some (.uint n, r) => if inIntRange bits (wrap64 n) then ([.read], .ok (wrap64 n, r)) else ([.read], .error .intrange)
  | some (.nint i, r) => if inIntRange bits i then ([.read], .ok (i, r)) else ([.read], .error .intrange)
  | some (.nil, r) => ([.read], .ok (0, r))
  | some _ => ([.read], .error .type)
  | none => ([.read], .error (hdrErr bs isIntWide))

/-- `ReadBoolBytes` -/
def rdBool : P Bool := fun bs =>
  match decHd bs with
  | some (.bool b, r) => ([.read], .ok (b, r))
  | some (.nil, r) => ([.read], .ok (false, r))
  | some _ => ([.read], .error .type)
  | none => ([.read], .error (hdrErr bs (fun _ => false)))

/-- `n` times `ReadByteBytes` (the element loop of the slow paths); any failure is reported as a type error by the caller -/
def rdByteArr : Nat → P Bytes
  | 0 => P.pure []
  | n+1 => P.bind (rdUint 8) fun b => P.bind (rdByteArr n) fun t => P.pure (b8 b :: t)

/-- every error of `p` becomes a type error (`if err != nil { err = badPrefix(…) }`) -/
def asType {α : Type} (p : P α) : P α := fun bs =>
  match p bs with
  | (l, .error _) => (l, .error .type)
  | x => x

/-- `readBytesBytesSlow` after its array header: `len(o) < count` → error, `make([]byte, count)`, the element loop -/
def slowBytes (ob : Option Nat) (count : Nat) : P Bytes := fun r =>
  if r.length < count then ([], .error .type)
  else P.bind (P.alloc .bytes ob count) (fun _ => asType (rdByteArr count)) r

/-- `ReadBytesBytesHeader` (a peek: consumes nothing, logs nothing): the announced length -/
def peekBytesLen (bs : Bytes) : Except Err Nat :=
  match decHd bs with
  | some (.str n, _) => .ok n
  | some (.bin n, _) => .ok n
  | some (.nil, _) => .ok 0
  | some (.arr n, _) => .ok n
  | some (.map n, _) => .ok (2 * n)
  | some _ => .error .type
  | none => .error (hdrErr bs (fun t => isStrBinWide t || isArrMapWide t))

/-- `readBytesBytes(b, scratch, zc=false, flattenMap=true)`; the copy is a request of `n` bytes made AFTER the runtime
compared `n` with the remaining input -/
def rdBytes (ob : Option Nat) : P Val := fun bs =>
  match decHd bs with
  | some (.str n, r) | some (.bin n, r) =>
    (match takeN n r with
     | none => ([.read], .error .short)
     | some (x, t) => ([.read, .alloc .bytes ob n r.length], .ok (.bytes x, t)))
  | some (.nil, r) => ([.read], .ok (.bytesNil, r))
  | some (.arr n, r) =>
    (match slowBytes ob n r with
     | (l, .ok (x, t)) => (.read :: l, .ok (.bytes x, t))
     | (l, .error _) => (.read :: l, .error .type))
  | some (.map n, r) =>
    (match slowBytes ob (2 * n) r with
     | (l, .ok (x, t)) => (.read :: l, .ok (.bytes x, t))
     | (l, .error _) => (.read :: l, .error .type))
  | some _ => ([.read], .error .type)
  | none => ([.read], .error (hdrErr bs isStrBinWide))

/-- the generated code of a `[]byte` field: optional `ReadBytesBytesHeader` + allocbound check, then `ReadBytesBytes` -/
def decBytes (ob : Option Nat) : P Val := fun bs =>
  match ob with
  | none => rdBytes none bs
  | some b =>
    match peekBytesLen bs with
    | .error e => ([], .error e)
    | .ok n => if n > b then ([], .error .overflow) else rdBytes (some b) bs

/-- `ReadStringZC` (+ the `string(v)` copy of `ReadStringBytes` when `copy`): str, nil, and — go-codec compat — bin or an
array of small integers (no map flattening on this path); every error of the fallback is a type error -/
def rdStrCore (ob : Option Nat) (copy : Bool) (binShort : Bool) : P Bytes := fun bs =>
  match decHd bs with
  | some (.str n, r) =>
    (match takeN n r with
     | none => ([.read], .error .short)
     | some (x, t) => (if copy then [.read, .alloc .bytes ob n r.length] else [.read], .ok (x, t)))
  | some (.nil, r) => ([.read], .ok ([], r))
  | some (.bin n, r) =>
    (match takeN n r with
     | none => ([.read], .error (if binShort then .short else .type))
     | some (x, t) => (if copy then [.read, .alloc .bytes ob n r.length] else [.read], .ok (x, t)))
  | some (.arr n, r) =>
    (match slowBytes ob n r with
     | (l, .ok (x, t)) => (.read :: l, .ok (x, t))
     | (l, .error _) => (.read :: l, .error .type))
  | some _ => ([.read], .error .type)
  | none =>
    match bs with
    | [] => ([.read], .error .short)
    | b :: _ =>
      let t := b.toNat
      if t == 0xd9 || t == 0xda || t == 0xdb then ([.read], .error .short)
      else if binShort && (t == 0xc4 || t == 0xc5 || t == 0xc6) then ([.read], .error .short)
      else ([.read], .error .type)

/-- `ReadStringBytes` -/
def rdStr (ob : Option Nat) : P Val := fun bs =>
  match rdStrCore ob true false bs with
  | (l, .ok (x, t)) => (l, .ok (.str x, t))
  | (l, .error e) => (l, .error e)

/-- the generated code of a `string` field -/
def decStr (ob : Option Nat) : P Val := fun bs =>
  match ob with
  | none => rdStr none bs
  | some b =>
    match peekBytesLen bs with
    | .error e => ([], .error e)
    | .ok n => if n > b then ([], .error .overflow) else rdStr (some b) bs

/-- `ReadMapKeyZC`: `ReadStringZC`, and when that fails on a bin lead `ReadBytesZC` (so a truncated bin key is `short`) -/
def rdKey : P Bytes := rdStrCore none false true

def zeros (n : Nat) : Bytes := List.replicate n 0

/-- `copy(into, x)`: the common prefix is overwritten, the rest of the array keeps its bytes -/
def overlay (n : Nat) (x old : Bytes) : Bytes :=
  let o := if old.length = n then old else zeros n
  (x.take n) ++ o.drop (x.take n).length

/-- `ReadExactBytes(b, into[:])` for `[n]byte` -/
def rdExact (n : Nat) (old : Bytes) : P Val := fun bs =>
  match decHd bs with
  | some (.str k, r) | some (.bin k, r) =>
    (match takeN k r with
     | none => ([.read], .error .short)
     | some (x, t) => ([.read], .ok (.fixed (overlay n x old), t)))
  | some (.nil, r) => ([.read], .ok (.fixed (zeros n), r))
  | some (.arr k, r) =>
    if k > n then ([.read], .error .type)
    else (match asType (rdByteArr k) r with
          | (l, .ok (x, t)) => (.read :: l, .ok (.fixed (overlay n x old), t))
          | (l, .error _) => (.read :: l, .error .type))
  | some (.map k, r) =>
    if 2 * k > n then ([.read], .error .type)
    else (match asType (rdByteArr (2 * k)) r with
          | (l, .ok (x, t)) => (.read :: l, .ok (.fixed (overlay n x old), t))
          | (l, .error _) => (.read :: l, .error .type))
  | some _ => ([.read], .error .type)
  | none => ([.read], .error (hdrErr bs isStrBinWide))

/-! ## zero values and emptiness (`MsgIsZero`) -/

mutual
def zero : BTy → Val
  | .bool => .bool false
  | .uint _ => .uint 0
  | .int _ => .int 0
  | .str _ => .str []
  | .bytes _ => .bytesNil
  | .fixedBytes n => .fixed (zeros n)
  | .slice _ _ => .sliceNil
  | .array n e => .array (List.replicate n (zero e))
  | .map _ _ _ => .mapNil
  | .ptr _ => .ptrNil
  | .named b => zero b
  | .post _ b => zero b
  | .struct fs => .struct (zeroFs fs)
  | .cut => .struct []
def zeroFs : List BField → List Val
  | [] => []
  | (_, _, t) :: fs => zero t :: zeroFs fs
end

def allZeroB : Bytes → Bool
  | [] => true
  | b :: r => b == 0 && allZeroB r

mutual
def isZero : Val → Bool
  | .bool b => !b
  | .uint n => n == 0
  | .int i => i == 0
  | .str s => s.isEmpty
  | .bytesNil => true
  | .bytes b => b.isEmpty
  | .fixed b => allZeroB b
  | .sliceNil => true
  | .slice xs => xs.isEmpty
  | .array xs => isZeroL xs
  | .mapNil => true
  | .map kvs => kvs.isEmpty
  | .ptrNil => true
  | .ptr _ => false
  | .struct fs => isZeroL fs
def isZeroL : List Val → Bool
  | [] => true
  | v :: vs => isZero v && isZeroL vs
end

/-! ## combinators of the generated code (generic in the element decoders) -/

abbrev D := Val → P Val

def nthOr (z : Val) : List Val → Nat → Val
  | [], _ => z
  | v :: _, 0 => v
  | _ :: vs, i+1 => nthOr z vs i

def setNth (v : Val) : List Val → Nat → List Val
  | [], _ => []
  | _ :: vs, 0 => v :: vs
  | x :: vs, i+1 => x :: setNth v vs i

/-- the allocbound check of the generated code: `if n > bound { err = msgp.ErrOverflow(…); return }` (absent for `allocbound=-`) -/
def over (ob : Option Nat) (n : Nat) : Bool :=
  match ob with
  | some b => decide (n > b)
  | none => false

def headOr (z : Val) : List Val → Val
  | [] => z
  | o :: _ => o

/-- `for i := range slice { decode slice[i] in place }`: `olds` are the values the reused backing array holds -/
def loopElems (f : D) (z : Val) : Nat → List Val → P (List Val)
  | 0, _ => P.pure []
  | n+1, olds =>
    P.bind (f (headOr z olds)) fun v =>
    P.bind (loopElems f z n (olds.drop 1)) fun vs => P.pure (v :: vs)

/-- the generated code of a slice: header, allocbound check, resize (reuse when the capacity suffices), element loop -/
def decSlice (ob : Option Nat) (f : D) (z : Val) (old : Val) : P Val :=
  P.bind (rdArrHdr true) fun (n, isnil) =>
    if over ob n then P.fail .overflow
    else if isnil then P.pure .sliceNil
    else
      match old with
      | .slice xs =>
        if n ≤ xs.length then P.bind (loopElems f z n xs) fun vs => P.pure (.slice vs)
        else P.bind (P.alloc .slice ob n) fun _ => P.bind (loopElems f z n []) fun vs => P.pure (.slice vs)
      | _ => P.bind (P.alloc .slice ob n) fun _ => P.bind (loopElems f z n []) fun vs => P.pure (.slice vs)

/-- fixed-size Go array `[n]T`: `ArrayError` when more than `n` are announced, the first `k` elements decoded in place -/
def decArray (n : Nat) (f : D) (z : Val) (old : Val) : P Val :=
  P.bind (rdArrHdr true) fun (k, _) =>
    if k > n then P.fail .arraysize
    else
      let olds := match old with | .array xs => if xs.length = n then xs else List.replicate n z | _ => List.replicate n z
      P.bind (loopElems f z k olds) fun vs => P.pure (.array (vs ++ olds.drop k))

/-- `for zb > 0 { var k K; var v V; zb--; decode k; decode v; m[k] = v }` -/
def loopPairs (fk fv : D) (zk zv : Val) : Nat → P (List (Val × Val))
  | 0 => P.pure []
  | n+1 =>
    P.bind (fk zk) fun k => P.bind (fv zv) fun v => P.bind (loopPairs fk fv zk zv n) fun r => P.pure ((k, v) :: r)

/-- the generated code of a map: header, allocbound check, `make` only when the map is nil, entries ADDED to the map -/
def decMap (ob : Option Nat) (fk fv : D) (zk zv : Val) (old : Val) : P Val :=
  P.bind rdMapHdr fun (n, isnil) =>
    if over ob n then P.fail .overflow
    else if isnil then P.pure .mapNil
    else
      match old with
      | .map kvs => P.bind (loopPairs fk fv zk zv n) fun r => P.pure (.map (kvs ++ r))
      | _ => P.bind (P.alloc .map ob n) fun _ => P.bind (loopPairs fk fv zk zv n) fun r => P.pure (.map r)

/-- the value a pointer field is decoded into: the existing pointee, or a fresh `new(T)` -/
def ptrOld (z : Val) : Val → Val
  | .ptr v => v
  | _ => z

/-- `if msgp.IsNil(bts) { ReadNilBytes; p = nil } else { if p == nil { p = new(T) }; decode *p }` -/
def decPtr (f : D) (z : Val) (old : Val) : P Val := fun bs =>
  match bs with
  | b :: r =>
    if b.toNat == 0xc0 then ([.read], .ok (.ptrNil, r))
    else match f (ptrOld z old) bs with
      | (l, .ok (v, t)) => (l, .ok (.ptr v, t))
      | (l, .error e) => (l, .error e)
  | [] =>
    match f (ptrOld z old) [] with
    | (l, .ok (v, t)) => (l, .ok (.ptr v, t))
    | (l, .error e) => (l, .error e)

abbrev FD := Bytes × Bool × D

def findField (key : Bytes) : List FD → Nat → Option (Nat × D)
  | [], _ => none
  | (nm, _, f) :: fs, i => if nm = key then some (i, f) else findField key fs (i + 1)

/-- the map-form loop: read a key, decode the field it names IN PLACE, unknown key = `ErrNoField`.  `seen` (the indices
decoded so far) only feeds the ghost `.dup` annotation. -/
def loopKeys (fds : List FD) (z : Val) : Nat → List Nat → List Val → P (List Val)
  | 0, _, cur => P.pure cur
  | n+1, seen, cur =>
    P.bind rdKey fun key =>
      match findField key fds 0 with
      | none => P.fail .nofield
      | some (i, f) =>
        P.bind (if seen.contains i then P.note .dup else P.pure ()) fun _ =>
          P.bind (f (nthOr z cur i)) fun v => loopKeys fds z n (i :: seen) (setNth v cur i)

/-- the array-form chain: `if zb > 0 { zb--; decode field }` per field in declaration order; returns what is left of `zb` -/
def seqFields : List FD → Nat → Nat → List Val → P (Nat × List Val)
  | [], _, k, cur => P.pure (k, cur)
  | (_, _, f) :: fs, i, k, cur =>
    match k with
    | 0 => P.pure (0, cur)
    | k'+1 => P.bind (f (nthOr (.bytesNil) cur i)) fun v => seqFields fs (i + 1) k' (setNth v cur i)

/-- the `required` checks, in declaration order -/
def requiredOK : List FD → List Val → Bool
  | (_, rq, _) :: fs, v :: vs => !(rq && isZero v) && requiredOK fs vs
  | _, _ => true

/-- the generated code of a struct -/
def decStruct (fds : List FD) (zs : List Val) (old : Val) : P Val :=
  let cur0 := match old with | .struct vs => if vs.length = zs.length then vs else zs | _ => zs
  P.bind rdStructHdr fun h =>
    P.bind (match h with
            | .mapForm n isnil => loopKeys fds .bytesNil n [] (if isnil then zs else cur0)
            | .arrForm n =>
              P.bind (seqFields fds 0 n cur0) fun (left, cur) =>
                if left > 0 then P.fail .toomany else P.pure cur) fun cur =>
      if requiredOK fds cur then P.pure (.struct cur) else P.fail .required

/-- post-unmarshal callback: the first field (an unsigned integer) must be ≤ max -/
def postCheck (max : Nat) (p : P Val) : P Val :=
  P.bind p fun v =>
    match v with
    | .struct (.uint n :: _) => if n ≤ max then P.pure v else P.fail .check
    | _ => P.pure v

/-! ## the decoder -/

mutual
/-- `dec ty depth old bs`: what the generated decoder of a value of type `ty` does on input `bs` when it overwrites `old`,
with `depth` levels of `AllowableDepth` left -/
def dec : BTy → Nat → D
  | .bool, _ => fun _ => P.bind rdBool fun b => P.pure (.bool b)
  | .uint bits, _ => fun _ => P.bind (rdUint bits) fun n => P.pure (.uint n)
  | .int bits, _ => fun _ => P.bind (rdInt bits) fun i => P.pure (.int i)
  | .str ob, _ => fun _ => decStr ob
  | .bytes ob, _ => fun _ => decBytes ob
  | .fixedBytes n, _ => fun old => rdExact n (match old with | .fixed b => b | _ => zeros n)
  | .slice ob e, d => decSlice ob (dec e d) (zero e)
  | .array n e, d => decArray n (dec e d) (zero e)
  | .map ob k v, d => decMap ob (dec k d) (dec v d) (zero k) (zero v)
  | .ptr e, d => decPtr (dec e d) (zero e)
  | .named b, d =>
    match d with
    | 0 => fun _ => P.fail .depth
    | d'+1 => dec b d'
  | .post m b, d => fun old => postCheck m (dec b d old)
  | .struct fs, d => decStruct (decFs fs d) (zeroFs fs)
  | .cut, _ => fun _ => P.fail .cut
def decFs : List BField → Nat → List FD
  | [], _ => []
  | (nm, rq, t) :: fs, d => (nm, rq, dec t d) :: decFs fs d
end

/-- `protocol/codec.go: maxMsgpDecodeDepth` -/
def maxDepth : Nat := 255

/-- `UnmarshalMsg` of a root type into a fresh object -/
def decodeRoot (ty : BTy) (bs : Bytes) : Log × Except Err (Val × Bytes) := dec ty maxDepth (zero ty) bs

/-! ## what a successful decode must satisfy (used by Props/C41.lean and the driver) -/

def leB (n : Nat) : Option Nat → Bool
  | none => true
  | some b => decide (n ≤ b)

mutual
/-- every string, byte string, slice and map of `v` is no longer than its declared bound, at every path (the model's map
is an association list: its length bounds the number of entries of the Go map) -/
def fits : BTy → Val → Bool
  | .str ob, .str s => leB s.length ob
  | .bytes ob, .bytes b => leB b.length ob
  | .slice ob e, .slice xs => leB xs.length ob && fitsL e xs
  | .array _ e, .array xs => fitsL e xs
  | .map ob k v, .map kvs => leB kvs.length ob && fitsM k v kvs
  | .ptr e, .ptr v => fits e v
  | .named b, v => fits b v
  | .post _ b, v => fits b v
  | .struct fs, .struct vs => fitsF fs vs
  | _, _ => true
def fitsL : BTy → List Val → Bool
  | _, [] => true
  | e, x :: xs => fits e x && fitsL e xs
def fitsM : BTy → BTy → List (Val × Val) → Bool
  | _, _, [] => true
  | k, v, (a, b) :: r => fits k a && (fits v b && fitsM k v r)
def fitsF : List BField → List Val → Bool
  | (_, _, t) :: fs, v :: vs => fits t v && fitsF fs vs
  | _, _ => true
end

/-- the condition an allocation request must meet: slices and maps never ask for more than the declared bound (without a
bound: what a 32-bit header, doubled by map flattening, can announce); byte-string copies never ask for more than the
input still holds, nor more than the declared bound -/
def okEv : Ev → Bool
  | .read => true
  | .dup => true
  | .alloc .bytes ob n avail => decide (n ≤ avail) && leB n ob
  | .alloc _ (some b) n _ => decide (n ≤ b)
  | .alloc _ none n _ => decide (n ≤ 2 * 4294967295)

end AlgoVerif.BoundedDecoder
