/-
Model of the acceptance decision for vote bundles and certificates:

  agreement/bundle.go       unauthenticatedBundle.verify / verifyAsync
  agreement/vote.go         unauthenticatedVote.verify, unauthenticatedEquivocationVote.verify
  agreement/certificate.go  Certificate.Authenticate, claimsToAuthenticate
  agreement/types.go        step.threshold, step.reachesQuorum      agreement/params.go ParamsRound

Core Lean only (linked into the `c04` driver).

Conventions
* Addresses, digests, rounds, periods, steps are `Nat`s (address 0 = the zero address, digest 0 = the zero
  digest).  `bottom` is the zero `proposalValue`.
* The ledger and the cryptography are PARAMETERS (`Env`):
    `params`      `l.ConsensusParams(ParamsRound(r))`            (none = error)
    `member`      `membership(l, sender, round, period, step)`   (none = error); only the two fields of the
                  balance record that `vote.verify` reads itself are kept (`VoteFirstValid`, `VoteLastValid`)
    `sigOk`       `m.Record.VoteID.Verify(OneTimeIDForRound(rv.Round, …), rv, uv.Sig)`
    `credWeight`  `uv.Cred.Verify(proto, m)` as a function of (sender, round, period, step) — all that `m` depends on —
                  and the credential: none = the VRF proof does not verify for the sender's selection key and the
                  selector (seed, round, period, step); some w = the sortition weight (possibly 0)
  `voteOk` below is the combined oracle `RawVote → Cred → Sig → Option Weight` of the design.
* `verifyAsync` verifies the votes concurrently and reads the results in completion order.  The verdict does not
  depend on that order (any error rejects; the weight is a commutative sum), only WHICH failing vote is reported
  does; the model reads the results in list order and reports a single class `invalidVote`.
* `uint64` weights are `Nat`: the sum is bounded by the committee weight (≤ total stake < 2^64); recorded as an
  assumption of the check.  `numVotes+numEquivocationVotes` cannot wrap (slice lengths).
* Every error return is an explicit `Except.error`.
-/
namespace AlgoVerif.Model.Bundle

/-! ### steps, thresholds (agreement/types.go) -/

def propose : Nat := 0
def soft : Nat := 1
def cert : Nat := 2
def next : Nat := 3
def late : Nat := 253
def redo : Nat := 254
def down : Nat := 255

/-- the six `config.ConsensusParams` fields read by `step.threshold` / `step.reachesQuorum` -/
structure Params where
  softT : Nat
  certT : Nat
  nextT : Nat
  lateT : Nat
  redoT : Nat
  downT : Nat
deriving DecidableEq, Repr, Inhabited

/-- `step.threshold(proto)` -/
def threshold (p : Params) (s : Nat) : Nat :=
  if s = 0 then 0
  else if s = 1 then p.softT
  else if s = 2 then p.certT
  else if s = 253 then p.lateT
  else if s = 254 then p.redoT
  else if s = 255 then p.downT
  else p.nextT

/-- `step.reachesQuorum(proto, weight)` -/
def reachesQuorum (p : Params) (s : Nat) (weight : Nat) : Bool :=
  if s = 0 then false
  else if s = 1 then decide (weight ≥ p.softT)
  else if s = 2 then decide (weight ≥ p.certT)
  else if s = 253 then decide (weight ≥ p.lateT)
  else if s = 254 then decide (weight ≥ p.redoT)
  else if s = 255 then decide (weight ≥ p.downT)
  else decide (weight ≥ p.nextT)

/-- `ParamsRound(rnd) = rnd.SubSaturate(2)` -/
def paramsRound (r : Nat) : Nat := r - 2

/-! ### values and votes -/

/-- `proposalValue` -/
structure Proposal where
  origPeriod : Nat
  origProposer : Nat
  blockDigest : Nat
  encDigest : Nat
deriving DecidableEq, Repr, Inhabited

/-- `var bottom proposalValue` -/
def bottom : Proposal := ⟨0, 0, 0, 0⟩

/-- `rawVote`: exactly what the one-time signature covers -/
structure RawVote where
  sender : Nat
  round : Nat
  period : Nat
  step : Nat
  proposal : Proposal
deriving DecidableEq, Repr, Inhabited

/-- the part of `committee.Membership.Record` read by `unauthenticatedVote.verify` itself -/
structure Record where
  voteFirstValid : Nat
  voteLastValid : Nat
deriving DecidableEq, Repr, Inhabited

/-- ledger lookups and cryptographic checks -/
structure Env (Cred Sig : Type) where
  params : Nat → Option Params
  member : Nat → Nat → Nat → Nat → Option Record
  sigOk : RawVote → Sig → Bool
  credWeight : Nat → Nat → Nat → Nat → Cred → Option Nat

/-- the combined cryptographic oracle: the signature verifies on exactly this raw vote and the credential
verifies for (sender, round, period, step) with a positive weight -/
def voteOk {Cred Sig : Type} (env : Env Cred Sig) (rv : RawVote) (c : Cred) (s : Sig) : Option Nat :=
  if env.sigOk rv s then
    match env.credWeight rv.sender rv.round rv.period rv.step c with
    | some w => if w = 0 then none else some w
    | none => none
  else none

/-! ### unauthenticatedVote.verify -/

inductive VoteErr
  | membership          -- could not get membership parameters
  | proposeSender       -- proposal-vote sender mismatches with proposal-value
  | proposeFuturePeriod -- proposal-vote … claims to repropose block from future period
  | bottom              -- votes from step … cannot validate bottom
  | params              -- could not get consensus params
  | beforeFirstValid
  | afterLastValid
  | sig                 -- could not verify FS signature
  | cred                -- sender was not selected: VRF proof does not verify
  | credZero            -- sender was not selected: credential has weight 0
deriving DecidableEq, Repr, Inhabited

/-- `unauthenticatedVote.verify(l)`; the result is `vote.Cred.Weight` (the rest of the `vote` is the input) -/
def verifyVote {Cred Sig : Type} (env : Env Cred Sig) (rv : RawVote) (c : Cred) (s : Sig) : Except VoteErr Nat :=
  match env.member rv.sender rv.round rv.period rv.step with
  | none => .error .membership
  | some m =>
    -- switch rv.Step { case propose: …; fallthrough; case soft: fallthrough; case cert: … }
    if rv.step = 0 ∧ rv.period = rv.proposal.origPeriod ∧ rv.sender ≠ rv.proposal.origProposer then
      .error .proposeSender
    else if rv.step = 0 ∧ rv.proposal.origPeriod > rv.period then .error .proposeFuturePeriod
    else if (rv.step = 0 ∨ rv.step = 1 ∨ rv.step = 2) ∧ rv.proposal = bottom then .error .bottom
    else
      match env.params (paramsRound rv.round) with
      | none => .error .params
      | some _ =>
        if rv.round < m.voteFirstValid then .error .beforeFirstValid
        else if m.voteLastValid ≠ 0 ∧ rv.round > m.voteLastValid then .error .afterLastValid
        else if !env.sigOk rv s then .error .sig
        else
          match env.credWeight rv.sender rv.round rv.period rv.step c with
          | none => .error .cred
          | some w => if w = 0 then .error .credZero else .ok w

/-! ### unauthenticatedEquivocationVote.verify -/

/-- `equivocationVoteAuthenticator` (Round/Period/Step come from the bundle) -/
structure EqAuth (Cred Sig : Type) where
  sender : Nat
  cred : Cred
  sig0 : Sig
  sig1 : Sig
  prop0 : Proposal
  prop1 : Proposal

inductive EqErr
  | identical                -- not an equivocation pair: identical vote
  | pair0 (e : VoteErr)
  | pair1 (e : VoteErr)
deriving DecidableEq, Repr, Inhabited

/-- `unauthenticatedEquivocationVote.verify(l)`; the result is the weight of `v0.Cred` -/
def verifyEqVote {Cred Sig : Type} (env : Env Cred Sig) (round period step : Nat) (e : EqAuth Cred Sig) :
    Except EqErr Nat :=
  if e.prop0 = e.prop1 then .error .identical
  else
    match verifyVote env ⟨e.sender, round, period, step, e.prop0⟩ e.cred e.sig0 with
    | .error x => .error (.pair0 x)
    | .ok w =>
      match verifyVote env ⟨e.sender, round, period, step, e.prop1⟩ e.cred e.sig1 with
      | .error x => .error (.pair1 x)
      | .ok _ => .ok w

/-! ### unauthenticatedBundle.verifyAsync -/

/-- `voteAuthenticator` -/
structure VoteAuth (Cred Sig : Type) where
  sender : Nat
  cred : Cred
  sig : Sig

/-- `unauthenticatedBundle` / `Certificate` -/
structure UBundle (Cred Sig : Type) where
  round : Nat
  period : Nat
  step : Nat
  proposal : Proposal
  votes : List (VoteAuth Cred Sig)
  eqVotes : List (EqAuth Cred Sig)

inductive BundleErr
  | proposeStep     -- b.Step = propose
  | params          -- could not get consensus params
  | tooLarge        -- bundle too large
  | dupVote         -- vote … was duplicated in bundle
  | dupEqVote       -- equivocating vote pair … was duplicated in bundle
  | invalidVote     -- vote / equivocating vote pair … was invalid in bundle
  | notEnough       -- did not see enough votes
  | certStep        -- certificate step is … != Cert
  | certRound       -- certificate claims to validate the wrong round
  | certDigest      -- certificate claims to validate the wrong hash
deriving DecidableEq, Repr, Inhabited

/-- `for _, v := range xs { if voters[v.Sender] { return dup }; voters[v.Sender] = true }`;
`voters` is the list of keys set so far; `none` = a duplicate was found -/
def dupLoop : List Nat → List Nat → Option (List Nat)
  | [], voters => some voters
  | s :: rest, voters => if voters.contains s then none else dupLoop rest (s :: voters)

/-- the raw vote `verifyAsync` builds for a `voteAuthenticator` -/
def rawOf {Cred Sig : Type} (b : UBundle Cred Sig) (a : VoteAuth Cred Sig) : RawVote :=
  ⟨a.sender, b.round, b.period, b.step, b.proposal⟩

/-- results of the vote requests: `weight += res.v.Cred.Weight` for verified votes, the first error rejects -/
def sumVotes {Cred Sig : Type} (env : Env Cred Sig) (b : UBundle Cred Sig) :
    List (VoteAuth Cred Sig) → Nat → Except BundleErr Nat
  | [], weight => .ok weight
  | a :: rest, weight =>
    match verifyVote env (rawOf b a) a.cred a.sig with
    | .error _ => .error .invalidVote
    | .ok w => sumVotes env b rest (weight + w)

/-- results of the equivocation-vote requests: `weight += res.ev.Cred.Weight` -/
def sumEqVotes {Cred Sig : Type} (env : Env Cred Sig) (b : UBundle Cred Sig) :
    List (EqAuth Cred Sig) → Nat → Except BundleErr Nat
  | [], weight => .ok weight
  | e :: rest, weight =>
    match verifyEqVote env b.round b.period b.step e with
    | .error _ => .error .invalidVote
    | .ok w => sumEqVotes env b rest (weight + w)

/-- `unauthenticatedBundle.verify(ctx, l, avv)` = `verifyAsync(ctx, l, avv)()` with a live context.
The result is the total weight of the returned `bundle`. -/
def verify {Cred Sig : Type} (env : Env Cred Sig) (b : UBundle Cred Sig) : Except BundleErr Nat :=
  if b.step = propose then .error .proposeStep
  else
    match env.params (paramsRound b.round) with
    | none => .error .params
    | some proto =>
      let numVotes := b.votes.length
      let numEquivocationVotes := b.eqVotes.length
      if numVotes > threshold proto b.step ∨ numEquivocationVotes > threshold proto b.step
          ∨ numVotes + numEquivocationVotes > threshold proto b.step then .error .tooLarge
      else
        match dupLoop (b.votes.map VoteAuth.sender) [] with
        | none => .error .dupVote
        | some voters =>
          match dupLoop (b.eqVotes.map EqAuth.sender) voters with
          | none => .error .dupEqVote
          | some _ =>
            match sumVotes env b b.votes 0 with
            | .error x => .error x
            | .ok w₁ =>
              match sumEqVotes env b b.eqVotes w₁ with
              | .error x => .error x
              | .ok weight =>
                if !reachesQuorum proto b.step weight then .error .notEnough
                else .ok weight

/-! ### Certificate.Authenticate -/

/-- what `claimsToAuthenticate` reads of a `bookkeeping.Block`: `e.Round()`, `e.Digest()` -/
structure Block where
  round : Nat
  digest : Nat
deriving DecidableEq, Repr, Inhabited

/-- `Certificate.claimsToAuthenticate(e)` -/
def claimsToAuthenticate {Cred Sig : Type} (c : UBundle Cred Sig) (e : Block) : Except BundleErr Unit :=
  if c.round ≠ e.round then .error .certRound
  else if c.proposal.blockDigest ≠ e.digest then .error .certDigest
  else .ok ()

/-- `Certificate.Authenticate(e, l, avv)` -/
def authenticate {Cred Sig : Type} (env : Env Cred Sig) (c : UBundle Cred Sig) (e : Block) : Except BundleErr Nat :=
  if c.step ≠ cert then .error .certStep
  else
    match claimsToAuthenticate c e with
    | .error x => .error x
    | .ok () => verify env c

/-! ### the token instance used by the driver (and as the non-vacuity witness of the ideal-cryptography
hypotheses): a signature / credential is described by HOW IT WAS MADE -/

/-- a one-time signature made with the voting key of account `key`, for the one-time identifier of `msg.round`,
over the raw vote `msg`; `flipped` = a bit of it was changed afterwards -/
structure SigTok where
  key : Nat
  msg : RawVote
  flipped : Bool
deriving DecidableEq, Repr, Inhabited

/-- a VRF proof made with the selection key of account `key` for the selector of (round, period, step);
`weight` = the sortition weight of the honest proof for that account and selector -/
structure CredTok where
  key : Nat
  round : Nat
  period : Nat
  step : Nat
  weight : Nat
  flipped : Bool
deriving DecidableEq, Repr, Inhabited

/-- ideal one-time signatures: verification succeeds only for the untouched signature, under the signer's own
key, on the exact raw vote that was signed -/
def tokSigOk (rv : RawVote) (s : SigTok) : Bool :=
  !s.flipped && s.key == rv.sender && s.msg == rv

/-- ideal VRF: the proof verifies only untouched, under the prover's own key, for the exact selector -/
def tokCredWeight (sender round period step : Nat) (c : CredTok) : Option Nat :=
  if !c.flipped && c.key == sender && c.round == round && c.period == period && c.step == step
  then some c.weight else none

def tokEnv (params : Nat → Option Params) (member : Nat → Nat → Nat → Nat → Option Record) : Env CredTok SigTok :=
  { params := params, member := member, sigOk := tokSigOk, credWeight := tokCredWeight }

end AlgoVerif.Model.Bundle
