/-
Abstract node store of crypto/merkletrie (cache.go): nodes addressed by `storedNodeIdentifier`, children
referenced by id, a cache in front of the committer's pages.  Pages, page sizes and the LRU are abstracted:
a memory is a partial map id ↦ stored node (the union of all decoded pages).  What cache.go does to ids is
modelled by the three facts the transparency theorems (Props.C17) are about:
  * getNode = cache hit, else the committed page (`PStore.mem`);
  * commit / evict / loadPage / deleteNode change memories only outside the reachable ids or without
    changing the merged view (`agreement on a child-closed id set`);
  * reallocatePage / reallocateNode / refurbishNode move nodes to fresh ids and remap the children
    (`renaming of ids`).
Core Lean only.
-/
import AlgoVerif.Model.MerkleTrie
namespace Model.MerkleTrie

/-- a node as serialized by node.serialize: `hash` + (hashIndex, child id) entries -/
inductive SNode where
  | leaf (suffix : Key)
  | node (children : List (UInt8 × Nat))
  deriving DecidableEq

abbrev Mem := Nat → Option SNode

/-- read the children through `g` (the recursive reader); any unreadable child makes the node unreadable -/
def logicalCs (g : Nat → Option T) : List (UInt8 × Nat) → Option Cs
  | [] => some .nil
  | (b, i) :: rest =>
    match g i, logicalCs g rest with
    | some t, some r => some (.cons b t r)
    | _, _ => none

/-- the logical trie below id `i`, reading at most `fuel` levels (the trie depth is bounded by
elementLength + 1); `none` = ErrLoadedPageMissingNode somewhere below -/
def logical (m : Mem) : Nat → Nat → Option T
  | 0, _ => none
  | f + 1, i =>
    match m i with
    | none => none
    | some (.leaf s) => some (.leaf s)
    | some (.node cs) => (logicalCs (logical m f) cs).map T.node

def SNode.rename (ρ : Nat → Nat) : SNode → SNode
  | .leaf s => .leaf s
  | .node cs => .node (cs.map fun p => (p.1, ρ p.2))

/-- cache in front of the committed pages -/
structure PStore where
  cache : Mem
  disk : Mem
  root : Option Nat

/-- merkleTrieCache.getNode: the cached node, else the node of the loaded page -/
def PStore.mem (σ : PStore) : Mem := fun i =>
  match σ.cache i with
  | some n => some n
  | none => σ.disk i

def PStore.logical (σ : PStore) (fuel : Nat) : Option T :=
  match σ.root with
  | none => none
  | some r => Model.MerkleTrie.logical σ.mem fuel r

end Model.MerkleTrie
