import AlgoVerif.Spec.LedgerHistory
/-
Model.AcctUpdates — executable, code-shaped model of ledger/acctupdates.go (+ the parts of tracker.go, lruaccts.go,
lruresources.go, lrukv.go, acctdeltas.go and store/trackerdb/sqlitedriver/sql.go it runs through).

State: the tracker DB (`db`, with its own round), `dbRound` (= cachedDBRound), the in-memory `deltas`, the per-key
indexes (`accounts`, `resources`, `kvStore`, `creatables`: latest value + ndeltas), the three LRU caches (recency list,
pending-write channel with a capacity, not-found set + its pending channel), `versions`, and the block store
(`hist`: genesis + every delta; what `reload` replays from).

Operations: `newBlock`, `commitOffset` / `commit` (produceCommittingTask, prepareCommit, commitRound, postCommit as
coded), `reload` (loadFromDisk + replay + the flush at the end of replay), `evict` (the tail of newBlockImpl with a
small size), `flushCaches`; the lookups written as in the code (`lookupAcct` = lookupWithoutRewards, `lookupRes` =
lookupResource, `lookupKv`, `lookupCreator` = getCreatorForRound) and the page functions (`pageAssets`, `pageApps`,
`pageKv` + the DB scan `dbKvScan` = LookupKeysByPrefixCursor/processKvRows).

Modelling decisions (stated in the claims): values are small opaque tags; a creatable index has one fixed type
(`ctypeOf`, assets and apps draw ids from one counter); SQLite row ids (`addrid`) are not modelled — resources are
keyed by (address, index); the reader/writer interleaving is at operation granularity (the DB-round re-check and its
retry / stale branches are explicit result values). Core Lean only.
-/
namespace AlgoVerif.Model.AcctUpdates
open AlgoVerif.Spec.LedgerHistory

/-! ### association maps (keys unique; invariant proved separately) -/

abbrev AMap (K V : Type) := List (K × V)

namespace AMap
variable {K V : Type} [DecidableEq K]

def get (m : AMap K V) (k : K) : Option V :=
  match m with
  | [] => none
  | (k', v) :: t => if k' = k then some v else get t k

def del (m : AMap K V) (k : K) : AMap K V := m.filter (fun p => p.1 ≠ k)

def set (m : AMap K V) (k : K) (v : V) : AMap K V := (k, v) :: del m k

def keys (m : AMap K V) : List K := m.map (·.1)

end AMap

/-! ### LRU caches (lruaccts.go / lruresources.go / lrukv.go) -/

structure LEntry (V : Type) where
  val : V
  round : Nat
  deriving Repr

/-- `list` is most-recent first; `pending` / `pendingNF` are the buffered channels (oldest first, capacity `cap`).
    `enabled = false` is the cache initialised with 0 pending writes (DisableLedgerLRUCache): every map is nil. -/
structure LRU (K V : Type) where
  enabled : Bool := false
  cap : Nat := 0
  list : List (K × LEntry V) := []
  pending : List (K × LEntry V) := []
  notFound : List K := []
  pendingNF : List K := []

namespace LRU
variable {K V : Type} [DecidableEq K]

def init (pendingWrites : Nat) : LRU K V :=
  if pendingWrites > 0 then { enabled := true, cap := pendingWrites } else {}

def read (m : LRU K V) (k : K) : Option (LEntry V) :=
  if m.enabled then AMap.get m.list k else none

def readNotFound (m : LRU K V) (k : K) : Bool :=
  m.enabled && m.notFound.contains k

/-- `select { case ch <- x: default: }` -/
def writePending (m : LRU K V) (k : K) (e : LEntry V) : LRU K V :=
  if m.enabled && m.pending.length < m.cap then { m with pending := m.pending ++ [(k, e)] } else m

def writeNotFoundPending (m : LRU K V) (k : K) : LRU K V :=
  if m.enabled && m.pendingNF.length < m.cap then { m with pendingNF := m.pendingNF ++ [k] } else m

/-- replaces an existing entry only if the new one is for a later round; always moves to the front -/
def write (m : LRU K V) (k : K) (e : LEntry V) : LRU K V :=
  if !m.enabled then m else
  match AMap.get m.list k with
  | some old => { m with list := (k, if old.round < e.round then e else old) :: AMap.del m.list k }
  | none => { m with list := (k, e) :: m.list }

def flushPendingWrites (m : LRU K V) : LRU K V :=
  let m1 := m.pending.foldl (fun acc p => acc.write p.1 p.2) { m with pending := [] }
  { m1 with notFound := m1.notFound ++ m1.pendingNF, pendingNF := [] }

/-- drop from the back until at most `newSize` entries remain; clears the whole not-found set -/
def prune (m : LRU K V) (newSize : Nat) : LRU K V :=
  if !m.enabled then m else { m with list := m.list.take newSize, notFound := [] }

end LRU

/-! ### state -/

/-- a row of the `resources` table: type + (params, holding); never both absent -/
structure ResRow where
  ctype : CType
  val : ResVal
  deriving DecidableEq, Repr, Inhabited

/-- ledgercore.AccountResource: the four pointers -/
structure Res4 where
  assetParams : Option Nat := none
  assetHolding : Option Nat := none
  appParams : Option Nat := none
  appLocal : Option Nat := none
  deriving DecidableEq, Repr, Inhabited

def Res4.proj (r : Res4) : CType → ResVal
  | .asset => ⟨r.assetParams, r.assetHolding⟩
  | .app => ⟨r.appParams, r.appLocal⟩

/-- PersistedResourcesData.AccountResource(), projected to one creatable type -/
def ResRow.proj (r : ResRow) (t : CType) : ResVal := if r.ctype = t then r.val else {}

structure DB where
  round : Nat := 0
  accts : AMap Addr AcctData := []          -- accountbase: non-empty accounts only
  res : AMap (Addr × Cidx) ResRow := []     -- resources
  kvs : AMap Key Bytes := []                -- kvstore
  creat : AMap Cidx (CType × Addr) := []    -- assetcreators
  deriving Inhabited

structure Cfg where
  lookback : Nat := 4      -- MaxAcctLookback
  cache : Bool := true     -- !DisableLedgerLRUCache
  pa : Nat := 100000       -- pending-write buffer sizes (production: 100000 / 10000 / 5000)
  pr : Nat := 10000
  pk : Nat := 5000
  deriving Repr, Inhabited

structure State where
  cfg : Cfg := {}
  hist : History := {}
  db : DB := {}
  dbRound : Nat := 0
  deltas : List Delta := []
  versions : List Nat := [0]
  accounts : AMap Addr (AcctData × Nat) := []
  resources : AMap (Addr × Cidx) (Res4 × Nat) := []
  kvStore : AMap Key (Option Bytes × Nat) := []
  creatables : AMap Cidx (CreatMod × Nat) := []
  baseAccounts : LRU Addr (Option AcctData) := {}
  baseResources : LRU (Addr × Cidx) (Option ResRow) := {}
  baseKVs : LRU Key (Option Bytes) := {}

def State.latest (σ : State) : Nat := σ.dbRound + σ.deltas.length

inductive Err where
  | beforeDb      -- RoundOffsetError
  | tooHigh       -- "round %d too high"
  | staleDb       -- StaleDatabaseRoundError
  | retry         -- the DB moved ahead of cachedDBRound: the reader waits on accountsReadCond and starts over
  | wrongType     -- "lookupResources asked for an asset but got ..."
  | db (what : String)   -- a constraint / rows-affected failure inside commitRound
  | panic (what : String)
  deriving DecidableEq, Repr

/-- roundOffset -/
def roundOffset (σ : State) (rnd : Nat) : Except Err Nat :=
  if rnd < σ.dbRound then .error .beforeDb
  else if rnd - σ.dbRound > σ.deltas.length then .error .tooHigh
  else .ok (rnd - σ.dbRound)

/-- `for offset > 0 { offset--; if v, ok := deltas[offset]...; ok { return v } }` -/
def walkBack {α : Type} (f : Delta → Option α) (ds : List Delta) (offset : Nat) : Option α :=
  (ds.take offset).reverse.findSome? f

/-! ### initialisation (trackerDBInitialize + loadFromDisk without the replay) -/

def initDB (gen : List (Addr × AcctData)) : DB :=
  { round := 0, accts := gen.foldl (fun m p => if p.2 = AcctData.empty then m else AMap.set m p.1 p.2) [] }

def mkCaches (cfg : Cfg) : LRU Addr (Option AcctData) × LRU (Addr × Cidx) (Option ResRow) × LRU Key (Option Bytes) :=
  if cfg.cache then (LRU.init cfg.pa, LRU.init cfg.pr, LRU.init cfg.pk) else (LRU.init 0, LRU.init 0, LRU.init 0)

/-- initializeFromDisk: everything in memory is dropped; `versions = [version of the block at dbRound]` -/
def loadFromDisk (cfg : Cfg) (hist : History) (db : DB) : State :=
  let c := mkCaches cfg
  { cfg := cfg, hist := hist, db := db, dbRound := db.round, deltas := [],
    versions := [match db.round with | 0 => 0 | r + 1 => ((hist.blocks[r]?).map (·.ver)).getD 0],
    baseAccounts := c.1, baseResources := c.2.1, baseKVs := c.2.2 }

def init (cfg : Cfg) (gen : List (Addr × AcctData)) : State :=
  loadFromDisk cfg { gen := gen, blocks := [] } (initDB gen)

/-! ### newBlock -/

def pruneSlackA : Nat := 100000   -- baseAccountsPendingAccountsBufferSize
def pruneSlackR : Nat := 10000    -- baseResourcesPendingAccountsBufferSize
def pruneSlackK : Nat := 5000     -- baseKVPendingBufferSize

def Res4.setRec (r : Res4) (rec : ResRec) : Res4 :=
  match rec.ctype with
  | .asset => { r with assetHolding := rec.hold.toOpt, assetParams := rec.params.toOpt }
  | .app => { r with appLocal := rec.hold.toOpt, appParams := rec.params.toOpt }

/-- `m[k] = (v, m[k].ndeltas + 1)`: one more delta holds the key -/
def idxBump {K V : Type} [DecidableEq K] (m : AMap K (V × Nat)) (k : K) (v : V) : AMap K (V × Nat) :=
  AMap.set m k (v, (match AMap.get m k with | some (_, n) => n | none => 0) + 1)

/-- newBlockImpl (the delta is the one of round latest+1; `trackers.newBlock` is preceded by the block store append) -/
def newBlockTracker (σ : State) (d : Delta) : State :=
  let bA := σ.baseAccounts.flushPendingWrites
  let bR := σ.baseResources.flushPendingWrites
  let bK := σ.baseKVs.flushPendingWrites
  let accounts := d.accts.foldl (fun m p => idxBump m p.1 p.2) σ.accounts
  let resources := d.res.foldl (fun m rec =>
    idxBump m (rec.addr, rec.cidx) (((AMap.get m (rec.addr, rec.cidx)).getD ({}, 0)).1.setRec rec)) σ.resources
  let kvStore := d.kvs.foldl (fun m kv => idxBump m kv.key kv.data) σ.kvStore
  let creatables := d.creat.foldl (fun m c => idxBump m c.cidx c) σ.creatables
  { σ with
    deltas := σ.deltas ++ [d], versions := σ.versions ++ [d.ver],
    accounts := accounts, resources := resources, kvStore := kvStore, creatables := creatables,
    baseAccounts := bA.prune (accounts.length + 1 + pruneSlackA),
    baseResources := bR.prune (resources.length + 1 + pruneSlackR),
    baseKVs := bK.prune (kvStore.length + 1 + pruneSlackK) }

def newBlock (σ : State) (d : Delta) : State :=
  newBlockTracker { σ with hist := { σ.hist with blocks := σ.hist.blocks ++ [d] } } d

/-! ### point lookups -/

/-- the tail of lookupWithoutRewards: baseAccounts, its not-found set, then the DB with the round re-check -/
def acctFromDb (σ : State) (a : Addr) (rnd : Nat) : Except Err (AcctData × Nat) × State :=
  match σ.baseAccounts.read a with
  | some e => (.ok (e.val.getD AcctData.empty, rnd), { σ with baseAccounts := σ.baseAccounts.writePending a e })
  | none =>
    if σ.baseAccounts.readNotFound a then (.ok (AcctData.empty, rnd), σ)
    else
      -- accountsq.LookupAccount: (db round, row)
      if σ.db.round = σ.dbRound then
        match AMap.get σ.db.accts a with
        | some d => (.ok (d, rnd), { σ with baseAccounts := σ.baseAccounts.writePending a ⟨some d, σ.db.round⟩ })
        | none => (.ok (AcctData.empty, rnd), { σ with baseAccounts := σ.baseAccounts.writeNotFoundPending a })
      else if σ.db.round < σ.dbRound then (.error .staleDb, σ)
      else (.error .retry, σ)

/-- lookupWithoutRewards: (account data, validThrough) -/
def lookupAcct (σ : State) (rnd : Nat) (a : Addr) : Except Err (AcctData × Nat) × State :=
  match roundOffset σ rnd with
  | .error e => (.error e, σ)
  | .ok offset =>
    match AMap.get σ.accounts a with
    | some (data, _) =>
      -- the address appears in the deltas
      if offset = σ.deltas.length then (.ok (data, rnd), σ)       -- the most recent round: the index holds the value
      else
        match walkBack (·.acct? a) σ.deltas offset with            -- walk deltas backwards
        | some d => (.ok (d, rnd), σ)
        | none => acctFromDb σ a rnd
    | none =>
      -- not in the deltas at all: the answer is valid through the end of the known delta range
      acctFromDb σ a (σ.dbRound + σ.deltas.length)

/-- the tail of lookupResource: baseResources, its not-found set, then accountsq.LookupResources(addr, aidx, ctype) -/
def resFromDb (σ : State) (a : Addr) (c : Cidx) (t : CType) (rnd : Nat) : Except Err (ResVal × Nat) × State :=
  match σ.baseResources.read (a, c) with
  | some e =>
    (.ok ((e.val.map (·.proj t)).getD {}, rnd), { σ with baseResources := σ.baseResources.writePending (a, c) e })
  | none =>
    if σ.baseResources.readNotFound (a, c) then (.ok ({}, rnd), σ)
    else
      match AMap.get σ.db.res (a, c) with
      | some row =>
        if row.ctype ≠ t then (.error .wrongType, σ)
        else if σ.db.round = σ.dbRound then
          (.ok (row.val, rnd), { σ with baseResources := σ.baseResources.writePending (a, c) ⟨some row, σ.db.round⟩ })
        else if σ.db.round < σ.dbRound then (.error .staleDb, σ) else (.error .retry, σ)
      | none =>
        if σ.db.round = σ.dbRound then
          (.ok ({}, rnd), { σ with baseResources := σ.baseResources.writeNotFoundPending (a, c) })
        else if σ.db.round < σ.dbRound then (.error .staleDb, σ) else (.error .retry, σ)

/-- lookupResource, projected to the queried creatable type as Ledger.LookupAsset / LookupApplication do -/
def lookupRes (σ : State) (rnd : Nat) (a : Addr) (c : Cidx) (t : CType) : Except Err (ResVal × Nat) × State :=
  match roundOffset σ rnd with
  | .error e => (.error e, σ)
  | .ok offset =>
    match AMap.get σ.resources (a, c) with
    | some (r, _) =>
      if offset = σ.deltas.length then (.ok (r.proj t, rnd), σ)
      else
        match walkBack (·.res? a c t) σ.deltas offset with          -- Accts.GetResource(addr, aidx, ctype)
        | some v => (.ok (v, rnd), σ)
        | none => resFromDb σ a c t rnd
    | none => resFromDb σ a c t (σ.dbRound + σ.deltas.length)

/-- the tail of lookupKv: baseKVs, then accountsq.LookupKeyValue with the round re-check -/
def kvFromDb (σ : State) (k : Key) : Except Err (Option Bytes) × State :=
  match σ.baseKVs.read k with
  | some e => (.ok e.val, { σ with baseKVs := σ.baseKVs.writePending k e })
  | none =>
    if σ.db.round = σ.dbRound then
      -- deleted values are cached too
      (.ok (AMap.get σ.db.kvs k), { σ with baseKVs := σ.baseKVs.writePending k ⟨AMap.get σ.db.kvs k, σ.db.round⟩ })
    else if σ.db.round < σ.dbRound then (.error .staleDb, σ)
    else (.error .retry, σ)

/-- lookupKv -/
def lookupKv (σ : State) (rnd : Nat) (k : Key) : Except Err (Option Bytes) × State :=
  match roundOffset σ rnd with
  | .error e => (.error e, σ)
  | .ok offset =>
    match AMap.get σ.kvStore k with
    | some (data, _) =>
      if offset = σ.deltas.length then (.ok data, σ)
      else
        match walkBack (·.kv? k) σ.deltas offset with
        | some v => (.ok v, σ)
        | none => kvFromDb σ k
    | none => kvFromDb σ k

/-- LookupCreator(cidx, ctype): `assetcreators ON asset = ? AND ctype = ?` -/
def dbCreator (db : DB) (c : Cidx) (t : CType) : Option Addr :=
  match AMap.get db.creat c with
  | some (t', a) => if t' = t then some a else none
  | none => none

/-- getCreatorForRound -/
def lookupCreator (σ : State) (rnd : Nat) (c : Cidx) (t : CType) : Except Err (Option Addr) :=
  match roundOffset σ rnd with
  | .error e => .error e
  | .ok offset =>
    let fromDeltas : Option CreatMod :=
      if offset = σ.deltas.length then (AMap.get σ.creatables c).map (·.1)   -- the latest round: the index
      else walkBack (·.creat? c) σ.deltas offset
    match fromDeltas with
    | some m => .ok (creatorOfMod m t)
    | none =>
      if σ.db.round = σ.dbRound then .ok (dbCreator σ.db c t)
      else if σ.db.round < σ.dbRound then .error .staleDb
      else .error .retry

/-! ### commit: produceCommittingTask / prepareCommit / commitRound / postCommit -/

/-- sort.Search(n, f) -/
def sortSearch (f : Nat → Bool) : Nat → Nat → Nat → Nat
  | 0, i, _ => i
  | fuel + 1, i, j =>
    if i < j then
      let h := (i + j) / 2
      if !f h then sortSearch f fuel (h + 1) j else sortSearch f fuel i h
    else i

/-- consecutiveVersion: never commit a chunk spanning two consensus versions -/
def consecutiveVersion (versions : List Nat) (offset : Nat) : Nat :=
  if versions[1]? ≠ versions[offset]? then
    sortSearch (fun i => versions[1]? != versions[1 + i]?) (offset + 1) 0 offset
  else offset

/-- produceCommittingTask: which offset is flushed for (committedRound, lookback); `none` = nothing to do -/
def commitOffset (σ : State) (committedRound lookback : Nat) : Except Err (Option Nat) :=
  if committedRound < lookback then .ok none
  else
    let newBase := committedRound - lookback
    if newBase ≤ σ.dbRound then .ok none
    else if newBase > σ.dbRound + σ.deltas.length then .error (.panic "produceCommittingTask: block too far in the future")
    else .ok (some (consecutiveVersion σ.versions (newBase - σ.dbRound)))

/-- group the modifications of `deltas[:offset]` by key, in order of first appearance, each with its entries in round order -/
def compact {K E : Type} [DecidableEq K] (mods : List (List (K × E))) : AMap K (List E) :=
  mods.foldl (fun acc round =>
    round.foldl (fun acc p =>
      match AMap.get acc p.1 with
      | some es => acc.map (fun q => if q.1 = p.1 then (q.1, es ++ [p.2]) else q)
      | none => acc ++ [(p.1, [p.2])]) acc) []

/-- ResourcesData.SetAssetData / SetAppData on the row being compacted (`none` = the empty ResourcesData) -/
def setResData (row : ResVal) (rec : ResRec) : ResVal :=
  let hold := match rec.hold with | .val n => some n | .deleted => none | .absent => row.hold
  let params := match rec.params with | .val n => some n | .deleted => none | .absent => row.params
  ⟨params, hold⟩

structure CommitOut where
  db : DB
  updAccts : List (Addr × Option AcctData)          -- updatedPersistedAccounts
  updRes : List ((Addr × Cidx) × Option ResRow)      -- updatedPersistedResources
  updKvs : List (Key × Option Bytes)                 -- updatedPersistedKVs
  cntAccts : AMap Addr Nat
  cntRes : AMap (Addr × Cidx) Nat
  cntKvs : AMap Key Nat
  cntCreat : AMap Cidx Nat

/-- accountsNewRoundImpl, accounts part: (old row as the commit believes it, new value) decides insert / update / delete -/
def writeAcct (accts : AMap Addr AcctData) (a : Addr) (old : Option AcctData) (new : AcctData) : Except Err (AMap Addr AcctData) :=
  match old with
  | none =>
    if new = AcctData.empty then .ok accts
    else if (AMap.get accts a).isSome then .error (.db "InsertAccount: UNIQUE constraint")
    else .ok (AMap.set accts a new)
  | some _ =>
    if (AMap.get accts a).isNone then .error (.db "accountbase: rows affected != 1")
    else if new = AcctData.empty then .ok (AMap.del accts a)
    else .ok (AMap.set accts a new)

def writeRes (res : AMap (Addr × Cidx) ResRow) (k : Addr × Cidx) (old : Option ResRow) (new : Option ResRow) :
    Except Err (AMap (Addr × Cidx) ResRow) :=
  match old, new with
  | none, none => .ok res
  | none, some r => if (AMap.get res k).isSome then .error (.db "InsertResource: UNIQUE constraint") else .ok (AMap.set res k r)
  | some _, none => if (AMap.get res k).isNone then .error (.db "resources: rows affected != 1") else .ok (AMap.del res k)
  | some _, some r => if (AMap.get res k).isNone then .error (.db "resources: rows affected != 1") else .ok (AMap.set res k r)

def exceptFold {α β : Type} (f : β → α → Except Err β) : List α → β → Except Err β
  | [], b => .ok b
  | x :: xs, b => match f b x with | .ok b' => exceptFold f xs b' | .error e => .error e

/-- makeCompactAccountDeltas: the old row is taken from baseAccounts when cached (tombstones included), else
    (accountsLoadOld) read from the DB -/
def acctOld (σ : State) (a : Addr) : Option AcctData :=
  match σ.baseAccounts.read a with
  | some e => e.val
  | none => AMap.get σ.db.accts a

def acctNew (es : List AcctData) : AcctData := es.getLast?.getD AcctData.empty

def acctRowOf (v : AcctData) : Option AcctData := if v = AcctData.empty then none else some v

def acctStep (σ : State) (accts : AMap Addr AcctData) (p : Addr × List AcctData) : Except Err (AMap Addr AcctData) :=
  writeAcct accts p.1 (acctOld σ p.1) (acctNew p.2)

/-- makeCompactResourceDeltas: a cached entry is trusted only when it is a live row (AcctRef != nil); otherwise
    resourcesLoadOld reads the DB -/
def resOld (σ : State) (k : Addr × Cidx) : Option ResRow :=
  match σ.baseResources.read k with
  | some e => (match e.val with | some row => some row | none => AMap.get σ.db.res k)
  | none => AMap.get σ.db.res k

/-- the compacted new row: SetAssetData / SetAppData of every record in round order, starting from the empty row -/
def resNew (es : List ResRec) : Option ResRow :=
  let v := es.foldl setResData {}
  if v.isEmpty then none else some ⟨(es.head?.map (·.ctype)).getD .asset, v⟩

def resStep (σ : State) (res : AMap (Addr × Cidx) ResRow) (p : (Addr × Cidx) × List ResRec) : Except Err (AMap (Addr × Cidx) ResRow) :=
  writeRes res p.1 (resOld σ p.1) (resNew p.2)

/-- accountsNewRoundImpl, kv part: the first OldData and the newest Data decide -/
def kvStep (acc : AMap Key Bytes × List (Key × Option Bytes)) (p : Key × List KvMod) : AMap Key Bytes × List (Key × Option Bytes) :=
  let oldData := (p.2.head?.map (·.old)).getD none
  let data := (p.2.getLast?.map (·.data)).getD none
  match data with
  | some v =>
    if oldData = some v then acc                                   -- changed back within the delta span
    else (AMap.set acc.1 p.1 v, acc.2 ++ [(p.1, some v)])          -- UpsertKvPair
  | none =>
    if oldData.isNone then acc                                     -- came and went within the delta span
    else (AMap.del acc.1 p.1, acc.2 ++ [(p.1, none)])              -- DeleteKvPair

def creatStep (cr : AMap Cidx (CType × Addr)) (p : Cidx × List CreatMod) : Except Err (AMap Cidx (CType × Addr)) :=
  match p.2.getLast? with
  | none => .ok cr
  | some m =>
    if m.created then
      if (AMap.get cr p.1).isSome then .error (.db "InsertCreatable: UNIQUE constraint")
      else .ok (AMap.set cr p.1 (m.ctype, m.creator))
    else
      -- DELETE FROM assetcreators WHERE asset = ? AND ctype = ?   (asset is the primary key)
      match AMap.get cr p.1 with
      | some row => if row.1 = m.ctype then .ok (AMap.del cr p.1) else .ok cr
      | none => .ok cr

/-- prepareCommit + commitRound of accountUpdates for `deltas[:offset]` (one DB transaction: all or nothing) -/
def commitRound (σ : State) (offset : Nat) : Except Err CommitOut :=
  let ds := σ.deltas.take offset
  let newBase := σ.dbRound + offset
  let cA := compact (ds.map (·.accts))
  let cR := compact (ds.map (fun d => d.res.map (fun r => ((r.addr, r.cidx), r))))
  let cK := compact (ds.map (fun d => d.kvs.map (fun m => (m.key, m))))
  let cC := compact (ds.map (fun d => d.creat.map (fun m => (m.cidx, m))))
  match exceptFold (acctStep σ) cA σ.db.accts with
  | .error e => .error e
  | .ok accts =>
  match exceptFold (resStep σ) cR σ.db.res with
  | .error e => .error e
  | .ok res =>
  let kvr := cK.foldl kvStep (σ.db.kvs, [])
  match exceptFold creatStep cC σ.db.creat with
  | .error e => .error e
  | .ok creat =>
  .ok { db := { round := newBase, accts := accts, res := res, kvs := kvr.1, creat := creat },
        updAccts := cA.map (fun p => (p.1, acctRowOf (acctNew p.2))),
        updRes := cR.map (fun p => (p.1, resNew p.2)),
        updKvs := kvr.2,
        cntAccts := cA.map (fun p => (p.1, p.2.length)), cntRes := cR.map (fun p => (p.1, p.2.length)),
        cntKvs := cK.map (fun p => (p.1, p.2.length)), cntCreat := cC.map (fun p => (p.1, p.2.length)) }

/-- drop `cnt` references from an index entry, evict it when none remain; a missing entry / too large a count is the
    code's Panicf -/
def idxDrop {K V : Type} [DecidableEq K] (what : String) (m : AMap K (V × Nat)) (k : K) (cnt : Nat) : Except Err (AMap K (V × Nat)) :=
  match AMap.get m k with
  | none => .error (.panic ("inconsistency: flushed changes but not in " ++ what))
  | some (v, n) =>
    if cnt > n then .error (.panic ("inconsistency: flushed more changes than " ++ what ++ " had"))
    else if cnt = n then .ok (AMap.del m k)
    else .ok (AMap.set m k (v, n - cnt))

/-- postCommit -/
def postCommit (σ : State) (offset : Nat) (out : CommitOut) : Except Err State :=
  match exceptFold (fun m (p : Addr × Nat) => idxDrop "au.accounts" m p.1 p.2) out.cntAccts σ.accounts with
  | .error e => .error e
  | .ok accounts =>
  match exceptFold (fun m (p : (Addr × Cidx) × Nat) => idxDrop "au.resources" m p.1 p.2) out.cntRes σ.resources with
  | .error e => .error e
  | .ok resources =>
  match exceptFold (fun m (p : Key × Nat) => idxDrop "au.kvStore" m p.1 p.2) out.cntKvs σ.kvStore with
  | .error e => .error e
  | .ok kvStore =>
  match exceptFold (fun m (p : Cidx × Nat) => idxDrop "au.creatables" m p.1 p.2) out.cntCreat σ.creatables with
  | .error e => .error e
  | .ok creatables =>
  let newBase := σ.dbRound + offset
  .ok { σ with
    db := out.db,
    accounts := accounts, resources := resources, kvStore := kvStore, creatables := creatables,
    baseAccounts := out.updAccts.foldl (fun m p => m.write p.1 ⟨p.2, newBase⟩) σ.baseAccounts,
    baseResources := out.updRes.foldl (fun m p => m.write p.1 ⟨p.2, newBase⟩) σ.baseResources,
    baseKVs := out.updKvs.foldl (fun m p => m.write p.1 ⟨p.2, newBase⟩) σ.baseKVs,
    deltas := σ.deltas.drop offset, versions := σ.versions.drop offset, dbRound := newBase }

/-- trackerRegistry.commitRound for an offset (0 = nothing to flush; the uniform-version check of prepareCommit) -/
def commit (σ : State) (offset : Nat) : Except Err State :=
  if offset = 0 then .ok σ
  else if offset > σ.deltas.length then .error (.panic "offset beyond deltas")
  else if σ.versions[1]? ≠ σ.versions[offset]? then .error (.db "attempted to commit series of rounds with non-uniform consensus versions")
  else
    match commitRound σ offset with
    | .error e => .error e
    | .ok out => postCommit σ offset out

/-- committedUpTo(rnd) followed by a synchronous commitRound, lookback = MaxAcctLookback -/
def commitUpTo (σ : State) (committedRound : Nat) : Except Err State :=
  match commitOffset σ committedRound σ.cfg.lookback with
  | .error e => .error e
  | .ok none => .ok σ
  | .ok (some off) => commit σ off

/-! ### cache maintenance, reload -/

def flushCaches (σ : State) : State :=
  { σ with baseAccounts := σ.baseAccounts.flushPendingWrites, baseResources := σ.baseResources.flushPendingWrites,
           baseKVs := σ.baseKVs.flushPendingWrites }

/-- the tail of newBlockImpl with explicit target sizes: pending writes are applied, then the caches are pruned -/
def evict (σ : State) (na nr nk : Nat) : State :=
  let σ := flushCaches σ
  { σ with baseAccounts := σ.baseAccounts.prune na, baseResources := σ.baseResources.prune nr,
           baseKVs := σ.baseKVs.prune nk }

/-- reloadLedger: close the trackers, loadFromDisk, replay the blocks dbRound+1..latest from the block store, and
    (replay's `loadCompleted`) flush once if more than MaxAcctLookback rounds were replayed -/
def reload (σ : State) : Except Err State :=
  let σ0 := loadFromDisk σ.cfg σ.hist σ.db
  let σ1 := (σ.hist.blocks.drop σ.db.round).foldl newBlockTracker σ0
  if σ0.dbRound + σ.cfg.lookback < σ.hist.blocks.length then commitUpTo σ1 σ.hist.blocks.length else .ok σ1

/-! ### pages -/

/-- lexicographic successor of a prefix: the exclusive upper end of the key interval (`none` = no upper end) -/
def prefixIncr : Key → Option Key
  | [] => none
  | ks => match prefixIncr' ks.reverse with | some r => some r.reverse | none => none
where
  prefixIncr' : List Nat → Option (List Nat)      -- on the reversed prefix
    | [] => none
    | b :: rest => if b + 1 > 255 then prefixIncr' rest else some ((b + 1) :: rest)

structure DbKvPage where
  items : List (Key × Option Bytes)
  more : Bool

/-- `qualifies` of processKvRows: strictly after the cursor and not excluded (handled by the in-memory deltas) -/
def kvQualifies (cursor : Key) (exclude : List Key) (k : Key) : Bool := keyLt cursor k && !exclude.contains k

/-- the row loop of processKvRows: byte budget with "at least one"; stop at `limit`; then peek for one more
    qualifying row -/
def kvScanLoop (cursor : Key) (limit maxBytes : Nat) (vals : Bool) (exclude : List Key) :
    List (Key × Bytes) → List (Key × Option Bytes) → Nat → Nat → DbKvPage
  | [], acc, _, _ => ⟨acc, false⟩
  | (k, v) :: rest, acc, collected, bytesAccum =>
    if !kvQualifies cursor exclude k then kvScanLoop cursor limit maxBytes vals exclude rest acc collected bytesAccum
    else
      let item : Key × Option Bytes := (k, if vals then some v else none)
      let itemBytes := k.length + (if vals then v.length else 0)
      if maxBytes > 0 && bytesAccum + itemBytes > maxBytes && collected > 0 then ⟨acc, true⟩
      else if limit > 0 && collected + 1 ≥ limit then ⟨acc ++ [item], rest.any (fun r => kvQualifies cursor exclude r.1)⟩   -- break, then peek
      else kvScanLoop cursor limit maxBytes vals exclude rest (acc ++ [item]) (collected + 1) (bytesAccum + itemBytes)

/-- processKvRows over the rows of the range query (sorted by key) -/
def processKvRows (rows : List (Key × Bytes)) (cursor : Key) (limit maxBytes : Nat) (vals : Bool) (exclude : List Key) : DbKvPage :=
  kvScanLoop cursor limit maxBytes vals exclude rows [] 0 0

/-- LookupKeysByPrefixCursor: `none` = "lookup by strange prefix" (no upper end) -/
def dbKvScan (db : DB) (pfx cursor : Key) (limit maxBytes : Nat) (vals : Bool) (exclude : List Key) : Option DbKvPage :=
  match prefixIncr pfx with
  | none => none
  | some hi =>
    let start : Key := if cursor ≠ [] && keyLe pfx cursor then cursor else pfx
    let rows := (db.kvs.filter (fun r => keyLe start r.1 && keyLt r.1 hi)).mergeSort (fun x y => keyLe x.1 y.1)
    some (processKvRows rows cursor limit maxBytes vals exclude)

structure KvPageOut where
  items : List (Key × Option Bytes)
  round : Nat
  more : Bool

/-- accountUpdates.LookupKvPairsByPrefix (`limit = 0` = no limit on the number of results, as in the DB layer) -/
def pageKv (σ : State) (rnd : Nat) (pfx cursor : Key) (limit maxBytes : Nat) (vals : Bool) : Except Err KvPageOut :=
  match roundOffset σ rnd with
  | .error e => .error e
  | .ok offset =>
    -- walk deltas backwards; the first value seen for a key is the most recent one (none = deleted)
    let deltaResults : AMap Key (Option Bytes) :=
      (σ.deltas.take offset).reverse.foldl (fun acc d =>
        d.kvs.foldl (fun acc m =>
          if !hasPrefix pfx m.key then acc
          else if !keyLt cursor m.key then acc
          else if (AMap.get acc m.key).isSome then acc
          else acc ++ [(m.key, m.data)]) acc) []
    match dbKvScan σ.db pfx cursor limit maxBytes vals (AMap.keys deltaResults) with
    | none => .error (.db "lookup by strange prefix")
    | some dbp =>
      if σ.db.round = σ.dbRound then
        let cutoff : Option Key := if dbp.more then (dbp.items.getLast?.map (·.1)) else none
        let fromDelta := deltaResults.filterMap (fun p =>
          match p.2 with
          | none => none
          | some v =>
            match cutoff with
            | some c => if c ≠ [] && keyLt c p.1 then none else some (p.1, if vals then some v else none)
            | none => some (p.1, if vals then some v else none))
        let all := (dbp.items ++ fromDelta).mergeSort (fun x y => keyLe x.1 y.1)
        let trimAt := kvTrim (fun (it : Key × Option Bytes) => it.1.length + (it.2.map (·.length)).getD 0) maxBytes limit all 0 0
        .ok ⟨all.take trimAt, σ.dbRound + offset, dbp.more || decide (trimAt < all.length)⟩
      else if σ.db.round < σ.dbRound then .error .staleDb
      else .error .retry

/-- a row of LookupLimitedResources: the account's resource joined with the creator's row -/
structure DbResRow where
  cidx : Cidx
  hold : Option Nat            -- pd.Data.IsHolding()
  creator : Option Addr        -- pd.Creator (zero when the creator's resource row was not found)
  params : Option Nat          -- the creator's params

/-- LookupLimitedResources(addr, minIdx, maxCreatables, ctype): rows of `addr` with that type and aidx > minIdx, by
    aidx, at most `limit` -/
def dbLimitedResources (db : DB) (a : Addr) (gt limit : Nat) (t : CType) : List DbResRow :=
  let rows := db.res.filter (fun r => r.1.1 = a && r.2.ctype = t && gt < r.1.2)
  let rows := rows.mergeSort (fun x y => x.1.2 ≤ y.1.2)
  (rows.take limit).map (fun r =>
    -- LEFT JOIN assetcreators / the creator's accountbase and resources rows
    match AMap.get db.creat r.1.2 with
    | some (_, ca) =>
      match AMap.get db.res (ca, r.1.2) with
      | some crow => ⟨r.1.2, r.2.val.hold, some ca, crow.val.params⟩
      | none => ⟨r.1.2, r.2.val.hold, none, none⟩
    | none => ⟨r.1.2, r.2.val.hold, none, none⟩)

def insertSorted (x : Nat) : List Nat → List Nat
  | [] => [x]
  | y :: t => if x ≤ y then x :: y :: t else y :: insertSorted x t

structure ResPageOut where
  items : List ResItem
  round : Nat

/-- the delta walk shared by lookupAssetResources / lookupApplicationResources: per creatable id > gt the most
    recent params record of ANY address (with that address as creator) and the most recent holding record of `a`;
    plus the number of deletions seen -/
structure DeltaRes where
  params : AMap Cidx (Part × Addr) := []
  holds : AMap Cidx Part := []
  numDeleted : Nat := 0

def deltaResWalk (deltas : List Delta) (a : Addr) (gt : Nat) (t : CType) : DeltaRes :=
  deltas.reverse.foldl (fun acc d =>
    d.res.foldl (fun acc rec =>
      if rec.ctype ≠ t then acc
      else if rec.cidx ≤ gt then acc
      else
        let acc :=
          if rec.params ≠ .absent && (AMap.get acc.params rec.cidx).isNone then
            { acc with params := acc.params ++ [(rec.cidx, (rec.params, rec.addr))],
                       numDeleted := acc.numDeleted + (if rec.params = .deleted then 1 else 0) }
          else acc
        if rec.addr ≠ a then acc
        else if rec.hold ≠ .absent && (AMap.get acc.holds rec.cidx).isNone then
          { acc with holds := acc.holds ++ [(rec.cidx, rec.hold)],
                     numDeleted := acc.numDeleted + (if rec.hold = .deleted then 1 else 0) }
        else acc) acc) {}

/-- the creator / params of a delta-only entry whose params are not in the deltas: LookupCreator + LookupResources
    (each with the DB-round re-check, here both rounds are `db.round`) -/
def dbCreatorParams (db : DB) (c : Cidx) (t : CType) (withParams : Bool) : Option Addr × Option Nat :=
  match dbCreator db c t with
  | some ca => (some ca, if withParams then ((AMap.get db.res (ca, c)).bind (fun row => (row.proj t).params)) else none)
  | none => (none, none)

/-- lookupAssetResources / lookupApplicationResources (t = .asset: `withParams` is always true and a listed entry needs
    a holding; t = .app: an entry is listed when it has local state or `a` is the creator) -/
def pageRes (σ : State) (a : Addr) (gt limit : Nat) (t : CType) (withParams : Bool) : Except Err ResPageOut :=
  if limit = 0 then .ok ⟨[], σ.dbRound + σ.deltas.length⟩
  else
    let dr := deltaResWalk σ.deltas a gt t
    let retRound := σ.dbRound + σ.deltas.length
    -- over-request from the DB by the number of in-memory deletions
    let dbLimit := limit + dr.numDeleted
    let rows := dbLimitedResources σ.db a gt dbLimit t
    if ¬ (σ.db.round = σ.dbRound ∨ rows.isEmpty) then
      (if σ.db.round < σ.dbRound then .error .staleDb else .error .retry)
    else
      let dbHasMore := !rows.isEmpty && rows.length = dbLimit
      let dbMaxID := (rows.getLast?.map (·.cidx)).getD 0
      let listed (it : ResItem) : Bool :=
        match t with
        | .asset => it.hold.isSome
        | .app => it.hold.isSome || it.creator = some a
      -- DB rows, patched with what the deltas say
      let fromDb : List ResItem := rows.filterMap (fun pd =>
        let hold := match AMap.get dr.holds pd.cidx with
          | some .deleted => none
          | some (.val n) => some n
          | _ => pd.hold
        let (creator, params) := match AMap.get dr.params pd.cidx with
          | some (.deleted, _) => (none, none)
          | some (.val n, ca) => (some ca, if withParams then some n else none)
          | _ => match pd.creator with
            | some ca => (some ca, if withParams then pd.params else none)
            | none => (none, none)
        let it : ResItem := ⟨pd.cidx, hold, creator, params⟩
        if listed it then some it else none)
      let seenInDB (c : Cidx) : Bool := rows.any (fun r => r.cidx = c)
      let inRange (c : Cidx) : Bool := !(seenInDB c || (dbHasMore && dbMaxID < c))
      -- entries that exist only in the deltas (holdings / local states of `a`), ascending, with the early exit
      let deltaOnly := (dr.holds.filter (fun p => inRange p.1)).foldl (fun acc p => insertSorted p.1 acc) []
      let step (needDb : Bool) (acc : List ResItem × Nat × Bool) (c : Cidx) (mk : Unit → ResItem) : List ResItem × Nat × Bool :=
        let (result, resultMaxID, stop) := acc
        if stop then acc
        else if result.length ≥ limit && resultMaxID < c then (result, resultMaxID, true)
        else
          let _ := needDb
          let it := mk ()
          if listed it then (result ++ [it], max resultMaxID c, false) else acc
      let resultMax0 := (fromDb.getLast?.map (·.cidx)).getD 0
      let acc1 := deltaOnly.foldl (fun acc c =>
        step true acc c (fun _ =>
          let hold := match AMap.get dr.holds c with | some (.val n) => some n | _ => none
          let (creator, params) := match AMap.get dr.params c with
            | some (.deleted, _) => (none, none)
            | some (.val n, ca) => (some ca, if withParams then some n else none)
            | _ => dbCreatorParams σ.db c t withParams
          ⟨c, hold, creator, params⟩)) (fromDb, resultMax0, false)
      -- apps created by `a` whose creation is only in the deltas and that have no local-state record there
      let creatorOnly : List Nat :=
        match t with
        | .asset => []
        | .app => (dr.params.filter (fun (p : Cidx × Part × Addr) =>
                      inRange p.1 && p.2.1 ≠ Part.deleted && p.2.2 = a && (AMap.get dr.holds p.1).isNone)).foldl
                    (fun (acc : List Nat) (p : Cidx × Part × Addr) => insertSorted p.1 acc) []
      let acc2 := creatorOnly.foldl (fun acc c =>
        step false (acc.1, acc.2.1, false) c (fun _ =>
          let params := match AMap.get dr.params c with | some (.val n, _) => (if withParams then some n else none) | _ => none
          ⟨c, none, some a, params⟩)) (acc1.1, acc1.2.1, false)
      let result := acc2.1.mergeSort (fun x y => x.cidx ≤ y.cidx)
      .ok ⟨result.take limit, retRound⟩

def pageAssets (σ : State) (a : Addr) (gt limit : Nat) : Except Err ResPageOut := pageRes σ a gt limit .asset true
def pageApps (σ : State) (a : Addr) (gt limit : Nat) (withParams : Bool) : Except Err ResPageOut := pageRes σ a gt limit .app withParams

end AlgoVerif.Model.AcctUpdates
