/-
Model.BlockEval — block-level evaluation on top of the LedgerCore group model:
  ledger/eval/eval.go   StartEvaluator (generate vs validate mode: RewardsState computed / re-checked, rewards withdrawal
                        from the pool), endOfBlock (generate: TxnCommitments, TxnCounter, FeesCollected, ProposerPayout,
                        expired / absent lists, state-proof tracking; both modes: validateExpiredOnlineAccounts,
                        resetExpiredOnlineAccountsParticipationKeys, validateAbsentOnlineAccounts, suspendAbsentAccounts;
                        validate: the `if eval.validate {…}` block, validateForPayouts; performPayout, recordProposal),
                        GenerateBlock, Eval (validate = true, the sequential transaction-group loop),
  ledger/ledgercore/validatedBlock.go  UnfinishedBlock.FinishBlock, data/bookkeeping/block.go  Block.WithProposer,
  data/pools/transactionPool.go        the producer loop (a failing group is dropped, the next one is tried),
  data/bookkeeping/block.go            BlockHeader.PreCheck (bonus only).
Core Lean only (linked into the `c20` driver).  Serves C20.

WHAT IS MODELLED
* `Env`: everything StartEvaluator / endOfBlock read from the ledger and the consensus parameters: the committed accounts of
  the previous round (`Base` of LedgerCore), the previous header's RewardsState, the total reward units, the rewards
  parameters of `NextRewardsState` (the REGENERATED `Gen.Rewards.RewardsState_NextRewardsState`), the payout percentage, the
  expected bonus, the limits of the expired / absent lists, and three abstract items: the payset commitment function
  `commit` (C29 proves it binds the payset), the absentee criterion `absentCrit addr lastSeen` (isAbsent on the online stake
  of the lookback round ∨ a failed challenge) and the state-proof tracking value `spTrack` the evaluator expects.
* The producing evaluator has `validate = generate = true` (Ledger.StartEvaluator), so the self-checks of endOfBlock run in
  generate mode too, exactly as coded; the validating evaluator has `validate = true, generate = false`.
* Header fields: RewardsState, TxnCommitments (abstract value), TxnCounter, FeesCollected, ProposerPayout (bound:
  `Model.C24.proposerPayout`, the C24 model built from regenerated helpers), Proposer, Bonus, ExpiredParticipationAccounts,
  AbsentParticipationAccounts (given lists, validated by the code's own validators), StateProofTracking (abstract value).
* The block's payset is a list of groups (what `DecodePaysetGroups` returns); groups are evaluated by
  `LedgerCore.evalGroup` (identical in both modes: the only mode-dependent step of `transaction`, the ApplyData comparison,
  is not modelled).

WHAT IS NOT MODELLED (listed again in Props/C20.lean `*_partial`)
* ApplyData and its comparison, `DecodePaysetGroups` / `EncodeSignedTxn`, the block size limit and `Load`, the
  prefetcher and the parallel signature validator (`evalTxValidator`), `CalculateTotals`, every `PreCheck` item except the
  bonus (round, branch, upgrade state, timestamp, congestion tax, genesis id / hash), the testnet hot-fix
  `workaroundOverspentRewards`, protocol upgrades between the previous block and this one (prevProto = proto), the seed,
  the `onlineStake` error path of the absent check, FeeSink / RewardsPool addresses inside RewardsState (constants of `Params`),
  and everything LedgerCore does not model (application calls, state-proof transactions, heartbeats, rekeying, leases, …).
-/
import AlgoVerif.Model.LedgerCore
import AlgoVerif.Gen.Rewards
import AlgoVerif.Props.C24Model
namespace AlgoVerif.Model.BlockEval
open AlgoVerif.Model.LedgerCore

abbrev RewardsState := Gen.Rewards.bookkeeping_RewardsState

/-- Error classes of block production / validation (the harness maps Go errors to the same tokens). -/
inductive BErr
  | group (e : GErr)            -- a transaction group of the payset failed
  | panic                       -- WithUpdatedRewards overflow on the pool account
  | bonus                       -- PreCheck: bad bonus
  | rewards                     -- bad rewards state
  | levelUnderflow | withdrawOverflow | poolBelowMin      -- the three overflow errors of the rewards withdrawal
  | expLen | expDup | expNoKey | expNotYet
  | absLen | absDup | absNotOnline | absZero | absNotElig | absNotAbsent
  | commit | ctr
  | feesDisabled | proposerDisabled | payoutDisabled
  | fees | payoutOverflow | payout | proposerMissing | proposerClosed
  | sp
  | move (e : Err)              -- performPayout: the Move from the fee sink failed
deriving DecidableEq, Repr, Inhabited

/-- The block header fields this model covers (κ: commitment values, τ: state-proof tracking values). -/
structure Header (κ τ : Type) where
  rewards : RewardsState
  txnCommit : κ
  txnCounter : Nat := 0
  feesCollected : Nat := 0
  proposerPayout : Nat := 0
  proposer : Addr := 0
  bonus : Nat := 0
  expired : List Addr := []
  absent : List Addr := []
  sp : τ

structure Block (κ τ : Type) where
  hdr : Header κ τ
  payset : List (List Txn)       -- the groups `DecodePaysetGroups` returns, in order

/-- What the evaluator reads from the ledger and the protocol for the block of round `P.round` (`P.level` is unused: the
level comes from the header). -/
structure Env (κ τ : Type) where
  P : Params
  rp : Gen.Rewards.config_ConsensusParams
  txnCounterOn : Bool := true          -- proto.TxnCounter
  payoutPct : Nat := 50                -- proto.Payouts.Percent
  maxExpired : Nat := 32               -- proto.MaxProposedExpiredOnlineAccounts
  maxAbsent : Nat := 32                -- proto.Payouts.MaxMarkAbsent
  base : Base                          -- the committed ledger at round − 1
  prevRewards : RewardsState           -- prevHeader.RewardsState
  units : Nat                          -- prevTotals.RewardUnits()
  bonus : Nat                          -- NextBonus(prevHeader, proto)
  commit : List Txn → κ                -- Block.PaysetCommit over the (flat) payset
  absentCrit : Addr → Nat → Bool       -- isAbsent(onlineStake, VotingStake(addr at the lookback round), lastSeen, round) ∨ ch.Failed(addr, lastSeen)
  spTrack : τ                          -- (stateProofVotersAndTotal(), state.GetStateProofNextRound())

section
variable {κ τ : Type} [DecidableEq κ] [DecidableEq τ]

/-- the parameters the groups of the block are evaluated with: the header's rewards level -/
def Env.params (E : Env κ τ) (level : Nat) : Params := { E.P with level := level }

/-- the read-only context of the evaluator's top-level cow -/
def Env.ctx (E : Env κ τ) : Ctx := { parents := [], base := E.base }

def check (c : Bool) (e : BErr) : Except BErr Unit := if c then .ok () else .error e

/-! ## StartEvaluator -/

/-- `prevHeader.NextRewardsState(round, proto, rewardsPoolData.WithUpdatedRewards(unit, prevLevel).MicroAlgos, units)` -/
def nextRewards (E : Env κ τ) : Except BErr RewardsState :=
  match withRewards (E.params E.prevRewards.RewardsLevel) (E.base.acct E.P.rewardsPool) with
  | .error _ => .error .panic
  | .ok pool =>
    .ok (Gen.Rewards.RewardsState_NextRewardsState E.prevRewards E.P.round E.rp pool.bal E.units)

/-- "Withdraw rewards from the pool": the top-level layer the evaluator starts the block with -/
def startTop (E : Env κ τ) (level : Nat) : Except BErr Layer :=
  if level < E.prevRewards.RewardsLevel then .error .levelUnderflow
  else
    match withRewards (E.params level) (E.base.acct E.P.rewardsPool) with   -- eval.state.Get(poolAddr, true)
    | .error _ => .error .panic
    | .ok poolOld =>
      let w := E.units * (level - E.prevRewards.RewardsLevel)
      if M64 ≤ w ∨ poolOld.bal < w then .error .withdrawOverflow
      else if poolOld.bal - w < E.rp.MinBalance then .error .poolBelowMin
      else .ok (putAcct {} E.P.rewardsPool { poolOld with bal := poolOld.bal - w })

/-! ## the transaction loop -/

/-- `Eval`: every group of the block must evaluate -/
def evalAll (P : Params) (x : Ctx) (s : EvalState) : List (List Txn) → Except GErr EvalState
  | [] => .ok s
  | g :: gs =>
    match evalGroup P x s g with
    | .ok s' => evalAll P x s' gs
    | .error e => .error e

/-- the producer (`recomputeBlockEvaluator`): groups are tried in order, a failing group is dropped; returns the evaluator
and the groups that made it into the payset -/
def assemble (P : Params) (x : Ctx) (s : EvalState) : List (List Txn) → EvalState × List (List Txn)
  | [] => (s, [])
  | g :: gs =>
    match evalGroup P x s g with
    | .ok s' => let r := assemble P x s' gs; (r.1, g :: r.2)
    | .error _ => assemble P x s gs

/-! ## expired / absent lists (both modes) -/

/-- the per-account loop of `validateExpiredOnlineAccounts` (all lookups on the state BEFORE any reset) -/
def checkExpiredLoop (P : Params) (x : Ctx) (top : Layer) : List Addr → List Addr → Except BErr Unit
  | _, [] => .ok ()
  | seen, a :: r =>
    if a ∈ seen then .error .expDup
    else
      let d := acctOf x top a
      if d.voteId = 0 then .error .expNoKey
      else if P.round ≤ d.voteLast then .error .expNotYet
      else checkExpiredLoop P x top (a :: seen) r

def checkExpired (E : Env κ τ) (P : Params) (top : Layer) (l : List Addr) : Except BErr Unit :=
  if E.maxExpired < l.length then .error .expLen else checkExpiredLoop P E.ctx top [] l

/-- `AccountData.ClearOnlineState` -/
def clearOnline (a : Account) : Account :=
  { a with status := .offline, voteId := 0, selId := 0, spId := 0, voteFirst := 0, voteLast := 0, voteKD := 0 }

/-- `resetExpiredOnlineAccountsParticipationKeys` -/
def resetExpired (x : Ctx) : Layer → List Addr → Layer
  | top, [] => top
  | top, a :: r => resetExpired x (putAcct top a (clearOnline (acctOf x top a))) r

/-- `AccountData.LastSeen` -/
def lastSeen (a : Account) : Nat := max a.lastProposed a.lastHeartbeat

/-- the per-account loop of `validateAbsentOnlineAccounts` (run AFTER the expired accounts were reset) -/
def checkAbsentLoop (E : Env κ τ) (top : Layer) : List Addr → List Addr → Except BErr Unit
  | _, [] => .ok ()
  | seen, a :: r =>
    if a ∈ seen then .error .absDup
    else
      let d := acctOf E.ctx top a
      if d.status ≠ .online then .error .absNotOnline
      else if d.bal = 0 then .error .absZero
      else if d.incentive = false then .error .absNotElig
      else if E.absentCrit a (lastSeen d) = false then .error .absNotAbsent
      else checkAbsentLoop E top (a :: seen) r

def checkAbsent (E : Env κ τ) (top : Layer) (l : List Addr) : Except BErr Unit :=
  if E.maxAbsent < l.length then .error .absLen else checkAbsentLoop E top [] l

/-- `AccountData.Suspend` -/
def suspend (a : Account) : Account := { a with status := .offline, incentive := false }

/-- `suspendAbsentAccounts` -/
def suspendAbsent (x : Ctx) : Layer → List Addr → Layer
  | top, [] => top
  | top, a :: r => suspendAbsent x (putAcct top a (suspend (acctOf x top a))) r

/-- the four list steps of `endOfBlock` in order; the second `resetExpired…` length check is the first one again -/
def knockOff (E : Env κ τ) (P : Params) (top : Layer) (exp abs : List Addr) : Except BErr Layer := do
  checkExpired E P top exp
  let top1 := resetExpired E.ctx top exp
  checkAbsent E top1 abs
  .ok (suspendAbsent E.ctx top1 abs)

/-! ## payouts -/

/-- `BlockEvaluator.proposerPayout`: reads FeesCollected and Bonus FROM THE HEADER and the fee sink through the cow
(no pending rewards); `AvailableBalance` = balance − min balance -/
def payoutMax (E : Env κ τ) (P : Params) (top : Layer) (fees bonus : Nat) : Option Nat :=
  let sink := acctOf E.ctx top P.feeSink
  Model.C24.proposerPayout E.payoutPct fees bonus sink.bal (minBalance P sink)

/-- `validateForPayouts` -/
def validateForPayouts (E : Env κ τ) (P : Params) (top : Layer) (h : Header κ τ) (generate : Bool) : Except BErr Unit :=
  if P.payoutsEnabled = false then
    if h.feesCollected ≠ 0 then .error .feesDisabled
    else if h.proposer ≠ 0 then .error .proposerDisabled
    else if h.proposerPayout ≠ 0 then .error .payoutDisabled
    else .ok ()
  else if h.feesCollected ≠ top.fees then .error .fees
  else
    match payoutMax E P top h.feesCollected h.bonus with
    | none => .error .payoutOverflow
    | some m =>
      if m < h.proposerPayout then .error .payout
      else if generate then .ok ()
      else if h.proposer = 0 then .error .proposerMissing
      else if h.proposerPayout ≠ 0 ∧ (acctOf E.ctx top h.proposer).isZero then .error .proposerClosed
      else .ok ()

/-- the `if eval.validate { … }` block of `endOfBlock` -/
def validateBlock (E : Env κ τ) (P : Params) (s : EvalState) (top : Layer) (h : Header κ τ) (generate : Bool) : Except BErr Unit := do
  check (decide (E.commit s.payset = h.txnCommit)) .commit
  check (decide (h.txnCounter = if E.txnCounterOn then counterOf E.ctx top else 0)) .ctr
  validateForPayouts E P top h generate
  check (decide (h.sp = E.spTrack)) .sp

/-- `performPayout` -/
def performPayout (E : Env κ τ) (P : Params) (top : Layer) (h : Header κ τ) : Except BErr Layer :=
  if h.proposer = 0 then .ok top
  else if h.proposerPayout = 0 then .ok top
  else
    match move P E.ctx top P.feeSink h.proposer h.proposerPayout with
    | .error e => .error (.move e)
    | .ok l => .ok l

/-- `AccountData.Suspended` -/
def suspended (a : Account) : Bool := decide (a.status = .offline) && decide (a.voteId ≠ 0)

/-- `recordProposal` -/
def recordProposal (E : Env κ τ) (P : Params) (top : Layer) (h : Header κ τ) : Layer :=
  if h.proposer = 0 then top
  else
    let prp := acctOf E.ctx top h.proposer
    let prp1 := if prp.isZero then prp else { prp with lastProposed := P.round }
    let prp2 := if suspended prp1 then { prp1 with status := .online } else prp1
    putAcct top h.proposer prp2

/-- the proposer-dependent tail of `endOfBlock` -/
def applyProposer (E : Env κ τ) (P : Params) (top : Layer) (h : Header κ τ) : Except BErr Layer := do
  let l ← performPayout E P top h
  .ok (recordProposal E P l h)

/-! ## GenerateBlock / FinishBlock / Eval -/

/-- `endOfBlock`, `if eval.generate`: (FeesCollected, ProposerPayout) — both stay zero when payouts are not enabled;
`proposerPayout()` reads the FeesCollected / Bonus just written into the header and the fee sink BEFORE the expired /
absent accounts are processed -/
def genPayout (E : Env κ τ) (P : Params) (top : Layer) : Except BErr (Nat × Nat) :=
  if P.payoutsEnabled then
    match payoutMax E P top top.fees E.bonus with
    | none => .error .payoutOverflow
    | some m => .ok (top.fees, m)
  else .ok (0, 0)

/-- the header `endOfBlock` fills in generate mode (the proposer is set later by FinishBlock) -/
def genHeader (E : Env κ τ) (rs : RewardsState) (s : EvalState) (fp : Nat × Nat) (lists : List Addr × List Addr) : Header κ τ :=
  { rewards := rs, txnCommit := E.commit s.payset,
    txnCounter := if E.txnCounterOn then counterOf E.ctx s.top else 0,
    feesCollected := fp.1, proposerPayout := fp.2, proposer := 0, bonus := E.bonus,
    expired := lists.1, absent := lists.2, sp := E.spTrack }

/-- `StartEvaluator(Generate, Validate)` + the producer loop + `GenerateBlock`: the unfinished block and the state at the
end of the block.  `knock` stands for `generateKnockOfflineAccountsList` (its result depends on Go map iteration order and
on the ledger's online-account tracker; any result is allowed, the evaluator validates it).  The header MakeBlock
produced carries Bonus := NextBonus(prev), so its PreCheck passes by construction. -/
def generateBlock (E : Env κ τ) (pool : List (List Txn)) (knock : Layer → List Addr × List Addr) :
    Except BErr (Block κ τ × Layer) := do
  let rs ← nextRewards E                                   -- generate: header.RewardsState := NextRewardsState(…)
  let top0 ← startTop E rs.RewardsLevel
  let r := assemble (E.params rs.RewardsLevel) E.ctx { top := top0, payset := [] } pool
  -- endOfBlock, `if eval.generate { … }`
  let fp ← genPayout E (E.params rs.RewardsLevel) r.1.top
  let h := genHeader E rs r.1 fp (knock r.1.top)
  -- endOfBlock, both modes
  let top2 ← knockOff E (E.params rs.RewardsLevel) r.1.top h.expired h.absent
  -- endOfBlock, `if eval.validate { … }` (the producing evaluator validates)
  validateBlock E (E.params rs.RewardsLevel) r.1 top2 h true
  -- performPayout / recordProposal: the proposer is not known yet — no-ops
  .ok ({ hdr := h, payset := r.2 }, top2)

/-- `UnfinishedBlock.FinishBlock` + `Block.WithProposer`; `part` = the addresses given to GenerateBlock (`finalAccounts`) -/
def finishBlock (E : Env κ τ) (ub : Block κ τ) (final : Layer) (part : List Addr) (prp : Addr) (elig : Bool) :
    Block κ τ :=
  let elig' := elig && decide (prp ∈ part) && decide ((acctOf E.ctx final prp).bal ≠ 0)
  { ub with hdr := { ub.hdr with
      proposer := if E.P.payoutsEnabled then prp else ub.hdr.proposer,
      proposerPayout := if E.P.payoutsEnabled = false ∨ elig' = false then 0 else ub.hdr.proposerPayout } }

/-- `Ledger.Validate` = `Eval(validate = true)`: the state delta (top-level layer) or the error -/
def validate (E : Env κ τ) (b : Block κ τ) : Except BErr Layer := do
  check (decide (b.hdr.bonus = E.bonus)) .bonus            -- PreCheck
  let rs ← nextRewards E
  check (decide (b.hdr.rewards = rs)) .rewards             -- "bad rewards state"
  let top0 ← startTop E b.hdr.rewards.RewardsLevel
  let P := E.params b.hdr.rewards.RewardsLevel
  let s ← (match evalAll P E.ctx { top := top0, payset := [] } b.payset with
           | .error e => Except.error (BErr.group e)
           | .ok s => Except.ok s)
  let top2 ← knockOff E P s.top b.hdr.expired b.hdr.absent
  validateBlock E P s top2 b.hdr false
  applyProposer E P top2 b.hdr

end
end AlgoVerif.Model.BlockEval
