/-
Model.OpCheck — the static check loop of data/transactions/logic/eval.go (`check` / `checkStep`) as far as instruction
boundaries and branch targets are concerned.

Mirrors (Go → Lean):
  encoding/binary Uvarint / Varint                     → `uvarint`, `varint`
  eval.go check(): loop over checkStep, "pc did not advance"  → `checkLoop`
  eval.go checkStep(): instructionStarts[pc] = true, spec lookup, mode mask, `Size != 0 && pc+Size > len`,
        deets.check (dynamic width, branch targets), then the scan of the INTERIOR pc+1 .. pc+width-1 of the instruction
        for a pending branch target ("branch target %d is not an aligned instruction")                → `decodeInstr` + `checkLoop`
  eval.go branchTarget / checkBranch (2-byte), branchTargetVarint / checkBranchVarint, switchTarget / checkSwitch → `rawTargets`, `admitAll`
  assembler.go parseIntImmArgs / parseByteImmArgs, opPushInt / opPushBytes (as check functions)       → `intsEnd`, `bytessEnd`, …

The width of a fixed-size instruction is `Spec.size` (OpDetails.Size) — NOT 1 + the widths of its Immediates: a
prefix+sub-opcode instruction has Size 2 and no immediates, and its second byte is interior.
Core Lean only.
-/
import AlgoVerif.Model.OpTables
namespace Model.OpCheck
open Model.OpTables

inductive CheckRes
  | minver | badver | toonew | wrongmode
  | misaligned   -- "(back) branch target %d is not an aligned instruction"
  | outside      -- "branch target %d outside of program" / "negative branch offset"
  | other        -- any other static error (malformed immediates, cost, …)
  deriving DecidableEq, Repr, Inhabited

def CheckRes.toString : CheckRes → String
  | .minver => "minver" | .badver => "badver" | .toonew => "toonew" | .wrongmode => "wrongmode"
  | .misaligned => "misaligned" | .outside => "outside" | .other => "other"

/-- binary.Uvarint(prog[pos:]): `some (value, bytesUsed)`; `none` ⇔ bytesUsed ≤ 0 (buffer ends or overflow) -/
def uvarint (prog : List Nat) (pos : Nat) : Option (Nat × Nat) :=
  let rec go (fuel i shift acc : Nat) : Option (Nat × Nat) :=
    match fuel with
    | 0 => none                                   -- i == MaxVarintLen64: overflow
    | fuel + 1 =>
      match prog[pos + i]? with
      | none => none
      | some b =>
        if b < 128 then
          if i = 9 ∧ b > 1 then none else some (acc ||| (b <<< shift), i + 1)
        else go fuel (i + 1) (shift + 7) (acc ||| ((b &&& 127) <<< shift))
  go 10 0 0 0

/-- binary.Varint: zig-zag -/
def varint (prog : List Nat) (pos : Nat) : Option (Int × Nat) :=
  match uvarint prog pos with
  | none => none
  | some (ux, n) => some (if ux % 2 = 1 then -((ux / 2 : Nat) : Int) - 1 else ((ux / 2 : Nat) : Int), n)

/-- decodeBranchOffset: big-endian int16 -/
def int16At (prog : List Nat) (pos : Nat) : Option Int :=
  match prog[pos]?, prog[pos + 1]? with
  | some hi, some lo => let u := hi * 256 + lo; some (if u ≥ 32768 then (u : Int) - 65536 else (u : Int))
  | _, _ => none

/-- parseIntImmArgs from `pos`: position after the list -/
def intsEnd (prog : List Nat) (pos : Nat) : Option Nat :=
  match uvarint prog pos with
  | none => none
  | some (n, used) =>
    if n > prog.length then none else
    let rec items (k p : Nat) : Option Nat :=
      match k with
      | 0 => some p
      | k + 1 =>
        if p ≥ prog.length then none else
        match uvarint prog p with
        | none => none
        | some (_, u) => items k (p + u)
    items n (pos + used)

/-- parseByteImmArgs from `pos` (+ the post-v13 per-item size limit of byteImmArgs): position after the list -/
def bytessEnd (prog : List Nat) (pos : Nat) : Option Nat :=
  match uvarint prog pos with
  | none => none
  | some (n, used) =>
    if n > prog.length then none else
    let rec items (k p : Nat) : Option Nat :=
      match k with
      | 0 => some p
      | k + 1 =>
        if p ≥ prog.length then none else
        match uvarint prog p with
        | none => none
        | some (l, u) => if p + u + l > prog.length ∨ l > 4096 then none else items k (p + u + l)
    items n (pos + used)

/-- the labels of switch / match: count byte, then count int16 offsets relative to the end of the instruction -/
def labelTargets (prog : List Nat) (pc : Nat) : Option (Nat × List Int) :=
  match prog[pc + 1]? with
  | none => none
  | some n =>
    let eoi := pc + 2 + 2 * n
    if eoi > prog.length then none else
    let rec go (k i : Nat) : Option (List Int) :=
      match k with
      | 0 => some []
      | k + 1 =>
        match int16At prog (pc + 2 + 2 * i), go k (i + 1) with
        | some off, some rest => some ((((eoi : Nat) : Int) + off) :: rest)
        | _, _ => none
    match go n 0 with
    | none => none
    | some ts => some (2 + 2 * n, ts)

def hasKind (s : Spec) (k : Nat) : Bool := s.imms.any (fun im => im.kind == k)

/-- width of the instruction at `pc` and its raw (unvalidated) branch targets; `lowTwoByte` = 2-byte branch, whose range
    rule depends on the version -/
def rawTargets (s : Spec) (v : Nat) (prog : List Nat) (pc : Nat) : Except CheckRes (Nat × List Int × Bool) :=
  if hasKind s 2 then                       -- immLabel: {op} {int16}
    match int16At prog (pc + 1) with
    | none => .error .other
    | some off =>
      if off < 0 ∧ v < 4 then .error .outside
      else .ok (3, [((pc + 3 : Nat) : Int) + off], true)
  else if hasKind s 8 then                  -- immVarintLabel
    match varint prog (pc + 1) with
    | none => .error .other
    | some (off, n) =>
      .ok (1 + n, [if off < 0 then ((pc : Nat) : Int) + off else ((pc + 1 + n : Nat) : Int) + off], false)
  else if hasKind s 7 then                  -- immLabels
    match labelTargets prog pc with
    | none => .error .other
    | some (w, ts) => .ok (w, ts, false)
  else if hasKind s 5 then                  -- immInts
    match intsEnd prog (pc + 1) with
    | none => .error .other
    | some e => .ok (e - pc, [], false)
  else if hasKind s 6 then                  -- immBytess
    match bytessEnd prog (pc + 1) with
    | none => .error .other
    | some e => .ok (e - pc, [], false)
  else if hasKind s 4 then                  -- immBytes (pushbytes)
    match uvarint prog (pc + 1) with
    | none => .error .other
    | some (l, u) => if pc + 1 + u + l > prog.length then .error .other else .ok (1 + u + l, [], false)
  else if hasKind s 3 then                  -- immInt (pushint)
    match uvarint prog (pc + 1) with
    | none => .error .other
    | some (_, u) => .ok (1 + u, [], false)
  else .ok (s.size, [], false)

/-- range check of one target, then the back-branch rule: a target before the end of the instruction must already be
    a recorded instruction start (`starts` includes the instruction's own pc) -/
def admitAll (v pc w len : Nat) (two : Bool) (starts : List Nat) : List Int → Except CheckRes (List Nat)
  | [] => .ok []
  | t :: rest =>
    if t ≤ 0 ∨ t > (len : Int) ∨ (two ∧ v < 2 ∧ t ≥ (len : Int)) then .error .outside
    else
      let tn := t.toNat
      if tn < pc + w ∧ ¬ starts.contains tn then .error .misaligned
      else match admitAll v pc w len two starts rest with
        | .error e => .error e
        | .ok ts => .ok (tn :: ts)

/-- checkStep up to (not including) the interior scan: `(width, admitted branch targets)` -/
def decodeInstr (tbl : Nat → Table) (v mode : Nat) (prog : List Nat) (pc : Nat) (starts : List Nat) :
    Except CheckRes (Nat × List Nat) :=
  match prog[pc]? with
  | none => .error .other
  | some op =>
    match getSpec tbl v op prog[pc + 1]? with
    | none => .error .toonew
    | some s =>
      if ¬ allows s.modes mode then .error .wrongmode
      else if s.size ≠ 0 ∧ pc + s.size > prog.length then .error .other
      else match rawTargets s v prog pc with
        | .error e => .error e
        | .ok (w, ts, two) =>
          match admitAll v pc w prog.length two starts ts with
          | .error e => .error e
          | .ok ts' => .ok (w, ts')

/-- does a pending target lie strictly inside [pc, pc+w) -/
def interiorHit (pc w : Nat) (targets : List Nat) : Bool :=
  (List.range (w - 1)).any (fun i => targets.contains (pc + 1 + i))

/-- check(): the loop. Returns the instruction starts and all admitted branch targets. `fuel` ≥ program length. -/
def checkLoop (dec : Nat → List Nat → Except CheckRes (Nat × List Nat)) (len : Nat) :
    Nat → Nat → List Nat → List Nat → Except CheckRes (List Nat × List Nat)
  | 0, _, _, _ => .error .other
  | fuel + 1, pc, starts, targets =>
    if pc ≥ len then .ok (starts, targets) else
    match dec pc (pc :: starts) with
    | .error e => .error e
    | .ok (w, ts) =>
      if w = 0 then .error .other                       -- "pc did not advance"
      else if interiorHit pc w (ts ++ targets) then .error .misaligned
      else checkLoop dec len fuel (pc + w) (pc :: starts) (ts ++ targets)

/-- check(program) for a single-byte version prefix -/
def staticCheck (tbl : Nat → Table) (lv minv mode : Nat) (prog : List Nat) : Except CheckRes (List Nat × List Nat) :=
  match prog with
  | [] => .error .other
  | v :: _ =>
    if v > lv then .error .badver else if v < minv then .error .minver else
    checkLoop (decodeInstr tbl v mode prog) prog.length (prog.length + 1) 1 [] []

/-- the error of a check result (`none` = accepted) -/
def errOf {α : Type} : Except CheckRes α → Option CheckRes
  | .ok _ => none
  | .error e => some e

end Model.OpCheck
