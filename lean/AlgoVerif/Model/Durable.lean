/-
Model.Durable — the durable part of the ledger and the two background writers (property C09).

Go code modelled (ledger/blockqueue.go, ledger/tracker.go, ledger/ledger.go):

* two SQLite stores.  Each is modelled as the LIST OF ITS COMMITTED TRANSACTIONS; the content of a store is the fold of
  that list.  A transaction that has begun but not committed is not in the list (SQLite's journalling is trusted: a torn
  transaction is not applied), so "the store at the crash instant" is simply the list at that instant.
    - block DB: `BlockTxn` = `put blocks lo..lo+|bs|-1` (blockQueue.syncer: one Wdb.Atomic with a BlockPut per entry of
      workQ; blockdb.BlockPut refuses a round that is not max+1 — the guard of `flushCommit`);
    - tracker DB: `TrackTxn` = `commit rounds a+1..b`: the deltas of those rounds applied to the tables of EVERY tracker
      plus UpdateAccountsRound(b), in ONE transaction (trackerRegistry.commitRound).  The transaction is blind: it does
      not re-check that the accounts round is still `a` (neither does the code).
* blockQueue: `lastCommitted`, the in-memory queue `q`, `work` = the prefix of `q` the syncer has taken as workQ.
* trackerRegistry: `dbRound` (in memory), `pending` (the deferredCommits channel, capacity 1), `phase` of commitRound
  (idle / prepared transaction / committed-but-postCommit-not-yet-run); `chain` = the blocks the trackers have been given
  by newBlock (their in-memory deltas are `chain.drop dbRound`).
* `crash`: all volatile state is lost; `recover` is OpenLedger → reloadLedger: blockQueue.start reads lastCommitted from the
  block DB, trackerRegistry.loadFromDisk reads dbRound from the tracker DB, and `replay` re-applies blocks dbRound+1..latest
  (`openLedger`).  When the tracker DB is AHEAD of the block DB (AccountsRound > BlockLatest) trackerDBInitialize resets the
  accounts DB to genesis (AccountsReset + migrations) and everything is replayed from round 0: the model does the same
  (`recover` empties the tracker store, `openLedger` replays all blocks over genesis).

`confirmed` is a ghost list: the rounds the ledger has acknowledged as durable (WaitForCommit returned, the channel of
Ledger.Wait closed, LatestCommitted's first component).
Core Lean only (no Mathlib): the driver links this file.
-/
namespace AlgoVerif.Model.Durable

/-- a committed block-DB transaction: put blocks `lo .. lo + bs.length - 1` -/
structure BlockTxn (Blk : Type) where
  lo : Nat
  bs : List Blk
deriving Repr

/-- a committed tracker-DB transaction: rounds `a+1 .. b` of every tracker plus the accounts round `b` -/
structure TrackTxn (Blk : Type) where
  a : Nat
  b : Nat
  deltas : List Blk
deriving Repr

/-- commitRound: idle / transaction prepared (prepareCommit done, transaction not committed) / transaction committed,
postCommit (dbRound := newBase) not yet run -/
inductive Phase (Blk : Type) where
  | idle
  | prepared (t : TrackTxn Blk)
  | committed (n : Nat)
deriving Repr

structure Sys (Blk : Type) where
  /-- block DB: committed transactions, oldest first -/
  btx : List (BlockTxn Blk)
  /-- tracker DB: committed transactions, oldest first -/
  ttx : List (TrackTxn Blk)
  lastCommitted : Nat
  q : List Blk
  work : Option Nat
  chain : List Blk
  dbRound : Nat
  pending : Option Nat
  phase : Phase Blk
  confirmed : List Nat
deriving Repr

/-- content of the block DB: blocks of rounds 1, 2, … (round 0 is the genesis block written by OpenLedger) -/
def blocksOf {Blk : Type} (txs : List (BlockTxn Blk)) : List Blk := txs.flatMap (·.bs)

/-- latest round in the block DB (blockdb.BlockLatest) -/
def blockRound {Blk : Type} (txs : List (BlockTxn Blk)) : Nat := (blocksOf txs).length

/-- the accounts round of the tracker DB (AccountsRound): the `b` of the last committed transaction -/
def trackerRound {Blk : Type} (txs : List (TrackTxn Blk)) : Nat := txs.foldl (fun _ t => t.b) 0

/-- the tables of tracker `i` in the tracker DB: the committed deltas folded over the genesis tables -/
def trackerData {Blk Tid σ : Type} (ap : Tid → σ → Blk → σ) (g : Tid → σ) (txs : List (TrackTxn Blk)) (i : Tid) : σ :=
  txs.foldl (fun d t => t.deltas.foldl (ap i) d) (g i)

/-- the transactions of a block DB are consecutive: each `put` starts right after the blocks before it -/
def Contig {Blk : Type} : Nat → List (BlockTxn Blk) → Prop
  | _, [] => True
  | n, t :: ts => t.lo = n + 1 ∧ Contig (n + t.bs.length) ts

def init (Blk : Type) : Sys Blk :=
  { btx := [], ttx := [], lastCommitted := 0, q := [], work := none, chain := [], dbRound := 0, pending := none,
    phase := .idle, confirmed := [] }

/-- trackerDBInitialize: "resetting accounts DB (on round %v, but blocks DB's latest is %v)" — a tracker DB that is ahead of
the block DB is wiped (one transaction: AccountsReset + RunMigrations), i.e. it is again the genesis DB at round 0 -/
def resetIfAhead {Blk : Type} (btx : List (BlockTxn Blk)) (ttx : List (TrackTxn Blk)) : List (TrackTxn Blk) :=
  if trackerRound ttx ≤ blockRound btx then ttx else []

/-- OpenLedger on the files left by a crash (only the two stores survive; `confirmed` is a ghost) -/
def recover {Blk : Type} (s : Sys Blk) : Sys Blk :=
  { btx := s.btx, ttx := resetIfAhead s.btx s.ttx,
    lastCommitted := blockRound s.btx,          -- blockQueue.start: BlockLatest
    q := [], work := none,
    chain := blocksOf s.btx,                    -- what the trackers can be given again: the block DB
    dbRound := trackerRound (resetIfAhead s.btx s.ttx),   -- trackerRegistry.loadFromDisk: AccountsRound
    pending := none, phase := .idle,
    confirmed := s.confirmed }

inductive Ev (Blk : Type) where
  /-- Ledger.AddValidatedBlock: blockQueue.putBlock (the next round) + trackers.newBlock -/
  | put (b : Blk)
  /-- the syncer takes the first `k` entries of the queue as workQ (the code takes all of them) -/
  | flushBegin (k : Nat)
  /-- its block-DB transaction commits; then lastCommitted += k, the queue drops them -/
  | flushCommit
  /-- its block-DB transaction fails / is rolled back -/
  | flushAbort
  /-- notifyCommit(lastCommitted) → scheduleCommit: `some n` = a deferred commit with target round `n` is put into the
  channel; `none` = nothing to do, flush conditions not met, or the channel is full -/
  | notifyCommit (n : Option Nat)
  /-- commitSyncer takes the deferred commit; commitRound adjusts it to the current dbRound (stale: dropped) and runs
  prepareCommit of all trackers -/
  | commitBegin
  /-- the ONE tracker-DB transaction (all trackers' commitRound + UpdateAccountsRound) commits -/
  | commitTxn
  /-- it is rolled back (handleCommitError; the deferred commit is dropped) -/
  | commitAbort
  /-- postCommit: dbRound := newBase -/
  | commitPost
  /-- the ledger ACKNOWLEDGES round r as durable: blockQueue.waitCommit(r) returns (Ledger.WaitForCommit), the channel of
  Ledger.Wait(r) is closed (bulletinDisk, notified from notifyCommit(committed)), or LatestCommitted() = (r, _) -/
  | waitCommit (r : Nat)
  /-- the process dies and the ledger is reopened from the two stores -/
  | crash
deriving Repr

/-- one step; `none` = the event is not enabled in this state -/
def step {Blk : Type} (s : Sys Blk) : Ev Blk → Option (Sys Blk)
  | .put b => some { s with q := s.q ++ [b], chain := s.chain ++ [b] }
  | .flushBegin k =>
    if s.work = none ∧ 1 ≤ k ∧ k ≤ s.q.length then some { s with work := some k } else none
  | .flushCommit =>
    match s.work with
    | some k =>
      -- blockdb.BlockPut: "inserting block %d but expected %d"
      if s.lastCommitted + 1 = blockRound s.btx + 1 then
        some { s with btx := s.btx ++ [⟨s.lastCommitted + 1, s.q.take k⟩], lastCommitted := s.lastCommitted + k,
                      q := s.q.drop k, work := none }
      else none
    | none => none
  | .flushAbort =>
    match s.work with
    | some _ => some { s with work := none }
    | none => none
  | .notifyCommit none => some s
  | .notifyCommit (some n) =>
    -- scheduleCommit is reached only through notifyCommit(committed): newBase = committed - lookback ≤ lastCommitted
    if s.pending = none ∧ n ≤ s.lastCommitted then some { s with pending := some n } else none
  | .commitBegin =>
    match s.pending, s.phase with
    | some n, .idle =>
      if s.dbRound < n then
        some { s with pending := none,
                      phase := .prepared ⟨s.dbRound, n, (s.chain.drop s.dbRound).take (n - s.dbRound)⟩ }
      else some { s with pending := none }      -- out of order / zero offset: commitRound returns at once
    | _, _ => none
  | .commitTxn =>
    match s.phase with
    | .prepared t => some { s with ttx := s.ttx ++ [t], phase := .committed t.b }
    | _ => none
  | .commitAbort =>
    match s.phase with
    | .prepared _ => some { s with phase := .idle }
    | _ => none
  | .commitPost =>
    match s.phase with
    | .committed n => some { s with dbRound := n, phase := .idle }
    | _ => none
  | .waitCommit r => if r ≤ s.lastCommitted then some { s with confirmed := r :: s.confirmed } else none
  | .crash => some (recover s)

/-- run a trace; `none` as soon as an event is not enabled -/
def run {Blk : Type} (s : Sys Blk) : List (Ev Blk) → Option (Sys Blk)
  | [] => some s
  | e :: es => match step s e with
    | some s' => run s' es
    | none => none

/-- what OpenLedger makes of a pair of stores -/
structure Opened (Tid σ : Type) where
  latest : Nat
  trackerRound : Nat
  state : Tid → σ

/-- OpenLedger → reloadLedger: latest = block DB round, trackerDBInitialize (reset if ahead), trackers loaded at the tracker DB round, then
`trackerRegistry.replay`: for rnd := dbRound+1 .. latest { newBlock(Block(rnd)) } -/
def openLedger {Blk Tid σ : Type} (ap : Tid → σ → Blk → σ) (g : Tid → σ)
    (btx : List (BlockTxn Blk)) (ttx0 : List (TrackTxn Blk)) : Opened Tid σ :=
  let ttx := resetIfAhead btx ttx0
  { latest := blockRound btx,
    trackerRound := trackerRound ttx,
    state := fun i => ((blocksOf btx).drop (trackerRound ttx)).foldl (ap i) (trackerData ap g ttx i) }

/-- the specification: the state obtained by applying the blocks to genesis, one after the other -/
def replay {Blk Tid σ : Type} (ap : Tid → σ → Blk → σ) (g : Tid → σ) (bs : List Blk) (i : Tid) : σ :=
  bs.foldl (ap i) (g i)

/-! ### Catchpoint bookkeeping (catchpointtracker.go: recoverFromCrash)

Kept apart from `Sys`: the catchpoint tracker writes its bookkeeping in transactions of its own, after commitRound's.
`gen` = enableGeneratingCatchpointFiles.  A catchpoint label is a function of the catchpoint round's block hash and the
first-stage record of `round - lookback`, so a label is identified with its round. -/
structure CatchpointBook where
  /-- CatchpointStateWritingFirstStageInfo ≠ 0: finishFirstStage of the current dbRound has not recorded its info yet -/
  writingFirstStage : Bool
  /-- rounds with a catchpointfirststageinfo row -/
  firstStage : List Nat
  /-- rows of unfinishedcatchpoints (catchpoint rounds), in the order SelectUnfinishedCatchpoints returns them -/
  unfinished : List Nat
  /-- catchpoint rounds whose label has been written -/
  labels : List Nat
  /-- CatchpointStateLastCatchpoint -/
  last : Option Nat
  /-- catchpoint data files on disk (by accounts round) -/
  dataFiles : List Nat
  /-- catchpoint files on disk / catchpoint rows (by catchpoint round) -/
  cpFiles : List Nat
deriving Repr, DecidableEq

def insertNew (r : Nat) (l : List Nat) : List Nat := if r ∈ l then l else r :: l

/-- finishFirstStageAfterCrash: if the marker is set, the half-written data file of dbRound is deleted, finishFirstStage is
run again (data file regenerated iff `gen`), the first stage info of dbRound is recorded and the marker cleared (one txn) -/
def finishFirstStageAfterCrash (gen : Bool) (dbRound : Nat) (c : CatchpointBook) : CatchpointBook :=
  if c.writingFirstStage then
    { c with writingFirstStage := false, firstStage := insertNew dbRound c.firstStage,
             dataFiles := if gen then dbRound :: c.dataFiles.filter (· ≠ dbRound) else c.dataFiles.filter (· ≠ dbRound) }
  else c

/-- finishCatchpoint(round): no first stage info for round-lookback → the unfinished row is deleted; otherwise
createCatchpoint: the label is written; the catchpoint file is produced, recorded and the unfinished row deleted only when
files are generated and the data file exists (otherwise createCatchpoint returns early and the row stays) -/
def finishCatchpoint (gen : Bool) (lookback r : Nat) (c : CatchpointBook) : CatchpointBook :=
  if (r - lookback) ∈ c.firstStage then
    let c1 := { c with labels := insertNew r c.labels, last := some r }
    if gen ∧ (r - lookback) ∈ c.dataFiles then
      { c1 with cpFiles := insertNew r c1.cpFiles, unfinished := c1.unfinished.filter (· ≠ r) }
    else c1
  else { c with unfinished := c.unfinished.filter (· ≠ r) }

/-- finishCatchpointsAfterCrash: for every unfinished record (as selected at the start): delete its catchpoint file, finishCatchpoint -/
def finishCatchpointsAfterCrash (gen : Bool) (lookback : Nat) (c : CatchpointBook) : CatchpointBook :=
  c.unfinished.foldl (fun c r => finishCatchpoint gen lookback r { c with cpFiles := c.cpFiles.filter (· ≠ r) }) c

/-- pruneFirstStageRecordsData(dbRound - lookback): first stage rows with round ≤ dbRound - lookback are deleted, and the
data files of exactly those rows -/
def pruneFirstStage (dbRound lookback : Nat) (c : CatchpointBook) : CatchpointBook :=
  if lookback ≤ dbRound then
    { c with firstStage := c.firstStage.filter (fun r => dbRound - lookback < r),
             dataFiles := c.dataFiles.filter (fun r => ¬ (r ∈ c.firstStage ∧ r ≤ dbRound - lookback)) }
  else c

/-- catchpointTracker.recoverFromCrash (lookback = the stored CatchpointLookback; 0 = never stored: only the first step) -/
def recoverFromCrash (gen : Bool) (dbRound lookback : Nat) (c : CatchpointBook) : CatchpointBook :=
  let c1 := finishFirstStageAfterCrash gen dbRound c
  if lookback = 0 then c1 else pruneFirstStage dbRound lookback (finishCatchpointsAfterCrash gen lookback c1)

end AlgoVerif.Model.Durable
