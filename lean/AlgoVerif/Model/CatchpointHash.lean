/-
Model of the catchpoint commitment pre-images, AS CODED:

  ledger/store/trackerdb/hashing.go   hashBufV6, finishV6, AccountHashBuilderV6, ResourcesHashBuilderV6,
                                      rdGetCreatableHashKind, KvHashBuilderV6, HashKind
  github.com/algorand/avm-abi/apps    MakeBoxKey ("bx:" ‖ app index, 8 bytes BIG endian ‖ name)
  ledger/ledgercore/catchpointlabel.go CatchpointLabelMakerV6/V7/Current.buffer(), MakeLabel

The hash is a parameter `H : Bytes → Bytes` (crypto.Hash = SHA-512/256; a `crypto.Digest` is a
`[32]byte`, so `|H x| = 32` is a fact of the Go type — the model does not need it).

Layout read from the code:
  leaf        = affinity(4, low 32 bits BIG endian) ‖ kind(1) ‖ H(pre)[1:]        (4+1+31 = 36 bytes)
                (`hashBufV6` writes bytes 0..4, `finishV6` does `copy(v6hash[5:], entryHash[1:])`)
  account pre = addr(32) ‖ encodedAccountData          affinity = UpdateRound, or RewardsBase if that is 0
  resource pre= addr(32) ‖ cidx(8, LITTLE endian) ‖ encodedResourceData   affinity = updateRound
                kind = AssetHK if rd.IsAsset() else AppHK if rd.IsApp() else error
  kv pre      = key ‖ value   (NO length / separator)                    affinity = 0
  label buffer= blockHash(32) ‖ balancesRoot(32) ‖ msgpack(totals) [‖ spVerificationHash(32)
                [‖ onlineAccountsHash(32) ‖ onlineRoundParamsHash(32)]]
  label       = decimal(round) ‖ "#" ‖ base32-nopad(H(buffer))
Core Lean only.
-/
namespace Model.CatchpointHash

abbrev Bytes := List UInt8

/-- crypto.DigestSize -/
def digestSize : Nat := 32

/-- `HashKind` (iota order of the Go const block). -/
inductive HashKind where
  | account | asset | app | kv
  deriving DecidableEq, Repr

/-- `byte(kind)` -/
def HashKind.byte : HashKind → UInt8
  | .account => 0
  | .asset => 1
  | .app => 2
  | .kv => 3

/-- HashKindEncodingIndex -/
def hashKindEncodingIndex : Nat := 4

/-- the loop of `hashBufV6`: `for i, prefix := 3, affinity; i >= 0; i, prefix = i-1, prefix>>8 { hash[i] = byte(prefix) }`
— the low 32 bits of the affinity, most significant byte first. -/
def affinityPrefix (affinity : Nat) : Bytes :=
  [UInt8.ofNat (affinity / 16777216 % 256), UInt8.ofNat (affinity / 65536 % 256),
   UInt8.ofNat (affinity / 256 % 256), UInt8.ofNat (affinity % 256)]

/-- `hashBufV6`: `make([]byte, 4+crypto.DigestSize)` with the prefix and the kind byte written. -/
def hashBufV6 (affinity : Nat) (kind : HashKind) : Bytes :=
  affinityPrefix affinity ++ [kind.byte] ++ List.replicate (digestSize - 1) 0

/-- `finishV6`: `copy(v6hash[5:], entryHash[1:])`; with a 32-byte digest this overwrites bytes 5..35. -/
def finishV6 (H : Bytes → Bytes) (v6hash : Bytes) (prehash : Bytes) : Bytes :=
  v6hash.take (hashKindEncodingIndex + 1) ++ (H prehash).drop 1

/-- `binary.LittleEndian.PutUint64` -/
def le64 (n : Nat) : Bytes :=
  [UInt8.ofNat (n % 256), UInt8.ofNat (n / 256 % 256), UInt8.ofNat (n / 65536 % 256),
   UInt8.ofNat (n / 16777216 % 256), UInt8.ofNat (n / 4294967296 % 256),
   UInt8.ofNat (n / 1099511627776 % 256), UInt8.ofNat (n / 281474976710656 % 256),
   UInt8.ofNat (n / 72057594037927936 % 256)]

/-- `binary.BigEndian.PutUint64` -/
def be64 (n : Nat) : Bytes := (le64 n).reverse

/-- pre-image of `AccountHashBuilderV6` (`addr` is a `basics.Address`, 32 bytes). -/
def accountPre (addr enc : Bytes) : Bytes := addr ++ enc

/-- pre-image of `ResourcesHashBuilderV6` (creatable index little endian). -/
def resourcePre (addr : Bytes) (cidx : Nat) (enc : Bytes) : Bytes := addr ++ le64 cidx ++ enc

/-- pre-image of `KvHashBuilderV6`. -/
def kvPre (key value : Bytes) : Bytes := key ++ value

/-- `AccountHashBuilderV6`: `hashIntPrefix := UpdateRound; if 0 then RewardsBase`. -/
def accountAffinity (updateRound rewardsBase : Nat) : Nat :=
  if updateRound = 0 then rewardsBase else updateRound

def accountLeaf (H : Bytes → Bytes) (addr : Bytes) (updateRound rewardsBase : Nat) (enc : Bytes) : Bytes :=
  finishV6 H (hashBufV6 (accountAffinity updateRound rewardsBase) .account) (accountPre addr enc)

/-- `rdGetCreatableHashKind`: asset is tested first; neither ⇒ error. -/
def resKind (isAsset isApp : Bool) : Option HashKind :=
  if isAsset then some .asset else if isApp then some .app else none

def resourceLeafK (H : Bytes → Bytes) (kind : HashKind) (addr : Bytes) (cidx updateRound : Nat) (enc : Bytes) : Bytes :=
  finishV6 H (hashBufV6 updateRound kind) (resourcePre addr cidx enc)

/-- `ResourcesHashBuilderV6`; `none` = the error return ("unknown creatable"). -/
def resourceLeaf (H : Bytes → Bytes) (isAsset isApp : Bool) (addr : Bytes) (cidx updateRound : Nat) (enc : Bytes) :
    Option Bytes :=
  (resKind isAsset isApp).map fun k => resourceLeafK H k addr cidx updateRound enc

/-- `KvHashBuilderV6` -/
def kvLeaf (H : Bytes → Bytes) (key value : Bytes) : Bytes :=
  finishV6 H (hashBufV6 0 .kv) (kvPre key value)

/-- "bx:" -/
def boxPrefix : Bytes := [98, 120, 58]

/-- `apps.MakeBoxKey` -/
def boxKey (app : Nat) (name : Bytes) : Bytes := boxPrefix ++ be64 app ++ name

/-! ### ledger entries committed by the balances trie -/

/-- One row of the committed state, with exactly the arguments the hash builders receive. The creatable
kind is the one `rdGetCreatableHashKind` resolved (`.asset` or `.app`). -/
inductive Entry where
  | account (addr : Bytes) (updateRound rewardsBase : Nat) (enc : Bytes)
  | resource (kind : HashKind) (addr : Bytes) (cidx updateRound : Nat) (enc : Bytes)
  | kv (key value : Bytes)
  deriving DecidableEq, Repr

/-- What the row says about the ledger (the affinity arguments are copies of fields of `enc`). -/
inductive Content where
  | account (addr enc : Bytes)
  | resource (kind : HashKind) (addr : Bytes) (cidx : Nat) (enc : Bytes)
  | kv (key value : Bytes)
  deriving DecidableEq, Repr

def Entry.content : Entry → Content
  | .account a _ _ e => .account a e
  | .resource k a c _ e => .resource k a c e
  | .kv k v => .kv k v

def Entry.kind : Entry → HashKind
  | .account .. => .account
  | .resource k .. => k
  | .kv .. => .kv

def Entry.pre : Entry → Bytes
  | .account a _ _ e => accountPre a e
  | .resource _ a c _ e => resourcePre a c e
  | .kv k v => kvPre k v

def Entry.leaf (H : Bytes → Bytes) : Entry → Bytes
  | .account a u r e => accountLeaf H a u r e
  | .resource k a c u e => resourceLeafK H k a c u e
  | .kv k v => kvLeaf H k v

/-- Go-type facts of an entry: addresses are 32 bytes, creatable indexes are uint64, a resource is an
asset or an app. -/
def Entry.WF : Entry → Prop
  | .account a _ _ _ => a.length = 32
  | .resource k a c _ _ => a.length = 32 ∧ c < 2 ^ 64 ∧ (k = .asset ∨ k = .app)
  | .kv _ _ => True

/-! ### catchpoint label -/

structure LabelParts where
  blockHash : Bytes
  balancesRoot : Bytes
  /-- `protocol.EncodeReflect(&totals)` — variable length -/
  totals : Bytes
  spVerificationHash : Bytes
  onlineAccountsHash : Bytes
  onlineRoundParamsHash : Bytes
  deriving DecidableEq, Repr

/-- `CatchpointLabelMakerV6.buffer` -/
def bufferV6 (p : LabelParts) : Bytes := p.blockHash ++ p.balancesRoot ++ p.totals
/-- `CatchpointLabelMakerV7.buffer` -/
def bufferV7 (p : LabelParts) : Bytes := bufferV6 p ++ p.spVerificationHash
/-- `CatchpointLabelMakerCurrent.buffer` -/
def bufferCurrent (p : LabelParts) : Bytes := bufferV7 p ++ p.onlineAccountsHash ++ p.onlineRoundParamsHash

/-- label maker versions: 6 = V6, 7 = V7, anything else = Current -/
def buffer (ver : Nat) (p : LabelParts) : Bytes :=
  if ver = 6 then bufferV6 p else if ver = 7 then bufferV7 p else bufferCurrent p

/-- all digests are `crypto.Digest` = 32 bytes -/
def LabelParts.WF (p : LabelParts) : Prop :=
  p.blockHash.length = 32 ∧ p.balancesRoot.length = 32 ∧ p.spVerificationHash.length = 32 ∧
  p.onlineAccountsHash.length = 32 ∧ p.onlineRoundParamsHash.length = 32

/-! base32 (RFC 4648 alphabet, no padding) for `MakeLabel` -/

def bitsOfByte (b : UInt8) : List Bool :=
  [128, 64, 32, 16, 8, 4, 2, 1].map fun w => b.toNat / w % 2 == 1

/-- alphabet "ABCDEFGHIJKLMNOPQRSTUVWXYZ234567" -/
def b32Char (bits : List Bool) : Char :=
  let v := bits.foldl (fun acc b => 2 * acc + (if b then 1 else 0)) 0
  if v < 26 then Char.ofNat ('A'.toNat + v) else Char.ofNat ('2'.toNat + (v - 26))

/-- groups of 5 bits, the last group zero-padded on the right; `fuel` bounds the recursion -/
def b32Groups : Nat → List Bool → List Char
  | 0, _ => []
  | _, [] => []
  | fuel + 1, bits =>
    let g := bits.take 5
    let g := g ++ List.replicate (5 - g.length) false
    b32Char g :: b32Groups fuel (bits.drop 5)

def base32 (b : Bytes) : String :=
  let bits := b.flatMap bitsOfByte
  String.ofList (b32Groups (bits.length + 1) bits)

/-- `MakeLabel` -/
def makeLabel (H : Bytes → Bytes) (ver round : Nat) (p : LabelParts) : String :=
  s!"{round}#{base32 (H (buffer ver p))}"

end Model.CatchpointHash
