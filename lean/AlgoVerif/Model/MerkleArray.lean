/-
Model of crypto/merklearray (C37): Build / BuildVectorCommitmentTree, Prove / createProof,
Verify / VerifyVectorCommitment / verifyPath / inspectRoot, partialLayer.up, siblings.get and
pair.ToBeHashed.  Core Lean only.

The hash is a parameter (`Cfg.H`, `Cfg.d` = `hash.Size()`).  Array elements and the elements
presented to Verify are given by their hash pre-image `HashRep(e) = hashid ‖ data`.

Three source facts are parameters of the model and are determined from the CURRENT tree on every run
(harness `TestVerifC37Facts`, observed on the real functions, not grepped):
 * `fixedOff`   – `pair.ToBeHashed`: `false` = `copy(buf[len(p.l):], p.r)` (right child written
                  where the left child ENDS), `true` = `copy(buf[p.hashDigestSize:], p.r)`;
 * `checkDepth` – `verifyPath`: `true` = after `inspectRoot` succeeded, rejects with
                  ErrUnexpectedTreeDepth when the number of levels walked differs from
                  `Proof.TreeDepth`; `false` = the field is never compared with the walk.
 * `checkHash`  – `Verify`: `true` = a proof whose `HashFactory` fails `Validate()` is rejected
                  (protocol.ErrInvalidObject) right after the nil check; `false` = it is used as is
                  (`invalidHash`: every digest is the empty slice).

Not modelled: `proof == nil` (pointer), `Array.Marshal` errors, the worker pool (the layer is a pure
function of the layer below), msgpack encodings, `uint8` truncation of the depth (≤ 64 levels).
-/
namespace Model.MerkleArray

abbrev Bytes := List UInt8

structure Cfg where
  H : Bytes → Bytes
  d : Nat
  fixedOff : Bool
  checkDepth : Bool
  /-- `Proof.HashFactory.Validate() == nil`.  An invalid factory yields `invalidHash`: `Size() = 0`,
  `Sum` = nil, i.e. `H = fun _ => []`, `d = 0` (the driver instantiates exactly that). -/
  hashValid : Bool
  /-- `Verify`: `true` = rejects a proof whose HashFactory is not valid (third source fact) -/
  checkHash : Bool

/-- protocol.MerkleArrayNode = "MA" -/
def nodeTag : Bytes := [77, 65]
/-- HashRep(bottomElement) = "MB" ‖ [] -/
def bottomPre : Bytes := [77, 66]

def zeros (n : Nat) : Bytes := List.replicate n 0

/-- Go `copy(buf[off:], src)` on a buffer; `none` = slice-bounds panic (`off > len(buf)`). -/
def copyAt (buf : Bytes) (off : Nat) (src : Bytes) : Option Bytes :=
  if buf.length < off then none
  else
    some (buf.take off ++ src.take (min (buf.length - off) src.length)
          ++ buf.drop (off + min (buf.length - off) src.length))

/-- `pair.ToBeHashed` data part: `buf := make(2*size); copy(buf, l); copy(buf[off:], r)`. -/
def pairBytes (c : Cfg) (l r : Bytes) : Option Bytes :=
  match copyAt (zeros (2 * c.d)) 0 l with
  | none => none
  | some b1 => copyAt b1 (if c.fixedOff then c.d else l.length) r

/-- `crypto.GenericHashObj(h, pair{l, r})` -/
def nodeHash (c : Cfg) (l r : Bytes) : Option Bytes :=
  match pairBytes c l r with
  | none => none
  | some b => some (c.H (nodeTag ++ b))

/-! ### Build -/

/-- `buildNextLayer` / `upWorker`: a missing right sibling is the empty digest. -/
def upLayer (c : Cfg) : List Bytes → Option (List Bytes)
  | [] => some []
  | [a] =>
    match nodeHash c a [] with
    | none => none
    | some h => some [h]
  | a :: b :: rest =>
    match nodeHash c a b with
    | none => none
    | some h =>
      match upLayer c rest with
      | none => none
      | some t => some (h :: t)

inductive BErr | panic | fuel
deriving DecidableEq, Repr

/-- `buildLayers` loop `for len(top) > 1`; fuel = number of leaves always suffices (`buildFrom_ok`). -/
def buildFrom (c : Cfg) : Nat → List Bytes → Except BErr (List (List Bytes))
  | 0, layer => if layer.length ≤ 1 then .ok [layer] else .error .fuel
  | fuel + 1, layer =>
    if layer.length ≤ 1 then .ok [layer]
    else
      match upLayer c layer with
      | none => .error .panic
      | some nxt =>
        match buildFrom c fuel nxt with
        | .error e => .error e
        | .ok r => .ok (layer :: r)

structure Tree where
  levels : List (List Bytes)
  numElems : Nat
  isVC : Bool
deriving DecidableEq, Repr

/-- `Build`: `arr` are the leaf pre-images. -/
def build (c : Cfg) (arr : List Bytes) : Except BErr Tree :=
  if arr = [] then .ok ⟨[], 0, false⟩
  else
    match buildFrom c arr.length (arr.map c.H) with
    | .error e => .error e
    | .ok lv => .ok ⟨lv, arr.length, false⟩

/-- `Tree.Root`: empty digest for the empty tree, else `topLayer()[0]` (`none` = index panic). -/
def Tree.root (t : Tree) : Option Bytes :=
  match t.levels.getLast? with
  | none => some []
  | some [] => none
  | some (h :: _) => some h

/-- `bits.Reverse64(i) >> (64 - k)` for `i < 2^k`, `k < 64`: the low `k` bits reversed. -/
def bitrev : Nat → Nat → Nat
  | 0, _ => 0
  | k + 1, i => (i % 2) * 2 ^ k + bitrev k (i / 2)

/-- `uint64(1) << depth` (0 for depth ≥ 64) -/
def posBound (td : Nat) : Nat := if td < 64 then 2 ^ td else 0

/-- `merkleTreeToVectorCommitmentIndex` (`none` = ErrPosOutOfBound) -/
def vcIndex (td i : Nat) : Option Nat :=
  if posBound td ≤ i then none else some (bitrev td i)

/-- `bits.Len64` -/
def bitLen (n : Nat) : Nat := if n = 0 then 0 else Nat.log2 n + 1

/-- `generateVectorCommitmentArray` + `vectorCommitmentArray.Marshal` for every padded position. -/
def vcLeaves (arr : List Bytes) : List Bytes :=
  let path := if arr.length ≤ 1 then 1 else bitLen (arr.length - 1)
  let padded := if arr.length ≤ 1 then 1 else 2 ^ path
  (List.range padded).map fun pos =>
    match arr[bitrev path pos]? with
    | some e => e
    | none => bottomPre

/-- `BuildVectorCommitmentTree` -/
def buildVC (c : Cfg) (arr : List Bytes) : Except BErr Tree :=
  match build c (vcLeaves arr) with
  | .error e => .error e
  | .ok t => .ok ⟨t.levels, arr.length, true⟩

/-! ### Prove -/

/-- `siblings.get` in tree mode: the node, or the empty digest beyond the end of the layer. -/
def sibOf (lvl : List Bytes) (i : Nat) : Bytes :=
  match lvl[i]? with
  | some h => h
  | none => []

/-- `partialLayer.up` in tree mode (`doHash = false`): next positions and the hints appended. -/
def upP (lvl : List Bytes) : List Nat → List Nat × List Bytes
  | [] => ([], [])
  | [p] => ([p / 2], [sibOf lvl (p ^^^ 1)])
  | p :: q :: rest =>
    if q = p ^^^ 1 then (p / 2 :: (upP lvl rest).1, (upP lvl rest).2)
    else (p / 2 :: (upP lvl (q :: rest)).1, sibOf lvl (p ^^^ 1) :: (upP lvl (q :: rest)).2)

/-- the `for l < len(Levels)-1` loop of `createProof`: final positions and all hints. -/
def proveLevels : List (List Bytes) → List Nat → List Nat × List Bytes
  | [], ps => (ps, [])
  | [_], ps => (ps, [])
  | l0 :: l1 :: rest, ps =>
    ((proveLevels (l1 :: rest) (upP l0 ps).1).1,
     (upP l0 ps).2 ++ (proveLevels (l1 :: rest) (upP l0 ps).1).2)

def insertNat (x : Nat) : List Nat → List Nat
  | [] => [x]
  | y :: ys => if x ≤ y then x :: y :: ys else y :: insertNat x ys

/-- `slices.Sort` -/
def sortNat : List Nat → List Nat
  | [] => []
  | x :: xs => insertNat x (sortNat xs)

/-- "Discard duplicates" of `createProof` (adjacent, input sorted) -/
def dedupAdj : List Nat → List Nat
  | [] => []
  | [a] => [a]
  | a :: b :: rest => if a = b then dedupAdj (b :: rest) else a :: dedupAdj (b :: rest)

structure Proof where
  path : List Bytes
  depth : Nat
deriving DecidableEq, Repr

inductive PErr | zeroCommitment | posOutOfBound | internal
deriving DecidableEq, Repr

def mapIdx (f : Nat → Option Nat) : List Nat → Option (List Nat)
  | [] => some []
  | i :: is =>
    match f i with
    | none => none
    | some j =>
      match mapIdx f is with
      | none => none
      | some js => some (j :: js)

/-- `Tree.Prove` -/
def prove (t : Tree) (idxs : List Nat) : Except PErr Proof :=
  if idxs = [] then .ok ⟨[], t.levels.length - 1⟩
  else if t.numElems = 0 then .error .zeroCommitment
  else if idxs.any (fun i => t.numElems ≤ i) then .error .posOutOfBound
  else
    match (if t.isVC then mapIdx (vcIndex (t.levels.length - 1)) idxs else some idxs) with
    | none => .error .posOutOfBound
    | some ix =>
      if (proveLevels t.levels (dedupAdj (sortNat ix))).1.length ≠ 1 then .error .internal
      else .ok ⟨(proveLevels t.levels (dedupAdj (sortNat ix))).2, t.levels.length - 1⟩

/-! ### Verify -/

structure Item where
  pos : Nat
  hash : Bytes
deriving DecidableEq, Repr

inductive VRes
  | ok | rootMismatch | posOutOfBound | nonEmptyProof | noHints | unexpectedDepth | invalidHash | panic | fuel
deriving DecidableEq, Repr

/-- the node `up` computes for the item at `pos` with hash `h` and sibling hash `sib` -/
def nodeFor (c : Cfg) (pos : Nat) (h sib : Bytes) : Option Bytes :=
  if pos % 2 = 0 then nodeHash c h sib else nodeHash c sib h

/-- `partialLayer.up` in proof mode (`doHash = true`, siblings from the hints) -/
def upV (c : Cfg) : List Item → List Bytes → Except VRes (List Item × List Bytes)
  | [], hs => .ok ([], hs)
  | [it], hs =>
    match hs with
    | [] => .error .noHints
    | s :: hs' =>
      match nodeFor c it.pos it.hash s with
      | none => .error .panic
      | some h => .ok ([⟨it.pos / 2, h⟩], hs')
  | it :: it2 :: rest, hs =>
    if it2.pos = it.pos ^^^ 1 then
      match nodeFor c it.pos it.hash it2.hash with
      | none => .error .panic
      | some h =>
        match upV c rest hs with
        | .error e => .error e
        | .ok r => .ok (⟨it.pos / 2, h⟩ :: r.1, r.2)
    else
      match hs with
      | [] => .error .noHints
      | s :: hs' =>
        match nodeFor c it.pos it.hash s with
        | none => .error .panic
        | some h =>
          match upV c (it2 :: rest) hs' with
          | .error e => .error e
          | .ok r => .ok (⟨it.pos / 2, h⟩ :: r.1, r.2)

/-- the loop of `verifyPath`: `for l := 0; len(hints) > 0 || len(pl) > 1; l++`; returns the number
of levels walked and the last partial layer.  Fuel `len(hints)+len(pl)` always suffices. -/
def verifyLoop (c : Cfg) : Nat → Nat → List Item → List Bytes → Except VRes (Nat × List Item)
  | 0, l, pl, hs => if hs = [] ∧ pl.length ≤ 1 then .ok (l, pl) else .error .fuel
  | fuel + 1, l, pl, hs =>
    if hs = [] ∧ pl.length ≤ 1 then .ok (l, pl)
    else
      match upV c pl hs with
      | .error e => .error e
      | .ok r => verifyLoop c fuel (l + 1) r.1 r.2

/-- `inspectRoot` (`pl[0]` on an empty layer would be an index panic; unreachable from Verify) -/
def inspectRoot (root : Bytes) : List Item → VRes
  | [] => .panic
  | it :: _ => if it.pos = 0 ∧ it.hash = root then .ok else .rootMismatch

def insertItem (x : Item) : List Item → List Item
  | [] => [x]
  | y :: ys => if x.pos ≤ y.pos then x :: y :: ys else y :: insertItem x ys

/-- `buildFirstPartialLayer`'s `sort.Slice` by position (keys of a Go map: distinct) -/
def sortItems : List Item → List Item
  | [] => []
  | x :: xs => insertItem x (sortItems xs)

/-- `Verify` (elems: the Go map as a list of `(position, pre-image)` with distinct positions) -/
def verify (c : Cfg) (root : Bytes) (elems : List (Nat × Bytes)) (pf : Proof) : VRes :=
  if c.checkHash = true ∧ c.hashValid = false then .invalidHash
  else if elems = [] then (if pf.path = [] then .ok else .nonEmptyProof)
  else if elems.any (fun ie => posBound pf.depth ≤ ie.1) then .posOutOfBound
  else
    match verifyLoop c (pf.path.length + elems.length) 0
            (sortItems (elems.map fun ie => ⟨ie.1, c.H ie.2⟩)) pf.path with
    | .error e => e
    | .ok r =>
      match inspectRoot root r.2 with
      | .ok => if c.checkDepth ∧ r.1 ≠ pf.depth then .unexpectedDepth else .ok
      | e => e

def mapElems (f : Nat → Option Nat) : List (Nat × Bytes) → Option (List (Nat × Bytes))
  | [] => some []
  | ie :: rest =>
    match f ie.1 with
    | none => none
    | some j =>
      match mapElems f rest with
      | none => none
      | some js => some ((j, ie.2) :: js)

/-- `VerifyVectorCommitment` -/
def verifyVC (c : Cfg) (root : Bytes) (elems : List (Nat × Bytes)) (pf : Proof) : VRes :=
  match mapElems (vcIndex pf.depth) elems with
  | none => .posOutOfBound
  | some el => verify c root el pf

end Model.MerkleArray
