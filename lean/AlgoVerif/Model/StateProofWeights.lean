/-
Model of crypto/stateproof/weights.go (getSubExpressions, numReveals, verifyWeights) and of the
rejection-sampling arithmetic of crypto/stateproof/coinGenerator.go (prepareRejectionSamplingThreshold,
getNextCoin), plus the `Ready` gate of prover.go.  Core Lean only.

Go `uint64` arguments are `Nat` (the theorems say where `< 2^64` matters), `*big.Int` values are `Int`.
What the Go code cannot compute is an explicit branch:
  * `getSubExpressions 0`: `uint(bits.Len64(0)) - 1` wraps to 2^64-1 and the following `Lsh` by 2^64-2 bits
    panics (makeslice: len out of range)  ⇒  `none` / `Err.panicAtZero`;
  * `prepareRejectionSamplingThreshold 0`: big.Int division by zero panics ⇒ `none`;
  * `getNextCoin` loops until a draw is below the threshold; the XOF is a list of 64-bit draws, running out of
    draws (a non-terminating loop on a finite script) is `none`.
`big.Int.Uint64()` returns the low 64 bits: modelled as `% 2^64`, and the `+ 1` on `uint64` wraps
(both unreachable after the `IsUint64`/`>= MaxReveals` guard of numReveals; `numRevealsTruncating` is the
unguarded formula the code had before that guard).
-/
namespace AlgoVerif.Model.StateProofWeights

/-! ### constants (const.go) — checked against the current tree on every run by the `consts` op (tie F) -/
def precisionBits : Nat := 16
def ln2IntApproximation : Nat := 45427
def MaxReveals : Nat := 640
def VersionForCoinGenerator : Nat := 0
/-- `const numberOfBitsPerAttempt = 64` local to prepareRejectionSamplingThreshold (observed through `thr`) -/
def numberOfBitsPerAttempt : Nat := 64

def two64 : Nat := 2 ^ 64

/-- `bits.Len64` for arguments below 2^64 (structural, fuel 64) -/
def lenFuel : Nat → Nat → Nat
  | 0, _ => 0
  | f + 1, x => if x = 0 then 0 else lenFuel f (x / 2) + 1

def len64 (x : Nat) : Nat := lenFuel 64 x

inductive Err where
  | tooManyReveals      -- ErrTooManyReveals
  | zeroSignedWeight    -- ErrZeroSignedWeight
  | insufficient        -- ErrInsufficientSignedWeight
  | negativeEquation    -- ErrNegativeNumOfRevealsEquation
  | panicAtZero         -- not an error value: the Go code panics (signedWeight = 0 reaching getSubExpressions)
  deriving DecidableEq, Repr

/-- the three big.Int results of getSubExpressions -/
structure Sub where
  y : Int
  x : Int
  w : Int
  deriving DecidableEq, Repr

/-- getSubExpressions: d = Len64(sw) - 1;  y = 2^2d + 2^(d+2)·sw + sw²;  x = (sw² - 2^2d)·3·2^b;  w = d·(T-1) -/
def getSubExpressions (signedWeight : Nat) : Option Sub :=
  if signedWeight = 0 then none else
  let d : Nat := len64 signedWeight - 1
  let signedWtPower2 : Int := (signedWeight : Int) * (signedWeight : Int)
  let tmp : Int := (2 : Int) ^ (d + 2) * (signedWeight : Int)
  let y : Int := (2 : Int) ^ (2 * d) + tmp + signedWtPower2
  let x : Int := (signedWtPower2 - (2 : Int) ^ (2 * d)) * 3 * ((2 ^ precisionBits : Nat) : Int)
  let w : Int := (d : Int) * ((ln2IntApproximation - 1 : Nat) : Int)
  some ⟨y, x, w⟩

/-- numerator = strengthTarget · T · y -/
def numerator (s : Sub) (strengthTarget : Nat) : Int :=
  (strengthTarget : Int) * (ln2IntApproximation : Int) * s.y

/-- denom = x + (w - lnProvenWeight) · y -/
def denom (s : Sub) (lnProvenWeight : Nat) : Int :=
  s.x + (s.w - (lnProvenWeight : Int)) * s.y

/-- the big.Int quotient `numerator.Div(numerator, denom)` (Euclidean, as Lean's `/` on `Int`) -/
def quotient (s : Sub) (lnProvenWeight strengthTarget : Nat) : Int :=
  numerator s strengthTarget / denom s lnProvenWeight

/-- `big.Int.IsUint64()` -/
def isUint64 (q : Int) : Bool := decide (0 ≤ q) && decide (q < (two64 : Int))

/-- `big.Int.Uint64()`: the low 64 bits of |q| (exact when `isUint64 q`) -/
def toUint64 (q : Int) : Nat := q.natAbs % two64

/-- numReveals (with the bound check on the quotient BEFORE it is narrowed to uint64):
```
quo := numerator.Div(numerator, denom)
if !quo.IsUint64() || quo.Uint64() >= MaxReveals { return 0, ErrTooManyReveals }
return quo.Uint64() + 1, nil
``` -/
def numReveals (signedWeight lnProvenWeight strengthTarget : Nat) : Except Err Nat :=
  match getSubExpressions signedWeight with
  | none => .error .panicAtZero
  | some s =>
    if denom s lnProvenWeight ≤ 0 then .error .negativeEquation else
    let quo := quotient s lnProvenWeight strengthTarget
    if !isUint64 quo || decide (toUint64 quo ≥ MaxReveals) then .error .tooManyReveals
    else .ok ((toUint64 quo + 1) % two64)

/-- `q.Uint64() + 1` on uint64: low 64 bits of |q|, then a wrapping add -/
def truncPlusOne (q : Int) : Nat := (toUint64 q + 1) % two64

/-- The formula BEFORE the fix (`res := numerator.Div(numerator, denom).Uint64() + 1; if res > MaxReveals …`):
    the quotient was narrowed to its low 64 bits first and only then compared with MaxReveals.
    Kept to document the defect (`Props.C38.truncation_counterexample`). -/
def numRevealsTruncating (signedWeight lnProvenWeight strengthTarget : Nat) : Except Err Nat :=
  match getSubExpressions signedWeight with
  | none => .error .panicAtZero
  | some s =>
    if denom s lnProvenWeight ≤ 0 then .error .negativeEquation else
    let res := truncPlusOne (quotient s lnProvenWeight strengthTarget)
    if res > MaxReveals then .error .tooManyReveals else .ok res

/-- lhs = numReveals · (x + w·y) -/
def lhs (s : Sub) (numOfReveals : Nat) : Int := (numOfReveals : Int) * (s.x + s.w * s.y)

/-- rhs = (strengthTarget·T + numReveals·lnProvenWeight) · y -/
def rhs (s : Sub) (lnProvenWeight numOfReveals strengthTarget : Nat) : Int :=
  ((strengthTarget : Int) * (ln2IntApproximation : Int) + (numOfReveals : Int) * (lnProvenWeight : Int)) * s.y

def verifyWeights (signedWeight lnProvenWeight numOfReveals strengthTarget : Nat) : Except Err Unit :=
  if numOfReveals > MaxReveals then .error .tooManyReveals else
  if signedWeight = 0 then .error .zeroSignedWeight else
  match getSubExpressions signedWeight with
  | none => .error .panicAtZero
  | some s =>
    if lhs s numOfReveals < rhs s lnProvenWeight numOfReveals strengthTarget then .error .insufficient else .ok ()

/-! ### prover.go: `Ready` and the call site of numReveals in CreateProof -/

/-- `Prover.Ready()`: `cachedProof != nil || signedWeight > ProvenWeight` -/
def ready (cached : Bool) (signedWeight provenWeight : Nat) : Bool :=
  cached || decide (signedWeight > provenWeight)

/-- the part of CreateProof before the coin loop: cached proof returned first (`none` = no numReveals call),
    then the Ready gate, then numReveals on the accumulated signed weight -/
def createProofReveals (cached : Bool) (signedWeight provenWeight lnProvenWeight strengthTarget : Nat) :
    Option (Except Err Nat) :=
  if cached then none
  else if !ready cached signedWeight provenWeight then none
  else some (numReveals signedWeight lnProvenWeight strengthTarget)

/-! ### coinGenerator.go -/

/-- prepareRejectionSamplingThreshold: (2^64 div signedWeight) · signedWeight; division by zero panics -/
def threshold (signedWeight : Nat) : Option Nat :=
  if signedWeight = 0 then none
  else some ((2 ^ numberOfBitsPerAttempt / signedWeight) * signedWeight)

/-- getNextCoin's loop over the XOF draws: skip draws `≥ threshold`, return `draw % signedWeight`,
    the number of draws consumed and the remaining stream -/
def nextCoinLoop (signedWeight thr : Nat) : List Nat → Nat → Option (Nat × Nat × List Nat)
  | [], _ => none
  | z :: rest, used =>
    if z < thr then some (z % signedWeight, used + 1, rest)
    else nextCoinLoop signedWeight thr rest (used + 1)

def getNextCoin (signedWeight : Nat) (draws : List Nat) : Option (Nat × Nat × List Nat) :=
  match threshold signedWeight with
  | none => none
  | some thr => nextCoinLoop signedWeight thr draws 0

/-- n successive coins from one generator -/
def coins (signedWeight : Nat) : Nat → List Nat → Option (List Nat)
  | 0, _ => some []
  | n + 1, draws =>
    match getNextCoin signedWeight draws with
    | none => none
    | some (c, _, rest) =>
      match coins signedWeight n rest with
      | none => none
      | some cs => some (c :: cs)

end AlgoVerif.Model.StateProofWeights
