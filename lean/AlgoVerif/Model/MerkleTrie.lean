/-
Model of crypto/merkletrie (node.go, trie.go) — the LOGICAL trie, node ids / pages abstracted away.

Go `node` = { hash []byte; children []childEntry{id, hashIndex}; childrenMask bitset }, `leaf()` ⇔ no children.
 * a leaf keeps the remaining key suffix in `hash`;
 * a non-leaf keeps its root path in `hash` until `calculateHash` replaces it by
   H(len path ‖ path ‖ Σ_children (leafFlag ‖ len childHash ‖ hashIndex ‖ childHash)).
Here:  `T.leaf suffix | T.node children`, `children : Cs` = the `[]childEntry` slice with the child
node inlined in place of its id (`Cs.cons hashIndex child rest`).  `childrenMask` is redundant with the
children's `hashIndex` set (the harness checks that redundancy on the real nodes in every `dump`) and is
not represented: `mask.Bit(b)` is modelled as "some child has hashIndex b".

Everything the Go code would answer with an index-out-of-range panic (key exhausted at a non-leaf, adding a
key equal to / of other length than a leaf, removing below a leaf) is an explicit `none`.
Core Lean only.
-/
namespace Model.MerkleTrie

abbrev Key := List UInt8

mutual
inductive T where
  | leaf (suffix : Key)
  | node (children : Cs)
  deriving DecidableEq
inductive Cs where
  | nil
  | cons (idx : UInt8) (child : T) (rest : Cs)
  deriving DecidableEq
end

def T.isLeaf : T → Bool
  | .leaf _ => true
  | .node _ => false

/-- node.add, leaf case: `idiff` = first differing index; the two suffixes become leaves under a new
two-child node (ordered by byte), and one single-child ancestor is created per common-prefix byte
(`for i := idiff-1; i >= 0; i--`). `none`: no differing index inside both slices (Go panics). -/
def split : Key → Key → Option T
  | a :: s, b :: d =>
    if a = b then (split s d).map fun t => T.node (.cons a t .nil)
    else if a < b then some (.node (.cons a (.leaf s) (.cons b (.leaf d) .nil)))
    else some (.node (.cons b (.leaf d) (.cons a (.leaf s) .nil)))
  | _, _ => none

mutual
/-- node.add (assumption of the Go code: the key is absent) -/
def T.add : T → Key → Option T
  | .leaf s, d => split s d
  | .node _, [] => none
  | .node cs, b :: d => (cs.add b d).map T.node
/-- the non-leaf part of node.add as one walk over the sorted children: no child with index `b` ⇒ the new
leaf is inserted before the first larger index / appended; child with index `b` ⇒ recurse into it
(`pnode.children[curNodeIndex].id = updatedChild`). -/
def Cs.add : Cs → UInt8 → Key → Option Cs
  | .nil, b, d => some (.cons b (.leaf d) .nil)
  | .cons c t rest, b, d =>
    if b < c then some (.cons b (.leaf d) (.cons c t rest))
    else if b = c then (t.add d).map fun t' => .cons c t' rest
    else (rest.add b d).map fun r => .cons c t r
end

mutual
/-- node.find -/
def T.find : T → Key → Option Bool
  | .leaf s, d => some (decide (d = s))
  | .node _, [] => none
  | .node cs, b :: d => cs.find b d
def Cs.find : Cs → UInt8 → Key → Option Bool
  | .nil, _, _ => some false
  | .cons c t rest, b, d => if b = c then t.find d else rest.find b d
end

/-- "at this point, we might end up with a single leaf child. collapse that." -/
def collapse : Cs → T
  | .cons b (.leaf s) .nil => .leaf (b :: s)
  | cs => .node cs

mutual
/-- node.remove (called on non-leaf nodes only; assumption of the Go code: the key is present) -/
def T.remove : T → Key → Option T
  | .leaf _, _ => none
  | .node _, [] => none
  | .node cs, b :: d => (cs.remove b d).map collapse
/-- `childIndex := n.indexOf(key[0])` = first child whose index is ≥ key[0]; a leaf child is dropped from
the slice, a non-leaf child is replaced by the result of the recursive remove. -/
def Cs.remove : Cs → UInt8 → Key → Option Cs
  | .nil, _, _ => none
  | .cons c t rest, b, d =>
    if b ≤ c then
      (if t.isLeaf then some rest else (t.remove d).map fun t' => .cons c t' rest)
    else (rest.remove b d).map fun r => .cons c t r
end

mutual
/-- the keys stored below a node, in child order -/
def T.keys : T → List Key
  | .leaf s => [s]
  | .node cs => cs.keys
def Cs.keys : Cs → List Key
  | .nil => []
  | .cons c t rest => (t.keys.map (c :: ·)) ++ rest.keys
end

def byteOfLen (n : Nat) : UInt8 := UInt8.ofNat n   -- Go: byte(len(x))

mutual
/-- `node.hash` after calculateHash: the suffix for a leaf, the digest for a non-leaf at root path `path` -/
def T.hash (H : Key → Key) : T → Key → Key
  | .leaf s, _ => s
  | .node cs, path => H (byteOfLen path.length :: (path ++ cs.hashAcc H path))
def Cs.hashAcc (H : Key → Key) : Cs → Key → Key
  | .nil, _ => []
  | .cons c t rest, path =>
    let h := t.hash H (path ++ [c])
    (if t.isLeaf then (0 : UInt8) else 1) :: byteOfLen h.length :: c :: (h ++ rest.hashAcc H path)
end

mutual
def T.nodeCount : T → Nat
  | .leaf _ => 1
  | .node cs => 1 + cs.nodeCount
def Cs.nodeCount : Cs → Nat
  | .nil => 0
  | .cons _ t rest => t.nodeCount + rest.nodeCount
end

mutual
def T.leafCount : T → Nat
  | .leaf _ => 1
  | .node cs => cs.leafCount
def Cs.leafCount : Cs → Nat
  | .nil => 0
  | .cons _ t rest => t.leafCount + rest.leafCount
end

mutual
/-- Stats.Depth: depth of the deepest leaf, the root counting 1 -/
def T.depth : T → Nat
  | .leaf _ => 1
  | .node cs => 1 + cs.depth
def Cs.depth : Cs → Nat
  | .nil => 0
  | .cons _ t rest => max t.depth rest.depth
end

/-! ### trie.go -/

/-- `Trie{root, elementLength}` (root = none ⇔ storedNodeIdentifierNull) -/
structure Trie where
  root : Option T
  elemLen : Nat

def Trie.empty : Trie := ⟨none, 0⟩

inductive Err where
  | length   -- ErrMismatchingElementLength
  | panic    -- an index-out-of-range panic of the Go code
  deriving DecidableEq, Repr

/-- Trie.Add: result flag and new trie -/
def Trie.add (tr : Trie) (d : Key) : Except Err (Bool × Trie) :=
  match tr.root with
  | none => .ok (true, ⟨some (.leaf d), d.length⟩)
  | some t =>
    if d.length ≠ tr.elemLen then .error .length else
    match t.find d with
    | none => .error .panic
    | some true => .ok (false, tr)
    | some false =>
      match t.add d with
      | none => .error .panic
      | some t' => .ok (true, ⟨some t', tr.elemLen⟩)

/-- Trie.Delete -/
def Trie.delete (tr : Trie) (d : Key) : Except Err (Bool × Trie) :=
  match tr.root with
  | none => .ok (false, tr)
  | some t =>
    if d.length ≠ tr.elemLen then .error .length else
    match t.find d with
    | none => .error .panic
    | some false => .ok (false, tr)
    | some true =>
      if t.isLeaf then .ok (true, ⟨none, 0⟩) else
      match t.remove d with
      | none => .error .panic
      | some t' => .ok (true, ⟨some t', tr.elemLen⟩)

def zeroDigest : Key := List.replicate 32 0

/-- Trie.RootHash -/
def rootHash (H : Key → Key) : Option T → Key
  | none => zeroDigest
  | some (.leaf s) => H (0 :: s)
  | some (.node cs) => H (1 :: (T.node cs).hash H [])

def Trie.keys (tr : Trie) : List Key :=
  match tr.root with
  | none => []
  | some t => t.keys

/-! ### canonical form, defined from the key set alone -/

def allBytes : List UInt8 := (List.range 256).map UInt8.ofNat

/-- the keys of `S` that start with `b`, with that byte removed -/
def sub (S : List Key) (b : UInt8) : List Key :=
  S.filterMap fun k => match k with
    | c :: k' => if c = b then some k' else none
    | [] => none

/-- children of the canonical node for `S`: one child per byte that starts some key, in byte order -/
def canonCs (f : List Key → Option T) (S : List Key) : List UInt8 → Cs
  | [] => .nil
  | b :: bs =>
    match f (sub S b) with
    | none => canonCs f S bs
    | some t => .cons b t (canonCs f S bs)

/-- canonical trie of a finite set `S` (as a list, order and repetitions irrelevant) of keys of length `n`:
empty set ⇒ no root; a single key ⇒ a leaf; otherwise a node with one canonical child per first byte. -/
def canon : Nat → List Key → Option T
  | _, [] => none
  | 0, _ :: _ => some (.leaf [])
  | n + 1, k :: S =>
    if S.all (fun k' => decide (k' = k)) then some (.leaf k)
    else some (.node (canonCs (canon n) (k :: S) allBytes))

/-! ### abstract store layer: the committed image and the in-memory image of the logical trie -/

/-- `cur` = what the Trie object answers from (cache + pending nodes), `persisted` = what the committer's
pages decode to, `modified` = cache.modified. -/
structure Store where
  cur : Trie
  persisted : Trie
  modified : Bool

def Store.empty : Store := ⟨Trie.empty, Trie.empty, false⟩

/-- Trie.Commit -/
def Store.commit (σ : Store) : Store := ⟨σ.cur, σ.cur, false⟩
/-- Trie.Evict(commit): `none` = ErrUnableToEvictPendingCommits -/
def Store.evict (σ : Store) (commit : Bool) : Option Store :=
  if σ.modified then (if commit then some σ.commit else none) else some σ
/-- MakeTrie over the same committer: everything not committed is gone -/
def Store.reload (σ : Store) : Store := ⟨σ.persisted, σ.persisted, false⟩
/-- Trie.RootHash: commits first when modified (unless the trie is empty) -/
def Store.root (H : Key → Key) (σ : Store) : Key × Store :=
  match σ.cur.root with
  | none => (zeroDigest, σ)
  | some t => (rootHash H (some t), if σ.modified then σ.commit else σ)
def Store.add (σ : Store) (d : Key) : Except Err (Bool × Store) :=
  match σ.cur.add d with
  | .error e => .error e
  | .ok (r, tr) => .ok (r, ⟨tr, σ.persisted, σ.modified || r⟩)
def Store.delete (σ : Store) (d : Key) : Except Err (Bool × Store) :=
  match σ.cur.delete d with
  | .error e => .error e
  | .ok (r, tr) => .ok (r, ⟨tr, σ.persisted, σ.modified || r⟩)

/-! ### set-level specification: what the trie is supposed to implement -/

/-- the element set (no repetitions; all keys of one length, fixed by the first insertion) with its
committed image -/
structure SetStore where
  cur : List Key
  persisted : List Key
  modified : Bool

def SetStore.empty : SetStore := ⟨[], [], false⟩

def elemLenOf : List Key → Nat
  | [] => 0
  | k :: _ => k.length

def setAdd (S : List Key) (d : Key) : Except Err (Bool × List Key) :=
  match S with
  | [] => .ok (true, [d])
  | k :: _ =>
    if d.length ≠ k.length then .error .length
    else if d ∈ S then .ok (false, S) else .ok (true, d :: S)

def setDelete (S : List Key) (d : Key) : Except Err (Bool × List Key) :=
  match S with
  | [] => .ok (false, S)
  | k :: _ =>
    if d.length ≠ k.length then .error .length
    else if d ∈ S then .ok (true, S.filter (fun k' => decide (k' ≠ d))) else .ok (false, S)

def SetStore.add (σ : SetStore) (d : Key) : Except Err (Bool × SetStore) :=
  match setAdd σ.cur d with
  | .error e => .error e
  | .ok (r, S) => .ok (r, ⟨S, σ.persisted, σ.modified || r⟩)
def SetStore.delete (σ : SetStore) (d : Key) : Except Err (Bool × SetStore) :=
  match setDelete σ.cur d with
  | .error e => .error e
  | .ok (r, S) => .ok (r, ⟨S, σ.persisted, σ.modified || r⟩)
def SetStore.commit (σ : SetStore) : SetStore := ⟨σ.cur, σ.cur, false⟩
def SetStore.evict (σ : SetStore) (commit : Bool) : Option SetStore :=
  if σ.modified then (if commit then some σ.commit else none) else some σ
def SetStore.reload (σ : SetStore) : SetStore := ⟨σ.persisted, σ.persisted, false⟩
/-- the canonical root hash of a set -/
def canonRoot (H : Key → Key) (S : List Key) : Key := rootHash H (canon (elemLenOf S) S)
def SetStore.root (H : Key → Key) (σ : SetStore) : Key × SetStore :=
  match σ.cur with
  | [] => (zeroDigest, σ)
  | _ :: _ => (canonRoot H σ.cur, if σ.modified then σ.commit else σ)

/-! ### histories -/

/-- one operation of a history (a `reload` while modified is a crash: uncommitted work is lost) -/
inductive Op where
  | add (k : Key)
  | del (k : Key)
  | commit
  | evict (commit : Bool)
  | reload
  | root

/-- what the caller observes -/
inductive Out where
  | flag (b : Bool)
  | err (e : Err)
  | ok
  | pending            -- ErrUnableToEvictPendingCommits
  | digest (h : Key)
  deriving DecidableEq

def Store.step (H : Key → Key) (σ : Store) : Op → Store × Out
  | .add k => match σ.add k with
    | .ok (r, σ') => (σ', .flag r)
    | .error e => (σ, .err e)
  | .del k => match σ.delete k with
    | .ok (r, σ') => (σ', .flag r)
    | .error e => (σ, .err e)
  | .commit => (σ.commit, .ok)
  | .evict c => match σ.evict c with
    | some σ' => (σ', .ok)
    | none => (σ, .pending)
  | .reload => (σ.reload, .ok)
  | .root => let r := σ.root H; (r.2, .digest r.1)

def SetStore.step (H : Key → Key) (σ : SetStore) : Op → SetStore × Out
  | .add k => match σ.add k with
    | .ok (r, σ') => (σ', .flag r)
    | .error e => (σ, .err e)
  | .del k => match σ.delete k with
    | .ok (r, σ') => (σ', .flag r)
    | .error e => (σ, .err e)
  | .commit => (σ.commit, .ok)
  | .evict c => match σ.evict c with
    | some σ' => (σ', .ok)
    | none => (σ, .pending)
  | .reload => (σ.reload, .ok)
  | .root => let r := σ.root H; (r.2, .digest r.1)

/-- run a history, collecting the observations -/
def Store.run (H : Key → Key) : Store → List Op → Store × List Out
  | σ, [] => (σ, [])
  | σ, op :: ops =>
    let r := σ.step H op
    let rest := Store.run H r.1 ops
    (rest.1, r.2 :: rest.2)

def SetStore.run (H : Key → Key) : SetStore → List Op → SetStore × List Out
  | σ, [] => (σ, [])
  | σ, op :: ops =>
    let r := σ.step H op
    let rest := SetStore.run H r.1 ops
    (rest.1, r.2 :: rest.2)

end Model.MerkleTrie
