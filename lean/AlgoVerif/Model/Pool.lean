/-
Model.Pool — executable model of the transaction pool, data/pools/transactionPool.go:
  Remember → checkPendingQueueSize, remember → ingest (checkSufficientFee / computeFeePerByte, addToPendingBlockEvaluator /
  addToPendingBlockEvaluatorOnce), rememberCommit; OnNewBlock (fee-multiplier adjustment) → recomputeBlockEvaluator;
  AssembleDevModeBlock's recompute; PendingTxGroups / PendingTxIDs.
Core Lean only (linked into the `c44` driver).  Serves C44.

The pool is modelled over an ABSTRACT ledger evaluator (`Ledger S`): `tryGroup` is `BlockEvaluator.TransactionGroup` on an
evaluator state `S` (three outcomes: accepted with a new state, `ErrNoSpace`, any other error; a call that does not accept leaves
the evaluator state unchanged, which is what the Go evaluator does: the child cow is discarded), `resetBytes` is `ResetTxnBytes`.
Transactions are an abstract type `τ` seen through a `View` (txid, FirstValid, LastValid, fee, encoded length, is-state-proof,
sender-is-StateProofSender): exactly the fields the pool itself reads.

WHAT IS MODELLED, AS CODED
* `checkPendingQueueSize`: `len(pendingTxids) + len(group) > txPoolMaxSize` → `ErrPendingQueueReachedMaxCap`, EXCEPT that a singleton
  state-proof group passes once per recompute (`stateproofOverflowed`, set even when the group is rejected later, cleared by
  `rememberCommit(true)`).  `pendingTxids` is a Go map: the model keeps its key set `ids` (insertion skips a key already present).
* `checkSufficientFee` / `computeFeePerByte` with uint64 wrap-around; the free state-proof exemption.
* `addToPendingBlockEvaluatorOnce`: the pool's own expiry test `LastValid < evaluator round + numPendingWholeBlocks`, then
  `TransactionGroup`; `addToPendingBlockEvaluator`: on `ErrNoSpace` `numPendingWholeBlocks++`, `ResetTxnBytes`, ONE retry (the
  counter and the reset stay even when the retry fails).
* `OnNewBlock`: ignored when `block.Round() < pendingBlockEvaluator.Round()`; the fee multiplier is adjusted from
  `numPendingWholeBlocks`; `recomputeBlockEvaluator`: new evaluator, `numPendingWholeBlocks = 0`, the pending groups are fed IN ORDER,
  skipping empty groups and groups whose FIRST transaction id is in the block's `delta.Txids`, dropping every group the evaluator
  (or the expiry test) rejects; `pendingTxids` rebuilt; `stateproofOverflowed = false`.

WHAT IS NOT MODELLED
* locks, condition variables, the wait of `ingest` for `OnNewBlock` to catch up, assembly deadlines and `AssembleBlock`'s result
  (timing); the status cache, metrics and logging; `pendingBlockEvaluator == nil` (a failing `StartEvaluator` / unknown protocol:
  the new evaluator state is an argument of the op, i.e. starting the evaluator is assumed to succeed); `Shutdown`; `Test`.
-/
namespace AlgoVerif.Model.Pool

/-- 2^64 -/
def M64 : Nat := 18446744073709551616

/-- what the pool reads of a transaction -/
structure View (τ ι : Type) where
  id : τ → ι            -- t.ID()
  fv : τ → Nat          -- Txn.FirstValid (window information; the pool itself never reads it)
  lv : τ → Nat          -- Txn.LastValid
  fee : τ → Nat         -- Txn.Fee.Raw
  len : τ → Nat         -- GetEncodedLength()
  sp : τ → Bool         -- Txn.Type == protocol.StateProofTx
  spSender : τ → Bool   -- Txn.Sender == transactions.StateProofSender

/-- outcome of `BlockEvaluator.TransactionGroup` -/
inductive Verdict (S : Type)
  | ok (s : S)
  | noSpace
  | err (c : String)
deriving DecidableEq, Repr

/-- the ledger's block evaluator, abstractly -/
structure Ledger (S τ : Type) where
  tryGroup : S → List τ → Verdict S
  resetBytes : S → S

structure Cfg where
  maxSize : Nat     -- txPoolMaxSize
  factor : Nat      -- expFeeFactor (MakeTransactionPool raises 0 to 1)

/-- result of Remember (error class) -/
inductive Outcome
  | ok | cap | fee | dead | noSpace
  | err (c : String)
deriving DecidableEq, Repr

structure Pool (S τ ι : Type) where
  base : S                   -- ghost: the evaluator state right after StartEvaluator (only the invariant mentions it)
  round : Nat                -- pendingBlockEvaluator.Round()
  cur : S                    -- pendingBlockEvaluator
  pending : List (List τ)    -- pendingTxGroups
  ids : List ι               -- key set of pendingTxids
  whole : Nat                -- numPendingWholeBlocks
  mult : Nat                 -- feeThresholdMultiplier
  spOver : Bool              -- stateproofOverflowed

section
variable {S τ ι : Type} [DecidableEq ι]

/-- pendingCountNoLock -/
def txCount (gs : List (List τ)) : Nat := (gs.map List.length).sum

def idsOf (V : View τ ι) (gs : List (List τ)) : List ι := gs.flatten.map V.id

/-- `len(txnGroup) == 1 && txnGroup[0].Txn.Type == protocol.StateProofTx` -/
def isSPSingle (V : View τ ι) (g : List τ) : Bool :=
  match g with
  | [t] => V.sp t
  | _ => false

/-- number of pending singleton state-proof groups -/
def spSingles (V : View τ ι) (gs : List (List τ)) : Nat := (gs.filter (isSPSingle V)).length

/-- `pool.rememberedTxids[t.ID()] = t` for the members of a group -/
def insertIds (V : View τ ι) (ids : List ι) (g : List τ) : List ι := g.foldl (fun acc t => acc.insert (V.id t)) ids

/-- `checkPendingQueueSize`: (passes, new stateproofOverflowed) -/
def checkCap (V : View τ ι) (C : Cfg) (P : Pool S τ ι) (g : List τ) : Bool × Bool :=
  if C.maxSize < P.ids.length + g.length then
    if isSPSingle V g ∧ P.spOver = false then (true, true) else (false, P.spOver)
  else (true, P.spOver)

def mul64 (a b : Nat) : Nat := (a * b) % M64

/-- `for i := 0; i < n; i++ { feePerByte *= expFeeFactor }` -/
def powLoop (f : Nat) : Nat → Nat → Nat
  | 0, x => x
  | n + 1, x => powLoop f n (mul64 x f)

/-- `computeFeePerByte` -/
def feePerByte (C : Cfg) (whole mult : Nat) : Nat :=
  let f1 := if mult = 0 ∧ 1 < whole then 1 else mult
  powLoop C.factor (whole - 1) f1

/-- `checkSufficientFee` -/
def feeOk (V : View τ ι) (C : Cfg) (whole mult : Nat) (g : List τ) : Bool :=
  let general := g.all (fun t => ! decide (V.fee t < mul64 (feePerByte C whole mult) (V.len t)))
  match g with
  | [t] => if V.sp t ∧ V.spSender t ∧ V.fee t = 0 then true else general
  | _ => general

/-- the expiry loop of `addToPendingBlockEvaluatorOnce` -/
def deadAt (V : View τ ι) (r : Nat) (g : List τ) : Bool := g.any (fun t => decide (V.lv t < r))

/-- `addToPendingBlockEvaluator`: (evaluator state, numPendingWholeBlocks, result) -/
def addEval (V : View τ ι) (L : Ledger S τ) (round : Nat) (s : S) (whole : Nat) (g : List τ) : S × Nat × Outcome :=
  if deadAt V (round + whole) g then (s, whole, .dead)
  else
    match L.tryGroup s g with
    | .ok s' => (s', whole, .ok)
    | .err c => (s, whole, .err c)
    | .noSpace =>
      let s1 := L.resetBytes s
      if deadAt V (round + (whole + 1)) g then (s1, whole + 1, .dead)
      else
        match L.tryGroup s1 g with
        | .ok s' => (s', whole + 1, .ok)
        | .err c => (s1, whole + 1, .err c)
        | .noSpace => (s1, whole + 1, .noSpace)

/-- `Remember` -/
def remember (V : View τ ι) (C : Cfg) (L : Ledger S τ) (P : Pool S τ ι) (g : List τ) : Pool S τ ι × Outcome :=
  let cc := checkCap V C P g
  let P1 := { P with spOver := cc.2 }
  if cc.1 = false then (P1, .cap)
  else if feeOk V C P.whole P.mult g = false then (P1, .fee)
  else
    let r := addEval V L P.round P.cur P.whole g
    let P2 := { P1 with cur := r.1, whole := r.2.1 }
    match r.2.2 with
    | .ok => ({ P2 with pending := P.pending ++ [g], ids := insertIds V P.ids g }, .ok)
    | e => (P2, e)

/-- the feeding loop of `recomputeBlockEvaluator`: (kept groups, evaluator state, numPendingWholeBlocks) -/
def refeed (V : View τ ι) (L : Ledger S τ) (round : Nat) (committed : List ι) : List (List τ) → S → Nat → List (List τ) × S × Nat
  | [], s, w => ([], s, w)
  | g :: gs, s, w =>
    match g with
    | [] => refeed V L round committed gs s w
    | t :: _ =>
      if V.id t ∈ committed then refeed V L round committed gs s w
      else
        let r := addEval V L round s w g
        let rest := refeed V L round committed gs r.1 r.2.1
        match r.2.2 with
        | .ok => (g :: rest.1, rest.2)
        | _ => rest

/-- `recomputeBlockEvaluator(committedTxIDs)` given the freshly started evaluator -/
def recompute (V : View τ ι) (L : Ledger S τ) (P : Pool S τ ι) (start : S) (evalRound : Nat) (committed : List ι) (mult : Nat) : Pool S τ ι :=
  let r := refeed V L evalRound committed P.pending start 0
  { base := start, round := evalRound, cur := r.2.1, pending := r.1, ids := r.1.foldl (insertIds V) [], whole := r.2.2,
    mult := mult, spOver := false }

/-- the fee-multiplier switch of `OnNewBlock` -/
def adjustMult (C : Cfg) (whole mult : Nat) : Nat :=
  match whole with
  | 0 => mult / C.factor
  | 1 => mult
  | _ => if mult = 0 then 1 else mul64 mult C.factor

/-- what a new block brings: its round, `delta.Txids`, and the evaluator started on the new latest block -/
structure NewBlock (S ι : Type) where
  blockRound : Nat
  committed : List ι
  start : S
  evalRound : Nat

/-- `OnNewBlock` -/
def onNewBlock (V : View τ ι) (C : Cfg) (L : Ledger S τ) (P : Pool S τ ι) (b : NewBlock S ι) : Pool S τ ι :=
  if b.blockRound < P.round then P
  else recompute V L P b.start b.evalRound b.committed (adjustMult C P.whole P.mult)

/-- `MakeTransactionPool` (its `recomputeBlockEvaluator(nil, 0)` on an empty pool) -/
def init (start : S) (evalRound : Nat) : Pool S τ ι :=
  { base := start, round := evalRound, cur := start, pending := [], ids := [], whole := 0, mult := 0, spOver := false }

inductive Op (S τ ι : Type)
  | remember (g : List τ)
  | newBlock (b : NewBlock S ι)
  | recompute (start : S) (evalRound : Nat)     -- AssembleDevModeBlock: recomputeBlockEvaluator(nil, 0)

def step (V : View τ ι) (C : Cfg) (L : Ledger S τ) (P : Pool S τ ι) : Op S τ ι → Pool S τ ι
  | .remember g => (remember V C L P g).1
  | .newBlock b => onNewBlock V C L P b
  | .recompute start r => recompute V L P start r [] P.mult

def run (V : View τ ι) (C : Cfg) (L : Ledger S τ) (P : Pool S τ ι) (ops : List (Op S τ ι)) : Pool S τ ι :=
  ops.foldl (step V C L) P

end
end AlgoVerif.Model.Pool
